import PV.Lemmas.IPCMap
set_option linter.unusedSimpArgs false
/-!
`KeyInv k s L` — "the segment of name `k` exists": the name is bound to object `s` of `L ≠ 0` bytes,
every live PShm handle of `k` is mapped to `s` (shared, writable unless read-only, reported size ≤ L),
every `p_shm_new (k)` in flight is a follower that has so far only seen `s`, and nobody is about to
`ftruncate` `s`.  Together with `MapInv` it is preserved by EVERY action of every schedule that
contains no `shm_unlink (k)` — the follower's own system calls may interleave arbitrarily with
those of other threads and processes.
-/
namespace PV.IPC
open PV.Generated.IPC

/-! ## what one system call does to descriptors, segment sizes and other processes -/

theorem sysStep_procs_other (p q : Pid) (i : Bool) (c : Sys) (os : OS) (h : q ≠ p) :
    (sysStep p i c os).1.procs q = os.procs q := by
  unfold sysStep
  split
  · rfl
  · cases c <;> simp only [OS.setProc, semOpenF, shmOpenF] <;> (repeat' split) <;> simp [h]

theorem lookupFd_cons_lt (pr : Proc) (fd0 : Nat) (s : SegId) (h : fd0 < pr.nextFd) (fds : List (Nat × SegId))
    (e : fds = (pr.nextFd, s) :: pr.fds) :
    (fds.find? (·.1 = fd0)).map (·.2) = lookupFd pr fd0 := by
  subst e
  have : pr.nextFd ≠ fd0 := by omega
  simp [lookupFd, List.find?_cons, this]

theorem lookupFd_filter (fds : List (Nat × SegId)) (fd fd0 : Nat) (s : SegId)
    (h : ((fds.filter (·.1 ≠ fd)).find? (·.1 = fd0)).map (·.2) = some s) :
    (fds.find? (·.1 = fd0)).map (·.2) = some s := by
  induction fds with
  | nil => simp at h
  | cons x xs ih =>
    by_cases e : x.1 = fd
    · have hne : (decide (x.1 ≠ fd)) = false := by simp [e]
      simp only [List.filter_cons, hne] at h
      have h' := ih h
      by_cases e0 : x.1 = fd0
      · -- x is removed by the filter but matches fd0: then fd0 = fd and nothing with key fd survives
        exfalso
        have : fd0 = fd := by rw [← e0, e]
        subst this
        have : ∀ l : List (Nat × SegId), ((l.filter (·.1 ≠ fd0)).find? (·.1 = fd0)) = none := by
          intro l
          induction l with
          | nil => rfl
          | cons y ys ihy =>
            by_cases ey : y.1 = fd0
            · simp [List.filter_cons, ey, ihy]
            · simp [List.filter_cons, ey, List.find?_cons, ihy]
        simp only [Bool.false_eq_true, if_false] at h
        rw [this xs] at h
        simp at h
      · simp [List.find?_cons, e0, h']
    · have hne : (decide (x.1 ≠ fd)) = true := by simp [e]
      simp only [List.filter_cons, hne, if_true, List.find?_cons] at h ⊢
      by_cases e0 : x.1 = fd0
      · simp [e0] at h ⊢; exact h
      · simp only [e0, decide_false] at h ⊢
        exact ih h

theorem shmOpenF_procs (os : OS) (p : Pid) (k : ShmKey) (fl : Nat) :
    (shmOpenF os p k fl).1.procs p = os.procs p ∨
    ∃ s0, (shmOpenF os p k fl).1.procs p =
      { (os.procs p) with fds := ((os.procs p).nextFd, s0) :: (os.procs p).fds, nextFd := (os.procs p).nextFd + 1 } := by
  unfold shmOpenF
  (repeat' split) <;> simp [OS.setProc]

/-- a descriptor number already handed out keeps its meaning: whatever any system call of the process
    does, a later successful look-up of it yields what an earlier one did -/
theorem sysStep_lookup_stable (p : Pid) (i : Bool) (c : Sys) (os : OS) (fd0 : Nat) (s : SegId)
    (hlt : fd0 < (os.procs p).nextFd)
    (h : lookupFd ((sysStep p i c os).1.procs p) fd0 = some s) :
    lookupFd (os.procs p) fd0 = some s ∧ (os.procs p).nextFd ≤ ((sysStep p i c os).1.procs p).nextFd := by
  unfold sysStep at h ⊢
  split at h
  · rename_i hi; simp only [hi, if_true]; exact ⟨h, Nat.le_refl _⟩
  · rename_i hi
    simp only [hi, if_false]
    cases c with
    | shmOpen k fl m =>
      rcases shmOpenF_procs os p k fl with e | ⟨s0, e⟩
      · simp only [Bool.false_eq_true, if_false] at h ⊢; rw [e] at h ⊢; exact ⟨h, Nat.le_refl _⟩
      · simp only [Bool.false_eq_true, if_false] at h ⊢
        rw [e] at h ⊢
        refine ⟨?_, by simp⟩
        have := lookupFd_cons_lt (os.procs p) fd0 s0 hlt _ rfl
        simp only [lookupFd] at h this ⊢
        rw [← this]; exact h
    | close fd =>
      simp only [OS.setProc] at h ⊢
      (repeat' split at h) <;> (repeat' split) <;> simp_all <;>
        (simp only [lookupFd] at h ⊢
         exact lookupFd_filter _ fd fd0 s (by simpa using h))
    | semOpen k fl m v => simp only [semOpenF] at h ⊢; (repeat' split at h) <;> (repeat' split) <;> simp_all
    | mmap fd len prot fl =>
      simp only [OS.setProc] at h ⊢
      (repeat' split at h) <;> (repeat' split) <;> simp_all [lookupFd]
    | munmap a len =>
      simp only [OS.setProc] at h ⊢
      (repeat' split at h) <;> (repeat' split) <;> simp_all [lookupFd, munmapF]
    | _ =>
      simp only [OS.setProc] at h ⊢
      all_goals ((repeat' split at h) <;> (repeat' split) <;> simp_all)

/-- the size of an existing object changes only by an `ftruncate` through a descriptor of that object -/
theorem sysStep_seg_len (p : Pid) (i : Bool) (c : Sys) (os : OS) (s : SegId) (hs : s < os.nextSeg)
    (hnt : ∀ fd len, c = .ftruncate fd len → lookupFd (os.procs p) fd ≠ some s) :
    ((sysStep p i c os).1.segs s).bytes.length = (os.segs s).bytes.length ∧
    os.nextSeg ≤ (sysStep p i c os).1.nextSeg := by
  have hne : s ≠ os.nextSeg := Nat.ne_of_lt hs
  unfold sysStep
  split
  · exact ⟨rfl, Nat.le_refl _⟩
  · cases c with
    | ftruncate fd len =>
      simp only
      cases hl : lookupFd (os.procs p) fd with
      | none => exact ⟨rfl, Nat.le_refl _⟩
      | some s' =>
        have : s ≠ s' := fun e => hnt fd len rfl (by rw [hl, e])
        simp [this]
    | shmOpen k fl m =>
      simp only [shmOpenF, OS.setProc]
      (repeat' split) <;> simp [hne]
    | semOpen k fl m v => simp only [semOpenF]; (repeat' split) <;> simp
    | _ =>
      simp only [OS.setProc]
      all_goals ((repeat' split) <;> simp)

theorem store_seg_len (os os' : OS) (p : Pid) (a off : Nat) (b : UInt8) (h : os.store p a off b = some os') (s : SegId) :
    (os'.segs s).bytes.length = (os.segs s).bytes.length := by
  unfold OS.store at h
  split at h
  · split at h
    · rename_i m _ _
      split at h <;> simp at h <;> subst h
      · by_cases e : s = m.seg <;> simp [e]
      · rfl
    · simp at h
  · simp at h

theorem start_seg_len (g : G) (t : Tid) (op : Op) (s : SegId) :
    ((g.start t op).os.segs s).bytes.length = (g.os.segs s).bytes.length ∧ (g.start t op).os.nextSeg = g.os.nextSeg := by
  rcases start_os g t op with h | ⟨a, off, b, os', h, e⟩
  · rw [h]; exact ⟨rfl, rfl⟩
  · rw [e]; exact ⟨store_seg_len _ _ _ _ _ _ h s, (store_frame _ _ _ _ _ _ h).2.2.2.2.1⟩

/-! ## what a step does to the mappings, given `MapInv` -/

/-- under `MapInv` a step either leaves all mappings alone, or adds one at the next address of the
    stepping process (the `mmap` of a `p_shm_new`), or removes exactly the mapping at one address -/
theorem step_maps_cases (g : G) (t : Tid) (i : Bool) (c : Call) (hc : g.calls t = some c) (h : MapInv g) :
    (∀ p, ((g.step t i).os.procs p).maps = (g.os.procs p).maps) ∨
    (∃ hid st fd sg, c = .shmNew hid st ∧ st.pc = .mmap fd ∧ lookupFd (g.os.procs (g.pidOf t)) fd = some sg ∧
      ((g.step t i).os.procs (g.pidOf t)).maps =
        ⟨(g.os.procs (g.pidOf t)).nextAddr, sg, 0, st.size,
          hasFlag (if st.ro then shmMmapProtRO else shmMmapProtRW) PROT_WRITE, hasFlag shmMmapFlags MAP_SHARED⟩ ::
          (g.os.procs (g.pidOf t)).maps ∧
      (sysStep (g.pidOf t) i c.next g.os).2 = .ok (g.os.procs (g.pidOf t)).nextAddr ∧
      ∀ q, q ≠ g.pidOf t → ((g.step t i).os.procs q).maps = (g.os.procs q).maps) ∨
    (∃ a, ((g.step t i).os.procs (g.pidOf t)).maps = (g.os.procs (g.pidOf t)).maps.filter (fun m => decide (m.addr ≠ a)) ∧
      ∀ q, q ≠ g.pidOf t → ((g.step t i).os.procs q).maps = (g.os.procs q).maps) := by
  have plain : ((∀ fd len prot fl, c.next ≠ .mmap fd len prot fl) ∧ (∀ a len, c.next ≠ .munmap a len)) →
      ∀ p, ((g.step t i).os.procs p).maps = (g.os.procs p).maps := by
    intro hnm p; rw [step_os g t i c hc]; exact (sysStep_maps_frame _ _ _ _ hnm.1 hnm.2 p).1
  have munmapCase : ∀ a l, c.next = .munmap a l → claimOf g (.inr t) = some (g.pidOf t, a, l) →
      (∃ a, ((g.step t i).os.procs (g.pidOf t)).maps = (g.os.procs (g.pidOf t)).maps.filter (fun m => decide (m.addr ≠ a)) ∧
        ∀ q, q ≠ g.pidOf t → ((g.step t i).os.procs q).maps = (g.os.procs q).maps) := by
    intro a l hnext hclaim
    obtain ⟨hl0, m, hm, hma, hml, _⟩ := h.claims.valid _ _ _ _ hclaim
    have hmun := sysStep_munmap (g.pidOf t) i a l g.os hl0
    have hex := munmapF_exact (g.os.procs (g.pidOf t)) a l (by
      intro m' hm' ha'
      have : m' = m := nodup_map_inj (·.addr) _ (h.claims.nodup (g.pidOf t)) m' m hm' hm (by rw [ha', hma])
      rw [this]; exact hml)
    refine ⟨a, ?_, ?_⟩
    · rw [step_os g t i c hc, hnext, hmun.1]; exact hex.1
    · intro q hq; rw [step_os g t i c hc, hnext, hmun.2.1 q hq]
  cases c with
  | semNew hid s => left; exact plain (by simpa [Call.next] using semNew_next_not_map s)
  | semFree s => left; exact plain (by simpa [Call.next] using semFree_next_not_map s)
  | acquire x => left; exact plain (by simp [Call.next, acquireNext])
  | release x => left; exact plain (by simp [Call.next, releaseNext])
  | shmFree st =>
    have hs := shmFree_step (g.pidOf t) st
    by_cases hpc : st.pc = .munmap
    · right; right
      obtain ⟨hnext, hcl⟩ := hs.1 hpc
      exact munmapCase _ _ (by simpa [Call.next] using hnext) (by simp only [claimOf, tClaim, hc]; exact hcl)
    · left
      obtain ⟨n1, n2, _⟩ := hs.2.1 hpc
      exact plain ⟨by simpa [Call.next] using n1, by simpa [Call.next] using n2⟩
  | shmNew hid st =>
    have hwf := h.newwf t hid st hc
    by_cases hm : ∃ fd, st.pc = .mmap fd
    · obtain ⟨fd, hpc⟩ := hm
      obtain ⟨hnext, _, _⟩ := shmNew_mmap_step (g.pidOf t) hid st fd hpc
      rcases sysStep_mmap (g.pidOf t) i fd st.size (if st.ro then shmMmapProtRO else shmMmapProtRW) shmMmapFlags g.os with
        ⟨e, he⟩ | ⟨sg, hlk, _, hres, hmaps, _, _, _, hq, _⟩
      · left
        intro p; rw [step_os g t i _ hc]; simp [Call.next, hnext, he]
      · right; left
        refine ⟨hid, st, fd, sg, rfl, hpc, hlk, ?_, ?_, ?_⟩
        · rw [step_os g t i _ hc]; simp only [Call.next, hnext]; exact hmaps
        · simp only [Call.next, hnext]; exact hres
        · intro q hq'; rw [step_os g t i _ hc]; simp only [Call.next, hnext]; rw [hq q hq']
    · by_cases hf : ∃ e, st.pc = .fMunmap e
      · right; right
        obtain ⟨e, hpc⟩ := hf
        obtain ⟨a, hnext, hcl, _, _⟩ := shmNew_fMunmap_step (g.pidOf t) hid st e hpc hwf
        exact munmapCase _ _ (by simpa [Call.next] using hnext) (by simp only [claimOf, tClaim, hc]; exact hcl)
      · left
        have hnm := shmNew_next_not_map st (fun fd e => hm ⟨fd, e⟩) (fun e e' => hf ⟨e, e'⟩)
        exact plain ⟨by simpa [Call.next] using hnm.1, by simpa [Call.next] using hnm.2⟩

/-! ## the invariant of one segment name -/

/-- the mapping at address `a` of process `p`, if there is one, is a shared mapping of object `s`,
    writable unless the handle is read-only -/
def GoodMap (g : G) (s : SegId) (p : Pid) (a : Nat) (ro : Bool) : Prop :=
  ∀ m ∈ (g.os.procs p).maps, m.addr = a → m.seg = s ∧ m.shared = true ∧ (ro = false → m.writable = true)

/-- descriptor `fd` of process `p` was handed out, and as long as it is open it refers to object `s` -/
def FdOf (g : G) (s : SegId) (p : Pid) (fd : Nat) : Prop :=
  fd < (g.os.procs p).nextFd ∧ ∀ s', lookupFd (g.os.procs p) fd = some s' → s' = s

/-- descriptor `fd` of process `p` was handed out and does NOT refer to object `s` -/
def FdNot (g : G) (s : SegId) (p : Pid) (fd : Nat) : Prop :=
  fd < (g.os.procs p).nextFd ∧ ∀ s', lookupFd (g.os.procs p) fd = some s' → s' ≠ s

/-- a `p_shm_new (k)` in flight is a follower that has only seen object `s` so far -/
def FollowerOK (g : G) (s : SegId) (L : Nat) (p : Pid) (st : ShmNewSt) : Prop :=
  st.created = false ∧
  match st.pc with
  | .excl | .open | .fClose _ _ | .fUnlink _ => True
  | .fstat fd => FdOf g s p fd
  | .ftrunc _ => False
  | .mmap fd => FdOf g s p fd ∧ st.size = repSize st.req L
  | .close _ | .sem _ | .fMunmap _ => st.size ≤ L ∧ ∀ a, st.addr = some a → GoodMap g s p a st.ro

structure KeyInv (k : ShmKey) (s : SegId) (L : Nat) (g : G) : Prop where
  bound : g.os.shmNames k = some s
  len : (g.os.segs s).bytes.length = L
  pos : L ≠ 0
  segLt : s < g.os.nextSeg
  /-- every live handle of `k` reports at most `L` bytes and is mapped to `s` -/
  handles : ∀ h p y, g.hs h = some (p, .shm y) → y.key = k → y.size ≤ L ∧ GoodMap g s p y.addr y.ro
  flight : ∀ t hid st, g.calls t = some (.shmNew hid st) → st.key = k → FollowerOK g s L (g.pidOf t) st
  /-- nobody (of any name) is about to `ftruncate` `s` -/
  noTrunc : ∀ t hid st fd, g.calls t = some (.shmNew hid st) → st.pc = .ftrunc fd → FdNot g s (g.pidOf t) fd

/-! ### preservation helpers -/

theorem lookup_step (g : G) (t : Tid) (i : Bool) (p : Pid) (fd : Nat) (s' : SegId)
    (hlt : fd < (g.os.procs p).nextFd) (h : lookupFd ((g.step t i).os.procs p) fd = some s') :
    lookupFd (g.os.procs p) fd = some s' ∧ (g.os.procs p).nextFd ≤ ((g.step t i).os.procs p).nextFd := by
  cases hc : g.calls t with
  | none => rw [step_none g t i hc] at h ⊢; exact ⟨h, Nat.le_refl _⟩
  | some c =>
    rw [step_os g t i c hc] at h ⊢
    by_cases e : p = g.pidOf t
    · subst e; exact sysStep_lookup_stable _ i c.next g.os fd s' hlt h
    · rw [sysStep_procs_other _ _ _ _ _ e] at h ⊢; exact ⟨h, Nat.le_refl _⟩

theorem nextFd_step (g : G) (t : Tid) (i : Bool) (p : Pid) : (g.os.procs p).nextFd ≤ ((g.step t i).os.procs p).nextFd := by
  cases hc : g.calls t with
  | none => rw [step_none g t i hc]; exact Nat.le_refl _
  | some c =>
    rw [step_os g t i c hc]
    by_cases e : p = g.pidOf t
    · subst e
      unfold sysStep
      split
      · exact Nat.le_refl _
      · cases c.next <;> simp only [OS.setProc, semOpenF, shmOpenF, munmapF] <;> (repeat' split) <;> simp
    · rw [sysStep_procs_other _ _ _ _ _ e]; exact Nat.le_refl _

theorem fdOf_step (g : G) (t : Tid) (i : Bool) (s : SegId) (p : Pid) (fd : Nat) (h : FdOf g s p fd) : FdOf (g.step t i) s p fd :=
  ⟨Nat.lt_of_lt_of_le h.1 (nextFd_step g t i p), fun s' hs' => h.2 s' (lookup_step g t i p fd s' h.1 hs').1⟩

theorem fdNot_step (g : G) (t : Tid) (i : Bool) (s : SegId) (p : Pid) (fd : Nat) (h : FdNot g s p fd) : FdNot (g.step t i) s p fd :=
  ⟨Nat.lt_of_lt_of_le h.1 (nextFd_step g t i p), fun s' hs' => h.2 s' (lookup_step g t i p fd s' h.1 hs').1⟩

/-- a mapping below the next address keeps being good through any step (given `MapInv`) -/
theorem goodMap_step (g : G) (t : Tid) (i : Bool) (hM : MapInv g) (s : SegId) (p : Pid) (a : Nat) (ro : Bool)
    (ha : a < (g.os.procs p).nextAddr) (h : GoodMap g s p a ro) : GoodMap (g.step t i) s p a ro := by
  cases hc : g.calls t with
  | none => rw [step_none g t i hc]; exact h
  | some c =>
    rcases step_maps_cases g t i c hc hM with h1 | ⟨hid, st, fd, sg, _, _, _, hmaps, _, hq⟩ | ⟨a', hmaps, hq⟩
    · intro m hm; rw [h1 p] at hm; exact h m hm
    · intro m hm hma
      by_cases e : p = g.pidOf t
      · subst e
        rw [hmaps] at hm
        rcases List.mem_cons.mp hm with rfl | hm'
        · simp only at hma; omega
        · exact h m hm' hma
      · rw [hq p e] at hm; exact h m hm hma
    · intro m hm hma
      by_cases e : p = g.pidOf t
      · subst e
        rw [hmaps] at hm
        exact h m (List.mem_filter.mp hm).1 hma
      · rw [hq p e] at hm; exact h m hm hma

/-- what `p_shm_new` returns -/
theorem shmNew_done_fields (st : ShmNewSt) (r : Res) (y : PShm) (h : st.after r = .done (.ok y)) :
    y.key = st.key ∧ y.ro = st.ro ∧ y.addr = st.addr.getD 0 ∧ y.size = clampSize st.req st.size ∧ y.created = st.created ∧
    ∃ s', st.pc = .sem s' := by
  obtain ⟨s', ps, hpc, _, _⟩ := shmNew_after_handle st r y h
  obtain ⟨key, req, ro, created, isExists, size, addr, pc⟩ := st
  simp only at hpc
  subst hpc
  simp only [ShmNewSt.after] at h
  split at h
  · simp at h
  · simp only [Out.done.injEq, Except.ok.injEq] at h
    subst h
    exact ⟨rfl, rfl, rfl, rfl, rfl, s', rfl⟩
  · simp only [ShmNewSt.cleanFrom] at h
    (repeat' split at h) <;> simp at h

theorem next_ftruncate_only (c : Call) (fd len : Nat) (h : c.next = .ftruncate fd len) :
    ∃ hid st, c = .shmNew hid st ∧ st.pc = .ftrunc fd := by
  cases c with
  | semNew hid s => obtain ⟨key, mode, init, pc⟩ := s; cases pc <;> simp [Call.next, SemNewSt.next] at h
  | semFree s => obtain ⟨hd, pc⟩ := s; cases pc <;> simp [Call.next, SemFreeSt.next] at h
  | acquire hd => simp [Call.next, acquireNext] at h
  | release hd => simp [Call.next, releaseNext] at h
  | shmFree st =>
    obtain ⟨hd, pc⟩ := st
    cases pc with
    | sem s => obtain ⟨hd', pc'⟩ := s; cases pc' <;> simp [Call.next, ShmFreeSt.next, SemFreeSt.next] at h
    | _ => simp [Call.next, ShmFreeSt.next] at h
  | shmNew hid st =>
    obtain ⟨key, req, ro, created, isExists, size, addr, pc⟩ := st
    cases pc with
    | ftrunc fd' => simp [Call.next, ShmNewSt.next] at h; exact ⟨hid, _, rfl, by rw [h.1]⟩
    | sem s => obtain ⟨key', mode, init, pc'⟩ := s; cases pc' <;> simp [Call.next, ShmNewSt.next, SemNewSt.next] at h
    | _ => simp [Call.next, ShmNewSt.next] at h

/-! ### the follower's own step -/

theorem follower_own_step (k : ShmKey) (s : SegId) (L : Nat) (g : G) (t : Tid) (i : Bool) (hid : Hid) (st st' : ShmNewSt)
    (hc : g.calls t = some (.shmNew hid st)) (hM : MapInv g) (hK : KeyInv k s L g) (hkey : st.key = k)
    (hst' : st.after (sysStep (g.pidOf t) i st.next g.os).2 = .cont st') :
    FollowerOK (g.step t i) s L (g.pidOf t) st' ∧ st'.key = k := by
  have hwf := hM.newwf t hid st hc
  have hF := hK.flight t hid st hc hkey
  have hos := step_os g t i _ hc
  simp only [Call.next] at hos
  have gm : ∀ a ro, a < (g.os.procs (g.pidOf t)).nextAddr → GoodMap g s (g.pidOf t) a ro → GoodMap (g.step t i) s (g.pidOf t) a ro :=
    fun a ro ha h => goodMap_step g t i hM s (g.pidOf t) a ro ha h
  have claimLt : ∀ a, (Call.shmNew hid st).claim (g.pidOf t) = some (g.pidOf t, a, st.size) → a < (g.os.procs (g.pidOf t)).nextAddr := by
    intro a hcl
    obtain ⟨_, m, hm, hma, _⟩ := hM.claims.valid (.inr t) _ _ _ (by simp only [claimOf, tClaim, hc]; exact hcl)
    rw [← hma]; exact hM.claims.fresh _ m hm
  obtain ⟨key, req, ro, created, isExists, size, addr, pc⟩ := st
  simp only at hkey
  subst hkey
  obtain ⟨hcr, hpcF⟩ := hF
  simp only at hcr
  subst hcr
  cases pc with
  | excl =>
    have hb := hK.bound
    have hx := shmExcl1
    cases i <;>
      simp [ShmNewSt.next, ShmNewSt.after, sysStep, Sys.interruptible, shmOpenF, hb, hx, shmOpen1Retry] at hst' <;>
      subst hst' <;> exact ⟨⟨rfl, trivial⟩, rfl⟩
  | «open» =>
    have hb := hK.bound
    have hx := shmPlain2
    cases i
    · simp [ShmNewSt.next, ShmNewSt.after, sysStep, Sys.interruptible, shmOpenF, hb, hx, OS.setProc] at hst'
      subst hst'
      refine ⟨⟨rfl, ?_⟩, rfl⟩
      simp only [FdOf]
      rw [hos]
      simp [ShmNewSt.next, sysStep, Sys.interruptible, shmOpenF, hb, hx, OS.setProc, lookupFd]
    · simp [ShmNewSt.next, ShmNewSt.after, sysStep, Sys.interruptible, shmOpen2Retry] at hst'
      subst hst'; exact ⟨⟨rfl, trivial⟩, rfl⟩
  | fstat fd =>
    simp only at hpcF
    have hsz : size = req := hwf.2.1
    cases hl : lookupFd (g.os.procs (g.pidOf t)) fd with
    | none =>
      simp [ShmNewSt.next, ShmNewSt.after, sysStep, Sys.interruptible, hl] at hst'
      subst hst'; exact ⟨⟨rfl, trivial⟩, rfl⟩
    | some s' =>
      have : s' = s := hpcF.2 s' hl
      subst this
      simp [ShmNewSt.next, ShmNewSt.after, sysStep, Sys.interruptible, hl, hK.len, shmFtruncateCreatorOnly] at hst'
      subst hst'
      refine ⟨⟨rfl, ?_, ?_⟩, rfl⟩
      · exact fdOf_step g t i s' _ fd hpcF
      · simp only [hsz, existingSize_eq]
  | ftrunc fd => exact absurd hpcF (by simp)
  | mmap fd =>
    simp only at hpcF
    obtain ⟨hfd, hsize⟩ := hpcF
    rcases sysStep_mmap (g.pidOf t) i fd size (if ro then shmMmapProtRO else shmMmapProtRW) shmMmapFlags g.os with
      ⟨e, he⟩ | ⟨sg, hlk, _, hres, hmaps, _⟩
    · simp only [ShmNewSt.next, he] at hst'
      cases e <;> simp only [ShmNewSt.after, Out.cont.injEq] at hst' <;> subst hst' <;> exact ⟨⟨rfl, trivial⟩, rfl⟩
    · have hsg : sg = s := hfd.2 sg hlk
      subst hsg
      simp only [ShmNewSt.next] at hst' hos
      rw [hres] at hst'
      simp only [ShmNewSt.after, Out.cont.injEq] at hst'
      subst hst'
      refine ⟨⟨rfl, ?_, ?_⟩, rfl⟩
      · simp only at hsize ⊢; rw [hsize]; exact repSize_le _ _
      · intro a ha
        simp only [Option.some.injEq] at ha
        subst ha
        intro m hm hma
        rw [hos, hmaps] at hm
        rcases List.mem_cons.mp hm with rfl | hm'
        · refine ⟨rfl, mapShared, ?_⟩
          intro hro; simp only at hro; subst hro; exact rwWritable
        · have := hM.claims.fresh _ m hm'
          omega
  | close fd =>
    simp only at hpcF
    simp only [ShmNewSt.after, Out.cont.injEq] at hst'
    subst hst'
    refine ⟨⟨rfl, hpcF.1, ?_⟩, rfl⟩
    intro a ha
    simp only at ha
    subst ha
    exact gm a ro (claimLt a rfl) (hpcF.2 a rfl)
  | sem s0 =>
    simp only at hpcF
    simp only [ShmNewSt.after] at hst'
    split at hst'
    · simp only [Out.cont.injEq] at hst'
      subst hst'
      refine ⟨⟨rfl, hpcF.1, ?_⟩, rfl⟩
      intro a ha
      simp only at ha
      subst ha
      exact gm a ro (claimLt a rfl) (hpcF.2 a rfl)
    · simp at hst'
    · simp only [ShmNewSt.cleanFrom] at hst'
      (repeat' split at hst') <;> simp only [Out.cont.injEq, reduceCtorEq] at hst' <;> subst hst'
      · refine ⟨⟨rfl, hpcF.1, ?_⟩, rfl⟩
        intro a ha
        simp only at ha
        subst ha
        exact gm a ro (claimLt a rfl) (hpcF.2 a rfl)
      · exact ⟨⟨rfl, trivial⟩, rfl⟩
  | fClose fd e =>
    have haddr : addr = none := hwf.2.2
    subst haddr
    simp [ShmNewSt.after, ShmNewSt.cleanFrom] at hst'
  | fMunmap e =>
    simp only [ShmNewSt.after, ShmNewSt.cleanFrom, Bool.not_true, Bool.false_and, Bool.false_eq_true, if_false] at hst'
    simp at hst'
  | fUnlink e => simp [ShmNewSt.after] at hst'

theorem shmNew_after_key (st st' : ShmNewSt) (r : Res) (h : st.after r = .cont st') : st'.key = st.key ∧ st'.ro = st.ro := by
  obtain ⟨key, req, ro, created, isExists, size, addr, pc⟩ := st
  cases pc with
  | sem s0 =>
    simp only [ShmNewSt.after] at h
    split at h
    · simp only [Out.cont.injEq] at h; subst h; exact ⟨rfl, rfl⟩
    · simp at h
    · simp only [ShmNewSt.cleanFrom] at h
      (repeat' split at h) <;> simp only [Out.cont.injEq, reduceCtorEq] at h <;> subst h <;> exact ⟨rfl, rfl⟩
  | _ =>
    rcases r with v | e | _ <;> (try cases e) <;>
      simp only [ShmNewSt.after, ShmNewSt.cleanFrom, shmOpen1Retry, shmOpen2Retry, if_true, Out.cont.injEq, reduceCtorEq] at h <;>
      (try (repeat' split at h)) <;> (try simp only [Out.cont.injEq, reduceCtorEq] at h) <;> (try subst h) <;>
      first | exact ⟨rfl, rfl⟩ | contradiction

/-- only the exclusive `shm_open` that succeeded leads to the `ftruncate` program point -/
theorem shmNew_to_ftrunc (st st' : ShmNewSt) (r : Res) (fd' : Nat) (h : st.after r = .cont st') (hpc : st'.pc = .ftrunc fd') :
    st.pc = .excl ∧ r = .ok fd' := by
  obtain ⟨key, req, ro, created, isExists, size, addr, pc⟩ := st
  cases pc with
  | sem s0 =>
    simp only [ShmNewSt.after] at h
    split at h
    · simp only [Out.cont.injEq] at h; subst h; simp at hpc
    · simp at h
    · simp only [ShmNewSt.cleanFrom] at h
      (repeat' split at h) <;> simp only [Out.cont.injEq, reduceCtorEq] at h <;> subst h <;> simp at hpc
  | _ =>
    rcases r with v | e | _ <;> (try cases e) <;>
      simp only [ShmNewSt.after, ShmNewSt.cleanFrom, shmOpen1Retry, shmOpen2Retry, shmFtruncateCreatorOnly, if_true, Out.cont.injEq, reduceCtorEq] at h <;>
      (try (repeat' split at h)) <;> (try simp only [Out.cont.injEq, reduceCtorEq] at h) <;> (try subst h) <;>
      simp_all

/-- a successful exclusive `shm_open` makes a fresh object and returns the next descriptor number for it -/
theorem sysStep_shmOpen_excl_ok (p : Pid) (i : Bool) (k : ShmKey) (m : Nat) (os : OS) (fd : Nat)
    (h : (sysStep p i (.shmOpen k shmOpen1Flags m) os).2 = .ok fd) :
    os.shmNames k = none ∧ fd = (os.procs p).nextFd ∧
    ((sysStep p i (.shmOpen k shmOpen1Flags m) os).1.procs p).fds = (fd, os.nextSeg) :: (os.procs p).fds ∧
    ((sysStep p i (.shmOpen k shmOpen1Flags m) os).1.procs p).nextFd = (os.procs p).nextFd + 1 := by
  have hx := shmExcl1
  have hcx := shmCreat1
  cases i
  · cases hn : os.shmNames k with
    | some s0 => simp [sysStep, Sys.interruptible, shmOpenF, hn, hx] at h
    | none =>
      simp [sysStep, Sys.interruptible, shmOpenF, hn, hcx, OS.setProc] at h ⊢
      exact ⟨h.symm, by rw [h]⟩
  · simp [sysStep, Sys.interruptible] at h

theorem followerOK_other_step (g : G) (t t' : Tid) (i : Bool) (hM : MapInv g) (s : SegId) (L : Nat) (hid : Hid) (st : ShmNewSt)
    (hc : g.calls t' = some (.shmNew hid st)) (h : FollowerOK g s L (g.pidOf t') st) :
    FollowerOK (g.step t i) s L (g.pidOf t') st := by
  obtain ⟨h1, h2⟩ := h
  refine ⟨h1, ?_⟩
  have claimLt : ∀ a, st.addr = some a → (∀ e, st.pc ≠ .fUnlink e) → a < (g.os.procs (g.pidOf t')).nextAddr := by
    intro a ha hpc
    have hcl : claimOf g (.inr t') = some (g.pidOf t', a, st.size) := by
      simp only [claimOf, tClaim, hc, Call.claim]
      cases hp : st.pc <;> simp_all
    obtain ⟨_, m, hm, hma, _⟩ := hM.claims.valid _ _ _ _ hcl
    rw [← hma]; exact hM.claims.fresh _ m hm
  cases hpc : st.pc with
  | fstat fd => rw [hpc] at h2; exact fdOf_step g t i s _ fd h2
  | mmap fd => rw [hpc] at h2; exact ⟨fdOf_step g t i s _ fd h2.1, h2.2⟩
  | close fd =>
    rw [hpc] at h2
    exact ⟨h2.1, fun a ha => goodMap_step g t i hM s _ a st.ro (claimLt a ha (by rw [hpc]; simp)) (h2.2 a ha)⟩
  | sem s0 =>
    rw [hpc] at h2
    exact ⟨h2.1, fun a ha => goodMap_step g t i hM s _ a st.ro (claimLt a ha (by rw [hpc]; simp)) (h2.2 a ha)⟩
  | fMunmap e =>
    rw [hpc] at h2
    exact ⟨h2.1, fun a ha => goodMap_step g t i hM s _ a st.ro (claimLt a ha (by rw [hpc]; simp)) (h2.2 a ha)⟩
  | ftrunc fd => rw [hpc] at h2; exact h2
  | _ => trivial

/-! ### `KeyInv` over `exec` -/

theorem keyInv_step (k : ShmKey) (s : SegId) (L : Nat) (g : G) (t : Tid) (i : Bool) (hM : MapInv g) (hK : KeyInv k s L g)
    (hnu : ∀ c, g.calls t = some c → c.next ≠ .shmUnlink k) : KeyInv k s L (g.step t i) := by
  cases hc : g.calls t with
  | none => rw [step_none g t i hc]; exact hK
  | some c =>
    have hos := step_os g t i c hc
    have hseg := sysStep_seg_len (g.pidOf t) i c.next g.os s hK.segLt (by
      intro fd len hn
      obtain ⟨hid, st, rfl, hpc⟩ := next_ftruncate_only c fd len hn
      have := hK.noTrunc t hid st fd hc hpc
      intro e; exact this.2 s e rfl)
    have hLtH : ∀ h p y, g.hs h = some (p, .shm y) → y.addr < (g.os.procs p).nextAddr := by
      intro h p y hy
      obtain ⟨_, m, hm, hma, _⟩ := hM.claims.valid (.inl h) p y.addr y.size (by simp [claimOf, hClaim, hy])
      rw [← hma]; exact hM.claims.fresh _ m hm
    refine ⟨?_, ?_, hK.pos, ?_, ?_, ?_, ?_⟩
    · rw [hos]; exact sysStep_shmNames_bound _ _ _ _ _ _ hK.bound (hnu c hc)
    · rw [hos, hseg.1]; exact hK.len
    · rw [hos]; exact Nat.lt_of_lt_of_le hK.segLt hseg.2
    · -- handles
      intro h' p y hy hky
      rw [step_hs g t i c hc] at hy
      have old : g.hs h' = some (p, .shm y) → y.size ≤ L ∧ GoodMap (g.step t i) s p y.addr y.ro := by
        intro h0
        obtain ⟨a, b⟩ := hK.handles h' p y h0 hky
        exact ⟨a, goodMap_step g t i hM s p y.addr y.ro (hLtH h' p y h0) b⟩
      split at hy
      · rename_i ret hid x hdone
        split at hy
        · rename_i e
          subst e
          simp only [Option.some.injEq, Prod.mk.injEq] at hy
          obtain ⟨rfl, rfl⟩ := hy
          rcases call_after_done_handle _ _ _ _ _ hdone with ⟨z, hz⟩ | ⟨st, y0, rfl, e1, hd0⟩
          · cases hz
          · simp only [Handle.shm.injEq] at e1
            subst e1
            obtain ⟨f1, f2, f3, f4, _, s0, hpc⟩ := shmNew_done_fields st _ y hd0
            have hwf := hM.newwf t h' st hc
            have hF := hK.flight t h' st hc (by rw [← f1]; exact hky)
            obtain ⟨_, hF2⟩ := hF
            rw [hpc] at hF2
            have hsome : st.addr.isSome = true := by have := hwf.2.2; rw [hpc] at this; exact this
            obtain ⟨a, ha⟩ := Option.isSome_iff_exists.mp hsome
            have hcl : claimOf g (.inr t) = some (g.pidOf t, a, st.size) := by
              simp only [claimOf, tClaim, hc, Call.claim, hpc, ha, Option.map_some]
            obtain ⟨_, m, hm, hma, _⟩ := hM.claims.valid _ _ _ _ hcl
            have hlt : a < (g.os.procs (g.pidOf t)).nextAddr := by rw [← hma]; exact hM.claims.fresh _ m hm
            refine ⟨by rw [f4, hwf.1]; exact hF2.1, ?_⟩
            rw [f3, ha, f2]
            exact goodMap_step g t i hM s _ a st.ro hlt (hF2.2 a ha)
        · exact old hy
      · exact old hy
    · -- calls in flight on `k`
      intro t' hid' st' hc' hkey'
      rw [step_pidOf]
      by_cases e : t' = t
      · subst e
        rw [step_calls_self g t' i c hc] at hc'
        split at hc'
        · rename_i c' hcont
          simp only [Option.some.injEq] at hc'
          subst hc'
          cases c with
          | shmNew hid st =>
            obtain ⟨st'', e', ha⟩ := call_after_cont_shmNew hid st _ _ hcont
            simp only [Call.shmNew.injEq] at e'
            obtain ⟨_, rfl⟩ := e'
            have hk0 : st.key = k := by rw [← (shmNew_after_key st st' _ ha).1]; exact hkey'
            exact (follower_own_step k s L g t' i hid st st' hc hM hK hk0 (by simpa [Call.next] using ha)).1
          | _ => exact absurd rfl (call_after_cont_not_shmNew _ _ _ hcont (by intro a b; simp) hid' st')
        · cases hc'
      · rw [step_calls_other g t i t' e] at hc'
        exact followerOK_other_step g t t' i hM s L hid' st' hc' (hK.flight t' hid' st' hc' hkey')
    · -- nobody is about to truncate `s`
      intro t' hid' st' fd' hc' hpc'
      rw [step_pidOf]
      by_cases e : t' = t
      · subst e
        rw [step_calls_self g t' i c hc] at hc'
        split at hc'
        · rename_i c' hcont
          simp only [Option.some.injEq] at hc'
          subst hc'
          cases c with
          | shmNew hid st =>
            obtain ⟨st'', e', ha⟩ := call_after_cont_shmNew hid st _ _ hcont
            simp only [Call.shmNew.injEq] at e'
            obtain ⟨_, rfl⟩ := e'
            obtain ⟨hpc0, hr⟩ := shmNew_to_ftrunc st st' _ fd' ha hpc'
            have hnext : st.next = .shmOpen st.key shmOpen1Flags shmOpen1Mode := by
              obtain ⟨key, req, ro, created, isExists, size, addr, pc⟩ := st
              simp only at hpc0; subst hpc0; rfl
            simp only [Call.next] at hr hos
            rw [hnext] at hr hos
            obtain ⟨_, hfd, hfds, hnf⟩ := sysStep_shmOpen_excl_ok _ _ _ _ _ _ hr
            refine ⟨?_, ?_⟩
            · rw [hos, hnf, hfd]; exact Nat.lt_succ_self _
            · intro s' hs'
              rw [hos] at hs'
              simp only [lookupFd, hfds, List.find?_cons, decide_true, Option.map_some, Option.some.injEq] at hs'
              rw [← hs']; exact Nat.ne_of_gt hK.segLt
          | _ => exact absurd rfl (call_after_cont_not_shmNew _ _ _ hcont (by intro a b; simp) hid' st')
        · cases hc'
      · rw [step_calls_other g t i t' e] at hc'
        exact fdNot_step g t i s _ fd' (hK.noTrunc t' hid' st' fd' hc' hpc')

theorem start_calls_shmNew (g : G) (t : Tid) (op : Op) (hid : Hid) (st : ShmNewSt)
    (h : (g.start t op).calls t = some (.shmNew hid st)) :
    g.calls t = some (.shmNew hid st) ∨ (st.pc = .excl ∧ st.created = false) := by
  unfold G.start at h
  split at h
  · left; simpa [G.setRet] using h
  · cases op <;> simp only at h <;> (repeat' split at h) <;>
      simp only [G.setRet, G.setCall, G.setHandle, if_true, Option.some.injEq, reduceCtorEq, Call.shmNew.injEq] at h <;>
      first
      | (left; exact h)
      | (right; obtain ⟨_, rfl⟩ := h; exact ⟨rfl, rfl⟩)

theorem keyInv_start (k : ShmKey) (s : SegId) (L : Nat) (g : G) (t : Tid) (op : Op) (hK : KeyInv k s L g) :
    KeyInv k s L (g.start t op) := by
  have hp := start_procs g t op
  have gmEq : ∀ p a ro, GoodMap (g.start t op) s p a ro ↔ GoodMap g s p a ro := by
    intro p a ro; simp only [GoodMap, hp]
  have fdEq : ∀ p fd, FdOf (g.start t op) s p fd ↔ FdOf g s p fd := by intro p fd; simp only [FdOf, hp]
  have fnEq : ∀ p fd, FdNot (g.start t op) s p fd ↔ FdNot g s p fd := by intro p fd; simp only [FdNot, hp]
  have foEq : ∀ p st, FollowerOK g s L p st → FollowerOK (g.start t op) s L p st := by
    intro p st h
    refine ⟨h.1, ?_⟩
    have h2 := h.2
    cases hpc : st.pc <;> rw [hpc] at h2 <;> simp only [gmEq, fdEq] <;> exact h2
  refine ⟨?_, ?_, hK.pos, ?_, ?_, ?_, ?_⟩
  · rw [start_shmNames]; exact hK.bound
  · rw [(start_seg_len g t op s).1]; exact hK.len
  · rw [(start_seg_len g t op s).2]; exact hK.segLt
  · intro h p y hy hky
    rcases start_hs g t op h p (.shm y) hy with h0 | ⟨x0, h0, e⟩
    · obtain ⟨a, b⟩ := hK.handles h p y h0 hky
      exact ⟨a, (gmEq _ _ _).mpr b⟩
    · cases x0 with
      | sem z => simp [Handle.owned] at e
      | shm z =>
        simp only [Handle.owned, Handle.shm.injEq] at e
        subst e
        obtain ⟨a, b⟩ := hK.handles h p z h0 hky
        exact ⟨a, (gmEq _ _ _).mpr b⟩
  · intro t' hid st hc hkey
    rw [start_pidOf]
    by_cases e : t' = t
    · subst e
      rcases start_calls_shmNew g t' op hid st hc with h0 | ⟨hpc, hcr⟩
      · exact foEq _ _ (hK.flight t' hid st h0 hkey)
      · refine ⟨hcr, ?_⟩; rw [hpc]; trivial
    · rw [start_calls_other g t op t' e] at hc
      exact foEq _ _ (hK.flight t' hid st hc hkey)
  · intro t' hid st fd hc hpc
    rw [start_pidOf]
    by_cases e : t' = t
    · subst e
      rcases start_calls_shmNew g t' op hid st hc with h0 | ⟨hpc', _⟩
      · exact (fnEq _ _).mpr (hK.noTrunc t' hid st fd h0 hpc)
      · rw [hpc'] at hpc; cases hpc
    · rw [start_calls_other g t op t' e] at hc
      exact (fnEq _ _).mpr (hK.noTrunc t' hid st fd hc hpc)

theorem keyInv_kill (k : ShmKey) (s : SegId) (L : Nat) (g : G) (p : Pid) (hK : KeyInv k s L g) : KeyInv k s L (g.kill p) := by
  have procsNe : ∀ q, q ≠ p → (g.kill p).os.procs q = g.os.procs q := by
    intro q hq; simp [G.kill, OS.kill, OS.setProc, hq]
  have mapsP : ((g.kill p).os.procs p).maps = [] := by simp [G.kill, OS.kill, OS.setProc]
  have gm : ∀ q a ro, GoodMap g s q a ro → GoodMap (g.kill p) s q a ro := by
    intro q a ro h m hm
    by_cases e : q = p
    · subst e; rw [mapsP] at hm; cases hm
    · rw [procsNe q e] at hm; exact h m hm
  refine ⟨hK.bound, hK.len, hK.pos, hK.segLt, ?_, ?_, ?_⟩
  · intro h q y hy hky
    have h0 := kill_hs g p h q (.shm y) hy
    obtain ⟨a, b⟩ := hK.handles h q y h0 hky
    exact ⟨a, gm _ _ _ b⟩
  · intro t hid st hc hkey
    simp only [G.kill] at hc
    split at hc
    · cases hc
    · rename_i hne
      have hF := hK.flight t hid st hc hkey
      show FollowerOK (g.kill p) s L (g.pidOf t) st
      refine ⟨hF.1, ?_⟩
      have h2 := hF.2
      cases hpc : st.pc <;> rw [hpc] at h2 <;> simp only [FdOf, procsNe _ hne] <;>
        first
        | exact h2
        | exact ⟨h2.1, fun a ha => gm _ _ _ (h2.2 a ha)⟩
  · intro t hid st fd hc hpc
    simp only [G.kill] at hc
    split at hc
    · cases hc
    · rename_i hne
      have := hK.noTrunc t hid st fd hc hpc
      show FdNot (g.kill p) s (g.pidOf t) fd
      simp only [FdNot, procsNe _ hne]; exact this

/-! ### a scripted failure of the next system call: the OS is untouched, a follower in flight moves to its failure path -/

theorem followerOK_after_err (g : G) (s : SegId) (L : Nat) (p : Pid) (st st' : ShmNewSt) (e : Errno)
    (hwf : st.wf) (h : FollowerOK g s L p st) (ha : st.after (.err e) = .cont st') : FollowerOK g s L p st' := by
  obtain ⟨key, req, ro, created, isExists, size, addr, pc⟩ := st
  obtain ⟨hcr, h2⟩ := h
  obtain ⟨_, _, h3⟩ := hwf
  simp only at hcr; subst hcr
  cases pc with
  | sem s0 =>
    simp only [ShmNewSt.after] at ha
    split at ha
    · simp only [Out.cont.injEq] at ha; subst ha; exact ⟨rfl, h2⟩
    · simp at ha
    · simp only [ShmNewSt.cleanFrom] at ha
      (repeat' split at ha) <;> simp only [Out.cont.injEq, reduceCtorEq] at ha <;> (try subst ha) <;>
        first | exact ⟨rfl, h2⟩ | simp_all
  | _ =>
    simp only at h3
    cases e <;>
      simp only [ShmNewSt.after, ShmNewSt.cleanFrom, shmOpen1Retry, shmOpen2Retry, if_true, Out.cont.injEq, reduceCtorEq] at ha <;>
      (try (repeat' split at ha)) <;> (try simp only [Out.cont.injEq, reduceCtorEq] at ha) <;> (try subst ha) <;>
      simp_all [FollowerOK]

theorem keyInv_fail (k : ShmKey) (s : SegId) (L : Nat) (g : G) (t : Tid) (e : Errno) (hM : MapInv g) (hK : KeyInv k s L g) :
    KeyInv k s L (g.fail t e) := by
  cases hc : g.calls t with
  | none => rw [fail_none g t e hc]; exact hK
  | some c =>
    have hos := fail_os g t e
    have hFo : ∀ p st, FollowerOK g s L p st → FollowerOK (g.fail t e) s L p st := by
      intro p st h; simpa only [FollowerOK, FdOf, GoodMap, hos] using h
    refine ⟨by rw [hos]; exact hK.bound, by rw [hos]; exact hK.len, hK.pos, by rw [hos]; exact hK.segLt, ?_, ?_, ?_⟩
    · intro h' p y hy hky
      rw [fail_hs] at hy
      have := hK.handles h' p y hy hky
      simpa only [GoodMap, hos] using this
    · intro t' hid' st' hc' hkey'
      rw [fail_pidOf]
      by_cases e' : t' = t
      · subst e'
        rw [fail_calls_self g t' e c hc] at hc'
        split at hc'
        · rename_i c' hcont
          simp only [Option.some.injEq] at hc'
          subst hc'
          cases c with
          | shmNew hid st =>
            obtain ⟨st'', e'', ha⟩ := call_after_cont_shmNew hid st _ _ hcont
            simp only [Call.shmNew.injEq] at e''
            obtain ⟨_, rfl⟩ := e''
            have hk0 : st.key = k := by rw [← (shmNew_after_key st st' _ ha).1]; exact hkey'
            exact hFo _ _ (followerOK_after_err g s L _ st st' e (hM.newwf t' hid st hc) (hK.flight t' hid st hc hk0) ha)
          | _ => exact absurd rfl (call_after_cont_not_shmNew _ _ _ hcont (by intro a b; simp) hid' st')
        · cases hc'
      · rw [fail_calls_other g t e t' e'] at hc'
        exact hFo _ _ (hK.flight t' hid' st' hc' hkey')
    · intro t' hid' st' fd' hc' hpc'
      rw [fail_pidOf]
      have hFn : ∀ p fd, FdNot g s p fd → FdNot (g.fail t e) s p fd := by
        intro p fd h; simpa only [FdNot, hos] using h
      by_cases e' : t' = t
      · subst e'
        rw [fail_calls_self g t' e c hc] at hc'
        split at hc'
        · rename_i c' hcont
          simp only [Option.some.injEq] at hc'
          subst hc'
          cases c with
          | shmNew hid st =>
            obtain ⟨st'', e'', ha⟩ := call_after_cont_shmNew hid st _ _ hcont
            simp only [Call.shmNew.injEq] at e''
            obtain ⟨_, rfl⟩ := e''
            obtain ⟨_, hr⟩ := shmNew_to_ftrunc st st' _ fd' ha hpc'
            cases hr
          | _ => exact absurd rfl (call_after_cont_not_shmNew _ _ _ hcont (by intro a b; simp) hid' st')
        · cases hc'
      · rw [fail_calls_other g t e t' e'] at hc'
        exact hFn _ _ (hK.noTrunc t' hid' st' fd' hc' hpc')

/-- **the segment of `k` exists**: `MapInv ∧ KeyInv` is preserved by every schedule without a `shm_unlink (k)` -/
theorem keyInv_execAll (k : ShmKey) (s : SegId) (L : Nat) (as : List Action) :
    ∀ g, MapInv g → KeyInv k s L g → NoShmUnlink k g as → MapInv (execAll g as) ∧ KeyInv k s L (execAll g as) := by
  induction as with
  | nil => intro g hM hK _; exact ⟨hM, hK⟩
  | cons a as ih =>
    intro g hM hK hq
    simp only [execAll, List.foldl_cons]
    refine ih (exec g a) (mapInv_exec g a hM) ?_ hq.2
    cases a with
    | start t op => exact keyInv_start k s L g t op hK
    | kill p => exact keyInv_kill k s L g p hK
    | step t i => exact keyInv_step k s L g t i hM hK hq.1
    | fail t e => exact keyInv_fail k s L g t e hM hK

/-! ## consequences for live handles, in any state satisfying the invariants -/

/-- under `MapInv` a live handle's address is mapped, by exactly one mapping, of exactly the handle's size -/
theorem findMap_of_handle (g : G) (hM : MapInv g) (h : Hid) (p : Pid) (y : PShm) (hy : g.hs h = some (p, .shm y)) :
    ∃ m, findMap (g.os.procs p) y.addr = some m ∧ m ∈ (g.os.procs p).maps ∧ m.addr = y.addr ∧ m.len = y.size ∧ m.off = 0 ∧
      y.size ≠ 0 ∧ ∀ m' ∈ (g.os.procs p).maps, m'.addr = y.addr → m' = m := by
  obtain ⟨hl, m, hm, hma, hml, hmo⟩ := hM.claims.valid (.inl h) p y.addr y.size (by simp [claimOf, hClaim, hy])
  have uniq : ∀ m' ∈ (g.os.procs p).maps, m'.addr = y.addr → m' = m :=
    fun m' hm' ha' => nodup_map_inj (·.addr) _ (hM.claims.nodup p) m' m hm' hm (by rw [ha', hma])
  cases hf : findMap (g.os.procs p) y.addr with
  | none =>
    simp only [findMap, List.find?_eq_none] at hf
    exact absurd hma (by simpa using hf m hm)
  | some m' =>
    have h1 := List.find?_some hf
    have h2 := List.mem_of_find?_eq_some hf
    simp only [decide_eq_true_eq] at h1
    have := uniq m' h2 h1
    subst this
    exact ⟨m', rfl, hm, hma, hml, hmo, hl, uniq⟩

/-- **one memory per name, any interleaving**: in every state in which the segment of `k` exists
    (`MapInv ∧ KeyInv`), a byte stored through any live writable handle of `k` is the byte loaded through
    any live handle of `k` — same or different thread or process — at every offset below both reported sizes -/
theorem handles_share_bytes (k : ShmKey) (s : SegId) (L : Nat) (g : G) (hM : MapInv g) (hK : KeyInv k s L g)
    (ta tb : Tid) (ha hb : Hid) (ya yb : PShm) (off : Nat) (b : UInt8)
    (ia : Idle g ta) (ib : Idle g tb)
    (hha : g.hs ha = some (g.pidOf ta, .shm ya)) (hhb : g.hs hb = some (g.pidOf tb, .shm yb))
    (ka : ya.key = k) (kb : yb.key = k) (hrw : ya.ro = false) (la : off < ya.size) (lb : off < yb.size) :
    ((g.call ta (.wr ha off b)).call tb (.rd hb off)).ret tb = some (.byte b) := by
  obtain ⟨ma, fa, hma, aa, lena, offa, _, _⟩ := findMap_of_handle g hM ha _ ya hha
  obtain ⟨mb, fb, hmb, ab, lenb, offb, _, _⟩ := findMap_of_handle g hM hb _ yb hhb
  obtain ⟨sza, ga⟩ := hK.handles ha _ ya hha ka
  obtain ⟨szb, gb⟩ := hK.handles hb _ yb hhb kb
  obtain ⟨sa, sha, wra⟩ := ga ma hma aa
  obtain ⟨sb, _, _⟩ := gb mb hmb ab
  exact write_then_read g ta tb ha hb ya yb ma mb off b ia ib hha hhb fa fb (by rw [sa, sb]) offa offb
    (by rw [lena]; exact la) (by rw [lenb]; exact lb) (wra hrw) sha (by rw [sa, hK.len]; omega)

/-- **no fault below the reported size, any interleaving** -/
theorem handle_no_fault (k : ShmKey) (s : SegId) (L : Nat) (g : G) (hM : MapInv g) (hK : KeyInv k s L g)
    (h : Hid) (p : Pid) (y : PShm) (hy : g.hs h = some (p, .shm y)) (hk : y.key = k) (off : Nat) (ho : off < y.size) :
    ∃ b, g.os.load p y.addr off = .val b := by
  obtain ⟨m, fm, hm, am, lenm, offm, _, _⟩ := findMap_of_handle g hM h p y hy
  obtain ⟨sz, gm⟩ := hK.handles h p y hy hk
  obtain ⟨sm, _, _⟩ := gm m hm am
  have hlen : m.off + off < (g.os.segs m.seg).bytes.length := by rw [offm, sm, hK.len]; omega
  exact ⟨_, load_eq g.os p y.addr off m fm (by rw [lenm]; exact ho) hlen⟩

/-- **exact unmap, any interleaving**: the `munmap` step of any `p_shm_free` in flight removes exactly
    the one mapping the handle's `p_shm_new` created (it exists, is unique, has the handle's size) and
    nothing else, in no other process either -/
theorem free_unmaps_exactly (g : G) (t : Tid) (i : Bool) (st : ShmFreeSt) (hM : MapInv g)
    (hc : g.calls t = some (.shmFree st)) (hpc : st.pc = .munmap) :
    ∃ m, m ∈ (g.os.procs (g.pidOf t)).maps ∧ m.addr = st.h.addr ∧ m.len = st.h.size ∧
      (∀ m' ∈ (g.os.procs (g.pidOf t)).maps, m'.addr = st.h.addr → m' = m) ∧
      ((g.step t i).os.procs (g.pidOf t)).maps = (g.os.procs (g.pidOf t)).maps.filter (fun m' => decide (m'.addr ≠ st.h.addr)) ∧
      ∀ q, q ≠ g.pidOf t → ((g.step t i).os.procs q).maps = (g.os.procs q).maps := by
  obtain ⟨hnext, hcl⟩ := (shmFree_step (g.pidOf t) st).1 hpc
  have hclaim : claimOf g (.inr t) = some (g.pidOf t, st.h.addr, st.h.size) := by
    simp only [claimOf, tClaim, hc]; exact hcl
  obtain ⟨hl0, m, hm, hma, hml, _⟩ := hM.claims.valid _ _ _ _ hclaim
  have uniq : ∀ m' ∈ (g.os.procs (g.pidOf t)).maps, m'.addr = st.h.addr → m' = m :=
    fun m' hm' ha' => nodup_map_inj (·.addr) _ (hM.claims.nodup _) m' m hm' hm (by rw [ha', hma])
  have hmun := sysStep_munmap (g.pidOf t) i st.h.addr st.h.size g.os hl0
  have hex := munmapF_exact (g.os.procs (g.pidOf t)) st.h.addr st.h.size (fun m' hm' ha' => by rw [uniq m' hm' ha']; exact hml)
  refine ⟨m, hm, hma, hml, uniq, ?_, ?_⟩
  · rw [step_os g t i _ hc]; simp only [Call.next, hnext]; rw [hmun.1]; exact hex.1
  · intro q hq; rw [step_os g t i _ hc]; simp only [Call.next, hnext]; rw [hmun.2.1 q hq]

/-- a sequential call is a schedule: invariants over `execAll` hold after `G.call` -/
theorem runCall_is_execAll (fuel : Nat) : ∀ (g : G) (t : Tid) (sc : List Nat), ∃ as, runCall g t sc fuel = execAll g as := by
  induction fuel with
  | zero => intro g t sc; exact ⟨[], rfl⟩
  | succ f ih =>
    intro g t sc
    simp only [runCall]
    split
    · exact ⟨[], rfl⟩
    · rename_i c hc
      split
      · exact ⟨List.replicate (if c.next.interruptible = true then sc.headD 0 else 0) (Action.step t true) ++ [Action.step t false],
          by simp [execAll, List.foldl_append, exec]⟩
      · obtain ⟨as, has⟩ := ih ((List.foldl exec g (List.replicate (if c.next.interruptible = true then sc.headD 0 else 0) (Action.step t true))).step t false) t sc.tail
        exact ⟨List.replicate (if c.next.interruptible = true then sc.headD 0 else 0) (Action.step t true) ++ [Action.step t false] ++ as,
          by rw [has]; simp [execAll, List.foldl_append, exec]⟩

theorem call_is_execAll (g : G) (t : Tid) (op : Op) (sc : List Nat) : ∃ as, g.call t op sc = execAll g as := by
  obtain ⟨as, has⟩ := runCall_is_execAll seqFuel (g.start t op) t sc
  exact ⟨Action.start t op :: as, by simp only [G.call, has, execAll, List.foldl_cons, exec]⟩

theorem mapInv_call (g : G) (t : Tid) (op : Op) (sc : List Nat) (h : MapInv g) : MapInv (g.call t op sc) := by
  obtain ⟨as, has⟩ := call_is_execAll g t op sc
  rw [has]; exact mapInv_execAll as g h

/-! ## `SegWF`: object ids and descriptor numbers in use are below the allocation counters -/

def ShmNewPC.fd? : ShmNewPC → Option Nat
  | .fstat fd | .ftrunc fd | .mmap fd | .close fd | .fClose fd _ => some fd
  | _ => none

structure SegWF (g : G) : Prop where
  names : ∀ k s, g.os.shmNames k = some s → s < g.os.nextSeg
  fdsSeg : ∀ p x, x ∈ (g.os.procs p).fds → x.2 < g.os.nextSeg
  flightFd : ∀ t hid st fd, g.calls t = some (.shmNew hid st) → st.pc.fd? = some fd → fd < (g.os.procs (g.pidOf t)).nextFd

theorem sysStep_oswf (p : Pid) (i : Bool) (c : Sys) (os : OS)
    (hn : ∀ k s, os.shmNames k = some s → s < os.nextSeg) (hf : ∀ q x, x ∈ (os.procs q).fds → x.2 < os.nextSeg) :
    (∀ k s, (sysStep p i c os).1.shmNames k = some s → s < (sysStep p i c os).1.nextSeg) ∧
    (∀ q x, x ∈ ((sysStep p i c os).1.procs q).fds → x.2 < (sysStep p i c os).1.nextSeg) := by
  cases c with
  | mmap fd len prot fl =>
    rcases sysStep_mmap p i fd len prot fl os with ⟨e, he⟩ | ⟨sg, _, _, _, _, _, hfds, _, hq, _, hnm, hns⟩
    · rw [he]; exact ⟨hn, hf⟩
    · refine ⟨?_, ?_⟩
      · intro k s hk; rw [hnm] at hk; rw [hns]; exact hn k s hk
      · intro q x hx
        rw [hns]
        by_cases e : q = p
        · subst e; rw [hfds] at hx; exact hf q x hx
        · rw [hq q e] at hx; exact hf q x hx
  | munmap a len =>
    by_cases h0 : len = 0
    · have : sysStep p i (.munmap a len) os = (os, .err .EINVAL) := by simp [sysStep, Sys.interruptible, h0]
      rw [this]; exact ⟨hn, hf⟩
    · obtain ⟨hp, hq, _, hnm, hns⟩ := sysStep_munmap p i a len os h0
      refine ⟨?_, ?_⟩
      · intro k s hk; rw [hnm] at hk; rw [hns]; exact hn k s hk
      · intro q x hx
        rw [hns]
        by_cases e : q = p
        · subst e; rw [hp] at hx; simp only [munmapF] at hx; exact hf q x hx
        · rw [hq q e] at hx; exact hf q x hx
  | shmOpen k fl m =>
    unfold sysStep
    split
    · exact ⟨hn, hf⟩
    · simp only [shmOpenF, OS.setProc]
      cases hk : os.shmNames k with
      | some s0 =>
        have hs0 := hn k s0 hk
        simp only
        split
        · exact ⟨hn, hf⟩
        · refine ⟨hn, ?_⟩
          intro q x hx
          by_cases e : q = p
          · subst e
            simp only [if_true, List.mem_cons] at hx
            rcases hx with rfl | hx
            · exact hs0
            · exact hf q x hx
          · simp only [e, if_false] at hx; exact hf q x hx
      | none =>
        simp only
        split
        · refine ⟨?_, ?_⟩
          · intro k' s' hk'
            simp only at hk'
            split at hk'
            · simp only [Option.some.injEq] at hk'; rw [← hk']; exact Nat.lt_succ_self _
            · exact Nat.lt_succ_of_lt (hn k' s' hk')
          · intro q x hx
            show x.2 < os.nextSeg + 1
            by_cases e : q = p
            · subst e
              simp only [if_true, List.mem_cons] at hx
              rcases hx with rfl | hx
              · exact Nat.lt_succ_self _
              · exact Nat.lt_succ_of_lt (hf q x hx)
            · simp only [e, if_false] at hx; exact Nat.lt_succ_of_lt (hf q x hx)
        · exact ⟨hn, hf⟩
  | shmUnlink k =>
    unfold sysStep
    split
    · exact ⟨hn, hf⟩
    · simp only
      split
      · refine ⟨?_, hf⟩
        intro k' s' hk'
        simp only at hk'
        split at hk'
        · cases hk'
        · exact hn k' s' hk'
      · exact ⟨hn, hf⟩
  | close fd =>
    unfold sysStep
    split
    · exact ⟨hn, hf⟩
    · simp only [OS.setProc]
      split
      · refine ⟨hn, ?_⟩
        intro q x hx
        by_cases e : q = p
        · subst e
          simp only [if_true] at hx
          exact hf q x (List.mem_filter.mp hx).1
        · simp only [e, if_false] at hx; exact hf q x hx
      · exact ⟨hn, hf⟩
  | semOpen k fl m v => unfold sysStep; simp only [semOpenF]; (repeat' split) <;> exact ⟨hn, hf⟩
  | _ =>
    unfold sysStep
    simp only [OS.setProc]
    all_goals ((repeat' split) <;> exact ⟨hn, hf⟩)

/-- a `p_shm_new` step keeps its descriptor or gets the next one -/
theorem shmNew_fd_after (st st' : ShmNewSt) (r : Res) (fd' : Nat) (h : st.after r = .cont st') (hfd : st'.pc.fd? = some fd') :
    st.pc.fd? = some fd' ∨ ((st.pc = .excl ∨ st.pc = .open) ∧ r = .ok fd') := by
  obtain ⟨key, req, ro, created, isExists, size, addr, pc⟩ := st
  cases pc with
  | sem s0 =>
    simp only [ShmNewSt.after] at h
    split at h
    · simp only [Out.cont.injEq] at h; subst h; simp [ShmNewPC.fd?] at hfd
    · simp at h
    · simp only [ShmNewSt.cleanFrom] at h
      (repeat' split at h) <;> simp only [Out.cont.injEq, reduceCtorEq] at h <;> subst h <;> simp [ShmNewPC.fd?] at hfd
  | _ =>
    rcases r with v | e | _ <;> (try cases e) <;>
      simp only [ShmNewSt.after, ShmNewSt.cleanFrom, shmOpen1Retry, shmOpen2Retry, shmFtruncateCreatorOnly, if_true, Out.cont.injEq, reduceCtorEq] at h <;>
      (try (repeat' split at h)) <;> (try simp only [Out.cont.injEq, reduceCtorEq] at h) <;> (try subst h) <;>
      simp_all [ShmNewPC.fd?]

theorem sysStep_shmOpen_ok_fd (p : Pid) (i : Bool) (k : ShmKey) (fl m : Nat) (os : OS) (fd : Nat)
    (h : (sysStep p i (.shmOpen k fl m) os).2 = .ok fd) : fd < ((sysStep p i (.shmOpen k fl m) os).1.procs p).nextFd := by
  unfold sysStep at h ⊢
  split at h
  · simp at h
  · rename_i hi
    simp only [hi, if_false]
    simp only [shmOpenF, OS.setProc] at h ⊢
    (repeat' split at h) <;> (repeat' split) <;> simp_all <;> omega

theorem segWF_fail (g : G) (t : Tid) (e : Errno) (h : SegWF g) : SegWF (g.fail t e) := by
  cases hc : g.calls t with
  | none => rw [fail_none g t e hc]; exact h
  | some c =>
    have hos := fail_os g t e
    refine ⟨by rw [hos]; exact h.names, by rw [hos]; exact h.fdsSeg, ?_⟩
    intro t' hid' st' fd' hc' hfd'
    rw [fail_pidOf, hos]
    by_cases e' : t' = t
    · subst e'
      rw [fail_calls_self g t' e c hc] at hc'
      split at hc'
      · rename_i c' hcont
        simp only [Option.some.injEq] at hc'
        subst hc'
        cases c with
        | shmNew hid st =>
          obtain ⟨st'', e'', ha⟩ := call_after_cont_shmNew hid st _ _ hcont
          simp only [Call.shmNew.injEq] at e''
          obtain ⟨_, rfl⟩ := e''
          rcases shmNew_fd_after st st' _ fd' ha hfd' with h0 | ⟨_, hr⟩
          · exact h.flightFd t' hid st fd' hc h0
          · cases hr
        | _ => exact absurd rfl (call_after_cont_not_shmNew _ _ _ hcont (by intro a b; simp) hid' st')
      · cases hc'
    · rw [fail_calls_other g t e t' e'] at hc'
      exact h.flightFd t' hid' st' fd' hc' hfd'

theorem segWF_exec (g : G) (a : Action) (h : SegWF g) : SegWF (exec g a) := by
  cases a with
  | fail t e => exact segWF_fail g t e h
  | start t op =>
    simp only [exec]
    have hp := start_procs g t op
    refine ⟨?_, ?_, ?_⟩
    · intro k s hk; rw [start_shmNames] at hk; rw [(start_seg_len g t op 0).2]; exact h.names k s hk
    · intro p x hx; rw [hp] at hx; rw [(start_seg_len g t op 0).2]; exact h.fdsSeg p x hx
    · intro t' hid st fd hc hfd
      rw [hp, start_pidOf]
      by_cases e : t' = t
      · subst e
        rcases start_calls_shmNew g t' op hid st hc with h0 | ⟨hpc, _⟩
        · exact h.flightFd t' hid st fd h0 hfd
        · rw [hpc] at hfd; simp [ShmNewPC.fd?] at hfd
      · rw [start_calls_other g t op t' e] at hc; exact h.flightFd t' hid st fd hc hfd
  | kill p =>
    simp only [exec]
    refine ⟨h.names, ?_, ?_⟩
    · intro q x hx
      by_cases e : q = p
      · subst e; simp [G.kill, OS.kill, OS.setProc] at hx
      · simp only [G.kill, OS.kill, OS.setProc, e, if_false] at hx; exact h.fdsSeg q x hx
    · intro t hid st fd hc hfd
      simp only [G.kill] at hc
      split at hc
      · cases hc
      · rename_i hne
        have := h.flightFd t hid st fd hc hfd
        show fd < ((g.kill p).os.procs (g.pidOf t)).nextFd
        simpa [G.kill, OS.kill, OS.setProc, hne] using this
  | step t i =>
    simp only [exec]
    cases hc : g.calls t with
    | none => rw [step_none g t i hc]; exact h
    | some c =>
      have hos := step_os g t i c hc
      have hw := sysStep_oswf (g.pidOf t) i c.next g.os h.names h.fdsSeg
      refine ⟨by rw [hos]; exact hw.1, by rw [hos]; exact hw.2, ?_⟩
      intro t' hid' st' fd' hc' hfd'
      rw [step_pidOf]
      by_cases e : t' = t
      · subst e
        rw [step_calls_self g t' i c hc] at hc'
        split at hc'
        · rename_i c' hcont
          simp only [Option.some.injEq] at hc'
          subst hc'
          cases c with
          | shmNew hid st =>
            obtain ⟨st'', e', ha⟩ := call_after_cont_shmNew hid st _ _ hcont
            simp only [Call.shmNew.injEq] at e'
            obtain ⟨_, rfl⟩ := e'
            rcases shmNew_fd_after st st' _ fd' ha hfd' with h0 | ⟨hpc, hr⟩
            · exact Nat.lt_of_lt_of_le (h.flightFd t' hid st fd' hc h0) (nextFd_step g t' i _)
            · rw [hos]
              simp only [Call.next] at hr ⊢
              have hnext : ∃ fl m, st.next = .shmOpen st.key fl m := by
                obtain ⟨key, req, ro, created, isExists, size, addr, pc⟩ := st
                rcases hpc with hpc | hpc <;> simp only at hpc <;> subst hpc <;> exact ⟨_, _, rfl⟩
              obtain ⟨fl, m, hn⟩ := hnext
              rw [hn] at hr ⊢
              exact sysStep_shmOpen_ok_fd _ _ _ _ _ _ _ hr
          | _ => exact absurd rfl (call_after_cont_not_shmNew _ _ _ hcont (by intro a b; simp) hid' st')
        · cases hc'
      · rw [step_calls_other g t i t' e] at hc'
        exact Nat.lt_of_lt_of_le (h.flightFd t' hid' st' fd' hc' hfd') (nextFd_step g t i _)

theorem segWF_execAll (as : List Action) : ∀ g, SegWF g → SegWF (execAll g as) := by
  induction as with
  | nil => intro g h; exact h
  | cons a as ih => intro g h; simp only [execAll, List.foldl_cons]; exact ih _ (segWF_exec g a h)

theorem segWF_init (pidOf : Tid → Pid) : SegWF (G.init pidOf) :=
  ⟨by intro k s h; simp [G.init, OS.init] at h, by intro p x h; simp [G.init, OS.init] at h,
   by intro t hid st fd h; simp [G.init] at h⟩

theorem segWF_call (g : G) (t : Tid) (op : Op) (sc : List Nat) (h : SegWF g) : SegWF (g.call t op sc) := by
  obtain ⟨as, has⟩ := call_is_execAll g t op sc
  rw [has]; exact segWF_execAll as g h

/-! ## the invariant is established by a (sequential) first creation -/

theorem lookupFd_mem (pr : Proc) (fd : Nat) (s' : SegId) (h : lookupFd pr fd = some s') : (fd, s') ∈ pr.fds := by
  simp only [lookupFd, Option.map_eq_some_iff] at h
  obtain ⟨x, hx, rfl⟩ := h
  have h1 := List.find?_some hx
  have h2 := List.mem_of_find?_eq_some hx
  simp only [decide_eq_true_eq] at h1
  rw [← h1]; exact h2

/-- what is known of the OS after a successful first `p_shm_new` (lock semaphore stale or not) -/
theorem creation_facts (g : G) (t : Tid) (h : Hid) (k : ShmKey) (size : Nat) (ro : Bool)
    (hi : Idle g t) (hh : g.hs h = none) (hk : g.os.shmNames k = none) (hs : size ≠ 0) :
    let g' := g.call t (.newShm h k size ro)
    g'.os.shmNames k = some g.os.nextSeg ∧ (g'.os.segs g.os.nextSeg).bytes = List.replicate size 0 ∧
    g'.os.nextSeg = g.os.nextSeg + 1 ∧
    g'.os.procs = (fun q => if q = g.pidOf t then (g.os.procs (g.pidOf t)).afterNew g.os.nextSeg size ro else g.os.procs q) ∧
    g'.hs = (fun h' => if h' = h then some (g.pidOf t, .shm (creatorHandle g t k size ro)) else g.hs h') ∧
    g'.calls t = none ∧ g'.pidOf = g.pidOf := by
  simp only
  cases hl : g.os.semNames (.lock k) with
  | none =>
    have c := call_newShm_fresh g t h k size ro hi hh hk hl hs
    refine ⟨?_, ?_, ?_, ?_, c.2.1, c.2.2.1, c.2.2.2⟩ <;> (rw [c.1]; simp [OS.semCreate, OS.afterShmNew, OS.shmCreate])
  | some ol =>
    have c := call_newShm_fresh_stale_lock g t h k size ro ol hi hh hk hl hs
    refine ⟨?_, ?_, ?_, ?_, c.2.1, c.2.2.1, c.2.2.2⟩ <;> (rw [c.1]; simp [OS.semCreate, OS.semRemove, OS.afterShmNew, OS.shmCreate])

/-- After a first creation of `k` — no live handle of `k`, no `p_shm_new (k)` in flight — the segment
    exists: `KeyInv k (new object) size` holds (and `MapInv`, `SegWF` still do). -/
theorem keyInv_after_creation (g : G) (t : Tid) (h : Hid) (k : ShmKey) (size : Nat) (ro : Bool)
    (hM : MapInv g) (hS : SegWF g) (hi : Idle g t) (hh : g.hs h = none) (hk : g.os.shmNames k = none) (hs : size ≠ 0)
    (hnoH : ∀ h' p y, g.hs h' = some (p, .shm y) → y.key ≠ k)
    (hnoF : ∀ t' hid st, g.calls t' = some (.shmNew hid st) → st.key ≠ k) :
    KeyInv k g.os.nextSeg size (g.call t (.newShm h k size ro)) := by
  obtain ⟨f1, f2, f3, f4, f5, f6, f7⟩ := creation_facts g t h k size ro hi hh hk hs
  have hco := call_calls_other g t (.newShm h k size ro) []
  refine ⟨f1, by rw [f2]; simp, hs, by rw [f3]; exact Nat.lt_succ_self _, ?_, ?_, ?_⟩
  · intro h' p y hy hky
    rw [f5] at hy
    dsimp only at hy
    split at hy
    · simp only [Option.some.injEq, Prod.mk.injEq, Handle.shm.injEq] at hy
      obtain ⟨rfl, rfl⟩ := hy
      refine ⟨Nat.le_refl _, ?_⟩
      intro m hm hma
      rw [f4] at hm
      simp only [if_true, Proc.afterNew, List.mem_cons] at hm
      rcases hm with rfl | hm'
      · refine ⟨rfl, mapShared, ?_⟩
        intro hro; simp only [creatorHandle] at hro; subst hro; exact rwWritable
      · have := hM.claims.fresh _ m hm'
        simp only [creatorHandle] at hma
        omega
    · exact absurd hky (hnoH h' p y hy)
  · intro t' hid st hc hkey
    by_cases e : t' = t
    · subst e; rw [f6] at hc; cases hc
    · rw [hco t' e] at hc; exact absurd hkey (hnoF t' hid st hc)
  · intro t' hid st fd hc hpc
    by_cases e : t' = t
    · subst e; rw [f6] at hc; cases hc
    · rw [hco t' e] at hc
      have hlt := hS.flightFd t' hid st fd hc (by rw [hpc]; rfl)
      rw [f7]
      refine ⟨?_, ?_⟩
      · rw [f4]; dsimp only; split
        · rename_i e'; rw [e'] at hlt; simp only [Proc.afterNew]; omega
        · exact hlt
      · intro s' hs'
        have hmem : (fd, s') ∈ (g.os.procs (g.pidOf t')).fds := by
          rw [f4] at hs'
          dsimp only at hs'
          split at hs'
          · rename_i e'
            have := lookupFd_mem _ _ _ hs'
            simp only [Proc.afterNew] at this
            rw [e']; exact (List.mem_filter.mp this).1
          · exact lookupFd_mem _ _ _ hs'
        exact Nat.ne_of_lt (hS.fdsSeg _ _ hmem)

end PV.IPC

import PV.Lemmas.Socket
import PV.Spec.Socket
/-! Helper lemmas of the socket family at the level of whole API calls (used by `PV.Props.C09` / `C10`). -/
set_option linter.unusedSimpArgs false
namespace PV.Socket
open PV.Generated.Socket

theorem loop_call_transparent (s : Sock) (hb : s.blocking = true) (cond : Int) (call : Issued) (msg : String)
    (script : Script) (e : Int) :
    (runLoop (loopCfg s cond call msg) { script := script, errno := e }).full =
    (runLoop (loopCfg s cond call msg)
      { script := (dropRetries call.sys script e).1, errno := (dropRetries call.sys script e).2 }).full := by
  unfold runLoop
  apply liftLoop_full
  have : startPhase (loopCfg s cond call msg) = .wait := by simp [startPhase, loopCfg, hb]
  rw [this]
  exact ioLoop_dropRetries (loopCfg s cond call msg) (by simp [loopCfg, hb]) script e

/-- what "exactly one successful native data call, its count returned, nothing afterwards" means -/
structure OneDataCall (dataCall : Issued) (script : Script) (r : CallResult) (k : Nat) (res : Res) (pre : List Ev) : Prop where
  /-- the trace ends with the data call that succeeded … -/
  trace : r.tr = pre ++ [⟨dataCall, res⟩]
  /-- … which returned `k`, and `k` is what the caller gets -/
  count : res.ret = .ok k
  ret : r.out.ret = Int.ofNat k
  /-- every earlier attempt had failed (no second successful read / no resend) -/
  earlier_failed : ∀ ev ∈ pre, ev.call = dataCall → ev.res.failed = true
  /-- every native call of the trace is the `poll` of the wait or the data call with the *same* arguments -/
  same_args : ∀ ev ∈ r.tr, ev.call.sys = dataCall.sys → ev.call = dataCall
  /-- the script is consumed exactly up to the successful answer: no further native call is made -/
  nothing_after : script = pre.map (·.res) ++ res :: r.rest

theorem one_data_call (s : Sock) (c : LoopCfg) (hpc : c.poll ≠ c.call) (hps : c.poll.sys ≠ c.call.sys) (ph : Phase)
    (onDone : Res → Outcome) (hd : ∀ x, (onDone x).err = none) (hr : ∀ x, (onDone x).ret = retVal x)
    (script : Script) (e : Int) (r : CallResult)
    (h : ofLoop s (ioLoop c ph script e) onDone (-1) = .ok r) (hok : r.out.err = none) :
    ∃ k res pre, OneDataCall c.call script r k res pre := by
  obtain ⟨res, hf, hr'⟩ := ofLoop_ok_noerr _ _ _ _ _ hd h hok
  obtain ⟨pre, h1, h2, h3, h4, h5⟩ := ioLoop_done c hpc ph script e res hf
  cases hret : res.ret with
  | err x => simp [Res.failed, hret] at h3
  | ok k =>
    refine ⟨k, res, pre, ?_⟩
    subst hr'
    refine ⟨h1, hret, ?_, h2, ?_, h5⟩
    · simp [hr, retVal, hret]
    · intro ev hev hs
      rcases ioLoop_calls c ph script e ev hev with h | h
      · rw [h] at hs; exact absurd hs hps
      · exact h

/-- a `poll` carries the socket's descriptor, one pollfd, and the timeout `T` if `T > 0`, else −1 (wait for ever) -/
def pollArgsOk (fd timeout : Int) (ev : Ev) : Prop :=
  match ev.call with
  | .poll f _ t n => f = fd ∧ t = (if timeout > 0 then timeout else -1) ∧ n = 1
  | _ => True

theorem pollArgsOk_of_ne (fd t : Int) (ev : Ev) (h : ev.call.sys ≠ .poll) : pollArgsOk fd t ev := by
  unfold pollArgsOk; cases hc : ev.call <;> simp_all [Issued.sys]

theorem pollArgsOk_pollCall (s : Sock) (cond : Int) (r : Res) : pollArgsOk s.fd s.timeout ⟨pollCall s cond, r⟩ := by
  simp [pollArgsOk, pollCall, pollTimeout]

theorem loop_polls (s : Sock) (cond : Int) (call : Issued) (msg : String) (hc : call.sys ≠ .poll) :
    TrAll (pollArgsOk s.fd s.timeout) (runLoop (loopCfg s cond call msg)) := by
  unfold runLoop
  apply TrAll.liftLoop
  intro sc e ev hev
  rcases ioLoop_calls _ _ _ _ ev hev with h | h
  · have : ev = ⟨pollCall s cond, ev.res⟩ := by cases ev; simp_all [loopCfg]
    rw [this]; exact pollArgsOk_pollCall s cond _
  · exact pollArgsOk_of_ne _ _ _ (by rw [h]; exact hc)

theorem ioWait_polls (s : Sock) (cond : Int) : TrAll (pollArgsOk s.fd s.timeout) (ioWait s cond) := by
  unfold ioWait
  tr_all (simp [pollArgsOk])
  apply TrAll.liftLoop
  intro sc e ev hev
  have := pollLoop_calls _ _ _ ev hev
  have : ev = ⟨pollCall s cond, ev.res⟩ := by cases ev; simp_all
  rw [this]; exact pollArgsOk_pollCall s cond _

theorem setFdBlocking_polls (fd t fd' : Int) (b : Bool) : TrAll (pollArgsOk fd t) (setFdBlocking fd' b) := by
  unfold setFdBlocking; tr_all (simp [pollArgsOk])
theorem setDetails_polls (fd t : Int) (s : Sock) : TrAll (pollArgsOk fd t) (setDetailsFromFd s) := by
  unfold setDetailsFromFd; tr_all (simp [pollArgsOk])
theorem cloexecBlock_polls (fd t : Int) (p : Bool) (a b c d e : Int) : TrAll (pollArgsOk fd t) (fdCloexecBlock p a b c d e) := by
  unfold fdCloexecBlock; tr_all (simp [pollArgsOk])
theorem newFromFd_polls (fd t fd' : Int) : TrAll (pollArgsOk fd t) (newFromFd fd') := by
  unfold newFromFd; tr_all (simp [pollArgsOk])
  all_goals first | exact setDetails_polls _ _ _ | exact setFdBlocking_polls _ _ _ _
theorem close_polls (fd t : Int) (s : Sock) : TrAll (pollArgsOk fd t) (close s) := by
  unfold close; tr_all (simp [pollArgsOk])
theorem checkConnectResult_polls (fd t : Int) (s : Sock) : TrAll (pollArgsOk fd t) (checkConnectResult s) := by
  unfold checkConnectResult; tr_all (simp [pollArgsOk])

theorem callM_polls (s : Sock) (c : Call) : TrAll (pollArgsOk s.fd s.timeout) (callM s c) := by
  cases c <;> simp only [callM]
  case bind a r => unfold bind; tr_all (simp [pollArgsOk])
  case listen => unfold listen; tr_all (simp [pollArgsOk])
  case close => tr_all (simp [pollArgsOk]); exact close_polls _ _ _
  case shutdown => unfold shutdown; tr_all (simp [pollArgsOk])
  case setBufferSize => unfold setBufferSize; tr_all (simp [pollArgsOk])
  case setKeepalive => unfold setKeepalive; tr_all (simp [pollArgsOk])
  case setBlocking => tr_all (simp [pollArgsOk])
  case setBacklog => tr_all (simp [pollArgsOk])
  case setTimeout => tr_all (simp [pollArgsOk])
  case getLocal => unfold getAddress; tr_all (simp [pollArgsOk])
  case getRemote => unfold getAddress; tr_all (simp [pollArgsOk])
  case checkConnectResult => exact checkConnectResult_polls _ _ _
  case ioWait cnd => tr_all (simp [pollArgsOk]); exact ioWait_polls _ _
  case receive bn n =>
    unfold receive; tr_all (simp [pollArgsOk])
    exact loop_polls _ _ _ _ (by simp [recvCall, Issued.sys])
  case receiveFrom w bn n =>
    unfold receiveFrom; tr_all (simp [pollArgsOk])
    exact loop_polls _ _ _ _ (by simp [recvfromCall, Issued.sys])
  case send b n =>
    unfold send; tr_all (simp [pollArgsOk])
    exact loop_polls _ _ _ _ (by simp [sendCall, Issued.sys])
  case sendTo a b n =>
    unfold sendTo; tr_all (simp [pollArgsOk])
    exact loop_polls _ _ _ _ (by simp [sendtoCall, Issued.sys])
  case accept =>
    unfold accept; tr_all (simp [pollArgsOk])
    all_goals first
      | exact loop_polls _ _ _ _ (by simp [Issued.sys])
      | exact cloexecBlock_polls _ _ _ _ _ _ _ _
      | exact newFromFd_polls _ _ _
  case connect a =>
    unfold connect; tr_all (simp [pollArgsOk])
    all_goals first
      | exact ioWait_polls _ _
      | exact checkConnectResult_polls _ _ _
      | (apply TrAll.liftLoop
         intro sc e ev hev
         exact pollArgsOk_of_ne _ _ _ (by rw [connLoop_calls _ _ _ ev hev]; simp [Issued.sys]))

def noPoll (ev : Ev) : Prop := ev.call.sys ≠ .poll

theorem nb_loop (s : Sock) (hb : s.blocking = false) (cond : Int) (call : Issued) (msg : String) (hc : call.sys ≠ .poll) :
    TrAll noPoll (runLoop (loopCfg s cond call msg)) := by
  unfold runLoop
  apply TrAll.liftLoop
  intro sc e ev hev
  have hs : startPhase (loopCfg s cond call msg) = .data := by simp [startPhase, loopCfg, hb]
  rw [hs] at hev
  have := ioLoop_nonblocking_calls (loopCfg s cond call msg) (by simp [loopCfg, hb]) sc e ev hev
  unfold noPoll; rw [this]; exact hc

theorem setFdBlocking_np (fd' : Int) (b : Bool) : TrAll noPoll (setFdBlocking fd' b) := by
  unfold setFdBlocking; tr_all (simp [noPoll, Issued.sys])
theorem setDetails_np (s : Sock) : TrAll noPoll (setDetailsFromFd s) := by
  unfold setDetailsFromFd; tr_all (simp [noPoll, Issued.sys])
theorem cloexecBlock_np (p : Bool) (a b c d e : Int) : TrAll noPoll (fdCloexecBlock p a b c d e) := by
  unfold fdCloexecBlock; tr_all (simp [noPoll, Issued.sys])
theorem newFromFd_np (fd' : Int) : TrAll noPoll (newFromFd fd') := by
  unfold newFromFd; tr_all (simp [noPoll, Issued.sys])
  all_goals first | exact setDetails_np _ | exact setFdBlocking_np _ _

def connCall (s : Sock) (sa : Bytes) : Issued := .connect s.fd sa (Int.ofNat sa.length)
def soErrorCall (s : Sock) : Issued := .getsockopt s.fd SOL_SOCKET SO_ERROR 4

/-- what `p_socket_connect` does once its `connect()` loop has ended with the answer `r` (trace `evs` so far) -/
def connectAfter (s : Sock) (r : Res) (evs : List Ev) (rest : Script) (errno : Int) : Except Stop CallResult :=
  if r.ret = .ok 0 then
    .ok { sock := { s with connected := true }, out := { ret := 1 }, tr := evs, rest := rest, errno := errno }
  else
    let sockErr := ioFromSystem errno
    if sockErr = P_ERROR_IO_WOULD_BLOCK ∨ sockErr = P_ERROR_IO_IN_PROGRESS then
      if s.blocking then
        -- wait for POLLOUT, then SO_ERROR decides
        let p := pollLoop (pollCall s P_SOCKET_IO_CONDITION_POLLOUT) rest errno
        match p.fin with
        | .stop w => .error w
        | .fail pe => .ok { sock := s, out := failOut 0 pe, tr := evs ++ p.evs, rest := p.rest, errno := p.errno }
        | .done _ =>
          match p.rest with
          | [] => .error .exhausted
          | g :: rest' =>
            if g.sys ≠ .getsockopt then .error (.mismatch .getsockopt g.sys)
            else match g.ret with
              | .err x =>
                .ok { sock := s, out := failOut 0 { code := ioFromSystem x, native := x, msg := "Failed to call getsockopt() to get connection status" },
                      tr := evs ++ p.evs ++ [⟨soErrorCall s, g⟩], rest := rest', errno := x }
              | .ok _ =>
                if g.val = 0 then
                  .ok { sock := { s with connected := true }, out := { ret := 1 },
                        tr := evs ++ p.evs ++ [⟨soErrorCall s, g⟩], rest := rest', errno := p.errno }
                else
                  .ok { sock := { s with connected := false },
                        out := failOut 0 { code := ioFromSystem g.val, native := g.val, msg := "Error in socket layer" },
                        tr := evs ++ p.evs ++ [⟨soErrorCall s, g⟩], rest := rest', errno := p.errno }
      else
        .ok { sock := s, out := failOut 0 { code := sockErr, native := errno, msg := msgConnNonBlock, stale := !r.failed },
              tr := evs, rest := rest, errno := errno }
    else
      .ok { sock := s, out := failOut 0 { code := sockErr, native := errno, msg := msgConnFailed, stale := !r.failed },
            tr := evs, rest := rest, errno := errno }

theorem liftLoop_apply (l : List Res → Int → LoopR) (script : Script) (e : Int) :
    liftLoop l { script := script, errno := e } =
      match (l script e).fin with
      | .stop w => .stop w
      | .done x => .ok (.ok x) { script := (l script e).rest, errno := (l script e).errno } (l script e).evs
      | .fail pe => .ok (.error pe) { script := (l script e).rest, errno := (l script e).errno } (l script e).evs := rfl

/-- `p_socket_connect` from the end of its `connect()` loop -/
def connectResult (s : Sock) (l : LoopR) : Except Stop CallResult :=
  match l.fin with
  | .stop w => .error w
  | .fail pe => .ok { sock := s, out := failOut 0 pe, tr := l.evs, rest := l.rest, errno := l.errno }
  | .done r => connectAfter s r l.evs l.rest l.errno

theorem connect_eq (s : Sock) (hc : s.closed = false) (sa : Bytes) (script : Script) (e : Int) :
    call s (.connect (.native sa)) script e = connectResult s (connLoop (connCall s sa) script e) := by
  unfold call callM connect connectResult
  simp only [check, hc, Bool.false_eq_true, if_false, M.bind_apply]
  simp only [M.bind, liftLoop_apply]
  unfold connCall
  generalize connLoop (Issued.connect s.fd sa (Int.ofNat sa.length)) script e = L
  cases hf : L.fin with
  | stop w => simp
  | fail pe => simp [M.pure, pure]
  | done r =>
    simp only []
    unfold connectAfter
    by_cases h0 : r.ret = .ok 0
    · simp [h0, M.pure, pure, hc]
    · simp only [h0, if_false, M.bind_apply, M.bind, getErrno]
      by_cases hw : ioFromSystem L.errno = P_ERROR_IO_WOULD_BLOCK ∨ ioFromSystem L.errno = P_ERROR_IO_IN_PROGRESS
      · simp only [hw, if_true]
        cases hb : s.blocking with
        | false => simp [M.pure, pure]
        | true =>
          simp only [if_true, ioWait, check, hc, Bool.false_eq_true, if_false, M.bind_apply, M.bind, liftLoop_apply]
          generalize pollLoop (pollCall s P_SOCKET_IO_CONDITION_POLLOUT) L.rest L.errno = Pl
          cases hp : Pl.fin with
          | stop w => simp
          | fail pe => simp [M.pure, pure]
          | done x =>
            simp only [M.pure, pure, List.append_nil]
            cases hr : Pl.rest with
            | nil => simp [checkConnectResult, sys, M.bind]
            | cons g rest' =>
              by_cases hs : g.sys = Sys.getsockopt
              · cases hg : g.ret with
                | err x =>
                  simp [checkConnectResult, sys, M.bind, hs, Issued.sys, Res.failed, hg, errnoErr, M.pure, pure, soErrorCall, failOut, hb, hc]
                | ok v =>
                  by_cases hv : g.val = 0
                  · simp [checkConnectResult, sys, M.bind, hs, Issued.sys, Res.failed, hg, M.pure, pure, hv, soErrorCall, hc, hb, failOut]
                  · simp [checkConnectResult, sys, M.bind, hs, Issued.sys, Res.failed, hg, M.pure, pure, hv, soErrorCall, failOut, hb, hc]
              · simp [checkConnectResult, sys, M.bind, hs, Issued.sys]
      · simp [hw, M.pure, pure]


/-! ## errors compared up to a stale native code -/

/-- same error, except that what was read from a stale `errno` is not compared (the native code of the
    time-out error; code and native code of the error for an out-of-contract `poll` result > 1) -/
def PErr.eqv (a b : PErr) : Prop :=
  a.msg = b.msg ∧ a.stale = b.stale ∧ (a.stale = false → a.code = b.code ∧ a.native = b.native) ∧
  (a.msg = msgTimedOut → a.code = b.code)

theorem PErr.eqv_refl (a : PErr) : a.eqv a := ⟨rfl, rfl, fun _ => ⟨rfl, rfl⟩, fun _ => rfl⟩

def LoopEnd.eqv : LoopEnd → LoopEnd → Prop
  | .done a, .done b => a = b
  | .stop a, .stop b => a = b
  | .fail a, .fail b => a.eqv b
  | _, _ => False

theorem pollStep_errno (r : Res) (e e' : Int) :
    match pollStep r e, pollStep r e' with
    | .again a, .again b => a = b
    | .ready, .ready => True
    | .fail p a, .fail q b => p.eqv q ∧ (p.stale = false → a = b)
    | _, _ => False := by
  unfold pollStep
  cases r.ret with
  | err x => by_cases h : x = EINTR <;> simp [h, PErr.eqv]
  | ok v =>
    by_cases h1 : v = 1
    · simp [h1]
    · by_cases h0 : v = 0 <;> simp [h1, h0, PErr.eqv, msgPollFailed, msgTimedOut]

/-- the loop of `p_socket_io_condition_wait` does not depend on the `errno` it starts with, except
    through the stale native code of its time-out error -/
theorem pollLoop_errno (call : Issued) : ∀ (t : List Res) (e e' : Int),
    (pollLoop call t e).fin.eqv (pollLoop call t e').fin ∧ (pollLoop call t e).rest = (pollLoop call t e').rest ∧
    (pollLoop call t e).evs = (pollLoop call t e').evs := by
  intro t
  induction t with
  | nil => intro e e'; simp [pollLoop, LoopEnd.eqv]
  | cons r t ih =>
    intro e e'
    rw [pollLoop_cons, pollLoop_cons]
    by_cases hs : r.sys ≠ .poll
    · simp [hs, LoopEnd.eqv]
    · simp only [hs, if_false]
      have := pollStep_errno r e e'
      cases h1 : pollStep r e <;> cases h2 : pollStep r e' <;> simp only [h1, h2] at this ⊢
      · subst this
        rename_i a
        simp only [LoopR.cons]
        exact ⟨(ih a a).1, by simp⟩
      · simp [LoopEnd.eqv]
      · exact ⟨this.1, by simp⟩


/-! ## shape of the log: the waits and data calls of every API call are pinned down exactly -/

def criticalSys : Sys → Bool
  | .poll | .send | .sendto | .recv | .recvfrom | .accept | .connect => true
  | _ => false

/-- the one native data call an API call may issue -/
def dataCallOf (s : Sock) : Call → Option Issued
  | .receive false n => some (recvCall s n)
  | .receiveFrom _ false n => some (recvfromCall s n)
  | .send (some b) n => some (sendCall s b n)
  | .sendTo (.native sa) (some b) n => some (sendtoCall s sa b n)
  | .accept => some (.accept s.fd)
  | .connect (.native sa) => some (connCall s sa)
  | _ => none

/-- a log entry of API call `c` on socket `s`: a `poll` is the socket's wait, a data call is `dataCallOf s c`;
    the remaining kinds of native calls (options, names, fcntl, close …) are not constrained here -/
def Allowed (s : Sock) (c : Call) (ev : Ev) : Prop :=
  criticalSys ev.call.sys = false ∨ (∃ cond, ev.call = pollCall s cond) ∨ some ev.call = dataCallOf s c

theorem allowed_loop (s : Sock) (c : Call) (cond : Int) (call : Issued) (msg : String) (hd : dataCallOf s c = some call) :
    TrAll (Allowed s c) (runLoop (loopCfg s cond call msg)) := by
  unfold runLoop
  apply TrAll.liftLoop
  intro sc e ev hev
  rcases ioLoop_calls _ _ _ _ ev hev with h | h
  · right; left; exact ⟨cond, by simpa [loopCfg] using h⟩
  · right; right; rw [hd]; simpa [loopCfg] using congrArg some h

theorem allowed_ioWait (s : Sock) (c : Call) (cond : Int) : TrAll (Allowed s c) (ioWait s cond) := by
  unfold ioWait
  tr_all (simp [Allowed, criticalSys, Issued.sys])
  apply TrAll.liftLoop
  intro sc e ev hev
  right; left; exact ⟨cond, pollLoop_calls _ _ _ ev hev⟩

theorem allowed_setFdBlocking (s : Sock) (c : Call) (fd' : Int) (b : Bool) : TrAll (Allowed s c) (setFdBlocking fd' b) := by
  unfold setFdBlocking; tr_all (simp [Allowed, criticalSys, Issued.sys])
theorem allowed_setDetails (s : Sock) (c : Call) (s' : Sock) : TrAll (Allowed s c) (setDetailsFromFd s') := by
  unfold setDetailsFromFd; tr_all (simp [Allowed, criticalSys, Issued.sys])
theorem allowed_cloexecBlock (s : Sock) (c : Call) (p : Bool) (a b x d e : Int) : TrAll (Allowed s c) (fdCloexecBlock p a b x d e) := by
  unfold fdCloexecBlock; tr_all (simp [Allowed, criticalSys, Issued.sys])
theorem allowed_newFromFd (s : Sock) (c : Call) (fd' : Int) : TrAll (Allowed s c) (newFromFd fd') := by
  unfold newFromFd; tr_all (simp [Allowed, criticalSys, Issued.sys])
  all_goals first | exact allowed_setDetails _ _ _ | exact allowed_setFdBlocking _ _ _ _
theorem allowed_close (s : Sock) (c : Call) (s' : Sock) : TrAll (Allowed s c) (close s') := by
  unfold close; tr_all (simp [Allowed, criticalSys, Issued.sys])
theorem allowed_checkConnectResult (s : Sock) (c : Call) (s' : Sock) : TrAll (Allowed s c) (checkConnectResult s') := by
  unfold checkConnectResult; tr_all (simp [Allowed, criticalSys, Issued.sys])

/-- **every** API call, on every script: its waits are the socket's `poll`, its data calls are the one
    data call of that API call with the caller's arguments -/
theorem callM_allowed (s : Sock) (c : Call) : TrAll (Allowed s c) (callM s c) := by
  cases c <;> simp only [callM]
  case bind a r => unfold bind; tr_all (simp [Allowed, criticalSys, Issued.sys])
  case listen => unfold listen; tr_all (simp [Allowed, criticalSys, Issued.sys])
  case close => tr_all (simp [Allowed, criticalSys, Issued.sys]); exact allowed_close _ _ _
  case shutdown => unfold shutdown; tr_all (simp [Allowed, criticalSys, Issued.sys])
  case setBufferSize => unfold setBufferSize; tr_all (simp [Allowed, criticalSys, Issued.sys])
  case setKeepalive => unfold setKeepalive; tr_all (simp [Allowed, criticalSys, Issued.sys])
  case setBlocking => tr_all (simp [Allowed, criticalSys, Issued.sys])
  case setBacklog => tr_all (simp [Allowed, criticalSys, Issued.sys])
  case setTimeout => tr_all (simp [Allowed, criticalSys, Issued.sys])
  case getLocal => unfold getAddress; tr_all (simp [Allowed, criticalSys, Issued.sys])
  case getRemote => unfold getAddress; tr_all (simp [Allowed, criticalSys, Issued.sys])
  case checkConnectResult => exact allowed_checkConnectResult _ _ _
  case ioWait cnd => tr_all (simp [Allowed, criticalSys, Issued.sys]); exact allowed_ioWait _ _ _
  case receive bn n =>
    unfold receive; tr_all (simp [Allowed, criticalSys, Issued.sys])
    rename_i hbn _ _; exact allowed_loop _ _ _ _ _ (by cases bn <;> simp_all [dataCallOf])
  case receiveFrom w bn n =>
    unfold receiveFrom; tr_all (simp [Allowed, criticalSys, Issued.sys])
    rename_i hbn _ _; exact allowed_loop _ _ _ _ _ (by cases bn <;> simp_all [dataCallOf])
  case send b n =>
    unfold send; tr_all (simp [Allowed, criticalSys, Issued.sys])
    exact allowed_loop _ _ _ _ _ (by simp [dataCallOf])
  case sendTo a b n =>
    unfold sendTo; tr_all (simp [Allowed, criticalSys, Issued.sys])
    exact allowed_loop _ _ _ _ _ (by simp [dataCallOf])
  case accept =>
    unfold accept; tr_all (simp [Allowed, criticalSys, Issued.sys])
    all_goals first
      | exact allowed_loop _ _ _ _ _ (by simp [dataCallOf])
      | exact allowed_cloexecBlock _ _ _ _ _ _ _ _
      | exact allowed_newFromFd _ _ _
  case connect a =>
    unfold connect; tr_all (simp [Allowed, criticalSys, Issued.sys])
    all_goals first
      | exact allowed_ioWait _ _ _
      | exact allowed_checkConnectResult _ _ _
      | (apply TrAll.liftLoop
         intro sc e ev hev
         right; right
         rw [connLoop_calls _ _ _ ev hev]; simp [dataCallOf, connCall])

theorem ioLoop_data_cons (c : LoopCfg) (r : Res) (s : List Res) (e : Int) :
    ioLoop c .data (r :: s) e =
      if r.sys ≠ c.call.sys then ⟨.stop (.mismatch c.call.sys r.sys), [], r :: s, e⟩
      else match dataStep c r with
        | .done => ⟨.done r, [⟨c.call, r⟩], s, e⟩
        | .again e' => (ioLoop c (if c.blocking then .wait else .data) s e').cons ⟨c.call, r⟩
        | .fail pe e' => ⟨.fail pe, [⟨c.call, r⟩], s, e'⟩ := by
  conv => lhs; unfold ioLoop
  split <;> rfl

end PV.Socket

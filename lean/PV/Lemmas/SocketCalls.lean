import PV.Lemmas.Socket
import PV.Spec.Socket
/-! Helper lemmas of the socket family at the level of whole API calls (used by `PV.Props.C09` / `C10`). -/
set_option linter.unusedSimpArgs false
namespace PV.Socket
open PV.Generated.Socket

theorem loop_call_transparent (s : Sock) (hb : s.blocking = true) (cond : Int) (call : Issued) (msg : String)
    (script : Script) (e : Int) :
    (runLoop (loopCfg s cond call msg) { script := script, errno := e }).full =
    (runLoop (loopCfg s cond call msg)
      { script := (dropRetries call.sys script e).1, errno := (dropRetries call.sys script e).2 }).full := by
  unfold runLoop
  apply liftLoop_full
  have : startPhase (loopCfg s cond call msg) = .wait := by simp [startPhase, loopCfg, hb]
  rw [this]
  exact ioLoop_dropRetries (loopCfg s cond call msg) (by simp [loopCfg, hb]) script e

/-- what "exactly one successful native data call, its count returned, nothing afterwards" means -/
structure OneDataCall (dataCall : Issued) (script : Script) (r : CallResult) (k : Nat) (res : Res) (pre : List Ev) : Prop where
  /-- the trace ends with the data call that succeeded … -/
  trace : r.tr = pre ++ [⟨dataCall, res⟩]
  /-- … which returned `k`, and `k` is what the caller gets -/
  count : res.ret = .ok k
  ret : r.out.ret = Int.ofNat k
  /-- every earlier attempt had failed (no second successful read / no resend) -/
  earlier_failed : ∀ ev ∈ pre, ev.call = dataCall → ev.res.failed = true
  /-- every native call of the trace is the `poll` of the wait or the data call with the *same* arguments -/
  same_args : ∀ ev ∈ r.tr, ev.call.sys = dataCall.sys → ev.call = dataCall
  /-- the script is consumed exactly up to the successful answer: no further native call is made -/
  nothing_after : script = pre.map (·.res) ++ res :: r.rest

theorem one_data_call (s : Sock) (c : LoopCfg) (hpc : c.poll ≠ c.call) (hps : c.poll.sys ≠ c.call.sys) (ph : Phase)
    (onDone : Res → Outcome) (hd : ∀ x, (onDone x).err = none) (hr : ∀ x, (onDone x).ret = retVal x)
    (script : Script) (e : Int) (r : CallResult)
    (h : ofLoop s (ioLoop c ph script e) onDone (-1) = .ok r) (hok : r.out.err = none) :
    ∃ k res pre, OneDataCall c.call script r k res pre := by
  obtain ⟨res, hf, hr'⟩ := ofLoop_ok_noerr _ _ _ _ _ hd h hok
  obtain ⟨pre, h1, h2, h3, h4, h5⟩ := ioLoop_done c hpc ph script e res hf
  cases hret : res.ret with
  | err x => simp [Res.failed, hret] at h3
  | ok k =>
    refine ⟨k, res, pre, ?_⟩
    subst hr'
    refine ⟨h1, hret, ?_, h2, ?_, h5⟩
    · simp [hr, retVal, hret]
    · intro ev hev hs
      rcases ioLoop_calls c ph script e ev hev with h | h
      · rw [h] at hs; exact absurd hs hps
      · exact h

/-- a `poll` carries the socket's descriptor, one pollfd, and the timeout `T` if `T > 0`, else −1 (wait for ever) -/
def pollArgsOk (fd timeout : Int) (ev : Ev) : Prop :=
  match ev.call with
  | .poll f _ t n => f = fd ∧ t = (if timeout > 0 then timeout else -1) ∧ n = 1
  | _ => True

theorem pollArgsOk_of_ne (fd t : Int) (ev : Ev) (h : ev.call.sys ≠ .poll) : pollArgsOk fd t ev := by
  unfold pollArgsOk; cases hc : ev.call <;> simp_all [Issued.sys]

theorem pollArgsOk_pollCall (s : Sock) (cond : Int) (r : Res) : pollArgsOk s.fd s.timeout ⟨pollCall s cond, r⟩ := by
  simp [pollArgsOk, pollCall, pollTimeout]

theorem loop_polls (s : Sock) (cond : Int) (call : Issued) (msg : String) (hc : call.sys ≠ .poll) :
    TrAll (pollArgsOk s.fd s.timeout) (runLoop (loopCfg s cond call msg)) := by
  unfold runLoop
  apply TrAll.liftLoop
  intro sc e ev hev
  rcases ioLoop_calls _ _ _ _ ev hev with h | h
  · have : ev = ⟨pollCall s cond, ev.res⟩ := by cases ev; simp_all [loopCfg]
    rw [this]; exact pollArgsOk_pollCall s cond _
  · exact pollArgsOk_of_ne _ _ _ (by rw [h]; exact hc)

theorem ioWait_polls (s : Sock) (cond : Int) : TrAll (pollArgsOk s.fd s.timeout) (ioWait s cond) := by
  unfold ioWait
  tr_all (simp [pollArgsOk])
  apply TrAll.liftLoop
  intro sc e ev hev
  have := pollLoop_calls _ _ _ ev hev
  have : ev = ⟨pollCall s cond, ev.res⟩ := by cases ev; simp_all
  rw [this]; exact pollArgsOk_pollCall s cond _

theorem setFdBlocking_polls (fd t fd' : Int) (b : Bool) : TrAll (pollArgsOk fd t) (setFdBlocking fd' b) := by
  unfold setFdBlocking; tr_all (simp [pollArgsOk])
theorem setDetails_polls (fd t : Int) (s : Sock) : TrAll (pollArgsOk fd t) (setDetailsFromFd s) := by
  unfold setDetailsFromFd; tr_all (simp [pollArgsOk])
theorem cloexecBlock_polls (fd t : Int) (p : Bool) (a b c d e : Int) : TrAll (pollArgsOk fd t) (fdCloexecBlock p a b c d e) := by
  unfold fdCloexecBlock; tr_all (simp [pollArgsOk])
theorem newFromFd_polls (fd t fd' : Int) : TrAll (pollArgsOk fd t) (newFromFd fd') := by
  unfold newFromFd; tr_all (simp [pollArgsOk])
  all_goals first | exact setDetails_polls _ _ _ | exact setFdBlocking_polls _ _ _ _
theorem close_polls (fd t : Int) (s : Sock) : TrAll (pollArgsOk fd t) (close s) := by
  unfold close; tr_all (simp [pollArgsOk])
theorem checkConnectResult_polls (fd t : Int) (s : Sock) : TrAll (pollArgsOk fd t) (checkConnectResult s) := by
  unfold checkConnectResult; tr_all (simp [pollArgsOk])

theorem callM_polls (s : Sock) (c : Call) : TrAll (pollArgsOk s.fd s.timeout) (callM s c) := by
  cases c <;> simp only [callM]
  case bind a r => unfold bind; tr_all (simp [pollArgsOk])
  case listen => unfold listen; tr_all (simp [pollArgsOk])
  case close => tr_all (simp [pollArgsOk]); exact close_polls _ _ _
  case shutdown => unfold shutdown; tr_all (simp [pollArgsOk])
  case setBufferSize => unfold setBufferSize; tr_all (simp [pollArgsOk])
  case setKeepalive => unfold setKeepalive; tr_all (simp [pollArgsOk])
  case setBlocking => tr_all (simp [pollArgsOk])
  case setBacklog => tr_all (simp [pollArgsOk])
  case setTimeout => tr_all (simp [pollArgsOk])
  case getLocal => unfold getAddress; tr_all (simp [pollArgsOk])
  case getRemote => unfold getAddress; tr_all (simp [pollArgsOk])
  case checkConnectResult => exact checkConnectResult_polls _ _ _
  case ioWait cnd => tr_all (simp [pollArgsOk]); exact ioWait_polls _ _
  case receive bn n =>
    unfold receive; tr_all (simp [pollArgsOk])
    exact loop_polls _ _ _ _ (by simp [recvCall, Issued.sys])
  case receiveFrom w bn n =>
    unfold receiveFrom; tr_all (simp [pollArgsOk])
    exact loop_polls _ _ _ _ (by simp [recvfromCall, Issued.sys])
  case send b n =>
    unfold send; tr_all (simp [pollArgsOk])
    exact loop_polls _ _ _ _ (by simp [sendCall, Issued.sys])
  case sendTo a b n =>
    unfold sendTo; tr_all (simp [pollArgsOk])
    exact loop_polls _ _ _ _ (by simp [sendtoCall, Issued.sys])
  case accept =>
    unfold accept; tr_all (simp [pollArgsOk])
    all_goals first
      | exact loop_polls _ _ _ _ (by simp [Issued.sys])
      | exact cloexecBlock_polls _ _ _ _ _ _ _ _
      | exact newFromFd_polls _ _ _
  case connect a =>
    unfold connect; tr_all (simp [pollArgsOk])
    all_goals first
      | exact ioWait_polls _ _
      | exact checkConnectResult_polls _ _ _
      | (apply TrAll.liftLoop
         intro sc e ev hev
         exact pollArgsOk_of_ne _ _ _ (by rw [connLoop_calls _ _ _ ev hev]; simp [Issued.sys]))

def noPoll (ev : Ev) : Prop := ev.call.sys ≠ .poll

theorem nb_loop (s : Sock) (hb : s.blocking = false) (cond : Int) (call : Issued) (msg : String) (hc : call.sys ≠ .poll) :
    TrAll noPoll (runLoop (loopCfg s cond call msg)) := by
  unfold runLoop
  apply TrAll.liftLoop
  intro sc e ev hev
  have hs : startPhase (loopCfg s cond call msg) = .data := by simp [startPhase, loopCfg, hb]
  rw [hs] at hev
  have := ioLoop_nonblocking_calls (loopCfg s cond call msg) (by simp [loopCfg, hb]) sc e ev hev
  unfold noPoll; rw [this]; exact hc

theorem setFdBlocking_np (fd' : Int) (b : Bool) : TrAll noPoll (setFdBlocking fd' b) := by
  unfold setFdBlocking; tr_all (simp [noPoll, Issued.sys])
theorem setDetails_np (s : Sock) : TrAll noPoll (setDetailsFromFd s) := by
  unfold setDetailsFromFd; tr_all (simp [noPoll, Issued.sys])
theorem cloexecBlock_np (p : Bool) (a b c d e : Int) : TrAll noPoll (fdCloexecBlock p a b c d e) := by
  unfold fdCloexecBlock; tr_all (simp [noPoll, Issued.sys])
theorem newFromFd_np (fd' : Int) : TrAll noPoll (newFromFd fd') := by
  unfold newFromFd; tr_all (simp [noPoll, Issued.sys])
  all_goals first | exact setDetails_np _ | exact setFdBlocking_np _ _

end PV.Socket

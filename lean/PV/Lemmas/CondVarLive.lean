import PV.Lemmas.CondVarPC
/-! Reachability, deadlock freedom and the termination measure of the bounded-buffer client (C03). -/
namespace PV.CondVar

/-- admissible thread tables: everybody at `start`; `K` items are to be produced and `K` consumed -/
def InitOK (K : Nat) (thr : List Thr) : Prop :=
  (∀ t, t ∈ thr → t.pc = .start) ∧ sumOver (remOf .producer) thr = K ∧ sumOver (remOf .consumer) thr = K

inductive Reach (cfg : Cfg) (K : Nat) : PCState → Prop where
  | init (thr : List Thr) : InitOK K thr → Reach cfg K (initState thr)
  | step {s s' : PCState} {l : Label} : Reach cfg K s → exec cfg s l = some s' → Reach cfg K s'

theorem inv_init {cfg : Cfg} {K : Nat} {thr : List Thr} (h : InitOK K thr) : Inv cfg K (initState thr) := by
  obtain ⟨hs, hp, hc⟩ := h
  have hz : ∀ r pc, pc ≠ PC.start → cnt (isAt r pc) thr = 0 := by
    intro r pc hne
    apply cnt_eq_zero
    intro t ht
    simp [isAt, hs t ht]
    intro _ e; exact hne e.symm
  refine
    { owner_cs := ?_
      wait_mem := by intro j cv hj; simp [initState, Mon.init] at hj
      in_wait := ?_
      nodup := by intro cv; simp [initState, Mon.init]
      cnt_wait := by intro r; simp [initState, Mon.init]; exact hz r _ (by simp)
      rem_pos := ?_
      fifo := by simp [initState]
      cap := by simp [initState]
      acc_p := by simpa [initState] using hp
      acc_c := by simpa [initState] using hc
      tok := by intro r hw; simp [initState, Mon.init] at hw
      bad := rfl }
  · intro j
    simp only [initState, Mon.init]
    constructor
    · intro h; cases h
    · rintro ⟨t, ht, hcs⟩
      have := hs t (List.mem_of_getElem? ht)
      simp [this, PC.inCS] at hcs
  · intro j t ht hp
    have := hs t (List.mem_of_getElem? ht)
    simp [initState] at ht
    rw [hs t (List.mem_of_getElem? ht)] at hp; cases hp
  · intro t ht hp
    simp [initState] at ht
    rw [hs t ht] at hp
    rcases hp with hp | hp <;> cases hp

theorem reach_inv {cfg : Cfg} {K : Nat} {s : PCState} (hrc : cfg.recheck = true) (h : Reach cfg K s) :
    Inv cfg K s := by
  induction h with
  | init thr hi => exact inv_init hi
  | step _ hs ih => exact inv_step ih hrc hs

/-! ## deadlock freedom -/

/-- when the mutex is free, nobody has a pending wake-up and nobody can lock, every thread with
    work left sits in the wait-set of its condition variable with its predicate still blocking -/
theorem stuck_waiter {cfg : Cfg} {K : Nat} {s : PCState} (hI : Inv cfg K s)
    (ho : s.mon.owner = none) (hw0 : s.mon.woken 0 = []) (hw1 : s.mon.woken 1 = [])
    (hl : ∀ t, t ∈ s.thr → t.pc = .start → t.rem = 0)
    {t : Thr} (ht : t ∈ s.thr) (hrem : 0 < t.rem) :
    s.mon.wset t.role.waitCv ≠ [] ∧ need cfg t.role s.buf = 0 := by
  have hnocs : ∀ u, u ∈ s.thr → u.pc.inCS = false := by
    intro u hu
    obtain ⟨j, hj⟩ := List.getElem?_of_mem hu
    cases hcs : u.pc.inCS with
    | false => rfl
    | true =>
      have := (hI.owner_cs j).mpr ⟨u, hj, hcs⟩
      rw [ho] at this; cases this
  have hpc : t.pc = .inwait := by
    have h1 := hnocs t ht
    cases hp : t.pc <;> simp [hp, PC.inCS] at h1 ⊢
    have := hl t ht hp; omega
  have hwk : s.mon.woken t.role.waitCv = [] := by cases t.role <;> simp [Role.waitCv, hw0, hw1]
  have hc := hI.cnt_wait t.role
  have hpos : 0 < cnt (isAt t.role .inwait) s.thr := cnt_pos_of_mem ht (by simp [isAt, hpc])
  have hne : s.mon.wset t.role.waitCv ≠ [] := by
    intro e; rw [e, hwk] at hc; simp at hc; omega
  refine ⟨hne, ?_⟩
  have htok := hI.tok t.role hne
  have z1 : cnt (isAt t.role .check) s.thr = 0 := cnt_eq_zero (fun u hu => by
    have := hnocs u hu
    cases hp : u.pc <;> simp [hp, PC.inCS] at this <;> simp [isAt, hp])
  have z2 : cnt (isAt t.role.other .sig) s.thr = 0 := cnt_eq_zero (fun u hu => by
    have := hnocs u hu
    cases hp : u.pc <;> simp [hp, PC.inCS] at this <;> simp [isAt, hp])
  rw [hwk, z1, z2] at htok
  simpa using htok

theorem remOf_pos {r : Role} {t : Thr} (h : 0 < remOf r t) : t.role = r ∧ 0 < t.rem := by
  unfold remOf at h
  split at h
  · rename_i e; exact ⟨e, h⟩
  · omega

theorem enabled_of_isSome {cfg : Cfg} {s : PCState} (l : Label) (hl : l.isSpurious = false)
    (h : (exec cfg s l).isSome = true) : ∃ l s', l.isSpurious = false ∧ exec cfg s l = some s' := by
  obtain ⟨s', hs'⟩ := Option.isSome_iff_exists.mp h
  exact ⟨l, s', hl, hs'⟩

/-- **no deadlock**: a state satisfying the invariant that is not final has an enabled step which
    is not a spurious wake-up -/
theorem no_deadlock_of_inv {cfg : Cfg} {K : Nat} {s : PCState} (hcap : 0 < cfg.cap)
    (hrc : cfg.recheck = true) (hI : Inv cfg K s) (hnf : isFinal s = false) :
    ∃ l s', l.isSpurious = false ∧ exec cfg s l = some s' := by
  cases ho : s.mon.owner with
  | some j =>
    obtain ⟨th, hth, hcs⟩ := (hI.owner_cs j).mp ho
    cases hp : th.pc <;> simp [hp, PC.inCS] at hcs
    · -- check
      apply enabled_of_isSome (.check j) rfl
      cases hb : blocked cfg th.role s.buf
      · simp [exec, execCheck, hth, hp, hb]
      · simp [exec, execCheck, hth, hp, hb, Mon.wait, ho]
    · -- sig
      cases hbc : cfg.bcast
      · cases hw : s.mon.wset th.role.sigCv with
        | nil => exact enabled_of_isSome (.signal j none) rfl (by simp [exec, execSignal, hth, hp, hbc, Mon.signal, hw])
        | cons x rest =>
          exact enabled_of_isSome (.signal j (some x)) rfl (by simp [exec, execSignal, hth, hp, hbc, Mon.signal, hw])
      · exact enabled_of_isSome (.signal j none) rfl (by simp [exec, execSignal, hth, hp, hbc])
    · -- unl
      exact enabled_of_isSome (.unlock j) rfl (by simp [exec, execUnlock, hth, hp, Mon.unlock, ho])
  | none =>
    -- a woken thread can re-acquire
    have reacq : ∀ cv j, j ∈ s.mon.woken cv → ∃ l s', l.isSpurious = false ∧ exec cfg s l = some s' := by
      intro cv j hj
      obtain ⟨th, hth, hp, hr⟩ := hI.wait_mem j cv (Or.inr hj)
      subst hr
      exact enabled_of_isSome (.reacquire j) rfl (by simp [exec, execReacquire, hth, hp, Mon.reacquire, hj, ho, hrc])
    cases hw0 : s.mon.woken 0 with
    | cons j rest => exact reacq 0 j (by simp [hw0])
    | nil =>
    cases hw1 : s.mon.woken 1 with
    | cons j rest => exact reacq 1 j (by simp [hw1])
    | nil =>
    -- somebody can lock?
    by_cases hlk : ∃ t, t ∈ s.thr ∧ t.pc = .start ∧ 0 < t.rem
    · obtain ⟨t, ht, hp, hrem⟩ := hlk
      obtain ⟨j, hj⟩ := List.getElem?_of_mem ht
      exact enabled_of_isSome (.lock j) rfl (by simp [exec, execLock, hj, hp, hrem, Mon.lock, ho])
    have hl : ∀ t, t ∈ s.thr → t.pc = .start → t.rem = 0 := by
      intro t ht hp
      apply Classical.byContradiction
      intro h0
      exact hlk ⟨t, ht, hp, by omega⟩
    -- otherwise: impossible by counting
    exfalso
    -- an unfinished thread
    have : ∃ t, t ∈ s.thr ∧ 0 < t.rem := by
      simp only [isFinal] at hnf
      have : ¬ (∀ t, t ∈ s.thr → Thr.finished t = true) := by
        intro hall
        rw [List.all_eq_true.mpr hall] at hnf; cases hnf
      apply Classical.byContradiction
      intro hne
      apply this
      intro t ht
      have hr : t.rem = 0 := by
        apply Classical.byContradiction
        intro h0; exact hne ⟨t, ht, by omega⟩
      have hpc : t.pc = .start := by
        have hown : t.pc.inCS = true → False := by
          intro hcs
          obtain ⟨j, hj⟩ := List.getElem?_of_mem ht
          have := (hI.owner_cs j).mpr ⟨t, hj, hcs⟩
          rw [ho] at this; cases this
        cases hp : t.pc
        · rfl
        · exact (hown (by simp [hp, PC.inCS])).elim
        · have := hI.rem_pos t ht (Or.inr hp); omega
        · exact (hown (by simp [hp, PC.inCS])).elim
        · exact (hown (by simp [hp, PC.inCS])).elim
      simp [Thr.finished, hr, hpc]
    obtain ⟨t, ht, hrem⟩ := this
    obtain ⟨hne, hneed⟩ := stuck_waiter hI ho hw0 hw1 hl ht hrem
    have hfifo := congrArg List.length hI.fifo
    simp at hfifo
    have hap := hI.acc_p
    have hac := hI.acc_c
    have hcapI := hI.cap
    have hmine : t.rem ≤ sumOver (remOf t.role) s.thr := by
      have hle : remOf t.role t ≤ sumOver (remOf t.role) s.thr := le_sumOver_of_mem ht
      have : remOf t.role t = t.rem := by simp [remOf]
      omega
    cases hr : t.role with
    | consumer =>
      rw [hr] at hneed hmine
      have hb0 : s.buf.length = 0 := hneed
      have hother : 0 < sumOver (remOf .producer) s.thr := by omega
      obtain ⟨u, hu, hurem⟩ := sumOver_pos hother
      obtain ⟨hur, hurem⟩ := remOf_pos hurem
      obtain ⟨_, hneed'⟩ := stuck_waiter hI ho hw0 hw1 hl hu hurem
      rw [hur] at hneed'
      have : cfg.cap - s.buf.length = 0 := hneed'
      omega
    | producer =>
      rw [hr] at hneed hmine
      have hb0 : cfg.cap - s.buf.length = 0 := hneed
      have hother : 0 < sumOver (remOf .consumer) s.thr := by omega
      obtain ⟨u, hu, hurem⟩ := sumOver_pos hother
      obtain ⟨hur, hurem⟩ := remOf_pos hurem
      obtain ⟨_, hneed'⟩ := stuck_waiter hI ho hw0 hw1 hl hu hurem
      rw [hur] at hneed'
      have : s.buf.length = 0 := hneed'
      omega

/-! ## the termination measure -/

def phi (n : Nat) : PC → Nat
  | .start => 3
  | .check => 2
  | .inwait => 0
  | .sig => 5 + 3 * n
  | .unl => 4

/-- a thread's share: every remaining item pays for a whole round including the re-checks of
    everybody its signal / broadcast may wake -/
def weight (n : Nat) (t : Thr) : Nat := (3 * n + 4) * t.rem + phi n t.pc

def wokT (m : Mon) : Nat := (m.woken 0).length + (m.woken 1).length

/-- the measure: strictly decreasing on every step that is not a spurious wake-up -/
def mu (s : PCState) : Nat := sumOver (weight s.thr.length) s.thr + 3 * wokT s.mon

theorem cv01_wait (r : Role) : r.waitCv = 0 ∨ r.waitCv = 1 := by cases r <;> simp [Role.waitCv]
theorem cv01_sig (r : Role) : r.sigCv = 0 ∨ r.sigCv = 1 := by cases r <;> simp [Role.sigCv]

theorem wokT_wake (m : Mon) {c : CvId} (x : Tid) (hc : c = 0 ∨ c = 1) : wokT (m.wake c x) = wokT m + 1 := by
  rcases hc with rfl | rfl <;> simp [wokT, Mon.wake, upd] <;> omega

theorem wokT_broadcast (m : Mon) {c : CvId} (hc : c = 0 ∨ c = 1) :
    wokT (m.broadcast c) = wokT m + (m.wset c).length := by
  rcases hc with rfl | rfl <;> simp [wokT, Mon.broadcast, upd] <;> omega

theorem wokT_reacquired (m : Mon) {c : CvId} {t : Tid} (hc : c = 0 ∨ c = 1) (hw : t ∈ m.woken c) :
    wokT (m.reacquired c t) + 1 = wokT m := by
  have hl := List.length_erase_of_mem hw
  have hp : 0 < (m.woken c).length := List.length_pos_of_mem hw
  rcases hc with rfl | rfl <;> simp [wokT, Mon.reacquired, upd] <;> omega

theorem act_thr (cfg : Cfg) (s : PCState) (i : Tid) (th : Thr) :
    (act cfg s i th).thr = s.thr.set i { th with pc := .sig, rem := th.rem - 1 } := by
  unfold act
  split
  · rfl
  · split <;> rfl

theorem act_mon (cfg : Cfg) (s : PCState) (i : Tid) (th : Thr) : (act cfg s i th).mon = s.mon := by
  unfold act
  split
  · rfl
  · split <;> rfl

theorem mul_pred (a r : Nat) (h : 0 < r) : a * r = a * (r - 1) + a := by
  obtain ⟨k, hk⟩ : ∃ k, r = k + 1 := ⟨r - 1, by omega⟩
  subst hk
  simp [Nat.mul_succ]

theorem mu_step {cfg : Cfg} {K : Nat} {s s' : PCState} {l : Label} (hI : Inv cfg K s)
    (hrc : cfg.recheck = true) (h : exec cfg s l = some s') :
    (l.isSpurious = false → mu s' < mu s) ∧ (l.isSpurious = true → mu s' = mu s + 3) := by
  cases l with
  | lock i =>
    obtain ⟨th, hth, hpc, hrem, ho, rfl⟩ := execLock_some h
    have := sumOver_set (f := weight s.thr.length) { th with pc := .check } hth
    simp only [weight, phi, hpc] at this
    simp only [mu, List.length_set, wokT, Label.isSpurious]
    refine ⟨fun _ => by omega, fun h => by cases h⟩
  | check i =>
    obtain ⟨th, hth, hpc, hcase⟩ := execCheck_some h
    refine ⟨fun _ => ?_, fun h => by cases h⟩
    rcases hcase with ⟨hb, ho, rfl⟩ | ⟨hb, rfl⟩
    · have := sumOver_set (f := weight s.thr.length) { th with pc := .inwait } hth
      simp only [weight, phi, hpc] at this
      simp only [mu, List.length_set, wokT]
      omega
    · have hrem := hI.rem_pos th (List.mem_of_getElem? hth) (Or.inl hpc)
      have := sumOver_set (f := weight s.thr.length) { th with pc := .sig, rem := th.rem - 1 } hth
      have hm := mul_pred (3 * s.thr.length + 4) th.rem hrem
      simp only [weight, phi, hpc] at this
      simp only [mu, act_thr, act_mon, List.length_set]
      omega
  | signal i w =>
    obtain ⟨th, hth, hpc, hcase⟩ := execSignal_some h
    refine ⟨fun _ => ?_, fun h => by cases h⟩
    have := sumOver_set (f := weight s.thr.length) { th with pc := .unl } hth
    simp only [weight, phi, hpc] at this
    have hn : 0 < s.thr.length := by
      rcases Nat.lt_or_ge i s.thr.length with h' | h'
      · omega
      · simp [List.getElem?_eq_none h'] at hth
    rcases hcase with ⟨_, _, rfl⟩ | ⟨_, _, he, rfl⟩ | ⟨_, x, _, hx, rfl⟩
    · have hlen : (s.mon.wset th.role.sigCv).length ≤ s.thr.length := by
        have hc := hI.cnt_wait th.role.other
        have hcv : th.role.sigCv = th.role.other.waitCv := sigCv_eq_waitCv.mpr rfl
        have := cnt_le_length (isAt th.role.other .inwait) s.thr
        rw [hcv]; omega
      simp only [mu, List.length_set, wokT_broadcast _ (cv01_sig th.role)]
      omega
    · simp only [mu, List.length_set]
      omega
    · simp only [mu, List.length_set, wokT_wake _ _ (cv01_sig th.role)]
      omega
  | unlock i =>
    obtain ⟨th, hth, hpc, ho, rfl⟩ := execUnlock_some h
    have := sumOver_set (f := weight s.thr.length) { th with pc := .start } hth
    simp only [weight, phi, hpc] at this
    simp only [mu, List.length_set, wokT, Label.isSpurious]
    refine ⟨fun _ => by omega, fun h => by cases h⟩
  | reacquire i =>
    obtain ⟨th, hth, hpc, hw, ho, hcase⟩ := execReacquire_some h
    refine ⟨fun _ => ?_, fun h => by cases h⟩
    rcases hcase with ⟨_, rfl⟩ | ⟨hf, _⟩
    · have := sumOver_set (f := weight s.thr.length) { th with pc := .check } hth
      simp only [weight, phi, hpc] at this
      have hk := wokT_reacquired s.mon (cv01_wait th.role) hw
      simp only [mu, List.length_set]
      omega
    · rw [hrc] at hf; cases hf
  | spurious i =>
    obtain ⟨th, hth, hpc, hw, rfl⟩ := execSpurious_some h
    refine ⟨fun h => (by cases h), fun _ => ?_⟩
    simp only [mu, wokT_wake _ _ (cv01_wait th.role)]
    omega

/-! ## runs -/

def nonSpur (ls : List Label) : Nat := (ls.filter (fun l => !l.isSpurious)).length
def spur (ls : List Label) : Nat := (ls.filter Label.isSpurious).length

theorem run_inv {cfg : Cfg} {K : Nat} {ls : List Label} {s s' : PCState} (hrc : cfg.recheck = true)
    (hI : Inv cfg K s) (h : runLabels cfg s ls = some s') : Inv cfg K s' := by
  induction ls generalizing s with
  | nil => simp [runLabels] at h; subst h; exact hI
  | cons l ls ih =>
    simp only [runLabels] at h
    cases hs : exec cfg s l with
    | none => simp [hs] at h
    | some s1 => simp [hs] at h; exact ih (inv_step hI hrc hs) h

/-- the number of non-spurious steps of any run is bounded by the measure of its first state plus
    three per spurious wake-up -/
theorem run_bound {cfg : Cfg} {K : Nat} {ls : List Label} {s s' : PCState} (hrc : cfg.recheck = true)
    (hI : Inv cfg K s) (h : runLabels cfg s ls = some s') :
    nonSpur ls + mu s' ≤ mu s + 3 * spur ls := by
  induction ls generalizing s with
  | nil => simp [runLabels] at h; subst h; simp [nonSpur, spur]
  | cons l ls ih =>
    simp only [runLabels] at h
    cases hs : exec cfg s l with
    | none => simp [hs] at h
    | some s1 =>
      simp [hs] at h
      have hb := ih (inv_step hI hrc hs) h
      obtain ⟨h1, h2⟩ := mu_step hI hrc hs
      cases hl : l.isSpurious
      · have := h1 hl
        simp [nonSpur, spur, hl] at hb ⊢
        omega
      · have := h2 hl
        simp [nonSpur, spur, hl] at hb ⊢
        omega

theorem reach_of_run {cfg : Cfg} {K : Nat} {ls : List Label} {s s' : PCState} (hR : Reach cfg K s)
    (h : runLabels cfg s ls = some s') : Reach cfg K s' := by
  induction ls generalizing s with
  | nil => simp [runLabels] at h; subst h; exact hR
  | cons l ls ih =>
    simp only [runLabels] at h
    cases hs : exec cfg s l with
    | none => simp [hs] at h
    | some s1 => simp [hs] at h; exact ih (Reach.step hR hs) h

/-- in a final state everything has been exchanged -/
theorem final_exchanged {cfg : Cfg} {K : Nat} {s : PCState} (hI : Inv cfg K s) (hf : isFinal s = true) :
    s.consumed = s.produced ∧ s.produced.length = K ∧ s.buf = [] := by
  have hall : ∀ t, t ∈ s.thr → t.rem = 0 := by
    intro t ht
    have := List.all_eq_true.mp hf t ht
    simp [Thr.finished] at this
    exact this.2
  have zp : sumOver (remOf .producer) s.thr = 0 :=
    sumOver_eq_zero (fun t ht => by simp [remOf, hall t ht])
  have zc : sumOver (remOf .consumer) s.thr = 0 :=
    sumOver_eq_zero (fun t ht => by simp [remOf, hall t ht])
  have hp := hI.acc_p
  have hc := hI.acc_c
  have hfifo := congrArg List.length hI.fifo
  simp at hfifo
  have hb : s.buf = [] := List.eq_nil_of_length_eq_zero (by omega)
  refine ⟨?_, (by omega), hb⟩
  have := hI.fifo
  rw [hb] at this
  simpa using this.symm

/-- no execution goes on for ever with only finitely many spurious wake-ups -/
theorem no_infinite_run {cfg : Cfg} {K : Nat} (hrc : cfg.recheck = true) (σ : Nat → PCState) (ℓ : Nat → Label)
    (h0 : Inv cfg K (σ 0)) (hstep : ∀ k, exec cfg (σ k) (ℓ k) = some (σ (k + 1)))
    (B : Nat) (hB : ∀ k, B ≤ k → (ℓ k).isSpurious = false) : False := by
  have hinv : ∀ k, Inv cfg K (σ k) := by
    intro k
    induction k with
    | zero => exact h0
    | succ k ih => exact inv_step ih hrc (hstep k)
  have hdec : ∀ j, mu (σ (B + j)) + j ≤ mu (σ B) := by
    intro j
    induction j with
    | zero => simp
    | succ j ih =>
      have := (mu_step (hinv (B + j)) hrc (hstep (B + j))).1 (hB (B + j) (by omega))
      have e : B + (j + 1) = B + j + 1 := by omega
      rw [e]; omega
  have := hdec (mu (σ B) + 1)
  omega

/-- the only step by which a thread leaves `p_cond_variable_wait` is its re-acquisition of the
    mutex; right after it the thread is the owner -/
theorem leave_wait {cfg : Cfg} {s s' : PCState} {l : Label} {i : Tid} {th th' : Thr}
    (h : exec cfg s l = some s') (hth : s.thr[i]? = some th) (hpc : th.pc = .inwait)
    (hth' : s'.thr[i]? = some th') (hpc' : th'.pc ≠ .inwait) :
    l = .reacquire i ∧ s'.mon.owner = some i := by
  -- a step of thread `j` whose own pc is not `inwait` cannot change the entry of `i`
  have other : ∀ (j : Tid) (tj tj' : Thr), s.thr[j]? = some tj → tj.pc ≠ .inwait →
      s'.thr = s.thr.set j tj' → False := by
    intro j tj tj' hj hne hs'
    rw [hs', get_set _ i hj] at hth'
    by_cases hij : i = j
    · subst hij; rw [hth] at hj; cases hj; exact hne hpc
    · simp only [hij, if_false] at hth'
      rw [hth] at hth'; cases hth'; exact hpc' hpc
  cases l with
  | lock j =>
    obtain ⟨tj, hj, hp, _, _, rfl⟩ := execLock_some h
    exact (other j tj _ hj (by simp [hp]) rfl).elim
  | check j =>
    obtain ⟨tj, hj, hp, hcase⟩ := execCheck_some h
    rcases hcase with ⟨_, _, rfl⟩ | ⟨_, rfl⟩
    · exact (other j tj _ hj (by simp [hp]) rfl).elim
    · exact (other j tj _ hj (by simp [hp]) (act_thr _ _ _ _)).elim
  | signal j w =>
    obtain ⟨tj, hj, hp, hcase⟩ := execSignal_some h
    rcases hcase with ⟨_, _, rfl⟩ | ⟨_, _, _, rfl⟩ | ⟨_, x, _, _, rfl⟩ <;>
      exact (other j tj _ hj (by simp [hp]) rfl).elim
  | unlock j =>
    obtain ⟨tj, hj, hp, _, rfl⟩ := execUnlock_some h
    exact (other j tj _ hj (by simp [hp]) rfl).elim
  | reacquire j =>
    obtain ⟨tj, hj, hp, hw, ho, hcase⟩ := execReacquire_some h
    by_cases hij : i = j
    · subst hij
      refine ⟨rfl, ?_⟩
      rcases hcase with ⟨_, rfl⟩ | ⟨_, rfl⟩
      · simp [Mon.reacquired]
      · rw [act_mon]; simp [Mon.reacquired]
    · exfalso
      have hs' : ∃ tj', s'.thr = s.thr.set j tj' := by
        rcases hcase with ⟨_, rfl⟩ | ⟨_, rfl⟩
        · exact ⟨_, rfl⟩
        · exact ⟨_, act_thr _ _ _ _⟩
      obtain ⟨tj', hs'⟩ := hs'
      rw [hs', get_set _ i hj] at hth'
      simp only [hij, if_false] at hth'
      rw [hth] at hth'; cases hth'; exact hpc' hpc
  | spurious j =>
    obtain ⟨tj, hj, hp, _, rfl⟩ := execSpurious_some h
    rw [hth] at hth'; cases hth'; exact (hpc' hpc).elim

end PV.CondVar

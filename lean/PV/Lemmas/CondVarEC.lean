import PV.Lemmas.CondVar
/-! The event-counter client (C03): a blocked waiter whose predicate is true always has a wake-up
    on the way. -/
namespace PV.CondVar

def eAtPc (pc : EPC) (t : EThr) : Bool := decide (t.pc = pc)

/-- agents that will consume an event or wake a waiter: woken waiters, threads re-checking the
    predicate under the mutex, threads about to signal -/
def eTokens (s : EState) : Nat :=
  (s.mon.woken 0).length + cnt (eAtPc .check) s.thr + cnt (eAtPc .sig) s.thr

structure EInv (s : EState) : Prop where
  le : s.consumed ≤ s.events
  tok : s.mon.wset 0 ≠ [] → s.events - s.consumed ≤ eTokens s

inductive EReach : EState → Prop where
  | init (thr : List EThr) : (∀ t, t ∈ thr → t.pc = .start) → EReach (einit thr)
  | step {s s' : EState} {l : ELabel} : EReach s → eexec s l = some s' → EReach s'

theorem einv_init (thr : List EThr) : EInv (einit thr) :=
  { le := by simp [einit], tok := by intro h; simp [einit, Mon.init] at h }

theorem wake0_len (m : Mon) (x : Tid) (_hx : x ∈ m.wset 0) :
    ((m.wake 0 x).woken 0).length = (m.woken 0).length + 1 := by
  simp [Mon.wake, upd]

theorem einv_step {s s' : EState} {l : ELabel} (hI : EInv s) (h : eexec s l = some s') : EInv s' := by
  cases l with
  | lock i =>
    simp only [eexec] at h
    split at h
    · contradiction
    · rename_i th hth
      split at h
      · rename_i hc
        split at h
        · contradiction
        · rename_i m hm
          obtain ⟨ho, rfl⟩ := mon_lock_some hm
          cases h
          refine ⟨hI.le, ?_⟩
          intro hw
          have h0 := hI.tok hw
          have c1 := cnt_set (p := eAtPc .check) { th with pc := th.role.entry } hth
          have c2 := cnt_same' (p := eAtPc .sig) (b := { th with pc := th.role.entry }) hth
            (by cases th.role <;> simp [eAtPc, hc.1, ERole.entry])
          simp only [eTokens] at h0 ⊢
          rw [c2]
          simp [eAtPc, hc.1] at c1
          split at c1 <;> omega
      · contradiction
  | step i =>
    simp only [eexec] at h
    split at h
    · contradiction
    · rename_i th hth
      split at h
      · rename_i hc
        cases h
        refine ⟨by have := hI.le; simp; omega, ?_⟩
        intro hw
        have h0 := hI.tok hw
        have hle := hI.le
        have c1 := cnt_same' (p := eAtPc .check) (b := { th with pc := .sig, rem := th.rem - 1 }) hth
          (by simp [eAtPc, hc])
        have c2 := cnt_set (p := eAtPc .sig) { th with pc := .sig, rem := th.rem - 1 } hth
        simp [eAtPc, hc] at c2
        simp only [eTokens] at h0 ⊢
        simp only [c1]
        omega
      · split at h
        · rename_i hc
          split at h
          · rename_i hev
            split at h
            · contradiction
            · rename_i m hm
              obtain ⟨ho, rfl⟩ := mon_wait_some hm
              cases h
              refine ⟨hI.le, ?_⟩
              intro _
              have : s.events - s.consumed = 0 := by omega
              simp only [this]; omega
          · rename_i hev
            cases h
            refine ⟨by simp; omega, ?_⟩
            intro hw
            have h0 := hI.tok hw
            have c1 := cnt_set (p := eAtPc .check) { th with pc := .unl, rem := th.rem - 1 } hth
            have c2 := cnt_same' (p := eAtPc .sig) (b := { th with pc := .unl, rem := th.rem - 1 }) hth
              (by simp [eAtPc, hc])
            simp [eAtPc, hc] at c1
            simp only [eTokens] at h0 ⊢
            simp only [c2]
            omega
        · contradiction
  | signal i w =>
    simp only [eexec] at h
    split at h
    · contradiction
    · rename_i th hth
      split at h
      · rename_i hc
        split at h
        · contradiction
        · rename_i m hm
          cases h
          have c1 := cnt_same' (p := eAtPc .check) (b := { th with pc := .unl }) hth (by simp [eAtPc, hc])
          have c2 := cnt_set (p := eAtPc .sig) { th with pc := .unl } hth
          simp [eAtPc, hc] at c2
          rcases mon_signal_some hm with ⟨_, he, rfl⟩ | ⟨x, _, hx, rfl⟩
          · exact ⟨hI.le, fun hw => absurd he hw⟩
          · refine ⟨hI.le, ?_⟩
            intro _
            have h0 := hI.tok (List.ne_nil_of_mem hx)
            have := wake0_len s.mon x hx
            simp only [eTokens] at h0 ⊢
            simp only [c1]
            omega
      · contradiction
  | unlock i =>
    simp only [eexec] at h
    split at h
    · contradiction
    · rename_i th hth
      split at h
      · rename_i hc
        split at h
        · contradiction
        · rename_i m hm
          obtain ⟨ho, rfl⟩ := mon_unlock_some hm
          cases h
          refine ⟨hI.le, ?_⟩
          intro hw
          have h0 := hI.tok hw
          have c1 := cnt_same' (p := eAtPc .check) (b := { th with pc := .start }) hth (by simp [eAtPc, hc])
          have c2 := cnt_same' (p := eAtPc .sig) (b := { th with pc := .start }) hth (by simp [eAtPc, hc])
          simp only [eTokens] at h0 ⊢
          simp only [c1, c2]
          exact h0
      · contradiction
  | reacquire i =>
    simp only [eexec] at h
    split at h
    · contradiction
    · rename_i th hth
      split at h
      · rename_i hc
        split at h
        · contradiction
        · rename_i m hm
          obtain ⟨hw, ho, rfl⟩ := mon_reacquire_some hm
          cases h
          refine ⟨hI.le, ?_⟩
          intro hws
          have h0 := hI.tok hws
          have c1 := cnt_set (p := eAtPc .check) { th with pc := .check } hth
          have c2 := cnt_same' (p := eAtPc .sig) (b := { th with pc := .check }) hth (by simp [eAtPc, hc])
          simp [eAtPc, hc] at c1
          have hl := List.length_erase_of_mem hw
          have hp : 0 < (s.mon.woken 0).length := List.length_pos_of_mem hw
          simp only [eTokens] at h0 ⊢
          simp only [c2]
          simp [Mon.reacquired, upd]
          omega
      · contradiction
  | spurious i =>
    simp only [eexec] at h
    split at h
    · contradiction
    · rename_i th hth
      split at h
      · rename_i hc
        split at h
        · contradiction
        · rename_i m hm
          obtain ⟨hw, rfl⟩ := mon_spurious_some hm
          cases h
          refine ⟨hI.le, ?_⟩
          intro _
          have h0 := hI.tok (List.ne_nil_of_mem hw)
          have := wake0_len s.mon i hw
          simp only [eTokens] at h0 ⊢
          omega
      · contradiction

theorem ereach_inv {s : EState} (h : EReach s) : EInv s := by
  induction h with
  | init thr _ => exact einv_init thr
  | step _ hs ih => exact einv_step ih hs

end PV.CondVar

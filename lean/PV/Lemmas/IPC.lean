import PV.Model.IPC
/-! Helper lemmas for the IPC model: what one system call can change (frame lemmas), how
`G.step` / `G.start` / `G.kill` act on the components of the global state. -/
namespace PV.IPC
open PV.Generated.IPC

/-! ## flags of the call sites (extracted facts, evaluated) -/

theorem excl1 : (hasFlag semOpen1Flags O_CREAT && hasFlag semOpen1Flags O_EXCL) = true := by decide
theorem creat1 : hasFlag semOpen1Flags O_CREAT = true := by decide
theorem exclC : (hasFlag semCreateReopenFlags O_CREAT && hasFlag semCreateReopenFlags O_EXCL) = true := by decide
theorem creatC : hasFlag semCreateReopenFlags O_CREAT = true := by decide
theorem plainO : hasFlag semOpenReopenFlags O_CREAT = false := by decide
theorem shmExcl1 : (hasFlag shmOpen1Flags O_CREAT && hasFlag shmOpen1Flags O_EXCL) = true := by decide
theorem shmCreat1 : hasFlag shmOpen1Flags O_CREAT = true := by decide
theorem shmPlain2 : hasFlag shmOpen2Flags O_CREAT = false := by decide

/-! ## sem_open -/

theorem semOpenF_excl_absent (os : OS) (k : SemKey) (fl v : Nat) (hc : hasFlag fl O_CREAT = true)
    (h : os.semNames k = none) :
    semOpenF os k fl v =
      ({ os with semNames := fun k' => if k' = k then some os.nextObj else os.semNames k',
                 sems := fun o' => if o' = os.nextObj then ⟨v⟩ else os.sems o',
                 nextObj := os.nextObj + 1 }, .ok os.nextObj) := by
  simp [semOpenF, h, hc]

theorem semOpenF_excl_present (os : OS) (k : SemKey) (fl v : Nat) (o : ObjId)
    (hx : (hasFlag fl O_CREAT && hasFlag fl O_EXCL) = true) (h : os.semNames k = some o) :
    semOpenF os k fl v = (os, .err .EEXIST) := by
  simp [semOpenF, h, hx]

theorem semOpenF_plain_present (os : OS) (k : SemKey) (fl v : Nat) (o : ObjId)
    (hx : hasFlag fl O_CREAT = false) (h : os.semNames k = some o) :
    semOpenF os k fl v = (os, .ok o) := by
  simp [semOpenF, h, hx]

theorem semOpenF_plain_absent (os : OS) (k : SemKey) (fl v : Nat)
    (hx : hasFlag fl O_CREAT = false) (h : os.semNames k = none) :
    semOpenF os k fl v = (os, .err .ENOENT) := by
  simp [semOpenF, h, hx]

/-! ## frame: which names / objects a system call can touch -/

/-- the semaphore key a system call works on -/
def Sys.semKey? : Sys → Option SemKey
  | .semOpen k .. => some k
  | .semUnlink k => some k
  | _ => none

/-- only `sem_open` / `sem_unlink` of key `k` change the binding of `k` -/
theorem sysStep_semNames_frame (p : Pid) (i : Bool) (c : Sys) (os : OS) (k : SemKey)
    (h : c.semKey? ≠ some k) : (sysStep p i c os).1.semNames k = os.semNames k := by
  unfold sysStep
  split
  · rfl
  · cases c <;> simp only [Sys.semKey?, ne_eq, Option.some.injEq, reduceCtorEq, not_false_eq_true] at h <;>
      simp only [OS.setProc]
    case semOpen k' fl m v =>
      unfold semOpenF
      split <;> split <;> simp_all
      intro e; exact absurd e.symm h
    case semUnlink k' =>
      split <;> simp_all
      intro e; exact absurd e.symm h
    all_goals (try split) <;> (try split) <;> simp_all [shmOpenF, OS.setProc] <;> (try split) <;> (try split) <;> simp_all

/-! ## how one action acts on the components of `G` -/

theorem step_none (g : G) (t : Tid) (i : Bool) (h : g.calls t = none) : g.step t i = g := by
  simp [G.step, h]

/-- the OS after a step of thread `t` -/
theorem step_os (g : G) (t : Tid) (i : Bool) (c : Call) (h : g.calls t = some c) :
    (g.step t i).os = (sysStep (g.pidOf t) i c.next g.os).1 := by
  simp only [G.step, h]
  cases hr : c.after (sysStep (g.pidOf t) i c.next g.os).2 with
  | cont c' => simp [G.setCall]
  | done r =>
    obtain ⟨ret, nh⟩ := r
    cases nh with
    | none => simp [G.setCall, G.setRet]
    | some x => obtain ⟨hid, y⟩ := x; simp [G.setCall, G.setRet, G.setHandle]

/-- the handle table after a step of thread `t` -/
theorem step_hs (g : G) (t : Tid) (i : Bool) (c : Call) (h : g.calls t = some c) (h' : Hid) :
    (g.step t i).hs h' =
      match c.after (sysStep (g.pidOf t) i c.next g.os).2 with
      | .done (_, some (hid, x)) => if h' = hid then some (g.pidOf t, x) else g.hs h'
      | _ => g.hs h' := by
  simp only [G.step, h]
  cases hr : c.after (sysStep (g.pidOf t) i c.next g.os).2 with
  | cont c' => simp [G.setCall]
  | done r =>
    obtain ⟨ret, nh⟩ := r
    cases nh with
    | none => simp [G.setCall, G.setRet]
    | some x => obtain ⟨hid, y⟩ := x; simp [G.setCall, G.setRet, G.setHandle]

theorem step_log (g : G) (t : Tid) (i : Bool) (c : Call) (h : g.calls t = some c) :
    (g.step t i).log = ⟨t, g.pidOf t, c.next, (sysStep (g.pidOf t) i c.next g.os).2⟩ :: g.log := by
  simp only [G.step, h]
  cases hr : c.after (sysStep (g.pidOf t) i c.next g.os).2 with
  | cont c' => simp [G.setCall]
  | done r =>
    obtain ⟨ret, nh⟩ := r
    cases nh with
    | none => simp [G.setCall, G.setRet]
    | some x => obtain ⟨hid, y⟩ := x; simp [G.setCall, G.setRet, G.setHandle]

theorem step_pidOf (g : G) (t : Tid) (i : Bool) : (g.step t i).pidOf = g.pidOf := by
  unfold G.step
  split
  · rfl
  · rename_i c hc
    simp only
    cases hr : c.after (sysStep (g.pidOf t) i c.next g.os).2 with
    | cont c' => simp [G.setCall]
    | done r =>
      obtain ⟨ret, nh⟩ := r
      cases nh with
      | none => simp [G.setCall, G.setRet]
      | some x => obtain ⟨hid, y⟩ := x; simp [G.setCall, G.setRet, G.setHandle]

/-! ### a scripted failure (`G.fail`): the OS is untouched, no handle appears, the log records the failed call -/

theorem semNew_after_err (s : SemNewSt) (e : Errno) (x : PSem) : s.after (.err e) ≠ .done (.ok x) := by
  obtain ⟨key, mode, init, pc⟩ := s
  cases pc <;> cases e <;> cases mode <;> simp [SemNewSt.after] <;> (repeat' split) <;> simp

theorem shmNew_after_err (s : ShmNewSt) (e : Errno) (x : PShm) : s.after (.err e) ≠ .done (.ok x) := by
  obtain ⟨key, req, ro, created, isExists, size, addr, pc⟩ := s
  cases pc with
  | sem st =>
    simp only [ShmNewSt.after]
    have := semNew_after_err st e
    split
    · simp
    · rename_i ps h; exact absurd h (this ps)
    · simp only [ShmNewSt.cleanFrom]; (repeat' split) <;> simp
  | _ => cases e <;> simp [ShmNewSt.after, ShmNewSt.cleanFrom] <;> (repeat' split) <;> simp

/-- a failed system call never completes a call with a new handle -/
theorem after_err_no_handle (c : Call) (e : Errno) (ret : Ret) (hid : Hid) (x : Handle) :
    c.after (.err e) ≠ .done (ret, some (hid, x)) := by
  cases c with
  | semNew h s =>
    simp only [Call.after]
    have := semNew_after_err s e
    split
    · simp
    · rename_i y hy; exact absurd hy (this y)
    · simp
  | semFree s => simp only [Call.after]; split <;> simp
  | acquire h => simp only [Call.after]; split <;> simp
  | release h => simp only [Call.after]; split <;> simp
  | shmNew h s =>
    simp only [Call.after]
    have := shmNew_after_err s e
    split
    · simp
    · rename_i y hy; exact absurd hy (this y)
    · simp
  | shmFree s => simp only [Call.after]; split <;> simp

theorem fail_none (g : G) (t : Tid) (e : Errno) (h : g.calls t = none) : g.fail t e = g := by
  simp [G.fail, h]

theorem fail_os (g : G) (t : Tid) (e : Errno) : (g.fail t e).os = g.os := by
  unfold G.fail
  split
  · rfl
  · rename_i c hc
    simp only
    cases hr : c.after (.err e) with
    | cont c' => simp [G.setCall]
    | done r =>
      obtain ⟨ret, nh⟩ := r
      cases nh with
      | none => simp [G.setCall, G.setRet]
      | some x => obtain ⟨hid, y⟩ := x; simp [G.setCall, G.setRet, G.setHandle]

theorem fail_pidOf (g : G) (t : Tid) (e : Errno) : (g.fail t e).pidOf = g.pidOf := by
  unfold G.fail
  split
  · rfl
  · rename_i c hc
    simp only
    cases hr : c.after (.err e) with
    | cont c' => simp [G.setCall]
    | done r =>
      obtain ⟨ret, nh⟩ := r
      cases nh with
      | none => simp [G.setCall, G.setRet]
      | some x => obtain ⟨hid, y⟩ := x; simp [G.setCall, G.setRet, G.setHandle]

theorem fail_hs (g : G) (t : Tid) (e : Errno) : (g.fail t e).hs = g.hs := by
  unfold G.fail
  split
  · rfl
  · rename_i c hc
    simp only
    cases hr : c.after (.err e) with
    | cont c' => simp [G.setCall]
    | done r =>
      obtain ⟨ret, nh⟩ := r
      cases nh with
      | none => simp [G.setCall, G.setRet]
      | some x => obtain ⟨hid, y⟩ := x; exact absurd hr (after_err_no_handle c e ret hid y)

theorem fail_log (g : G) (t : Tid) (e : Errno) (c : Call) (h : g.calls t = some c) :
    (g.fail t e).log = ⟨t, g.pidOf t, c.next, .err e⟩ :: g.log := by
  simp only [G.fail, h]
  cases hr : c.after (.err e) with
  | cont c' => simp [G.setCall]
  | done r =>
    obtain ⟨ret, nh⟩ := r
    cases nh with
    | none => simp [G.setCall, G.setRet]
    | some x => obtain ⟨hid, y⟩ := x; simp [G.setCall, G.setRet, G.setHandle]

/-- the call slot of the failing thread -/
theorem fail_calls_self (g : G) (t : Tid) (e : Errno) (c : Call) (h : g.calls t = some c) :
    (g.fail t e).calls t = (match c.after (.err e) with | .cont c' => some c' | .done _ => none) := by
  simp only [G.fail, h]
  cases hr : c.after (.err e) with
  | cont c' => simp [G.setCall]
  | done r =>
    obtain ⟨ret, nh⟩ := r
    cases nh with
    | none => simp [G.setCall, G.setRet]
    | some x => obtain ⟨hid, y⟩ := x; simp [G.setCall, G.setRet, G.setHandle]

theorem fail_calls_other (g : G) (t : Tid) (e : Errno) (t' : Tid) (h : t' ≠ t) : (g.fail t e).calls t' = g.calls t' := by
  unfold G.fail
  split
  · rfl
  · rename_i c hc
    simp only
    cases hr : c.after (.err e) with
    | cont c' => simp [G.setCall, h]
    | done r =>
      obtain ⟨ret, nh⟩ := r
      cases nh with
      | none => simp [G.setCall, G.setRet, h]
      | some x => obtain ⟨hid, y⟩ := x; simp [G.setCall, G.setRet, G.setHandle, h]

theorem kill_os (g : G) (p : Pid) : (g.kill p).os = g.os.kill p := rfl

theorem kill_semNames (g : G) (p : Pid) : (g.kill p).os.semNames = g.os.semNames := rfl
theorem kill_sems (g : G) (p : Pid) : (g.kill p).os.sems = g.os.sems := rfl
theorem kill_shmNames (g : G) (p : Pid) : (g.kill p).os.shmNames = g.os.shmNames := rfl
theorem kill_segs (g : G) (p : Pid) : (g.kill p).os.segs = g.os.segs := rfl

theorem kill_hs (g : G) (p : Pid) (h : Hid) (q : Pid) (x : Handle) (hx : (g.kill p).hs h = some (q, x)) :
    g.hs h = some (q, x) := by
  simp only [G.kill] at hx
  split at hx
  · split at hx <;> simp_all
  · simp at hx

theorem store_frame (os os' : OS) (p : Pid) (a off : Nat) (b : UInt8) (h : os.store p a off b = some os') :
    os'.semNames = os.semNames ∧ os'.sems = os.sems ∧ os'.nextObj = os.nextObj ∧ os'.shmNames = os.shmNames ∧
    os'.nextSeg = os.nextSeg ∧ os'.procs = os.procs := by
  unfold OS.store at h
  split at h
  · split at h
    · split at h <;> simp at h <;> subst h <;> simp
    · simp at h
  · simp at h

/-- `p_semaphore_take_ownership` / `p_shm_take_ownership` on the struct -/
def Handle.owned : Handle → Handle
  | .sem s => .sem { s with created := true }
  | .shm s => .shm { s with created := true, sem := { s.sem with created := true } }

/-- starting a call does not touch the OS, except for a store through a mapping -/
theorem start_os (g : G) (t : Tid) (op : Op) :
    (g.start t op).os = g.os ∨ ∃ a off b os', g.os.store (g.pidOf t) a off b = some os' ∧ (g.start t op).os = os' := by
  unfold G.start
  split
  · left; rfl
  · cases op <;> simp only [G.handleOf] <;> (repeat' split) <;>
      first
      | (left; rfl)
      | (right; rename_i os' hs; exact ⟨_, _, _, os', hs, rfl⟩)

theorem start_semNames (g : G) (t : Tid) (op : Op) : (g.start t op).os.semNames = g.os.semNames := by
  rcases start_os g t op with h | ⟨a, off, b, os', h, e⟩
  · rw [h]
  · rw [e, (store_frame _ _ _ _ _ _ h).1]

theorem start_sems (g : G) (t : Tid) (op : Op) : (g.start t op).os.sems = g.os.sems := by
  rcases start_os g t op with h | ⟨a, off, b, os', h, e⟩
  · rw [h]
  · rw [e, (store_frame _ _ _ _ _ _ h).2.1]

theorem start_nextObj (g : G) (t : Tid) (op : Op) : (g.start t op).os.nextObj = g.os.nextObj := by
  rcases start_os g t op with h | ⟨a, off, b, os', h, e⟩
  · rw [h]
  · rw [e, (store_frame _ _ _ _ _ _ h).2.2.1]

theorem start_shmNames (g : G) (t : Tid) (op : Op) : (g.start t op).os.shmNames = g.os.shmNames := by
  rcases start_os g t op with h | ⟨a, off, b, os', h, e⟩
  · rw [h]
  · rw [e, (store_frame _ _ _ _ _ _ h).2.2.2.1]

theorem handleOf_some (g : G) (t : Tid) (h : Hid) (x : Handle) (hx : g.handleOf t h = some x) :
    g.hs h = some (g.pidOf t, x) := by
  unfold G.handleOf at hx
  split at hx
  · rename_i p y hy
    split at hx
    · rename_i hp; simp at hx; subst hx; subst hp; exact hy
    · simp at hx
  · simp at hx

/-- a handle present after `start` was there before, possibly with ownership taken -/
theorem start_hs (g : G) (t : Tid) (op : Op) (h : Hid) (p : Pid) (x : Handle)
    (hx : (g.start t op).hs h = some (p, x)) :
    g.hs h = some (p, x) ∨ ∃ x0, g.hs h = some (p, x0) ∧ x = x0.owned := by
  unfold G.start at hx
  split at hx
  · left; simpa [G.setRet] using hx
  · cases op <;> simp only at hx <;> (repeat' split at hx) <;>
      simp only [G.setRet, G.setCall, G.setHandle] at hx <;>
      first
      | (left; exact hx)
      | (rename_i hof
         have h0 := handleOf_some _ _ _ _ hof
         split at hx
         · rename_i he
           subst he
           simp only [Option.some.injEq, Prod.mk.injEq] at hx
           obtain ⟨hp, hxx⟩ := hx
           subst hp; subst hxx
           right
           exact ⟨_, h0, rfl⟩
         · left; exact hx)
      | (split at hx
         · simp at hx
         · left; exact hx)

theorem start_log (g : G) (t : Tid) (op : Op) : (g.start t op).log = g.log := by
  unfold G.start
  split
  · rfl
  · cases op <;> simp only [G.handleOf] <;> (repeat' split) <;> rfl

theorem start_pidOf (g : G) (t : Tid) (op : Op) : (g.start t op).pidOf = g.pidOf := by
  unfold G.start
  split
  · rfl
  · cases op <;> simp only [G.handleOf] <;> (repeat' split) <;> rfl

/-! ## one counter per name: the binding of a name and the handles that refer to it -/

/-- can this creation in flight still unlink key `k`?  (CREATE mode, or already on the CREATE path) -/
def SemNewSt.mayUnlink (s : SemNewSt) (k : SemKey) : Prop :=
  s.key = k ∧ (s.mode = .create ∨ s.pc = .unlink ∨ s.pc = .recreate)

/-- can this clean-up in flight still unlink key `k`?  (an owner's handle) -/
def SemFreeSt.mayUnlink (s : SemFreeSt) (k : SemKey) : Prop :=
  s.h.key = k ∧ (s.h.created = true ∨ s.pc = .unlink)

/-- the call in flight is not about to remove the name `k`: no CREATE-mode open of `k`
    and no owner free of `k` is at its semaphore steps -/
def Call.quiet (k : SemKey) : Call → Prop
  | .semNew _ s => ¬ s.mayUnlink k
  | .semFree s => ¬ s.mayUnlink k
  | .shmNew _ s => match s.pc with
    | .sem st => ¬ st.mayUnlink k
    | _ => True
  | .shmFree s => match s.pc with
    | .sem st => ¬ st.mayUnlink k
    | _ => True
  | _ => True

def Quiet (k : SemKey) (g : G) : Prop := ∀ t c, g.calls t = some c → c.quiet k

/-- name `k` is bound to object `o` and every live handle of `k` (also the lock handles inside
    PShm structs) refers to `o`: they all share the one counter `sems o` -/
def Agree (k : SemKey) (o : ObjId) (g : G) : Prop :=
  g.os.semNames k = some o ∧
  (∀ h p x, g.hs h = some (p, .sem x) → x.key = k → x.obj = o) ∧
  (∀ h p y, g.hs h = some (p, .shm y) → y.sem.key = k → y.sem.obj = o)

theorem semNew_after_key (s : SemNewSt) (r : Res) (hd : PSem) (h : s.after r = .done (.ok hd)) : hd.key = s.key := by
  obtain ⟨key, mode, init, pc⟩ := s
  cases pc <;> simp only [SemNewSt.after] at h <;> (repeat' split at h) <;>
    simp only [Out.done.injEq, Except.ok.injEq, SemNewSt.handle, reduceCtorEq] at h <;>
    first
    | (subst h; rfl)
    | contradiction

theorem semNew_step_agree (p : Pid) (i : Bool) (s : SemNewSt) (os : OS) (k : SemKey) (o : ObjId)
    (hk : os.semNames k = some o) (hq : ¬ s.mayUnlink k) :
    (sysStep p i s.next os).1.semNames k = some o ∧
    (∀ hd, s.after (sysStep p i s.next os).2 = .done (.ok hd) → hd.key = k → hd.obj = o) := by
  obtain ⟨key, mode, init, pc⟩ := s
  by_cases hkey : key = k
  · subst hkey
    simp only [SemNewSt.mayUnlink, true_and, not_or] at hq
    obtain ⟨hm, hp1, hp2⟩ := hq
    cases mode <;> simp at hm
    have h1 := semOpenF_excl_present os key semOpen1Flags init o excl1 hk
    have h2 := semOpenF_plain_present os key semOpenReopenFlags 0 o plainO hk
    cases pc <;> simp at hp1 hp2 <;> cases i <;>
      simp [SemNewSt.next, SemNewSt.after, sysStep, Sys.interruptible, h1, h2, hk, SemNewSt.handle,
        semOpenReopenInitZero, semOpen1Retry, semOpenReopenRetry]
  · constructor
    · rw [sysStep_semNames_frame _ _ _ _ _ (by
        cases pc <;> simp [SemNewSt.next, Sys.semKey?, hkey])]
      exact hk
    · intro hd hdone hdk
      exfalso
      have := semNew_after_key _ _ _ hdone
      simp only at this
      exact hkey (this.symm.trans hdk)

theorem semFree_step_agree (p : Pid) (i : Bool) (s : SemFreeSt) (os : OS) (k : SemKey) (o : ObjId)
    (hk : os.semNames k = some o) (hq : ¬ s.mayUnlink k) :
    (sysStep p i s.next os).1.semNames k = some o := by
  obtain ⟨h, pc⟩ := s
  cases pc
  · rw [sysStep_semNames_frame _ _ _ _ _ (by simp [SemFreeSt.next, Sys.semKey?])]; exact hk
  · have : h.key ≠ k := by
      intro e; exact hq ⟨e, Or.inr rfl⟩
    rw [sysStep_semNames_frame _ _ _ _ _ (by simp [SemFreeSt.next, Sys.semKey?, this])]; exact hk

/-- does a new handle refer to object `o` if it is a handle of key `k`? -/
def Handle.agrees (k : SemKey) (o : ObjId) : Handle → Prop
  | .sem x => x.key = k → x.obj = o
  | .shm y => y.sem.key = k → y.sem.obj = o

theorem shmNew_after_handle (s : ShmNewSt) (r : Res) (hd : PShm) (h : s.after r = .done (.ok hd)) :
    ∃ st ps, s.pc = .sem st ∧ st.after r = .done (.ok ps) ∧ hd.sem = ps := by
  obtain ⟨key, req, ro, created, isExists, size, addr, pc⟩ := s
  cases pc with
  | sem st =>
    simp only [ShmNewSt.after] at h
    split at h
    · simp at h
    · rename_i ps hst
      simp only [Out.done.injEq, Except.ok.injEq] at h
      exact ⟨st, ps, rfl, hst, by rw [← h]⟩
    · simp only [ShmNewSt.cleanFrom] at h
      (repeat' split at h) <;> simp at h
  | _ =>
    exfalso
    rcases r with v | e | _ <;> (try cases e) <;>
      simp only [ShmNewSt.after, ShmNewSt.cleanFrom] at h <;> (repeat' split at h) <;> simp at h

/-- one step of any call that is `quiet` keeps the binding of `k`, and a handle it returns agrees -/
theorem call_step_agree (p : Pid) (i : Bool) (c : Call) (os : OS) (k : SemKey) (o : ObjId)
    (hk : os.semNames k = some o) (hq : c.quiet k) :
    (sysStep p i c.next os).1.semNames k = some o ∧
    (∀ ret hid x, c.after (sysStep p i c.next os).2 = .done (ret, some (hid, x)) → x.agrees k o) := by
  cases c with
  | semNew hid s =>
    have := semNew_step_agree p i s os k o hk hq
    refine ⟨this.1, ?_⟩
    intro ret hid' x hx
    simp only [Call.next, Call.after] at hx
    split at hx <;> simp at hx
    rename_i hd hdone
    obtain ⟨_, _, rfl⟩ := hx
    exact this.2 hd hdone
  | semFree s =>
    refine ⟨semFree_step_agree p i s os k o hk hq, ?_⟩
    intro ret hid x hx
    simp only [Call.next, Call.after] at hx
    split at hx <;> simp at hx
  | acquire h =>
    refine ⟨by rw [sysStep_semNames_frame _ _ _ _ _ (by simp [Call.next, acquireNext, Sys.semKey?])]; exact hk, ?_⟩
    intro ret hid x hx
    simp only [Call.after] at hx
    split at hx <;> simp at hx
  | release h =>
    refine ⟨by rw [sysStep_semNames_frame _ _ _ _ _ (by simp [Call.next, releaseNext, Sys.semKey?])]; exact hk, ?_⟩
    intro ret hid x hx
    simp only [Call.after] at hx
    split at hx <;> simp at hx
  | shmNew hid s =>
    constructor
    · cases hpc : s.pc with
      | sem st =>
        simp only [Call.quiet, hpc] at hq
        have := semNew_step_agree p i st os k o hk hq
        simpa [Call.next, ShmNewSt.next, hpc] using this.1
      | _ =>
        rw [sysStep_semNames_frame _ _ _ _ _ (by simp [Call.next, ShmNewSt.next, hpc, Sys.semKey?])]; exact hk
    · intro ret hid' x hx
      simp only [Call.after] at hx
      split at hx <;> simp at hx
      rename_i hd hdone
      obtain ⟨_, _, rfl⟩ := hx
      obtain ⟨st, ps, hpc, hst, hsem⟩ := shmNew_after_handle s _ hd hdone
      simp only [Call.quiet, hpc] at hq
      have := semNew_step_agree p i st os k o hk hq
      simp only [Handle.agrees, hsem]
      have hn : (Call.shmNew hid s).next = st.next := by simp [Call.next, ShmNewSt.next, hpc]
      rw [hn] at hst
      exact this.2 ps hst
  | shmFree s =>
    constructor
    · cases hpc : s.pc with
      | sem st =>
        simp only [Call.quiet, hpc] at hq
        have := semFree_step_agree p i st os k o hk hq
        simpa [Call.next, ShmFreeSt.next, hpc] using this
      | _ =>
        rw [sysStep_semNames_frame _ _ _ _ _ (by simp [Call.next, ShmFreeSt.next, hpc, Sys.semKey?])]; exact hk
    · intro ret hid x hx
      simp only [Call.after] at hx
      split at hx <;> simp at hx

theorem owned_agrees (k : SemKey) (o : ObjId) (x : Handle) (h : x.agrees k o) : x.owned.agrees k o := by
  cases x <;> simpa [Handle.owned, Handle.agrees] using h

theorem agree_iff (k : SemKey) (o : ObjId) (g : G) :
    Agree k o g ↔ g.os.semNames k = some o ∧ ∀ h p x, g.hs h = some (p, x) → x.agrees k o := by
  constructor
  · rintro ⟨h1, h2, h3⟩
    refine ⟨h1, ?_⟩
    intro h p x hx
    cases x with
    | sem y => exact h2 h p y hx
    | shm y => exact h3 h p y hx
  · rintro ⟨h1, h2⟩
    exact ⟨h1, fun h p x hx => h2 h p (.sem x) hx, fun h p y hy => h2 h p (.shm y) hy⟩

/-- any action of anybody preserves `Agree` as long as no call in flight is about to unlink `k` -/
theorem agree_exec (k : SemKey) (o : ObjId) (g : G) (a : Action) (h : Agree k o g) (hq : Quiet k g) :
    Agree k o (exec g a) := by
  rw [agree_iff] at h ⊢
  obtain ⟨hn, hh⟩ := h
  cases a with
  | start t op =>
    refine ⟨by simp only [exec]; rw [start_semNames]; exact hn, ?_⟩
    intro h' p x hx
    rcases start_hs g t op h' p x hx with h0 | ⟨x0, h0, rfl⟩
    · exact hh h' p x h0
    · exact owned_agrees k o x0 (hh h' p x0 h0)
  | kill p =>
    refine ⟨by simp only [exec]; rw [kill_semNames]; exact hn, ?_⟩
    intro h' q x hx
    exact hh h' q x (kill_hs g p h' q x hx)
  | fail t e =>
    simp only [exec]
    refine ⟨by rw [fail_os]; exact hn, ?_⟩
    intro h' p x hx
    rw [fail_hs] at hx; exact hh h' p x hx
  | step t i =>
    simp only [exec]
    cases hc : g.calls t with
    | none => rw [step_none g t i hc]; exact ⟨hn, hh⟩
    | some c =>
      have := call_step_agree (g.pidOf t) i c g.os k o hn (hq t c hc)
      refine ⟨by rw [step_os g t i c hc]; exact this.1, ?_⟩
      intro h' p x hx
      rw [step_hs g t i c hc] at hx
      split at hx
      · rename_i ret hid y hdone
        split at hx
        · simp only [Option.some.injEq, Prod.mk.injEq] at hx
          obtain ⟨_, rfl⟩ := hx
          exact this.2 ret hid y hdone
        · exact hh h' p x hx
      · exact hh h' p x hx

/-- no call that may unlink `k` is in flight before any action of the schedule -/
def QuietRun (k : SemKey) : G → List Action → Prop
  | _, [] => True
  | g, a :: as => Quiet k g ∧ QuietRun k (exec g a) as

theorem agree_execAll (k : SemKey) (o : ObjId) (as : List Action) :
    ∀ g, Agree k o g → QuietRun k g as → Agree k o (execAll g as) := by
  induction as with
  | nil => intro g h _; exact h
  | cons a as ih =>
    intro g h hq
    simp only [execAll, List.foldl_cons]
    exact ih (exec g a) (agree_exec k o g a h hq.1) hq.2

/-! ## the counter: what one system call does to the value of an existing object -/

theorem sysStep_nextObj (p : Pid) (i : Bool) (c : Sys) (os : OS) : os.nextObj ≤ (sysStep p i c os).1.nextObj := by
  unfold sysStep
  split
  · exact Nat.le_refl _
  · cases c <;> simp only [OS.setProc]
    case semOpen k fl m v => unfold semOpenF; (repeat' split) <;> simp
    case shmOpen k fl m => unfold shmOpenF; (repeat' split) <;> simp [OS.setProc]
    all_goals (repeat' split) <;> simp

/-- an existing object's value changes only by a successful `sem_wait` (−1) or a `sem_post` (+1) on it -/
theorem sysStep_value (p : Pid) (i : Bool) (c : Sys) (os : OS) (o : ObjId) (ho : o < os.nextObj) :
    ((sysStep p i c os).1.sems o).value + (if c = .semWait o ∧ (sysStep p i c os).2 = .ok 0 then 1 else 0)
      = (os.sems o).value + (if c = .semPost o then 1 else 0) := by
  cases c with
  | semOpen k fl m v =>
    simp only [sysStep, reduceCtorEq, false_and, if_false]
    split
    · rfl
    · unfold semOpenF
      have hne : o ≠ os.nextObj := Nat.ne_of_lt ho
      (repeat' split) <;> simp [hne]
  | semWait o' =>
    simp only [sysStep, reduceCtorEq, if_false]
    split
    · simp
    · by_cases ho' : o' = o
      · subst ho'
        split <;> simp_all
        omega
      · have : o ≠ o' := fun e => ho' e.symm
        split <;> simp [ho', this]
  | semPost o' =>
    simp only [sysStep, Sys.interruptible, Bool.and_false, reduceCtorEq, false_and, if_false]
    by_cases ho' : o' = o
    · subst ho'; simp
    · have : o ≠ o' := fun e => ho' e.symm
      simp [ho', this]
  | shmOpen k fl m =>
    simp only [sysStep, reduceCtorEq, false_and, if_false]
    split
    · rfl
    · unfold shmOpenF; (repeat' split) <;> simp [OS.setProc]
  | _ =>
    simp only [sysStep, Sys.interruptible, Bool.and_false, reduceCtorEq, false_and, if_false, OS.setProc]
    all_goals ((repeat' split) <;> simp)

/-- successful acquisitions / releases of object `o` recorded in a log -/
def acquired (o : ObjId) (log : List Ev) : Nat :=
  (log.filter fun e => decide (e.sys = .semWait o ∧ e.res = .ok 0)).length

def released (o : ObjId) (log : List Ev) : Nat :=
  (log.filter fun e => decide (e.sys = .semPost o ∧ e.res = .ok 0)).length

/-- a `sem_post` that is performed succeeds (a failing one is a scripted `G.fail`) -/
theorem sysStep_semPost_res (p : Pid) (i : Bool) (o : ObjId) (os : OS) : (sysStep p i (.semPost o) os).2 = .ok 0 := by
  simp [sysStep, Sys.interruptible]

theorem counter_exec (g : G) (a : Action) (o : ObjId) (ho : o < g.os.nextObj) :
    ((exec g a).os.sems o).value + acquired o (exec g a).log + released o g.log
      = (g.os.sems o).value + acquired o g.log + released o (exec g a).log ∧
    o < (exec g a).os.nextObj := by
  cases a with
  | start t op =>
    simp only [exec]
    rw [start_sems, start_log, start_nextObj]
    exact ⟨rfl, ho⟩
  | kill p =>
    simp only [exec]
    exact ⟨rfl, ho⟩
  | fail t e =>
    -- a failed call changes no counter and is neither a successful acquisition nor a successful release
    simp only [exec]
    cases hc : g.calls t with
    | none => rw [fail_none g t e hc]; exact ⟨rfl, ho⟩
    | some c =>
      rw [fail_os, fail_log g t e c hc]
      refine ⟨?_, ho⟩
      simp [acquired, released]
  | step t i =>
    simp only [exec]
    cases hc : g.calls t with
    | none => rw [step_none g t i hc]; exact ⟨rfl, ho⟩
    | some c =>
      rw [step_os g t i c hc, step_log g t i c hc]
      have hv := sysStep_value (g.pidOf t) i c.next g.os o ho
      have hn := sysStep_nextObj (g.pidOf t) i c.next g.os
      refine ⟨?_, Nat.lt_of_lt_of_le ho hn⟩
      simp only [acquired, released, List.filter_cons]
      generalize hr : sysStep (g.pidOf t) i c.next g.os = r at hv hn ⊢
      generalize hcn : c.next = cn at hv ⊢
      by_cases e1 : cn = .semWait o
      · subst e1
        by_cases e2 : r.2 = .ok 0
        · simp [e2] at hv ⊢
          omega
        · simp [e2] at hv ⊢
          omega
      · by_cases e3 : cn = .semPost o
        · subst e3
          have hp : r.2 = .ok 0 := by rw [← hr, hcn]; exact sysStep_semPost_res _ _ _ _
          simp [hp] at hv ⊢
          omega
        · simp [e1, e3] at hv ⊢
          omega

theorem counter_execAll (o : ObjId) (as : List Action) :
    ∀ g, o < g.os.nextObj →
      ((execAll g as).os.sems o).value + acquired o (execAll g as).log + released o g.log
        = (g.os.sems o).value + acquired o g.log + released o (execAll g as).log ∧
      o < (execAll g as).os.nextObj := by
  induction as with
  | nil => intro g ho; exact ⟨rfl, ho⟩
  | cons a as ih =>
    intro g ho
    simp only [execAll, List.foldl_cons]
    have h1 := counter_exec g a o ho
    have h2 := ih (exec g a) h1.2
    simp only [execAll] at h2
    refine ⟨?_, h2.2⟩
    omega

/-! ## EINTR transparency: the retry loops make any number of interruptions invisible -/

/-- equal up to the ghost log -/
def G.Same (g g' : G) : Prop :=
  g.os = g'.os ∧ g.pidOf = g'.pidOf ∧ g.hs = g'.hs ∧ g.calls = g'.calls ∧ g.ret = g'.ret

theorem G.Same.refl (g : G) : g.Same g := ⟨rfl, rfl, rfl, rfl, rfl⟩

theorem G.Same.trans {a b c : G} (h1 : a.Same b) (h2 : b.Same c) : a.Same c :=
  ⟨h1.1.trans h2.1, h1.2.1.trans h2.2.1, h1.2.2.1.trans h2.2.2.1, h1.2.2.2.1.trans h2.2.2.2.1, h1.2.2.2.2.trans h2.2.2.2.2⟩

/-- an interrupted call is simply issued again (every interruptible call site sits in a retry loop) -/
theorem semNew_after_eintr (s : SemNewSt) (h : s.next.interruptible = true) : s.after (.err .EINTR) = .cont s := by
  obtain ⟨key, mode, init, pc⟩ := s
  cases pc <;> simp [SemNewSt.next, Sys.interruptible] at h <;>
    simp [SemNewSt.after, semOpen1Retry, semCreateReopenRetry, semOpenReopenRetry]

theorem after_eintr (c : Call) (h : c.next.interruptible = true) : c.after (.err .EINTR) = .cont c := by
  cases c with
  | semNew hid s => simp [Call.after, semNew_after_eintr s (by simpa [Call.next] using h)]
  | semFree s =>
    obtain ⟨hd, pc⟩ := s
    cases pc <;> simp [Call.next, SemFreeSt.next, Sys.interruptible] at h
  | acquire hd => simp [Call.after, acquireAfter, semWaitRetry]
  | release hd => simp [Call.next, releaseNext, Sys.interruptible] at h
  | shmNew hid s =>
    obtain ⟨key, req, ro, created, isExists, size, addr, pc⟩ := s
    cases pc with
    | sem st =>
      have := semNew_after_eintr st (by simpa [Call.next, ShmNewSt.next] using h)
      simp [Call.after, ShmNewSt.after, this]
    | excl => simp [Call.after, ShmNewSt.after, shmOpen1Retry]
    | «open» => simp [Call.after, ShmNewSt.after, shmOpen2Retry]
    | _ => simp [Call.next, ShmNewSt.next, Sys.interruptible] at h
  | shmFree s =>
    obtain ⟨hd, pc⟩ := s
    cases pc with
    | sem st =>
      obtain ⟨hd', pc'⟩ := st
      cases pc' <;> simp [Call.next, ShmFreeSt.next, SemFreeSt.next, Sys.interruptible] at h
    | _ => simp [Call.next, ShmFreeSt.next, Sys.interruptible] at h

theorem step_intr_same (g : G) (t : Tid) (c : Call) (hc : g.calls t = some c) (hi : c.next.interruptible = true) :
    (g.step t true).Same g := by
  have hs : sysStep (g.pidOf t) true c.next g.os = (g.os, .err .EINTR) := by simp [sysStep, hi]
  simp only [G.step, hc, hs, after_eintr c hi, G.setCall]
  refine ⟨rfl, rfl, rfl, ?_, rfl⟩
  funext t'
  by_cases e : t' = t
  · subst e; simp [hc]
  · simp [e]

theorem intr_steps_same (n : Nat) : ∀ (g : G) (t : Tid) (c : Call), g.calls t = some c → c.next.interruptible = true →
    ((List.replicate n (Action.step t true)).foldl exec g).Same g := by
  induction n with
  | zero => intro g t c _ _; exact G.Same.refl g
  | succ n ih =>
    intro g t c hc hi
    simp only [List.replicate_succ, List.foldl_cons, exec]
    have h1 := step_intr_same g t c hc hi
    have hc' : (g.step t true).calls t = some c := by rw [h1.2.2.2.1]; exact hc
    exact (ih (g.step t true) t c hc' hi).trans h1

/-- `step` does not look at the log -/
theorem step_same (g g' : G) (t : Tid) (i : Bool) (h : g.Same g') :
    (g.step t i).Same (g'.step t i) ∧ ((g.step t i).log.head?.map (·.res) = (g'.step t i).log.head?.map (·.res) ∨ g.calls t = none) := by
  obtain ⟨h1, h2, h3, h4, h5⟩ := h
  cases hc : g.calls t with
  | none =>
    have hc' : g'.calls t = none := by rw [← h4]; exact hc
    rw [step_none g t i hc, step_none g' t i hc']
    exact ⟨⟨h1, h2, h3, h4, h5⟩, Or.inr rfl⟩
  | some c =>
    have hc' : g'.calls t = some c := by rw [← h4]; exact hc
    refine ⟨?_, Or.inl ?_⟩
    · simp only [G.step, hc, hc', ← h1, ← h2]
      cases hr : c.after (sysStep (g.pidOf t) i c.next g.os).2 with
      | cont c' => simp [G.Same, G.setCall, h3, h4, h5]
      | done r =>
        obtain ⟨ret, nh⟩ := r
        cases nh with
        | none => simp [G.Same, G.setCall, G.setRet, h3, h4, h5]
        | some x =>
          obtain ⟨hid, y⟩ := x
          simp [G.Same, G.setCall, G.setRet, G.setHandle, h3, h4, h5]
    · rw [step_log g t i c hc, step_log g' t i c hc', h1, h2]
      simp

theorem runCall_same (fuel : Nat) : ∀ (g g' : G) (t : Tid) (sc : List Nat), g.Same g' →
    (runCall g t sc fuel).Same (runCall g' t [] fuel) := by
  induction fuel with
  | zero => intro g g' t sc h; exact h
  | succ f ih =>
    intro g g' t sc h
    cases hc : g.calls t with
    | none =>
      have hc' : g'.calls t = none := by rw [← h.2.2.2.1]; exact hc
      simp only [runCall, hc, hc']; exact h
    | some c =>
      have hc' : g'.calls t = some c := by rw [← h.2.2.2.1]; exact hc
      simp only [runCall, hc, hc', List.headD_nil, ite_self, List.replicate_zero, List.foldl_nil, List.tail_nil]
      generalize hn : (if c.next.interruptible = true then sc.headD 0 else 0) = n
      have h1 : ((List.replicate n (Action.step t true)).foldl exec g).Same g := by
        by_cases hi : c.next.interruptible = true
        · exact intr_steps_same n g t c hc hi
        · have : n = 0 := by simp [hi] at hn; exact hn.symm
          subst this; exact G.Same.refl g
      have h2 := step_same _ g' t false (h1.trans h)
      have hcc : ((List.replicate n (Action.step t true)).foldl exec g).calls t = some c := by
        rw [h1.2.2.2.1]; exact hc
      have hlog := h2.2.resolve_right (by rw [hcc]; simp)
      rw [step_log _ t false c hcc, step_log g' t false c hc'] at hlog
      rw [step_log _ t false c hcc, step_log g' t false c hc']
      simp only [List.head?_cons, Option.map_some, Option.some.injEq] at hlog
      rw [hlog]
      generalize (sysStep (g'.pidOf t) false c.next g'.os).2 = R
      cases R with
      | block => exact h2.1
      | ok v => exact ih _ _ t sc.tail h2.1
      | err e => exact ih _ _ t sc.tail h2.1

/-- `p_semaphore_take_ownership` etc.: `start` does not look at the log either -/
theorem eintr_transparent (g : G) (t : Tid) (op : Op) (script : List Nat) :
    (g.call t op script).Same (g.call t op []) :=
  runCall_same seqFuel _ _ t script (G.Same.refl _)

/-! ## sequential runs of the semaphore calls (one thread runs, everybody else is quiet) -/

/-- `runCall` is unfolded only when the state of the thread's slot is known: a proof that no longer
    matches the code gets stuck at once instead of unfolding symbolic runs -/
theorem runCall_none (g : G) (t : Tid) (sc : List Nat) (fuel : Nat) (h : g.calls t = none) : runCall g t sc fuel = g := by
  cases fuel <;> simp [runCall, h]

theorem runCall_some (g : G) (t : Tid) (sc : List Nat) (fuel : Nat) (c : Call) (h : g.calls t = some c) :
    runCall g t sc (fuel + 1) =
      (match (((List.replicate (if c.next.interruptible then sc.headD 0 else 0) (Action.step t true)).foldl exec g).step t false).log with
       | ⟨_, _, _, .block⟩ :: _ =>
         ((List.replicate (if c.next.interruptible then sc.headD 0 else 0) (Action.step t true)).foldl exec g).step t false
       | _ => runCall (((List.replicate (if c.next.interruptible then sc.headD 0 else 0) (Action.step t true)).foldl exec g).step t false) t sc.tail fuel) := by
  rw [runCall]
  simp only [h]
  rfl

/-- thread `t` can start a call: its process is alive and it has no call in flight -/
structure Idle (g : G) (t : Tid) : Prop where
  alive : (g.os.procs (g.pidOf t)).alive = true
  idle : g.calls t = none

/-- the OS after `sem_open (k, O_CREAT|O_EXCL, v)` on an unbound name: a fresh object with value `v` -/
def OS.semCreate (os : OS) (k : SemKey) (v : Nat) : OS :=
  { os with semNames := fun k' => if k' = k then some os.nextObj else os.semNames k',
            sems := fun o' => if o' = os.nextObj then ⟨v⟩ else os.sems o',
            nextObj := os.nextObj + 1 }

/-- the OS after a successful `sem_unlink (k)` -/
def OS.semRemove (os : OS) (k : SemKey) : OS :=
  { os with semNames := fun k' => if k' = k then none else os.semNames k' }

def OS.semAdd (os : OS) (o : ObjId) (d : Nat) : OS :=
  { os with sems := fun o' => if o' = o then ⟨(os.sems o).value + d⟩ else os.sems o' }

def OS.semSub (os : OS) (o : ObjId) : OS :=
  { os with sems := fun o' => if o' = o then ⟨(os.sems o).value - 1⟩ else os.sems o' }

macro "seq_simp" " [" ts:Lean.Parser.Tactic.simpLemma,* "]" : tactic =>
  `(tactic| simp [G.call, G.start, G.handleOf, G.setCall, G.setRet, G.setHandle, runCall_some, runCall_none, seqFuel, G.step,
    Call.next, Call.after, SemNewSt.next, SemNewSt.after, SemFreeSt.next, SemFreeSt.after, sysStep, Sys.interruptible,
    SemNewSt.handle, acquireNext, acquireAfter, releaseNext, releaseAfter,
    semOpenReopenInitZero, semCreateUnlinks, semCreateMarksCreated, semOpen1Retry, $ts,*])

/-- `p_semaphore_new` on an unbound name (either mode): one `sem_open`, the handle is the creator -/
theorem call_newSem_absent (g : G) (t : Tid) (h : Hid) (k : SemKey) (init : Nat) (m : Mode)
    (hi : Idle g t) (hh : g.hs h = none) (hk : g.os.semNames k = none) :
    (g.call t (.newSem h k init m)).os = g.os.semCreate k init ∧
    (g.call t (.newSem h k init m)).hs =
      (fun h' => if h' = h then some (g.pidOf t, .sem ⟨true, k, g.os.nextObj, m, init⟩) else g.hs h') ∧
    (g.call t (.newSem h k init m)).calls t = none ∧ (g.call t (.newSem h k init m)).pidOf = g.pidOf := by
  have h1 := semOpenF_excl_absent g.os k semOpen1Flags init creat1 hk
  seq_simp [hi.alive, hi.idle, hh, h1, OS.semCreate]

/-- `p_semaphore_new (OPEN)` on a bound name: EEXIST, then a plain `sem_open`; nothing changes in the OS -/
theorem call_newSem_open_present (g : G) (t : Tid) (h : Hid) (k : SemKey) (init o : Nat)
    (hi : Idle g t) (hh : g.hs h = none) (hk : g.os.semNames k = some o) :
    (g.call t (.newSem h k init .open)).os = g.os ∧
    (g.call t (.newSem h k init .open)).hs =
      (fun h' => if h' = h then some (g.pidOf t, .sem ⟨false, k, o, .open, init⟩) else g.hs h') ∧
    (g.call t (.newSem h k init .open)).calls t = none ∧ (g.call t (.newSem h k init .open)).pidOf = g.pidOf := by
  have h1 := semOpenF_excl_present g.os k semOpen1Flags init o excl1 hk
  have h2 := semOpenF_plain_present g.os k semOpenReopenFlags 0 o plainO hk
  seq_simp [hi.alive, hi.idle, hh, h1, h2]

/-- `p_semaphore_new (CREATE)` on a bound name: EEXIST, `sem_unlink`, exclusive `sem_open` of a fresh object -/
theorem call_newSem_create_present (g : G) (t : Tid) (h : Hid) (k : SemKey) (init o : Nat)
    (hi : Idle g t) (hh : g.hs h = none) (hk : g.os.semNames k = some o) :
    (g.call t (.newSem h k init .create)).os = (g.os.semRemove k).semCreate k init ∧
    (g.call t (.newSem h k init .create)).hs =
      (fun h' => if h' = h then some (g.pidOf t, .sem ⟨true, k, g.os.nextObj, .create, init⟩) else g.hs h') ∧
    (g.call t (.newSem h k init .create)).calls t = none ∧ (g.call t (.newSem h k init .create)).pidOf = g.pidOf := by
  have h1 := semOpenF_excl_present g.os k semOpen1Flags init o excl1 hk
  have h2 := semOpenF_excl_absent (g.os.semRemove k) k semCreateReopenFlags init creatC (by simp [OS.semRemove])
  simp only [OS.semRemove] at h2
  seq_simp [hi.alive, hi.idle, hh, h1, h2, hk, OS.semCreate, OS.semRemove]

theorem call_own_sem (g : G) (t : Tid) (h : Hid) (x : PSem) (hi : Idle g t) (hh : g.hs h = some (g.pidOf t, .sem x)) :
    (g.call t (.own h)).os = g.os ∧
    (g.call t (.own h)).hs = (fun h' => if h' = h then some (g.pidOf t, .sem { x with created := true }) else g.hs h') ∧
    (g.call t (.own h)).calls t = none ∧ (g.call t (.own h)).pidOf = g.pidOf := by
  seq_simp [hi.alive, hi.idle, hh]

/-- `p_semaphore_free` of an owner's handle while the name is bound: `sem_close`, `sem_unlink` -/
theorem call_free_sem_owner (g : G) (t : Tid) (h : Hid) (x : PSem) (o : ObjId) (hi : Idle g t)
    (hh : g.hs h = some (g.pidOf t, .sem x)) (hc : x.created = true) (hk : g.os.semNames x.key = some o) :
    (g.call t (.free h)).os = g.os.semRemove x.key ∧
    (g.call t (.free h)).hs = (fun h' => if h' = h then none else g.hs h') ∧
    (g.call t (.free h)).calls t = none ∧ (g.call t (.free h)).pidOf = g.pidOf := by
  seq_simp [hi.alive, hi.idle, hh, hc, hk, OS.semRemove]

/-- `p_semaphore_free` of a non-owner's handle: only `sem_close` -/
theorem call_free_sem_plain (g : G) (t : Tid) (h : Hid) (x : PSem) (hi : Idle g t)
    (hh : g.hs h = some (g.pidOf t, .sem x)) (hc : x.created = false) :
    (g.call t (.free h)).os = g.os ∧
    (g.call t (.free h)).hs = (fun h' => if h' = h then none else g.hs h') ∧
    (g.call t (.free h)).calls t = none ∧ (g.call t (.free h)).pidOf = g.pidOf := by
  seq_simp [hi.alive, hi.idle, hh, hc]

/-- `p_semaphore_acquire` when a unit is available: one `sem_wait`, the value drops by one -/
theorem call_acq (g : G) (t : Tid) (h : Hid) (x : PSem) (hi : Idle g t)
    (hh : g.hs h = some (g.pidOf t, .sem x)) (hv : (g.os.sems x.obj).value ≠ 0) :
    (g.call t (.acq h)).os = g.os.semSub x.obj ∧ (g.call t (.acq h)).hs = g.hs ∧
    (g.call t (.acq h)).ret t = some .unit ∧ (g.call t (.acq h)).calls t = none := by
  seq_simp [hi.alive, hi.idle, hh, hv, OS.semSub]

/-- `p_semaphore_release`: one `sem_post`, the value grows by one -/
theorem call_rel (g : G) (t : Tid) (h : Hid) (x : PSem) (hi : Idle g t)
    (hh : g.hs h = some (g.pidOf t, .sem x)) :
    (g.call t (.rel h)).os = g.os.semAdd x.obj 1 ∧ (g.call t (.rel h)).hs = g.hs ∧
    (g.call t (.rel h)).ret t = some .unit ∧ (g.call t (.rel h)).calls t = none := by
  seq_simp [hi.alive, hi.idle, hh, OS.semAdd]

/-- `p_semaphore_free` of an owner's handle whose name is already gone: `sem_unlink` fails, nothing changes -/
theorem call_free_sem_owner_unbound (g : G) (t : Tid) (h : Hid) (x : PSem) (hi : Idle g t)
    (hh : g.hs h = some (g.pidOf t, .sem x)) (hc : x.created = true) (hk : g.os.semNames x.key = none) :
    (g.call t (.free h)).os = g.os ∧
    (g.call t (.free h)).hs = (fun h' => if h' = h then none else g.hs h') ∧
    (g.call t (.free h)).calls t = none ∧ (g.call t (.free h)).pidOf = g.pidOf := by
  seq_simp [hi.alive, hi.idle, hh, hc, hk]

/-! ## which key a semaphore call works on -/

theorem semNew_next_key (s : SemNewSt) : s.next.semKey? = some s.key := by
  obtain ⟨key, mode, init, pc⟩ := s
  cases pc <;> rfl

theorem semFree_next_key (s : SemFreeSt) : s.next.semKey? = none ∨ s.next.semKey? = some s.h.key := by
  obtain ⟨h, pc⟩ := s
  cases pc
  · left; rfl
  · right; rfl

theorem sysStep_alive (p : Pid) (i : Bool) (c : Sys) (os : OS) (q : Pid) :
    ((sysStep p i c os).1.procs q).alive = (os.procs q).alive := by
  unfold sysStep
  split
  · rfl
  · cases c <;> simp only [OS.setProc, semOpenF, shmOpenF, munmapF] <;> (repeat' split) <;> simp_all <;>
      (split <;> simp_all)

/-! ## a sequential call touches only its own thread's slot -/

theorem start_calls_other (g : G) (t : Tid) (op : Op) (t' : Tid) (h : t' ≠ t) : (g.start t op).calls t' = g.calls t' := by
  unfold G.start
  split
  · rfl
  · cases op <;> simp only <;> (repeat' split) <;> simp [G.setRet, G.setCall, G.setHandle, h]

theorem step_calls_other (g : G) (t : Tid) (i : Bool) (t' : Tid) (h : t' ≠ t) : (g.step t i).calls t' = g.calls t' := by
  unfold G.step
  split
  · rfl
  · simp only
    split
    · simp [G.setCall, h]
    · split <;> simp [G.setCall, G.setRet, G.setHandle, h]

theorem intr_calls_other (n : Nat) : ∀ (g : G) (t t' : Tid), t' ≠ t →
    ((List.replicate n (Action.step t true)).foldl exec g).calls t' = g.calls t' := by
  induction n with
  | zero => intro g t t' _; rfl
  | succ n ih =>
    intro g t t' h
    simp only [List.replicate_succ, List.foldl_cons, exec]
    rw [ih _ t t' h, step_calls_other g t true t' h]

theorem runCall_calls_other (fuel : Nat) : ∀ (g : G) (t : Tid) (sc : List Nat) (t' : Tid), t' ≠ t →
    (runCall g t sc fuel).calls t' = g.calls t' := by
  induction fuel with
  | zero => intro g t sc t' _; rfl
  | succ f ih =>
    intro g t sc t' h
    simp only [runCall]
    split
    · rfl
    · rename_i c hc
      split
      · rw [step_calls_other _ t false t' h, intr_calls_other _ _ t t' h]
      · rw [ih _ t _ t' h, step_calls_other _ t false t' h, intr_calls_other _ _ t t' h]

theorem call_calls_other (g : G) (t : Tid) (op : Op) (sc : List Nat) (t' : Tid) (h : t' ≠ t) :
    (g.call t op sc).calls t' = g.calls t' := by
  simp only [G.call]
  rw [runCall_calls_other _ _ t sc t' h, start_calls_other g t op t' h]

theorem quiet_of_idle (k : SemKey) (g : G) (h : ∀ t, g.calls t = none) : Quiet k g := by
  intro t c hc; rw [h t] at hc; cases hc

/-! ## sequential runs of the shared-memory calls -/

macro "shm_simp" " [" ts:Lean.Parser.Tactic.simpLemma,* "]" : tactic =>
  `(tactic| simp [G.call, G.start, G.handleOf, G.setCall, G.setRet, G.setHandle, runCall_some, runCall_none, seqFuel, G.step,
    Call.next, Call.after, SemNewSt.next, SemNewSt.after, SemFreeSt.next, SemFreeSt.after, sysStep, Sys.interruptible,
    SemNewSt.handle, acquireNext, acquireAfter, releaseNext, releaseAfter,
    ShmNewSt.next, ShmNewSt.after, ShmNewSt.cleanFrom, ShmFreeSt.next, ShmFreeSt.after, lockMode,
    shmOpenF, lookupFd, OS.setProc,
    semOpenReopenInitZero, semCreateUnlinks, semCreateMarksCreated, semOpen1Retry,
    shmFtruncateCreatorOnly, shmLockModeByExists, shmLockInit, $ts,*])

/-- descriptor and mapping bookkeeping of a successful `pp_shm_create_handle` in a process:
    the descriptor is closed again, one mapping of `len` bytes of segment `s` is added -/
def Proc.afterNew (pr : Proc) (s : SegId) (len : Nat) (ro : Bool) : Proc :=
  { pr with fds := pr.fds.filter (fun x => !decide (x.1 = pr.nextFd)),
            maps := { addr := pr.nextAddr, seg := s, off := 0, len := len,
                      writable := hasFlag (if ro then shmMmapProtRO else shmMmapProtRW) PROT_WRITE,
                      shared := hasFlag shmMmapFlags MAP_SHARED } :: pr.maps,
            nextFd := pr.nextFd + 1, nextAddr := pr.nextAddr + pages len + 1 }

def OS.afterShmNew (os : OS) (p : Pid) (s : SegId) (len : Nat) (ro : Bool) : OS :=
  { os with procs := fun q => if q = p then (os.procs p).afterNew s len ro else os.procs q }

/-- the OS after `shm_open (k, O_CREAT|O_EXCL)` + `ftruncate (size)` on an unbound name: zero-filled -/
def OS.shmCreate (os : OS) (k : ShmKey) (size : Nat) : OS :=
  { os with shmNames := fun k' => if k' = k then some os.nextSeg else os.shmNames k',
            segs := fun s' => if s' = os.nextSeg then ⟨List.replicate size 0, k⟩ else os.segs s',
            nextSeg := os.nextSeg + 1 }

def OS.shmRemove (os : OS) (k : ShmKey) : OS :=
  { os with shmNames := fun k' => if k' = k then none else os.shmNames k' }

def OS.afterMunmap (os : OS) (p : Pid) (addr len : Nat) : OS :=
  { os with procs := fun q => if q = p then munmapF (os.procs p) addr len else os.procs q }

theorem resize_nil (n : Nat) : resize [] n = List.replicate n 0 := by simp [resize]

/-- the size recorded for (and reported by) a handle opened on an existing segment of `L` bytes -/
def repSize (req L : Nat) : Nat := if req = 0 ∨ L < req then L else req

theorem existingSize_eq (req L : Nat) : existingSize req L = repSize req L := by
  simp [existingSize, repSize, shmKeepSmallerRequest]

theorem clampSize_rep (req L : Nat) : clampSize req (repSize req L) = repSize req L := by
  simp only [clampSize, repSize, shmNewClamp]
  split <;> simp_all
  omega

theorem clampSize_self (n : Nat) : clampSize n n = n := by simp [clampSize]

theorem repSize_le (req L : Nat) : repSize req L ≤ L := by
  simp only [repSize]; split <;> omega

theorem repSize_ne_zero (req L : Nat) (h : L ≠ 0) : repSize req L ≠ 0 := by
  simp only [repSize]; split <;> omega

/-- the handle `p_shm_new` returns to the creator -/
def creatorHandle (g : G) (t : Tid) (k : ShmKey) (size : Nat) (ro : Bool) : PShm :=
  { created := true, key := k, addr := (g.os.procs (g.pidOf t)).nextAddr, size := size,
    sem := ⟨true, .lock k, g.os.nextObj, .create, 1⟩, ro := ro }

/-- `p_shm_new` of an unbound name whose lock semaphore does not exist either: 5 system calls -/
theorem call_newShm_fresh (g : G) (t : Tid) (h : Hid) (k : ShmKey) (size : Nat) (ro : Bool)
    (hi : Idle g t) (hh : g.hs h = none) (hk : g.os.shmNames k = none) (hl : g.os.semNames (.lock k) = none) (hs : size ≠ 0) :
    (g.call t (.newShm h k size ro)).os =
      (((g.os.shmCreate k size).afterShmNew (g.pidOf t) g.os.nextSeg size ro).semCreate (.lock k) 1) ∧
    (g.call t (.newShm h k size ro)).hs = (fun h' => if h' = h then some (g.pidOf t, .shm (creatorHandle g t k size ro)) else g.hs h') ∧
    (g.call t (.newShm h k size ro)).calls t = none ∧ (g.call t (.newShm h k size ro)).pidOf = g.pidOf := by
  have c1 := shmCreat1
  have c2 := creat1
  refine ⟨?_, ?_⟩
  · shm_simp [hi.alive, hi.idle, hh, hk, hl, hs, c1, c2, semOpenF, OS.semCreate, OS.afterShmNew, OS.shmCreate, Proc.afterNew, resize_nil, clampSize_self]
    constructor <;> (funext x; split <;> first | rfl | simp_all)
  · shm_simp [hi.alive, hi.idle, hh, hk, hl, hs, c1, c2, semOpenF, creatorHandle, clampSize_self]

/-- … when a stale lock semaphore exists (left by a crash): CREATE mode unlinks and re-creates it: 7 system calls -/
theorem call_newShm_fresh_stale_lock (g : G) (t : Tid) (h : Hid) (k : ShmKey) (size : Nat) (ro : Bool) (ol : ObjId)
    (hi : Idle g t) (hh : g.hs h = none) (hk : g.os.shmNames k = none) (hl : g.os.semNames (.lock k) = some ol) (hs : size ≠ 0) :
    (g.call t (.newShm h k size ro)).os =
      ((((g.os.shmCreate k size).afterShmNew (g.pidOf t) g.os.nextSeg size ro).semRemove (.lock k)).semCreate (.lock k) 1) ∧
    (g.call t (.newShm h k size ro)).hs = (fun h' => if h' = h then some (g.pidOf t, .shm (creatorHandle g t k size ro)) else g.hs h') ∧
    (g.call t (.newShm h k size ro)).calls t = none ∧ (g.call t (.newShm h k size ro)).pidOf = g.pidOf := by
  have c1 := shmCreat1
  have c2 := excl1
  have c3 := creatC
  refine ⟨?_, ?_⟩
  · shm_simp [hi.alive, hi.idle, hh, hk, hl, hs, c1, c2, c3, semOpenF, OS.semCreate, OS.semRemove, OS.afterShmNew, OS.shmCreate, Proc.afterNew, resize_nil, clampSize_self]
    constructor <;> (funext x; split <;> first | rfl | simp_all)
  · shm_simp [hi.alive, hi.idle, hh, hk, hl, hs, c1, c2, c3, semOpenF, creatorHandle, clampSize_self]

/-- the handle `p_shm_new` returns to a follower -/
def followerHandle (g : G) (t : Tid) (k : ShmKey) (req L : Nat) (ro : Bool) (semCreated : Bool) (ol : ObjId) : PShm :=
  { created := false, key := k, addr := (g.os.procs (g.pidOf t)).nextAddr, size := repSize req L,
    sem := ⟨semCreated, .lock k, ol, .open, 1⟩, ro := ro }

/-- `p_shm_new` of a bound name (segment of `L ≠ 0` bytes) whose lock exists: 7 system calls,
    nothing in the name space changes, `repSize req L` bytes are mapped and reported -/
theorem call_newShm_existing (g : G) (t : Tid) (h : Hid) (k : ShmKey) (req : Nat) (ro : Bool) (s : SegId) (ol : ObjId)
    (hi : Idle g t) (hh : g.hs h = none) (hk : g.os.shmNames k = some s) (hl : g.os.semNames (.lock k) = some ol)
    (hL : (g.os.segs s).bytes.length ≠ 0) :
    (g.call t (.newShm h k req ro)).os = g.os.afterShmNew (g.pidOf t) s (repSize req (g.os.segs s).bytes.length) ro ∧
    (g.call t (.newShm h k req ro)).hs = (fun h' => if h' = h then
        some (g.pidOf t, .shm (followerHandle g t k req (g.os.segs s).bytes.length ro false ol)) else g.hs h') ∧
    (g.call t (.newShm h k req ro)).calls t = none ∧ (g.call t (.newShm h k req ro)).pidOf = g.pidOf := by
  have c1 := shmExcl1
  have c2 := shmPlain2
  have c3 := excl1
  have c4 := plainO
  have hr := repSize_ne_zero req _ hL
  refine ⟨?_, ?_⟩
  · shm_simp [hi.alive, hi.idle, hh, hk, hl, hr, c1, c2, c3, c4, semOpenF, OS.afterShmNew, Proc.afterNew, existingSize_eq, clampSize_rep]
    funext x; split <;> first | rfl | simp_all
  · shm_simp [hi.alive, hi.idle, hh, hk, hl, hr, c1, c2, c3, c4, semOpenF, followerHandle, existingSize_eq, clampSize_rep]

/-- … when the lock semaphore is missing (creator killed before creating it): OPEN mode creates it with value 1 -/
theorem call_newShm_existing_no_lock (g : G) (t : Tid) (h : Hid) (k : ShmKey) (req : Nat) (ro : Bool) (s : SegId)
    (hi : Idle g t) (hh : g.hs h = none) (hk : g.os.shmNames k = some s) (hl : g.os.semNames (.lock k) = none)
    (hL : (g.os.segs s).bytes.length ≠ 0) :
    (g.call t (.newShm h k req ro)).os =
      (g.os.afterShmNew (g.pidOf t) s (repSize req (g.os.segs s).bytes.length) ro).semCreate (.lock k) 1 ∧
    (g.call t (.newShm h k req ro)).hs = (fun h' => if h' = h then
        some (g.pidOf t, .shm (followerHandle g t k req (g.os.segs s).bytes.length ro true g.os.nextObj)) else g.hs h') ∧
    (g.call t (.newShm h k req ro)).calls t = none ∧ (g.call t (.newShm h k req ro)).pidOf = g.pidOf := by
  have c1 := shmExcl1
  have c2 := shmPlain2
  have c3 := creat1
  have hr := repSize_ne_zero req _ hL
  refine ⟨?_, ?_⟩
  · shm_simp [hi.alive, hi.idle, hh, hk, hl, hr, c1, c2, c3, semOpenF, OS.afterShmNew, OS.semCreate, Proc.afterNew, existingSize_eq, clampSize_rep]
    funext x; split <;> first | rfl | simp_all
  · shm_simp [hi.alive, hi.idle, hh, hk, hl, hr, c1, c2, c3, semOpenF, followerHandle, existingSize_eq, clampSize_rep]

/-- `p_shm_new` of a bound name whose segment has size 0 (its creator was killed between `shm_open`
    and `ftruncate`): `mmap` of length 0 fails with EINVAL, the call returns NULL and nothing changes
    in the name space — the name cannot be opened, hence not cleaned up, through the API -/
theorem call_newShm_zero_segment (g : G) (t : Tid) (h : Hid) (k : ShmKey) (req : Nat) (ro : Bool) (s : SegId)
    (hi : Idle g t) (hh : g.hs h = none) (hk : g.os.shmNames k = some s) (hL : (g.os.segs s).bytes.length = 0) :
    (g.call t (.newShm h k req ro)).ret t = some (.fail .EINVAL) ∧
    (g.call t (.newShm h k req ro)).hs = g.hs ∧
    (g.call t (.newShm h k req ro)).os.shmNames = g.os.shmNames ∧ (g.call t (.newShm h k req ro)).os.segs = g.os.segs := by
  have c1 := shmExcl1
  have c2 := shmPlain2
  have hr : repSize req 0 = 0 := by simp [repSize]
  shm_simp [hi.alive, hi.idle, hh, hk, hL, hr, c1, c2, existingSize_eq]

theorem call_own_shm (g : G) (t : Tid) (h : Hid) (y : PShm) (hi : Idle g t) (hh : g.hs h = some (g.pidOf t, .shm y)) :
    (g.call t (.own h)).os = g.os ∧
    (g.call t (.own h)).hs = (fun h' => if h' = h then
      some (g.pidOf t, .shm { y with created := true, sem := { y.sem with created := true } }) else g.hs h') ∧
    (g.call t (.own h)).calls t = none ∧ (g.call t (.own h)).pidOf = g.pidOf := by
  shm_simp [hi.alive, hi.idle, hh]

/-- `p_shm_free` of an owner's handle while segment and lock names are bound:
    `munmap (addr, size)`, `shm_unlink`, `sem_close`, `sem_unlink` -/
theorem call_free_shm_owner (g : G) (t : Tid) (h : Hid) (y : PShm) (s : SegId) (ol : ObjId) (hi : Idle g t)
    (hh : g.hs h = some (g.pidOf t, .shm y)) (hc : y.created = true) (hsc : y.sem.created = true)
    (hk : g.os.shmNames y.key = some s) (hl : g.os.semNames y.sem.key = some ol) (hs : y.size ≠ 0) :
    (g.call t (.free h)).os = ((g.os.afterMunmap (g.pidOf t) y.addr y.size).shmRemove y.key).semRemove y.sem.key ∧
    (g.call t (.free h)).hs = (fun h' => if h' = h then none else g.hs h') ∧
    (g.call t (.free h)).calls t = none ∧ (g.call t (.free h)).pidOf = g.pidOf := by
  refine ⟨?_, ?_⟩
  · shm_simp [hi.alive, hi.idle, hh, hc, hsc, hk, hl, hs, OS.afterMunmap, OS.shmRemove, OS.semRemove]
  · shm_simp [hi.alive, hi.idle, hh, hc, hsc, hk, hl, hs]

/-- `p_shm_free` of a plain (non-owner) handle: `munmap (addr, size)`, `sem_close` -/
theorem call_free_shm_plain (g : G) (t : Tid) (h : Hid) (y : PShm) (hi : Idle g t)
    (hh : g.hs h = some (g.pidOf t, .shm y)) (hc : y.created = false) (hsc : y.sem.created = false) (hs : y.size ≠ 0) :
    (g.call t (.free h)).os = g.os.afterMunmap (g.pidOf t) y.addr y.size ∧
    (g.call t (.free h)).hs = (fun h' => if h' = h then none else g.hs h') ∧
    (g.call t (.free h)).calls t = none ∧ (g.call t (.free h)).pidOf = g.pidOf := by
  refine ⟨?_, ?_⟩
  · shm_simp [hi.alive, hi.idle, hh, hc, hsc, hs, OS.afterMunmap]
  · shm_simp [hi.alive, hi.idle, hh, hc, hsc, hs]

/-- `p_shm_lock` = `p_semaphore_acquire` on the handle's lock semaphore -/
theorem call_lock (g : G) (t : Tid) (h : Hid) (y : PShm) (hi : Idle g t)
    (hh : g.hs h = some (g.pidOf t, .shm y)) (hv : (g.os.sems y.sem.obj).value ≠ 0) :
    (g.call t (.lock h)).os = g.os.semSub y.sem.obj ∧ (g.call t (.lock h)).hs = g.hs ∧
    (g.call t (.lock h)).ret t = some .unit ∧ (g.call t (.lock h)).calls t = none := by
  shm_simp [hi.alive, hi.idle, hh, hv, OS.semSub]

theorem call_unlock (g : G) (t : Tid) (h : Hid) (y : PShm) (hi : Idle g t)
    (hh : g.hs h = some (g.pidOf t, .shm y)) :
    (g.call t (.unlock h)).os = g.os.semAdd y.sem.obj 1 ∧ (g.call t (.unlock h)).hs = g.hs ∧
    (g.call t (.unlock h)).ret t = some .unit ∧ (g.call t (.unlock h)).calls t = none := by
  shm_simp [hi.alive, hi.idle, hh, OS.semAdd]

/-! ## memory access -/

theorem call_rd (g : G) (t : Tid) (h : Hid) (y : PShm) (off : Nat) (hi : Idle g t)
    (hh : g.hs h = some (g.pidOf t, .shm y)) :
    (g.call t (.rd h off)).ret t = some (match g.os.load (g.pidOf t) y.addr off with | .val b => .byte b | .fault => .fault) ∧
    (g.call t (.rd h off)).os = g.os ∧ (g.call t (.rd h off)).hs = g.hs := by
  cases hl : g.os.load (g.pidOf t) y.addr off <;>
    shm_simp [hi.alive, hi.idle, hh, hl]

theorem call_wr (g : G) (t : Tid) (h : Hid) (y : PShm) (off : Nat) (b : UInt8) (os' : OS) (hi : Idle g t)
    (hh : g.hs h = some (g.pidOf t, .shm y)) (hst : g.os.store (g.pidOf t) y.addr off b = some os') :
    (g.call t (.wr h off b)).os = os' ∧ (g.call t (.wr h off b)).hs = g.hs ∧
    (g.call t (.wr h off b)).calls t = none ∧ (g.call t (.wr h off b)).pidOf = g.pidOf := by
  shm_simp [hi.alive, hi.idle, hh, hst]

/-- a store through a shared writable mapping, inside mapping and object, updates the object's byte -/
theorem store_eq (os : OS) (p : Pid) (a off : Nat) (b : UInt8) (m : Mapping) (hm : findMap (os.procs p) a = some m)
    (h1 : off < m.len) (h2 : m.writable = true) (h3 : m.off + off < (os.segs m.seg).bytes.length) (h4 : m.shared = true) :
    os.store p a off b = some { os with segs := fun s' => if s' = m.seg then
      { os.segs m.seg with bytes := (os.segs m.seg).bytes.set (m.off + off) b } else os.segs s' } := by
  simp [OS.store, hm, h1, h2, h3, h4]

theorem load_eq (os : OS) (p : Pid) (a off : Nat) (m : Mapping) (hm : findMap (os.procs p) a = some m)
    (h1 : off < m.len) (h3 : m.off + off < (os.segs m.seg).bytes.length) :
    os.load p a off = .val ((os.segs m.seg).bytes[m.off + off]'h3) := by
  simp [OS.load, hm, h1, List.getElem?_eq_getElem h3]

/-- MAP_SHARED contract lifted to mappings: a byte stored through one mapping of an object is the
    byte loaded through any other mapping of the same object at the same offset -/
theorem shared_bytes (os os' : OS) (p1 p2 : Pid) (a1 a2 off : Nat) (b : UInt8) (m1 m2 : Mapping)
    (hm1 : findMap (os.procs p1) a1 = some m1) (hm2 : findMap (os.procs p2) a2 = some m2)
    (hseg : m1.seg = m2.seg) (ho1 : m1.off = 0) (ho2 : m2.off = 0)
    (h1 : off < m1.len) (h2 : off < m2.len) (hw : m1.writable = true) (hsh : m1.shared = true)
    (hL : off < (os.segs m1.seg).bytes.length)
    (hst : os.store p1 a1 off b = some os') : os'.load p2 a2 off = .val b := by
  rw [store_eq os p1 a1 off b m1 hm1 h1 hw (by rw [ho1]; simpa using hL) hsh] at hst
  simp only [Option.some.injEq] at hst
  subst hst
  simp [OS.load, hm2, h2, ← hseg, ho1, ho2, hL]

/-! ## mappings -/

theorem rwWritable : hasFlag shmMmapProtRW PROT_WRITE = true := by decide
theorem mapShared : hasFlag shmMmapFlags MAP_SHARED = true := by decide

theorem findMap_afterNew_head (pr : Proc) (s : SegId) (len : Nat) (ro : Bool) :
    findMap (pr.afterNew s len ro) pr.nextAddr =
      some { addr := pr.nextAddr, seg := s, off := 0, len := len,
             writable := hasFlag (if ro then shmMmapProtRO else shmMmapProtRW) PROT_WRITE,
             shared := hasFlag shmMmapFlags MAP_SHARED } := by
  simp [findMap, Proc.afterNew]

theorem findMap_afterNew_old (pr : Proc) (s : SegId) (len : Nat) (ro : Bool) (a : Nat) (h : a ≠ pr.nextAddr) :
    findMap (pr.afterNew s len ro) a = findMap pr a := by
  have : pr.nextAddr ≠ a := fun e => h e.symm
  simp [findMap, Proc.afterNew, this]

/-- `munmap (addr, len)` of exactly the mapping `p_shm_new` added removes it and nothing else,
    provided no older mapping starts at the same address (addresses are handed out increasingly) -/
theorem munmapF_afterNew (pr : Proc) (s : SegId) (len : Nat) (ro : Bool)
    (hfresh : ∀ m ∈ pr.maps, m.addr ≠ pr.nextAddr) :
    (munmapF (pr.afterNew s len ro) pr.nextAddr len).maps = pr.maps := by
  simp only [munmapF, Proc.afterNew, List.flatMap_cons, if_true, Nat.le_refl, ge_iff_le, List.nil_append]
  have : ∀ (l : List Mapping), (∀ m ∈ l, m.addr ≠ pr.nextAddr) →
      l.flatMap (fun m => if m.addr = pr.nextAddr then
        (if pages m.len ≤ pages len then [] else
          [{ m with addr := m.addr + pages len, off := m.off + pages len * pageSize, len := m.len - pages len * pageSize }])
        else [m]) = l := by
    intro l
    induction l with
    | nil => intro _; rfl
    | cons m l ih =>
      intro h
      have hm := h m (List.mem_cons_self)
      simp only [List.flatMap_cons, hm, if_false, List.singleton_append]
      rw [ih (fun m' hm' => h m' (List.mem_cons_of_mem _ hm'))]
  exact this pr.maps hfresh

/-! ## opening an existing segment: what is known afterwards (lock present or not) -/

structure FollowerOpened (g g' : G) (t : Tid) (h : Hid) (k : ShmKey) (req : Nat) (ro : Bool) (s : SegId) (y : PShm) : Prop where
  shmNames : g'.os.shmNames = g.os.shmNames
  segs : g'.os.segs = g.os.segs
  procs : g'.os.procs = fun q => if q = g.pidOf t then
      (g.os.procs (g.pidOf t)).afterNew s (repSize req (g.os.segs s).bytes.length) ro else g.os.procs q
  lock : g'.os.semNames (.lock k) = some y.sem.obj
  lockKey : y.sem.key = .lock k
  hs : g'.hs = fun h' => if h' = h then some (g.pidOf t, .shm y) else g.hs h'
  idle : g'.calls t = none
  pidOf : g'.pidOf = g.pidOf
  addr : y.addr = (g.os.procs (g.pidOf t)).nextAddr
  size : y.size = repSize req (g.os.segs s).bytes.length
  key : y.key = k
  created : y.created = false

theorem follower_opened (g : G) (t : Tid) (h : Hid) (k : ShmKey) (req : Nat) (ro : Bool) (s : SegId)
    (hi : Idle g t) (hh : g.hs h = none) (hk : g.os.shmNames k = some s) (hL : (g.os.segs s).bytes.length ≠ 0) :
    ∃ y, FollowerOpened g (g.call t (.newShm h k req ro)) t h k req ro s y := by
  cases hl : g.os.semNames (.lock k) with
  | none =>
    have c := call_newShm_existing_no_lock g t h k req ro s hi hh hk hl hL
    exact ⟨followerHandle g t k req (g.os.segs s).bytes.length ro true g.os.nextObj,
      ⟨by rw [c.1]; rfl, by rw [c.1]; rfl, by rw [c.1]; rfl, by rw [c.1]; simp [OS.semCreate, OS.afterShmNew, followerHandle],
       rfl, c.2.1, c.2.2.1, c.2.2.2, rfl, rfl, rfl, rfl⟩⟩
  | some ol =>
    have c := call_newShm_existing g t h k req ro s ol hi hh hk hl hL
    exact ⟨followerHandle g t k req (g.os.segs s).bytes.length ro false ol,
      ⟨by rw [c.1]; rfl, by rw [c.1]; rfl, by rw [c.1]; rfl, by rw [c.1]; simpa [OS.afterShmNew, followerHandle] using hl,
       rfl, c.2.1, c.2.2.1, c.2.2.2, rfl, rfl, rfl, rfl⟩⟩

/-- store through one handle, load through another handle whose mapping is of the same object -/
theorem write_then_read (g : G) (ta tb : Tid) (ha hb : Hid) (ya yb : PShm) (ma mb : Mapping) (off : Nat) (b : UInt8)
    (ia : Idle g ta) (ib : Idle g tb)
    (hha : g.hs ha = some (g.pidOf ta, .shm ya)) (hhb : g.hs hb = some (g.pidOf tb, .shm yb))
    (hma : findMap (g.os.procs (g.pidOf ta)) ya.addr = some ma) (hmb : findMap (g.os.procs (g.pidOf tb)) yb.addr = some mb)
    (hseg : ma.seg = mb.seg) (oa : ma.off = 0) (ob : mb.off = 0) (la : off < ma.len) (lb : off < mb.len)
    (hw : ma.writable = true) (hsh : ma.shared = true) (hL : off < (g.os.segs ma.seg).bytes.length) :
    ((g.call ta (.wr ha off b)).call tb (.rd hb off)).ret tb = some (.byte b) := by
  have hst := store_eq g.os (g.pidOf ta) ya.addr off b ma hma la hw (by rw [oa]; simpa using hL) hsh
  have w := call_wr g ta ha ya off b _ ia hha hst
  generalize hg3 : g.call ta (.wr ha off b) = g3 at w
  have hco := call_calls_other g ta (.wr ha off b) [] tb
  rw [hg3] at hco
  have ib3 : Idle g3 tb := by
    refine ⟨by rw [w.1, w.2.2.2]; exact ib.alive, ?_⟩
    by_cases e : tb = ta
    · subst e; exact w.2.2.1
    · rw [hco e]; exact ib.idle
  have hhb3 : g3.hs hb = some (g3.pidOf tb, .shm yb) := by rw [w.2.1, w.2.2.2]; exact hhb
  have r := call_rd g3 tb hb yb off ib3 hhb3
  rw [r.1]
  have hl : g3.os.load (g3.pidOf tb) yb.addr off = .val b := by
    rw [w.2.2.2]
    exact shared_bytes g.os g3.os (g.pidOf ta) (g.pidOf tb) ya.addr yb.addr off b ma mb hma hmb hseg oa ob la lb hw hsh hL
      (by rw [w.1]; exact hst)
  rw [hl]

/-- a load below the mapped length and inside the object, through the mapping `p_shm_new` has just added -/
theorem load_afterNew (os : OS) (p : Pid) (pr : Proc) (s : SegId) (len : Nat) (ro : Bool) (off : Nat)
    (hp : os.procs p = pr.afterNew s len ro) (h1 : off < len) (h2 : off < (os.segs s).bytes.length) :
    os.load p pr.nextAddr off = .val ((os.segs s).bytes[off]'h2) := by
  have hm := findMap_afterNew_head pr s len ro
  rw [← hp] at hm
  have := load_eq os p pr.nextAddr off _ hm (by simpa using h1) (by simpa using h2)
  simpa using this

/-! ## the binding of a segment name under arbitrary schedules -/

/-- a bound segment name stays bound to the same object under every system call except a `shm_unlink` of it -/
theorem sysStep_shmNames_bound (p : Pid) (i : Bool) (c : Sys) (os : OS) (k : ShmKey) (s : SegId)
    (hk : os.shmNames k = some s) (hc : c ≠ .shmUnlink k) : (sysStep p i c os).1.shmNames k = some s := by
  cases c with
  | shmOpen k' fl m =>
    simp only [sysStep]
    split
    · exact hk
    · unfold shmOpenF
      by_cases e : k' = k
      · subst e; simp only [hk]; split <;> simp [OS.setProc, hk]
      · have : k ≠ k' := fun x => e x.symm
        (repeat' split) <;> simp [OS.setProc, hk, this]
  | shmUnlink k' =>
    have e : k' ≠ k := fun x => hc (by rw [x])
    have : k ≠ k' := fun x => e x.symm
    simp only [sysStep, Sys.interruptible, Bool.and_false]
    (repeat' split) <;> simp [hk, this]
  | semOpen k' fl m v =>
    simp only [sysStep]
    split
    · exact hk
    · unfold semOpenF; (repeat' split) <;> simp [hk]
  | semWait o =>
    simp only [sysStep]
    (repeat' split) <;> simp [hk]
  | _ =>
    simp only [sysStep, Sys.interruptible, Bool.and_false, OS.setProc]
    all_goals ((repeat' split) <;> simp [hk])

/-- no step of the schedule is a `shm_unlink (k)` -/
def NoShmUnlink (k : ShmKey) : G → List Action → Prop
  | _, [] => True
  | g, a :: as =>
    (match a with
     | .step t _ => ∀ c, g.calls t = some c → c.next ≠ .shmUnlink k
     | _ => True) ∧ NoShmUnlink k (exec g a) as

theorem shm_binding_execAll (k : ShmKey) (s : SegId) (as : List Action) :
    ∀ g, g.os.shmNames k = some s → NoShmUnlink k g as → (execAll g as).os.shmNames k = some s := by
  induction as with
  | nil => intro g h _; exact h
  | cons a as ih =>
    intro g h hq
    simp only [execAll, List.foldl_cons]
    refine ih (exec g a) ?_ hq.2
    cases a with
    | start t op => simp only [exec]; rw [start_shmNames]; exact h
    | kill p => exact h
    | fail t e => simp only [exec]; rw [fail_os]; exact h
    | step t i =>
      simp only [exec]
      cases hc : g.calls t with
      | none => rw [step_none g t i hc]; exact h
      | some c =>
        rw [step_os g t i c hc]
        exact sysStep_shmNames_bound _ _ _ _ _ _ h (hq.1 c hc)

/-- `shm_unlink (k)` is issued only by `p_shm_free` of an owner's handle of `k`, or on the failure
    path of a `p_shm_new` that created `k` itself -/
theorem shm_unlink_only_by (c : Call) (k : ShmKey) (h : c.next = .shmUnlink k) :
    (∃ st : ShmFreeSt, c = .shmFree st ∧ st.pc = .unlink ∧ st.h.key = k) ∨
    (∃ hid e, ∃ st : ShmNewSt, c = .shmNew hid st ∧ st.pc = .fUnlink e ∧ st.key = k) := by
  cases c with
  | semNew hid s => obtain ⟨key, mode, init, pc⟩ := s; cases pc <;> simp [Call.next, SemNewSt.next] at h
  | semFree s => obtain ⟨hd, pc⟩ := s; cases pc <;> simp [Call.next, SemFreeSt.next] at h
  | acquire hd => simp [Call.next, acquireNext] at h
  | release hd => simp [Call.next, releaseNext] at h
  | shmNew hid st =>
    right
    obtain ⟨key, req, ro, created, isExists, size, addr, pc⟩ := st
    cases pc with
    | fUnlink e => simp [Call.next, ShmNewSt.next] at h; exact ⟨hid, e, _, rfl, rfl, h⟩
    | sem s => obtain ⟨key', mode, init, pc'⟩ := s; cases pc' <;> simp [Call.next, ShmNewSt.next, SemNewSt.next] at h
    | _ => simp [Call.next, ShmNewSt.next] at h
  | shmFree st =>
    left
    obtain ⟨hd, pc⟩ := st
    cases pc with
    | unlink => simp [Call.next, ShmFreeSt.next] at h; exact ⟨_, rfl, rfl, h⟩
    | sem s => obtain ⟨hd', pc'⟩ := s; cases pc' <;> simp [Call.next, ShmFreeSt.next, SemFreeSt.next] at h
    | munmap => simp [Call.next, ShmFreeSt.next] at h

/-! ## sequential runs with scripted failures (`G.callF`) -/

theorem runCallF_none (g : G) (t : Tid) (fs : List (Nat × Errno)) (i fuel : Nat) (h : g.calls t = none) :
    runCallF g t fs i fuel = g := by
  cases fuel <;> simp [runCallF, h]

theorem runCallF_some (g : G) (t : Tid) (fs : List (Nat × Errno)) (i fuel : Nat) (c : Call) (h : g.calls t = some c) :
    runCallF g t fs i (fuel + 1) =
      (match fs.find? (·.1 = i) with
       | some (_, e) => runCallF (g.fail t e) t fs (i + 1) fuel
       | none =>
         match (g.step t false).log with
         | ⟨_, _, _, .block⟩ :: _ => g.step t false
         | _ => runCallF (g.step t false) t fs (i + 1) fuel) := by
  rw [runCallF]
  simp only [h]
  rfl

macro "fail_simp" " [" ts:Lean.Parser.Tactic.simpLemma,* "]" : tactic =>
  `(tactic| simp [G.callF, G.start, G.handleOf, G.setCall, G.setRet, G.setHandle, runCallF_some, runCallF_none, seqFuelF, G.step, G.fail,
    Call.next, Call.after, SemNewSt.next, SemNewSt.after, SemFreeSt.next, SemFreeSt.after, sysStep, Sys.interruptible,
    SemNewSt.handle, acquireNext, acquireAfter, releaseNext, releaseAfter,
    ShmNewSt.next, ShmNewSt.after, ShmNewSt.cleanFrom, ShmFreeSt.next, ShmFreeSt.after, lockMode,
    shmOpenF, lookupFd, OS.setProc,
    semOpenReopenInitZero, semCreateUnlinks, semCreateMarksCreated, semOpen1Retry,
    shmFtruncateCreatorOnly, shmLockModeByExists, shmLockInit, $ts,*])


end PV.IPC

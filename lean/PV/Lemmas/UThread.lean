import PV.Model.UThread
/-!
Invariants of the thread history machine (`PV.Model.UThread`) and their preservation by every event.
`KInv`: native keys / publication race / TLS cells.  `HInv`: handles, reference counts, threads,
the library key's cells.  `DInv`: what additionally holds along disciplined histories.
-/
namespace PV.UThread
open PV.Generated.UThread

@[simp] theorem upd_same {α : Type} (f : Nat → α) (i : Nat) (x : α) : upd f i x i = x := by simp [upd]
theorem upd_ne {α : Type} (f : Nat → α) {i j : Nat} (x : α) (h : j ≠ i) : upd f i x j = f j := by simp [upd, h]
@[simp] theorem upd2_same (f : Nat → Nat → Nat) (t n : Nat) (v : Nat) : upd2 f t n v t n = v := by simp [upd2]
theorem upd2_ne (f : Nat → Nat → Nat) {t n t' n' : Nat} (v : Nat) (h : ¬ (t' = t ∧ n' = n)) : upd2 f t n v t' n' = f t' n' := by
  simp [upd2, h]

/-! ## inversion lemmas: what an enabled event requires and produces -/

theorem createBegin_ok {s s' : State} {a : Nat} {j n : Bool} (h : createBegin s a j n = .ok s') :
    canAct s a ∧ s.spin = none ∧ s' = { s with
      nH := s.nH + 1, nT := s.nT + 1
      hdl := upd s.hdl s.nH { joinable := j, thread := s.nT }
      thr := upd s.thr s.nT { phase := .created, handle := some s.nH }
      spin := some { by_ := a, h := s.nH, joinable := j, named := n } } := by
  unfold createBegin at h
  split at h
  · cases h
  · split at h
    · cases h
    · rename_i hc _ hs
      injection h with h
      exact ⟨by simpa using hc, hs, h.symm⟩

theorem createEnd_ok {s s' : State} {a : Nat} (h : createEnd s a = .ok s') :
    ∃ c, s.spin = some c ∧ c.by_ = a ∧ s' = { s with
      hdl := upd s.hdl c.h { s.hdl c.h with
        refCount := createInitRefCount, ours := true, joinable := c.joinable, named := c.named,
        written := true, userRefs := 1, threadRef := true }
      spin := none } := by
  unfold createEnd at h
  split at h
  · cases h
  · rename_i c hs
    split at h
    · cases h
    · rename_i hc
      injection h with h
      exact ⟨c, hs, by simpa using hc, h.symm⟩

theorem createFail_ok {s s' : State} {a : Nat} (h : createFail s a = .ok s') :
    canAct s a ∧ s.spin = none ∧ s' = { s with
      nH := s.nH + 1
      hdl := upd s.hdl s.nH { freed := true, written := true }
      freeLog := s.freeLog ++ [s.nH] } := by
  unfold createFail at h
  split at h
  · cases h
  · split at h
    · cases h
    · rename_i hc _ hs
      injection h with h
      exact ⟨by simpa using hc, hs, h.symm⟩

theorem joinFail_ok {s s' : State} {a : Nat} {h : Nat} (hs : joinFail s a h = .ok s') :
    canAct s a ∧ h < s.nH ∧ (s.hdl h).written = true ∧ (s.hdl h).freed = false ∧ (s.hdl h).joinable = true ∧
    s' = { s with joinLog := s.joinLog ++ [(a, h, (s.hdl h).retCode)] } := by
  unfold joinFail at hs
  split at hs
  · cases hs
  · rename_i hg
    simp only [not_or, Decidable.not_not] at hg
    split at hs
    · cases hs
    · rename_i hf
      split at hs
      · cases hs
      · rename_i hj; injection hs with hs
        exact ⟨hg.1, hg.2.1, by simpa using hg.2.2, by simpa using hf, by simpa using hj, hs.symm⟩

theorem tlsFail_ok {s s' : State} {t k : Nat} {g : Bool} (h : tlsFail s t k g = .ok s') :
    canAct s t ∧ k ≠ 0 ∧ k < s.nK ∧ (s.key k).wrapperFreed = false ∧ (s.key k).published = none ∧
    s' = { s with getLog := s.getLog ++ (if g then [(t, k, 0)] else []) } := by
  unfold tlsFail at h
  split at h
  · cases h
  · rename_i hg
    simp only [not_or, Decidable.not_not] at hg
    split at h
    · cases h
    · rename_i hw
      split at h
      · cases h
      · rename_i hp
        injection h with h
        refine ⟨hg.1, hg.2.1, hg.2.2, by simpa using hw, hp, ?_⟩
        cases g <;> simp at h ⊢ <;> exact h.symm

theorem currentFail_ok {s s' : State} {t : Nat} (h : currentFail s t = .ok s') :
    canAct s t ∧ (s.key 0).wrapperFreed = false ∧ s' = { s with
      nH := s.nH + 1
      hdl := upd s.hdl s.nH { freed := true, written := true }
      freeLog := s.freeLog ++ [s.nH] } := by
  unfold currentFail at h
  split at h
  · cases h
  · rename_i hc
    split at h
    · cases h
    · rename_i hw
      split at h
      · cases h
      · injection h with h
        exact ⟨by simpa using hc, by simpa using hw, h.symm⟩

theorem spawn_ok {s s' : State} (h : spawn s = .ok s') :
    s' = { s with nT := s.nT + 1, thr := upd s.thr s.nT { phase := .running } } := by
  unfold spawn at h; injection h with h; exact h.symm

theorem resolve_ok {s : State} {k : Nat} {n : Nat} (h : resolve s k = .ok n) :
    (s.key k).wrapperFreed = false ∧ (s.key k).published = some n := by
  unfold resolve at h
  split at h
  · cases h
  · rename_i hw
    split at h
    · rename_i m hp; injection h with h; subst h; exact ⟨by simpa using hw, hp⟩
    · cases h

theorem start_ok {s s' : State} {t : Nat} (h : start s t = .ok s') :
    ∃ hd n, (s.thr t).phase = .created ∧ (s.thr t).pend = none ∧ (s.thr t).handle = some hd ∧
      (s.key 0).wrapperFreed = false ∧ (s.key 0).published = some n ∧ s.spin = none ∧ (s.hdl hd).freed = false ∧
      s' = { s with tls := upd2 s.tls t n (hd + 1), thr := upd s.thr t { s.thr t with phase := .running } } := by
  unfold start at h
  split at h
  · cases h
  · rename_i hg
    split at h
    · cases h
    · rename_i hd hh
      split at h
      · cases h
      · rename_i n hr
        split at h
        · cases h
        · rename_i hs
          split at h
          · cases h
          · rename_i hf
            injection h with h
            have hg' := not_or.mp hg
            obtain ⟨r1, r2⟩ := resolve_ok hr
            exact ⟨hd, n, by simpa using hg'.1, by simpa using hg'.2, hh, r1, r2, hs, by simpa using hf, h.symm⟩

theorem current_ok {s s' : State} {t : Nat} (h : current s t = .ok s') :
    ∃ n, canAct s t ∧ (s.key 0).wrapperFreed = false ∧ (s.key 0).published = some n ∧
      s' = { (currentCore s t n).1 with curLog := (currentCore s t n).1.curLog ++ [(t, (currentCore s t n).2)] } := by
  unfold current at h
  split at h
  · cases h
  · rename_i hc
    split at h
    · cases h
    · rename_i n hr
      injection h with h
      obtain ⟨r1, r2⟩ := resolve_ok hr
      exact ⟨n, by simpa using hc, r1, r2, h.symm⟩

theorem exit_ok {s s' : State} {t : Nat} {code : Int} (h : exit s t code = .ok s') :
    ∃ n, canAct s t ∧ (s.key 0).wrapperFreed = false ∧ (s.key 0).published = some n ∧
      ((currentCore s t n).1.hdl (currentCore s t n).2).freed = false ∧
      ((((currentCore s t n).1.hdl (currentCore s t n).2).ours = false ∧ s' = (currentCore s t n).1) ∨
       (((currentCore s t n).1.hdl (currentCore s t n).2).ours = true ∧ s' = { (currentCore s t n).1 with
          hdl := upd (currentCore s t n).1.hdl (currentCore s t n).2 { (currentCore s t n).1.hdl (currentCore s t n).2 with retCode := code }
          thr := upd (currentCore s t n).1.thr t { (currentCore s t n).1.thr t with phase := .finished, exitArg := some code } })) := by
  unfold exit at h
  split at h
  · cases h
  · rename_i hc
    split at h
    · cases h
    · rename_i n hr
      obtain ⟨r1, r2⟩ := resolve_ok hr
      simp only at h
      split at h
      · cases h
      · rename_i hf
        split at h
        · rename_i ho
          injection h with h
          exact ⟨n, by simpa using hc, r1, r2, by simpa using hf, .inl ⟨ho, h.symm⟩⟩
        · rename_i ho
          injection h with h
          exact ⟨n, by simpa using hc, r1, r2, by simpa using hf, .inr ⟨by simpa using ho, h.symm⟩⟩

theorem ret_ok {s s' : State} {t : Nat} (h : ret s t = .ok s') :
    canAct s t ∧ t ≠ 0 ∧ s' = { s with thr := upd s.thr t { s.thr t with phase := .finished } } := by
  unfold ret at h
  split at h
  · cases h
  · rename_i hc
    injection h with h
    have := not_or.mp hc
    exact ⟨by simpa using this.1, (not_or.mp this.2).1, h.symm⟩

theorem ret_proxy {s s' : State} {t : Nat} (h : ret s t = .ok s') : (s.thr t).proxy = none := by
  unfold ret at h
  split at h
  · cases h
  · rename_i hc
    have := (not_or.mp (not_or.mp hc).2).2
    simpa using this

theorem startUnstored_ok {s s' : State} {t : Nat} (h : startUnstored s t = .ok s') :
    ∃ hd, (s.thr t).phase = .created ∧ (s.thr t).pend = none ∧ (s.thr t).handle = some hd ∧ s.spin = none ∧
      valueOf s t 0 = 0 ∧ (s.hdl hd).freed = false ∧
      s' = { s with hdl := upd s.hdl hd { s.hdl hd with orphan := true }
                    thr := upd s.thr t { s.thr t with phase := .running, handle := none, proxy := some hd } } := by
  unfold startUnstored at h
  split at h
  · cases h
  · rename_i hg
    split at h
    · cases h
    · rename_i hd hh
      split at h
      · cases h
      · rename_i hs
        split at h
        · cases h
        · rename_i hv
          split at h
          · cases h
          · rename_i hf
            injection h with h
            have hg' := not_or.mp hg
            exact ⟨hd, by simpa using hg'.1, by simpa using hg'.2, hh, hs, by simpa using hv, by simpa using hf, h.symm⟩

theorem retUnstored_ok {s s' : State} {t h : Nat} (hs : retUnstored s t h = .ok s') :
    canAct s t ∧ (s.thr t).proxy = some h ∧ ∃ s1, unrefCore s h true = .ok s1 ∧
      s' = { s1 with thr := upd s1.thr t { s1.thr t with phase := .finished } } := by
  unfold retUnstored at hs
  split at hs
  · cases hs
  · rename_i hg
    have hg' := not_or.mp hg
    split at hs
    · cases hs
    · rename_i s1 hu
      injection hs with hs
      exact ⟨by simpa using hg'.1, by simpa using hg'.2, s1, hu, hs.symm⟩

/-- the handle record after the decrement of `p_uthread_unref` -/
def decd (x : Handle) (own : Bool) : Handle :=
  { x with
    refCount := x.refCount - unrefDecrement
    userRefs := if own then x.userRefs else x.userRefs - 1
    threadRef := if own then false else x.threadRef }

theorem unrefCore_ok {s s' : State} {h : Nat} {own : Bool} (hs : unrefCore s h own = .ok s') :
    (s.hdl h).freed = false ∧
    (((s.hdl h).refCount = unrefFreesWhenOldIs ∧
        s' = { s with hdl := upd s.hdl h { decd (s.hdl h) own with freed := true }, freeLog := s.freeLog ++ [h] }) ∨
     ((s.hdl h).refCount ≠ unrefFreesWhenOldIs ∧ s' = { s with hdl := upd s.hdl h (decd (s.hdl h) own) })) := by
  unfold unrefCore at hs
  split at hs
  · cases hs
  · rename_i hf
    simp only at hs
    split at hs
    · rename_i hc; injection hs with hs; exact ⟨by simpa using hf, .inl ⟨hc, hs.symm⟩⟩
    · rename_i hc; injection hs with hs; exact ⟨by simpa using hf, .inr ⟨hc, hs.symm⟩⟩

theorem ref_ok {s s' : State} {a : Nat} {h : Nat} (hs : ref s a h = .ok s') :
    canAct s a ∧ h < s.nH ∧ (s.hdl h).written = true ∧ (s.hdl h).freed = false ∧
    s' = { s with hdl := upd s.hdl h { s.hdl h with
          refCount := (s.hdl h).refCount + refIncrement, userRefs := (s.hdl h).userRefs + 1 } } := by
  unfold ref at hs
  split at hs
  · cases hs
  · rename_i hg
    split at hs
    · cases hs
    · rename_i hf
      injection hs with hs
      simp only [not_or, Decidable.not_not] at hg
      exact ⟨hg.1, hg.2.1, by simpa using hg.2.2, by simpa using hf, hs.symm⟩

theorem unref_ok {s s' : State} {a : Nat} {h : Nat} (hs : unref s a h = .ok s') :
    canAct s a ∧ h < s.nH ∧ (s.hdl h).written = true ∧ unrefCore s h false = .ok s' := by
  unfold unref at hs
  split at hs
  · cases hs
  · rename_i hg
    simp only [not_or, Decidable.not_not] at hg
    exact ⟨hg.1, hg.2.1, by simpa using hg.2.2, hs⟩

theorem join_ok {s s' : State} {a : Nat} {h : Nat} (hs : join s a h = .ok s') :
    canAct s a ∧ h < s.nH ∧ (s.hdl h).written = true ∧ (s.hdl h).freed = false ∧
    (((s.hdl h).joinable = false ∧ s' = { s with joinLog := s.joinLog ++ [(a, h, -1)] }) ∨
     ((s.hdl h).joinable = true ∧ (s.thr (s.hdl h).thread).phase = .ended ∧ (s.hdl h).joined = false ∧
       s' = { s with hdl := upd s.hdl h { s.hdl h with joined := true }
                     joinLog := s.joinLog ++ [(a, h, (s.hdl h).retCode)] })) := by
  unfold join at hs
  split at hs
  · cases hs
  · rename_i hg
    simp only [not_or, Decidable.not_not] at hg
    split at hs
    · cases hs
    · rename_i hf
      split at hs
      · rename_i hj; injection hs with hs
        exact ⟨hg.1, hg.2.1, by simpa using hg.2.2, by simpa using hf, .inl ⟨hj, hs.symm⟩⟩
      · rename_i hj
        split at hs
        · cases hs
        · rename_i hp
          split at hs
          · cases hs
          · rename_i hjd
            injection hs with hs
            exact ⟨hg.1, hg.2.1, by simpa using hg.2.2, by simpa using hf,
              .inr ⟨by simpa using hj, by simpa using hp, by simpa using hjd, hs.symm⟩⟩

/-- does the destructor of native key `n` run for thread `t` at its end -/
def dtorDue (s : State) (t : Nat) (n : Nat) : Prop :=
  (s.nkey n).live = true ∧ (s.nkey n).dtor = true ∧ s.tls t n ≠ 0
instance (s : State) (t : Nat) (n : Nat) : Decidable (dtorDue s t n) := by unfold dtorDue; exact inferInstance

/-- the state after the native layer cleared the cell and logged the call -/
def cleared (s : State) (t : Nat) (n : Nat) : State :=
  { s with tls := upd2 s.tls t n 0, dtorLog := s.dtorLog ++ [(t, (s.nkey n).owner, s.tls t n)] }

theorem dtorOne_ok {s s' : State} {t : Nat} {n : Nat} (h : dtorOne t s n = .ok s') :
    (¬ dtorDue s t n ∧ s' = s) ∨
    (dtorDue s t n ∧ (s.nkey n).owner ≠ 0 ∧ s' = cleared s t n) ∨
    (dtorDue s t n ∧ (s.nkey n).owner = 0 ∧ unrefCore (cleared s t n) (s.tls t n - 1) true = .ok s') := by
  unfold dtorOne at h
  split at h
  · rename_i hd
    simp only at h
    split at h
    · rename_i ho; exact .inr (.inr ⟨hd, ho, h⟩)
    · rename_i ho; injection h with h; exact .inr (.inl ⟨hd, ho, h.symm⟩)
  · rename_i hd; injection h with h; exact .inl ⟨hd, h.symm⟩

theorem threadEnd_ok {s s' : State} {t : Nat} (h : threadEnd s t = .ok s') :
    (s.thr t).phase = .finished ∧ ∃ s1, runDtors t s (List.range s.nN) = .ok s1 ∧
      s' = { s1 with thr := upd s1.thr t { s1.thr t with phase := .ended } } := by
  unfold threadEnd at h
  split at h
  · cases h
  · rename_i hp
    split at h
    · cases h
    · rename_i s1 hr
      injection h with h
      exact ⟨by simpa using hp, s1, hr, h.symm⟩

theorem runDtors_cons_ok {s s' : State} {t : Nat} {n : Nat} {r : List Nat} (h : runDtors t s (n :: r) = .ok s') :
    ∃ s1, dtorOne t s n = .ok s1 ∧ runDtors t s1 r = .ok s' := by
  unfold runDtors at h
  split at h
  · cases h
  · rename_i s1 h1; exact ⟨s1, h1, h⟩

theorem localNew_ok {s s' : State} {a : Nat} {nf : Bool} (h : localNew s a nf = .ok s') :
    canAct s a ∧ s' = { s with nK := s.nK + 1, key := upd s.key s.nK { notifier := nf } } := by
  unfold localNew at h
  split at h
  · cases h
  · rename_i hc; injection h with h; exact ⟨by simpa using hc, h.symm⟩

/-- the native-key record after `p_uthread_local_free` -/
def relN (x : NKey) : NKey :=
  { x with live := x.live && !localFreeDeletesKey, blockFreed := x.blockFreed || localFreeFreesBlock }

theorem localFree_ok {s s' : State} {a : Nat} {k : Nat} (h : localFree s a k = .ok s') :
    canAct s a ∧ k ≠ 0 ∧ k < s.nK ∧ (s.key k).wrapperFreed = false ∧
    (((s.key k).published = none ∧ s' = { s with key := upd s.key k { s.key k with wrapperFreed := true } }) ∨
     (∃ n, (s.key k).published = some n ∧ s' = { s with
        nkey := upd s.nkey n (relN (s.nkey n))
        keyDelLog := s.keyDelLog ++ (if localFreeDeletesKey then [n] else [])
        blockFreeLog := s.blockFreeLog ++ (if localFreeFreesBlock then [n] else [])
        key := upd s.key k { s.key k with wrapperFreed := true } })) := by
  unfold localFree at h
  split at h
  · cases h
  · rename_i hg
    simp only [not_or, Decidable.not_not] at hg
    split at h
    · cases h
    · rename_i hw
      split at h
      · rename_i hp; injection h with h; exact ⟨hg.1, hg.2.1, hg.2.2, by simpa using hw, .inl ⟨hp, h.symm⟩⟩
      · rename_i n hp; injection h with h; exact ⟨hg.1, hg.2.1, hg.2.2, by simpa using hw, .inr ⟨n, hp, h.symm⟩⟩

theorem keyCreate_ok {s s' : State} {t : Nat} {k : Nat} (h : keyCreate s t k = .ok s') :
    ((s.thr t).phase = .running ∨ ((s.thr t).phase = .created ∧ k = 0)) ∧ (s.thr t).pend = none ∧ k < s.nK ∧
    (s.key k).wrapperFreed = false ∧ (s.key k).published = none ∧
    s' = { s with
      nN := s.nN + 1
      nkey := upd s.nkey s.nN { owner := k, dtor := (s.key k).notifier, live := true }
      thr := upd s.thr t { s.thr t with pend := some (k, s.nN) } } := by
  unfold keyCreate at h
  split at h
  · cases h
  · rename_i hg
    simp only [Decidable.not_not] at hg
    split at h
    · cases h
    · rename_i hw
      split at h
      · cases h
      · rename_i hp; injection h with h
        exact ⟨hg.1, hg.2.1, hg.2.2, by simpa using hw, hp, h.symm⟩

theorem keyCas_ok {s s' : State} {t : Nat} {k : Nat} (h : keyCas s t k = .ok s') :
    ∃ n, (s.thr t).pend = some (k, n) ∧ (s.key k).wrapperFreed = false ∧
    (((s.key k).published = none ∧ s' = { s with
        key := upd s.key k { s.key k with published := some n }
        thr := upd s.thr t { s.thr t with pend := none } }) ∨
     ((∃ m, (s.key k).published = some m) ∧ s' = { s with
        nkey := upd s.nkey n { s.nkey n with live := !casLoserDeletesKey, blockFreed := casLoserFreesBlock }
        keyDelLog := s.keyDelLog ++ (if casLoserDeletesKey then [n] else [])
        blockFreeLog := s.blockFreeLog ++ (if casLoserFreesBlock then [n] else [])
        key := upd s.key k { s.key k with losers := (s.key k).losers ++ [n] }
        thr := upd s.thr t { s.thr t with pend := none } })) := by
  unfold keyCas at h
  split at h
  · cases h
  · rename_i k' n hp
    split at h
    · cases h
    · rename_i hk
      simp only [Decidable.not_not] at hk
      subst hk
      split at h
      · cases h
      · rename_i hw
        split at h
        · rename_i hpub; injection h with h; exact ⟨n, hp, by simpa using hw, .inl ⟨hpub, h.symm⟩⟩
        · rename_i m hpub; injection h with h; exact ⟨n, hp, by simpa using hw, .inr ⟨⟨m, hpub⟩, h.symm⟩⟩

theorem setLocal_ok {s s' : State} {t : Nat} {k : Nat} {v : Nat} (h : setLocal s t k v = .ok s') :
    ∃ n, canAct s t ∧ k ≠ 0 ∧ k < s.nK ∧ (s.key k).wrapperFreed = false ∧ (s.key k).published = some n ∧
    s' = { s with dtorLog := s.dtorLog ++ notifyOld s t k n setCallsNotifier, tls := upd2 s.tls t n v } := by
  unfold setLocal at h
  split at h
  · cases h
  · rename_i hg
    simp only [not_or, Decidable.not_not] at hg
    split at h
    · cases h
    · rename_i n hr; injection h with h
      obtain ⟨r1, r2⟩ := resolve_ok hr
      exact ⟨n, hg.1, hg.2.1, hg.2.2, r1, r2, h.symm⟩

theorem storeFail_ok {s s' : State} {t : Nat} {k : Nat} {r : Bool} (h : storeFail s t k r = .ok s') :
    ∃ n, canAct s t ∧ k ≠ 0 ∧ k < s.nK ∧ (s.key k).wrapperFreed = false ∧ (s.key k).published = some n ∧
    s' = { s with dtorLog := s.dtorLog ++ notifyOld s t k n (if r then replaceCallsNotifier else setCallsNotifier) } := by
  unfold storeFail at h
  split at h
  · cases h
  · rename_i hg
    simp only [not_or, Decidable.not_not] at hg
    split at h
    · cases h
    · rename_i n hr; injection h with h
      obtain ⟨r1, r2⟩ := resolve_ok hr
      exact ⟨n, hg.1, hg.2.1, hg.2.2, r1, r2, h.symm⟩

theorem replaceLocal_ok {s s' : State} {t : Nat} {k : Nat} {v : Nat} (h : replaceLocal s t k v = .ok s') :
    ∃ n, canAct s t ∧ k ≠ 0 ∧ k < s.nK ∧ (s.key k).wrapperFreed = false ∧ (s.key k).published = some n ∧
    s' = { s with dtorLog := s.dtorLog ++ notifyOld s t k n replaceCallsNotifier, tls := upd2 s.tls t n v } := by
  unfold replaceLocal at h
  split at h
  · cases h
  · rename_i hg
    simp only [not_or, Decidable.not_not] at hg
    split at h
    · cases h
    · rename_i n hr; injection h with h
      obtain ⟨r1, r2⟩ := resolve_ok hr
      exact ⟨n, hg.1, hg.2.1, hg.2.2, r1, r2, h.symm⟩

theorem getLocal_ok {s s' : State} {t : Nat} {k : Nat} (h : getLocal s t k = .ok s') :
    ∃ n, canAct s t ∧ k ≠ 0 ∧ k < s.nK ∧ (s.key k).wrapperFreed = false ∧ (s.key k).published = some n ∧
    s' = { s with getLog := s.getLog ++ [(t, k, s.tls t n)] } := by
  unfold getLocal at h
  split at h
  · cases h
  · rename_i hg
    simp only [not_or, Decidable.not_not] at hg
    split at h
    · cases h
    · rename_i n hr; injection h with h
      obtain ⟨r1, r2⟩ := resolve_ok hr
      exact ⟨n, hg.1, hg.2.1, hg.2.2, r1, r2, h.symm⟩

/-! ## `KInv`: native keys, the publication race, TLS cells -/

structure KInv (s : State) : Prop where
  kB : ∀ k, s.nK ≤ k → s.key k = {}
  nB : ∀ n, s.nN ≤ n → s.nkey n = {} ∧ ∀ t, s.tls t n = 0
  tP : ∀ t, s.nT ≤ t → s.thr t = {}
  kP : ∀ k n, (s.key k).published = some n →
        n < s.nN ∧ (s.nkey n).owner = k ∧
        ((s.key k).wrapperFreed = false → (s.nkey n).live = true ∧ (s.nkey n).blockFreed = false)
  kV : ∀ t n, s.tls t n ≠ 0 → (s.key (s.nkey n).owner).published = some n
  kD : ∀ n, n < s.nN → (s.nkey n).dtor = (s.key (s.nkey n).owner).notifier
  kO : ∀ n, n < s.nN → (s.nkey n).owner < s.nK
  kE : ∀ t k n, (s.thr t).pend = some (k, n) →
        n < s.nN ∧ (s.nkey n).owner = k ∧ (s.nkey n).live = true ∧ (s.nkey n).blockFreed = false ∧
        (s.key k).published ≠ some n ∧ n ∉ (s.key k).losers
  kI : ∀ t t' k k' n, (s.thr t).pend = some (k, n) → (s.thr t').pend = some (k', n) → t = t'
  kL : ∀ k n, n ∈ (s.key k).losers →
        n < s.nN ∧ (s.nkey n).owner = k ∧ (s.nkey n).live = false ∧ (s.nkey n).blockFreed = true ∧
        (s.key k).published ≠ some n
  kC : ∀ n, n < s.nN → (s.key (s.nkey n).owner).published = some n ∨ n ∈ (s.key (s.nkey n).owner).losers ∨
        ∃ t, (s.thr t).pend = some ((s.nkey n).owner, n)
  kN : ∀ k, (s.key k).losers.Nodup
  /-- a loser exists only where somebody won -/
  kW : ∀ k n, n ∈ (s.key k).losers → ∃ w, (s.key k).published = some w
  /-- `p_uthread_local_free` took the native key with it -/
  kF : ∀ k n, (s.key k).wrapperFreed = true → (s.key k).published = some n →
        (s.nkey n).live = false ∧ (s.nkey n).blockFreed = true

theorem KInv.init : KInv init := by
  refine ⟨?_, ?_, ?_, ?_, ?_, ?_, ?_, ?_, ?_, ?_, ?_, ?_, ?_, ?_⟩
  · intro k hk; have : k ≠ 0 := by simp [PV.UThread.init] at hk; omega
    simp [PV.UThread.init, this]
  · intro n _; simp [PV.UThread.init]
  · intro t ht; have : t ≠ 0 := by simp [PV.UThread.init] at ht; omega
    simp [PV.UThread.init, this]
  · intro k n hp; simp [PV.UThread.init] at hp; split at hp <;> cases hp
  · intro t n hv; simp [PV.UThread.init] at hv
  · intro n hn; simp [PV.UThread.init] at hn
  · intro n hn; simp [PV.UThread.init] at hn
  · intro t k n hp; simp [PV.UThread.init] at hp; split at hp <;> cases hp
  · intro t t' k k' n hp; simp [PV.UThread.init] at hp; split at hp <;> cases hp
  · intro k n hl; simp [PV.UThread.init] at hl; split at hl <;> simp at hl
  · intro n hn; simp [PV.UThread.init] at hn
  · intro k; simp [PV.UThread.init]; split <;> simp
  · intro k n hl; simp [PV.UThread.init] at hl; split at hl <;> simp at hl
  · intro k n hw; simp [PV.UThread.init] at hw; split at hw <;> simp at hw

/-- events that leave keys and native keys alone, keep `pend`, and store only NULL or under a published key -/
theorem KInv.frame {s s' : State} (h : KInv s) (e1 : s'.key = s.key) (e2 : s'.nkey = s.nkey)
    (e4 : s'.nN = s.nN) (e5 : s'.nK = s.nK) (e7 : ∀ t, s'.nT ≤ t → s'.thr t = {})
    (e6 : ∀ t, (s'.thr t).pend = (s.thr t).pend)
    (e3 : ∀ t n, s'.tls t n ≠ 0 → s.tls t n ≠ 0 ∨ (s.key (s.nkey n).owner).published = some n) : KInv s' := by
  refine ⟨?_, ?_, ?_, ?_, ?_, ?_, ?_, ?_, ?_, ?_, ?_, ?_, ?_, ?_⟩
  · intro k hk; rw [e1]; exact h.kB k (e5 ▸ hk)
  · intro n hn
    rw [e2]
    refine ⟨(h.nB n (e4 ▸ hn)).1, fun t => ?_⟩
    apply Classical.byContradiction
    intro hne
    rcases e3 t n hne with h1 | h1
    · exact h1 ((h.nB n (e4 ▸ hn)).2 t)
    · have h2 : n < s.nN := (h.kP _ _ h1).1
      rw [e4] at hn; omega
  · exact e7
  · intro k n hp; rw [e1] at hp; rw [e1, e2, e4]; exact h.kP k n hp
  · intro t n hv
    rw [e1, e2]
    rcases e3 t n hv with h1 | h1
    · exact h.kV t n h1
    · exact h1
  · intro n hn; rw [e1, e2]; exact h.kD n (e4 ▸ hn)
  · intro n hn; rw [e2, e5]; exact h.kO n (e4 ▸ hn)
  · intro t k n hp; rw [e6] at hp; rw [e1, e2, e4]; exact h.kE t k n hp
  · intro t t' k k' n h1 h2; rw [e6] at h1 h2; exact h.kI t t' k k' n h1 h2
  · intro k n hl; rw [e1] at hl; rw [e1, e2, e4]; exact h.kL k n hl
  · intro n hn
    rw [e1, e2]
    rcases h.kC n (e4 ▸ hn) with h1 | h1 | ⟨t, h1⟩
    · exact .inl h1
    · exact .inr (.inl h1)
    · exact .inr (.inr ⟨t, by rw [e6]; exact h1⟩)
  · intro k; rw [e1]; exact h.kN k
  · intro k n hl; rw [e1] at hl ⊢; exact h.kW k n hl
  · intro k n hw hp; rw [e1] at hw hp; rw [e2]; exact h.kF k n hw hp

theorem KInv.val_lt {s : State} (h : KInv s) {t n : Nat} (hv : s.tls t n ≠ 0) : n < s.nN := by
  apply Classical.byContradiction; intro hn; exact hv ((h.nB n (by omega)).2 t)

theorem KInv.localNew {s s' : State} {a : Nat} {nf : Bool} (h : KInv s) (hs : localNew s a nf = .ok s') : KInv s' := by
  obtain ⟨_, rfl⟩ := localNew_ok hs
  have own : ∀ n, n < s.nN → (s.nkey n).owner ≠ s.nK := fun n hn => Nat.ne_of_lt (h.kO n hn)
  have lt_of_val : ∀ t n, s.tls t n ≠ 0 → n < s.nN := fun t n hv => by
    apply Classical.byContradiction; intro hn; exact hv ((h.nB n (by omega)).2 t)
  refine ⟨?_, ?_, ?_, ?_, ?_, ?_, ?_, ?_, ?_, ?_, ?_, ?_, ?_, ?_⟩
  · intro k hk; simp only at hk ⊢; rw [upd_ne _ _ (by omega)]; exact h.kB k (by omega)
  · exact h.nB
  · exact h.tP
  · intro k n hp
    simp only at hp ⊢
    by_cases hk : k = s.nK
    · subst hk; simp at hp
    · rw [upd_ne _ _ hk] at hp ⊢; exact h.kP k n hp
  · intro t n hv
    simp only at hv ⊢
    rw [upd_ne _ _ (own n (lt_of_val t n hv))]; exact h.kV t n hv
  · intro n hn; simp only at hn ⊢; rw [upd_ne _ _ (own n hn)]; exact h.kD n hn
  · intro n hn; simp only at hn ⊢; have := h.kO n hn; omega
  · intro t k n hp
    simp only at hp ⊢
    have := h.kE t k n hp
    have hk : k ≠ s.nK := by rw [← this.2.1]; exact own n this.1
    rw [upd_ne _ _ hk]; exact this
  · exact h.kI
  · intro k n hl
    simp only at hl ⊢
    by_cases hk : k = s.nK
    · subst hk; simp at hl
    · rw [upd_ne _ _ hk] at hl ⊢; exact h.kL k n hl
  · intro n hn
    simp only at hn ⊢
    rw [upd_ne _ _ (own n hn)]; exact h.kC n hn
  · intro k
    simp only
    by_cases hk : k = s.nK
    · subst hk; simp
    · rw [upd_ne _ _ hk]; exact h.kN k
  · intro k n hl
    simp only at hl ⊢
    by_cases hk : k = s.nK
    · subst hk; simp at hl
    · rw [upd_ne _ _ hk] at hl ⊢; exact h.kW k n hl
  · intro k n hw hp
    simp only at hw hp ⊢
    by_cases hk : k = s.nK
    · subst hk; simp at hp
    · rw [upd_ne _ _ hk] at hw hp; exact h.kF k n hw hp

theorem KInv.localFree {s s' : State} {a k : Nat} (h : KInv s) (hs : localFree s a k = .ok s') : KInv s' := by
  obtain ⟨_, _, hklt, hwf, hcase⟩ := localFree_ok hs
  -- only `wrapperFreed` of key `k` changes in the wrappers
  have e : ∀ j, (upd s.key k { s.key k with wrapperFreed := true } j).published = (s.key j).published ∧
      (upd s.key k { s.key k with wrapperFreed := true } j).losers = (s.key j).losers ∧
      (upd s.key k { s.key k with wrapperFreed := true } j).notifier = (s.key j).notifier := by
    intro j; by_cases hj : j = k
    · subst hj; simp
    · simp [upd_ne _ _ hj]
  rcases hcase with ⟨hpub, rfl⟩ | ⟨n, hpub, rfl⟩
  · refine ⟨?_, h.nB, h.tP, ?_, ?_, ?_, h.kO, ?_, h.kI, ?_, ?_, ?_, ?_, ?_⟩
    · intro j hj; simp only at hj ⊢; rw [upd_ne _ _ (by omega)]; exact h.kB j hj
    · intro j m hp; simp only at hp ⊢; rw [(e j).1] at hp
      have := h.kP j m hp
      refine ⟨this.1, this.2.1, ?_⟩
      by_cases hj : j = k
      · subst hj; rw [hpub] at hp; cases hp
      · rw [upd_ne _ _ hj]; exact this.2.2
    · intro t m hv; simp only at hv ⊢; rw [(e _).1]; exact h.kV t m hv
    · intro m hm; simp only at hm ⊢; rw [(e _).2.2]; exact h.kD m hm
    · intro t j m hp; simp only at hp ⊢; rw [(e j).1, (e j).2.1]; exact h.kE t j m hp
    · intro j m hl; simp only at hl ⊢; rw [(e j).2.1] at hl; rw [(e j).1]; exact h.kL j m hl
    · intro m hm; simp only at hm ⊢; rw [(e _).1, (e _).2.1]; exact h.kC m hm
    · intro j; simp only; rw [(e j).2.1]; exact h.kN j
    · intro j m hl; simp only at hl ⊢; rw [(e j).2.1] at hl; rw [(e j).1]; exact h.kW j m hl
    · intro j m hw hp; simp only at hw hp ⊢; rw [(e j).1] at hp
      by_cases hj : j = k
      · subst hj; rw [hpub] at hp; cases hp
      · rw [upd_ne _ _ hj] at hw; exact h.kF j m hw hp
  · have hP := h.kP k n hpub
    have hlive := hP.2.2 hwf
    -- the native record of `n` keeps owner and destructor
    have nkE : ∀ m, (upd s.nkey n (relN (s.nkey n)) m).owner = (s.nkey m).owner ∧
        (upd s.nkey n (relN (s.nkey n)) m).dtor = (s.nkey m).dtor := by
      intro m; by_cases hm : m = n
      · subst hm; simp [relN]
      · simp [upd_ne _ _ hm]
    -- `n` is published by `k` only, is nobody's pending key and nobody's loser
    have pub_ne : ∀ j m, j ≠ k → (s.key j).published = some m → m ≠ n := by
      intro j m hj hp e'; subst e'
      exact hj ((h.kP j m hp).2.1.symm.trans hP.2.1)
    have pend_ne : ∀ t j m, (s.thr t).pend = some (j, m) → m ≠ n := by
      intro t j m hp e'; subst e'
      have := h.kE t j m hp
      rw [hP.2.1] at this; exact this.2.2.2.2.1 (this.2.1 ▸ hpub)
    have loser_ne : ∀ j m, m ∈ (s.key j).losers → m ≠ n := by
      intro j m hl e'; subst e'
      have := h.kL j m hl
      rw [hP.2.1] at this; exact this.2.2.2.2 (this.2.1 ▸ hpub)
    refine ⟨?_, ?_, h.tP, ?_, ?_, ?_, ?_, ?_, h.kI, ?_, ?_, ?_, ?_, ?_⟩
    · intro j hj; simp only at hj ⊢; rw [upd_ne _ _ (by omega)]; exact h.kB j hj
    · intro m hm; simp only at hm ⊢; rw [upd_ne _ _ (by omega)]; exact h.nB m hm
    · intro j m hp; simp only at hp ⊢; rw [(e j).1] at hp
      have := h.kP j m hp
      rw [(nkE m).1]
      refine ⟨this.1, this.2.1, ?_⟩
      by_cases hj : j = k
      · subst hj; simp
      · rw [upd_ne _ _ hj, upd_ne _ _ (pub_ne j m hj hp)]; exact this.2.2
    · intro t m hv; simp only at hv ⊢; rw [(nkE m).1, (e _).1]; exact h.kV t m hv
    · intro m hm; simp only at hm ⊢; rw [(nkE m).1, (nkE m).2, (e _).2.2]; exact h.kD m hm
    · intro m hm; simp only at hm ⊢; rw [(nkE m).1]; exact h.kO m hm
    · intro t j m hp; simp only at hp ⊢
      have := h.kE t j m hp
      rw [upd_ne _ _ (pend_ne t j m hp), (e j).1, (e j).2.1]; exact this
    · intro j m hl; simp only at hl ⊢; rw [(e j).2.1] at hl
      rw [upd_ne _ _ (loser_ne j m hl), (e j).1]; exact h.kL j m hl
    · intro m hm; simp only at hm ⊢; rw [(nkE m).1, (e _).1, (e _).2.1]; exact h.kC m hm
    · intro j; simp only; rw [(e j).2.1]; exact h.kN j
    · intro j m hl; simp only at hl ⊢; rw [(e j).2.1] at hl; rw [(e j).1]; exact h.kW j m hl
    · intro j m hw hp; simp only at hw hp ⊢; rw [(e j).1] at hp
      by_cases hj : j = k
      · subst hj; rw [hpub] at hp; injection hp with hp; subst hp
        simp [relN, localFreeDeletesKey, localFreeFreesBlock]
      · rw [upd_ne _ _ hj] at hw
        rw [upd_ne _ _ (pub_ne j m hj hp)]; exact h.kF j m hw hp

theorem KInv.thr_lt {s : State} (h : KInv s) {t : Nat} (hp : (s.thr t).phase ≠ .absent) : t < s.nT := by
  apply Classical.byContradiction; intro hn
  have := h.tP t (by omega); rw [this] at hp; exact hp rfl

theorem KInv.keyCreate {s s' : State} {t k : Nat} (h : KInv s) (hs : keyCreate s t k = .ok s') : KInv s' := by
  obtain ⟨hph, hpd, hk, _, hpub, rfl⟩ := keyCreate_ok hs
  have ht : t < s.nT := h.thr_lt (by rcases hph with h1 | h1 <;> simp [h1])
  refine ⟨h.kB, ?_, ?_, ?_, ?_, ?_, ?_, ?_, ?_, ?_, ?_, h.kN, h.kW, ?_⟩
  rotate_right
  · intro j n hw hp; simp only at hw hp ⊢
    have := (h.kP j n hp).1
    rw [upd_ne _ _ (by omega)]; exact h.kF j n hw hp
  · intro n hn; simp only at hn ⊢
    rw [upd_ne _ _ (by omega)]; exact h.nB n (by omega)
  · intro t' ht'; simp only at ht' ⊢
    rw [upd_ne _ _ (by omega)]; exact h.tP t' ht'
  · intro j n hp; simp only at hp ⊢
    have := h.kP j n hp
    rw [upd_ne _ _ (by omega)]; exact ⟨by omega, this.2⟩
  · intro t' n hv; simp only at hv ⊢
    have := h.val_lt hv
    rw [upd_ne _ _ (by omega)]; exact h.kV t' n hv
  · intro n hn; simp only at hn ⊢
    by_cases hnn : n = s.nN
    · subst hnn; simp
    · rw [upd_ne _ _ hnn]; exact h.kD n (by omega)
  · intro n hn; simp only at hn ⊢
    by_cases hnn : n = s.nN
    · subst hnn; simpa using hk
    · rw [upd_ne _ _ hnn]; exact h.kO n (by omega)
  · intro t' j n hp; simp only at hp ⊢
    by_cases htt : t' = t
    · subst htt
      simp at hp
      obtain ⟨rfl, rfl⟩ := hp
      refine ⟨by omega, by simp, by simp, by simp, by simp [hpub], ?_⟩
      intro hl; have := (h.kL _ _ hl).1; omega
    · rw [upd_ne _ _ htt] at hp
      have := h.kE t' j n hp
      rw [upd_ne _ _ (by omega)]; exact ⟨by omega, this.2⟩
  · intro t1 t2 k1 k2 n h1 h2; simp only at h1 h2
    by_cases e1 : t1 = t <;> by_cases e2 : t2 = t
    · rw [e1, e2]
    · subst e1; rw [upd_ne _ _ e2] at h2; simp at h1
      have := (h.kE _ _ _ h2).1; omega
    · subst e2; rw [upd_ne _ _ e1] at h1; simp at h2
      have := (h.kE _ _ _ h1).1; omega
    · rw [upd_ne _ _ e1] at h1; rw [upd_ne _ _ e2] at h2; exact h.kI _ _ _ _ _ h1 h2
  · intro j n hl; simp only at hl ⊢
    have := h.kL j n hl
    rw [upd_ne _ _ (by omega)]; exact ⟨by omega, this.2⟩
  · intro n hn; simp only at hn ⊢
    by_cases hnn : n = s.nN
    · subst hnn; exact .inr (.inr ⟨t, by simp⟩)
    · rw [upd_ne _ _ hnn]
      rcases h.kC n (by omega) with h1 | h1 | ⟨t', h1⟩
      · exact .inl h1
      · exact .inr (.inl h1)
      · refine .inr (.inr ⟨t', ?_⟩)
        have : t' ≠ t := by intro e; subst e; rw [hpd] at h1; cases h1
        rw [upd_ne _ _ this]; exact h1
theorem KInv.thr_lt_of_pend {s : State} (h : KInv s) {t : Nat} {p : Nat × Nat} (hp : (s.thr t).pend = some p) : t < s.nT := by
  apply Classical.byContradiction; intro hn
  have := h.tP t (by omega); rw [this] at hp; cases hp

theorem KInv.keyCas {s s' : State} {t k : Nat} (h : KInv s) (hs : keyCas s t k = .ok s') : KInv s' := by
  obtain ⟨n, hpd, hwf, hcase⟩ := keyCas_ok hs
  have hE := h.kE t k n hpd
  have hk : k < s.nK := by have := h.kO n hE.1; rw [hE.2.1] at this; exact this
  have ht : t < s.nT := h.thr_lt_of_pend hpd
  -- another thread pending on the same key holds a different native key
  have hother : ∀ t' j m, t' ≠ t → (s.thr t').pend = some (j, m) → m ≠ n := by
    intro t' j m hne hp e; subst e; exact hne (h.kI _ _ _ _ _ hp hpd)
  rcases hcase with ⟨hpub, rfl⟩ | ⟨⟨m0, hpub⟩, rfl⟩
  · -- winner
    have keyE : ∀ j, (upd s.key k { s.key k with published := some n } j).losers = (s.key j).losers ∧
        (upd s.key k { s.key k with published := some n } j).notifier = (s.key j).notifier ∧
        (upd s.key k { s.key k with published := some n } j).wrapperFreed = (s.key j).wrapperFreed := by
      intro j; by_cases hj : j = k
      · subst hj; simp
      · simp [upd_ne _ _ hj]
    refine ⟨?_, h.nB, ?_, ?_, ?_, ?_, h.kO, ?_, ?_, ?_, ?_, ?_, ?_, ?_⟩
    rotate_right
    · intro j m hw hp; simp only at hw hp ⊢
      rw [(keyE j).2.2] at hw
      by_cases hj : j = k
      · subst hj; rw [hwf] at hw; cases hw
      · rw [upd_ne _ _ hj] at hp; exact h.kF j m hw hp
    rotate_right
    · intro j m hl; simp only at hl ⊢
      rw [(keyE j).1] at hl
      by_cases hj : j = k
      · subst hj; exact ⟨n, by simp⟩
      · rw [upd_ne _ _ hj]; exact h.kW j m hl
    · intro j hj; simp only at hj ⊢; rw [upd_ne _ _ (by omega)]; exact h.kB j hj
    · intro t' ht'; simp only at ht' ⊢; rw [upd_ne _ _ (by omega)]; exact h.tP t' ht'
    · intro j m hp; simp only at hp ⊢
      by_cases hj : j = k
      · subst hj; simp at hp; subst hp; exact ⟨hE.1, hE.2.1, fun _ => ⟨hE.2.2.1, hE.2.2.2.1⟩⟩
      · rw [upd_ne _ _ hj] at hp ⊢; exact h.kP j m hp
    · intro t' m hv; simp only at hv ⊢
      have := h.kV t' m hv
      have hj : (s.nkey m).owner ≠ k := by intro e; rw [e, hpub] at this; cases this
      rw [upd_ne _ _ hj]; exact this
    · intro m hm; simp only at hm ⊢; rw [(keyE _).2.1]; exact h.kD m hm
    · intro t' j m hp; simp only at hp ⊢
      by_cases htt : t' = t
      · subst htt; simp at hp
      · rw [upd_ne _ _ htt] at hp
        have := h.kE t' j m hp
        refine ⟨this.1, this.2.1, this.2.2.1, this.2.2.2.1, ?_, by rw [(keyE j).1]; exact this.2.2.2.2.2⟩
        by_cases hj : j = k
        · subst hj; simp; exact fun e => hother t' _ m htt hp e.symm
        · rw [upd_ne _ _ hj]; exact this.2.2.2.2.1
    · intro t1 t2 k1 k2 m h1 h2; simp only at h1 h2
      by_cases e1 : t1 = t
      · subst e1; simp at h1
      · by_cases e2 : t2 = t
        · subst e2; simp at h2
        · rw [upd_ne _ _ e1] at h1; rw [upd_ne _ _ e2] at h2; exact h.kI _ _ _ _ _ h1 h2
    · intro j m hl; simp only at hl ⊢
      rw [(keyE j).1] at hl
      have := h.kL j m hl
      refine ⟨this.1, this.2.1, this.2.2.1, this.2.2.2.1, ?_⟩
      by_cases hj : j = k
      · subst hj; simp; intro e; subst e; exact hE.2.2.2.2.2 hl
      · rw [upd_ne _ _ hj]; exact this.2.2.2.2
    · intro m hm; simp only at hm ⊢
      rw [(keyE _).1]
      rcases h.kC m hm with h1 | h1 | ⟨t', h1⟩
      · have hj : (s.nkey m).owner ≠ k := by intro e; rw [e, hpub] at h1; cases h1
        exact .inl (by rw [upd_ne _ _ hj]; exact h1)
      · exact .inr (.inl h1)
      · by_cases htt : t' = t
        · subst htt; rw [hpd] at h1; injection h1 with h1; injection h1 with h1 h2
          subst h2; rw [← h1]; exact .inl (by simp)
        · exact .inr (.inr ⟨t', by rw [upd_ne _ _ htt]; exact h1⟩)
    · intro j; simp only; rw [(keyE j).1]; exact h.kN j
  · -- loser
    have keyE : ∀ j, (upd s.key k { s.key k with losers := (s.key k).losers ++ [n] } j).published = (s.key j).published ∧
        (upd s.key k { s.key k with losers := (s.key k).losers ++ [n] } j).notifier = (s.key j).notifier ∧
        (upd s.key k { s.key k with losers := (s.key k).losers ++ [n] } j).wrapperFreed = (s.key j).wrapperFreed := by
      intro j; by_cases hj : j = k
      · subst hj; simp
      · simp [upd_ne _ _ hj]
    have nkE : ∀ m, (upd s.nkey n { s.nkey n with live := !casLoserDeletesKey, blockFreed := casLoserFreesBlock } m).owner = (s.nkey m).owner ∧
        (upd s.nkey n { s.nkey n with live := !casLoserDeletesKey, blockFreed := casLoserFreesBlock } m).dtor = (s.nkey m).dtor := by
      intro m; by_cases hm : m = n
      · subst hm; simp
      · simp [upd_ne _ _ hm]
    -- a published native key is not `n`
    have hpn : ∀ j m, (s.key j).published = some m → m ≠ n := by
      intro j m hp e; subst e
      have := (h.kP j m hp).2.1; rw [hE.2.1] at this; subst this; exact hE.2.2.2.2.1 hp
    refine ⟨?_, ?_, ?_, ?_, ?_, ?_, ?_, ?_, ?_, ?_, ?_, ?_, ?_, ?_⟩
    rotate_right
    · intro j m hw hp; simp only at hw hp ⊢
      rw [(keyE j).2.2] at hw; rw [(keyE j).1] at hp
      rw [upd_ne _ _ (hpn j m hp)]; exact h.kF j m hw hp
    rotate_right
    · intro j m hl; simp only at hl ⊢
      rw [(keyE j).1]
      by_cases hj : j = k
      · subst hj; exact ⟨m0, hpub⟩
      · rw [upd_ne _ _ hj] at hl; exact h.kW j m hl
    · intro j hj; simp only at hj ⊢; rw [upd_ne _ _ (by omega)]; exact h.kB j hj
    · intro m hm; simp only at hm ⊢; rw [upd_ne _ _ (by omega)]; exact h.nB m hm
    · intro t' ht'; simp only at ht' ⊢; rw [upd_ne _ _ (by omega)]; exact h.tP t' ht'
    · intro j m hp; simp only at hp ⊢
      rw [(keyE j).1] at hp
      rw [upd_ne _ _ (hpn j m hp), (keyE j).2.2]; exact h.kP j m hp
    · intro t' m hv; simp only at hv ⊢
      rw [(nkE m).1, (keyE _).1]; exact h.kV t' m hv
    · intro m hm; simp only at hm ⊢; rw [(nkE m).1, (nkE m).2, (keyE _).2.1]; exact h.kD m hm
    · intro m hm; simp only at hm ⊢; rw [(nkE m).1]; exact h.kO m hm
    · intro t' j m hp; simp only at hp ⊢
      by_cases htt : t' = t
      · subst htt; simp at hp
      · rw [upd_ne _ _ htt] at hp
        have := h.kE t' j m hp
        have hmn := hother t' j m htt hp
        rw [upd_ne _ _ hmn, (keyE j).1]
        refine ⟨this.1, this.2.1, this.2.2.1, this.2.2.2.1, this.2.2.2.2.1, ?_⟩
        by_cases hj : j = k
        · subst hj; simp; exact ⟨this.2.2.2.2.2, hmn⟩
        · rw [upd_ne _ _ hj]; exact this.2.2.2.2.2
    · intro t1 t2 k1 k2 m h1 h2; simp only at h1 h2
      by_cases e1 : t1 = t
      · subst e1; simp at h1
      · by_cases e2 : t2 = t
        · subst e2; simp at h2
        · rw [upd_ne _ _ e1] at h1; rw [upd_ne _ _ e2] at h2; exact h.kI _ _ _ _ _ h1 h2
    · intro j m hl; simp only at hl ⊢
      rw [(keyE j).1, (nkE m).1]
      by_cases hj : j = k
      · subst hj
        simp at hl
        rcases hl with hl | rfl
        · have := h.kL j m hl
          have hmn : m ≠ n := by intro e; subst e; exact hE.2.2.2.2.2 hl
          rw [upd_ne _ _ hmn]; exact this
        · simp [casLoserDeletesKey, casLoserFreesBlock]
          exact ⟨hE.1, hE.2.1, hE.2.2.2.2.1⟩
      · rw [upd_ne _ _ hj] at hl
        have := h.kL j m hl
        have hmn : m ≠ n := by intro e; subst e; rw [hE.2.1] at this; exact hj this.2.1.symm
        rw [upd_ne _ _ hmn]; exact this
    · intro m hm; simp only at hm ⊢
      rw [(nkE m).1, (keyE _).1]
      by_cases hmn : m = n
      · subst hmn; rw [hE.2.1]; exact .inr (.inl (by simp))
      · rcases h.kC m hm with h1 | h1 | ⟨t', h1⟩
        · exact .inl h1
        · refine .inr (.inl ?_)
          by_cases hj : (s.nkey m).owner = k
          · rw [hj] at h1 ⊢; simp; exact .inl h1
          · rw [upd_ne _ _ hj]; exact h1
        · have htt : t' ≠ t := by
            intro e; subst e; rw [hpd] at h1; injection h1 with h1; injection h1 with _ h2; exact hmn h2.symm
          exact .inr (.inr ⟨t', by rw [upd_ne _ _ htt]; exact h1⟩)
    · intro j; simp only
      by_cases hj : j = k
      · subst hj; simp
        refine List.nodup_append.mpr ⟨h.kN j, by simp, ?_⟩
        intro a ha b hb; simp at hb; subst hb; intro e; subst e; exact hE.2.2.2.2.2 ha
      · rw [upd_ne _ _ hj]; exact h.kN j
/-- changing only phase / exitArg of an existing thread keeps `pend` and the default records beyond `nT` -/
theorem pend_upd_phase (s : State) (t : Nat) (x : Thread) (hx : x.pend = (s.thr t).pend) (t' : Nat) :
    (upd s.thr t x t').pend = (s.thr t').pend := by
  by_cases e : t' = t
  · subst e; simp [hx]
  · rw [upd_ne _ _ e]

theorem KInv.unrefCore {s s' : State} {h : Nat} {own : Bool} (hk : KInv s) (hs : unrefCore s h own = .ok s') : KInv s' := by
  obtain ⟨_, ⟨_, rfl⟩ | ⟨_, rfl⟩⟩ := unrefCore_ok hs <;>
    exact hk.frame rfl rfl rfl rfl hk.tP (fun _ => rfl) (fun _ _ hv => .inl hv)

theorem KInv.currentCore_inv {s : State} (hk : KInv s) {t n : Nat} (ht : (s.thr t).phase ≠ .absent) (hp : (s.key 0).published = some n) :
    KInv (PV.UThread.currentCore s t n).1 := by
  unfold PV.UThread.currentCore
  split
  · exact hk
  · refine hk.frame rfl rfl rfl rfl hk.tP (fun _ => rfl) ?_
    intro t' n' hv; simp only at hv
    by_cases e : t' = t ∧ n' = n
    · obtain ⟨rfl, rfl⟩ := e; right; rw [(hk.kP 0 n' hp).2.1]; exact hp
    · rw [upd2_ne _ _ e] at hv; exact .inl hv

theorem currentCore_thr (s : State) (t n : Nat) : (PV.UThread.currentCore s t n).1.thr = s.thr := by
  unfold currentCore; split <;> rfl
theorem currentCore_nT (s : State) (t n : Nat) : (PV.UThread.currentCore s t n).1.nT = s.nT := by
  unfold currentCore; split <;> rfl

theorem KInv.dtorOne {s s' : State} {t n : Nat} (hk : KInv s) (hs : dtorOne t s n = .ok s') : KInv s' := by
  have hc : KInv (cleared s t n) := by
    refine hk.frame rfl rfl rfl rfl hk.tP (fun _ => rfl) ?_
    intro t' n' hv; simp only [cleared] at hv
    by_cases e : t' = t ∧ n' = n
    · obtain ⟨rfl, rfl⟩ := e; simp at hv
    · rw [upd2_ne _ _ e] at hv; exact .inl hv
  rcases dtorOne_ok hs with ⟨_, rfl⟩ | ⟨_, _, rfl⟩ | ⟨_, _, hu⟩
  · exact hk
  · exact hc
  · exact hc.unrefCore hu

theorem KInv.runDtors {t : Nat} : ∀ {l : List Nat} {s s' : State}, KInv s → runDtors t s l = .ok s' → KInv s'
  | [], s, s', hk, hs => by unfold PV.UThread.runDtors at hs; injection hs with hs; exact hs ▸ hk
  | n :: r, s, s', hk, hs => by
    obtain ⟨s1, h1, h2⟩ := runDtors_cons_ok hs
    exact KInv.runDtors (hk.dtorOne h1) h2

/-- the thread records and thread count are not touched by the destructors -/
theorem unrefCore_thr {s s' : State} {h : Nat} {own : Bool} (hs : unrefCore s h own = .ok s') : s'.thr = s.thr ∧ s'.nT = s.nT := by
  obtain ⟨_, ⟨_, rfl⟩ | ⟨_, rfl⟩⟩ := unrefCore_ok hs <;> exact ⟨rfl, rfl⟩
theorem dtorOne_thr {s s' : State} {t n : Nat} (hs : dtorOne t s n = .ok s') : s'.thr = s.thr ∧ s'.nT = s.nT := by
  rcases dtorOne_ok hs with ⟨_, rfl⟩ | ⟨_, _, rfl⟩ | ⟨_, _, hu⟩
  · exact ⟨rfl, rfl⟩
  · exact ⟨rfl, rfl⟩
  · have := unrefCore_thr hu; exact this
theorem runDtors_thr {t : Nat} : ∀ {l : List Nat} {s s' : State}, runDtors t s l = .ok s' → s'.thr = s.thr ∧ s'.nT = s.nT
  | [], s, s', hs => by unfold PV.UThread.runDtors at hs; injection hs with hs; exact hs ▸ ⟨rfl, rfl⟩
  | n :: r, s, s', hs => by
    obtain ⟨s1, h1, h2⟩ := runDtors_cons_ok hs
    have a := dtorOne_thr h1; have b := runDtors_thr h2
    exact ⟨b.1.trans a.1, b.2.trans a.2⟩

/-- setting the phase (and ghost exit argument) of a live thread -/
theorem KInv.setPhase {s : State} (hk : KInv s) {t : Nat} (ht : (s.thr t).phase ≠ .absent) (x : Thread) (hx : x.pend = (s.thr t).pend) :
    KInv { s with thr := upd s.thr t x } := by
  have hlt := hk.thr_lt ht
  refine hk.frame rfl rfl rfl rfl ?_ (pend_upd_phase s t x hx) (fun _ _ hv => .inl hv)
  intro t' ht'; simp only at ht' ⊢; rw [upd_ne _ _ (by omega)]; exact hk.tP t' ht'

theorem KInv.setTls {s : State} (hk : KInv s) {t n v : Nat} (hp : (s.key (s.nkey n).owner).published = some n) :
    KInv { s with tls := upd2 s.tls t n v } := by
  refine hk.frame rfl rfl rfl rfl hk.tP (fun _ => rfl) ?_
  intro t' n' hv; simp only at hv
  by_cases e : t' = t ∧ n' = n
  · obtain ⟨rfl, rfl⟩ := e; exact .inr hp
  · rw [upd2_ne _ _ e] at hv; exact .inl hv

theorem KInv.pub_owner {s : State} (hk : KInv s) {k n : Nat} (hp : (s.key k).published = some n) :
    (s.key (s.nkey n).owner).published = some n := by rw [(hk.kP k n hp).2.1]; exact hp

theorem KInv.step {s s' : State} {e : Ev} (hk : KInv s) (hs : step s e = .ok s') : KInv s' := by
  cases e with
  | spawn =>
    have := spawn_ok hs; subst this
    refine hk.frame rfl rfl rfl rfl ?_ ?_ (fun _ _ hv => .inl hv)
    · intro t ht; simp only at ht ⊢; rw [upd_ne _ _ (by omega)]; exact hk.tP t (by omega)
    · intro t; simp only
      by_cases e : t = s.nT
      · subst e; rw [hk.tP _ (Nat.le_refl _)]; simp
      · rw [upd_ne _ _ e]
  | createBegin a j n =>
    obtain ⟨_, _, rfl⟩ := createBegin_ok hs
    refine hk.frame rfl rfl rfl rfl ?_ ?_ (fun _ _ hv => .inl hv)
    · intro t ht; simp only at ht ⊢; rw [upd_ne _ _ (by omega)]; exact hk.tP t (by omega)
    · intro t; simp only
      by_cases e : t = s.nT
      · subst e; rw [hk.tP _ (Nat.le_refl _)]; simp
      · rw [upd_ne _ _ e]
  | createEnd a =>
    obtain ⟨c, _, _, rfl⟩ := createEnd_ok hs
    exact hk.frame rfl rfl rfl rfl hk.tP (fun _ => rfl) (fun _ _ hv => .inl hv)
  | start t =>
    obtain ⟨hd, n, hph, _, _, _, hp, _, _, rfl⟩ := start_ok hs
    have h1 := hk.setPhase (t := t) (by rw [hph]; simp) { s.thr t with phase := .running } rfl
    exact KInv.setTls (s := { s with thr := upd s.thr t { s.thr t with phase := .running } }) h1 (hk.pub_owner hp)
  | exit t c =>
    obtain ⟨n, hc, _, hp, _, hcase⟩ := exit_ok hs
    have h1 := hk.currentCore_inv (t := t) (by rw [hc.1]; simp) hp
    rcases hcase with ⟨_, rfl⟩ | ⟨_, rfl⟩
    · exact h1
    · have h2 := h1.setPhase (t := t) (by rw [currentCore_thr, hc.1]; simp)
        { (PV.UThread.currentCore s t n).1.thr t with phase := .finished, exitArg := some c } rfl
      exact h2.frame rfl rfl rfl rfl h2.tP (fun _ => rfl) (fun _ _ hv => .inl hv)
  | ret t =>
    obtain ⟨hc, _, rfl⟩ := ret_ok hs
    exact hk.setPhase (by rw [hc.1]; simp) _ rfl
  | threadEnd t =>
    obtain ⟨hph, s1, hr, rfl⟩ := threadEnd_ok hs
    have h1 := hk.runDtors hr
    have := runDtors_thr hr
    exact h1.setPhase (by rw [this.1, hph]; simp) _ rfl
  | ref a h =>
    obtain ⟨_, _, _, _, rfl⟩ := ref_ok hs
    exact hk.frame rfl rfl rfl rfl hk.tP (fun _ => rfl) (fun _ _ hv => .inl hv)
  | unref a h =>
    obtain ⟨_, _, _, hu⟩ := unref_ok hs
    exact hk.unrefCore hu
  | join a h =>
    obtain ⟨_, _, _, _, ⟨_, rfl⟩ | ⟨_, _, _, rfl⟩⟩ := join_ok hs <;>
      exact hk.frame rfl rfl rfl rfl hk.tP (fun _ => rfl) (fun _ _ hv => .inl hv)
  | current t =>
    obtain ⟨n, hc, _, hp, rfl⟩ := current_ok hs
    have h1 := hk.currentCore_inv (t := t) (by rw [hc.1]; simp) hp
    exact h1.frame rfl rfl rfl rfl h1.tP (fun _ => rfl) (fun _ _ hv => .inl hv)
  | localNew a n => exact hk.localNew hs
  | localFree a k => exact hk.localFree hs
  | keyCreate t k => exact hk.keyCreate hs
  | keyCas t k => exact hk.keyCas hs
  | setLocal t k v =>
    obtain ⟨n, _, _, _, _, hp, rfl⟩ := setLocal_ok hs
    have := hk.setTls (t := t) (v := v) (hk.pub_owner hp)
    exact this.frame rfl rfl rfl rfl this.tP (fun _ => rfl) (fun _ _ hv => .inl hv)
  | replaceLocal t k v =>
    obtain ⟨n, _, _, _, _, hp, rfl⟩ := replaceLocal_ok hs
    have := hk.setTls (t := t) (v := v) (hk.pub_owner hp)
    exact this.frame rfl rfl rfl rfl this.tP (fun _ => rfl) (fun _ _ hv => .inl hv)
  | getLocal t k =>
    obtain ⟨n, _, _, _, _, hp, rfl⟩ := getLocal_ok hs
    exact hk.frame rfl rfl rfl rfl hk.tP (fun _ => rfl) (fun _ _ hv => .inl hv)
  | createFail a =>
    obtain ⟨_, _, rfl⟩ := createFail_ok hs
    exact hk.frame rfl rfl rfl rfl hk.tP (fun _ => rfl) (fun _ _ hv => .inl hv)
  | joinFail a h =>
    obtain ⟨_, _, _, _, _, rfl⟩ := joinFail_ok hs
    exact hk.frame rfl rfl rfl rfl hk.tP (fun _ => rfl) (fun _ _ hv => .inl hv)
  | tlsFail t k g =>
    obtain ⟨_, _, _, _, _, rfl⟩ := tlsFail_ok hs
    exact hk.frame rfl rfl rfl rfl hk.tP (fun _ => rfl) (fun _ _ hv => .inl hv)
  | currentFail t =>
    obtain ⟨_, _, rfl⟩ := currentFail_ok hs
    exact hk.frame rfl rfl rfl rfl hk.tP (fun _ => rfl) (fun _ _ hv => .inl hv)
  | storeFail t k r =>
    obtain ⟨n, _, _, _, _, _, rfl⟩ := storeFail_ok hs
    exact hk.frame rfl rfl rfl rfl hk.tP (fun _ => rfl) (fun _ _ hv => .inl hv)
  | startUnstored t =>
    obtain ⟨hd, hph, _, _, _, _, _, rfl⟩ := startUnstored_ok hs
    have h1 := hk.setPhase (t := t) (by rw [hph]; simp) { s.thr t with phase := .running, handle := none, proxy := some hd } rfl
    exact h1.frame rfl rfl rfl rfl h1.tP (fun _ => rfl) (fun _ _ hv => .inl hv)
  | retUnstored t h =>
    obtain ⟨hc, _, s1, hu, rfl⟩ := retUnstored_ok hs
    have h1 := hk.unrefCore hu
    have ht := unrefCore_thr hu
    exact h1.setPhase (by rw [ht.1, hc.1]; simp) _ rfl

/-! ## `HInv`: handles, reference counts, threads, the library key's cells -/

structure HInv (s : State) : Prop where
  k0 : 0 < s.nK
  hB : ∀ h, s.nH ≤ h → s.hdl h = {}
  tT : ∀ t, s.nT ≤ t → ∀ n, s.tls t n = 0
  /-- `refcount_is_holders` -/
  hR : ∀ h, (s.hdl h).freed = false → (s.hdl h).refCount = holders (s.hdl h)
  hL : ∀ h, (s.hdl h).written = true → (s.hdl h).freed = false → 0 < holders (s.hdl h)
  hU : ∀ h, (s.hdl h).written = false →
        (s.hdl h).freed = false ∧ (s.hdl h).userRefs = 0 ∧ (s.hdl h).threadRef = false ∧ (s.hdl h).refCount = 0 ∧
        (s.hdl h).retCode = 0 ∧ (s.hdl h).ours = false
  hS : ∀ h, h < s.nH → (s.hdl h).written = false → ∃ c, s.spin = some c ∧ c.h = h
  sC : ∀ c, s.spin = some c → c.h < s.nH ∧ (s.hdl c.h).written = false ∧
        (s.thr (s.hdl c.h).thread).handle = some c.h ∧ (s.thr (s.hdl c.h).thread).phase = .created
  tH : ∀ t h, (s.thr t).handle = some h → h < s.nH ∧ (s.hdl h).thread = t
  hO : ∀ h, (s.hdl h).ours = true → (s.hdl h).orphan = false → (s.thr (s.hdl h).thread).handle = some h
  hW : ∀ t h, (s.thr t).handle = some h → (s.hdl h).written = true → (s.hdl h).ours = true
  hJ : ∀ h, (s.hdl h).written = true → (s.hdl h).ours = false → (s.hdl h).joinable = false
  tC : ∀ t, (s.thr t).phase = .created →
        ∃ h, (s.thr t).handle = some h ∧ ((s.hdl h).written = true → (s.hdl h).threadRef = true)
  tR : ∀ t h, (s.thr t).phase = .running → (s.thr t).handle = some h →
        ∃ n, (s.key 0).published = some n ∧ s.tls t n = h + 1
  lT : ∀ t n, (s.nkey n).owner = 0 → s.tls t n ≠ 0 →
        (s.hdl (s.tls t n - 1)).written = true ∧ (s.hdl (s.tls t n - 1)).threadRef = true ∧
        (s.hdl (s.tls t n - 1)).thread = t
  jC : ∀ t h, (s.thr t).handle = some h →
        (((s.thr t).phase = .created ∨ (s.thr t).phase = .running) → (s.hdl h).retCode = 0 ∧ (s.thr t).exitArg = none) ∧
        (((s.thr t).phase = .finished ∨ (s.thr t).phase = .ended) → (s.hdl h).retCode = ((s.thr t).exitArg).getD 0)
  fL : ∀ h, h ∈ s.freeLog ↔ (s.hdl h).freed = true
  fN : s.freeLog.Nodup

theorem HInv.init : HInv init := by
  refine ⟨by simp [PV.UThread.init], ?_, ?_, ?_, ?_, ?_, ?_, ?_, ?_, ?_, ?_, ?_, ?_, ?_, ?_, ?_, ?_, ?_⟩
  · intro h _; rfl
  · intro t _ n; rfl
  · intro h _; simp [PV.UThread.init, holders]
  · intro h hw; simp [PV.UThread.init] at hw
  · intro h _; simp [PV.UThread.init]
  · intro h hh; simp [PV.UThread.init] at hh
  · intro c hc; simp [PV.UThread.init] at hc
  · intro t h hh; simp [PV.UThread.init] at hh; split at hh <;> cases hh
  · intro h hh; simp [PV.UThread.init] at hh
  · intro t h hh; simp [PV.UThread.init] at hh; split at hh <;> cases hh
  · intro h hh; simp [PV.UThread.init] at hh
  · intro t hh; simp [PV.UThread.init] at hh; split at hh <;> cases hh
  · intro t h _ hh; simp [PV.UThread.init] at hh; split at hh <;> cases hh
  · intro t n _ hh; simp [PV.UThread.init] at hh
  · intro t h hh; simp [PV.UThread.init] at hh; split at hh <;> cases hh
  · intro h; simp [PV.UThread.init]
  · simp [PV.UThread.init]

/-! ## `PInv`: library threads that run without their handle in the TLS slot (`startUnstored`) -/

structure PInv (s : State) : Prop where
  pP : ∀ t h, (s.thr t).proxy = some h →
        (s.thr t).handle = none ∧ (s.thr t).exitArg = none ∧ h < s.nH ∧ (s.hdl h).thread = t ∧ (s.hdl h).orphan = true ∧
        (s.hdl h).ours = true ∧ (s.hdl h).written = true ∧ (s.hdl h).retCode = 0 ∧ (s.thr t).phase ≠ .created ∧
        ((s.thr t).phase = .running → (s.hdl h).threadRef = true)
  pO : ∀ h, (s.hdl h).orphan = true → (s.thr (s.hdl h).thread).proxy = some h
  /-- a handle that sits in a library cell is not such a handle -/
  pS : ∀ t n, (s.nkey n).owner = 0 → s.tls t n ≠ 0 → (s.hdl (s.tls t n - 1)).orphan = false

theorem PInv.init : PInv init := by
  refine ⟨?_, ?_, ?_⟩
  · intro t h hp; simp [PV.UThread.init] at hp; split at hp <;> cases hp
  · intro h ho; simp [PV.UThread.init] at ho
  · intro t n _ hv; simp [PV.UThread.init] at hv

/-- the general preservation argument: proxies stay, what is known of them and of their handles stays, nothing new
    becomes such a handle, and a library cell either is as before or holds an ordinary handle -/
theorem PInv.of {s s' : State} (hp : PInv s)
    (eP : ∀ t, (s'.thr t).proxy = (s.thr t).proxy)
    (eT : ∀ t h, (s.thr t).proxy = some h → (s'.thr t).handle = none ∧ (s'.thr t).exitArg = none ∧
      (s'.thr t).phase ≠ .created ∧ ((s'.thr t).phase = .running → (s.thr t).phase = .running))
    (eN : s.nH ≤ s'.nH)
    (eH : ∀ h, (s.hdl h).orphan = true → (s'.hdl h).thread = (s.hdl h).thread ∧ (s'.hdl h).orphan = true ∧
      (s'.hdl h).ours = (s.hdl h).ours ∧ (s'.hdl h).written = (s.hdl h).written ∧ (s'.hdl h).retCode = (s.hdl h).retCode ∧
      ((s.hdl h).threadRef = true → (s'.hdl h).threadRef = true ∨ (s'.thr (s.hdl h).thread).phase ≠ .running))
    (eO : ∀ h, (s'.hdl h).orphan = true → (s.hdl h).orphan = true)
    (eS : ∀ t n, (s'.nkey n).owner = 0 → s'.tls t n ≠ 0 →
      ((s.nkey n).owner = 0 ∧ s.tls t n ≠ 0 ∧ s'.tls t n = s.tls t n) ∨ (s'.hdl (s'.tls t n - 1)).orphan = false) : PInv s' := by
  refine ⟨?_, ?_, ?_⟩
  · intro t h hpx
    rw [eP] at hpx
    obtain ⟨_, _, p3, p4, p5, p6, p7, p8, _, p10⟩ := hp.pP t h hpx
    obtain ⟨t1, t2, t3, t4⟩ := eT t h hpx
    obtain ⟨h1, h2, h3, h4, h5, h6⟩ := eH h p5
    refine ⟨t1, t2, by omega, h1.trans p4, h2, h3.trans p6, h4.trans p7, h5.trans p8, t3, ?_⟩
    intro hr
    rcases h6 (p10 (t4 hr)) with h7 | h7
    · exact h7
    · rw [p4] at h7; exact absurd hr h7
  · intro h ho
    have ho' := eO h ho
    rw [(eH h ho').1, eP]; exact hp.pO h ho'
  · intro t n ho hv
    rcases eS t n ho hv with ⟨a, b, c⟩ | d
    · rw [c]
      cases hx : (s'.hdl (s.tls t n - 1)).orphan with
      | false => rfl
      | true => have := eO _ hx; rw [hp.pS t n a b] at this; cases this
    · exact d

/-- events that touch neither handles nor the thread records (up to `pend`) nor the library cells -/
theorem PInv.frame {s s' : State} (hp : PInv s) (e1 : s'.hdl = s.hdl) (e2 : s.nH ≤ s'.nH)
    (e3 : ∀ t, (s'.thr t).proxy = (s.thr t).proxy ∧ (s'.thr t).handle = (s.thr t).handle ∧ (s'.thr t).exitArg = (s.thr t).exitArg ∧
      (s'.thr t).phase = (s.thr t).phase)
    (e4 : ∀ t n, (s'.nkey n).owner = 0 → s'.tls t n ≠ 0 → (s.nkey n).owner = 0 ∧ s.tls t n ≠ 0 ∧ s'.tls t n = s.tls t n) : PInv s' := by
  refine hp.of (fun t => (e3 t).1) ?_ e2 ?_ ?_ (fun t n a b => .inl (e4 t n a b))
  · intro t h hpx
    obtain ⟨p1, p2, _, _, _, _, _, _, p9, _⟩ := hp.pP t h hpx
    exact ⟨(e3 t).2.1.trans p1, (e3 t).2.2.1.trans p2, by rw [(e3 t).2.2.2]; exact p9, fun hr => by rw [(e3 t).2.2.2] at hr; exact hr⟩
  · intro h ho; rw [e1]; exact ⟨rfl, ho, rfl, rfl, rfl, fun x => .inl x⟩
  · intro h ho; rw [e1] at ho; exact ho

/-- one handle record replaced (thread records and cells as they are) -/
theorem PInv.updH {s : State} (hp : PInv s) {h0 : Nat} {x' : Handle} {fl : List Nat}
    (e_or : x'.orphan = (s.hdl h0).orphan)
    (hx : (s.hdl h0).orphan = true → x'.thread = (s.hdl h0).thread ∧ x'.ours = (s.hdl h0).ours ∧ x'.written = (s.hdl h0).written ∧
      x'.retCode = (s.hdl h0).retCode ∧ ((s.hdl h0).threadRef = true → x'.threadRef = true)) :
    PInv { s with hdl := upd s.hdl h0 x', freeLog := fl } := by
  refine hp.of (fun _ => rfl) ?_ (Nat.le_refl _) ?_ ?_ ?_
  · intro t h hpx
    obtain ⟨p1, p2, _, _, _, _, _, _, p9, _⟩ := hp.pP t h hpx
    exact ⟨p1, p2, p9, id⟩
  · intro h ho; simp only
    by_cases e : h = h0
    · subst e; simp only [upd, if_true]
      obtain ⟨a, b, c, d, f⟩ := hx ho
      exact ⟨a, by rw [e_or]; exact ho, b, c, d, fun x => .inl (f x)⟩
    · rw [upd_ne _ _ e]; exact ⟨rfl, ho, rfl, rfl, rfl, fun x => .inl x⟩
  · intro h ho; simp only at ho
    by_cases e : h = h0
    · subst e; simp only [upd, if_true] at ho; rw [e_or] at ho; exact ho
    · rw [upd_ne _ _ e] at ho; exact ho
  · intro t n a b; simp only at a b ⊢
    by_cases e : s.tls t n - 1 = h0
    · right; rw [e]; simp only [upd, if_true]; rw [e_or, ← e]; exact hp.pS t n a b
    · refine .inl ⟨a, b, ?_⟩; first | rfl | trivial

/-- one thread record replaced: not a proxied thread, or only its phase moves on from `running` -/
theorem PInv.updT {s : State} (hp : PInv s) {t : Nat} {x : Thread} (e1 : x.proxy = (s.thr t).proxy)
    (e2 : (s.thr t).proxy ≠ none → x.handle = (s.thr t).handle ∧ x.exitArg = (s.thr t).exitArg ∧ x.phase ≠ .created ∧
      (x.phase = .running → (s.thr t).phase = .running)) :
    PInv { s with thr := upd s.thr t x } := by
  refine hp.of ?_ ?_ (Nat.le_refl _) ?_ (fun _ ho => ho) (fun _ _ a b => .inl ⟨a, b, rfl⟩)
  · intro t'; simp only
    by_cases e : t' = t
    · subst e; simp [upd, e1]
    · rw [upd_ne _ _ e]
  · intro t' h hpx; simp only
    obtain ⟨p1, p2, _, _, _, _, _, _, p9, _⟩ := hp.pP t' h hpx
    by_cases e : t' = t
    · subst e; simp only [upd, if_true]
      obtain ⟨a, b, c, d⟩ := e2 (by rw [hpx]; simp)
      exact ⟨a.trans p1, b.trans p2, c, d⟩
    · rw [upd_ne _ _ e]; exact ⟨p1, p2, p9, id⟩
  · intro h ho; exact ⟨rfl, ho, rfl, rfl, rfl, fun x => .inl x⟩

theorem currentCore_orphan {s : State} (hp : PInv s) (hi : HInv s) (hk : KInv s) {t n : Nat} (hpub : (s.key 0).published = some n) :
    ((currentCore s t n).1.hdl (currentCore s t n).2).orphan = false := by
  unfold currentCore
  split
  · rename_i hv; exact hp.pS t n (hk.kP 0 n hpub).2.1 hv
  · simp

theorem PInv.currentCore_inv {s : State} (hp : PInv s) (hi : HInv s) (t n : Nat) : PInv (currentCore s t n).1 := by
  unfold currentCore
  split
  · exact hp
  · have hnew := hi.hB s.nH (Nat.le_refl _)
    refine hp.of (fun _ => rfl) ?_ (Nat.le_succ _) ?_ ?_ ?_
    · intro t' h hpx
      obtain ⟨p1, p2, _, _, _, _, _, _, p9, _⟩ := hp.pP t' h hpx
      exact ⟨p1, p2, p9, id⟩
    · intro h ho; simp only
      have e : h ≠ s.nH := by intro e; subst e; rw [hnew] at ho; cases ho
      rw [upd_ne _ _ e]; exact ⟨rfl, ho, rfl, rfl, rfl, fun x => .inl x⟩
    · intro h ho; simp only at ho
      by_cases e : h = s.nH
      · subst e; simp [upd] at ho
      · rw [upd_ne _ _ e] at ho; exact ho
    · intro t' n' a b; simp only at a b ⊢
      by_cases c : t' = t ∧ n' = n
      · obtain ⟨rfl, rfl⟩ := c; right; simp [upd, upd2]
      · rw [upd2_ne _ _ c] at b ⊢; exact .inl ⟨a, b, rfl⟩

/-- the handle of a thread that has passed the creation spinlock has all its fields written -/
theorem HInv.written_of_started {s : State} (hi : HInv s) {t h : Nat} (hh : (s.thr t).handle = some h)
    (hp : (s.thr t).phase ≠ .created) : (s.hdl h).written = true := by
  cases hw : (s.hdl h).written with
  | true => rfl
  | false =>
    obtain ⟨c, hc, rfl⟩ := hi.hS h (hi.tH t h hh).1 hw
    have := (hi.sC c hc).2.2.2
    rw [(hi.tH t c.h hh).2] at this
    exact absurd this hp

/-- events that do not touch handles, thread phases, the spinlock or the library key's cells -/
theorem HInv.frame {s s' : State} (hi : HInv s)
    (e1 : s'.nH = s.nH) (e2 : s'.nT = s.nT) (e3 : s'.hdl = s.hdl) (e4 : s'.spin = s.spin) (e5 : s'.freeLog = s.freeLog)
    (e6 : ∀ t, (s'.thr t).phase = (s.thr t).phase ∧ (s'.thr t).handle = (s.thr t).handle ∧ (s'.thr t).exitArg = (s.thr t).exitArg)
    (e7 : s.nK ≤ s'.nK)
    (e8 : ∀ t n, (s.key 0).published = some n → (s'.key 0).published = some n ∧ s'.tls t n = s.tls t n)
    (e9 : ∀ t n, (s'.nkey n).owner = 0 → s'.tls t n ≠ 0 → (s.nkey n).owner = 0 ∧ s'.tls t n = s.tls t n)
    (e10 : ∀ t, s.nT ≤ t → ∀ n, s'.tls t n = 0) : HInv s' := by
  refine ⟨by have := hi.k0; omega, ?_, ?_, ?_, ?_, ?_, ?_, ?_, ?_, ?_, ?_, ?_, ?_, ?_, ?_, ?_, ?_, ?_⟩
  · intro h hh; rw [e3]; exact hi.hB h (e1 ▸ hh)
  · intro t ht; exact e10 t (e2 ▸ ht)
  · rw [e3]; exact hi.hR
  · rw [e3]; exact hi.hL
  · rw [e3]; exact hi.hU
  · rw [e1, e3, e4]; exact hi.hS
  · intro c hc; rw [e4] at hc; rw [e1, e3, (e6 _).1, (e6 _).2.1]; exact hi.sC c hc
  · intro t h hh; rw [(e6 t).2.1] at hh; rw [e1, e3]; exact hi.tH t h hh
  · intro h hh; rw [e3] at hh ⊢; rw [(e6 _).2.1]; exact hi.hO h hh
  · intro t h hh; rw [(e6 t).2.1] at hh; rw [e3]; exact hi.hW t h hh
  · rw [e3]; exact hi.hJ
  · intro t hp; rw [(e6 t).1] at hp; rw [(e6 t).2.1, e3]; exact hi.tC t hp
  · intro t h hp hh; rw [(e6 t).1] at hp; rw [(e6 t).2.1] at hh
    obtain ⟨n, h1, h2⟩ := hi.tR t h hp hh
    exact ⟨n, (e8 t n h1).1, by rw [(e8 t n h1).2]; exact h2⟩
  · intro t n ho hv
    obtain ⟨h1, h2⟩ := e9 t n ho hv
    rw [h2] at hv ⊢; rw [e3]; exact hi.lT t n h1 hv
  · intro t h hh; rw [(e6 t).2.1] at hh; rw [(e6 t).1, (e6 t).2.2, e3]; exact hi.jC t h hh
  · intro h; rw [e5, e3]; exact hi.fL h
  · rw [e5]; exact hi.fN

/-- replacing the record of one fully created handle by one with the same identity fields and a
    consistent count (`ref`, `unref`, `join`) -/
theorem HInv.updHandle {s : State} (hi : HInv s) {h0 : Nat} {x' : Handle} {fl : List Nat}
    (hw : (s.hdl h0).written = true) (e_w : x'.written = true) (e_t : x'.thread = (s.hdl h0).thread)
    (e_o : x'.ours = (s.hdl h0).ours) (e_j : x'.joinable = (s.hdl h0).joinable) (e_r : x'.retCode = (s.hdl h0).retCode)
    (e_or : x'.orphan = (s.hdl h0).orphan)
    (e_tr : x'.threadRef = (s.hdl h0).threadRef ∨
      ((∀ t', (s.thr t').handle = some h0 → (s.thr t').phase ≠ .created) ∧
       (∀ t' n', (s.nkey n').owner = 0 → s.tls t' n' ≠ 0 → s.tls t' n' - 1 ≠ h0)))
    (hR' : x'.freed = false → x'.refCount = holders x') (hL' : x'.freed = false → 0 < holders x')
    (hfl : (x'.freed = (s.hdl h0).freed ∧ fl = s.freeLog) ∨ ((s.hdl h0).freed = false ∧ x'.freed = true ∧ fl = s.freeLog ++ [h0])) :
    HInv { s with hdl := upd s.hdl h0 x', freeLog := fl } := by
  have hlt : h0 < s.nH := by
    apply Classical.byContradiction; intro hn
    rw [hi.hB h0 (by omega)] at hw; cases hw
  refine ⟨hi.k0, ?_, hi.tT, ?_, ?_, ?_, ?_, ?_, ?_, ?_, ?_, ?_, ?_, hi.tR, ?_, ?_, ?_, ?_⟩
  · intro h hh; simp only at hh ⊢; rw [upd_ne _ _ (by omega)]; exact hi.hB h hh
  · intro h; simp only
    by_cases e : h = h0
    · subst e; simpa using hR'
    · rw [upd_ne _ _ e]; exact hi.hR h
  · intro h; simp only
    by_cases e : h = h0
    · subst e; simpa using fun _ => hL'
    · rw [upd_ne _ _ e]; exact hi.hL h
  · intro h; simp only
    by_cases e : h = h0
    · subst e; simp [e_w]
    · rw [upd_ne _ _ e]; exact hi.hU h
  · intro h hh; simp only at hh ⊢
    by_cases e : h = h0
    · subst e; simp [e_w]
    · rw [upd_ne _ _ e]; exact hi.hS h hh
  · intro c hc; simp only at hc ⊢
    have := hi.sC c hc
    have e : c.h ≠ h0 := by intro e; rw [e, hw] at this; cases this.2.1
    rw [upd_ne _ _ e]; exact this
  · intro t h hh; simp only at hh ⊢
    by_cases e : h = h0
    · subst e; simp [e_t]; exact hi.tH t h hh
    · rw [upd_ne _ _ e]; exact hi.tH t h hh
  · intro h; simp only
    by_cases e : h = h0
    · subst e; simp [e_t, e_o, e_or]; exact hi.hO h
    · rw [upd_ne _ _ e]; exact hi.hO h
  · intro t h hh; simp only at hh ⊢
    by_cases e : h = h0
    · subst e; simp [e_o]; exact fun _ => hi.hW t h hh hw
    · rw [upd_ne _ _ e]; exact hi.hW t h hh
  · intro h; simp only
    by_cases e : h = h0
    · subst e; simp [e_o, e_j]; exact fun _ => hi.hJ h hw
    · rw [upd_ne _ _ e]; exact hi.hJ h
  · intro t hp; simp only at hp ⊢
    obtain ⟨h, h1, h2⟩ := hi.tC t hp
    refine ⟨h, h1, ?_⟩
    by_cases e : h = h0
    · subst e
      rcases e_tr with e_tr | ⟨e_tr, _⟩
      · simp [e_tr]; exact fun _ => h2 hw
      · exact absurd hp (e_tr t h1)
    · rw [upd_ne _ _ e]; exact h2
  · intro t n ho hv; simp only at ho hv ⊢
    have := hi.lT t n ho hv
    by_cases e : s.tls t n - 1 = h0
    · rcases e_tr with e_tr | ⟨_, e_tr⟩
      · rw [e] at this ⊢; simp [e_w, e_tr, e_t]; exact ⟨this.2.1, this.2.2⟩
      · exact absurd e (e_tr t n ho hv)
    · rw [upd_ne _ _ e]; exact this
  · intro t h hh; simp only at hh ⊢
    by_cases e : h = h0
    · subst e; simp [e_r]; exact hi.jC t h hh
    · rw [upd_ne _ _ e]; exact hi.jC t h hh
  · intro h; simp only
    rcases hfl with ⟨f1, rfl⟩ | ⟨f1, f2, rfl⟩
    · by_cases e : h = h0
      · subst e; simp [f1]; exact hi.fL h
      · rw [upd_ne _ _ e]; exact hi.fL h
    · by_cases e : h = h0
      · subst e; simp [f2]
      · rw [upd_ne _ _ e]; simp [e]; exact hi.fL h
  · simp only
    rcases hfl with ⟨_, rfl⟩ | ⟨f1, _, rfl⟩
    · exact hi.fN
    · refine List.nodup_append.mpr ⟨hi.fN, by simp, ?_⟩
      intro a ha b hb; simp at hb; subst hb; intro e; subst e
      have := (hi.fL a).mp ha; rw [f1] at this; cases this

theorem HInv.ref_inv {s s' : State} {a h : Nat} (hi : HInv s) (hs : ref s a h = .ok s') : HInv s' := by
  obtain ⟨_, _, hw, hf, rfl⟩ := ref_ok hs
  have := hi.hR h hf
  refine hi.updHandle (fl := s.freeLog) hw hw rfl rfl rfl rfl rfl (.inl rfl) ?_ ?_ (.inl ⟨rfl, rfl⟩)
  · intro _; simp only [holders, refIncrement] at this ⊢; split at this <;> simp_all <;> omega
  · intro _; simp only [holders]; omega

theorem HInv.unrefCore_user {s s' : State} {h : Nat} (hi : HInv s) (hw : (s.hdl h).written = true)
    (hs : unrefCore s h false = .ok s') : HInv s' := by
  obtain ⟨hf, ⟨hc, rfl⟩ | ⟨hc, rfl⟩⟩ := unrefCore_ok hs
  · exact hi.updHandle hw (by simp [decd, hw]) rfl rfl rfl rfl rfl (.inl (by simp [decd])) (by simp) (by simp) (.inr ⟨hf, rfl, rfl⟩)
  · have h1 := hi.hR h hf
    have h2 := hi.hL h hw hf
    refine hi.updHandle (fl := s.freeLog) hw (by simp [decd, hw]) rfl rfl rfl rfl rfl (.inl (by simp [decd])) ?_ ?_ (.inl ⟨by simp [decd, hf], rfl⟩)
    · intro _
      simp only [holders, decd, unrefDecrement, unrefFreesWhenOldIs] at h1 h2 hc ⊢
      by_cases htr : (s.hdl h).threadRef = true <;> simp [htr] at h1 h2 ⊢ <;> omega
    · intro _
      simp only [holders, decd, unrefDecrement, unrefFreesWhenOldIs] at h1 h2 hc ⊢
      by_cases htr : (s.hdl h).threadRef = true <;> simp [htr] at h1 h2 ⊢ <;> omega

theorem HInv.join_inv {s s' : State} {a h : Nat} (hi : HInv s) (hs : join s a h = .ok s') : HInv s' := by
  obtain ⟨_, _, hw, hf, ⟨_, rfl⟩ | ⟨_, _, _, rfl⟩⟩ := join_ok hs
  · exact hi.frame rfl rfl rfl rfl rfl (fun _ => ⟨rfl, rfl, rfl⟩) (Nat.le_refl _) (fun _ _ hp => ⟨hp, rfl⟩)
      (fun _ _ ho _ => ⟨ho, rfl⟩) hi.tT
  · have := hi.updHandle (x' := { s.hdl h with joined := true }) (fl := s.freeLog) hw hw rfl rfl rfl rfl rfl (.inl rfl)
      (fun hf' => hi.hR h hf') (fun hf' => hi.hL h hw hf') (.inl ⟨rfl, rfl⟩)
    exact this.frame rfl rfl rfl rfl rfl (fun _ => ⟨rfl, rfl, rfl⟩) (Nat.le_refl _) (fun _ _ hp => ⟨hp, rfl⟩)
      (fun _ _ ho _ => ⟨ho, rfl⟩) this.tT

theorem thr_upd_pend (s : State) (t : Nat) (p : Option (Nat × Nat)) (t' : Nat) :
    (upd s.thr t { s.thr t with pend := p } t').phase = (s.thr t').phase ∧
    (upd s.thr t { s.thr t with pend := p } t').handle = (s.thr t').handle ∧
    (upd s.thr t { s.thr t with pend := p } t').exitArg = (s.thr t').exitArg := by
  by_cases e : t' = t
  · subst e; simp
  · rw [upd_ne _ _ e]; exact ⟨rfl, rfl, rfl⟩

theorem HInv.localNew_inv {s s' : State} {a : Nat} {nf : Bool} (hi : HInv s) (hs : localNew s a nf = .ok s') : HInv s' := by
  obtain ⟨_, rfl⟩ := localNew_ok hs
  have := hi.k0
  refine hi.frame rfl rfl rfl rfl rfl (fun _ => ⟨rfl, rfl, rfl⟩) (by simp) ?_ (fun _ _ ho _ => ⟨ho, rfl⟩) hi.tT
  intro t n hp; refine ⟨?_, rfl⟩; simp only; rw [upd_ne _ _ (by omega)]; exact hp

theorem HInv.localFree_inv {s s' : State} {a k : Nat} (hi : HInv s) (hs : localFree s a k = .ok s') : HInv s' := by
  obtain ⟨_, hk, _, _, ⟨_, rfl⟩ | ⟨n, _, rfl⟩⟩ := localFree_ok hs
  · refine hi.frame rfl rfl rfl rfl rfl (fun _ => ⟨rfl, rfl, rfl⟩) (Nat.le_refl _) ?_ (fun _ _ ho _ => ⟨ho, rfl⟩) hi.tT
    intro t n hp; refine ⟨?_, rfl⟩; simp only; rw [upd_ne _ _ (Ne.symm hk)]; exact hp
  · refine hi.frame rfl rfl rfl rfl rfl (fun _ => ⟨rfl, rfl, rfl⟩) (Nat.le_refl _) ?_ ?_ hi.tT
    · intro t m hp; refine ⟨?_, rfl⟩; simp only; rw [upd_ne _ _ (Ne.symm hk)]; exact hp
    · intro t m ho _; simp only at ho
      by_cases e : m = n
      · subst e; simp [relN] at ho; exact ⟨ho, rfl⟩
      · rw [upd_ne _ _ e] at ho; exact ⟨ho, rfl⟩

theorem HInv.keyCreate_inv {s s' : State} {t k : Nat} (hi : HInv s) (hk : KInv s) (hs : keyCreate s t k = .ok s') : HInv s' := by
  obtain ⟨_, _, _, _, _, rfl⟩ := keyCreate_ok hs
  refine hi.frame rfl rfl rfl rfl rfl (thr_upd_pend s t _) (Nat.le_refl _) (fun _ _ hp => ⟨hp, rfl⟩) ?_ hi.tT
  intro t' n ho hv; simp only at ho hv
  have := hk.val_lt hv
  rw [upd_ne _ _ (by omega)] at ho; exact ⟨ho, rfl⟩

theorem HInv.keyCas_inv {s s' : State} {t k : Nat} (hi : HInv s) (hs : keyCas s t k = .ok s') : HInv s' := by
  obtain ⟨n, _, _, ⟨hpub, rfl⟩ | ⟨_, rfl⟩⟩ := keyCas_ok hs
  · refine hi.frame rfl rfl rfl rfl rfl (thr_upd_pend s t _) (Nat.le_refl _) ?_ (fun _ _ ho _ => ⟨ho, rfl⟩) hi.tT
    intro t' m hp; refine ⟨?_, rfl⟩; simp only
    have : (0 : Nat) ≠ k := by intro e; subst e; rw [hpub] at hp; cases hp
    rw [upd_ne _ _ this]; exact hp
  · refine hi.frame rfl rfl rfl rfl rfl (thr_upd_pend s t _) (Nat.le_refl _) ?_ ?_ hi.tT
    · intro t' m hp; refine ⟨?_, rfl⟩; simp only
      by_cases e : 0 = k
      · subst e; simp [hp]
      · rw [upd_ne _ _ e]; exact hp
    · intro t' m ho _; simp only at ho
      by_cases e : m = n
      · subst e; simp at ho; exact ⟨ho, rfl⟩
      · rw [upd_ne _ _ e] at ho; exact ⟨ho, rfl⟩

/-- a store into a cell of a user key -/
theorem HInv.userTls {s : State} (hi : HInv s) (hk : KInv s) {t k n v : Nat} (hc : canAct s t) (hk0 : k ≠ 0)
    (hp : (s.key k).published = some n) : HInv { s with tls := upd2 s.tls t n v } := by
  have hown := (hk.kP k n hp).2.1
  have hlt := hk.thr_lt (t := t) (by rw [hc.1]; simp)
  refine hi.frame rfl rfl rfl rfl rfl (fun _ => ⟨rfl, rfl, rfl⟩) (Nat.le_refl _) ?_ ?_ ?_
  · intro t' m hp0; simp only
    have : m ≠ n := by intro e; subst e; have := (hk.kP 0 m hp0).2.1; rw [hown] at this; exact hk0 this
    rw [upd2_ne _ _ (by simp [this])]; exact ⟨hp0, rfl⟩
  · intro t' m ho _; simp only at ho ⊢
    have : m ≠ n := by intro e; subst e; rw [hown] at ho; exact hk0 ho
    rw [upd2_ne _ _ (by simp [this])]; exact ⟨ho, rfl⟩
  · intro t' ht' m; simp only
    rw [upd2_ne _ _ (by intro e; omega)]; exact hi.tT t' ht' m

theorem HInv.logs {s : State} (hi : HInv s) (d : List (Nat × Nat × Nat)) (j : List (Nat × Nat × Int)) (g : List (Nat × Nat × Nat))
    (c : List (Nat × Nat)) : HInv { s with dtorLog := d, joinLog := j, getLog := g, curLog := c } :=
  hi.frame rfl rfl rfl rfl rfl (fun _ => ⟨rfl, rfl, rfl⟩) (Nat.le_refl _) (fun _ _ hp => ⟨hp, rfl⟩) (fun _ _ ho _ => ⟨ho, rfl⟩) hi.tT

/-- the native layer NULLs a cell of a thread that is no longer running its function -/
theorem HInv.clearCell {s : State} (hi : HInv s) {t n : Nat} (hp : (s.thr t).phase ≠ .running) : HInv (cleared s t n) := by
  have e : ∀ t' n', (cleared s t n).tls t' n' ≠ 0 → (cleared s t n).tls t' n' = s.tls t' n' := by
    intro t' n' hv; simp only [cleared] at hv ⊢
    by_cases c : t' = t ∧ n' = n
    · obtain ⟨rfl, rfl⟩ := c; simp at hv
    · rw [upd2_ne _ _ c]
  refine ⟨hi.k0, hi.hB, ?_, hi.hR, hi.hL, hi.hU, hi.hS, hi.sC, hi.tH, hi.hO, hi.hW, hi.hJ, hi.tC, ?_, ?_, hi.jC, hi.fL, hi.fN⟩
  · intro t' ht' n'
    apply Classical.byContradiction; intro hv
    exact hv ((e t' n' hv).trans (hi.tT t' ht' n'))
  · intro t' h hp' hh
    obtain ⟨m, h1, h2⟩ := hi.tR t' h hp' hh
    refine ⟨m, h1, ?_⟩
    have : t' ≠ t := by intro c; subst c; exact hp hp'
    simp only [cleared]; rw [upd2_ne _ _ (by simp [this])]; exact h2
  · intro t' n' ho hv
    have := e t' n' hv
    rw [this] at hv ⊢; exact hi.lT t' n' ho hv

/-- `pp_uthread_cleanup`: the library key's destructor gives up the thread's own reference -/
theorem HInv.libDtor {s s' : State} (hi : HInv s) (hk : KInv s) {t n : Nat} (hp : (s.thr t).phase = .finished)
    (ho : (s.nkey n).owner = 0) (hv : s.tls t n ≠ 0)
    (hs : unrefCore (cleared s t n) (s.tls t n - 1) true = .ok s') : HInv s' := by
  obtain ⟨hw, htr, hth⟩ := hi.lT t n ho hv
  have hc := hi.clearCell (t := t) (n := n) (by rw [hp]; simp)
  -- no created thread and no library cell refers to the handle any more
  have hno : (∀ t', ((cleared s t n).thr t').handle = some (s.tls t n - 1) → ((cleared s t n).thr t').phase ≠ .created) ∧
      (∀ t' n', ((cleared s t n).nkey n').owner = 0 → (cleared s t n).tls t' n' ≠ 0 → (cleared s t n).tls t' n' - 1 ≠ s.tls t n - 1) := by
    constructor
    · intro t' hh
      have := (hi.tH t' _ hh).2
      rw [hth] at this; subst this
      simp only [cleared]; rw [hp]; simp
    · intro t' n' ho' hv' e
      simp only [cleared] at ho' hv' e
      by_cases c : t' = t ∧ n' = n
      · obtain ⟨rfl, rfl⟩ := c; simp at hv'
      · rw [upd2_ne _ _ c] at hv' e
        have h1 := (hi.lT t' n' ho' hv').2.2
        rw [e, hth] at h1; subst h1
        have p1 := hk.kV t n hv; have p2 := hk.kV t n' hv'
        rw [ho] at p1; rw [ho'] at p2; rw [p1] at p2; injection p2 with p2
        exact c ⟨rfl, p2.symm⟩
  obtain ⟨hf, ⟨hcnt, rfl⟩ | ⟨hcnt, rfl⟩⟩ := unrefCore_ok hs
  · exact hc.updHandle (h0 := s.tls t n - 1) hw (by simp [decd, cleared, hw]) rfl rfl rfl rfl rfl (.inr hno) (by simp) (by simp)
      (.inr ⟨hf, rfl, rfl⟩)
  · have h1 := hi.hR _ hf
    refine hc.updHandle (h0 := s.tls t n - 1) (fl := s.freeLog) hw (by simp [decd, cleared, hw]) rfl rfl rfl rfl rfl (.inr hno) ?_ ?_
      (.inl ⟨by simp [decd, cleared] at hf ⊢, rfl⟩)
    · intro _
      simp only [cleared] at hcnt hf
      simp only [holders, decd, cleared, unrefDecrement, unrefFreesWhenOldIs, htr] at h1 hcnt ⊢
      simp at h1 ⊢; omega
    · intro _
      simp only [cleared] at hcnt hf
      simp only [holders, decd, cleared, unrefDecrement, unrefFreesWhenOldIs, htr] at h1 hcnt ⊢
      simp at h1 ⊢; omega

theorem HInv.dtorOne_inv {s s' : State} {t n : Nat} (hi : HInv s) (hk : KInv s) (hp : (s.thr t).phase = .finished)
    (hs : dtorOne t s n = .ok s') : HInv s' := by
  rcases dtorOne_ok hs with ⟨_, rfl⟩ | ⟨_, _, rfl⟩ | ⟨hd, ho, hu⟩
  · exact hi
  · exact hi.clearCell (by rw [hp]; simp)
  · exact hi.libDtor hk hp ho hd.2.2 hu

theorem HInv.runDtors_inv {t : Nat} : ∀ {l : List Nat} {s s' : State}, HInv s → KInv s → (s.thr t).phase = .finished →
    runDtors t s l = .ok s' → HInv s'
  | [], s, s', hi, _, _, hs => by unfold PV.UThread.runDtors at hs; injection hs with hs; exact hs ▸ hi
  | n :: r, s, s', hi, hk, hp, hs => by
    obtain ⟨s1, h1, h2⟩ := runDtors_cons_ok hs
    exact HInv.runDtors_inv (hi.dtorOne_inv hk hp h1) (hk.dtorOne h1) (by rw [(dtorOne_thr h1).1]; exact hp) h2

/-- a thread that has left `created` moves on to `finished` / `ended` (its handle link stays) -/
theorem HInv.updThread {s : State} (hi : HInv s) {t : Nat} {x : Thread}
    (hx_h : x.handle = (s.thr t).handle) (hx1 : x.phase ≠ .created) (hx2 : x.phase ≠ .running)
    (hold : (s.thr t).phase ≠ .created)
    (hj : ∀ h, (s.thr t).handle = some h → (x.phase = .finished ∨ x.phase = .ended) → (s.hdl h).retCode = x.exitArg.getD 0) :
    HInv { s with thr := upd s.thr t x } := by
  have eh : ∀ t', (upd s.thr t x t').handle = (s.thr t').handle := by
    intro t'; by_cases e : t' = t
    · subst e; simp [hx_h]
    · rw [upd_ne _ _ e]
  refine ⟨hi.k0, hi.hB, hi.tT, hi.hR, hi.hL, hi.hU, hi.hS, ?_, ?_, ?_, ?_, hi.hJ, ?_, ?_, hi.lT, ?_, hi.fL, hi.fN⟩
  · intro c hc; simp only at hc ⊢
    have := hi.sC c hc
    have e : (s.hdl c.h).thread ≠ t := by intro e; rw [e] at this; exact hold this.2.2.2
    rw [upd_ne _ _ e]; exact this
  · intro t' h hh; simp only at hh ⊢; rw [eh] at hh; exact hi.tH t' h hh
  · intro h hh; simp only at hh ⊢; rw [eh]; exact hi.hO h hh
  · intro t' h hh; simp only at hh ⊢; rw [eh] at hh; exact hi.hW t' h hh
  · intro t' hp; simp only at hp ⊢
    have e : t' ≠ t := by intro e; subst e; simp at hp; exact hx1 hp
    rw [upd_ne _ _ e] at hp ⊢; exact hi.tC t' hp
  · intro t' h hp hh; simp only at hp hh ⊢
    have e : t' ≠ t := by intro e; subst e; simp at hp; exact hx2 hp
    rw [upd_ne _ _ e] at hp hh; exact hi.tR t' h hp hh
  · intro t' h hh; simp only at hh ⊢
    by_cases e : t' = t
    · subst e; simp at hh ⊢
      rw [hx_h] at hh
      refine ⟨fun hp => ?_, hj h hh⟩
      rcases hp with hp | hp
      · exact absurd hp hx1
      · exact absurd hp hx2
    · rw [upd_ne _ _ e] at hh ⊢; exact hi.jC t' h hh

theorem HInv.ret_inv {s s' : State} {t : Nat} (hi : HInv s) (hs : ret s t = .ok s') : HInv s' := by
  obtain ⟨hc, _, rfl⟩ := ret_ok hs
  refine hi.updThread rfl (by simp) (by simp) (by rw [hc.1]; simp) ?_
  intro h hh _
  have := ((hi.jC t h hh).1 (.inr hc.1))
  simp [this.1, this.2]

theorem HInv.threadEnd_inv {s s' : State} {t : Nat} (hi : HInv s) (hk : KInv s) (hs : threadEnd s t = .ok s') : HInv s' := by
  obtain ⟨hp, s1, hr, rfl⟩ := threadEnd_ok hs
  have h1 := hi.runDtors_inv hk hp hr
  have ht := (runDtors_thr hr).1
  refine h1.updThread rfl (by simp) (by simp) (by rw [ht, hp]; simp) ?_
  intro h hh _
  have := (h1.jC t h hh).2 (.inl (by rw [ht]; exact hp))
  simpa using this

theorem HInv.spawn_inv {s s' : State} (hi : HInv s) (hk : KInv s) (hs : spawn s = .ok s') : HInv s' := by
  have := spawn_ok hs; subst this
  have hnew := hk.tP s.nT (Nat.le_refl _)
  have ne_of_handle : ∀ t h, (s.thr t).handle = some h → t ≠ s.nT := by
    intro t h hh e; subst e; rw [hnew] at hh; cases hh
  have ne_of_phase : ∀ t, (s.thr t).phase ≠ .absent → t ≠ s.nT := by
    intro t hp e; subst e; rw [hnew] at hp; exact hp rfl
  refine ⟨hi.k0, hi.hB, ?_, hi.hR, hi.hL, hi.hU, hi.hS, ?_, ?_, ?_, ?_, hi.hJ, ?_, ?_, hi.lT, ?_, hi.fL, hi.fN⟩
  · intro t ht; simp only at ht ⊢; exact hi.tT t (by omega)
  · intro c hc; simp only at hc ⊢
    have := hi.sC c hc
    rw [upd_ne _ _ (ne_of_handle _ _ this.2.2.1)]; exact this
  · intro t h hh; simp only at hh ⊢
    by_cases e : t = s.nT
    · subst e; simp at hh
    · rw [upd_ne _ _ e] at hh; exact hi.tH t h hh
  · intro h hh ho'; simp only at hh ho' ⊢
    have := hi.hO h hh ho'
    rw [upd_ne _ _ (ne_of_handle _ _ this)]; exact this
  · intro t h hh; simp only at hh ⊢
    by_cases e : t = s.nT
    · subst e; simp at hh
    · rw [upd_ne _ _ e] at hh; exact hi.hW t h hh
  · intro t hp; simp only at hp ⊢
    by_cases e : t = s.nT
    · subst e; simp at hp
    · rw [upd_ne _ _ e] at hp ⊢; exact hi.tC t hp
  · intro t h hp hh; simp only at hp hh ⊢
    by_cases e : t = s.nT
    · subst e; simp at hh
    · rw [upd_ne _ _ e] at hp hh; exact hi.tR t h hp hh
  · intro t h hh; simp only at hh ⊢
    by_cases e : t = s.nT
    · subst e; simp at hh
    · rw [upd_ne _ _ e] at hh ⊢; exact hi.jC t h hh

theorem nodup_snoc' {l : List Nat} {n : Nat} (h : l.Nodup) (hn : n ∉ l) : (l ++ [n]).Nodup := by
  rw [List.nodup_append]; exact ⟨h, by simp, fun a ha b hb => by simp at hb; subst hb; intro e; subst e; exact hn ha⟩

theorem HInv.lt_of_written {s : State} (hi : HInv s) {h : Nat} (hw : (s.hdl h).written = true) : h < s.nH := by
  apply Classical.byContradiction; intro hn
  rw [hi.hB h (by omega)] at hw; cases hw

theorem HInv.createBegin_inv {s s' : State} {a : Nat} {j n : Bool} (hi : HInv s) (hk : KInv s)
    (hs : createBegin s a j n = .ok s') : HInv s' := by
  obtain ⟨_, hspin, rfl⟩ := createBegin_ok hs
  have hnew := hk.tP s.nT (Nat.le_refl _)
  have hnewH := hi.hB s.nH (Nat.le_refl _)
  have ne_of_handle : ∀ t h, (s.thr t).handle = some h → t ≠ s.nT := by
    intro t h hh e; subst e; rw [hnew] at hh; cases hh
  have all_written : ∀ h, h < s.nH → (s.hdl h).written = true := by
    intro h hh
    cases hw : (s.hdl h).written with
    | true => rfl
    | false => obtain ⟨c, hc, _⟩ := hi.hS h hh hw; rw [hspin] at hc; cases hc
  refine ⟨hi.k0, ?_, ?_, ?_, ?_, ?_, ?_, ?_, ?_, ?_, ?_, ?_, ?_, ?_, ?_, ?_, ?_, hi.fN⟩
  · intro h hh; simp only at hh ⊢; rw [upd_ne _ _ (by omega)]; exact hi.hB h (by omega)
  · intro t ht; simp only at ht ⊢; exact hi.tT t (by omega)
  · intro h; simp only
    by_cases e : h = s.nH
    · subst e; simp [holders]
    · rw [upd_ne _ _ e]; exact hi.hR h
  · intro h; simp only
    by_cases e : h = s.nH
    · subst e; simp
    · rw [upd_ne _ _ e]; exact hi.hL h
  · intro h; simp only
    by_cases e : h = s.nH
    · subst e; simp
    · rw [upd_ne _ _ e]; exact hi.hU h
  · intro h hh hw; simp only at hh hw ⊢
    by_cases e : h = s.nH
    · subst e; exact ⟨_, rfl, rfl⟩
    · rw [upd_ne _ _ e] at hw; rw [all_written h (by omega)] at hw; cases hw
  · intro c hc; simp only at hc ⊢
    injection hc with hc; subst hc
    simp
  · intro t h hh; simp only at hh ⊢
    by_cases e : t = s.nT
    · subst e; simp at hh; subst hh; simp
    · rw [upd_ne _ _ e] at hh
      have := hi.tH t h hh
      rw [upd_ne _ _ (by omega)]; exact ⟨by omega, this.2⟩
  · intro h hh; simp only at hh ⊢
    by_cases e : h = s.nH
    · subst e; simp at hh
    · rw [upd_ne _ _ e] at hh ⊢
      intro ho'
      have := hi.hO h hh ho'
      rw [upd_ne _ _ (ne_of_handle _ _ this)]; exact this
  · intro t h hh; simp only at hh ⊢
    by_cases e : t = s.nT
    · subst e; simp at hh; subst hh; simp
    · rw [upd_ne _ _ e] at hh
      have := hi.tH t h hh
      rw [upd_ne _ _ (by omega)]; exact hi.hW t h hh
  · intro h; simp only
    by_cases e : h = s.nH
    · subst e; simp
    · rw [upd_ne _ _ e]; exact hi.hJ h
  · intro t hp; simp only at hp ⊢
    by_cases e : t = s.nT
    · subst e; exact ⟨s.nH, by simp, by simp⟩
    · rw [upd_ne _ _ e] at hp ⊢
      obtain ⟨h, h1, h2⟩ := hi.tC t hp
      have := hi.tH t h h1
      exact ⟨h, h1, by rw [upd_ne _ _ (by omega)]; exact h2⟩
  · intro t h hp hh; simp only at hp hh ⊢
    by_cases e : t = s.nT
    · subst e; simp at hp
    · rw [upd_ne _ _ e] at hp hh; exact hi.tR t h hp hh
  · intro t m ho hv; simp only at ho hv ⊢
    have := hi.lT t m ho hv
    have hlt := hi.lt_of_written this.1
    rw [upd_ne _ _ (by omega)]; exact this
  · intro t h hh; simp only at hh ⊢
    by_cases e : t = s.nT
    · subst e; simp at hh; subst hh; simp
    · rw [upd_ne _ _ e] at hh ⊢
      have := hi.tH t h hh
      rw [upd_ne _ _ (by omega)]; exact hi.jC t h hh
  · intro h; simp only
    by_cases e : h = s.nH
    · subst e; simp; intro hm; have := (hi.fL s.nH).mp hm; rw [hnewH] at this; cases this
    · rw [upd_ne _ _ e]; exact hi.fL h

/-- a block that takes the next handle id and is released at once (a creation / `p_uthread_current` that fails) -/
theorem HInv.allocFreed {s : State} (hi : HInv s) : HInv { s with
    nH := s.nH + 1, hdl := upd s.hdl s.nH { freed := true, written := true }, freeLog := s.freeLog ++ [s.nH] } := by
  have hnewH := hi.hB s.nH (Nat.le_refl _)
  have hnotin : s.nH ∉ s.freeLog := by
    intro hm; have := (hi.fL s.nH).mp hm; rw [hnewH] at this; cases this
  refine ⟨hi.k0, ?_, ?_, ?_, ?_, ?_, ?_, ?_, ?_, ?_, ?_, ?_, ?_, ?_, ?_, ?_, ?_, ?_⟩
  · intro h hh; simp only at hh ⊢; rw [upd_ne _ _ (by omega)]; exact hi.hB h (by omega)
  · exact hi.tT
  · intro h; simp only
    by_cases e : h = s.nH
    · subst e; simp
    · rw [upd_ne _ _ e]; exact hi.hR h
  · intro h; simp only
    by_cases e : h = s.nH
    · subst e; simp
    · rw [upd_ne _ _ e]; exact hi.hL h
  · intro h; simp only
    by_cases e : h = s.nH
    · subst e; simp
    · rw [upd_ne _ _ e]; exact hi.hU h
  · intro h hh hw; simp only at hh hw ⊢
    by_cases e : h = s.nH
    · subst e; simp at hw
    · rw [upd_ne _ _ e] at hw; exact hi.hS h (by omega) hw
  · intro c hc; simp only at hc ⊢
    have := hi.sC c hc
    rw [upd_ne _ _ (by omega)]; exact ⟨by omega, this.2⟩
  · intro t h hh; simp only at hh ⊢
    have := hi.tH t h hh
    rw [upd_ne _ _ (by omega)]; exact ⟨by omega, this.2⟩
  · intro h hh; simp only at hh ⊢
    by_cases e : h = s.nH
    · subst e; simp at hh
    · rw [upd_ne _ _ e] at hh ⊢; exact hi.hO h hh
  · intro t h hh; simp only at hh ⊢
    have := hi.tH t h hh
    rw [upd_ne _ _ (by omega)]; exact hi.hW t h hh
  · intro h; simp only
    by_cases e : h = s.nH
    · subst e; simp
    · rw [upd_ne _ _ e]; exact hi.hJ h
  · intro t hp; simp only at hp ⊢
    obtain ⟨h, h1, h2⟩ := hi.tC t hp
    have := hi.tH t h h1
    exact ⟨h, h1, by rw [upd_ne _ _ (by omega)]; exact h2⟩
  · exact hi.tR
  · intro t m ho hv; simp only at ho hv ⊢
    have := hi.lT t m ho hv
    have hlt := hi.lt_of_written this.1
    rw [upd_ne _ _ (by omega)]; exact this
  · intro t h hh; simp only at hh ⊢
    have := hi.tH t h hh
    rw [upd_ne _ _ (by omega)]; exact hi.jC t h hh
  · intro h; simp only
    by_cases e : h = s.nH
    · subst e; simp
    · rw [upd_ne _ _ e, List.mem_append]; simp only [List.mem_singleton, e, or_false]; exact hi.fL h
  · simp only; exact nodup_snoc' hi.fN hnotin

theorem HInv.createFail_inv {s s' : State} {a : Nat} (hi : HInv s) (hs : createFail s a = .ok s') : HInv s' := by
  obtain ⟨_, _, rfl⟩ := createFail_ok hs; exact hi.allocFreed

theorem HInv.currentFail_inv {s s' : State} {t : Nat} (hi : HInv s) (hs : currentFail s t = .ok s') : HInv s' := by
  obtain ⟨_, _, rfl⟩ := currentFail_ok hs; exact hi.allocFreed

theorem HInv.startUnstored_inv {s s' : State} {t : Nat} (hi : HInv s) (hs : startUnstored s t = .ok s') : HInv s' := by
  obtain ⟨h, hph, _, hh, hspin, _, _, rfl⟩ := startUnstored_ok hs
  have hth := (hi.tH t h hh).2
  have hlt := (hi.tH t h hh).1
  have eH : ∀ h', (upd s.hdl h { s.hdl h with orphan := true } h').refCount = (s.hdl h').refCount ∧
      (upd s.hdl h { s.hdl h with orphan := true } h').freed = (s.hdl h').freed ∧
      (upd s.hdl h { s.hdl h with orphan := true } h').written = (s.hdl h').written ∧
      (upd s.hdl h { s.hdl h with orphan := true } h').userRefs = (s.hdl h').userRefs ∧
      (upd s.hdl h { s.hdl h with orphan := true } h').threadRef = (s.hdl h').threadRef ∧
      (upd s.hdl h { s.hdl h with orphan := true } h').thread = (s.hdl h').thread ∧
      (upd s.hdl h { s.hdl h with orphan := true } h').ours = (s.hdl h').ours ∧
      (upd s.hdl h { s.hdl h with orphan := true } h').joinable = (s.hdl h').joinable ∧
      (upd s.hdl h { s.hdl h with orphan := true } h').retCode = (s.hdl h').retCode := by
    intro h'; by_cases e : h' = h
    · subst e; simp [upd]
    · rw [upd_ne _ _ e]; simp
  have eT : ∀ t' h', (upd s.thr t { s.thr t with phase := .running, handle := none, proxy := some h } t').handle = some h' →
      t' ≠ t := by
    intro t' h' hx e; subst e; simp [upd] at hx
  refine ⟨hi.k0, ?_, hi.tT, ?_, ?_, ?_, ?_, ?_, ?_, ?_, ?_, ?_, ?_, ?_, ?_, ?_, ?_, hi.fN⟩
  · intro h' hh'; simp only at hh' ⊢; rw [upd_ne _ _ (by omega)]; exact hi.hB h' hh'
  · intro h'; simp only [holders]; rw [(eH h').1, (eH h').2.1, (eH h').2.2.2.1, (eH h').2.2.2.2.1]; exact hi.hR h'
  · intro h'; simp only [holders]; rw [(eH h').2.1, (eH h').2.2.1, (eH h').2.2.2.1, (eH h').2.2.2.2.1]; exact hi.hL h'
  · intro h' hw'; simp only at hw' ⊢
    rw [(eH h').2.2.1] at hw'
    rw [(eH h').1, (eH h').2.1, (eH h').2.2.2.1, (eH h').2.2.2.2.1, (eH h').2.2.2.2.2.2.1, (eH h').2.2.2.2.2.2.2.2]
    exact hi.hU h' hw'
  · intro h' hlt' hw'; simp only at hlt' hw' ⊢; rw [(eH h').2.2.1] at hw'; exact hi.hS h' hlt' hw'
  · intro c hc; simp only at hc; rw [hspin] at hc; cases hc
  · intro t' h' hx; simp only at hx ⊢
    have e := eT t' h' hx
    rw [upd_ne _ _ e] at hx; rw [(eH h').2.2.2.2.2.1]; exact hi.tH t' h' hx
  · intro h' ho hor; simp only at ho hor ⊢
    have e : h' ≠ h := by intro e; subst e; simp [upd] at hor
    rw [upd_ne _ _ e] at ho hor ⊢
    have := hi.hO h' ho hor
    have e2 : (s.hdl h').thread ≠ t := by
      intro e2; rw [e2, hh] at this; injection this with this; exact e this.symm
    rw [upd_ne _ _ e2]; exact this
  · intro t' h' hx; simp only at hx ⊢
    have e := eT t' h' hx
    rw [upd_ne _ _ e] at hx; rw [(eH h').2.2.1, (eH h').2.2.2.2.2.2.1]; exact hi.hW t' h' hx
  · intro h'; simp only; rw [(eH h').2.2.1, (eH h').2.2.2.2.2.2.1, (eH h').2.2.2.2.2.2.2.1]; exact hi.hJ h'
  · intro t' hp'; simp only at hp' ⊢
    have e : t' ≠ t := by intro e; subst e; simp [upd] at hp'
    rw [upd_ne _ _ e] at hp' ⊢
    obtain ⟨h', a, b⟩ := hi.tC t' hp'
    exact ⟨h', a, by rw [(eH h').2.2.1, (eH h').2.2.2.2.1]; exact b⟩
  · intro t' h' hp' hx; simp only at hp' hx ⊢
    have e := eT t' h' hx
    rw [upd_ne _ _ e] at hp' hx; exact hi.tR t' h' hp' hx
  · intro t' n ho hv; simp only at ho hv ⊢
    rw [(eH _).2.2.1, (eH _).2.2.2.2.1, (eH _).2.2.2.2.2.1]; exact hi.lT t' n ho hv
  · intro t' h' hx; simp only at hx ⊢
    have e := eT t' h' hx
    rw [upd_ne _ _ e] at hx ⊢; rw [(eH h').2.2.2.2.2.2.2.2]; exact hi.jC t' h' hx
  · intro h'; simp only; rw [(eH h').2.1]; exact hi.fL h'

theorem HInv.retUnstored_inv {s s' : State} {t h : Nat} (hi : HInv s) (hp : PInv s) (hs : retUnstored s t h = .ok s') : HInv s' := by
  obtain ⟨hc, hpx, s1, hu, rfl⟩ := retUnstored_ok hs
  obtain ⟨p1, _, _, p4, p5, _, p7, _, _, p10⟩ := hp.pP t h hpx
  have htr := p10 hc.1
  -- no created thread and no library cell refers to the handle
  have hno : (∀ t', (s.thr t').handle = some h → (s.thr t').phase ≠ .created) ∧
      (∀ t' n', (s.nkey n').owner = 0 → s.tls t' n' ≠ 0 → s.tls t' n' - 1 ≠ h) := by
    constructor
    · intro t' hx
      have := (hi.tH t' h hx).2; rw [p4] at this; subst this; rw [p1] at hx; cases hx
    · intro t' n' ho' hv' e
      have := hp.pS t' n' ho' hv'; rw [e, p5] at this; cases this
  have h1 : HInv s1 := by
    obtain ⟨hf, ⟨hcnt, rfl⟩ | ⟨hcnt, rfl⟩⟩ := unrefCore_ok hu
    · exact hi.updHandle (h0 := h) p7 (by simp [decd, p7]) rfl rfl rfl rfl rfl (.inr hno) (by simp) (by simp) (.inr ⟨hf, rfl, rfl⟩)
    · have hr := hi.hR _ hf
      refine hi.updHandle (h0 := h) (fl := s.freeLog) p7 (by simp [decd, p7]) rfl rfl rfl rfl rfl (.inr hno) ?_ ?_
        (.inl ⟨by simp [decd, hf], rfl⟩)
      · intro _
        simp only [holders, decd, unrefDecrement, unrefFreesWhenOldIs, htr] at hr hcnt ⊢
        simp at hr ⊢; omega
      · intro _
        simp only [holders, decd, unrefDecrement, unrefFreesWhenOldIs, htr] at hr hcnt ⊢
        simp at hr ⊢; omega
  have ht := (unrefCore_thr hu).1
  refine h1.updThread rfl (by simp) (by simp) (by rw [ht, hc.1]; simp) ?_
  intro h' hx _
  rw [ht, p1] at hx; cases hx

theorem HInv.createEnd_inv {s s' : State} {a : Nat} (hi : HInv s) (hs : createEnd s a = .ok s') : HInv s' := by
  obtain ⟨c, hspin, _, rfl⟩ := createEnd_ok hs
  obtain ⟨hlt, hw, hlink, hph⟩ := hi.sC c hspin
  have hu := hi.hU c.h hw
  have only : ∀ h, h < s.nH → h ≠ c.h → (s.hdl h).written = true := by
    intro h hh hne
    cases hw' : (s.hdl h).written with
    | true => rfl
    | false =>
      obtain ⟨c', hc', e⟩ := hi.hS h hh hw'
      rw [hspin] at hc'; injection hc' with hc'; subst hc'; exact absurd e.symm hne
  refine ⟨hi.k0, ?_, hi.tT, ?_, ?_, ?_, ?_, ?_, ?_, ?_, ?_, ?_, ?_, hi.tR, ?_, ?_, ?_, hi.fN⟩
  · intro h hh; simp only at hh ⊢; rw [upd_ne _ _ (by omega)]; exact hi.hB h hh
  · intro h; simp only
    by_cases e : h = c.h
    · subst e; simp [holders, createInitRefCount]
    · rw [upd_ne _ _ e]; exact hi.hR h
  · intro h; simp only
    by_cases e : h = c.h
    · subst e; simp [holders]
    · rw [upd_ne _ _ e]; exact hi.hL h
  · intro h; simp only
    by_cases e : h = c.h
    · subst e; simp
    · rw [upd_ne _ _ e]; exact hi.hU h
  · intro h hh hw'; simp only at hh hw' ⊢
    by_cases e : h = c.h
    · subst e; simp at hw'
    · rw [upd_ne _ _ e] at hw'; rw [only h hh e] at hw'; cases hw'
  · intro c' hc'; simp only at hc'; cases hc'
  · intro t h hh; simp only at hh ⊢
    by_cases e : h = c.h
    · subst e; simp; exact hi.tH t _ hh
    · rw [upd_ne _ _ e]; exact hi.tH t h hh
  · intro h hh; simp only at hh ⊢
    by_cases e : h = c.h
    · subst e; simp; exact fun _ => hlink
    · rw [upd_ne _ _ e] at hh ⊢; exact hi.hO h hh
  · intro t h hh; simp only at hh ⊢
    by_cases e : h = c.h
    · subst e; simp
    · rw [upd_ne _ _ e]; exact hi.hW t h hh
  · intro h; simp only
    by_cases e : h = c.h
    · subst e; simp
    · rw [upd_ne _ _ e]; exact hi.hJ h
  · intro t hp; simp only at hp ⊢
    obtain ⟨h, h1, h2⟩ := hi.tC t hp
    refine ⟨h, h1, ?_⟩
    by_cases e : h = c.h
    · subst e; simp
    · rw [upd_ne _ _ e]; exact h2
  · intro t m ho hv; simp only at ho hv ⊢
    have := hi.lT t m ho hv
    have e : s.tls t m - 1 ≠ c.h := by intro e; rw [e, hw] at this; cases this.1
    rw [upd_ne _ _ e]; exact this
  · intro t h hh; simp only at hh ⊢
    by_cases e : h = c.h
    · subst e; simp; exact hi.jC t _ hh
    · rw [upd_ne _ _ e]; exact hi.jC t h hh
  · intro h; simp only
    by_cases e : h = c.h
    · subst e; simp; exact hi.fL _
    · rw [upd_ne _ _ e]; exact hi.fL h

/-- `p_uthread_exit` of a library thread: `ret_code = code`, the function is left -/
theorem HInv.exitWrite {s : State} (hi : HInv s) {t h : Nat} {code : Int} (hp : (s.thr t).phase = .running)
    (hh : (s.thr t).handle = some h) :
    HInv { s with
      hdl := upd s.hdl h { s.hdl h with retCode := code }
      thr := upd s.thr t { s.thr t with phase := .finished, exitArg := some code } } := by
  have hw := hi.written_of_started hh (by rw [hp]; simp)
  have hth := (hi.tH t h hh).2
  have eh : ∀ t', (upd s.thr t { s.thr t with phase := .finished, exitArg := some code } t').handle = (s.thr t').handle := by
    intro t'; by_cases e : t' = t
    · subst e; simp
    · rw [upd_ne _ _ e]
  -- everything but `retCode` of handle `h` is unchanged
  have eH : ∀ h', (upd s.hdl h { s.hdl h with retCode := code } h').refCount = (s.hdl h').refCount ∧
      (upd s.hdl h { s.hdl h with retCode := code } h').freed = (s.hdl h').freed ∧
      (upd s.hdl h { s.hdl h with retCode := code } h').written = (s.hdl h').written ∧
      (upd s.hdl h { s.hdl h with retCode := code } h').userRefs = (s.hdl h').userRefs ∧
      (upd s.hdl h { s.hdl h with retCode := code } h').threadRef = (s.hdl h').threadRef ∧
      (upd s.hdl h { s.hdl h with retCode := code } h').thread = (s.hdl h').thread ∧
      (upd s.hdl h { s.hdl h with retCode := code } h').ours = (s.hdl h').ours ∧
      (upd s.hdl h { s.hdl h with retCode := code } h').joinable = (s.hdl h').joinable ∧
      (upd s.hdl h { s.hdl h with retCode := code } h').orphan = (s.hdl h').orphan := by
    intro h'; by_cases e : h' = h
    · subst e; simp
    · rw [upd_ne _ _ e]; simp
  refine ⟨hi.k0, ?_, hi.tT, ?_, ?_, ?_, ?_, ?_, ?_, ?_, ?_, ?_, ?_, ?_, ?_, ?_, ?_, hi.fN⟩
  · intro h' hh'; simp only at hh' ⊢
    have := hi.lt_of_written hw
    rw [upd_ne _ _ (by omega)]; exact hi.hB h' hh'
  · intro h'; simp only [holders]; rw [(eH h').1, (eH h').2.1, (eH h').2.2.2.1, (eH h').2.2.2.2.1]; exact hi.hR h'
  · intro h'; simp only [holders]; rw [(eH h').2.1, (eH h').2.2.1, (eH h').2.2.2.1, (eH h').2.2.2.2.1]; exact hi.hL h'
  · intro h' hw'; simp only at hw' ⊢
    rw [(eH h').2.2.1] at hw'
    have e : h' ≠ h := by intro e; subst e; rw [hw] at hw'; cases hw'
    rw [upd_ne _ _ e]; exact hi.hU h' hw'
  · intro h' hlt hw'; simp only at hlt hw' ⊢; rw [(eH h').2.2.1] at hw'; exact hi.hS h' hlt hw'
  · intro c hc; simp only at hc ⊢
    have := hi.sC c hc
    rw [(eH c.h).2.2.1, (eH c.h).2.2.2.2.2.1]
    have e : (s.hdl c.h).thread ≠ t := by intro e; rw [e, hp] at this; cases this.2.2.2
    rw [upd_ne _ _ e]; exact this
  · intro t' h' hh'; simp only at hh' ⊢; rw [eh] at hh'; rw [(eH h').2.2.2.2.2.1]; exact hi.tH t' h' hh'
  · intro h' ho; simp only at ho ⊢; rw [(eH h').2.2.2.2.2.2.1] at ho; rw [(eH h').2.2.2.2.2.1, eh, (eH h').2.2.2.2.2.2.2.2]; exact hi.hO h' ho
  · intro t' h' hh'; simp only at hh' ⊢; rw [eh] at hh'; rw [(eH h').2.2.1, (eH h').2.2.2.2.2.2.1]; exact hi.hW t' h' hh'
  · intro h'; simp only; rw [(eH h').2.2.1, (eH h').2.2.2.2.2.2.1, (eH h').2.2.2.2.2.2.2.1]; exact hi.hJ h'
  · intro t' hp'; simp only at hp' ⊢
    have e : t' ≠ t := by intro e; subst e; simp at hp'
    rw [upd_ne _ _ e] at hp' ⊢
    obtain ⟨h', h1, h2⟩ := hi.tC t' hp'
    exact ⟨h', h1, by rw [(eH h').2.2.1, (eH h').2.2.2.2.1]; exact h2⟩
  · intro t' h' hp' hh'; simp only at hp' hh' ⊢
    have e : t' ≠ t := by intro e; subst e; simp at hp'
    rw [upd_ne _ _ e] at hp' hh'; exact hi.tR t' h' hp' hh'
  · intro t' m ho hv; simp only at ho hv ⊢
    rw [(eH _).2.2.1, (eH _).2.2.2.2.1, (eH _).2.2.2.2.2.1]; exact hi.lT t' m ho hv
  · intro t' h' hh'; simp only at hh' ⊢
    by_cases e : t' = t
    · subst e; simp at hh' ⊢
      rw [hh] at hh'; injection hh' with hh'; subst hh'; simp
    · rw [upd_ne _ _ e] at hh' ⊢
      have e2 : h' ≠ h := by intro e2; subst e2; exact e ((hi.tH t' h' hh').2.symm.trans hth)
      rw [upd_ne _ _ e2]; exact hi.jC t' h' hh'
  · intro h'; simp only; rw [(eH h').2.1]; exact hi.fL h'

theorem HInv.start_inv {s s' : State} {t : Nat} (hi : HInv s) (hk : KInv s) (hs : start s t = .ok s') : HInv s' := by
  obtain ⟨h, n, hph, _, hh, _, hpub, hspin, _, rfl⟩ := start_ok hs
  have hlt := (hi.tH t h hh).1
  have hth := (hi.tH t h hh).2
  have hw : (s.hdl h).written = true := by
    cases hw : (s.hdl h).written with
    | true => rfl
    | false => obtain ⟨c, hc, _⟩ := hi.hS h hlt hw; rw [hspin] at hc; cases hc
  have htr : (s.hdl h).threadRef = true := by
    obtain ⟨h', h1, h2⟩ := hi.tC t hph
    rw [hh] at h1; injection h1 with h1; subst h1; exact h2 hw
  have htlt : t < s.nT := hk.thr_lt (by rw [hph]; simp)
  have eh : ∀ t', (upd s.thr t { s.thr t with phase := .running } t').handle = (s.thr t').handle := by
    intro t'; by_cases e : t' = t
    · subst e; simp
    · rw [upd_ne _ _ e]
  refine ⟨hi.k0, hi.hB, ?_, hi.hR, hi.hL, hi.hU, hi.hS, ?_, ?_, ?_, ?_, hi.hJ, ?_, ?_, ?_, ?_, hi.fL, hi.fN⟩
  · intro t' ht' m; simp only at ht' ⊢
    rw [upd2_ne _ _ (by intro e; omega)]; exact hi.tT t' ht' m
  · intro c hc; simp only at hc; rw [hspin] at hc; cases hc
  · intro t' h' hh'; simp only at hh' ⊢; rw [eh] at hh'; exact hi.tH t' h' hh'
  · intro h' hh'; simp only at hh' ⊢; rw [eh]; exact hi.hO h' hh'
  · intro t' h' hh'; simp only at hh' ⊢; rw [eh] at hh'; exact hi.hW t' h' hh'
  · intro t' hp; simp only at hp ⊢
    have e : t' ≠ t := by intro e; subst e; simp at hp
    rw [upd_ne _ _ e] at hp ⊢; exact hi.tC t' hp
  · intro t' h' hp hh'; simp only at hp hh' ⊢
    by_cases e : t' = t
    · subst e; simp at hh'; rw [hh] at hh'; injection hh' with hh'; subst hh'
      exact ⟨n, hpub, by simp⟩
    · rw [upd_ne _ _ e] at hp hh'
      obtain ⟨m, h1, h2⟩ := hi.tR t' h' hp hh'
      exact ⟨m, h1, by rw [upd2_ne _ _ (by simp [e])]; exact h2⟩
  · intro t' m ho hv; simp only at ho hv ⊢
    by_cases e : t' = t ∧ m = n
    · obtain ⟨rfl, rfl⟩ := e; simp; exact ⟨hw, htr, hth⟩
    · rw [upd2_ne _ _ e] at hv ⊢; exact hi.lT t' m ho hv
  · intro t' h' hh'; simp only at hh' ⊢
    by_cases e : t' = t
    · subst e; simp at hh' ⊢
      have := (hi.jC t' h' hh').1 (.inl hph)
      exact this
    · rw [upd_ne _ _ e] at hh' ⊢; exact hi.jC t' h' hh'

/-- `p_uthread_current` by a running thread -/
theorem HInv.currentCore_inv {s : State} (hi : HInv s) (hk : KInv s) {t n : Nat} (hc : canAct s t)
    (hpub : (s.key 0).published = some n) : HInv (currentCore s t n).1 := by
  unfold PV.UThread.currentCore
  split
  · exact hi
  · rename_i hz
    simp only [Decidable.not_not] at hz
    have hnewH := hi.hB s.nH (Nat.le_refl _)
    have htlt : t < s.nT := hk.thr_lt (by rw [hc.1]; simp)
    have hforeign : (s.thr t).handle = none := by
      cases hh : (s.thr t).handle with
      | none => rfl
      | some h =>
        obtain ⟨m, h1, h2⟩ := hi.tR t h hc.1 hh
        rw [hpub] at h1; injection h1 with h1; subst h1; rw [hz] at h2; omega
    refine ⟨hi.k0, ?_, ?_, ?_, ?_, ?_, ?_, ?_, ?_, ?_, ?_, ?_, ?_, ?_, ?_, ?_, ?_, hi.fN⟩
    · intro h hh; simp only at hh ⊢; rw [upd_ne _ _ (by omega)]; exact hi.hB h (by omega)
    · intro t' ht' m; simp only at ht' ⊢
      rw [upd2_ne _ _ (by intro e; omega)]; exact hi.tT t' ht' m
    · intro h; simp only
      by_cases e : h = s.nH
      · subst e; simp [holders, currentInitRefCount]
      · rw [upd_ne _ _ e]; exact hi.hR h
    · intro h; simp only
      by_cases e : h = s.nH
      · subst e; simp [holders]
      · rw [upd_ne _ _ e]; exact hi.hL h
    · intro h; simp only
      by_cases e : h = s.nH
      · subst e; simp
      · rw [upd_ne _ _ e]; exact hi.hU h
    · intro h hh hw; simp only at hh hw ⊢
      by_cases e : h = s.nH
      · subst e; simp at hw
      · rw [upd_ne _ _ e] at hw; exact hi.hS h (by omega) hw
    · intro c hc'; simp only at hc' ⊢
      have := hi.sC c hc'
      rw [upd_ne _ _ (by omega)]; exact ⟨by omega, this.2⟩
    · intro t' h hh; simp only at hh ⊢
      have := hi.tH t' h hh
      rw [upd_ne _ _ (by omega)]; exact ⟨by omega, this.2⟩
    · intro h hh; simp only at hh ⊢
      by_cases e : h = s.nH
      · subst e; simp at hh
      · rw [upd_ne _ _ e] at hh ⊢; exact hi.hO h hh
    · intro t' h hh; simp only at hh ⊢
      have := hi.tH t' h hh
      rw [upd_ne _ _ (by omega)]; exact hi.hW t' h hh
    · intro h; simp only
      by_cases e : h = s.nH
      · subst e; simp
      · rw [upd_ne _ _ e]; exact hi.hJ h
    · intro t' hp; simp only at hp ⊢
      obtain ⟨h, h1, h2⟩ := hi.tC t' hp
      have := hi.tH t' h h1
      exact ⟨h, h1, by rw [upd_ne _ _ (by omega)]; exact h2⟩
    · intro t' h hp hh; simp only at hp hh ⊢
      have e : t' ≠ t := by intro e; subst e; rw [hforeign] at hh; cases hh
      obtain ⟨m, h1, h2⟩ := hi.tR t' h hp hh
      exact ⟨m, h1, by rw [upd2_ne _ _ (by simp [e])]; exact h2⟩
    · intro t' m ho hv; simp only at ho hv ⊢
      by_cases e : t' = t ∧ m = n
      · obtain ⟨rfl, rfl⟩ := e; simp
      · rw [upd2_ne _ _ e] at hv ⊢
        have := hi.lT t' m ho hv
        have hlt := hi.lt_of_written this.1
        rw [upd_ne _ _ (by omega)]; exact this
    · intro t' h hh; simp only at hh ⊢
      have := hi.tH t' h hh
      rw [upd_ne _ _ (by omega)]; exact hi.jC t' h hh
    · intro h; simp only
      by_cases e : h = s.nH
      · subst e; simp; intro hm; have := (hi.fL s.nH).mp hm; rw [hnewH] at this; cases this
      · rw [upd_ne _ _ e]; exact hi.fL h

/-- what `p_uthread_current` returns: the calling thread's own handle, alive in the ghost sense -/
theorem currentCore_handle {s : State} (hi : HInv s) (hk : KInv s) {t n : Nat} (hpub : (s.key 0).published = some n) :
    ((currentCore s t n).1.hdl (currentCore s t n).2).written = true ∧
    ((currentCore s t n).1.hdl (currentCore s t n).2).threadRef = true ∧
    ((currentCore s t n).1.hdl (currentCore s t n).2).thread = t := by
  unfold currentCore
  split
  · rename_i hv
    exact hi.lT t n (hk.kP 0 n hpub).2.1 hv
  · simp

theorem HInv.current_inv {s s' : State} {t : Nat} (hi : HInv s) (hk : KInv s) (hs : current s t = .ok s') : HInv s' := by
  obtain ⟨n, hc, _, hpub, rfl⟩ := current_ok hs
  exact (hi.currentCore_inv hk hc hpub).logs _ _ _ _


theorem HInv.exit_inv {s s' : State} {t : Nat} {code : Int} (hi : HInv s) (hk : KInv s) (hp : PInv s) (hs : exit s t code = .ok s') : HInv s' := by
  obtain ⟨n, hc, _, hpub, hf, hcase⟩ := exit_ok hs
  have h1 := hi.currentCore_inv hk hc hpub
  obtain ⟨hw, htr, hth⟩ := currentCore_handle hi hk (t := t) hpub
  rcases hcase with ⟨_, rfl⟩ | ⟨ho, rfl⟩
  · exact h1
  · have hh := h1.hO _ ho (currentCore_orphan hp hi hk hpub)
    rw [hth] at hh
    exact h1.exitWrite (by rw [currentCore_thr]; exact hc.1) hh

theorem HInv.step {s s' : State} {e : Ev} (hi : HInv s) (hk : KInv s) (hp : PInv s) (hs : step s e = .ok s') : HInv s' := by
  cases e with
  | spawn => exact hi.spawn_inv hk hs
  | createBegin a j n => exact hi.createBegin_inv hk hs
  | createEnd a => exact hi.createEnd_inv hs
  | start t => exact hi.start_inv hk hs
  | exit t c => exact hi.exit_inv hk hp hs
  | ret t => exact hi.ret_inv hs
  | threadEnd t => exact hi.threadEnd_inv hk hs
  | ref a h => exact hi.ref_inv hs
  | unref a h => obtain ⟨_, _, hw, hu⟩ := unref_ok hs; exact hi.unrefCore_user hw hu
  | join a h => exact hi.join_inv hs
  | current t => exact hi.current_inv hk hs
  | localNew a n => exact hi.localNew_inv hs
  | localFree a k => exact hi.localFree_inv hs
  | keyCreate t k => exact hi.keyCreate_inv hk hs
  | keyCas t k => exact hi.keyCas_inv hs
  | setLocal t k v =>
    obtain ⟨n, hc, hk0, _, _, hp, rfl⟩ := setLocal_ok hs
    exact (hi.userTls hk (v := v) hc hk0 hp).logs _ _ _ _
  | replaceLocal t k v =>
    obtain ⟨n, hc, hk0, _, _, hp, rfl⟩ := replaceLocal_ok hs
    exact (hi.userTls hk (v := v) hc hk0 hp).logs _ _ _ _
  | getLocal t k =>
    obtain ⟨n, _, _, _, _, _, rfl⟩ := getLocal_ok hs
    exact hi.logs _ _ _ _
  | createFail a => exact hi.createFail_inv hs
  | joinFail a h =>
    obtain ⟨_, _, _, _, _, rfl⟩ := joinFail_ok hs
    exact hi.logs _ _ _ _
  | tlsFail t k g =>
    obtain ⟨_, _, _, _, _, rfl⟩ := tlsFail_ok hs
    exact hi.logs _ _ _ _
  | currentFail t => exact hi.currentFail_inv hs
  | startUnstored t => exact hi.startUnstored_inv hs
  | storeFail t k r =>
    obtain ⟨n, _, _, _, _, _, rfl⟩ := storeFail_ok hs
    exact hi.logs _ _ _ _
  | retUnstored t h => exact hi.retUnstored_inv hp hs

theorem unrefCore_fields {s s' : State} {h : Nat} {own : Bool} (hs : unrefCore s h own = .ok s') :
    ∃ x' fl, s' = { s with hdl := upd s.hdl h x', freeLog := fl } ∧ x'.orphan = (s.hdl h).orphan ∧ x'.thread = (s.hdl h).thread ∧
      x'.ours = (s.hdl h).ours ∧ x'.written = (s.hdl h).written ∧ x'.retCode = (s.hdl h).retCode ∧
      (own = false → x'.threadRef = (s.hdl h).threadRef) := by
  obtain ⟨_, ⟨_, rfl⟩ | ⟨_, rfl⟩⟩ := unrefCore_ok hs
  · exact ⟨_, _, rfl, by simp [decd], by simp [decd], by simp [decd], by simp [decd], by simp [decd], fun ho => by simp [decd, ho]⟩
  · exact ⟨_, s.freeLog, rfl, by simp [decd], by simp [decd], by simp [decd], by simp [decd], by simp [decd], fun ho => by simp [decd, ho]⟩

/-- `p_uthread_unref` on a handle that is an ordinary one, or by a user -/
theorem PInv.unrefCore {s s' : State} {h : Nat} {own : Bool} (hp : PInv s) (hs : unrefCore s h own = .ok s')
    (hc : own = false ∨ (s.hdl h).orphan = false) : PInv s' := by
  obtain ⟨x', fl, rfl, a, b, c, d, e, f⟩ := unrefCore_fields hs
  refine hp.updH a ?_
  intro ho
  refine ⟨b, c, d, e, fun htr => ?_⟩
  rcases hc with hc | hc
  · rw [f hc]; exact htr
  · rw [hc] at ho; cases ho

theorem PInv.dtorOne {s s' : State} {t n : Nat} (hp : PInv s) (hs : dtorOne t s n = .ok s') : PInv s' := by
  rcases dtorOne_ok hs with ⟨_, rfl⟩ | ⟨hd, ho, rfl⟩ | ⟨hd, ho, hu⟩
  · exact hp
  · refine hp.frame rfl (Nat.le_refl _) (fun _ => ⟨rfl, rfl, rfl, rfl⟩) ?_
    intro t' n' a b; simp only [cleared] at a b ⊢
    by_cases c : t' = t ∧ n' = n
    · obtain ⟨rfl, rfl⟩ := c; simp [upd2] at b
    · rw [upd2_ne _ _ c] at b ⊢; exact ⟨a, b, rfl⟩
  · have hc : PInv (cleared s t n) := by
      refine hp.frame rfl (Nat.le_refl _) (fun _ => ⟨rfl, rfl, rfl, rfl⟩) ?_
      intro t' n' a b; simp only [cleared] at a b ⊢
      by_cases c : t' = t ∧ n' = n
      · obtain ⟨rfl, rfl⟩ := c; simp [upd2] at b
      · rw [upd2_ne _ _ c] at b ⊢; exact ⟨a, b, rfl⟩
    exact hc.unrefCore hu (.inr (hp.pS t n ho hd.2.2))

theorem PInv.runDtors {t : Nat} : ∀ {l : List Nat} {s s' : State}, PInv s → runDtors t s l = .ok s' → PInv s'
  | [], s, s', hp, hs => by unfold PV.UThread.runDtors at hs; injection hs with hs; exact hs ▸ hp
  | n :: r, s, s', hp, hs => by
    obtain ⟨s1, h1, h2⟩ := runDtors_cons_ok hs
    exact PInv.runDtors (hp.dtorOne h1) h2

theorem PInv.step {s s' : State} {e : Ev} (hp : PInv s) (hi : HInv s) (hk : KInv s) (hs : step s e = .ok s') : PInv s' := by
  have noprox : ∀ t h, (s.thr t).handle = some h → (s.thr t).proxy = none := by
    intro t h hh
    cases hx : (s.thr t).proxy with
    | none => rfl
    | some h' => rw [(hp.pP t h' hx).1] at hh; cases hh
  cases e with
  | spawn =>
    have := spawn_ok hs; subst this
    have hnew := hk.tP s.nT (Nat.le_refl _)
    have h1 := hp.updT (t := s.nT) (x := { phase := .running }) (by rw [hnew]) (by intro hx; rw [hnew] at hx; exact absurd rfl hx)
    exact ⟨h1.pP, h1.pO, h1.pS⟩
  | createBegin a j n =>
    obtain ⟨_, _, rfl⟩ := createBegin_ok hs
    have hnew := hk.tP s.nT (Nat.le_refl _)
    have hnewH := hi.hB s.nH (Nat.le_refl _)
    have h1 : PInv { s with hdl := upd s.hdl s.nH { joinable := j, thread := s.nT }, freeLog := s.freeLog } :=
      hp.updH (by simp [hnewH]) (by intro ho; rw [hnewH] at ho; cases ho)
    have h2 := h1.updT (t := s.nT) (x := { phase := .created, handle := some s.nH }) (by rw [hnew]) (by intro hx; rw [hnew] at hx; exact absurd rfl hx)
    exact h2.of (fun _ => rfl) (fun t h hx => by obtain ⟨p1, p2, _, _, _, _, _, _, p9, _⟩ := h2.pP t h hx; exact ⟨p1, p2, p9, id⟩)
      (Nat.le_succ _) (fun h ho => ⟨rfl, ho, rfl, rfl, rfl, fun x => .inl x⟩) (fun _ ho => ho) (fun _ _ a b => .inl ⟨a, b, by first | rfl | trivial⟩)
  | createEnd a =>
    obtain ⟨c, hspin, _, rfl⟩ := createEnd_ok hs
    have hw := (hi.sC c hspin).2.1
    have hor : (s.hdl c.h).orphan = false := by
      cases hx : (s.hdl c.h).orphan with
      | false => rfl
      | true => have := (hp.pP _ _ (hp.pO _ hx)).2.2.2.2.2.2.1; rw [hw] at this; cases this
    have h1 := hp.updH (h0 := c.h) (fl := s.freeLog) (x' := { s.hdl c.h with
        refCount := createInitRefCount, ours := true, joinable := c.joinable, named := c.named,
        written := true, userRefs := 1, threadRef := true }) rfl (by intro ho; rw [hor] at ho; cases ho)
    exact h1.of (fun _ => rfl) (fun t h hx => by obtain ⟨p1, p2, _, _, _, _, _, _, p9, _⟩ := h1.pP t h hx; exact ⟨p1, p2, p9, id⟩)
      (Nat.le_refl _) (fun h ho => ⟨rfl, ho, rfl, rfl, rfl, fun x => .inl x⟩) (fun _ ho => ho) (fun _ _ a b => .inl ⟨a, b, by first | rfl | trivial⟩)
  | start t =>
    obtain ⟨hd, n, hph, _, hh, _, hpub, hspin, _, rfl⟩ := start_ok hs
    have hnp := noprox t hd hh
    have h1 := hp.updT (t := t) (x := { s.thr t with phase := .running }) rfl (by intro hx; exact absurd hnp hx)
    have hor : (s.hdl hd).orphan = false := by
      cases hx : (s.hdl hd).orphan with
      | false => rfl
      | true =>
        have := hp.pO _ hx; rw [(hi.tH t hd hh).2, hnp] at this; cases this
    refine h1.of (fun _ => rfl) (fun t' h hx => by obtain ⟨p1, p2, _, _, _, _, _, _, p9, _⟩ := h1.pP t' h hx; exact ⟨p1, p2, p9, id⟩)
      (Nat.le_refl _) (fun h ho => ⟨rfl, ho, rfl, rfl, rfl, fun x => .inl x⟩) (fun _ ho => ho) ?_
    intro t' n' a b; simp only at a b ⊢
    by_cases c : t' = t ∧ n' = n
    · obtain ⟨rfl, rfl⟩ := c; right; simp [upd2, hor]
    · rw [upd2_ne _ _ c] at b ⊢; exact .inl ⟨a, b, by first | rfl | trivial⟩
  | exit t c =>
    obtain ⟨n, hc, _, hpub, _, hcase⟩ := exit_ok hs
    have h1 := hp.currentCore_inv hi t n
    rcases hcase with ⟨_, rfl⟩ | ⟨ho, rfl⟩
    · exact h1
    · have hi1 := hi.currentCore_inv hk hc hpub
      have hor := currentCore_orphan hp hi hk (t := t) hpub
      have hth := (currentCore_handle hi hk (t := t) hpub).2.2
      have hlink := hi1.hO _ ho hor
      rw [hth] at hlink
      have hnp : ((currentCore s t n).1.thr t).proxy = none := by
        cases hx : ((currentCore s t n).1.thr t).proxy with
        | none => rfl
        | some h' => rw [(h1.pP t h' hx).1] at hlink; cases hlink
      have h2 := h1.updH (h0 := (currentCore s t n).2) (fl := (currentCore s t n).1.freeLog)
        (x' := { (currentCore s t n).1.hdl (currentCore s t n).2 with retCode := c }) rfl (by intro hx; rw [hor] at hx; cases hx)
      have h3 := h2.updT (t := t) (x := { (currentCore s t n).1.thr t with phase := .finished, exitArg := some c }) rfl
        (by intro hx; exact absurd hnp hx)
      exact h3
  | ret t =>
    obtain ⟨hc, _, rfl⟩ := ret_ok hs
    have hnp := ret_proxy hs
    exact hp.updT rfl (by intro hx; exact absurd hnp hx)
  | threadEnd t =>
    obtain ⟨hph, s1, hr, rfl⟩ := threadEnd_ok hs
    have h1 := hp.runDtors hr
    have ht := (runDtors_thr hr).1
    refine h1.updT rfl ?_
    intro _
    exact ⟨rfl, rfl, by simp, by intro hx; simp at hx⟩
  | ref a h =>
    obtain ⟨_, _, _, _, rfl⟩ := ref_ok hs
    exact hp.updH (fl := s.freeLog) rfl (fun _ => ⟨rfl, rfl, rfl, rfl, id⟩)
  | unref a h =>
    obtain ⟨_, _, _, hu⟩ := unref_ok hs
    exact hp.unrefCore hu (.inl rfl)
  | join a h =>
    obtain ⟨_, _, _, _, ⟨_, rfl⟩ | ⟨_, _, _, rfl⟩⟩ := join_ok hs
    · exact hp.frame rfl (Nat.le_refl _) (fun _ => ⟨rfl, rfl, rfl, rfl⟩) (fun _ _ a b => ⟨a, b, by first | rfl | trivial⟩)
    · have := hp.updH (h0 := h) (fl := s.freeLog) (x' := { s.hdl h with joined := true }) rfl (fun _ => ⟨rfl, rfl, rfl, rfl, id⟩)
      exact this.frame rfl (Nat.le_refl _) (fun _ => ⟨rfl, rfl, rfl, rfl⟩) (fun _ _ a b => ⟨a, b, by first | rfl | trivial⟩)
  | current t =>
    obtain ⟨n, _, _, _, rfl⟩ := current_ok hs
    have h1 := hp.currentCore_inv hi t n
    exact h1.frame rfl (Nat.le_refl _) (fun _ => ⟨rfl, rfl, rfl, rfl⟩) (fun _ _ a b => ⟨a, b, by first | rfl | trivial⟩)
  | localNew a n =>
    obtain ⟨_, rfl⟩ := localNew_ok hs
    exact hp.frame rfl (Nat.le_refl _) (fun _ => ⟨rfl, rfl, rfl, rfl⟩) (fun _ _ a b => ⟨a, b, by first | rfl | trivial⟩)
  | localFree a k =>
    obtain ⟨_, _, _, _, ⟨_, rfl⟩ | ⟨n, hpub, rfl⟩⟩ := localFree_ok hs
    · exact hp.frame rfl (Nat.le_refl _) (fun _ => ⟨rfl, rfl, rfl, rfl⟩) (fun _ _ a b => ⟨a, b, by first | rfl | trivial⟩)
    · refine hp.frame rfl (Nat.le_refl _) (fun _ => ⟨rfl, rfl, rfl, rfl⟩) ?_
      intro t' n' a b; simp only at a b ⊢
      by_cases e : n' = n
      · subst e; simp [upd] at a; exact ⟨a, b, by first | rfl | trivial⟩
      · rw [upd_ne _ _ e] at a; exact ⟨a, b, by first | rfl | trivial⟩
  | keyCreate t k =>
    obtain ⟨_, _, _, _, _, rfl⟩ := keyCreate_ok hs
    refine hp.frame rfl (Nat.le_refl _) (fun t' => ?_) ?_
    · by_cases e : t' = t
      · subst e; simp [upd]
      · simp only; rw [upd_ne _ _ e]; exact ⟨rfl, rfl, rfl, rfl⟩
    · intro t' n' a b; simp only at a b ⊢
      by_cases e : n' = s.nN
      · subst e; exact absurd ((hk.nB _ (Nat.le_refl _)).2 t') b
      · rw [upd_ne _ _ e] at a; exact ⟨a, b, by first | rfl | trivial⟩
  | keyCas t k =>
    obtain ⟨n, hpd, _, ⟨_, rfl⟩ | ⟨_, rfl⟩⟩ := keyCas_ok hs
    · refine hp.frame rfl (Nat.le_refl _) (fun t' => ?_) (fun _ _ a b => ⟨a, b, by first | rfl | trivial⟩)
      by_cases e : t' = t
      · subst e; simp [upd]
      · simp only; rw [upd_ne _ _ e]; exact ⟨rfl, rfl, rfl, rfl⟩
    · refine hp.frame rfl (Nat.le_refl _) (fun t' => ?_) ?_
      · by_cases e : t' = t
        · subst e; simp [upd]
        · simp only; rw [upd_ne _ _ e]; exact ⟨rfl, rfl, rfl, rfl⟩
      · intro t' n' a b; simp only at a b ⊢
        by_cases e : n' = n
        · subst e; simp [upd] at a; exact ⟨a, b, by first | rfl | trivial⟩
        · rw [upd_ne _ _ e] at a; exact ⟨a, b, by first | rfl | trivial⟩
  | setLocal t k v =>
    obtain ⟨n, _, hk0, _, _, hpub, rfl⟩ := setLocal_ok hs
    have hown := (hk.kP k n hpub).2.1
    refine hp.frame rfl (Nat.le_refl _) (fun _ => ⟨rfl, rfl, rfl, rfl⟩) ?_
    intro t' n' a b; simp only at a b ⊢
    have c : ¬ (t' = t ∧ n' = n) := by rintro ⟨_, rfl⟩; rw [hown] at a; exact hk0 a
    rw [upd2_ne _ _ c] at b ⊢; exact ⟨a, b, by first | rfl | trivial⟩
  | replaceLocal t k v =>
    obtain ⟨n, _, hk0, _, _, hpub, rfl⟩ := replaceLocal_ok hs
    have hown := (hk.kP k n hpub).2.1
    refine hp.frame rfl (Nat.le_refl _) (fun _ => ⟨rfl, rfl, rfl, rfl⟩) ?_
    intro t' n' a b; simp only at a b ⊢
    have c : ¬ (t' = t ∧ n' = n) := by rintro ⟨_, rfl⟩; rw [hown] at a; exact hk0 a
    rw [upd2_ne _ _ c] at b ⊢; exact ⟨a, b, by first | rfl | trivial⟩
  | getLocal t k =>
    obtain ⟨n, _, _, _, _, _, rfl⟩ := getLocal_ok hs
    exact hp.frame rfl (Nat.le_refl _) (fun _ => ⟨rfl, rfl, rfl, rfl⟩) (fun _ _ a b => ⟨a, b, by first | rfl | trivial⟩)
  | createFail a =>
    obtain ⟨_, _, rfl⟩ := createFail_ok hs
    have hnewH := hi.hB s.nH (Nat.le_refl _)
    have h1 := hp.updH (h0 := s.nH) (fl := s.freeLog ++ [s.nH]) (x' := { freed := true, written := true }) (by simp [hnewH])
      (by intro ho; rw [hnewH] at ho; cases ho)
    exact h1.of (fun _ => rfl) (fun t h hx => by obtain ⟨p1, p2, _, _, _, _, _, _, p9, _⟩ := h1.pP t h hx; exact ⟨p1, p2, p9, id⟩)
      (Nat.le_succ _) (fun h ho => ⟨rfl, ho, rfl, rfl, rfl, fun x => .inl x⟩) (fun _ ho => ho) (fun _ _ a b => .inl ⟨a, b, by first | rfl | trivial⟩)
  | joinFail a h =>
    obtain ⟨_, _, _, _, _, rfl⟩ := joinFail_ok hs
    exact hp.frame rfl (Nat.le_refl _) (fun _ => ⟨rfl, rfl, rfl, rfl⟩) (fun _ _ a b => ⟨a, b, by first | rfl | trivial⟩)
  | tlsFail t k g =>
    obtain ⟨_, _, _, _, _, rfl⟩ := tlsFail_ok hs
    exact hp.frame rfl (Nat.le_refl _) (fun _ => ⟨rfl, rfl, rfl, rfl⟩) (fun _ _ a b => ⟨a, b, by first | rfl | trivial⟩)
  | currentFail t =>
    obtain ⟨_, _, rfl⟩ := currentFail_ok hs
    have hnewH := hi.hB s.nH (Nat.le_refl _)
    have h1 := hp.updH (h0 := s.nH) (fl := s.freeLog ++ [s.nH]) (x' := { freed := true, written := true }) (by simp [hnewH])
      (by intro ho; rw [hnewH] at ho; cases ho)
    exact h1.of (fun _ => rfl) (fun t h hx => by obtain ⟨p1, p2, _, _, _, _, _, _, p9, _⟩ := h1.pP t h hx; exact ⟨p1, p2, p9, id⟩)
      (Nat.le_succ _) (fun h ho => ⟨rfl, ho, rfl, rfl, rfl, fun x => .inl x⟩) (fun _ ho => ho) (fun _ _ a b => .inl ⟨a, b, by first | rfl | trivial⟩)
  | storeFail t k r =>
    obtain ⟨n, _, _, _, _, _, rfl⟩ := storeFail_ok hs
    exact hp.frame rfl (Nat.le_refl _) (fun _ => ⟨rfl, rfl, rfl, rfl⟩) (fun _ _ a b => ⟨a, b, by first | rfl | trivial⟩)
  | startUnstored t =>
    obtain ⟨h, hph, _, hh, hspin, hv, _, rfl⟩ := startUnstored_ok hs
    have hth := (hi.tH t h hh).2
    have hlt := (hi.tH t h hh).1
    have hnp := noprox t h hh
    have hw : (s.hdl h).written = true := by
      cases hw : (s.hdl h).written with
      | true => rfl
      | false => obtain ⟨c, hc, _⟩ := hi.hS h hlt hw; rw [hspin] at hc; cases hc
    have how := hi.hW t h hh hw
    obtain ⟨h', a1, a2⟩ := hi.tC t hph
    rw [hh] at a1; injection a1 with a1; subst a1
    have hjc := (hi.jC t h hh).1 (.inl hph)
    have horf : (s.hdl h).orphan = false := by
      cases hx : (s.hdl h).orphan with
      | false => rfl
      | true => have := hp.pO _ hx; rw [hth, hnp] at this; cases this
    refine ⟨?_, ?_, ?_⟩
    · intro t' h' hx; simp only at hx ⊢
      by_cases e : t' = t
      · subst e; simp [upd] at hx; subst hx
        simp [upd, hlt, hth, how, hw, hjc.1, hjc.2, a2 hw]
      · rw [upd_ne _ _ e] at hx ⊢
        obtain ⟨p1, p2, p3, p4, p5, p6, p7, p8, p9, p10⟩ := hp.pP t' h' hx
        have e2 : h' ≠ h := by intro e2; subst e2; rw [horf] at p5; cases p5
        rw [upd_ne _ _ e2]; exact ⟨p1, p2, p3, p4, p5, p6, p7, p8, p9, p10⟩
    · intro h' ho; simp only at ho ⊢
      by_cases e : h' = h
      · subst e; simp [upd, hth]
      · rw [upd_ne _ _ e] at ho ⊢
        have := hp.pO h' ho
        have e2 : (s.hdl h').thread ≠ t := by intro e2; rw [e2, hnp] at this; cases this
        rw [upd_ne _ _ e2]; exact this
    · intro t' n a b; simp only at a b ⊢
      have := hp.pS t' n a b
      have e : s.tls t' n - 1 ≠ h := by
        intro e
        have hl := hi.lT t' n a b
        rw [e, hth] at hl
        have ht' := hl.2.2; subst ht'
        have pub := hk.kV _ n b; rw [a] at pub
        simp only [valueOf, pub] at hv; exact b hv
      rw [upd_ne _ _ e]; exact this
  | retUnstored t h =>
    obtain ⟨hc, hpx, s1, hu, rfl⟩ := retUnstored_ok hs
    obtain ⟨p1, p2, _, p4, _, _, _, _, _, _⟩ := hp.pP t h hpx
    obtain ⟨x', fl, rfl, a, b, c, d, e, _⟩ := unrefCore_fields hu
    refine hp.of ?_ ?_ (Nat.le_refl _) ?_ ?_ ?_
    · intro t'; simp only
      by_cases e' : t' = t
      · subst e'; simp [upd]
      · rw [upd_ne _ _ e']
    · intro t' h' hx; simp only
      obtain ⟨q1, q2, _, _, _, _, _, _, q9, _⟩ := hp.pP t' h' hx
      by_cases e' : t' = t
      · subst e'; simp [upd, q1, q2]
      · rw [upd_ne _ _ e']; exact ⟨q1, q2, q9, id⟩
    · intro h' ho; simp only
      by_cases e' : h' = h
      · subst e'; simp only [upd, if_true]
        refine ⟨b, by rw [a]; exact ho, c, d, e, fun _ => .inr ?_⟩
        rw [p4]; simp
      · rw [upd_ne _ _ e']; exact ⟨rfl, ho, rfl, rfl, rfl, fun x => .inl x⟩
    · intro h' ho; simp only at ho
      by_cases e' : h' = h
      · subst e'; simp only [upd, if_true] at ho; rw [a] at ho; exact ho
      · rw [upd_ne _ _ e'] at ho; exact ho
    · intro t' n' ha hb; simp only at ha hb ⊢
      by_cases e' : s.tls t' n' - 1 = h
      · right; rw [e']; simp only [upd, if_true]; rw [a, ← e']; exact hp.pS _ _ ha hb
      · refine .inl ⟨ha, hb, ?_⟩; first | rfl | trivial

/-- all three invariants hold in every reachable state -/
theorem Reach.inv3 {s : State} (h : Reach s) : KInv s ∧ HInv s ∧ PInv s := by
  induction h with
  | init => exact ⟨KInv.init, HInv.init, PInv.init⟩
  | step e _ hs ih => exact ⟨ih.1.step hs, ih.2.1.step ih.1 ih.2.2 hs, ih.2.2.step ih.2.1 ih.1 hs⟩

theorem Reach.pinv {s : State} (h : Reach s) : PInv s := h.inv3.2.2

/-- both invariants hold in every reachable state -/
theorem Reach.inv {s : State} (h : Reach s) : KInv s ∧ HInv s := ⟨h.inv3.1, h.inv3.2.1⟩

/-! ## along disciplined histories: a freed handle has no holder; no step touches a freed handle -/

def FInvH (hdl : Nat → Handle) : Prop := ∀ h, (hdl h).freed = true → (hdl h).userRefs = 0 ∧ (hdl h).threadRef = false
def FInv (s : State) : Prop := FInvH s.hdl

theorem FInvH.upd {hdl : Nat → Handle} (hf : FInvH hdl) (h0 : Nat) (x' : Handle)
    (c : x'.freed = true → x'.userRefs = 0 ∧ x'.threadRef = false) : FInvH (upd hdl h0 x') := by
  intro h; by_cases e : h = h0
  · subst e; simpa using c
  · rw [upd_ne _ _ e]; exact hf h

theorem FInv.alive {s : State} (hf : FInv s) {h : Nat} (hh : 0 < (s.hdl h).userRefs ∨ (s.hdl h).threadRef = true) :
    (s.hdl h).freed = false := by
  cases hfr : (s.hdl h).freed with
  | false => rfl
  | true =>
    have := hf h hfr
    rcases hh with hh | hh
    · omega
    · rw [this.2] at hh; cases hh

theorem FInv.init : FInv init := by intro h hh; simp [PV.UThread.init] at hh

theorem currentCore_FInv {s : State} (hf : FInv s) (t n : Nat) : FInv (currentCore s t n).1 := by
  unfold currentCore; split
  · exact hf
  · exact FInvH.upd hf _ _ (by simp)

/-- the library key's destructor drops the last reference only when no user reference is left -/
theorem FInv.libDtor {s s' : State} (hf : FInv s) (hi : HInv s) {t n : Nat} (ho : (s.nkey n).owner = 0) (hv : s.tls t n ≠ 0)
    (hs : unrefCore (cleared s t n) (s.tls t n - 1) true = .ok s') : FInv s' := by
  obtain ⟨_, htr, _⟩ := hi.lT t n ho hv
  obtain ⟨hfr, ⟨hc, rfl⟩ | ⟨_, rfl⟩⟩ := unrefCore_ok hs
  · refine FInvH.upd hf _ _ ?_
    intro _
    have h1 := hi.hR _ hfr
    simp only [cleared] at hc
    simp only [holders, htr, unrefFreesWhenOldIs] at h1 hc
    simp [decd, cleared]; simp at h1; omega
  · refine FInvH.upd hf _ _ ?_
    simp only [decd, cleared] at hfr ⊢; simp [hfr]

theorem FInv.dtorOne_inv {s s' : State} {t n : Nat} (hf : FInv s) (hi : HInv s) (hs : dtorOne t s n = .ok s') : FInv s' := by
  rcases dtorOne_ok hs with ⟨_, rfl⟩ | ⟨_, _, rfl⟩ | ⟨hd, ho, hu⟩
  · exact hf
  · exact hf
  · exact hf.libDtor hi ho hd.2.2 hu

theorem FInv.runDtors_inv {t : Nat} : ∀ {l : List Nat} {s s' : State}, FInv s → HInv s → KInv s → (s.thr t).phase = .finished →
    runDtors t s l = .ok s' → FInv s'
  | [], s, s', hf, _, _, _, hs => by unfold PV.UThread.runDtors at hs; injection hs with hs; exact hs ▸ hf
  | n :: r, s, s', hf, hi, hk, hp, hs => by
    obtain ⟨s1, h1, h2⟩ := runDtors_cons_ok hs
    exact FInv.runDtors_inv (hf.dtorOne_inv hi h1) (hi.dtorOne_inv hk hp h1) (hk.dtorOne h1)
      (by rw [(dtorOne_thr h1).1]; exact hp) h2

theorem FInv.step {s s' : State} {e : Ev} (hf : FInv s) (hi : HInv s) (hk : KInv s) (hpi : PInv s) (hp : Permitted s e)
    (hs : step s e = .ok s') : FInv s' := by
  cases e with
  | spawn => have := spawn_ok hs; subst this; exact hf
  | createBegin a j n => obtain ⟨_, _, rfl⟩ := createBegin_ok hs; exact FInvH.upd hf _ _ (by simp)
  | createEnd a =>
    obtain ⟨c, hc, _, rfl⟩ := createEnd_ok hs
    have := (hi.hU c.h (hi.sC c hc).2.1).1
    exact FInvH.upd hf _ _ (by simp [this])
  | start t => obtain ⟨_, _, _, _, _, _, _, _, _, rfl⟩ := start_ok hs; exact hf
  | exit t c =>
    obtain ⟨n, _, _, _, _, ⟨_, rfl⟩ | ⟨_, rfl⟩⟩ := exit_ok hs
    · exact currentCore_FInv hf t n
    · refine FInvH.upd (currentCore_FInv hf t n) _ _ ?_
      intro hfr; exact currentCore_FInv hf t n _ hfr
  | ret t => obtain ⟨_, _, rfl⟩ := ret_ok hs; exact hf
  | threadEnd t =>
    obtain ⟨hph, s1, hr, rfl⟩ := threadEnd_ok hs
    have : FInv s1 := hf.runDtors_inv hi hk hph hr
    exact this
  | ref a h =>
    obtain ⟨_, _, _, hfr, rfl⟩ := ref_ok hs
    exact FInvH.upd hf _ _ (by simp [hfr])
  | unref a h =>
    obtain ⟨_, _, _, hu⟩ := unref_ok hs
    obtain ⟨hfr, ⟨hc, rfl⟩ | ⟨_, rfl⟩⟩ := unrefCore_ok hu
    · refine FInvH.upd hf _ _ ?_
      intro _
      have h1 := hi.hR _ hfr
      have hp' : 0 < (s.hdl h).userRefs := hp
      simp only [holders, unrefFreesWhenOldIs] at h1 hc
      by_cases htr : (s.hdl h).threadRef = true <;> simp [htr] at h1 <;> simp [decd, htr] <;> omega
    · refine FInvH.upd hf _ _ ?_
      simp only [decd]; simp [hfr]
  | join a h =>
    obtain ⟨_, _, _, hfr, ⟨_, rfl⟩ | ⟨_, _, _, rfl⟩⟩ := join_ok hs
    · exact hf
    · exact FInvH.upd hf _ _ (by simp [hfr])
  | current t => obtain ⟨n, _, _, _, rfl⟩ := current_ok hs; exact currentCore_FInv hf t n
  | localNew a n => obtain ⟨_, rfl⟩ := localNew_ok hs; exact hf
  | localFree a k => obtain ⟨_, _, _, _, ⟨_, rfl⟩ | ⟨n, _, rfl⟩⟩ := localFree_ok hs <;> exact hf
  | keyCreate t k => obtain ⟨_, _, _, _, _, rfl⟩ := keyCreate_ok hs; exact hf
  | keyCas t k => obtain ⟨n, _, _, ⟨_, rfl⟩ | ⟨_, rfl⟩⟩ := keyCas_ok hs <;> exact hf
  | setLocal t k v => obtain ⟨n, _, _, _, _, _, rfl⟩ := setLocal_ok hs; exact hf
  | replaceLocal t k v => obtain ⟨n, _, _, _, _, _, rfl⟩ := replaceLocal_ok hs; exact hf
  | getLocal t k => obtain ⟨n, _, _, _, _, _, rfl⟩ := getLocal_ok hs; exact hf
  | createFail a => obtain ⟨_, _, rfl⟩ := createFail_ok hs; exact FInvH.upd hf _ _ (by simp)
  | joinFail a h => obtain ⟨_, _, _, _, _, rfl⟩ := joinFail_ok hs; exact hf
  | tlsFail t k g => obtain ⟨_, _, _, _, _, rfl⟩ := tlsFail_ok hs; exact hf
  | currentFail t => obtain ⟨_, _, rfl⟩ := currentFail_ok hs; exact FInvH.upd hf _ _ (by simp)
  | storeFail t k r => obtain ⟨n, _, _, _, _, _, rfl⟩ := storeFail_ok hs; exact hf
  | startUnstored t =>
    obtain ⟨h, _, _, _, _, _, _, rfl⟩ := startUnstored_ok hs
    refine FInvH.upd hf _ _ ?_
    intro hfr; exact hf h hfr
  | retUnstored t h =>
    obtain ⟨hc, hpx, s1, hu, rfl⟩ := retUnstored_ok hs
    have htr := (hpi.pP t h hpx).2.2.2.2.2.2.2.2.2 hc.1
    obtain ⟨hfr, ⟨hcnt, rfl⟩ | ⟨_, rfl⟩⟩ := unrefCore_ok hu
    · refine FInvH.upd hf _ _ ?_
      intro _
      have h1 := hi.hR _ hfr
      simp only [holders, unrefFreesWhenOldIs, htr] at h1 hcnt
      simp [decd]; simp at h1; omega
    · refine FInvH.upd hf _ _ ?_
      simp only [decd]; simp [hfr]

theorem DReach.inv {s : State} (h : DReach s) : KInv s ∧ HInv s ∧ FInv s := by
  induction h with
  | init => exact ⟨KInv.init, HInv.init, FInv.init⟩
  | step e hd hp hs ih => exact ⟨ih.1.step hs, ih.2.1.step ih.1 hd.reach.pinv hs, ih.2.2.step ih.2.1 ih.1 hd.reach.pinv hp hs⟩

theorem resolve_no_uaf (s : State) (k h : Nat) : resolve s k ≠ .error (.useAfterFree h) := by
  intro hs; unfold resolve at hs
  split at hs
  · cases hs
  · split at hs <;> cases hs

theorem unrefCore_err {s : State} {h : Nat} {own : Bool} {e : Err} (hs : unrefCore s h own = .error e) :
    e = .useAfterFree h ∧ (s.hdl h).freed = true := by
  unfold unrefCore at hs
  split at hs
  · rename_i hf; injection hs with hs; exact ⟨hs.symm, hf⟩
  · simp only at hs; split at hs <;> cases hs

theorem dtorOne_no_err {s : State} {t n : Nat} (hf : FInv s) (hi : HInv s) : ∀ e, dtorOne t s n ≠ .error e := by
  intro e hs
  unfold dtorOne at hs
  split at hs
  · rename_i hd
    simp only at hs
    split at hs
    · rename_i ho
      obtain ⟨_, hfr⟩ := unrefCore_err hs
      simp only at hfr
      have := (hi.lT t n ho hd.2.2).2.1
      rw [hf.alive (.inr this)] at hfr; cases hfr
    · cases hs
  · cases hs

theorem runDtors_no_err {t : Nat} : ∀ {l : List Nat} {s : State}, FInv s → HInv s → KInv s → (s.thr t).phase = .finished →
    ∀ e, runDtors t s l ≠ .error e
  | [], s, _, _, _, _, e, hs => by unfold runDtors at hs; cases hs
  | n :: r, s, hf, hi, hk, hp, e, hs => by
    unfold runDtors at hs
    split at hs
    · rename_i e' h1; exact dtorOne_no_err hf hi e' h1
    · rename_i s1 h1
      exact runDtors_no_err (hf.dtorOne_inv hi h1) (hi.dtorOne_inv hk hp h1) (hk.dtorOne h1)
        (by rw [(dtorOne_thr h1).1]; exact hp) e hs

/-- `no_use_after_free`, core: in a state reached by a disciplined history a permitted event never
    reads or writes a freed `PUThread` block -/
theorem step_no_uaf {s : State} {e : Ev} (hf : FInv s) (hi : HInv s) (hk : KInv s) (hpi : PInv s) (hp : Permitted s e) :
    ∀ h, step s e ≠ .error (.useAfterFree h) := by
  intro h hs
  cases e with
  | spawn => cases hs
  | createBegin a j n =>
    simp only [step, createBegin] at hs
    split at hs
    · cases hs
    · split at hs <;> cases hs
  | createEnd a =>
    simp only [step, createEnd] at hs
    split at hs
    · cases hs
    · split at hs <;> cases hs
  | start t =>
    simp only [step, start] at hs
    split at hs
    · cases hs
    · rename_i hg
      split at hs
      · cases hs
      · rename_i hd hh
        split at hs
        · rename_i e' hr; injection hs with hs; subst hs; exact resolve_no_uaf _ _ _ hr
        · split at hs
          · cases hs
          · rename_i hspin
            split at hs
            · rename_i hfr
              have hg' := not_or.mp hg
              have hph : (s.thr t).phase = .created := by simpa using hg'.1
              obtain ⟨h', h1, h2⟩ := hi.tC t hph
              rw [hh] at h1; injection h1 with h1; subst h1
              have hw : (s.hdl hd).written = true := by
                cases hw : (s.hdl hd).written with
                | true => rfl
                | false => obtain ⟨c, hc, _⟩ := hi.hS hd (hi.tH t hd hh).1 hw; rw [hspin] at hc; cases hc
              rw [hf.alive (.inr (h2 hw))] at hfr; cases hfr
            · cases hs
  | exit t c =>
    simp only [step, exit] at hs
    split at hs
    · cases hs
    · split at hs
      · rename_i e' hr; injection hs with hs; subst hs; exact resolve_no_uaf _ _ _ hr
      · rename_i n hr
        split at hs
        · rename_i hfr
          have hpub := (resolve_ok hr).2
          have := (currentCore_handle hi hk (t := t) hpub).2.1
          rw [(currentCore_FInv hf t n).alive (.inr this)] at hfr; cases hfr
        · split at hs <;> cases hs
  | ret t =>
    simp only [step, ret] at hs
    split at hs <;> cases hs
  | threadEnd t =>
    simp only [step, threadEnd] at hs
    split at hs
    · cases hs
    · rename_i hph
      split at hs
      · rename_i e' hr
        exact runDtors_no_err hf hi hk (by simpa using hph) e' hr
      · cases hs
  | ref a h' =>
    simp only [step, ref] at hs
    split at hs
    · cases hs
    · split at hs
      · rename_i hfr
        have hp' : 0 < (s.hdl h').userRefs ∨ ((s.hdl h').thread = a ∧ (s.hdl h').threadRef = true) := hp
        have : (s.hdl h').freed = false := hf.alive (hp'.imp id (·.2))
        rw [this] at hfr; cases hfr
      · cases hs
  | unref a h' =>
    simp only [step, unref] at hs
    split at hs
    · cases hs
    · obtain ⟨_, hfr⟩ := unrefCore_err hs
      have hp' : 0 < (s.hdl h').userRefs := hp
      rw [hf.alive (.inl hp')] at hfr; cases hfr
  | join a h' =>
    simp only [step, join] at hs
    split at hs
    · cases hs
    · split at hs
      · rename_i hfr
        have hp' : (0 < (s.hdl h').userRefs ∨ ((s.hdl h').thread = a ∧ (s.hdl h').threadRef = true)) ∧ (s.hdl h').joined = false := hp
        have : (s.hdl h').freed = false := hf.alive (hp'.1.imp id (·.2))
        rw [this] at hfr; cases hfr
      · split at hs
        · cases hs
        · split at hs
          · cases hs
          · split at hs <;> cases hs
  | current t =>
    simp only [step, current] at hs
    split at hs
    · cases hs
    · split at hs
      · rename_i e' hr; injection hs with hs; subst hs; exact resolve_no_uaf _ _ _ hr
      · cases hs
  | localNew a n =>
    simp only [step, localNew] at hs
    split at hs <;> cases hs
  | localFree a k =>
    simp only [step, localFree] at hs
    split at hs
    · cases hs
    · split at hs
      · cases hs
      · split at hs <;> cases hs
  | keyCreate t k =>
    simp only [step, keyCreate] at hs
    split at hs
    · cases hs
    · split at hs
      · cases hs
      · split at hs <;> cases hs
  | keyCas t k =>
    simp only [step, keyCas] at hs
    split at hs
    · cases hs
    · split at hs
      · cases hs
      · split at hs
        · cases hs
        · split at hs <;> cases hs
  | setLocal t k v =>
    simp only [step, setLocal] at hs
    split at hs
    · cases hs
    · split at hs
      · rename_i e' hr; injection hs with hs; subst hs; exact resolve_no_uaf _ _ _ hr
      · cases hs
  | replaceLocal t k v =>
    simp only [step, replaceLocal] at hs
    split at hs
    · cases hs
    · split at hs
      · rename_i e' hr; injection hs with hs; subst hs; exact resolve_no_uaf _ _ _ hr
      · cases hs
  | getLocal t k =>
    simp only [step, getLocal] at hs
    split at hs
    · cases hs
    · split at hs
      · rename_i e' hr; injection hs with hs; subst hs; exact resolve_no_uaf _ _ _ hr
      · cases hs
  | createFail a =>
    simp only [step, createFail] at hs
    split at hs
    · cases hs
    · split at hs <;> cases hs
  | joinFail a h' =>
    simp only [step, joinFail] at hs
    split at hs
    · cases hs
    · split at hs
      · rename_i hfr
        have hp' : (0 < (s.hdl h').userRefs ∨ ((s.hdl h').thread = a ∧ (s.hdl h').threadRef = true)) ∧ (s.hdl h').joined = false := hp
        have : (s.hdl h').freed = false := hf.alive (hp'.1.imp id (·.2))
        rw [this] at hfr; cases hfr
      · split at hs <;> cases hs
  | tlsFail t k g =>
    simp only [step, tlsFail] at hs
    split at hs
    · cases hs
    · split at hs
      · cases hs
      · split at hs <;> cases hs
  | currentFail t =>
    simp only [step, currentFail] at hs
    split at hs
    · cases hs
    · split at hs
      · cases hs
      · split at hs <;> cases hs
  | storeFail t k r =>
    simp only [step, storeFail] at hs
    split at hs
    · cases hs
    · split at hs
      · rename_i e' hr; injection hs with hs; subst hs; exact resolve_no_uaf _ _ _ hr
      · cases hs
  | startUnstored t =>
    simp only [step, startUnstored] at hs
    split at hs
    · cases hs
    · rename_i hg
      split at hs
      · cases hs
      · rename_i hd hh
        split at hs
        · cases hs
        · rename_i hspin
          split at hs
          · cases hs
          · split at hs
            · rename_i hfr
              have hg' := not_or.mp hg
              have hph : (s.thr t).phase = .created := by simpa using hg'.1
              obtain ⟨h', h1, h2⟩ := hi.tC t hph
              rw [hh] at h1; injection h1 with h1; subst h1
              have hw : (s.hdl hd).written = true := by
                cases hw : (s.hdl hd).written with
                | true => rfl
                | false => obtain ⟨c, hc, _⟩ := hi.hS hd (hi.tH t hd hh).1 hw; rw [hspin] at hc; cases hc
              rw [hf.alive (.inr (h2 hw))] at hfr; cases hfr
            · cases hs
  | retUnstored t h' =>
    simp only [step, retUnstored] at hs
    split at hs
    · cases hs
    · rename_i hg
      have hg' := not_or.mp hg
      have hc : canAct s t := by simpa using hg'.1
      have hpx : (s.thr t).proxy = some h' := by simpa using hg'.2
      split at hs
      · rename_i e' hu
        injection hs with hs; subst hs
        obtain ⟨_, hfr⟩ := unrefCore_err hu
        have htr := (hpi.pP t h' hpx).2.2.2.2.2.2.2.2.2 hc.1
        rw [hf.alive (.inr htr)] at hfr; cases hfr
      · cases hs

/-! ## what thread termination does to cells and to the notifier log -/

/-- the notifier call owed for native key `n` at the end of thread `t` -/
def owed (s : State) (t n : Nat) : Option (Nat × Nat × Nat) :=
  if dtorDue s t n then some (t, (s.nkey n).owner, s.tls t n) else none

theorem unrefCore_frame {s s' : State} {h : Nat} {own : Bool} (hs : unrefCore s h own = .ok s') :
    s'.nkey = s.nkey ∧ s'.key = s.key ∧ s'.nN = s.nN ∧ s'.tls = s.tls ∧ s'.dtorLog = s.dtorLog ∧ s'.nK = s.nK := by
  obtain ⟨_, ⟨_, rfl⟩ | ⟨_, rfl⟩⟩ := unrefCore_ok hs <;> exact ⟨rfl, rfl, rfl, rfl, rfl, rfl⟩

theorem dtorOne_frame {s s' : State} {t n : Nat} (hs : dtorOne t s n = .ok s') :
    s'.nkey = s.nkey ∧ s'.key = s.key ∧ s'.nN = s.nN ∧ s'.nK = s.nK ∧
    s'.tls = (if dtorDue s t n then upd2 s.tls t n 0 else s.tls) ∧
    s'.dtorLog = s.dtorLog ++ (owed s t n).toList := by
  rcases dtorOne_ok hs with ⟨hd, rfl⟩ | ⟨hd, _, rfl⟩ | ⟨hd, _, hu⟩
  · simp [owed, hd]
  · simp [owed, hd, cleared]
  · obtain ⟨e1, e2, e3, e4, e5, e6⟩ := unrefCore_frame hu
    rw [e1, e2, e3, e4, e5, e6]; simp [owed, hd, cleared]

theorem filterMap_congr' {α β : Type} {f g : α → Option β} : ∀ {l : List α}, (∀ a, a ∈ l → f a = g a) → l.filterMap f = l.filterMap g
  | [], _ => rfl
  | a :: r, h => by
    rw [List.filterMap_cons, List.filterMap_cons, h a (by simp), filterMap_congr' (fun b hb => h b (by simp [hb]))]

theorem runDtors_frame {t : Nat} : ∀ {l : List Nat} {s s' : State}, l.Nodup → runDtors t s l = .ok s' →
    s'.nkey = s.nkey ∧ s'.key = s.key ∧ s'.nN = s.nN ∧ s'.nK = s.nK ∧
    (∀ t' n', s'.tls t' n' = if t' = t ∧ n' ∈ l ∧ dtorDue s t n' then 0 else s.tls t' n') ∧
    s'.dtorLog = s.dtorLog ++ l.filterMap (owed s t)
  | [], s, s', _, hs => by unfold runDtors at hs; injection hs with hs; subst hs; simp
  | n :: r, s, s', hnd, hs => by
    obtain ⟨s1, h1, h2⟩ := runDtors_cons_ok hs
    obtain ⟨a1, a2, a3, a4, a5, a6⟩ := dtorOne_frame h1
    have hnr : n ∉ r := (List.nodup_cons.mp hnd).1
    obtain ⟨b1, b2, b3, b4, b5, b6⟩ := runDtors_frame (List.nodup_cons.mp hnd).2 h2
    -- what is due later is not disturbed by the destructor of `n`
    have due_eq : ∀ m, m ≠ n → (dtorDue s1 t m ↔ dtorDue s t m) := by
      intro m hm; unfold dtorDue; rw [a1, a5]
      split
      · rw [upd2_ne _ _ (by simp [hm])]
      · rfl
    have owed_eq : ∀ m, m ∈ r → owed s1 t m = owed s t m := by
      intro m hm
      have hmn : m ≠ n := fun e => hnr (e ▸ hm)
      unfold owed
      rw [a1, a5]
      have := due_eq m hmn
      by_cases d : dtorDue s t m
      · rw [if_pos d, if_pos (this.mpr d)]
        split
        · rw [upd2_ne _ _ (by simp [hmn])]
        · rfl
      · rw [if_neg d, if_neg (fun x => d (this.mp x))]
    have tls1 : ∀ t' m, m ≠ n → s1.tls t' m = s.tls t' m := by
      intro t' m hm; rw [a5]; split
      · rw [upd2_ne _ _ (by simp [hm])]
      · rfl
    refine ⟨b1.trans a1, b2.trans a2, b3.trans a3, b4.trans a4, ?_, ?_⟩
    · intro t' n'
      rw [b5]
      by_cases hn : n' = n
      · subst hn
        rw [a5]
        by_cases d : dtorDue s t n'
        · by_cases ht : t' = t
          · subst ht; simp [d, hnr]
          · simp [d, ht, upd2_ne]
        · simp [d, hnr]
      · rw [tls1 t' n' hn]
        have := due_eq n' hn
        by_cases d : dtorDue s t n'
        · simp [d, this.mpr d, hn]
        · have d1 : ¬ dtorDue s1 t n' := fun x => d (this.mp x)
          simp [d, d1]
    · rw [b6, a6, List.append_assoc]
      congr 1
      rw [List.filterMap_cons]
      have : List.filterMap (owed s1 t) r = List.filterMap (owed s t) r := filterMap_congr' owed_eq
      rw [this]
      cases owed s t n <;> simp

theorem nodup_filterMap {α β : Type} {f : α → Option β} : ∀ {l : List α}, l.Nodup →
    (∀ a b c, a ∈ l → b ∈ l → f a = some c → f b = some c → a = b) → (l.filterMap f).Nodup
  | [], _, _ => by simp
  | a :: r, hnd, hinj => by
    have ih := nodup_filterMap (f := f) (List.nodup_cons.mp hnd).2
      (fun x y c hx hy => hinj x y c (by simp [hx]) (by simp [hy]))
    rw [List.filterMap_cons]
    cases hfa : f a with
    | none => exact ih
    | some c =>
      simp only
      refine List.nodup_cons.mpr ⟨?_, ih⟩
      intro hm
      obtain ⟨b, hb, hfb⟩ := List.mem_filterMap.mp hm
      have := hinj a b c (by simp) (by simp [hb]) hfa hfb
      subst this
      exact (List.nodup_cons.mp hnd).1 hb

/-- the cell under key `k` is the cell under `k`'s published native key -/
theorem valueOf_pub {s : State} {t k n : Nat} (hp : (s.key k).published = some n) : valueOf s t k = s.tls t n := by
  simp [valueOf, hp]

/-- `destructor_exactly_once`, thread end: the notifier calls made by `threadEnd t` -/
theorem threadEnd_dtor {s s' : State} {t : Nat} (hk : KInv s) (hs : threadEnd s t = .ok s') :
    ∃ L, s'.dtorLog = s.dtorLog ++ L ∧ L.Nodup ∧
      (∀ t' k v, (t', k, v) ∈ L ↔
        t' = t ∧ (s.key k).notifier = true ∧ (s.key k).wrapperFreed = false ∧ v ≠ 0 ∧ valueOf s t k = v) ∧
      (∀ k, (s.key k).notifier = true → (s.key k).wrapperFreed = false → valueOf s' t k = 0) := by
  obtain ⟨_, s1, hr, rfl⟩ := threadEnd_ok hs
  obtain ⟨a1, a2, a3, a4, a5, a6⟩ := runDtors_frame (List.nodup_range) hr
  -- a destructor is due exactly for the published native key of a key with a notifier and a non-NULL value
  have due_iff : ∀ n, dtorDue s t n ↔ s.tls t n ≠ 0 ∧ (s.key (s.nkey n).owner).notifier = true ∧
      (s.key (s.nkey n).owner).wrapperFreed = false := by
    intro n; unfold dtorDue
    constructor
    · rintro ⟨h1, h2, h3⟩
      refine ⟨h3, by rw [← hk.kD n (hk.val_lt h3)]; exact h2, ?_⟩
      cases hw : (s.key (s.nkey n).owner).wrapperFreed with
      | false => rfl
      | true => have := (hk.kF _ n hw (hk.kV t n h3)).1; rw [h1] at this; cases this
    · rintro ⟨h3, h2, hw⟩
      have hp := hk.kV t n h3
      exact ⟨((hk.kP _ _ hp).2.2 hw).1, by rw [hk.kD n (hk.val_lt h3)]; exact h2, h3⟩
  refine ⟨(List.range s.nN).filterMap (owed s t), a6, ?_, ?_, ?_⟩
  · refine nodup_filterMap List.nodup_range ?_
    intro a b c _ _ ha hb
    unfold owed at ha hb
    split at ha
    · rename_i da
      split at hb
      · rename_i db
        injection ha with ha; injection hb with hb
        have e := ha.trans hb.symm
        injection e with _ e; injection e with e _
        have pa := hk.kV t a da.2.2; have pb := hk.kV t b db.2.2
        rw [e] at pa; rw [pa] at pb; injection pb
      · cases hb
    · cases ha
  · intro t' k v
    rw [List.mem_filterMap]
    constructor
    · rintro ⟨n, _, ho⟩
      unfold owed at ho
      split at ho
      · rename_i d
        injection ho with ho; injection ho with e1 ho; injection ho with e2 e3
        have hd := (due_iff n).mp d
        have hp := hk.kV t n hd.1
        subst e1 e2 e3
        exact ⟨rfl, hd.2.1, hd.2.2, hd.1, valueOf_pub hp⟩
      · cases ho
    · rintro ⟨rfl, hn, hwf, hv, hval⟩
      cases hp : (s.key k).published with
      | none => simp [valueOf, hp] at hval; exact absurd hval.symm hv
      | some n =>
        rw [valueOf_pub hp] at hval
        have hown := (hk.kP k n hp).2.1
        have d : dtorDue s t' n := (due_iff n).mpr ⟨by rw [hval]; exact hv, by rw [hown]; exact hn, by rw [hown]; exact hwf⟩
        exact ⟨n, List.mem_range.mpr (hk.kP k n hp).1, by simp [owed, d, hown, hval]⟩
  · intro k hn hwf
    simp only [valueOf]
    rw [a2]
    cases hp : (s.key k).published with
    | none => rfl
    | some n =>
      simp only
      rw [a5]
      by_cases hv : s.tls t n = 0
      · simp [hv]
      · have hown := (hk.kP k n hp).2.1
        have d : dtorDue s t n := (due_iff n).mpr ⟨hv, by rw [hown]; exact hn, by rw [hown]; exact hwf⟩
        simp [d, List.mem_range, (hk.kP k n hp).1]

/-! ## TLS cells at the level of `PUThreadKey`s -/

/-- a store through key `k` changes the cell `(t, k)` and no other -/
theorem valueOf_store {s : State} (hk : KInv s) {t k n v : Nat} (hp : (s.key k).published = some n)
    (d : List (Nat × Nat × Nat)) :
    valueOf { s with dtorLog := d, tls := upd2 s.tls t n v } t k = v ∧
    ∀ t' k', ¬ (t' = t ∧ k' = k) → valueOf { s with dtorLog := d, tls := upd2 s.tls t n v } t' k' = valueOf s t' k' := by
  constructor
  · simp [valueOf, hp]
  · intro t' k' hne
    simp only [valueOf]
    cases hp' : (s.key k').published with
    | none => rfl
    | some m =>
      simp only
      have : ¬ (t' = t ∧ m = n) := by
        rintro ⟨rfl, rfl⟩
        have a := (hk.kP k m hp).2.1; have b := (hk.kP k' m hp').2.1
        exact hne ⟨rfl, b.symm.trans a⟩
      rw [upd2_ne _ _ this]

theorem currentCore_frameK (s : State) (t n : Nat) :
    (currentCore s t n).1.key = s.key ∧ (currentCore s t n).1.dtorLog = s.dtorLog ∧ (currentCore s t n).1.freeLog = s.freeLog ∧
    (∀ t' m, m ≠ n → (currentCore s t n).1.tls t' m = s.tls t' m) := by
  unfold currentCore; split
  · exact ⟨rfl, rfl, rfl, fun _ _ _ => rfl⟩
  · refine ⟨rfl, rfl, rfl, fun t' m hm => ?_⟩
    simp only; rw [upd2_ne _ _ (by simp [hm])]

/-- the native key of a user key is not the library key's -/
theorem KInv.user_ne_lib {s : State} (hk : KInv s) {k n n0 : Nat} (hk0 : k ≠ 0) (hp : (s.key k).published = some n)
    (hp0 : (s.key 0).published = some n0) : n ≠ n0 := by
  intro e; subst e
  have a := (hk.kP k n hp).2.1; have b := (hk.kP 0 n hp0).2.1
  exact hk0 (a.symm.trans b)

/-- `tls_independent`, frame: no event other than a store by `t` through `k` and the end of `t`
    changes what `t` sees under the user key `k` -/
theorem valueOf_frame {s s' : State} {e : Ev} (hk : KInv s) (hs : step s e = .ok s') {t k : Nat} (hk0 : k ≠ 0)
    (h1 : ∀ v, e ≠ .setLocal t k v) (h2 : ∀ v, e ≠ .replaceLocal t k v) (h3 : e ≠ .threadEnd t) :
    valueOf s' t k = valueOf s t k := by
  -- a store into the library key's cell does not touch a user key's cell
  have lib : ∀ (n0 : Nat) (tls' : Nat → Nat → Nat), (s.key 0).published = some n0 → (∀ t' m, m ≠ n0 → tls' t' m = s.tls t' m) →
      (match (s.key k).published with | some n => tls' t n | none => 0) = valueOf s t k := by
    intro n0 tls' hp0 htls
    simp only [valueOf]
    cases hp : (s.key k).published with
    | none => rfl
    | some n => simp only; exact htls t n (hk.user_ne_lib hk0 hp hp0)
  cases e with
  | spawn => have := spawn_ok hs; subst this; rfl
  | createBegin a j n => obtain ⟨_, _, rfl⟩ := createBegin_ok hs; rfl
  | createEnd a => obtain ⟨c, _, _, rfl⟩ := createEnd_ok hs; rfl
  | start t' =>
    obtain ⟨hd, n0, _, _, _, _, hp0, _, _, rfl⟩ := start_ok hs
    exact lib n0 _ hp0 (fun t'' m hm => by simp only; rw [upd2_ne _ _ (by simp [hm])])
  | exit t' c =>
    obtain ⟨n0, _, _, hp0, _, ⟨_, rfl⟩ | ⟨_, rfl⟩⟩ := exit_ok hs
    · simp only [valueOf]; rw [(currentCore_frameK s t' n0).1]
      exact lib n0 _ hp0 (currentCore_frameK s t' n0).2.2.2
    · simp only [valueOf]; rw [(currentCore_frameK s t' n0).1]
      exact lib n0 _ hp0 (currentCore_frameK s t' n0).2.2.2
  | ret t' => obtain ⟨_, _, rfl⟩ := ret_ok hs; rfl
  | threadEnd t' =>
    obtain ⟨_, s1, hr, rfl⟩ := threadEnd_ok hs
    obtain ⟨_, a2, _, _, a5, _⟩ := runDtors_frame (List.nodup_range) hr
    have : t ≠ t' := by intro e; subst e; exact h3 rfl
    simp only [valueOf]; rw [a2]
    cases (s.key k).published with
    | none => rfl
    | some n => simp only; rw [a5]; simp [this]
  | ref a h => obtain ⟨_, _, _, _, rfl⟩ := ref_ok hs; rfl
  | unref a h =>
    obtain ⟨_, _, _, hu⟩ := unref_ok hs
    obtain ⟨_, e2, _, e4, _, _⟩ := unrefCore_frame hu
    simp only [valueOf]; rw [e2, e4]
  | join a h => obtain ⟨_, _, _, _, ⟨_, rfl⟩ | ⟨_, _, _, rfl⟩⟩ := join_ok hs <;> rfl
  | current t' =>
    obtain ⟨n0, _, _, hp0, rfl⟩ := current_ok hs
    simp only [valueOf]; rw [(currentCore_frameK s t' n0).1]
    exact lib n0 _ hp0 (currentCore_frameK s t' n0).2.2.2
  | localNew a nf =>
    obtain ⟨_, rfl⟩ := localNew_ok hs
    simp only [valueOf]
    by_cases e : k = s.nK
    · subst e; have := hk.kB s.nK (Nat.le_refl _); simp [this]
    · rw [upd_ne _ _ e]
  | localFree a k' =>
    obtain ⟨_, _, _, _, ⟨_, rfl⟩ | ⟨n, _, rfl⟩⟩ := localFree_ok hs
    all_goals
      simp only [valueOf]
      by_cases e : k = k'
      · subst e; simp
      · rw [upd_ne _ _ e]
  | keyCreate t' k' => obtain ⟨_, _, _, _, _, rfl⟩ := keyCreate_ok hs; rfl
  | keyCas t' k' =>
    obtain ⟨n, hpd, _, ⟨hpub, rfl⟩ | ⟨_, rfl⟩⟩ := keyCas_ok hs
    · simp only [valueOf]
      by_cases e : k = k'
      · subst e
        simp [hpub]
        -- a native key that is not yet published holds no value
        apply Classical.byContradiction; intro hv
        have := hk.kV t n hv
        rw [(hk.kE t' k n hpd).2.1, hpub] at this; cases this
      · rw [upd_ne _ _ e]
    · simp only [valueOf]
      by_cases e : k = k'
      · subst e; simp
      · rw [upd_ne _ _ e]
  | setLocal t' k' v =>
    obtain ⟨n, _, _, _, _, hp, rfl⟩ := setLocal_ok hs
    exact (valueOf_store hk hp _).2 t k (by rintro ⟨rfl, rfl⟩; exact h1 v rfl)
  | replaceLocal t' k' v =>
    obtain ⟨n, _, _, _, _, hp, rfl⟩ := replaceLocal_ok hs
    exact (valueOf_store hk hp _).2 t k (by rintro ⟨rfl, rfl⟩; exact h2 v rfl)
  | getLocal t' k' => obtain ⟨n, _, _, _, _, _, rfl⟩ := getLocal_ok hs; rfl
  | createFail a => obtain ⟨_, _, rfl⟩ := createFail_ok hs; rfl
  | joinFail a h => obtain ⟨_, _, _, _, _, rfl⟩ := joinFail_ok hs; rfl
  | tlsFail t' k' g => obtain ⟨_, _, _, _, _, rfl⟩ := tlsFail_ok hs; rfl
  | currentFail t' => obtain ⟨_, _, rfl⟩ := currentFail_ok hs; rfl
  | storeFail t' k' r' => obtain ⟨n, _, _, _, _, _, rfl⟩ := storeFail_ok hs; rfl
  | startUnstored t' => obtain ⟨_, _, _, _, _, _, _, rfl⟩ := startUnstored_ok hs; rfl
  | retUnstored t' h' =>
    obtain ⟨_, _, s1, hu, rfl⟩ := retUnstored_ok hs
    obtain ⟨_, ⟨_, rfl⟩ | ⟨_, rfl⟩⟩ := unrefCore_ok hu <;> rfl

/-- only `replace_local` and thread termination call notifiers -/
theorem dtorLog_frame {s s' : State} {e : Ev} (hs : step s e = .ok s')
    (h1 : ∀ t k v, e ≠ .replaceLocal t k v) (h2 : ∀ t, e ≠ .threadEnd t) (h3 : ∀ t k v, e ≠ .setLocal t k v)
    (h4 : ∀ t k r, e ≠ .storeFail t k r) :
    s'.dtorLog = s.dtorLog := by
  cases e with
  | spawn => have := spawn_ok hs; subst this; rfl
  | createBegin a j n => obtain ⟨_, _, rfl⟩ := createBegin_ok hs; rfl
  | createEnd a => obtain ⟨c, _, _, rfl⟩ := createEnd_ok hs; rfl
  | start t' => obtain ⟨hd, n0, _, _, _, _, hp0, _, _, rfl⟩ := start_ok hs; rfl
  | exit t' c =>
    obtain ⟨n0, _, _, hp0, _, ⟨_, rfl⟩ | ⟨_, rfl⟩⟩ := exit_ok hs
    · exact (currentCore_frameK s t' n0).2.1
    · exact (currentCore_frameK s t' n0).2.1
  | ret t' => obtain ⟨_, _, rfl⟩ := ret_ok hs; rfl
  | threadEnd t' => exact absurd rfl (h2 t')
  | ref a h => obtain ⟨_, _, _, _, rfl⟩ := ref_ok hs; rfl
  | unref a h => obtain ⟨_, _, _, hu⟩ := unref_ok hs; exact (unrefCore_frame hu).2.2.2.2.1
  | join a h => obtain ⟨_, _, _, _, ⟨_, rfl⟩ | ⟨_, _, _, rfl⟩⟩ := join_ok hs <;> rfl
  | current t' => obtain ⟨n0, _, _, hp0, rfl⟩ := current_ok hs; exact (currentCore_frameK s t' n0).2.1
  | localNew a nf => obtain ⟨_, rfl⟩ := localNew_ok hs; rfl
  | localFree a k' => obtain ⟨_, _, _, _, ⟨_, rfl⟩ | ⟨n, _, rfl⟩⟩ := localFree_ok hs <;> rfl
  | keyCreate t' k' => obtain ⟨_, _, _, _, _, rfl⟩ := keyCreate_ok hs; rfl
  | keyCas t' k' => obtain ⟨n, hpd, _, ⟨hpub, rfl⟩ | ⟨_, rfl⟩⟩ := keyCas_ok hs <;> rfl
  | setLocal t' k' v => exact absurd rfl (h3 t' k' v)
  | replaceLocal t' k' v => exact absurd rfl (h1 t' k' v)
  | getLocal t' k' => obtain ⟨n, _, _, _, _, _, rfl⟩ := getLocal_ok hs; rfl
  | createFail a => obtain ⟨_, _, rfl⟩ := createFail_ok hs; rfl
  | joinFail a h => obtain ⟨_, _, _, _, _, rfl⟩ := joinFail_ok hs; rfl
  | tlsFail t' k' g => obtain ⟨_, _, _, _, _, rfl⟩ := tlsFail_ok hs; rfl
  | currentFail t' => obtain ⟨_, _, rfl⟩ := currentFail_ok hs; rfl
  | storeFail t' k' r' => exact absurd rfl (h4 t' k' r')
  | startUnstored t' => obtain ⟨_, _, _, _, _, _, _, rfl⟩ := startUnstored_ok hs; rfl
  | retUnstored t' h' =>
    obtain ⟨_, _, s1, hu, rfl⟩ := retUnstored_ok hs
    obtain ⟨_, ⟨_, rfl⟩ | ⟨_, rfl⟩⟩ := unrefCore_ok hu <;> rfl

/-! ## which steps free -/

theorem unrefCore_free {s s' : State} {h : Nat} {own : Bool} (hs : unrefCore s h own = .ok s') :
    s'.freeLog = (if (s.hdl h).refCount = unrefFreesWhenOldIs then s.freeLog ++ [h] else s.freeLog) := by
  obtain ⟨_, ⟨hc, rfl⟩ | ⟨hc, rfl⟩⟩ := unrefCore_ok hs
  · simp [hc]
  · simp [hc]

/-- thread termination frees at most one handle: the one stored in the library key's cell -/
theorem runDtors_free {t : Nat} : ∀ {l : List Nat} {s s' : State}, KInv s → l.Nodup → runDtors t s l = .ok s' →
    s'.freeLog = s.freeLog ∨
    ∃ n, n ∈ l ∧ (s.nkey n).owner = 0 ∧ s.tls t n ≠ 0 ∧ (s.hdl (s.tls t n - 1)).refCount = unrefFreesWhenOldIs ∧
      s'.freeLog = s.freeLog ++ [s.tls t n - 1]
  | [], s, s', _, _, hs => by unfold runDtors at hs; injection hs with hs; subst hs; exact .inl rfl
  | n :: r, s, s', hk, hnd, hs => by
    obtain ⟨s1, h1, h2⟩ := runDtors_cons_ok hs
    have hnr : n ∉ r := (List.nodup_cons.mp hnd).1
    obtain ⟨a1, _, _, _, a5, _⟩ := dtorOne_frame h1
    have tls1 : ∀ m, m ≠ n → s1.tls t m = s.tls t m := by
      intro m hm; rw [a5]; split
      · rw [upd2_ne _ _ (by simp [hm])]
      · rfl
    have ih := runDtors_free (hk.dtorOne h1) (List.nodup_cons.mp hnd).2 h2
    rcases dtorOne_ok h1 with ⟨_, e⟩ | ⟨_, _, e⟩ | ⟨hd, ho, hu⟩
    · subst e
      rcases ih with ih | ⟨m, hm, x⟩
      · exact .inl ih
      · exact .inr ⟨m, by simp [hm], x⟩
    · have hfl : s1.freeLog = s.freeLog := by rw [e]; rfl
      have hh : s1.hdl = s.hdl := by rw [e]; rfl
      rcases ih with ih | ⟨m, hm, x1, x2, x3, x4⟩
      · exact .inl (ih.trans hfl)
      · have hmn : m ≠ n := fun c => hnr (c ▸ hm)
        rw [a1] at x1; rw [tls1 m hmn] at x2 x3 x4; rw [hh] at x3; rw [hfl] at x4
        exact .inr ⟨m, by simp [hm], x1, x2, x3, x4⟩
    · have hfl := unrefCore_free hu
      simp only [cleared] at hfl
      have stays : s'.freeLog = s1.freeLog := by
        rcases ih with ih | ⟨m, hm, x1, x2, _⟩
        · exact ih
        · exfalso
          have hmn : m ≠ n := fun c => hnr (c ▸ hm)
          rw [a1] at x1; rw [tls1 m hmn] at x2
          have p1 := hk.kV t n hd.2.2; have p2 := hk.kV t m x2
          rw [ho] at p1; rw [x1] at p2; rw [p1] at p2; injection p2 with p2
          exact hmn p2.symm
      by_cases hc : (s.hdl (s.tls t n - 1)).refCount = unrefFreesWhenOldIs
      · simp only [hc, if_true] at hfl
        exact .inr ⟨n, by simp, ho, hd.2.2, hc, stays.trans hfl⟩
      · simp only [hc, if_false] at hfl
        exact .inl (stays.trans hfl)

/-- handles are freed by `unref` — explicit, or by the library key's destructor at thread end — and by nothing else -/
theorem freeLog_frame {s s' : State} {e : Ev} (hs : step s e = .ok s')
    (h1 : ∀ a h, e ≠ .unref a h) (h2 : ∀ t, e ≠ .threadEnd t) (h3 : ∀ a, e ≠ .createFail a) (h4 : ∀ t, e ≠ .currentFail t) (h5 : ∀ t h, e ≠ .retUnstored t h) : s'.freeLog = s.freeLog := by
  cases e with
  | spawn => have := spawn_ok hs; subst this; rfl
  | createBegin a j n => obtain ⟨_, _, rfl⟩ := createBegin_ok hs; rfl
  | createEnd a => obtain ⟨c, _, _, rfl⟩ := createEnd_ok hs; rfl
  | start t' => obtain ⟨hd, n0, _, _, _, _, hp0, _, _, rfl⟩ := start_ok hs; rfl
  | exit t' c =>
    obtain ⟨n0, _, _, hp0, _, ⟨_, rfl⟩ | ⟨_, rfl⟩⟩ := exit_ok hs
    · exact (currentCore_frameK s t' n0).2.2.1
    · exact (currentCore_frameK s t' n0).2.2.1
  | ret t' => obtain ⟨_, _, rfl⟩ := ret_ok hs; rfl
  | threadEnd t' => exact absurd rfl (h2 t')
  | ref a h => obtain ⟨_, _, _, _, rfl⟩ := ref_ok hs; rfl
  | unref a h => exact absurd rfl (h1 a h)
  | join a h => obtain ⟨_, _, _, _, ⟨_, rfl⟩ | ⟨_, _, _, rfl⟩⟩ := join_ok hs <;> rfl
  | current t' => obtain ⟨n0, _, _, hp0, rfl⟩ := current_ok hs; exact (currentCore_frameK s t' n0).2.2.1
  | localNew a nf => obtain ⟨_, rfl⟩ := localNew_ok hs; rfl
  | localFree a k' => obtain ⟨_, _, _, _, ⟨_, rfl⟩ | ⟨n, _, rfl⟩⟩ := localFree_ok hs <;> rfl
  | keyCreate t' k' => obtain ⟨_, _, _, _, _, rfl⟩ := keyCreate_ok hs; rfl
  | keyCas t' k' => obtain ⟨n, hpd, _, ⟨hpub, rfl⟩ | ⟨_, rfl⟩⟩ := keyCas_ok hs <;> rfl
  | setLocal t' k' v => obtain ⟨n, _, _, _, _, _, rfl⟩ := setLocal_ok hs; rfl
  | replaceLocal t' k' v => obtain ⟨n, _, _, _, _, _, rfl⟩ := replaceLocal_ok hs; rfl
  | getLocal t' k' => obtain ⟨n, _, _, _, _, _, rfl⟩ := getLocal_ok hs; rfl
  | createFail a => exact absurd rfl (h3 a)
  | joinFail a h => obtain ⟨_, _, _, _, _, rfl⟩ := joinFail_ok hs; rfl
  | tlsFail t' k' g => obtain ⟨_, _, _, _, _, rfl⟩ := tlsFail_ok hs; rfl
  | currentFail t' => exact absurd rfl (h4 t')
  | storeFail t' k' r' => obtain ⟨n, _, _, _, _, _, rfl⟩ := storeFail_ok hs; rfl
  | startUnstored t' => obtain ⟨_, _, _, _, _, _, _, rfl⟩ := startUnstored_ok hs; rfl
  | retUnstored t' h' => exact absurd rfl (h5 t' h')


/-! ## executable check of the discipline (for the non-vacuity examples) -/

def checkDisc : State → List Ev → Bool
  | _, [] => true
  | s, e :: r => decide (Permitted s e) && (match step s e with | .ok s' => checkDisc s' r | .error _ => true)

theorem checkDisc_sound : ∀ {es : List Ev} {s : State}, checkDisc s es = true → Disciplined s es
  | [], _, _ => trivial
  | e :: r, s, h => by
    unfold checkDisc at h
    simp only [Bool.and_eq_true, decide_eq_true_eq] at h
    refine ⟨h.1, fun s' hs => ?_⟩
    have h2 := h.2
    rw [hs] at h2
    exact checkDisc_sound h2

theorem DReach.run : ∀ {es : List Ev} {s s' : State}, DReach s → Disciplined s es → run s es = .ok s' → DReach s'
  | [], s, s', hr, _, hs => by unfold PV.UThread.run at hs; injection hs with hs; exact hs ▸ hr
  | e :: r, s, s', hr, hd, hs => by
    unfold PV.UThread.run at hs
    split at hs
    · cases hs
    · rename_i s1 h1
      exact DReach.run (.step e hr hd.1 h1) (hd.2 s1 h1) hs

/-! ## native keys are deleted, and their blocks freed, at most once -/

structure NInv (s : State) : Prop where
  dN : s.keyDelLog.Nodup
  bN : s.blockFreeLog.Nodup
  dL : ∀ n, n ∈ s.keyDelLog ↔ n < s.nN ∧ (s.nkey n).live = false
  bL : ∀ n, n ∈ s.blockFreeLog ↔ n < s.nN ∧ (s.nkey n).blockFreed = true

theorem NInv.init : NInv init := by
  refine ⟨by simp [PV.UThread.init], by simp [PV.UThread.init], ?_, ?_⟩ <;> intro n <;> simp [PV.UThread.init]

theorem NInv.frame {s s' : State} (h : NInv s) (e1 : s'.nkey = s.nkey) (e2 : s'.nN = s.nN)
    (e3 : s'.keyDelLog = s.keyDelLog) (e4 : s'.blockFreeLog = s.blockFreeLog) : NInv s' :=
  ⟨e3 ▸ h.dN, e4 ▸ h.bN, by rw [e1, e2, e3]; exact h.dL, by rw [e1, e2, e4]; exact h.bL⟩

theorem nodup_snoc {l : List Nat} {n : Nat} (h : l.Nodup) (hn : n ∉ l) : (l ++ [n]).Nodup := by
  refine List.nodup_append.mpr ⟨h, by simp, ?_⟩
  intro a ha b hb; simp at hb; subst hb; intro e; subst e; exact hn ha

/-- a live native key with its block is released: both logs grow by it, exactly once -/
theorem NInv.release {s : State} (h : NInv s) {n : Nat} (hlt : n < s.nN) (hl : (s.nkey n).live = true) (hb : (s.nkey n).blockFreed = false)
    (x : NKey) (hx1 : x.live = false) (hx2 : x.blockFreed = true) :
    NInv { s with nkey := upd s.nkey n x, keyDelLog := s.keyDelLog ++ [n], blockFreeLog := s.blockFreeLog ++ [n] } := by
  have n1 : n ∉ s.keyDelLog := by intro hm; have := ((h.dL n).mp hm).2; rw [hl] at this; cases this
  have n2 : n ∉ s.blockFreeLog := by intro hm; have := ((h.bL n).mp hm).2; rw [hb] at this; cases this
  refine ⟨nodup_snoc h.dN n1, nodup_snoc h.bN n2, ?_, ?_⟩
  · intro m; simp only [List.mem_append, List.mem_singleton]
    by_cases e : m = n
    · subst e; simp [hx1, hlt]
    · rw [upd_ne _ _ e]; simp [e]; exact h.dL m
  · intro m; simp only [List.mem_append, List.mem_singleton]
    by_cases e : m = n
    · subst e; simp [hx2, hlt]
    · rw [upd_ne _ _ e]; simp [e]; exact h.bL m

theorem NInv.step {s s' : State} {e : Ev} (h : NInv s) (hk : KInv s) (hs : step s e = .ok s') : NInv s' := by
  cases e with
  | spawn => have := spawn_ok hs; subst this; exact h.frame rfl rfl rfl rfl
  | createBegin a j n => obtain ⟨_, _, rfl⟩ := createBegin_ok hs; exact h.frame rfl rfl rfl rfl
  | createEnd a => obtain ⟨c, _, _, rfl⟩ := createEnd_ok hs; exact h.frame rfl rfl rfl rfl
  | start t' => obtain ⟨hd, n0, _, _, _, _, hp0, _, _, rfl⟩ := start_ok hs; exact h.frame rfl rfl rfl rfl
  | exit t' c =>
    obtain ⟨n0, _, _, hp0, _, hcase⟩ := exit_ok hs
    have e1 : (currentCore s t' n0).1.nkey = s.nkey ∧ (currentCore s t' n0).1.nN = s.nN ∧
        (currentCore s t' n0).1.keyDelLog = s.keyDelLog ∧ (currentCore s t' n0).1.blockFreeLog = s.blockFreeLog := by
      unfold currentCore; split <;> exact ⟨rfl, rfl, rfl, rfl⟩
    rcases hcase with ⟨_, rfl⟩ | ⟨_, rfl⟩ <;> exact h.frame e1.1 e1.2.1 e1.2.2.1 e1.2.2.2
  | ret t' => obtain ⟨_, _, rfl⟩ := ret_ok hs; exact h.frame rfl rfl rfl rfl
  | threadEnd t' =>
    obtain ⟨_, s1, hr, rfl⟩ := threadEnd_ok hs
    have : ∀ {l : List Nat} {s s1 : State}, runDtors t' s l = .ok s1 →
        s1.nkey = s.nkey ∧ s1.nN = s.nN ∧ s1.keyDelLog = s.keyDelLog ∧ s1.blockFreeLog = s.blockFreeLog := by
      intro l
      induction l with
      | nil => intro s s1 hs; unfold runDtors at hs; injection hs with hs; subst hs; exact ⟨rfl, rfl, rfl, rfl⟩
      | cons n r ih =>
        intro s s1 hs
        obtain ⟨s2, h1, h2⟩ := runDtors_cons_ok hs
        have a : s2.nkey = s.nkey ∧ s2.nN = s.nN ∧ s2.keyDelLog = s.keyDelLog ∧ s2.blockFreeLog = s.blockFreeLog := by
          rcases dtorOne_ok h1 with ⟨_, rfl⟩ | ⟨_, _, rfl⟩ | ⟨_, _, hu⟩
          · exact ⟨rfl, rfl, rfl, rfl⟩
          · exact ⟨rfl, rfl, rfl, rfl⟩
          · obtain ⟨_, ⟨_, rfl⟩ | ⟨_, rfl⟩⟩ := unrefCore_ok hu <;> exact ⟨rfl, rfl, rfl, rfl⟩
        have b := ih h2
        exact ⟨b.1.trans a.1, b.2.1.trans a.2.1, b.2.2.1.trans a.2.2.1, b.2.2.2.trans a.2.2.2⟩
    have e1 := this hr
    exact h.frame e1.1 e1.2.1 e1.2.2.1 e1.2.2.2
  | ref a h' => obtain ⟨_, _, _, _, rfl⟩ := ref_ok hs; exact h.frame rfl rfl rfl rfl
  | unref a h' =>
    obtain ⟨_, _, _, hu⟩ := unref_ok hs
    obtain ⟨_, ⟨_, rfl⟩ | ⟨_, rfl⟩⟩ := unrefCore_ok hu <;> exact h.frame rfl rfl rfl rfl
  | join a h' => obtain ⟨_, _, _, _, ⟨_, rfl⟩ | ⟨_, _, _, rfl⟩⟩ := join_ok hs <;> exact h.frame rfl rfl rfl rfl
  | current t' =>
    obtain ⟨n0, _, _, hp0, rfl⟩ := current_ok hs
    have e1 : (currentCore s t' n0).1.nkey = s.nkey ∧ (currentCore s t' n0).1.nN = s.nN ∧
        (currentCore s t' n0).1.keyDelLog = s.keyDelLog ∧ (currentCore s t' n0).1.blockFreeLog = s.blockFreeLog := by
      unfold currentCore; split <;> exact ⟨rfl, rfl, rfl, rfl⟩
    exact h.frame e1.1 e1.2.1 e1.2.2.1 e1.2.2.2
  | localNew a nf => obtain ⟨_, rfl⟩ := localNew_ok hs; exact h.frame rfl rfl rfl rfl
  | localFree a k =>
    obtain ⟨_, _, _, hwf, ⟨_, rfl⟩ | ⟨n, hpub, rfl⟩⟩ := localFree_ok hs
    · exact h.frame rfl rfl rfl rfl
    · have hP := hk.kP k n hpub
      have := hP.2.2 hwf
      simp only [localFreeDeletesKey, localFreeFreesBlock, if_true]
      exact (h.release hP.1 this.1 this.2 (relN (s.nkey n)) (by simp [relN, localFreeDeletesKey]) (by simp [relN, localFreeFreesBlock])).frame rfl rfl rfl rfl
  | keyCreate t' k =>
    obtain ⟨_, _, _, _, _, rfl⟩ := keyCreate_ok hs
    refine ⟨h.dN, h.bN, ?_, ?_⟩
    · intro m; simp only
      by_cases e : m = s.nN
      · subst e; simp; intro hm; have := ((h.dL _).mp hm).1; omega
      · rw [upd_ne _ _ e, h.dL m]; constructor
        · rintro ⟨a, b⟩; exact ⟨by omega, b⟩
        · rintro ⟨a, b⟩; exact ⟨by omega, b⟩
    · intro m; simp only
      by_cases e : m = s.nN
      · subst e; simp; intro hm; have := ((h.bL _).mp hm).1; omega
      · rw [upd_ne _ _ e, h.bL m]; constructor
        · rintro ⟨a, b⟩; exact ⟨by omega, b⟩
        · rintro ⟨a, b⟩; exact ⟨by omega, b⟩
  | keyCas t' k =>
    obtain ⟨n, hpd, _, ⟨_, rfl⟩ | ⟨_, rfl⟩⟩ := keyCas_ok hs
    · exact h.frame rfl rfl rfl rfl
    · have hE := hk.kE t' k n hpd
      simp only [casLoserDeletesKey, casLoserFreesBlock, if_true]
      exact (h.release hE.1 hE.2.2.1 hE.2.2.2.1 { s.nkey n with live := !casLoserDeletesKey, blockFreed := casLoserFreesBlock } (by simp [casLoserDeletesKey]) (by simp [casLoserFreesBlock])).frame rfl rfl rfl rfl
  | setLocal t' k v => obtain ⟨n, _, _, _, _, _, rfl⟩ := setLocal_ok hs; exact h.frame rfl rfl rfl rfl
  | replaceLocal t' k v => obtain ⟨n, _, _, _, _, _, rfl⟩ := replaceLocal_ok hs; exact h.frame rfl rfl rfl rfl
  | getLocal t' k => obtain ⟨n, _, _, _, _, _, rfl⟩ := getLocal_ok hs; exact h.frame rfl rfl rfl rfl
  | createFail a => obtain ⟨_, _, rfl⟩ := createFail_ok hs; exact h.frame rfl rfl rfl rfl
  | joinFail a h' => obtain ⟨_, _, _, _, _, rfl⟩ := joinFail_ok hs; exact h.frame rfl rfl rfl rfl
  | tlsFail t' k g => obtain ⟨_, _, _, _, _, rfl⟩ := tlsFail_ok hs; exact h.frame rfl rfl rfl rfl
  | currentFail t' => obtain ⟨_, _, rfl⟩ := currentFail_ok hs; exact h.frame rfl rfl rfl rfl
  | startUnstored t' => obtain ⟨_, _, _, _, _, _, _, rfl⟩ := startUnstored_ok hs; exact h.frame rfl rfl rfl rfl
  | storeFail t' k r => obtain ⟨n, _, _, _, _, _, rfl⟩ := storeFail_ok hs; exact h.frame rfl rfl rfl rfl
  | retUnstored t' h' =>
    obtain ⟨_, _, s1, hu, rfl⟩ := retUnstored_ok hs
    obtain ⟨_, ⟨_, rfl⟩ | ⟨_, rfl⟩⟩ := unrefCore_ok hu <;> exact h.frame rfl rfl rfl rfl

theorem Reach.ninv {s : State} (h : Reach s) : NInv s := by
  induction h with
  | init => exact NInv.init
  | step e hr hs ih => exact ih.step hr.inv.1 hs

/-! ## library shutdown -/

theorem shutdown_ok {s s' : State} {a : Nat} (h : shutdown s a = .ok s') :
    canAct s a ∧ (s.key 0).wrapperFreed = false ∧
    ∃ s3 : State, s3.nkey = (shutdownResolve s).1.nkey ∧ s3.key = (shutdownResolve s).1.key ∧ s3.nN = (shutdownResolve s).1.nN ∧
      s3.keyDelLog = s.keyDelLog ∧ s3.blockFreeLog = s.blockFreeLog ∧
      (s3.freeLog = s.freeLog ∨ ∃ v, (shutdownResolve s).1.tls a (shutdownResolve s).2 = v ∧ v ≠ 0 ∧ s3.freeLog = s.freeLog ++ [v - 1]) ∧
      s' = { s3 with
        nkey := upd s3.nkey (shutdownResolve s).2 (relN (s3.nkey (shutdownResolve s).2))
        keyDelLog := s3.keyDelLog ++ (if localFreeDeletesKey then [(shutdownResolve s).2] else [])
        blockFreeLog := s3.blockFreeLog ++ (if localFreeFreesBlock then [(shutdownResolve s).2] else [])
        key := upd s3.key 0 { s3.key 0 with wrapperFreed := true } } := by
  unfold shutdown at h
  split at h
  · cases h
  · rename_i hc
    split at h
    · cases h
    · rename_i hw
      simp only at h
      have hlogs : (shutdownResolve s).1.keyDelLog = s.keyDelLog ∧ (shutdownResolve s).1.blockFreeLog = s.blockFreeLog ∧
          (shutdownResolve s).1.freeLog = s.freeLog := by
        unfold shutdownResolve; split <;> exact ⟨rfl, rfl, rfl⟩
      split at h
      · cases h
      · rename_i s3 h3
        injection h with h
        refine ⟨by simpa using hc, by simpa using hw, s3, ?_⟩
        split at h3
        · rename_i hv
          split at h3
          · rename_i s2 hu
            injection h3 with h3; subst h3
            obtain ⟨e1, e2, e3, _, _, _⟩ := unrefCore_frame hu
            have e7 : s2.keyDelLog = (shutdownResolve s).1.keyDelLog ∧ s2.blockFreeLog = (shutdownResolve s).1.blockFreeLog := by
              obtain ⟨_, ⟨_, rfl⟩ | ⟨_, rfl⟩⟩ := unrefCore_ok hu <;> exact ⟨rfl, rfl⟩
            have e8 := unrefCore_free hu
            refine ⟨e1, e2, e3, e7.1.trans hlogs.1, e7.2.trans hlogs.2.1, ?_, h.symm⟩
            simp only
            rw [e8, hlogs.2.2]
            split
            · exact .inr ⟨_, rfl, hv, rfl⟩
            · exact .inl rfl
          · cases h3
        · injection h3 with h3; subst h3
          exact ⟨rfl, rfl, rfl, hlogs.1, hlogs.2.1, .inl hlogs.2.2, h.symm⟩

/-- `init_shutdown_neutral_threads`, core: once nobody is inside a TLS call, `p_uthread_shutdown` leaves no native
    key and no native-key block of the library key behind — whether or not the key had ever been used — and none at
    all if every user key has been released with `p_uthread_local_free` -/
theorem shutdown_neutral {s s' : State} {a : Nat} (hk : KInv s) (hs : shutdown s a = .ok s')
    (hq : ∀ t, (s.thr t).pend = none) :
    (s'.key 0).wrapperFreed = true ∧
    (∀ n, n < s'.nN → (s'.nkey n).owner = 0 → (s'.nkey n).live = false ∧ (s'.nkey n).blockFreed = true) ∧
    ((∀ k, 0 < k → k < s.nK → (s.key k).wrapperFreed = true) →
      ∀ n, n < s'.nN → (s'.nkey n).live = false ∧ (s'.nkey n).blockFreed = true) := by
  obtain ⟨_, hwf, s3, e1, e2, e3, _, _, _, rfl⟩ := shutdown_ok hs
  -- every native key of the machine state other than the library key's own: gone, or owned by a key still in use
  have old : ∀ m, m < s.nN → (s.key 0).published ≠ some m →
      ((s.nkey m).owner = 0 ∨ (s.key (s.nkey m).owner).wrapperFreed = true) → (s.nkey m).live = false ∧ (s.nkey m).blockFreed = true := by
    intro m hm hne hown
    rcases hk.kC m hm with h1 | h1 | ⟨t, h1⟩
    · rcases hown with h0 | hfr
      · rw [h0] at h1; exact absurd h1 hne
      · exact hk.kF _ m hfr h1
    · have := hk.kL _ m h1; exact ⟨this.2.2.1, this.2.2.2.1⟩
    · rw [hq t] at h1; cases h1
  have main : ∀ m, m < s3.nN → ((s.nkey m).owner = 0 ∨ m ≥ s.nN ∨ (s.key (s.nkey m).owner).wrapperFreed = true) →
      ((upd s3.nkey (shutdownResolve s).2 (relN (s3.nkey (shutdownResolve s).2)) m).live = false ∧
       (upd s3.nkey (shutdownResolve s).2 (relN (s3.nkey (shutdownResolve s).2)) m).blockFreed = true) := by
    intro m hm hown
    by_cases e : m = (shutdownResolve s).2
    · subst e; simp [relN, localFreeDeletesKey, localFreeFreesBlock]
    · rw [upd_ne _ _ e, e1]
      rw [e3] at hm
      unfold shutdownResolve at e hm ⊢
      cases hp : (s.key 0).published with
      | some n0 =>
        simp only [hp] at e hm ⊢
        rcases hown with h0 | h0 | h0
        · exact old m hm (by rw [hp]; intro x; injection x with x; exact e x.symm) (.inl h0)
        · omega
        · exact old m hm (by rw [hp]; intro x; injection x with x; exact e x.symm) (.inr h0)
      | none =>
        simp only [hp] at e hm ⊢
        rw [upd_ne _ _ e]
        have hm' : m < s.nN := by omega
        rcases hown with h0 | h0 | h0
        · exact old m hm' (by rw [hp]; simp) (.inl h0)
        · omega
        · exact old m hm' (by rw [hp]; simp) (.inr h0)
  -- the owner recorded for a native key that existed before
  have own_eq : ∀ m, m < s.nN → (upd s3.nkey (shutdownResolve s).2 (relN (s3.nkey (shutdownResolve s).2)) m).owner = (s.nkey m).owner := by
    intro m hm
    have base : (s3.nkey m).owner = (s.nkey m).owner := by
      rw [e1]; unfold shutdownResolve; split
      · rfl
      · simp only; rw [upd_ne _ _ (by omega)]
    by_cases e : m = (shutdownResolve s).2
    · subst e; simp [relN, base]
    · rw [upd_ne _ _ e]; exact base
  refine ⟨by simp, ?_, ?_⟩
  · intro m hm ho
    simp only at hm ho ⊢
    by_cases hlt : m < s.nN
    · rw [own_eq m hlt] at ho; exact main m hm (.inl ho)
    · exact main m hm (.inr (.inl (by omega)))
  · intro hall m hm
    simp only at hm ⊢
    by_cases hlt : m < s.nN
    · by_cases h0 : (s.nkey m).owner = 0
      · exact main m hm (.inl h0)
      · exact main m hm (.inr (.inr (hall _ (by omega) (hk.kO m hlt))))
    · exact main m hm (.inr (.inl (by omega)))

end PV.UThread

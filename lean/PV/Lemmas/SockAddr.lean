import PV.Model.SockAddr
import PV.Spec.SockAddr
/-! Helper lemmas for C17 (socket address conversions).

Route: buffers of known minimal length are opened into explicit cons cells (`exists_cons16/28`), after
which the bounds-checked accessors of the model compute; this gives `newFromNative_eq_decode` and
`toNative_eq_encode` (model = explicit layout of `Spec`).  Byte-order arithmetic is over `Nat` with
`omega`; the `0xff000000` mask by bit extensionality (`and_mask`); IPv4 text by a 256-row table
(`decByte_table`, `decide +kernel`) lifted through `splitDot`. -/
namespace PV.SockAddr
open PV.Generated

/-! ### bytes and integers -/

theorem u8_lt (b : UInt8) : b.toNat < 256 := by simpa using b.toNat_lt

theorem u8_eq_iff (b : UInt8) (n : Nat) (hn : n < 256) : b = UInt8.ofNat n ↔ b.toNat = n := by
  rw [← UInt8.toNat_inj, UInt8.toNat_ofNat']
  have : n % 2 ^ 8 = n := Nat.mod_eq_of_lt (by simpa using hn)
  rw [this]

theorem hostU16_toNat (b0 b1 : UInt8) : (hostU16 b0 b1).toNat = b0.toNat + 256 * b1.toNat := by
  have h0 := u8_lt b0
  have h1 := u8_lt b1
  simp only [hostU16, SA.littleEndian, if_true, UInt16.toNat_ofNat']
  omega

theorem family_eq_iff (b0 b1 : UInt8) (n : Nat) (hn : n < 256) :
    (hostU16 b0 b1).toNat = n ↔ b0 = UInt8.ofNat n ∧ b1 = 0 := by
  have h0 := u8_lt b0
  have h1 := u8_lt b1
  rw [hostU16_toNat, u8_eq_iff b0 n hn, show (0 : UInt8) = UInt8.ofNat 0 from rfl, u8_eq_iff b1 0 (by decide)]
  omega

theorem ntohs_host (h l : UInt8) : ntohs (hostU16 h l) = Spec.ofBe16 h l := by
  have h0 := u8_lt h
  have h1 := u8_lt l
  have e1 : (h.toNat + 256 * l.toNat) % 256 = h.toNat := by omega
  have e2 : (h.toNat + 256 * l.toNat) / 256 = l.toNat := by omega
  rw [← UInt16.toNat_inj]
  simp only [ntohs, SA.littleEndian, if_true, swap16, Spec.ofBe16, UInt16.toNat_ofNat', hostU16_toNat, e1, e2]

theorem bytes_htons (p : UInt16) : bytesU16 (htons p) = [Spec.hi p, Spec.lo p] := by
  have hp : p.toNat < 65536 := by simpa using p.toNat_lt
  have hx : (p.toNat % 256 * 256 + p.toNat / 256) % 2 ^ 16 = p.toNat % 256 * 256 + p.toNat / 256 :=
    Nat.mod_eq_of_lt (by omega)
  have e1 : (p.toNat % 256 * 256 + p.toNat / 256) % 256 = p.toNat / 256 := by omega
  have e2 : (p.toNat % 256 * 256 + p.toNat / 256) / 256 = p.toNat % 256 := by omega
  simp only [bytesU16, htons, ntohs, SA.littleEndian, if_true, swap16, Spec.hi, Spec.lo, UInt16.toNat_ofNat', hx, e1, e2]

theorem ofBe16_hi_lo (p : UInt16) : Spec.ofBe16 (Spec.hi p) (Spec.lo p) = p := by
  have hp : p.toNat < 65536 := by simpa using p.toNat_lt
  rw [← UInt16.toNat_inj]
  simp only [Spec.ofBe16, Spec.hi, Spec.lo, UInt16.toNat_ofNat', UInt8.toNat_ofNat']
  omega

theorem hi_ofBe16 (h l : UInt8) : Spec.hi (Spec.ofBe16 h l) = h := by
  have h0 := u8_lt h
  have h1 := u8_lt l
  rw [← UInt8.toNat_inj]
  simp only [Spec.ofBe16, Spec.hi, UInt16.toNat_ofNat', UInt8.toNat_ofNat']
  omega

theorem lo_ofBe16 (h l : UInt8) : Spec.lo (Spec.ofBe16 h l) = l := by
  have h0 := u8_lt h
  have h1 := u8_lt l
  rw [← UInt8.toNat_inj]
  simp only [Spec.ofBe16, Spec.lo, UInt16.toNat_ofNat', UInt8.toNat_ofNat']
  omega

theorem hostU32_eq (b0 b1 b2 b3 : UInt8) : hostU32 b0 b1 b2 b3 = Spec.ofLe32 b0 b1 b2 b3 := by
  simp [hostU32, Spec.ofLe32, SA.littleEndian]

theorem bytesU32_eq (x : UInt32) : bytesU32 x = Spec.le32 x := by
  simp [bytesU32, Spec.le32, SA.littleEndian]

theorem ofLe32_toNat (b0 b1 b2 b3 : UInt8) :
    (Spec.ofLe32 b0 b1 b2 b3).toNat = b0.toNat + 256 * b1.toNat + 65536 * b2.toNat + 16777216 * b3.toNat := by
  have h0 := u8_lt b0
  have h1 := u8_lt b1
  have h2 := u8_lt b2
  have h3 := u8_lt b3
  simp only [Spec.ofLe32, UInt32.toNat_ofNat']
  omega

theorem le32_ofLe32 (b0 b1 b2 b3 : UInt8) : Spec.le32 (Spec.ofLe32 b0 b1 b2 b3) = [b0, b1, b2, b3] := by
  have h0 := u8_lt b0
  have h1 := u8_lt b1
  have h2 := u8_lt b2
  have h3 := u8_lt b3
  simp only [Spec.le32, ofLe32_toNat]
  have e0 : (b0.toNat + 256 * b1.toNat + 65536 * b2.toNat + 16777216 * b3.toNat) % 256 = b0.toNat := by omega
  have e1 : (b0.toNat + 256 * b1.toNat + 65536 * b2.toNat + 16777216 * b3.toNat) / 256 % 256 = b1.toNat := by omega
  have e2 : (b0.toNat + 256 * b1.toNat + 65536 * b2.toNat + 16777216 * b3.toNat) / 65536 % 256 = b2.toNat := by omega
  have e3 : (b0.toNat + 256 * b1.toNat + 65536 * b2.toNat + 16777216 * b3.toNat) / 16777216 = b3.toNat := by omega
  rw [e0, e1, e2, e3]
  simp [UInt8.ofNat_toNat]

theorem ofLe32_le32 (x : UInt32) :
    Spec.ofLe32 (UInt8.ofNat (x.toNat % 256)) (UInt8.ofNat (x.toNat / 256 % 256)) (UInt8.ofNat (x.toNat / 65536 % 256))
      (UInt8.ofNat (x.toNat / 16777216)) = x := by
  have hx : x.toNat < 4294967296 := by simpa using x.toNat_lt
  rw [← UInt32.toNat_inj, ofLe32_toNat]
  simp only [UInt8.toNat_ofNat']
  omega


/-! ### lists of known minimal length as explicit cons cells -/

theorem exists_cons2 {α : Type} {l : List α} (h : 2 ≤ l.length) :
    ∃ b0 b1 r, l = b0 :: b1 :: r := by
  rcases l with _ | ⟨b0, l⟩
  · simp at h
  rcases l with _ | ⟨b1, l⟩
  · simp at h
  exact ⟨b0, b1, l, rfl⟩

theorem exists_cons16 {α : Type} {l : List α} (h : 16 ≤ l.length) :
    ∃ b0 b1 b2 b3 b4 b5 b6 b7 b8 b9 b10 b11 b12 b13 b14 b15 r, l = b0 :: b1 :: b2 :: b3 :: b4 :: b5 :: b6 :: b7 :: b8 :: b9 :: b10 :: b11 :: b12 :: b13 :: b14 :: b15 :: r := by
  rcases l with _ | ⟨b0, l⟩
  · simp at h
  rcases l with _ | ⟨b1, l⟩
  · simp at h
  rcases l with _ | ⟨b2, l⟩
  · simp at h
  rcases l with _ | ⟨b3, l⟩
  · simp at h
  rcases l with _ | ⟨b4, l⟩
  · simp at h
  rcases l with _ | ⟨b5, l⟩
  · simp at h
  rcases l with _ | ⟨b6, l⟩
  · simp at h
  rcases l with _ | ⟨b7, l⟩
  · simp at h
  rcases l with _ | ⟨b8, l⟩
  · simp at h
  rcases l with _ | ⟨b9, l⟩
  · simp at h
  rcases l with _ | ⟨b10, l⟩
  · simp at h
  rcases l with _ | ⟨b11, l⟩
  · simp at h
  rcases l with _ | ⟨b12, l⟩
  · simp at h
  rcases l with _ | ⟨b13, l⟩
  · simp at h
  rcases l with _ | ⟨b14, l⟩
  · simp at h
  rcases l with _ | ⟨b15, l⟩
  · simp at h
  exact ⟨b0, b1, b2, b3, b4, b5, b6, b7, b8, b9, b10, b11, b12, b13, b14, b15, l, rfl⟩

theorem exists_cons28 {α : Type} {l : List α} (h : 28 ≤ l.length) :
    ∃ b0 b1 b2 b3 b4 b5 b6 b7 b8 b9 b10 b11 b12 b13 b14 b15 b16 b17 b18 b19 b20 b21 b22 b23 b24 b25 b26 b27 r, l = b0 :: b1 :: b2 :: b3 :: b4 :: b5 :: b6 :: b7 :: b8 :: b9 :: b10 :: b11 :: b12 :: b13 :: b14 :: b15 :: b16 :: b17 :: b18 :: b19 :: b20 :: b21 :: b22 :: b23 :: b24 :: b25 :: b26 :: b27 :: r := by
  rcases l with _ | ⟨b0, l⟩
  · simp at h
  rcases l with _ | ⟨b1, l⟩
  · simp at h
  rcases l with _ | ⟨b2, l⟩
  · simp at h
  rcases l with _ | ⟨b3, l⟩
  · simp at h
  rcases l with _ | ⟨b4, l⟩
  · simp at h
  rcases l with _ | ⟨b5, l⟩
  · simp at h
  rcases l with _ | ⟨b6, l⟩
  · simp at h
  rcases l with _ | ⟨b7, l⟩
  · simp at h
  rcases l with _ | ⟨b8, l⟩
  · simp at h
  rcases l with _ | ⟨b9, l⟩
  · simp at h
  rcases l with _ | ⟨b10, l⟩
  · simp at h
  rcases l with _ | ⟨b11, l⟩
  · simp at h
  rcases l with _ | ⟨b12, l⟩
  · simp at h
  rcases l with _ | ⟨b13, l⟩
  · simp at h
  rcases l with _ | ⟨b14, l⟩
  · simp at h
  rcases l with _ | ⟨b15, l⟩
  · simp at h
  rcases l with _ | ⟨b16, l⟩
  · simp at h
  rcases l with _ | ⟨b17, l⟩
  · simp at h
  rcases l with _ | ⟨b18, l⟩
  · simp at h
  rcases l with _ | ⟨b19, l⟩
  · simp at h
  rcases l with _ | ⟨b20, l⟩
  · simp at h
  rcases l with _ | ⟨b21, l⟩
  · simp at h
  rcases l with _ | ⟨b22, l⟩
  · simp at h
  rcases l with _ | ⟨b23, l⟩
  · simp at h
  rcases l with _ | ⟨b24, l⟩
  · simp at h
  rcases l with _ | ⟨b25, l⟩
  · simp at h
  rcases l with _ | ⟨b26, l⟩
  · simp at h
  rcases l with _ | ⟨b27, l⟩
  · simp at h
  exact ⟨b0, b1, b2, b3, b4, b5, b6, b7, b8, b9, b10, b11, b12, b13, b14, b15, b16, b17, b18, b19, b20, b21, b22, b23, b24, b25, b26, b27, l, rfl⟩


theorem family_inet_iff (b0 b1 : UInt8) : (hostU16 b0 b1).toNat = 2 ↔ b0 = 2 ∧ b1 = 0 := by
  simpa using family_eq_iff b0 b1 2 (by decide)

theorem family_inet6_iff (b0 b1 : UInt8) : (hostU16 b0 b1).toNat = 10 ↔ b0 = 10 ∧ b1 = 0 := by
  simpa using family_eq_iff b0 b1 10 (by decide)

theorem bytesU16_two : bytesU16 2 = [2, 0] := by decide
theorem bytesU16_ten : bytesU16 10 = [10, 0] := by decide

/-! ### vectors as explicit lists -/

theorem toList4 (a : Vector UInt8 4) : a.toList = [a[0], a[1], a[2], a[3]] := by
  apply List.ext_getElem
  · simp
  · intro i h1 _
    have h : i < 4 := by simpa using h1
    rcases i with _ | _ | _ | _ | i
    · simp
    · simp
    · simp
    · simp
    · omega

theorem toList16 (a : Vector UInt8 16) :
    a.toList = [a[0], a[1], a[2], a[3], a[4], a[5], a[6], a[7], a[8], a[9], a[10], a[11], a[12], a[13], a[14], a[15]] := by
  apply List.ext_getElem
  · simp
  · intro i h1 _
    have h : i < 16 := by simpa using h1
    rcases i with _ | _ | _ | _ | _ | _ | _ | _ | _ | _ | _ | _ | _ | _ | _ | _ | i
    all_goals first | omega | simp

theorem vec4_eta (a : Vector UInt8 4) : #v[a[0], a[1], a[2], a[3]] = a := by
  rw [← Vector.toList_inj, toList4 a]; rfl

theorem vec16_eta (a : Vector UInt8 16) :
    #v[a[0], a[1], a[2], a[3], a[4], a[5], a[6], a[7], a[8], a[9], a[10], a[11], a[12], a[13], a[14], a[15]] = a := by
  rw [← Vector.toList_inj, toList16 a]; rfl

/-! ### the model against the explicit layout -/

theorem decode_none_of_lt (bytes : List UInt8) (len : Nat) (h : len < 16) : Spec.decode bytes len = none := by
  unfold Spec.decode
  split
  · simp; omega
  · simp; omega
  · rfl

theorem decode_none_of_family (b0 b1 : UInt8) (r : List UInt8) (len : Nat)
    (h4 : ¬ (b0 = 2 ∧ b1 = 0)) (h6 : ¬ (b0 = 10 ∧ b1 = 0)) : Spec.decode (b0 :: b1 :: r) len = none := by
  unfold Spec.decode
  split
  · rename_i heq
    simp only [List.cons.injEq] at heq
    exact absurd ⟨heq.1, heq.2.1⟩ h4
  · rename_i heq
    simp only [List.cons.injEq] at heq
    exact absurd ⟨heq.1, heq.2.1⟩ h6
  · rfl

theorem decode_inet_short (r : List UInt8) (len : Nat) (h : len < 16) : Spec.decode (2 :: 0 :: r) len = none :=
  decode_none_of_lt _ _ h

theorem decode_inet6_short (r : List UInt8) (len : Nat) (h : len < 28) : Spec.decode (10 :: 0 :: r) len = none := by
  unfold Spec.decode
  split
  · rename_i heq
    simp only [List.cons.injEq] at heq
    exact absurd heq.1 (by decide)
  · simp; omega
  · rfl

/-- `p_socket_address_new_from_native` (with the family read guarded by the length) is the layout's inverse -/
theorem newFromNative_eq_decode (bytes : List UInt8) (len : Nat) (hlen : len ≤ bytes.length)
    (hmin : SA.fromNativeMinLen = 2) :
    newFromNative bytes len = .ok (Spec.decode bytes len) := by
  by_cases h2 : len < 2
  · simp [newFromNative, hmin, h2, decode_none_of_lt bytes len (by omega)]
  · obtain ⟨b0, b1, r, rfl⟩ := exists_cons2 (l := bytes) (by omega)
    by_cases hf4 : (hostU16 b0 b1).toNat = 2
    · obtain ⟨rfl, rfl⟩ := (family_inet_iff b0 b1).1 hf4
      by_cases hl : len < 16
      · simp [newFromNative, hmin, h2, rdU16, rd, hf4, SA.afInet, SA.saFamilyOff, SA.sizeofSockaddrIn, hl,
          decode_inet_short _ len hl]
      · obtain ⟨c0, c1, c2, c3, c4, c5, c6, c7, c8, c9, c10, c11, c12, c13, c14, c15, r', hr⟩ :=
          exists_cons16 (l := ((2 : UInt8) :: 0 :: r)) (by omega)
        simp only [List.cons.injEq] at hr
        obtain ⟨rfl, rfl, rfl⟩ := hr
        have hl' : 16 ≤ len := by omega
        simp [newFromNative, hmin, h2, rdU16, rd, hf4, SA.afInet, SA.saFamilyOff, SA.sizeofSockaddrIn, hl,
          SA.sinAddrOff, SA.sinPortOff, ntohs_host, Spec.decode, hl']
    · by_cases hf6 : (hostU16 b0 b1).toNat = 10
      · obtain ⟨rfl, rfl⟩ := (family_inet6_iff b0 b1).1 hf6
        by_cases hl : len < 28
        · simp [newFromNative, hmin, h2, rdU16, rd, hf6, SA.afInet, SA.afInet6, SA.saFamilyOff,
            SA.sizeofSockaddrIn6, hl, decode_inet6_short _ len hl]
        · obtain ⟨c0, c1, c2, c3, c4, c5, c6, c7, c8, c9, c10, c11, c12, c13, c14, c15, c16, c17, c18, c19, c20, c21,
              c22, c23, c24, c25, c26, c27, r', hr⟩ := exists_cons28 (l := ((10 : UInt8) :: 0 :: r)) (by omega)
          simp only [List.cons.injEq] at hr
          obtain ⟨rfl, rfl, rfl⟩ := hr
          have hl' : 28 ≤ len := by omega
          simp [newFromNative, hmin, h2, rdU16, rdU32, rd, hf6, SA.afInet, SA.afInet6, SA.saFamilyOff,
            SA.sizeofSockaddrIn6, hl, SA.sin6AddrOff, SA.sinPortOff, SA.sin6FlowOff, SA.sin6ScopeOff, SA.hasFlowinfo,
            SA.hasScopeId, ntohs_host, hostU32_eq, Spec.decode, hl']
      · have n4 : ¬ (b0 = 2 ∧ b1 = 0) := fun h => hf4 ((family_inet_iff b0 b1).2 h)
        have n6 : ¬ (b0 = 10 ∧ b1 = 0) := fun h => hf6 ((family_inet6_iff b0 b1).2 h)
        simp [newFromNative, hmin, h2, rdU16, rd, hf4, hf6, SA.afInet, SA.afInet6, SA.saFamilyOff,
          decode_none_of_family b0 b1 r len n4 n6]

/-- a conversion into a buffer that is too small fails and leaves the buffer alone -/
theorem toNative_small (a : Addr) (dest : Buf) (destlen : Nat) (h : destlen < nativeSize a) :
    toNative a dest destlen = .ok (false, dest) := by
  by_cases h0 : destlen = 0
  · simp [toNative, h0]
  · cases a with
    | v4 addr port =>
      have : destlen < SA.sizeofSockaddrIn := h
      simp [toNative, h0, this]
    | v6 addr port flow scope =>
      have : destlen < SA.sizeofSockaddrIn6 := h
      simp [toNative, h0, this]

/-- `p_socket_address_to_native` writes exactly the layout and nothing behind it -/
theorem toNative_eq_encode (a : Addr) (dest : Buf) (destlen : Nat) (h1 : nativeSize a ≤ destlen)
    (h2 : destlen ≤ dest.length) :
    toNative a dest destlen = .ok (true, Spec.encode a ++ dest.drop (nativeSize a)) := by
  cases a with
  | v4 addr port =>
    have hs : 16 ≤ destlen := h1
    have h0 : destlen ≠ 0 := by omega
    have hn : ¬ destlen < 16 := by omega
    obtain ⟨c0, c1, c2, c3, c4, c5, c6, c7, c8, c9, c10, c11, c12, c13, c14, c15, r', rfl⟩ :=
      exists_cons16 (l := dest) (by omega)
    simp [toNative, h0, hn, wr, wrU16, SA.sizeofSockaddrIn, SA.sinAddrOff, SA.sinFamilyOff, SA.sinPortOff,
      SA.sinZeroOff, SA.sinZeroLen, SA.afInet, bytes_htons, bytesU16_two, toList4 addr, Spec.encode, nativeSize]
  | v6 addr port flow scope =>
    have hs : 28 ≤ destlen := h1
    have h0 : destlen ≠ 0 := by omega
    have hn : ¬ destlen < 28 := by omega
    obtain ⟨c0, c1, c2, c3, c4, c5, c6, c7, c8, c9, c10, c11, c12, c13, c14, c15, c16, c17, c18, c19, c20, c21,
      c22, c23, c24, c25, c26, c27, r', rfl⟩ := exists_cons28 (l := dest) (by omega)
    simp [toNative, h0, hn, wr, wrU16, wrU32, SA.sizeofSockaddrIn6, SA.sin6AddrOff, SA.sin6FamilyOff, SA.sin6PortOff,
      SA.sin6FlowOff, SA.sin6ScopeOff, SA.hasFlowinfo, SA.hasScopeId, SA.afInet6, bytes_htons, bytesU32_eq,
      toList16 addr, Spec.encode, Spec.le32, nativeSize, bytesU16_ten]

theorem encode_length (a : Addr) : (Spec.encode a).length = nativeSize a := by
  cases a <;> simp [Spec.encode, Spec.le32, nativeSize, SA.sizeofSockaddrIn, SA.sizeofSockaddrIn6]

theorem decode_encode (a : Addr) (rest : List UInt8) (n : Nat) (h : nativeSize a ≤ n) :
    Spec.decode (Spec.encode a ++ rest) n = some a := by
  cases a with
  | v4 addr port =>
    have hs : 16 ≤ n := h
    simp [Spec.encode, Spec.decode, toList4 addr, hs, ofBe16_hi_lo, vec4_eta]
  | v6 addr port flow scope =>
    have hs : 28 ≤ n := h
    simp [Spec.encode, Spec.decode, Spec.le32, toList16 addr, hs, ofBe16_hi_lo, vec16_eta, ofLe32_le32]


/-- what the native image of a decoded buffer shares with the buffer: everything for IPv6, everything but
    `sin_zero` for IPv4 -/
theorem encode_of_decode (bytes : List UInt8) (len : Nat) (a : Addr) (h : Spec.decode bytes len = some a) :
    (∃ x p, a = .v4 x p ∧ (Spec.encode a).take 8 = bytes.take 8) ∨
    (∃ x p f s, a = .v6 x p f s ∧ Spec.encode a = bytes.take 28) := by
  unfold Spec.decode at h
  split at h
  · split at h
    · injection h with h
      subst h
      refine Or.inl ⟨_, _, rfl, ?_⟩
      simp [Spec.encode, hi_ofBe16, lo_ofBe16]
    · exact absurd h (by simp)
  · split at h
    · injection h with h
      subst h
      refine Or.inr ⟨_, _, _, _, rfl, ?_⟩
      simp [Spec.encode, hi_ofBe16, lo_ofBe16, le32_ofLe32]
    · exact absurd h (by simp)
  · exact absurd h (by simp)

/-! ### lengths beyond the structure -/

theorem encode_append_take_drop {α : Type} (e dest : List α) (sz k : Nat) (he : e.length = sz) (hk : sz ≤ k) :
    (e ++ dest.drop sz).take k = e ++ (dest.take k).drop sz ∧ (e ++ dest.drop sz).drop k = dest.drop k := by
  constructor
  · rw [List.take_append, he, List.take_of_length_le (by omega), List.drop_take]
  · rw [List.drop_append, he, List.drop_of_length_le (by omega), List.nil_append, List.drop_drop]
    congr 1; omega

/-- the layout's inverse looks at the first 28 bytes and at whether the length reaches 16 / 28 -/
theorem decode_congr (b1 b2 : List UInt8) (l1 l2 : Nat) (h : b1.take 28 = b2.take 28) (h1 : 28 ≤ b1.length)
    (h2 : 28 ≤ b2.length) (hl1 : 28 ≤ l1) (hl2 : 28 ≤ l2) : Spec.decode b1 l1 = Spec.decode b2 l2 := by
  obtain ⟨c0, c1, c2, c3, c4, c5, c6, c7, c8, c9, c10, c11, c12, c13, c14, c15, c16, c17, c18, c19, c20, c21,
    c22, c23, c24, c25, c26, c27, r1, rfl⟩ := exists_cons28 (l := b1) h1
  obtain ⟨d0, d1, d2, d3, d4, d5, d6, d7, d8, d9, d10, d11, d12, d13, d14, d15, d16, d17, d18, d19, d20, d21,
    d22, d23, d24, d25, d26, d27, r2, rfl⟩ := exists_cons28 (l := b2) h2
  simp only [List.take_succ_cons, List.take_zero, List.cons.injEq, and_true] at h
  obtain ⟨rfl, rfl, rfl, rfl, rfl, rfl, rfl, rfl, rfl, rfl, rfl, rfl, rfl, rfl, rfl, rfl, rfl, rfl, rfl, rfl, rfl, rfl,
    rfl, rfl, rfl, rfl, rfl, rfl⟩ := h
  have a1 : 16 ≤ l1 := by omega
  have a2 : 16 ≤ l2 := by omega
  by_cases h4 : c0 = 2 ∧ c1 = 0
  · obtain ⟨rfl, rfl⟩ := h4
    simp [Spec.decode, a1, a2]
  · by_cases h6 : c0 = 10 ∧ c1 = 0
    · obtain ⟨rfl, rfl⟩ := h6
      simp [Spec.decode, hl1, hl2]
    · rw [decode_none_of_family c0 c1 _ l1 h4 h6, decode_none_of_family c0 c1 _ l2 h4 h6]

theorem decode_inet_len (r : List UInt8) (len : Nat) (h : 16 ≤ len) : Spec.decode (2 :: 0 :: r) len = Spec.decode (2 :: 0 :: r) 16 := by
  unfold Spec.decode
  split
  · rename_i heq
    simp only [List.cons.injEq] at heq
    simp [h]
  · rename_i heq
    simp only [List.cons.injEq] at heq
    exact absurd heq.1 (by decide)
  · rfl

theorem decode_inet6_len (r : List UInt8) (len : Nat) (h : 28 ≤ len) : Spec.decode (10 :: 0 :: r) len = Spec.decode (10 :: 0 :: r) 28 := by
  unfold Spec.decode
  split
  · rename_i heq
    simp only [List.cons.injEq] at heq
    exact absurd heq.1 (by decide)
  · simp [h]
  · rfl

/-! ### classification -/

theorem u8_zero_iff (b : UInt8) : b = 0 ↔ b.toNat = 0 := by
  rw [← UInt8.toNat_inj]; rfl

theorem u8_one_iff (b : UInt8) : b = 1 ↔ b.toNat = 1 := by
  rw [← UInt8.toNat_inj]; rfl

theorem u8_127_iff (b : UInt8) : b = 127 ↔ b.toNat = 127 := by
  rw [← UInt8.toNat_inj]; rfl

theorem u32_zero_iff (x : UInt32) : x = 0 ↔ x.toNat = 0 := by
  rw [← UInt32.toNat_inj]; rfl

theorem addr4Host_toNat (a : Vector UInt8 4) :
    (addr4Host a).toNat = 2 ^ 24 * a[0].toNat + (65536 * a[1].toNat + 256 * a[2].toNat + a[3].toNat) := by
  have h0 := u8_lt a[0]
  have h1 := u8_lt a[1]
  have h2 := u8_lt a[2]
  have h3 := u8_lt a[3]
  simp only [addr4Host, ntohl, SA.littleEndian, if_true, swap32, hostU32_eq, UInt32.toNat_ofNat', ofLe32_toNat]
  generalize a[0].toNat = x0 at *
  generalize a[1].toNat = x1 at *
  generalize a[2].toNat = x2 at *
  generalize a[3].toNat = x3 at *
  have e0 : (x0 + 256 * x1 + 65536 * x2 + 16777216 * x3) % 256 = x0 := by omega
  have e1 : (x0 + 256 * x1 + 65536 * x2 + 16777216 * x3) / 256 % 256 = x1 := by omega
  have e2 : (x0 + 256 * x1 + 65536 * x2 + 16777216 * x3) / 65536 % 256 = x2 := by omega
  have e3 : (x0 + 256 * x1 + 65536 * x2 + 16777216 * x3) / 16777216 = x3 := by omega
  rw [e0, e1, e2, e3]
  omega

/-- `x & 0xff000000` keeps exactly the top octet of a 32-bit value -/
theorem and_mask (a0 r : Nat) (ha : a0 < 256) (hr : r < 2 ^ 24) :
    (2 ^ 24 * a0 + r) &&& 0xff000000 = 2 ^ 24 * a0 := by
  apply Nat.eq_of_testBit_eq
  intro i
  have hm : (0xff000000 : Nat) = 2 ^ 24 * 255 + 0 := by decide
  have hz : 2 ^ 24 * a0 = 2 ^ 24 * a0 + 0 := rfl
  have hpos : 0 < 2 ^ 24 := by decide
  rw [Nat.testBit_and, Nat.testBit_two_pow_mul_add a0 hr i, hm, Nat.testBit_two_pow_mul_add 255 hpos i]
  conv => rhs; rw [hz, Nat.testBit_two_pow_mul_add a0 hpos i]
  by_cases hi : i < 24
  · simp [hi]
  · simp only [hi, if_false]
    by_cases hj : i - 24 < 8
    · have : Nat.testBit 255 (i - 24) = true := by
        rw [show (255 : Nat) = 2 ^ 8 - 1 from rfl, Nat.testBit_two_pow_sub_one]
        simp [hj]
      simp [this]
    · have hlt : a0 < 2 ^ (i - 24) :=
        Nat.lt_of_lt_of_le (show a0 < 2 ^ 8 from ha) (Nat.pow_le_pow_right (by decide) (by omega))
      have : a0.testBit (i - 24) = false := Nat.testBit_lt_two_pow hlt
      simp [this]

theorem word6_0 (a : Vector UInt8 16) : word6 a 0 = Spec.ofLe32 a[0] a[1] a[2] a[3] := by rw [← hostU32_eq]; rfl
theorem word6_1 (a : Vector UInt8 16) : word6 a 1 = Spec.ofLe32 a[4] a[5] a[6] a[7] := by rw [← hostU32_eq]; rfl
theorem word6_2 (a : Vector UInt8 16) : word6 a 2 = Spec.ofLe32 a[8] a[9] a[10] a[11] := by rw [← hostU32_eq]; rfl
theorem word6_3 (a : Vector UInt8 16) : word6 a 3 = Spec.ofLe32 a[12] a[13] a[14] a[15] := by rw [← hostU32_eq]; rfl

theorem htonl_one : htonl 1 = UInt32.ofNat 16777216 := by decide

theorem u32_htonl_one_iff (x : UInt32) : x = UInt32.ofNat 16777216 ↔ x.toNat = 16777216 := by
  rw [← UInt32.toNat_inj]; rfl

theorem isAny_eq_spec (a : Addr) : isAny a = Spec.isAny a := by
  cases a with
  | v4 a p =>
    simp only [isAny, Spec.isAny, Spec.addrBytes, toList4 a, List.all_cons, List.all_nil, Bool.and_true, SA.inaddrAny]
    rw [Bool.eq_iff_iff]
    simp only [beq_iff_eq, Bool.and_eq_true, u8_zero_iff, addr4Host_toNat]
    omega
  | v6 a p f s =>
    simp only [isAny, Spec.isAny, Spec.addrBytes, toList16 a, word6_0, word6_1, word6_2, word6_3, List.all_cons,
      List.all_nil, Bool.and_true]
    rw [Bool.eq_iff_iff]
    simp only [beq_iff_eq, Bool.and_eq_true, u8_zero_iff, u32_zero_iff, ofLe32_toNat]
    omega

theorem isLoopback_eq_spec (a : Addr) : isLoopback a = Spec.isLoopback a := by
  cases a with
  | v4 a p =>
    have h0 := u8_lt a[0]
    have h1 := u8_lt a[1]
    have h2 := u8_lt a[2]
    have h3 := u8_lt a[3]
    simp only [isLoopback, Spec.isLoopback, SA.loopMask, SA.loopValue, addr4Host_toNat]
    rw [and_mask _ _ h0 (by omega), Bool.eq_iff_iff]
    simp only [beq_iff_eq, u8_127_iff]
    omega
  | v6 a p f s =>
    simp only [isLoopback, Spec.isLoopback, toList16 a, word6_0, word6_1, word6_2, word6_3, htonl_one]
    rw [Bool.eq_iff_iff]
    simp only [beq_iff_eq, Bool.and_eq_true, List.cons.injEq, and_true, u8_zero_iff, u8_one_iff, u32_zero_iff,
      u32_htonl_one_iff, ofLe32_toNat]
    have b0 := u8_lt a[12]
    have b1 := u8_lt a[13]
    have b2 := u8_lt a[14]
    have b3 := u8_lt a[15]
    omega

/-! ### IPv4 text -/

/-- one octet: printing gives decimal digits only, and glibc's digit loop reads the octet back -/
theorem decByte_table : ∀ n, n < 256 →
    parseOctet (decByte (UInt8.ofNat n)) = some (UInt8.ofNat n) ∧
    (∀ c ∈ decByte (UInt8.ofNat n), c ≠ dot ∧ c ≠ 58) := by
  decide +kernel

theorem parseOctet_decByte (b : UInt8) : parseOctet (decByte b) = some b := by
  have := (decByte_table b.toNat (u8_lt b)).1
  rwa [UInt8.ofNat_toNat] at this

theorem decByte_no_dot (b : UInt8) : ∀ c ∈ decByte b, c ≠ dot := by
  have := (decByte_table b.toNat (u8_lt b)).2
  rw [UInt8.ofNat_toNat] at this
  exact fun c hc => (this c hc).1

theorem decByte_no_colon (b : UInt8) : ∀ c ∈ decByte b, c ≠ 58 := by
  have := (decByte_table b.toNat (u8_lt b)).2
  rw [UInt8.ofNat_toNat] at this
  exact fun c hc => (this c hc).2

theorem splitDot_nodot (d : List UInt8) (hd : ∀ c ∈ d, c ≠ dot) : splitDot d = (d, []) := by
  induction d with
  | nil => rfl
  | cons c r ih =>
    have hc : c ≠ dot := hd c (by simp)
    have hr := ih (fun x hx => hd x (by simp [hx]))
    simp [splitDot, hr, hc]

theorem splitDot_append (d : List UInt8) (hd : ∀ c ∈ d, c ≠ dot) (rest : List UInt8) :
    splitDot (d ++ dot :: rest) = (d, (splitDot rest).1 :: (splitDot rest).2) := by
  induction d with
  | nil => simp [splitDot]
  | cons c r ih =>
    have hc : c ≠ dot := hd c (by simp)
    have hr := ih (fun x hx => hd x (by simp [hx]))
    simp [splitDot, hr, hc]

theorem pton4_ntop4 (a : Vector UInt8 4) : pton4 (ntop4 a) = some a := by
  simp only [pton4, ntop4]
  rw [splitDot_append _ (decByte_no_dot _), splitDot_append _ (decByte_no_dot _), splitDot_append _ (decByte_no_dot _),
    splitDot_nodot _ (decByte_no_dot _)]
  simp [parseOctet_decByte, vec4_eta]

theorem ntop4_no_colon (a : Vector UInt8 4) : (ntop4 a).contains 58 = false := by
  have h0 := decByte_no_colon a[0]
  have h1 := decByte_no_colon a[1]
  have h2 := decByte_no_colon a[2]
  have h3 := decByte_no_colon a[3]
  have hd : (58 : UInt8) ≠ dot := by decide
  simp only [ntop4, List.contains_eq_mem, List.mem_append, List.mem_cons, decide_eq_false_iff_not]
  intro h
  rcases h with h | h | h | h | h | h | h
  · exact h0 _ h rfl
  · exact hd h
  · exact h1 _ h rfl
  · exact hd h
  · exact h2 _ h rfl
  · exact hd h
  · exact h3 _ h rfl

end PV.SockAddr

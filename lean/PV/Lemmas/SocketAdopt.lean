import PV.Lemmas.SocketFd
/-! Helper lemmas for the failure paths of `p_socket_new_from_fd` and for address objects that
`p_socket_address_to_native` rejects (C10 §6). -/
namespace PV.Socket
open PV.Generated.Socket

/-- `p_socket_new_from_fd` returns NULL exactly when it sets an error -/
theorem newFromFd_null_iff_error (fd : Int) :
    RetAll (fun p => (p.1 = none ↔ p.2.isSome = true)) (newFromFd fd) := by
  unfold newFromFd
  ret_all' (simp)

/-- what adoption stores in the identity fields, relative to the object `s0` it started from -/
def AdoptId (s0 x : Sock) : Prop :=
  (x.family = AF_INET ∨ x.family = AF_INET6 ∨ x.family = 0) ∧
  (x.family = 0 → x.protocol = s0.protocol ∧ x.connected = s0.connected) ∧
  (x.family ≠ 0 → x.protocol = protoOfType x.type s0.protocol)

theorem setDetails_identity (s : Sock) :
    RetAll (fun p => p.2 = none → AdoptId s p.1) (setDetailsFromFd s) := by
  unfold setDetailsFromFd
  ret_all ((intro h; cases h))
  all_goals apply RetAll.bind (R := AdoptId s)
  all_goals ret_all (first
    | (intro _; assumption)
    | (intro h; cases h)
    | (simp_all [AdoptId, AF_INET, AF_INET6]; done)
    | (split <;> simp_all [AdoptId, AF_INET, AF_INET6]; done))

/-- `p_socket_new_from_fd`: the identity fields of the object it returns -/
theorem newFromFd_identity (fd : Int) :
    RetAll (fun p => ∀ ns, p.1 = some ns → AdoptId { fd := fd } ns) (newFromFd fd) := by
  unfold newFromFd
  ret_all (simp)
  apply RetAll.bind (setDetails_identity _)
  intro a ha
  ret_all' (simp)
  all_goals (apply RetAll.pure; intro ns h; injection h with h; subst h; first | exact ha rfl | exact ha (by assumption) | exact ha (by simp_all))

end PV.Socket

import PV.Lemmas.SocketFd
/-! Helper lemmas for the failure paths of `p_socket_new_from_fd` and for address objects that
`p_socket_address_to_native` rejects (C10 §6). -/
namespace PV.Socket
open PV.Generated.Socket

/-- `p_socket_new_from_fd` returns NULL exactly when it sets an error -/
theorem newFromFd_null_iff_error (fd : Int) :
    RetAll (fun p => (p.1 = none ↔ p.2.isSome = true)) (newFromFd fd) := by
  unfold newFromFd
  ret_all' (simp)

end PV.Socket

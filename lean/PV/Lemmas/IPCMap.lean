import PV.Lemmas.IPC
set_option linter.unusedSimpArgs false
/-!
Invariants of the IPC model over ARBITRARY schedules (every interleaving of the system calls of any
calls of any threads of any processes, SIGKILLs included):

* `MapInv` — who owns which mapping.  Every live PShm handle and every `p_shm_new` / `p_shm_free` in
  flight that holds a mapping ("claimant") has exactly one mapping at its address in its process,
  of exactly the length it will pass to `munmap`; two claimants of one process never hold the same
  address; addresses are handed out increasingly (address freshness is an invariant of the `mmap`
  model, not a hypothesis).  Hence every `munmap` the library issues removes exactly its own mapping.
* `SemKeyWF` — PShm structs and shm calls only ever touch the lock key of their own segment name.
-/
namespace PV.IPC
open PV.Generated.IPC

/-! ## claims -/

/-- (process, address, length) of the mapping a call in flight holds -/
def Call.claim (p : Pid) : Call → Option (Pid × Nat × Nat)
  | .shmNew _ st =>
    match st.pc with
    | .fUnlink _ => none
    | _ => st.addr.map fun a => (p, a, st.size)
  | .shmFree st =>
    match st.pc with
    | .munmap => some (p, st.h.addr, st.h.size)
    | _ => none
  | _ => none

def tClaim (g : G) (t : Tid) : Option (Pid × Nat × Nat) :=
  match g.calls t with
  | some c => c.claim (g.pidOf t)
  | none => none

def hClaim (g : G) (h : Hid) : Option (Pid × Nat × Nat) :=
  match g.hs h with
  | some (p, .shm y) => some (p, y.addr, y.size)
  | _ => none

/-- a claimant: a live handle or a thread with a call in flight -/
abbrev Claimant := Hid ⊕ Tid

def claimOf (g : G) : Claimant → Option (Pid × Nat × Nat)
  | .inl h => hClaim g h
  | .inr t => tClaim g t

/-- the part of `MapInv` that speaks about mappings and claims -/
structure ClaimInv (g : G) : Prop where
  /-- addresses are handed out increasingly: every mapping lies below the next address -/
  fresh : ∀ p m, m ∈ (g.os.procs p).maps → m.addr < (g.os.procs p).nextAddr
  /-- at most one mapping per address -/
  nodup : ∀ p, ((g.os.procs p).maps.map (·.addr)).Nodup
  /-- a claim is backed by a mapping of exactly the claimed (non-zero) length, mapped from offset 0 -/
  valid : ∀ c p a l, claimOf g c = some (p, a, l) → l ≠ 0 ∧ ∃ m ∈ (g.os.procs p).maps, m.addr = a ∧ m.len = l ∧ m.off = 0
  /-- no two claimants of one process hold the same address -/
  inj : ∀ c c' p a l l', claimOf g c = some (p, a, l) → claimOf g c' = some (p, a, l') → c = c'

/-! ## how claims can change: the generic preservation lemmas -/

/-- mappings untouched, claims only move from one claimant `c0` to `c1` or disappear -/
theorem ClaimInv.transfer {g g' : G} (h : ClaimInv g) (c0 c1 : Claimant)
    (hmaps : ∀ p, (g'.os.procs p).maps = (g.os.procs p).maps ∧ (g'.os.procs p).nextAddr = (g.os.procs p).nextAddr)
    (hcl : ∀ c x, claimOf g' c = some x → (c ≠ c1 ∧ claimOf g c = some x) ∨ (c = c1 ∧ claimOf g c0 = some x))
    (hc0 : c0 ≠ c1 → claimOf g' c0 = none) : ClaimInv g' := by
  refine ⟨?_, ?_, ?_, ?_⟩
  · intro p m hm; rw [(hmaps p).1] at hm; rw [(hmaps p).2]; exact h.fresh p m hm
  · intro p; rw [(hmaps p).1]; exact h.nodup p
  · intro c p a l hc
    rw [(hmaps p).1]
    rcases hcl c _ hc with ⟨_, h1⟩ | ⟨_, h1⟩
    · exact h.valid c p a l h1
    · exact h.valid c0 p a l h1
  · intro c c' p a l l' hc hc'
    rcases hcl c _ hc with ⟨n1, h1⟩ | ⟨e1, h1⟩ <;> rcases hcl c' _ hc' with ⟨n2, h2⟩ | ⟨e2, h2⟩
    · exact h.inj c c' p a l l' h1 h2
    · have := h.inj c c0 p a l l' h1 h2
      subst this
      by_cases e : c = c1
      · exact absurd e n1
      · rw [hc0 e] at hc; cases hc
    · have := h.inj c0 c' p a l l' h1 h2
      subst this
      by_cases e : c0 = c1
      · exact absurd e n2
      · rw [hc0 e] at hc'; cases hc'
    · rw [e1, e2]

/-- claims only disappear (mappings untouched) -/
theorem ClaimInv.shrink {g g' : G} (h : ClaimInv g)
    (hmaps : ∀ p, (g'.os.procs p).maps = (g.os.procs p).maps ∧ (g'.os.procs p).nextAddr = (g.os.procs p).nextAddr)
    (hcl : ∀ c x, claimOf g' c = some x → claimOf g c = some x) : ClaimInv g' := by
  refine h.transfer (.inl 0) (.inl 0) hmaps ?_ (fun e => absurd rfl e)
  intro c x hc
  by_cases e : c = .inl 0
  · right; exact ⟨e, by rw [← e]; exact hcl c x hc⟩
  · left; exact ⟨e, hcl c x hc⟩

/-- a successful `mmap` by thread `t` of process `p`: one new mapping at the next address, claimed by `t` -/
theorem ClaimInv.mmap {g g' : G} (h : ClaimInv g) (t : Tid) (p : Pid) (m : Mapping)
    (hm : m.addr = (g.os.procs p).nextAddr) (hoff : m.off = 0) (hlen : m.len ≠ 0)
    (hp : (g'.os.procs p).maps = m :: (g.os.procs p).maps ∧ (g.os.procs p).nextAddr < (g'.os.procs p).nextAddr)
    (hq : ∀ q, q ≠ p → (g'.os.procs q).maps = (g.os.procs q).maps ∧ (g'.os.procs q).nextAddr = (g.os.procs q).nextAddr)
    (hcl : ∀ c x, claimOf g' c = some x → (c ≠ .inr t ∧ claimOf g c = some x) ∨ (c = .inr t ∧ x = (p, m.addr, m.len))) :
    ClaimInv g' := by
  refine ⟨?_, ?_, ?_, ?_⟩
  · intro q m' hm'
    by_cases e : q = p
    · subst e
      rw [hp.1] at hm'
      rcases List.mem_cons.mp hm' with rfl | h'
      · rw [hm]; exact hp.2
      · exact Nat.lt_trans (h.fresh q m' h') hp.2
    · rw [(hq q e).1] at hm'; rw [(hq q e).2]; exact h.fresh q m' hm'
  · intro q
    by_cases e : q = p
    · subst e
      rw [hp.1, List.map_cons, List.nodup_cons]
      refine ⟨?_, h.nodup q⟩
      intro hin
      obtain ⟨m', hm', e'⟩ := List.mem_map.mp hin
      have := h.fresh q m' hm'
      rw [e', hm] at this
      exact Nat.lt_irrefl _ this
    · rw [(hq q e).1]; exact h.nodup q
  · intro c q a l hc
    rcases hcl c _ hc with ⟨_, h1⟩ | ⟨_, h1⟩
    · obtain ⟨hl, m', hm', r⟩ := h.valid c q a l h1
      refine ⟨hl, m', ?_, r⟩
      by_cases e : q = p
      · subst e; rw [hp.1]; exact List.mem_cons_of_mem _ hm'
      · rw [(hq q e).1]; exact hm'
    · simp only [Prod.mk.injEq] at h1
      obtain ⟨rfl, rfl, rfl⟩ := h1
      exact ⟨hlen, m, by rw [hp.1]; exact List.mem_cons_self, rfl, rfl, hoff⟩
  · intro c c' q a l l' hc hc'
    rcases hcl c _ hc with ⟨n1, h1⟩ | ⟨e1, h1⟩ <;> rcases hcl c' _ hc' with ⟨n2, h2⟩ | ⟨e2, h2⟩
    · exact h.inj c c' q a l l' h1 h2
    · exfalso
      simp only [Prod.mk.injEq] at h2
      obtain ⟨rfl, rfl, _⟩ := h2
      obtain ⟨_, m', hm', ea, _⟩ := h.valid c q m.addr l h1
      have := h.fresh q m' hm'
      rw [ea, hm] at this
      exact Nat.lt_irrefl _ this
    · exfalso
      simp only [Prod.mk.injEq] at h1
      obtain ⟨rfl, rfl, _⟩ := h1
      obtain ⟨_, m', hm', ea, _⟩ := h.valid c' q m.addr l' h2
      have := h.fresh q m' hm'
      rw [ea, hm] at this
      exact Nat.lt_irrefl _ this
    · rw [e1, e2]

/-- `munmap (a, l)` of a mapping list without duplicates in which the mapping at `a` has length `l`:
    exactly that mapping goes -/
theorem munmapF_exact (pr : Proc) (a l : Nat)
    (hlen : ∀ m ∈ pr.maps, m.addr = a → m.len = l) :
    (munmapF pr a l).maps = pr.maps.filter (fun m => decide (m.addr ≠ a)) ∧
    (munmapF pr a l).nextAddr = pr.nextAddr := by
  refine ⟨?_, rfl⟩
  simp only [munmapF]
  have : ∀ (ms : List Mapping), (∀ m ∈ ms, m.addr = a → m.len = l) →
      ms.flatMap (fun m => if m.addr = a then
        (if pages l ≥ pages m.len then [] else
          [{ m with addr := m.addr + pages l, off := m.off + pages l * pageSize, len := m.len - pages l * pageSize }])
        else [m]) = ms.filter (fun m => decide (m.addr ≠ a)) := by
    intro ms
    induction ms with
    | nil => intro _; rfl
    | cons m ms ih =>
      intro h
      have ih' := ih (fun m' hm' => h m' (List.mem_cons_of_mem _ hm'))
      simp only [List.flatMap_cons, List.filter_cons]
      by_cases e : m.addr = a
      · have := h m List.mem_cons_self e
        simp [e, this, ih']
      · simp [e, ih']
  exact this pr.maps hlen

/-- a `munmap` of its own claim by thread `t`: exactly that mapping goes, the claim with it -/
theorem ClaimInv.munmap {g g' : G} (h : ClaimInv g) (t : Tid) (p : Pid) (a l : Nat)
    (hc : claimOf g (.inr t) = some (p, a, l))
    (hp : (g'.os.procs p).maps = (g.os.procs p).maps.filter (fun m => decide (m.addr ≠ a)) ∧
          (g'.os.procs p).nextAddr = (g.os.procs p).nextAddr)
    (hq : ∀ q, q ≠ p → (g'.os.procs q).maps = (g.os.procs q).maps ∧ (g'.os.procs q).nextAddr = (g.os.procs q).nextAddr)
    (hcl : ∀ c x, claimOf g' c = some x → c ≠ .inr t ∧ claimOf g c = some x) : ClaimInv g' := by
  refine ⟨?_, ?_, ?_, ?_⟩
  · intro q m hm
    by_cases e : q = p
    · subst e; rw [hp.1] at hm; rw [hp.2]; exact h.fresh q m (List.mem_filter.mp hm).1
    · rw [(hq q e).1] at hm; rw [(hq q e).2]; exact h.fresh q m hm
  · intro q
    by_cases e : q = p
    · subst e; rw [hp.1]
      exact List.Nodup.sublist (List.Sublist.map _ List.filter_sublist) (h.nodup q)
    · rw [(hq q e).1]; exact h.nodup q
  · intro c q a' l' hc'
    obtain ⟨n, h1⟩ := hcl c _ hc'
    obtain ⟨hl, m', hm', ea, r⟩ := h.valid c q a' l' h1
    refine ⟨hl, m', ?_, ea, r⟩
    by_cases e : q = p
    · subst e
      rw [hp.1]
      refine List.mem_filter.mpr ⟨hm', ?_⟩
      simp only [decide_eq_true_eq]
      intro e2
      rw [ea] at e2
      subst e2
      exact n (h.inj c (.inr t) q a' l' l h1 hc)
    · rw [(hq q e).1]; exact hm'
  · intro c c' q a' l1 l2 h1 h2
    exact h.inj c c' q a' l1 l2 (hcl c _ h1).2 (hcl c' _ h2).2

/-- SIGKILL of `p`: its mappings and all its claims vanish -/
theorem ClaimInv.kill {g g' : G} (h : ClaimInv g) (p : Pid)
    (hp : (g'.os.procs p).maps = [])
    (hq : ∀ q, q ≠ p → (g'.os.procs q).maps = (g.os.procs q).maps ∧ (g'.os.procs q).nextAddr = (g.os.procs q).nextAddr)
    (hcl : ∀ c q a l, claimOf g' c = some (q, a, l) → q ≠ p ∧ claimOf g c = some (q, a, l)) : ClaimInv g' := by
  refine ⟨?_, ?_, ?_, ?_⟩
  · intro q m hm
    by_cases e : q = p
    · subst e; rw [hp] at hm; cases hm
    · rw [(hq q e).1] at hm; rw [(hq q e).2]; exact h.fresh q m hm
  · intro q
    by_cases e : q = p
    · subst e; rw [hp]; exact List.nodup_nil
    · rw [(hq q e).1]; exact h.nodup q
  · intro c q a l hc
    obtain ⟨n, h1⟩ := hcl c q a l hc
    rw [(hq q n).1]; exact h.valid c q a l h1
  · intro c c' q a l l' h1 h2
    exact h.inj c c' q a l l' (hcl c _ _ _ h1).2 (hcl c' _ _ _ h2).2

/-! ## which system calls touch mappings -/

/-- every system call except `mmap` / `munmap` leaves all mappings and next addresses alone -/
theorem sysStep_maps_frame (p : Pid) (i : Bool) (c : Sys) (os : OS)
    (h1 : ∀ fd len prot fl, c ≠ .mmap fd len prot fl) (h2 : ∀ a len, c ≠ .munmap a len) (q : Pid) :
    ((sysStep p i c os).1.procs q).maps = (os.procs q).maps ∧
    ((sysStep p i c os).1.procs q).nextAddr = (os.procs q).nextAddr := by
  unfold sysStep
  split
  · exact ⟨rfl, rfl⟩
  · cases c with
    | mmap fd len prot fl => exact absurd rfl (h1 fd len prot fl)
    | munmap a len => exact absurd rfl (h2 a len)
    | semOpen k fl m v => simp only [semOpenF]; (repeat' split) <;> exact ⟨rfl, rfl⟩
    | shmOpen k fl m =>
      simp only [shmOpenF, OS.setProc]
      (repeat' split) <;> (first | exact ⟨rfl, rfl⟩ | (constructor <;> (by_cases hq : q = p <;> simp [hq])))
    | _ =>
      simp only [OS.setProc]
      all_goals ((repeat' split) <;> (first | exact ⟨rfl, rfl⟩ | (constructor <;> (by_cases hq : q = p <;> simp [hq]))))

/-- `mmap`: on success one mapping at the next address of the calling process -/
theorem sysStep_mmap (p : Pid) (i : Bool) (fd len prot fl : Nat) (os : OS) :
    (∃ e, (sysStep p i (.mmap fd len prot fl) os) = (os, .err e)) ∨
    (∃ s, lookupFd (os.procs p) fd = some s ∧ len ≠ 0 ∧
      (sysStep p i (.mmap fd len prot fl) os).2 = .ok (os.procs p).nextAddr ∧
      ((sysStep p i (.mmap fd len prot fl) os).1.procs p).maps =
        { addr := (os.procs p).nextAddr, seg := s, off := 0, len := len,
          writable := hasFlag prot PROT_WRITE, shared := hasFlag fl MAP_SHARED } :: (os.procs p).maps ∧
      ((sysStep p i (.mmap fd len prot fl) os).1.procs p).nextAddr = (os.procs p).nextAddr + pages len + 1 ∧
      ((sysStep p i (.mmap fd len prot fl) os).1.procs p).fds = (os.procs p).fds ∧
      ((sysStep p i (.mmap fd len prot fl) os).1.procs p).nextFd = (os.procs p).nextFd ∧
      (∀ q, q ≠ p → (sysStep p i (.mmap fd len prot fl) os).1.procs q = os.procs q) ∧
      (sysStep p i (.mmap fd len prot fl) os).1.segs = os.segs ∧
      (sysStep p i (.mmap fd len prot fl) os).1.shmNames = os.shmNames ∧
      (sysStep p i (.mmap fd len prot fl) os).1.nextSeg = os.nextSeg) := by
  simp only [sysStep, Sys.interruptible, Bool.and_false]
  cases hl : lookupFd (os.procs p) fd with
  | none => left; exact ⟨.EBADF, by simp⟩
  | some s =>
    by_cases h0 : len = 0
    · left; exact ⟨.EINVAL, by simp [h0]⟩
    · right
      refine ⟨s, rfl, h0, ?_⟩
      simp [h0, OS.setProc]
      intro q hq; simp [hq]

/-- `munmap`: EINVAL for length 0, otherwise `munmapF` on the calling process -/
theorem sysStep_munmap (p : Pid) (i : Bool) (a len : Nat) (os : OS) (h0 : len ≠ 0) :
    ((sysStep p i (.munmap a len) os).1.procs p) = munmapF (os.procs p) a len ∧
    (∀ q, q ≠ p → (sysStep p i (.munmap a len) os).1.procs q = os.procs q) ∧
    (sysStep p i (.munmap a len) os).1.segs = os.segs ∧ (sysStep p i (.munmap a len) os).1.shmNames = os.shmNames ∧
    (sysStep p i (.munmap a len) os).1.nextSeg = os.nextSeg := by
  simp [sysStep, Sys.interruptible, h0, OS.setProc]
  intro q hq; simp [hq]

/-! ## well-formedness of a `p_shm_new` in flight -/

/-- the C struct fields of a `pp_shm_create_handle` in flight are consistent with its program point:
    the clamp of `p_shm_new` will be a no-op, `size` is still the request before `fstat`, `addr` is
    set exactly from the successful `mmap` on -/
def ShmNewSt.wf (st : ShmNewSt) : Prop :=
  clampSize st.req st.size = st.size ∧
  (match st.pc with
   | .excl | .open | .fstat _ | .ftrunc _ => st.size = st.req
   | _ => True) ∧
  (match st.pc with
   | .close _ | .sem _ | .fMunmap _ => st.addr.isSome = true
   | .excl | .open | .fstat _ | .ftrunc _ | .mmap _ | .fClose _ _ => st.addr = none
   | .fUnlink _ => True)

theorem ShmNewSt.wf_after (st st' : ShmNewSt) (r : Res) (h : st.wf) (ha : st.after r = .cont st') : st'.wf := by
  obtain ⟨key, req, ro, created, isExists, size, addr, pc⟩ := st
  obtain ⟨h1, h2, h3⟩ := h
  cases pc with
  | sem s =>
    simp only [ShmNewSt.after] at ha
    split at ha
    · simp only [Out.cont.injEq] at ha; subst ha; exact ⟨h1, trivial, h3⟩
    · simp at ha
    · simp only [ShmNewSt.cleanFrom] at ha
      simp only at h3
      simp only [h3, Bool.not_false, Bool.and_self, if_true, Out.cont.injEq] at ha
      subst ha; exact ⟨h1, trivial, h3⟩
  | fstat fd =>
    rcases r with v | e | _ <;> (try cases e) <;> simp only [ShmNewSt.after, Out.cont.injEq, reduceCtorEq] at ha <;>
      (try subst ha) <;> simp only at h2 h3 ⊢
    · subst h2
      refine ⟨?_, ?_, ?_⟩
      · simp only [existingSize_eq]; exact clampSize_rep _ _
      · simp only [shmFtruncateCreatorOnly, if_true]
      · simp only [shmFtruncateCreatorOnly, if_true]; exact h3
    all_goals exact ⟨h1, trivial, h3⟩
  | _ =>
    rcases r with v | e | _ <;> (try cases e) <;>
      simp only [ShmNewSt.after, ShmNewSt.cleanFrom, shmOpen1Retry, shmOpen2Retry, if_true, Out.cont.injEq, reduceCtorEq] at ha <;>
      (try (repeat' split at ha)) <;> (try simp only [Out.cont.injEq, reduceCtorEq] at ha) <;> (try subst ha) <;>
      simp_all [ShmNewSt.wf]

/-! ## what one step of a call does to its claim -/

theorem semNew_next_not_map (s : SemNewSt) :
    (∀ fd len prot fl, s.next ≠ .mmap fd len prot fl) ∧ (∀ a len, s.next ≠ .munmap a len) := by
  obtain ⟨key, mode, init, pc⟩ := s
  cases pc <;> simp [SemNewSt.next]

theorem semFree_next_not_map (s : SemFreeSt) :
    (∀ fd len prot fl, s.next ≠ .mmap fd len prot fl) ∧ (∀ a len, s.next ≠ .munmap a len) := by
  obtain ⟨h, pc⟩ := s
  cases pc <;> simp [SemFreeSt.next]

/-- the step of a `p_shm_new` that is neither at `mmap` nor at the failure-path `munmap` -/
theorem shmNew_next_not_map (st : ShmNewSt) (h1 : ∀ fd, st.pc ≠ .mmap fd) (h2 : ∀ e, st.pc ≠ .fMunmap e) :
    (∀ fd len prot fl, st.next ≠ .mmap fd len prot fl) ∧ (∀ a len, st.next ≠ .munmap a len) := by
  obtain ⟨key, req, ro, created, isExists, size, addr, pc⟩ := st
  cases pc with
  | mmap fd => exact absurd rfl (h1 fd)
  | fMunmap e => exact absurd rfl (h2 e)
  | sem s => simpa [ShmNewSt.next] using semNew_next_not_map s
  | _ => simp [ShmNewSt.next]

/-- … keeps its claim or drops it -/
theorem shmNew_claim_cont (p : Pid) (hid : Hid) (st st' : ShmNewSt) (r : Res) (hwf : st.wf)
    (h1 : ∀ fd, st.pc ≠ .mmap fd) (ha : st.after r = .cont st') :
    (Call.shmNew hid st').claim p = (Call.shmNew hid st).claim p ∨ (Call.shmNew hid st').claim p = none := by
  obtain ⟨key, req, ro, created, isExists, size, addr, pc⟩ := st
  obtain ⟨_, _, h3⟩ := hwf
  cases pc with
  | mmap fd => exact absurd rfl (h1 fd)
  | sem s =>
    simp only [ShmNewSt.after] at ha
    split at ha
    · simp only [Out.cont.injEq] at ha; subst ha; left; rfl
    · simp at ha
    · simp only [ShmNewSt.cleanFrom] at ha
      (repeat' split at ha) <;> simp only [Out.cont.injEq, reduceCtorEq] at ha <;> subst ha
      · left; rfl
      · right; rfl
  | _ =>
    simp only at h3
    rcases r with v | e | _ <;> (try cases e) <;>
      simp only [ShmNewSt.after, ShmNewSt.cleanFrom, shmOpen1Retry, shmOpen2Retry, if_true, Out.cont.injEq, reduceCtorEq] at ha <;>
      (try (repeat' split at ha)) <;> (try simp only [Out.cont.injEq, reduceCtorEq] at ha) <;> (try subst ha) <;>
      simp_all [Call.claim]

/-- a `p_shm_new` that returns a handle hands its claim over to the handle -/
theorem shmNew_claim_done (p : Pid) (hid : Hid) (st : ShmNewSt) (r : Res) (y : PShm) (hwf : st.wf)
    (ha : st.after r = .done (.ok y)) : (Call.shmNew hid st).claim p = some (p, y.addr, y.size) := by
  obtain ⟨s, ps, hpc, _, _⟩ := shmNew_after_handle st r y ha
  obtain ⟨key, req, ro, created, isExists, size, addr, pc⟩ := st
  simp only at hpc
  subst hpc
  obtain ⟨h1, _, h3⟩ := hwf
  simp only at h3 h1
  simp only [ShmNewSt.after] at ha
  split at ha
  · simp at ha
  · simp only [Out.done.injEq, Except.ok.injEq] at ha
    subst ha
    cases addr with
    | none => simp at h3
    | some a => simp [Call.claim, h1]
  · simp only [ShmNewSt.cleanFrom] at ha
    (repeat' split at ha) <;> simp at ha

/-- the `mmap` step of `p_shm_new`: on success the call claims the new address with length `size` -/
theorem shmNew_mmap_step (p : Pid) (hid : Hid) (st : ShmNewSt) (fd : Nat) (hpc : st.pc = .mmap fd) :
    st.next = .mmap fd st.size (if st.ro then shmMmapProtRO else shmMmapProtRW) shmMmapFlags ∧
    (∀ a, ∃ st', st.after (.ok a) = .cont st' ∧ (Call.shmNew hid st').claim p = some (p, a, st.size)) ∧
    (∀ e, ∃ st', st.after (.err e) = .cont st' ∧ st'.addr = st.addr ∧ st'.size = st.size ∧ ∃ fd' e', st'.pc = .fClose fd' e') := by
  obtain ⟨key, req, ro, created, isExists, size, addr, pc⟩ := st
  simp only at hpc
  subst hpc
  refine ⟨rfl, ?_, ?_⟩
  · intro a; exact ⟨_, rfl, rfl⟩
  · intro e; cases e <;> exact ⟨_, rfl, rfl, rfl, _, _, rfl⟩

/-- the failure-path `munmap` of `p_shm_new` unmaps exactly its claim, and drops it -/
theorem shmNew_fMunmap_step (p : Pid) (hid : Hid) (st : ShmNewSt) (e : Errno) (hpc : st.pc = .fMunmap e) (hwf : st.wf) :
    ∃ a, st.next = .munmap a st.size ∧ (Call.shmNew hid st).claim p = some (p, a, st.size) ∧
      (∀ r st', st.after r = .cont st' → (Call.shmNew hid st').claim p = none) ∧
      (∀ r y, st.after r ≠ .done (.ok y)) := by
  obtain ⟨key, req, ro, created, isExists, size, addr, pc⟩ := st
  simp only at hpc
  subst hpc
  obtain ⟨_, _, h3⟩ := hwf
  simp only at h3
  cases addr with
  | none => simp at h3
  | some a =>
    refine ⟨a, rfl, rfl, ?_, ?_⟩
    · intro r st' ha
      rcases r with v | e' | _ <;> (try cases e') <;>
        simp only [ShmNewSt.after, ShmNewSt.cleanFrom, Bool.not_true, Bool.false_and, Bool.false_eq_true, if_false] at ha <;>
        (repeat' split at ha) <;>
        simp only [Out.cont.injEq, reduceCtorEq] at ha <;> subst ha <;> rfl
    · intro r y ha
      rcases r with v | e' | _ <;> (try cases e') <;>
        simp only [ShmNewSt.after, ShmNewSt.cleanFrom] at ha <;> (repeat' split at ha) <;> simp at ha

/-- `p_shm_free`: the first step unmaps exactly the handle's (address, size); later steps hold no claim -/
theorem shmFree_step (p : Pid) (st : ShmFreeSt) :
    (st.pc = .munmap → st.next = .munmap st.h.addr st.h.size ∧ (Call.shmFree st).claim p = some (p, st.h.addr, st.h.size)) ∧
    (st.pc ≠ .munmap → (∀ fd len prot fl, st.next ≠ .mmap fd len prot fl) ∧ (∀ a len, st.next ≠ .munmap a len) ∧
      (Call.shmFree st).claim p = none) ∧
    (∀ r st', st.after r = .cont st' → (Call.shmFree st').claim p = none) := by
  obtain ⟨h, pc⟩ := st
  refine ⟨?_, ?_, ?_⟩
  · intro e; simp only at e; subst e; exact ⟨rfl, rfl⟩
  · intro e
    cases pc with
    | munmap => exact absurd rfl e
    | unlink => simp [ShmFreeSt.next, Call.claim]
    | sem s => simpa [ShmFreeSt.next, Call.claim] using semFree_next_not_map s
  · intro r st' ha
    cases pc <;> simp only [ShmFreeSt.after] at ha <;> (repeat' split at ha) <;>
      simp only [Out.cont.injEq, reduceCtorEq] at ha <;> subst ha <;> rfl

/-! ## the invariant over `exec` -/

structure MapInv (g : G) : Prop where
  claims : ClaimInv g
  newwf : ∀ t hid st, g.calls t = some (.shmNew hid st) → st.wf

theorem step_calls_self (g : G) (t : Tid) (i : Bool) (c : Call) (hc : g.calls t = some c) :
    (g.step t i).calls t =
      match c.after (sysStep (g.pidOf t) i c.next g.os).2 with
      | .cont c' => some c'
      | .done _ => none := by
  simp only [G.step, hc]
  cases hr : c.after (sysStep (g.pidOf t) i c.next g.os).2 with
  | cont c' => simp [G.setCall]
  | done r =>
    obtain ⟨ret, nh⟩ := r
    cases nh with
    | none => simp [G.setCall, G.setRet]
    | some x => obtain ⟨hid, y⟩ := x; simp [G.setCall, G.setRet, G.setHandle]

theorem tClaim_other_step (g : G) (t t' : Tid) (i : Bool) (h : t' ≠ t) : tClaim (g.step t i) t' = tClaim g t' := by
  simp only [tClaim, step_calls_other g t i t' h, step_pidOf]

theorem tClaim_other_start (g : G) (t t' : Tid) (op : Op) (h : t' ≠ t) : tClaim (g.start t op) t' = tClaim g t' := by
  simp only [tClaim, start_calls_other g t op t' h, start_pidOf]

theorem hClaim_start (g : G) (t : Tid) (op : Op) (h : Hid) (x : Pid × Nat × Nat)
    (hx : hClaim (g.start t op) h = some x) : hClaim g h = some x := by
  simp only [hClaim] at hx ⊢
  split at hx
  · rename_i p y hy
    rcases start_hs g t op h p (.shm y) hy with h0 | ⟨x0, h0, e⟩
    · simpa [h0] using hx
    · cases x0 with
      | sem z => simp [Handle.owned] at e
      | shm z =>
        simp only [Handle.owned, Handle.shm.injEq] at e
        subst e
        simpa [h0] using hx
  · cases hx

/-- what `start` does when it begins a `p_shm_free` -/
theorem start_free_shm (g : G) (t : Tid) (h : Hid) (y : PShm)
    (ha : (g.os.procs (g.pidOf t)).alive = true) (hi : g.calls t = none) (hof : g.handleOf t h = some (.shm y)) :
    g.start t (.free h) = (g.setHandle h none).setCall t (some (.shmFree ⟨y, .munmap⟩)) := by
  simp [G.start, ha, hi, hof]

theorem start_not_ok (g : G) (t : Tid) (op : Op)
    (h : ¬ ((g.os.procs (g.pidOf t)).alive = true ∧ g.calls t = none)) : g.start t op = g.setRet t .bad := by
  unfold G.start
  have : (!(g.os.procs (g.pidOf t)).alive || (g.calls t).isSome) = true := by
    cases ha : (g.os.procs (g.pidOf t)).alive <;> cases hc : g.calls t <;> simp_all
  simp [this]

/-- in every other case the thread's new call holds no claim (or nothing was started) -/
theorem tClaim_self_start (g : G) (t : Tid) (op : Op) (x : Pid × Nat × Nat)
    (hx : tClaim (g.start t op) t = some x)
    (hn : ¬ ∃ h y, op = .free h ∧ (g.os.procs (g.pidOf t)).alive = true ∧ g.calls t = none ∧ g.handleOf t h = some (.shm y)) :
    tClaim g t = some x := by
  by_cases hok : (g.os.procs (g.pidOf t)).alive = true ∧ g.calls t = none
  · obtain ⟨hal, hidle⟩ := hok
    exfalso
    cases op with
    | free h =>
      cases hof : g.handleOf t h with
      | none => simp [tClaim, G.start, hal, hidle, hof, G.setRet] at hx
      | some x' =>
        cases x' with
        | sem s => simp [tClaim, G.start, hal, hidle, hof, G.setCall, G.setHandle, Call.claim] at hx
        | shm y => exact hn ⟨h, y, rfl, hal, hidle, hof⟩
    | newShm h k size ro =>
      by_cases hh : (g.hs h).isSome = true
      · simp [tClaim, G.start, hal, hidle, hh, G.setRet] at hx
      · simp [tClaim, G.start, hal, hidle, hh, G.setCall, Call.claim] at hx
    | newSem h k init m =>
      by_cases hh : (g.hs h).isSome = true
      · simp [tClaim, G.start, hal, hidle, hh, G.setRet] at hx
      · simp [tClaim, G.start, hal, hidle, hh, G.setCall, Call.claim] at hx
    | acq h =>
      cases hof : g.handleOf t h with
      | none => simp [tClaim, G.start, hal, hidle, hof, G.setRet] at hx
      | some x' =>
        cases x' <;> simp only [tClaim, G.start, hal, hidle, hof, Bool.not_true, Option.isSome_none, Bool.or_self, Bool.false_eq_true, if_false] at hx <;>
          (try (repeat' split at hx)) <;> simp_all [G.setRet, G.setCall, G.setHandle, Call.claim] <;>
          (subst_vars; simp [Call.claim] at hx)
    | rel h =>
      cases hof : g.handleOf t h with
      | none => simp [tClaim, G.start, hal, hidle, hof, G.setRet] at hx
      | some x' =>
        cases x' <;> simp only [tClaim, G.start, hal, hidle, hof, Bool.not_true, Option.isSome_none, Bool.or_self, Bool.false_eq_true, if_false] at hx <;>
          (try (repeat' split at hx)) <;> simp_all [G.setRet, G.setCall, G.setHandle, Call.claim] <;>
          (subst_vars; simp [Call.claim] at hx)
    | own h =>
      cases hof : g.handleOf t h with
      | none => simp [tClaim, G.start, hal, hidle, hof, G.setRet] at hx
      | some x' =>
        cases x' <;> simp only [tClaim, G.start, hal, hidle, hof, Bool.not_true, Option.isSome_none, Bool.or_self, Bool.false_eq_true, if_false] at hx <;>
          (try (repeat' split at hx)) <;> simp_all [G.setRet, G.setCall, G.setHandle, Call.claim] <;>
          (subst_vars; simp [Call.claim] at hx)
    | lock h =>
      cases hof : g.handleOf t h with
      | none => simp [tClaim, G.start, hal, hidle, hof, G.setRet] at hx
      | some x' =>
        cases x' <;> simp only [tClaim, G.start, hal, hidle, hof, Bool.not_true, Option.isSome_none, Bool.or_self, Bool.false_eq_true, if_false] at hx <;>
          (try (repeat' split at hx)) <;> simp_all [G.setRet, G.setCall, G.setHandle, Call.claim] <;>
          (subst_vars; simp [Call.claim] at hx)
    | unlock h =>
      cases hof : g.handleOf t h with
      | none => simp [tClaim, G.start, hal, hidle, hof, G.setRet] at hx
      | some x' =>
        cases x' <;> simp only [tClaim, G.start, hal, hidle, hof, Bool.not_true, Option.isSome_none, Bool.or_self, Bool.false_eq_true, if_false] at hx <;>
          (try (repeat' split at hx)) <;> simp_all [G.setRet, G.setCall, G.setHandle, Call.claim] <;>
          (subst_vars; simp [Call.claim] at hx)
    | size h =>
      cases hof : g.handleOf t h with
      | none => simp [tClaim, G.start, hal, hidle, hof, G.setRet] at hx
      | some x' =>
        cases x' <;> simp only [tClaim, G.start, hal, hidle, hof, Bool.not_true, Option.isSome_none, Bool.or_self, Bool.false_eq_true, if_false] at hx <;>
          (try (repeat' split at hx)) <;> simp_all [G.setRet, G.setCall, G.setHandle, Call.claim] <;>
          (subst_vars; simp [Call.claim] at hx)
    | rd h off =>
      cases hof : g.handleOf t h with
      | none => simp [tClaim, G.start, hal, hidle, hof, G.setRet] at hx
      | some x' =>
        cases x' <;> simp only [tClaim, G.start, hal, hidle, hof, Bool.not_true, Option.isSome_none, Bool.or_self, Bool.false_eq_true, if_false] at hx <;>
          (try (repeat' split at hx)) <;> simp_all [G.setRet, G.setCall, G.setHandle, Call.claim] <;>
          (subst_vars; simp [Call.claim] at hx)
    | wr h off b =>
      cases hof : g.handleOf t h with
      | none => simp [tClaim, G.start, hal, hidle, hof, G.setRet] at hx
      | some x' =>
        cases x' <;> simp only [tClaim, G.start, hal, hidle, hof, Bool.not_true, Option.isSome_none, Bool.or_self, Bool.false_eq_true, if_false] at hx <;>
          (try (repeat' split at hx)) <;> simp_all [G.setRet, G.setCall, G.setHandle, Call.claim] <;>
          (subst_vars; simp [Call.claim] at hx)
  · rw [start_not_ok g t op hok] at hx
    simpa [tClaim, G.setRet] using hx

theorem start_newwf (g : G) (t : Tid) (op : Op) (h : ∀ t hid st, g.calls t = some (.shmNew hid st) → st.wf) :
    ∀ t' hid st, (g.start t op).calls t' = some (.shmNew hid st) → st.wf := by
  intro t' hid st hc
  by_cases e : t' = t
  · subst e
    unfold G.start at hc
    split at hc
    · exact h t' hid st (by simpa [G.setRet] using hc)
    · cases op <;> simp only at hc <;> (repeat' split at hc) <;>
        simp only [G.setRet, G.setCall, G.setHandle, if_true, Option.some.injEq, reduceCtorEq, Call.shmNew.injEq] at hc <;>
        first
        | exact h t' hid st hc
        | (obtain ⟨_, rfl⟩ := hc
           exact ⟨clampSize_self _, rfl, rfl⟩)
  · rw [start_calls_other g t op t' e] at hc; exact h t' hid st hc

/-! ### shapes of `Call.after` -/

theorem call_after_cont_shmNew (hid : Hid) (st : ShmNewSt) (r : Res) (c' : Call)
    (h : (Call.shmNew hid st).after r = .cont c') : ∃ st', c' = .shmNew hid st' ∧ st.after r = .cont st' := by
  simp only [Call.after] at h
  split at h <;> simp only [Out.cont.injEq, reduceCtorEq] at h
  rename_i st' hs
  exact ⟨st', h.symm, hs⟩

theorem call_after_cont_not_shmNew (c c' : Call) (r : Res) (h : c.after r = .cont c')
    (hn : ∀ hid st, c ≠ .shmNew hid st) : ∀ hid st, c' ≠ .shmNew hid st := by
  intro hid st e
  subst e
  cases c with
  | shmNew hid' st' => exact hn hid' st' rfl
  | _ => simp only [Call.after] at h <;> (repeat' split at h) <;> simp at h

theorem call_after_done_handle (c : Call) (r : Res) (ret : Ret) (hid : Hid) (x : Handle)
    (h : c.after r = .done (ret, some (hid, x))) :
    (∃ z, x = .sem z) ∨ (∃ st y, c = .shmNew hid st ∧ x = .shm y ∧ st.after r = .done (.ok y)) := by
  cases c with
  | semNew hid' s =>
    simp only [Call.after] at h
    split at h <;> simp only [Out.done.injEq, Prod.mk.injEq, Option.some.injEq, reduceCtorEq, and_false] at h
    left; exact ⟨_, h.2.2.symm⟩
  | shmNew hid' st =>
    simp only [Call.after] at h
    split at h <;> simp only [Out.done.injEq, Prod.mk.injEq, Option.some.injEq, reduceCtorEq, and_false] at h
    rename_i y hy
    obtain ⟨_, rfl, rfl⟩ := h
    right; exact ⟨st, y, rfl, rfl, hy⟩
  | _ => simp only [Call.after] at h <;> (repeat' split at h) <;> simp at h

/-! ### claims after a step -/

theorem hClaim_step (g : G) (t : Tid) (i : Bool) (c : Call) (hc : g.calls t = some c) (h' : Hid) (x : Pid × Nat × Nat)
    (hx : hClaim (g.step t i) h' = some x) :
    (hClaim g h' = some x ∧ ∀ ret z, c.after (sysStep (g.pidOf t) i c.next g.os).2 ≠ .done (ret, some (h', z))) ∨
    ∃ ret y, c.after (sysStep (g.pidOf t) i c.next g.os).2 = .done (ret, some (h', .shm y)) ∧ x = (g.pidOf t, y.addr, y.size) := by
  simp only [hClaim, step_hs g t i c hc] at hx
  split at hx
  · rename_i p y hy
    split at hy
    · rename_i ret hid z hdone
      split at hy
      · rename_i e
        simp only [Option.some.injEq, Prod.mk.injEq] at hy hx
        obtain ⟨rfl, rfl⟩ := hy
        subst e
        right; exact ⟨ret, y, hdone, hx.symm⟩
      · rename_i e
        left
        refine ⟨by simp only [hClaim, hy]; exact hx, ?_⟩
        intro ret' z' hd'
        rw [hdone] at hd'
        simp only [Out.done.injEq, Prod.mk.injEq, Option.some.injEq] at hd'
        exact e hd'.2.1.symm
    · rename_i hnd
      left
      refine ⟨by simp only [hClaim, hy]; exact hx, ?_⟩
      intro ret' z' hd'
      exact hnd ret' h' z' hd'
  · cases hx

theorem tClaim_self_step (g : G) (t : Tid) (i : Bool) (c : Call) (hc : g.calls t = some c) (x : Pid × Nat × Nat)
    (hx : tClaim (g.step t i) t = some x) :
    ∃ c', c.after (sysStep (g.pidOf t) i c.next g.os).2 = .cont c' ∧ c'.claim (g.pidOf t) = some x := by
  simp only [tClaim, step_calls_self g t i c hc, step_pidOf] at hx
  split at hx
  · rename_i c' hc'
    split at hc'
    · rename_i c'' hcont
      simp only [Option.some.injEq] at hc'
      subst hc'
      exact ⟨c'', hcont, hx⟩
    · cases hc'
  · cases hx

theorem step_newwf (g : G) (t : Tid) (i : Bool) (h : ∀ t hid st, g.calls t = some (.shmNew hid st) → st.wf) :
    ∀ t' hid st, (g.step t i).calls t' = some (.shmNew hid st) → st.wf := by
  intro t' hid st hc'
  by_cases e : t' = t
  · subst e
    cases hc : g.calls t' with
    | none => rw [step_none g t' i hc] at hc'; rw [hc] at hc'; cases hc'
    | some c =>
      rw [step_calls_self g t' i c hc] at hc'
      split at hc'
      · rename_i c' hcont
        simp only [Option.some.injEq] at hc'
        subst hc'
        cases c with
        | shmNew hid0 st0 =>
          obtain ⟨st', e', ha⟩ := call_after_cont_shmNew hid0 st0 _ _ hcont
          simp only [Call.shmNew.injEq] at e'
          obtain ⟨_, rfl⟩ := e'
          exact ShmNewSt.wf_after st0 st _ (h t' hid0 st0 hc) ha
        | _ => exact absurd rfl (call_after_cont_not_shmNew _ _ _ hcont (by intro a b; simp) hid st)
      · cases hc'
  · rw [step_calls_other g t i t' e] at hc'; exact h t' hid st hc'

theorem nodup_map_inj {α β : Type} (f : α → β) : ∀ (l : List α), (l.map f).Nodup → ∀ x y, x ∈ l → y ∈ l → f x = f y → x = y := by
  intro l
  induction l with
  | nil => intro _ x y hx; cases hx
  | cons a l ih =>
    intro hnd x y hx hy hf
    simp only [List.map_cons, List.nodup_cons] at hnd
    rcases List.mem_cons.mp hx with rfl | hx' <;> rcases List.mem_cons.mp hy with rfl | hy'
    · rfl
    · exact absurd (List.mem_map.mpr ⟨y, hy', hf.symm⟩) hnd.1
    · exact absurd (List.mem_map.mpr ⟨x, hx', hf⟩) hnd.1
    · exact ih hnd.2 x y hx' hy' hf

/-! ### the step cases -/

/-- a step whose system call is neither `mmap` nor `munmap`, after which the thread's claim is the old
    one or none, and which returns no PShm handle: claims only shrink -/
theorem claimInv_step_plain (g : G) (t : Tid) (i : Bool) (c : Call) (hc : g.calls t = some c) (h : ClaimInv g)
    (hnm : (∀ fd len prot fl, c.next ≠ .mmap fd len prot fl) ∧ (∀ a len, c.next ≠ .munmap a len))
    (hcont : ∀ c', c.after (sysStep (g.pidOf t) i c.next g.os).2 = .cont c' →
      c'.claim (g.pidOf t) = c.claim (g.pidOf t) ∨ c'.claim (g.pidOf t) = none)
    (hdone : ∀ ret hid y, c.after (sysStep (g.pidOf t) i c.next g.os).2 ≠ .done (ret, some (hid, .shm y))) :
    ClaimInv (g.step t i) := by
  refine h.shrink ?_ ?_
  · intro p; rw [step_os g t i c hc]; exact sysStep_maps_frame _ _ _ _ hnm.1 hnm.2 p
  · intro cl x hx
    cases cl with
    | inl h' =>
      rcases hClaim_step g t i c hc h' x hx with ⟨h0, _⟩ | ⟨ret, y, hd, _⟩
      · exact h0
      · exact absurd hd (hdone ret h' y)
    | inr t' =>
      by_cases e : t' = t
      · subst e
        obtain ⟨c', hc', hcl⟩ := tClaim_self_step g t' i c hc x hx
        rcases hcont c' hc' with e1 | e1
        · simp only [claimOf, tClaim, hc]; rw [← e1]; exact hcl
        · rw [e1] at hcl; cases hcl
      · simp only [claimOf] at hx ⊢; rw [tClaim_other_step g t t' i e] at hx; exact hx

theorem claimInv_step (g : G) (t : Tid) (i : Bool) (h : MapInv g) : ClaimInv (g.step t i) := by
  cases hc : g.calls t with
  | none => rw [step_none g t i hc]; exact h.claims
  | some c =>
    cases c with
    | semNew hid s =>
      refine claimInv_step_plain g t i _ hc h.claims (by simpa [Call.next] using semNew_next_not_map s) ?_ ?_
      · intro c' hc'
        right
        simp only [Call.after] at hc'
        split at hc' <;> simp only [Out.cont.injEq, reduceCtorEq] at hc'
        subst hc'; rfl
      · intro ret hid' y hd
        simp only [Call.after] at hd
        split at hd <;> simp at hd
    | semFree s =>
      refine claimInv_step_plain g t i _ hc h.claims (by simpa [Call.next] using semFree_next_not_map s) ?_ ?_
      · intro c' hc'
        right
        simp only [Call.after] at hc'
        split at hc' <;> simp only [Out.cont.injEq, reduceCtorEq] at hc'
        subst hc'; rfl
      · intro ret hid' y hd
        simp only [Call.after] at hd
        split at hd <;> simp at hd
    | acquire x =>
      refine claimInv_step_plain g t i _ hc h.claims (by simp [Call.next, acquireNext]) ?_ ?_
      · intro c' hc'
        right
        simp only [Call.after] at hc'
        split at hc' <;> simp only [Out.cont.injEq, reduceCtorEq] at hc'
        subst hc'; rfl
      · intro ret hid' y hd
        simp only [Call.after] at hd
        split at hd <;> simp at hd
    | release x =>
      refine claimInv_step_plain g t i _ hc h.claims (by simp [Call.next, releaseNext]) ?_ ?_
      · intro c' hc'
        right
        simp only [Call.after] at hc'
        split at hc' <;> simp only [Out.cont.injEq, reduceCtorEq] at hc'
        subst hc'; rfl
      · intro ret hid' y hd
        simp only [Call.after] at hd
        split at hd <;> simp at hd
    | shmFree st =>
      have hs := shmFree_step (g.pidOf t) st
      by_cases hpc : st.pc = .munmap
      · -- the munmap of the handle's own mapping
        obtain ⟨hnext, hcl⟩ := hs.1 hpc
        have hclaim : claimOf g (.inr t) = some (g.pidOf t, st.h.addr, st.h.size) := by
          simp only [claimOf, tClaim, hc]; exact hcl
        obtain ⟨hl0, m, hm, hma, hml, _⟩ := h.claims.valid _ _ _ _ hclaim
        have hmun := sysStep_munmap (g.pidOf t) i st.h.addr st.h.size g.os hl0
        have hex := munmapF_exact (g.os.procs (g.pidOf t)) st.h.addr st.h.size (by
          intro m' hm' ha'
          have : m' = m := by
            exact nodup_map_inj (·.addr) _ (h.claims.nodup (g.pidOf t)) m' m hm' hm (by rw [ha', hma])
          rw [this]; exact hml)
        refine h.claims.munmap t (g.pidOf t) st.h.addr st.h.size hclaim ?_ ?_ ?_
        · rw [step_os g t i _ hc]; simp only [Call.next, hnext]; rw [hmun.1]; exact hex
        · intro q hq; rw [step_os g t i _ hc]; simp only [Call.next, hnext]; rw [hmun.2.1 q hq]; exact ⟨rfl, rfl⟩
        · intro cl x hx
          cases cl with
          | inl h' =>
            rcases hClaim_step g t i _ hc h' x hx with ⟨h0, _⟩ | ⟨ret, y, hd, _⟩
            · exact ⟨by simp, h0⟩
            · simp only [Call.after] at hd; split at hd <;> simp at hd
          | inr t' =>
            by_cases e : t' = t
            · subst e
              obtain ⟨c', hc', hcl'⟩ := tClaim_self_step g t' i _ hc x hx
              simp only [Call.after] at hc'
              split at hc' <;> simp only [Out.cont.injEq, reduceCtorEq] at hc'
              rename_i st' hst'
              subst hc'
              rw [hs.2.2 _ st' hst'] at hcl'; cases hcl'
            · refine ⟨by simpa using e, ?_⟩
              simp only [claimOf] at hx ⊢; rw [tClaim_other_step g t t' i e] at hx; exact hx
      · obtain ⟨n1, n2, _⟩ := hs.2.1 hpc
        refine claimInv_step_plain g t i _ hc h.claims ⟨by simpa [Call.next] using n1, by simpa [Call.next] using n2⟩ ?_ ?_
        · intro c' hc'
          right
          simp only [Call.after] at hc'
          split at hc' <;> simp only [Out.cont.injEq, reduceCtorEq] at hc'
          rename_i st' hst'
          subst hc'
          exact hs.2.2 _ st' hst'
        · intro ret hid' y hd
          simp only [Call.after] at hd
          split at hd <;> simp at hd
    | shmNew hid st =>
      have hwf := h.newwf t hid st hc
      by_cases hm : ∃ fd, st.pc = .mmap fd
      · -- the mmap step
        obtain ⟨fd, hpc⟩ := hm
        obtain ⟨hnext, hok, herr⟩ := shmNew_mmap_step (g.pidOf t) hid st fd hpc
        have haddr : st.addr = none := by
          have := hwf.2.2; rw [hpc] at this; exact this
        rcases sysStep_mmap (g.pidOf t) i fd st.size (if st.ro then shmMmapProtRO else shmMmapProtRW) shmMmapFlags g.os with
          ⟨e, he⟩ | ⟨sg, _, hlen, hres, hmaps, hnext', _, _, hq, _⟩
        · -- mmap failed: nothing changes
          refine h.claims.shrink ?_ ?_
          · intro p; rw [step_os g t i _ hc]; simp [Call.next, hnext, he]
          · intro cl x hx
            cases cl with
            | inl h' =>
              rcases hClaim_step g t i _ hc h' x hx with ⟨h0, _⟩ | ⟨ret, y, hd, _⟩
              · exact h0
              · simp only [Call.next, hnext, he, Call.after] at hd
                obtain ⟨st', hst', _⟩ := herr e
                rw [hst'] at hd; simp at hd
            | inr t' =>
              by_cases e' : t' = t
              · subst e'
                obtain ⟨c', hc', hcl'⟩ := tClaim_self_step g t' i _ hc x hx
                simp only [Call.next, hnext, he, Call.after] at hc'
                obtain ⟨st', hst', ha', _, fd', e'', hpc'⟩ := herr e
                rw [hst'] at hc'
                simp only [Out.cont.injEq] at hc'
                subst hc'
                simp only [Call.claim, hpc', ha', haddr, Option.map_none] at hcl'
                cases hcl'
              · simp only [claimOf] at hx ⊢; rw [tClaim_other_step g t t' i e'] at hx; exact hx
        · -- mmap succeeded
          let m : Mapping := ⟨(g.os.procs (g.pidOf t)).nextAddr, sg, 0, st.size, hasFlag (if st.ro then shmMmapProtRO else shmMmapProtRW) PROT_WRITE, hasFlag shmMmapFlags MAP_SHARED⟩
          refine h.claims.mmap t (g.pidOf t) m rfl rfl hlen ?_ ?_ ?_
          · rw [step_os g t i _ hc]; simp only [Call.next, hnext]
            exact ⟨hmaps, by rw [hnext']; omega⟩
          · intro q hq'; rw [step_os g t i _ hc]; simp only [Call.next, hnext]; rw [hq q hq']; exact ⟨rfl, rfl⟩
          · intro cl x hx
            cases cl with
            | inl h' =>
              rcases hClaim_step g t i _ hc h' x hx with ⟨h0, _⟩ | ⟨ret, y, hd, _⟩
              · left; exact ⟨by simp, h0⟩
              · simp only [Call.next, hnext, hres, Call.after] at hd
                obtain ⟨st', hst', _⟩ := hok (g.os.procs (g.pidOf t)).nextAddr
                rw [hst'] at hd; simp at hd
            | inr t' =>
              by_cases e' : t' = t
              · subst e'
                right
                refine ⟨by first | rfl | trivial, ?_⟩
                obtain ⟨c', hc', hcl'⟩ := tClaim_self_step g t' i _ hc x hx
                simp only [Call.next, hnext, hres, Call.after] at hc'
                obtain ⟨st', hst', hcl''⟩ := hok (g.os.procs (g.pidOf t')).nextAddr
                rw [hst'] at hc'
                simp only [Out.cont.injEq] at hc'
                subst hc'
                rw [hcl''] at hcl'
                simpa using hcl'.symm
              · left
                refine ⟨by simpa using e', ?_⟩
                simp only [claimOf] at hx ⊢; rw [tClaim_other_step g t t' i e'] at hx; exact hx
      · by_cases hf : ∃ e, st.pc = .fMunmap e
        · -- the failure-path munmap of the call's own mapping
          obtain ⟨e, hpc⟩ := hf
          obtain ⟨a, hnext, hcl, hcont, hnd⟩ := shmNew_fMunmap_step (g.pidOf t) hid st e hpc hwf
          have hclaim : claimOf g (.inr t) = some (g.pidOf t, a, st.size) := by
            simp only [claimOf, tClaim, hc]; exact hcl
          obtain ⟨hl0, m, hm', hma, hml, _⟩ := h.claims.valid _ _ _ _ hclaim
          have hmun := sysStep_munmap (g.pidOf t) i a st.size g.os hl0
          have hex := munmapF_exact (g.os.procs (g.pidOf t)) a st.size (by
            intro m' hm'' ha'
            have : m' = m := nodup_map_inj (·.addr) _ (h.claims.nodup (g.pidOf t)) m' m hm'' hm' (by rw [ha', hma])
            rw [this]; exact hml)
          refine h.claims.munmap t (g.pidOf t) a st.size hclaim ?_ ?_ ?_
          · rw [step_os g t i _ hc]; simp only [Call.next, hnext]; rw [hmun.1]; exact hex
          · intro q hq; rw [step_os g t i _ hc]; simp only [Call.next, hnext]; rw [hmun.2.1 q hq]; exact ⟨rfl, rfl⟩
          · intro cl x hx
            cases cl with
            | inl h' =>
              rcases hClaim_step g t i _ hc h' x hx with ⟨h0, _⟩ | ⟨ret, y, hd, _⟩
              · exact ⟨by simp, h0⟩
              · rcases call_after_done_handle _ _ _ _ _ hd with ⟨z, hz⟩ | ⟨st0, y0, e0, e1, hd0⟩
                · cases hz
                · simp only [Call.shmNew.injEq] at e0
                  obtain ⟨_, rfl⟩ := e0
                  exact absurd hd0 (hnd _ _)
            | inr t' =>
              by_cases e' : t' = t
              · subst e'
                obtain ⟨c', hc', hcl'⟩ := tClaim_self_step g t' i _ hc x hx
                obtain ⟨st', rfl, hst'⟩ := call_after_cont_shmNew hid st _ _ hc'
                rw [hcont _ st' hst'] at hcl'; cases hcl'
              · refine ⟨by simpa using e', ?_⟩
                simp only [claimOf] at hx ⊢; rw [tClaim_other_step g t t' i e'] at hx; exact hx
        · -- every other program point: mappings untouched; the claim stays, is dropped, or goes to the new handle
          have hnm := shmNew_next_not_map st (fun fd e => hm ⟨fd, e⟩) (fun e e' => hf ⟨e, e'⟩)
          by_cases hd : ∃ y, st.after (sysStep (g.pidOf t) i st.next g.os).2 = .done (.ok y)
          · obtain ⟨y, hdy⟩ := hd
            have hdc : (Call.shmNew hid st).after (sysStep (g.pidOf t) i (Call.shmNew hid st).next g.os).2 =
                .done (.shm y, some (hid, .shm y)) := by
              simp only [Call.after, Call.next, hdy]
            have hmaps : ∀ p, ((g.step t i).os.procs p).maps = (g.os.procs p).maps ∧
                ((g.step t i).os.procs p).nextAddr = (g.os.procs p).nextAddr := by
              intro p; rw [step_os g t i _ hc]
              exact sysStep_maps_frame _ _ _ _ (by simpa [Call.next] using hnm.1) (by simpa [Call.next] using hnm.2) p
            refine h.claims.transfer (.inr t) (.inl hid) hmaps ?_ ?_
            · intro cl x hx
              cases cl with
              | inl h' =>
                rcases hClaim_step g t i _ hc h' x hx with ⟨h0, hno⟩ | ⟨ret, y', hd', hxe⟩
                · left
                  refine ⟨?_, h0⟩
                  intro e
                  simp only [Sum.inl.injEq] at e
                  subst e
                  exact hno _ _ hdc
                · rw [hdc] at hd'
                  simp only [Out.done.injEq, Prod.mk.injEq, Option.some.injEq, Handle.shm.injEq] at hd'
                  obtain ⟨_, rfl, rfl⟩ := hd'
                  right
                  refine ⟨rfl, ?_⟩
                  simp only [claimOf, tClaim, hc]
                  rw [shmNew_claim_done (g.pidOf t) hid st _ y hwf hdy, hxe]
              | inr t' =>
                by_cases e' : t' = t
                · subst e'
                  obtain ⟨c', hc', _⟩ := tClaim_self_step g t' i _ hc x hx
                  rw [hdc] at hc'; cases hc'
                · left
                  refine ⟨by simp, ?_⟩
                  simp only [claimOf] at hx ⊢; rw [tClaim_other_step g t t' i e'] at hx; exact hx
            · intro _
              simp only [claimOf, tClaim, step_calls_self g t i _ hc, hdc]
          · refine claimInv_step_plain g t i _ hc h.claims ⟨by simpa [Call.next] using hnm.1, by simpa [Call.next] using hnm.2⟩ ?_ ?_
            · intro c' hc'
              obtain ⟨st', rfl, hst'⟩ := call_after_cont_shmNew hid st _ _ hc'
              exact shmNew_claim_cont (g.pidOf t) hid st st' _ hwf (fun fd e => hm ⟨fd, e⟩) hst'
            · intro ret hid' y hdd
              rcases call_after_done_handle _ _ _ _ _ hdd with ⟨z, hz⟩ | ⟨st0, y0, e0, e1, hd0⟩
              · cases hz
              · simp only [Call.shmNew.injEq] at e0
                obtain ⟨_, rfl⟩ := e0
                exact hd ⟨y0, hd0⟩

theorem start_procs (g : G) (t : Tid) (op : Op) : (g.start t op).os.procs = g.os.procs := by
  rcases start_os g t op with h | ⟨a, off, b, os', h, e⟩
  · rw [h]
  · rw [e, (store_frame _ _ _ _ _ _ h).2.2.2.2.2]

theorem claimInv_start (g : G) (t : Tid) (op : Op) (h : MapInv g) : ClaimInv (g.start t op) := by
  have hmaps : ∀ p, ((g.start t op).os.procs p).maps = (g.os.procs p).maps ∧
      ((g.start t op).os.procs p).nextAddr = (g.os.procs p).nextAddr := by
    intro p; rw [start_procs]; exact ⟨rfl, rfl⟩
  by_cases hf : ∃ hh y, op = .free hh ∧ (g.os.procs (g.pidOf t)).alive = true ∧ g.calls t = none ∧ g.handleOf t hh = some (.shm y)
  · obtain ⟨hh, y, rfl, hal, hidle, hof⟩ := hf
    have hs := start_free_shm g t hh y hal hidle hof
    have hhs := handleOf_some g t hh _ hof
    refine h.claims.transfer (.inl hh) (.inr t) hmaps ?_ ?_
    · intro cl x hx
      rw [hs] at hx
      cases cl with
      | inl h' =>
        left
        simp only [claimOf, hClaim, G.setCall, G.setHandle] at hx
        refine ⟨by simp, ?_⟩
        by_cases e : h' = hh
        · simp [e] at hx
        · simp only [e, if_false] at hx; simpa [claimOf, hClaim] using hx
      | inr t' =>
        by_cases e : t' = t
        · subst e
          right
          refine ⟨rfl, ?_⟩
          simp only [claimOf, tClaim, G.setCall, G.setHandle, if_true, Call.claim] at hx
          simp only [claimOf, hClaim, hhs]
          exact hx
        · left
          refine ⟨by simpa using e, ?_⟩
          simp only [claimOf, tClaim, G.setCall, G.setHandle, e, if_false] at hx ⊢
          exact hx
    · intro _
      rw [hs]
      simp [claimOf, hClaim, G.setCall, G.setHandle]
  · refine h.claims.shrink hmaps ?_
    intro cl x hx
    cases cl with
    | inl h' => exact hClaim_start g t op h' x hx
    | inr t' =>
      by_cases e : t' = t
      · subst e; exact tClaim_self_start g t' op x hx hf
      · simp only [claimOf] at hx ⊢; rw [tClaim_other_start g t t' op e] at hx; exact hx

theorem claimInv_kill (g : G) (p : Pid) (h : MapInv g) : ClaimInv (g.kill p) := by
  refine h.claims.kill p ?_ ?_ ?_
  · simp [G.kill, OS.kill, OS.setProc]
  · intro q hq; simp [G.kill, OS.kill, OS.setProc, hq]
  · intro cl q a l hx
    cases cl with
    | inl h' =>
      simp only [claimOf, hClaim] at hx ⊢
      split at hx
      · rename_i q' y hy
        have h0 := kill_hs g p h' q' (.shm y) hy
        simp only [Option.some.injEq, Prod.mk.injEq] at hx
        obtain ⟨rfl, rfl, rfl⟩ := hx
        refine ⟨?_, by simp [h0]⟩
        intro e
        subst e
        simp [G.kill, h0] at hy
      · cases hx
    | inr t' =>
      simp only [claimOf, tClaim, G.kill] at hx ⊢
      by_cases e : g.pidOf t' = p
      · simp [e] at hx
      · simp only [e, if_false] at hx
        refine ⟨?_, hx⟩
        cases hc : g.calls t' with
        | none => simp [hc] at hx
        | some c =>
          simp only [hc] at hx
          have : q = g.pidOf t' := by
            cases c <;> simp only [Call.claim] at hx <;> (repeat' split at hx) <;>
              simp only [Option.map_eq_some_iff, Option.some.injEq, Prod.mk.injEq, reduceCtorEq] at hx
            · obtain ⟨_, _, e1, _⟩ := hx; exact e1.symm
            · exact hx.1.symm
          rw [this]; exact e

/-! ### a scripted failure of the next system call (`G.fail`): no mapping changes, claims only shrink -/

theorem call_claim_after_err (p : Pid) (c c' : Call) (e : Errno) (hwf : ∀ hid st, c = .shmNew hid st → st.wf)
    (h : c.after (.err e) = .cont c') : c'.claim p = c.claim p ∨ c'.claim p = none := by
  cases c with
  | shmNew hid st =>
    obtain ⟨st', rfl, ha⟩ := call_after_cont_shmNew hid st _ _ h
    by_cases hm : ∃ fd, st.pc = .mmap fd
    · obtain ⟨fd, hpc⟩ := hm
      obtain ⟨key, req, ro, created, isExists, size, addr, pc⟩ := st
      simp only at hpc; subst hpc
      simp only [ShmNewSt.after, Out.cont.injEq] at ha
      subst ha
      left; simp [Call.claim]
    · exact shmNew_claim_cont p hid st st' _ (hwf hid st rfl) (fun fd hpc => hm ⟨fd, hpc⟩) ha
  | shmFree st =>
    right
    obtain ⟨hd, pc⟩ := st
    simp only [Call.after] at h
    split at h <;> simp only [Out.cont.injEq, reduceCtorEq] at h
    rename_i st' hs
    subst h
    cases pc <;> simp only [ShmFreeSt.after] at hs <;> (repeat' split at hs) <;>
      simp only [Out.cont.injEq, reduceCtorEq] at hs <;> subst hs <;> rfl
  | semNew hid s =>
    right; simp only [Call.after] at h; split at h <;> simp only [Out.cont.injEq, reduceCtorEq] at h; subst h; rfl
  | semFree s =>
    right; simp only [Call.after] at h; split at h <;> simp only [Out.cont.injEq, reduceCtorEq] at h; subst h; rfl
  | acquire x =>
    right; simp only [Call.after] at h; split at h <;> simp only [Out.cont.injEq, reduceCtorEq] at h; subst h; rfl
  | release x =>
    right; simp only [Call.after] at h; split at h <;> simp only [Out.cont.injEq, reduceCtorEq] at h; subst h; rfl

theorem claimInv_fail (g : G) (t : Tid) (e : Errno) (h : MapInv g) : ClaimInv (g.fail t e) := by
  cases hc : g.calls t with
  | none => rw [fail_none g t e hc]; exact h.claims
  | some c =>
    refine h.claims.shrink ?_ ?_
    · intro p; rw [fail_os]; exact ⟨rfl, rfl⟩
    · intro cl x hx
      cases cl with
      | inl h' => simp only [claimOf, hClaim, fail_hs] at hx ⊢; exact hx
      | inr t' =>
        by_cases e' : t' = t
        · subst e'
          simp only [claimOf, tClaim, fail_calls_self g t' e c hc, fail_pidOf] at hx
          simp only [claimOf, tClaim, hc]
          cases ha : c.after (.err e) with
          | cont c' =>
            simp only [ha] at hx
            rcases call_claim_after_err (g.pidOf t') c c' e (fun hid st ec => h.newwf t' hid st (by rw [hc, ec])) ha with e1 | e1
            · rw [← e1]; exact hx
            · rw [e1] at hx; cases hx
          | done r => simp only [ha] at hx; cases hx
        · simp only [claimOf, tClaim, fail_calls_other g t e t' e', fail_pidOf] at hx ⊢; exact hx

theorem fail_newwf (g : G) (t : Tid) (e : Errno) (h : ∀ t hid st, g.calls t = some (.shmNew hid st) → st.wf) :
    ∀ t' hid st, (g.fail t e).calls t' = some (.shmNew hid st) → st.wf := by
  intro t' hid st hc'
  by_cases e' : t' = t
  · subst e'
    cases hc : g.calls t' with
    | none => rw [fail_none g t' e hc] at hc'; rw [hc] at hc'; cases hc'
    | some c =>
      rw [fail_calls_self g t' e c hc] at hc'
      split at hc'
      · rename_i c' hcont
        simp only [Option.some.injEq] at hc'
        subst hc'
        cases c with
        | shmNew hid0 st0 =>
          obtain ⟨st', e'', ha⟩ := call_after_cont_shmNew hid0 st0 _ _ hcont
          simp only [Call.shmNew.injEq] at e''
          obtain ⟨_, rfl⟩ := e''
          exact ShmNewSt.wf_after st0 st _ (h t' hid0 st0 hc) ha
        | _ => exact absurd rfl (call_after_cont_not_shmNew _ _ _ hcont (by intro a b; simp) hid st)
      · cases hc'
  · rw [fail_calls_other g t e t' e'] at hc'; exact h t' hid st hc'

theorem mapInv_exec (g : G) (a : Action) (h : MapInv g) : MapInv (exec g a) := by
  cases a with
  | start t op => exact ⟨claimInv_start g t op h, start_newwf g t op h.newwf⟩
  | step t i => exact ⟨claimInv_step g t i h, step_newwf g t i h.newwf⟩
  | fail t e => exact ⟨claimInv_fail g t e h, fail_newwf g t e h.newwf⟩
  | kill p =>
    refine ⟨claimInv_kill g p h, ?_⟩
    intro t hid st hc
    simp only [exec, G.kill] at hc
    split at hc
    · cases hc
    · exact h.newwf t hid st hc

theorem mapInv_execAll (as : List Action) : ∀ g, MapInv g → MapInv (execAll g as) := by
  induction as with
  | nil => intro g h; exact h
  | cons a as ih => intro g h; simp only [execAll, List.foldl_cons]; exact ih _ (mapInv_exec g a h)

/-- the initial state satisfies the invariant, hence so does every reachable state -/
theorem mapInv_init (pidOf : Tid → Pid) : MapInv (G.init pidOf) := by
  refine ⟨⟨?_, ?_, ?_, ?_⟩, ?_⟩
  · intro p m hm; cases hm
  · intro p; exact List.nodup_nil
  · intro c p a l hc; cases c <;> simp [claimOf, hClaim, tClaim, G.init] at hc
  · intro c c' p a l l' hc; cases c <;> simp [claimOf, hClaim, tClaim, G.init] at hc
  · intro t hid st hc; simp [G.init] at hc

theorem mapInv_reachable (pidOf : Tid → Pid) (as : List Action) : MapInv (execAll (G.init pidOf) as) :=
  mapInv_execAll as _ (mapInv_init pidOf)

end PV.IPC

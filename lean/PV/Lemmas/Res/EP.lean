import PV.Lemmas.Res.Wp
/-! # the `PError **` argument is only ever filled, never lost

Partial-correctness facts about the *values* of the error pointer threaded through the modelled functions:
NULL stays NULL, a stored error is never overwritten, an empty cell stays a cell. -/
namespace PV.Res

/-- partial correctness: if the program returns, the result satisfies `Q` -/
def wlp (m : ResM α) (f : Nat → Bool) (s : St) (Q : α → St → Prop) : Prop :=
  match m.run f s with
  | .fault _ => True
  | .ok a s' => Q a s'

@[simp] theorem wlp_pure (a : α) : wlp (pure a : ResM α) f s Q ↔ Q a s := Iff.rfl
@[simp] theorem wlp_ret (a : α) : wlp (ResM.ret a) f s Q ↔ Q a s := Iff.rfl

@[simp] theorem wlp_bind (m : ResM α) (g : α → ResM β) :
    wlp (m >>= g) f s Q ↔ wlp m f s (fun a s' => wlp (g a) f s' Q) := by
  show wlp (m.bind g) f s Q ↔ _
  unfold wlp
  rw [ResM.run_bind]
  cases m.run f s <;> simp

theorem wlp_mono {m : ResM α} (h : wlp m f s Q) (hq : ∀ a s', Q a s' → Q' a s') : wlp m f s Q' := by
  unfold wlp at *
  cases hm : m.run f s <;> simp_all

/-- a result property that does not depend on the state at all -/
def Always (m : ResM α) (P : α → Prop) : Prop := ∀ f s, wlp m f s (fun a _ => P a)

theorem Always.bind {m : ResM α} {g : α → ResM β} {P : β → Prop} (h : ∀ a, Always (g a) P) : Always (m >>= g) P := by
  intro f s
  rw [wlp_bind]
  unfold wlp
  cases hm : m.run f s with
  | fault _ => trivial
  | ok a s' => exact h a f s'

theorem Always.bind' {m : ResM α} {g : α → ResM β} {P1 : α → Prop} {P : β → Prop}
    (h1 : Always m P1) (h : ∀ a, P1 a → Always (g a) P) : Always (m >>= g) P := by
  intro f s
  rw [wlp_bind]
  have := h1 f s
  unfold wlp at *
  cases hm : m.run f s with
  | fault _ => trivial
  | ok a s' => rw [hm] at this; exact h a this f s'

theorem Always.pure {a : α} {P : α → Prop} (h : P a) : Always (pure a : ResM α) P := fun _ _ => h

theorem Always.ite {c : Prop} [Decidable c] {m1 m2 : ResM α} {P : α → Prop} (h1 : Always m1 P) (h2 : Always m2 P) :
    Always (if c then m1 else m2) P := by
  split <;> assumption

/-- NULL stays NULL, a stored error is never overwritten, an empty cell stays a cell -/
def EPle (e e' : EP) : Prop :=
  match e with
  | none => e' = none
  | some (some x) => e' = some (some x)
  | some none => e'.isSome

theorem EPle.refl (e : EP) : EPle e e := by rcases e with _ | _ | x <;> simp [EPle]

theorem EPle.trans {e e1 e2 : EP} (h1 : EPle e e1) (h2 : EPle e1 e2) : EPle e e2 := by
  rcases e with _ | _ | x <;> simp [EPle] at h1 ⊢
  · subst h1; simpa [EPle] using h2
  · rcases e1 with _ | _ | y <;> simp [EPle] at h1 h2 ⊢
    · exact h2
    · simp [h2]
  · subst h1; simpa [EPle] using h2

theorem setErr_ep (e : EP) : Always (setErr e) (EPle e) := by
  rcases e with _ | _ | x
  · exact Always.pure (by simp [EPle])
  · simp only [setErr]
    exact Always.bind (fun r => Always.pure (by simp [EPle]))
  · exact Always.pure (by simp [EPle])

/-- syntax-directed proof that a program only passes its error pointer through `setErr` -/
macro "ep_tac" : tactic => `(tactic| repeat (first
  | exact Always.pure (EPle.refl _)
  | exact Always.pure ‹_›
  | exact Always.pure (EPle.trans ‹_› ‹_›)
  | (apply Always.bind' (setErr_ep _); intro _ _)
  | (apply Always.bind; intro _)
  | apply Always.ite
  | split))

theorem dirNew_ep (m : Bool) (e : EP) : Always (dirNew m e) (fun r => EPle e r.2) := by
  unfold dirNew; ep_tac

theorem dirNext_ep (d : DirO) (e : EP) : Always (dirNext d e) (fun r => EPle e r.2.2.2) := by
  unfold dirNext; ep_tac

theorem sockNew_ep (k : Nat) (e : EP) : Always (sockNew k e) (fun r => EPle e r.2) := by
  unfold sockNew; ep_tac

theorem sockFromFd_ep (e : EP) : Always (sockFromFd e) (fun r => EPle e r.2) := by
  unfold sockFromFd; ep_tac

theorem sockListen_ep (x : SockO) (e : EP) : Always (sockListen x e) (fun r => EPle e r.2.2) := by
  unfold sockListen; ep_tac

theorem sockConnect_ep (x y : SockO) (e : EP) : Always (sockConnect x y e) (fun r => EPle e r.2.2.2) := by
  unfold sockConnect; ep_tac

theorem sockIoClosed_ep (x : SockO) (e : EP) : Always (sockIoClosed x e) (fun r => EPle e r.2.2) := by
  unfold sockIoClosed; ep_tac

theorem sockConnectRefused_ep (x : SockO) (e : EP) : Always (sockConnectRefused x e) (fun r => EPle e r.2.2) := by
  unfold sockConnectRefused; ep_tac

theorem sockAccept_ep (x : SockO) (e : EP) : Always (sockAccept x e) (fun r => EPle e r.2.2.2) := by
  unfold sockAccept; ep_tac

theorem sockAddr_ep (x : SockO) (r : Bool) (e : EP) : Always (sockAddr x r e) (fun r => EPle e r.2) := by
  unfold sockAddr; ep_tac

theorem sockUdpEcho_ep (x : SockO) (e : EP) : Always (sockUdpEcho x e) (fun r => EPle e r.2.2) := by
  unfold sockUdpEcho; ep_tac

theorem iniParse_ep (o : IniO) (e : EP) : Always (iniParse o e) (fun r => EPle e r.2.2) := by
  unfold iniParse; ep_tac

theorem semNew_ep (n : Name) (c : Bool) (e : EP) : Always (semNew n c e) (fun r => EPle e r.2) := by
  unfold semNew; ep_tac

theorem mmapNew_ep (len : Nat) (e : EP) : Always (mmapNew len e) (fun r => EPle e r.2) := by
  unfold mmapNew; ep_tac

theorem mmapUnmap_ep (i len : Nat) (e : EP) : Always (mmapUnmap i len e) (fun r => EPle e r.2) := by
  unfold mmapUnmap; ep_tac

theorem shmOpen_ep (id size : Nat) (e : EP) : Always (shmOpen id size e) (fun r => EPle e r.2) := by
  unfold shmOpen; ep_tac

theorem shmMap_ep (id fd : Nat) (c : Bool) (sz : Nat) (e : EP) : Always (shmMap id fd c sz e) (fun r => EPle e r.2) := by
  unfold shmMap; ep_tac

theorem shmAttach_ep (a key : Blk) (id size : Nat) (e : EP) : Always (shmAttach a key id size e) (fun r => EPle e r.2) := by
  unfold shmAttach
  apply Always.bind' (shmOpen_ep id size e); rintro ⟨o, e1⟩ h1
  rcases o with _ | ⟨fd, created, segSize⟩
  · ep_tac
  · simp only []
    apply Always.bind' (shmMap_ep id fd created segSize e1); rintro ⟨m, e2⟩ h2
    have h12 := EPle.trans h1 h2
    rcases m with _ | m
    · ep_tac
    · simp only []
      apply Always.bind' (semNew_ep (.shmLock id) created e2); rintro ⟨lock, e3⟩ h3
      have h13 := EPle.trans h12 h3
      rcases lock with _ | lock <;> ep_tac

theorem shmNew_ep (id size : Nat) (e : EP) : Always (shmNew id size e) (fun r => EPle e r.2) := by
  unfold shmNew
  apply Always.bind; intro a
  rcases a with _ | a
  · ep_tac
  · simp only []
    apply Always.bind; intro nn
    rcases nn with _ | nn
    · ep_tac
    · simp only []
      apply Always.bind; intro key
      apply Always.bind; intro _
      rcases key with _ | key
      · ep_tac
      · exact shmAttach_ep a key id size e

theorem shmbufNew_ep (id size : Nat) (e : EP) : Always (shmbufNew id size e) (fun r => EPle e r.2) := by
  unfold shmbufNew
  apply Always.bind' (shmNew_ep id _ e); rintro ⟨shm, e1⟩ h1
  rcases shm with _ | shm
  · ep_tac
  · simp only []
    ep_tac

theorem ctorRun_ep (k : CtorK) (e : EP) : Always (ctorRun k e) (fun r => EPle e r.2.2) := by
  cases k <;> simp only [ctorRun]
  case dirNew m => apply Always.bind' (dirNew_ep m e); rintro ⟨r, e'⟩ h; ep_tac
  case sockNew kind => apply Always.bind' (sockNew_ep kind e); rintro ⟨r, e'⟩ h; ep_tac
  case sockFromFd => apply Always.bind' (sockFromFd_ep e); rintro ⟨r, e'⟩ h; ep_tac
  case semNew n cr => apply Always.bind' (semNew_ep (.sem n) cr e); rintro ⟨r, e'⟩ h; ep_tac
  case shmNew n sz => apply Always.bind' (shmNew_ep n (shmSize sz) e); rintro ⟨r, e'⟩ h; ep_tac
  case shmbufNew n sz => apply Always.bind' (shmbufNew_ep n (shmSize sz) e); rintro ⟨r, e'⟩ h; ep_tac
  case mmapNew len => apply Always.bind' (mmapNew_ep len e); rintro ⟨r, e'⟩ h; ep_tac
  all_goals ep_tac

theorem mutRun_ep (k : MutK) (o : Obj) (e : EP) (m : ResM (Char × Option Obj × EP)) (hm : mutRun k o e = some m) :
    Always m (fun r => EPle e r.2.2) := by
  cases k <;> cases o <;> simp only [mutRun, Option.some.injEq, reduceCtorEq] at hm
  case iniParse.ini i => subst hm; apply Always.bind' (iniParse_ep i e); rintro ⟨c, i', e'⟩ h; ep_tac
  case mmapFree.mmap i len => subst hm; apply Always.bind' (mmapUnmap_ep i len e); rintro ⟨ok, e'⟩ h; ep_tac
  case sockListen.sock x =>
    split at hm <;> simp only [Option.some.injEq, reduceCtorEq] at hm
    subst hm; apply Always.bind' (sockListen_ep x e); rintro ⟨c, i', e'⟩ h; ep_tac
  case sockConnectRefused.sock x =>
    split at hm <;> simp only [Option.some.injEq, reduceCtorEq] at hm
    subst hm; apply Always.bind' (sockConnectRefused_ep x e); rintro ⟨c, i', e'⟩ h; ep_tac
  case sockIoClosed.sock x =>
    split at hm <;> simp only [Option.some.injEq, reduceCtorEq] at hm
    subst hm; apply Always.bind' (sockIoClosed_ep x e); rintro ⟨c, i', e'⟩ h; ep_tac
  all_goals (subst hm; ep_tac)

theorem deriveRun_ep (k : DeriveK) (o : Obj) (e : EP) (m : ResM (Char × Obj × Option Obj × EP))
    (hm : deriveRun k o e = some m) : Always m (fun r => EPle e r.2.2.2) := by
  cases k <;> cases o <;> simp only [deriveRun, Option.some.injEq, reduceCtorEq] at hm
  case dirNext.dir d => subst hm; apply Always.bind' (dirNext_ep d e); rintro ⟨c, d', r, e'⟩ h; ep_tac
  case sockAccept.sock x =>
    split at hm <;> simp only [Option.some.injEq, reduceCtorEq] at hm
    subst hm; apply Always.bind' (sockAccept_ep x e); rintro ⟨c, d', r, e'⟩ h; ep_tac
  case sockLocal.sock x => subst hm; apply Always.bind' (sockAddr_ep x false e); rintro ⟨r, e'⟩ h; ep_tac
  case sockRemote.sock x => subst hm; apply Always.bind' (sockAddr_ep x true e); rintro ⟨r, e'⟩ h; ep_tac
  case sockUdpEcho.sock x =>
    split at hm <;> simp only [Option.some.injEq, reduceCtorEq] at hm
    subst hm; apply Always.bind' (sockUdpEcho_ep x e); rintro ⟨c, r, e'⟩ h; ep_tac
  all_goals (subst hm; ep_tac)

end PV.Res

import PV.Lemmas.Res.Funcs
/-! # C18 — the call tables satisfy the generic predicate

`ctorRun`, `mutRun`, `deriveRun`, `dtorRun` (one entry per modelled library function): for every entry,
every failure predicate and every frame, `SpecG` holds with the footprints of the objects involved. -/
namespace PV.Res
open List

theorem ob_eq : ob = optL fun b => [R.blk b] := by
  funext o; cases o <;> rfl

theorem Spec.frameG {m : ResM α} (h : Spec pre m post) (x : List R) (own : List Name) :
    SpecG (pre ++ x) own m (fun a => post a ++ x) (fun _ => own) := by
  intro f s fr hs
  refine wp_mono (h f s (x ++ fr) (by simpa using hs)) ?_
  intro a s' ⟨h1, h2⟩
  exact ⟨by simpa using h1, NamesOk.of_eq own h2⟩

/-- post-processing of the result by a pure function -/
theorem SpecG.map {m : ResM α} (h : SpecG pre oi m post oo) (g : α → β) (post' : β → List R) (oo' : β → List Name)
    (hp : ∀ a, post a ~ post' (g a)) (ho : ∀ a, ∀ n ∈ oo a, n ∈ oo' (g a)) :
    SpecG pre oi (m >>= fun a => pure (g a)) post' oo' := by
  intro f s fr hs
  simp only [wp_bind, wp_pure]
  refine wp_mono (h f s fr hs) ?_
  intro a s' ⟨h1, h2⟩
  refine ⟨h1.trans ((hp a).append_right fr), ?_⟩
  intro n hn
  rcases h2 n hn with h3 | h3
  · exact .inl (ho a n h3)
  · exact .inr h3

theorem ctorRun_spec (k : CtorK) (e : EP) :
    SpecG e.foot [] (ctorRun k e) (fun r => optFoot r.2.1 ++ r.2.2.foot) (fun r => optOwned r.2.1) := by
  -- constructors that do not look at the error argument
  have plain : ∀ {α : Type} (m : ResM (Option α)) (ft : α → List R) (C : α → Obj), Spec [] m (optL ft) →
      (∀ a, (C a).foot = ft a) → (∀ a, (C a).owned = []) →
      SpecG e.foot [] (do let r ← m; let (c, o) := ret1 r C; return (c, o, e))
        (fun r => optFoot r.2.1 ++ r.2.2.foot) (fun r => optOwned r.2.1) := by
    intro α m ft C hm hf ho
    have := (hm.frameG e.foot []).map (fun r => ((ret1 r C).1, (ret1 r C).2, e))
      (fun r => optFoot r.2.1 ++ r.2.2.foot) (fun r => optOwned r.2.1)
      (by intro a; cases a <;> simp [ret1, optFoot, hf]) (by intro a; cases a <;> simp [ret1, optOwned, ho])
    simpa using this
  -- constructors that report through the error argument
  have witherr : ∀ {α : Type} (m : ResM (Option α × EP)) (ft : α → List R) (C : α → Obj),
      Spec e.foot m (fun r => optL ft r.1 ++ r.2.foot) → (∀ a, (C a).foot = ft a) → (∀ a, (C a).owned = []) →
      SpecG e.foot [] (do let (r, e') ← m; let (c, o) := ret1 r C; return (c, o, e'))
        (fun r => optFoot r.2.1 ++ r.2.2.foot) (fun r => optOwned r.2.1) := by
    intro α m ft C hm hf ho
    have := (by simpa using hm.frameG [] [] : SpecG e.foot [] m (fun r => optL ft r.1 ++ r.2.foot) (fun _ => [])).map
      (fun r => ((ret1 r.1 C).1, (ret1 r.1 C).2, r.2))
      (fun r => optFoot r.2.1 ++ r.2.2.foot) (fun r => optOwned r.2.1)
      (by rintro ⟨a, e'⟩; cases a <;> simp [ret1, optFoot, hf]) (by rintro ⟨a, e'⟩; cases a <;> simp [ret1, optOwned, ho])
    simpa using this
  cases k with
  | strdup => exact plain strdup _ .str strdup_spec (fun _ => rfl) (fun _ => rfl)
  | listNew =>
    intro f s fr h
    simpa [ctorRun, optFoot, Obj.foot, ListO.foot, ListO.blocks, optOwned, Obj.owned] using ⟨h, NamesOk.of_eq [] rfl⟩
  | treeNew => exact plain treeNew _ .tree treeNew_spec (fun _ => rfl) (fun _ => rfl)
  | htNew => exact plain htNew _ .ht htNew_spec (fun _ => rfl) (fun _ => rfl)
  | errNew => exact plain errNew _ .err errNew_spec (fun _ => rfl) (fun _ => rfl)
  | errNewLiteral =>
    have := (errNewLiteral_spec.frameG e.foot []).map (fun r => (errCls r true, r.map Obj.err, e))
      (fun r => optFoot r.2.1 ++ r.2.2.foot) (fun r => optOwned r.2.1)
      (by intro a; cases a <;> simp [optFoot, Obj.foot]) (by intro a; cases a <;> simp [optOwned, Obj.owned])
    simpa [ctorRun] using this
  | iniNew file => exact plain (iniNew file) _ .ini (iniNew_spec file) (fun _ => rfl) (fun _ => rfl)
  | hashNew => exact plain hashNew _ .hash hashNew_spec (fun _ => rfl) (fun _ => rfl)
  | ipcKey p => exact plain (ipcKey p) _ .str (ob_eq ▸ ipcKey_spec p) (fun _ => rfl) (fun _ => rfl)
  | ipcTmpdir => exact plain ipcTmpDir _ .str (ob_eq ▸ ipcTmpDir_spec) (fun _ => rfl) (fun _ => rfl)
  | dirNew m => exact witherr (dirNew m e) _ .dir (dirNew_spec m e) (fun _ => rfl) (fun _ => rfl)
  | saNew bad =>
    cases bad
    · exact plain malloc _ .saddr malloc_spec (fun _ => rfl) (fun _ => rfl)
    · exact plain saNewBad _ .saddr (ob_eq ▸ saNewBad_spec) (fun _ => rfl) (fun _ => rfl)
  | sockNew kind => exact witherr (sockNew kind e) _ .sock (sockNew_spec kind e) (fun _ => rfl) (fun _ => rfl)
  | sockFromFd => exact witherr (sockFromFd e) _ .sock (sockFromFd_spec e) (fun _ => rfl) (fun _ => rfl)
  | semNew n cr =>
    have := (semNew_spec (.sem n) cr e).map (fun r => ((ret1 r.1 Obj.sem).1, (ret1 r.1 Obj.sem).2, r.2))
      (fun r => optFoot r.2.1 ++ r.2.2.foot) (fun r => optOwned r.2.1)
      (by rintro ⟨a, e'⟩; cases a <;> simp [ret1, optFoot, Obj.foot])
      (by rintro ⟨a, e'⟩; cases a <;> simp [ret1, optOwned, Obj.owned])
    simpa [ctorRun] using this
  | shmNew n sz =>
    have := (shmNew_spec n (shmSize sz) e).map (fun r => ((ret1 r.1 Obj.shm).1, (ret1 r.1 Obj.shm).2, r.2))
      (fun r => optFoot r.2.1 ++ r.2.2.foot) (fun r => optOwned r.2.1)
      (by rintro ⟨a, e'⟩; cases a <;> simp [ret1, optFoot, Obj.foot])
      (by rintro ⟨a, e'⟩; cases a <;> simp [ret1, optOwned, Obj.owned])
    simpa [ctorRun] using this
  | shmbufNew n sz =>
    have := (shmbufNew_spec n (shmSize sz) e).map (fun r => ((ret1 r.1 Obj.shmbuf).1, (ret1 r.1 Obj.shmbuf).2, r.2))
      (fun r => optFoot r.2.1 ++ r.2.2.foot) (fun r => optOwned r.2.1)
      (by rintro ⟨a, e'⟩; cases a <;> simp [ret1, optFoot, Obj.foot])
      (by rintro ⟨a, e'⟩; cases a <;> simp [ret1, optOwned, Obj.owned])
    simpa [ctorRun] using this
  | oneNew k =>
    cases k with
    | mutex => exact plain (newInit "pthread_mutex_init") _ (.one .mutex) (ob_eq ▸ newInit_spec _) (fun _ => rfl) (fun _ => rfl)
    | cond => exact plain (newInit "pthread_cond_init") _ (.one .cond) (ob_eq ▸ newInit_spec _) (fun _ => rfl) (fun _ => rfl)
    | rwlock => exact plain malloc _ (.one .rwlock) malloc_spec (fun _ => rfl) (fun _ => rfl)
    | spin => exact plain malloc _ (.one .spin) malloc_spec (fun _ => rfl) (fun _ => rfl)
    | prof => exact plain malloc _ (.one .prof) malloc_spec (fun _ => rfl) (fun _ => rfl)
  | rwgNew => exact plain rwgNew _ .rwg rwgNew_spec (fun _ => rfl) (fun _ => rfl)
  | tlsNew => exact plain tlsNew _ .tls tlsNew_spec (fun _ => rfl) (fun _ => rfl)
  | loaderNew w => exact plain (loaderNew w) _ .loader (loaderNew_spec w) (fun _ => rfl) (fun _ => rfl)
  | loaderErr =>
    have := (loaderErr_spec.frameG e.foot []).map (fun r => (r.1, r.2.map Obj.str, e))
      (fun r => optFoot r.2.1 ++ r.2.2.foot) (fun r => optOwned r.2.1)
      (by rintro ⟨c, a⟩; cases a <;> simp [optFoot, Obj.foot]) (by rintro ⟨c, a⟩; cases a <;> simp [optOwned, Obj.owned])
    simpa [ctorRun] using this
  | mmapNew len =>
    have := (by simpa using (mmapNew_spec len e).frameG [] [] :
        SpecG e.foot [] (mmapNew len e) (fun r => optL (fun x => [R.map x.1 x.2]) r.1 ++ r.2.foot) (fun _ => [])).map
      (fun r => (if r.1.isSome then 'S' else 'F', r.1.map fun x => Obj.mmap x.1 x.2, r.2))
      (fun r => optFoot r.2.1 ++ r.2.2.foot) (fun r => optOwned r.2.1)
      (by rintro ⟨a, e'⟩; cases a <;> simp [optFoot, Obj.foot]) (by rintro ⟨a, e'⟩; cases a <;> simp [optOwned, Obj.owned])
    simpa [ctorRun] using this

/-- mutators that return a class and the new payload -/
theorem mut_cls {T : Type} (ft : T → List R) (C : T → Obj) (hC : ∀ t, (C t).foot = ft t) (hO : ∀ t, (C t).owned = [])
    (t : T) (g : ResM (Char × T)) (hg : Spec (ft t) g (fun r => ft r.2)) (e : EP) :
    SpecG ((C t).foot ++ e.foot) (C t).owned (do let (c, t') ← g; return (c, some (C t'), e))
      (fun r => optFoot r.2.1 ++ r.2.2.foot) (fun r => optOwned r.2.1) := by
  have := (hg.frameG e.foot []).map (fun r => (r.1, some (C r.2), e))
    (fun r => optFoot r.2.1 ++ r.2.2.foot) (fun r => optOwned r.2.1)
    (by intro a; simp [optFoot, hC]) (by intro a; simp [optOwned, hO])
  simpa [hC, hO] using this

/-- mutators that return only the new payload -/
theorem mut_val {T : Type} (ft : T → List R) (C : T → Obj) (hC : ∀ t, (C t).foot = ft t) (hO : ∀ t, (C t).owned = [])
    (t : T) (g : ResM T) (hg : Spec (ft t) g ft) (e : EP) (c : T → Char) :
    SpecG ((C t).foot ++ e.foot) (C t).owned (do let t' ← g; return (c t', some (C t'), e))
      (fun r => optFoot r.2.1 ++ r.2.2.foot) (fun r => optOwned r.2.1) := by
  have := (hg.frameG e.foot []).map (fun r => (c r, some (C r), e))
    (fun r => optFoot r.2.1 ++ r.2.2.foot) (fun r => optOwned r.2.1)
    (by intro a; simp [optFoot, hC]) (by intro a; simp [optOwned, hO])
  simpa [hC, hO] using this

/-- calls that leave the object as it is -/
theorem mut_keep (o : Obj) (hO : o.owned = []) (g : ResM Char) (hg : Spec o.foot g (fun _ => o.foot)) (e : EP) :
    SpecG (o.foot ++ e.foot) o.owned (do let c ← g; return (c, some o, e))
      (fun r => optFoot r.2.1 ++ r.2.2.foot) (fun r => optOwned r.2.1) := by
  have := (hg.frameG e.foot []).map (fun r => (r, some o, e))
    (fun r => optFoot r.2.1 ++ r.2.2.foot) (fun r => optOwned r.2.1)
    (by intro a; simp [optFoot]) (by intro a; simp [optOwned, hO])
  simpa [hO] using this

/-- mutators that also report through the error argument -/
theorem mut_err {T : Type} (ft : T → List R) (C : T → Obj) (hC : ∀ t, (C t).foot = ft t) (hO : ∀ t, (C t).owned = [])
    (t : T) (e : EP) (g : ResM (Char × T × EP)) (hg : Spec (ft t ++ e.foot) g (fun r => ft r.2.1 ++ r.2.2.foot)) :
    SpecG ((C t).foot ++ e.foot) (C t).owned (do let (c, t', e') ← g; return (c, some (C t'), e'))
      (fun r => optFoot r.2.1 ++ r.2.2.foot) (fun r => optOwned r.2.1) := by
  have := (by simpa using hg.frameG [] [] :
      SpecG (ft t ++ e.foot) [] g (fun r => ft r.2.1 ++ r.2.2.foot) (fun _ => [])).map (fun r => (r.1, some (C r.2.1), r.2.2))
    (fun r => optFoot r.2.1 ++ r.2.2.foot) (fun r => optOwned r.2.1)
    (by intro a; simp [optFoot, hC]) (by intro a; simp [optOwned, hO])
  simpa [hC, hO] using this

theorem mut_pure (o o' : Obj) (e : EP) (c : Char) (hf : o'.foot = o.foot) (ho : ∀ n ∈ o.owned, n ∈ o'.owned) :
    SpecG (o.foot ++ e.foot) o.owned (pure (c, some o', e) : ResM (Char × Option Obj × EP))
      (fun r => optFoot r.2.1 ++ r.2.2.foot) (fun r => optOwned r.2.1) := by
  intro f s fr h
  simp [optFoot, optOwned, hf]
  exact ⟨by simpa using h, NamesOk.refl _ _ _ ho⟩

theorem mutRun_spec (k : MutK) (o : Obj) (e : EP) (m : ResM (Char × Option Obj × EP)) (hm : mutRun k o e = some m) :
    SpecG (o.foot ++ e.foot) o.owned m (fun r => optFoot r.2.1 ++ r.2.2.foot) (fun r => optOwned r.2.1) := by
  cases k with
  | nop =>
    simp only [mutRun, Option.some.injEq] at hm; subst hm
    exact mut_pure o o e 'S' rfl (fun _ h => h)
  | listAdd x pre =>
    cases o <;> simp only [mutRun, Option.some.injEq, reduceCtorEq] at hm
    subst hm; rename_i l
    exact mut_cls ListO.foot .list (fun _ => rfl) (fun _ => rfl) l _ (listAdd_spec l x pre) e
  | listRemove x =>
    cases o <;> simp only [mutRun, Option.some.injEq, reduceCtorEq] at hm
    subst hm; rename_i l
    exact mut_val ListO.foot .list (fun _ => rfl) (fun _ => rfl) l _ (listRemove_spec l x) e (fun _ => 'S')
  | treeInsert k =>
    cases o <;> simp only [mutRun, Option.some.injEq, reduceCtorEq] at hm
    subst hm; rename_i t
    exact mut_cls TreeO.foot .tree (fun _ => rfl) (fun _ => rfl) t _ (treeInsert_spec t k) e
  | treeRemove k =>
    cases o <;> simp only [mutRun, Option.some.injEq, reduceCtorEq] at hm
    subst hm; rename_i t
    exact mut_val TreeO.foot .tree (fun _ => rfl) (fun _ => rfl) t _ (treeRemove_spec t k) e (fun _ => 'S')
  | treeClear =>
    cases o <;> simp only [mutRun, Option.some.injEq, reduceCtorEq] at hm
    subst hm; rename_i t
    exact mut_val TreeO.foot .tree (fun _ => rfl) (fun _ => rfl) t _ (treeClear_spec t) e (fun _ => 'S')
  | htInsert k v =>
    cases o <;> simp only [mutRun, Option.some.injEq, reduceCtorEq] at hm
    subst hm; rename_i t
    exact mut_cls HtO.foot .ht (fun _ => rfl) (fun _ => rfl) t _ (htInsert_spec t k v) e
  | htRemove k =>
    cases o <;> simp only [mutRun, Option.some.injEq, reduceCtorEq] at hm
    subst hm; rename_i t
    exact mut_val HtO.foot .ht (fun _ => rfl) (fun _ => rfl) t _ (htRemove_spec t k) e (fun _ => 'S')
  | errSetMsg =>
    cases o <;> simp only [mutRun, Option.some.injEq, reduceCtorEq] at hm
    subst hm; rename_i x
    exact mut_val ErrO.foot .err (fun _ => rfl) (fun _ => rfl) x _ (errSetMsg_spec x) e (fun x' => errCls (some x') true)
  | errClear =>
    cases o <;> simp only [mutRun, Option.some.injEq, reduceCtorEq] at hm
    subst hm; rename_i x
    exact mut_val ErrO.foot .err (fun _ => rfl) (fun _ => rfl) x _ (errClear_spec x) e (fun _ => 'S')
  | iniParse =>
    cases o <;> simp only [mutRun, Option.some.injEq, reduceCtorEq] at hm
    subst hm; rename_i i
    exact mut_err IniO.foot .ini (fun _ => rfl) (fun _ => rfl) i e _ (iniParse_spec i e)
  | iniScalar sec key =>
    cases o <;> simp only [mutRun, Option.some.injEq, reduceCtorEq] at hm
    subst hm; rename_i i
    exact mut_keep (.ini i) rfl _ (iniScalar_spec i sec key) e
  | iniDouble sec key =>
    cases o <;> simp only [mutRun, Option.some.injEq, reduceCtorEq] at hm
    subst hm; rename_i i
    exact mut_keep (.ini i) rfl _ (iniDouble_spec i sec key) e
  | dirRewind =>
    cases o <;> simp only [mutRun, Option.some.injEq, reduceCtorEq] at hm
    subst hm; rename_i d
    exact mut_pure (.dir d) _ e 'S' rfl (fun _ h => h)
  | sockListen =>
    cases o <;> simp only [mutRun, reduceCtorEq] at hm
    rename_i x
    split at hm <;> simp only [Option.some.injEq, reduceCtorEq] at hm
    subst hm
    exact mut_err SockO.foot .sock (fun _ => rfl) (fun _ => rfl) x e _ (sockListen_spec x e)
  | sockConnectRefused =>
    cases o <;> simp only [mutRun, reduceCtorEq] at hm
    rename_i x
    split at hm <;> simp only [Option.some.injEq, reduceCtorEq] at hm
    subst hm
    exact mut_err SockO.foot .sock (fun _ => rfl) (fun _ => rfl) x e _ (sockConnectRefused_spec x e)
  | sockIoClosed =>
    cases o <;> simp only [mutRun, reduceCtorEq] at hm
    rename_i x
    split at hm <;> simp only [Option.some.injEq, reduceCtorEq] at hm
    subst hm
    exact mut_err SockO.foot .sock (fun _ => rfl) (fun _ => rfl) x e _ (sockIoClosed_spec x e)
  | sockClose =>
    cases o <;> simp only [mutRun, Option.some.injEq, reduceCtorEq] at hm
    subst hm; rename_i x
    exact mut_val SockO.foot .sock (fun _ => rfl) (fun _ => rfl) x _ (sockClose_spec x) e (fun _ => 'S')
  | semOwn =>
    cases o <;> simp only [mutRun, Option.some.injEq, reduceCtorEq] at hm
    subst hm; rename_i x
    exact mut_pure (.sem x) _ e 'S' rfl (by simp [Obj.owned, SemO.owned])
  | shmOwn =>
    cases o <;> simp only [mutRun, Option.some.injEq, reduceCtorEq] at hm
    subst hm; rename_i x
    exact mut_pure (.shm x) _ e 'S' rfl (by simp [Obj.owned, ShmO.owned, SemO.owned]; grind)
  | shmbufOwn =>
    cases o <;> simp only [mutRun, Option.some.injEq, reduceCtorEq] at hm
    subst hm; rename_i x
    exact mut_pure (.shmbuf x) _ e 'S' rfl (by simp [Obj.owned, ShmO.owned, SemO.owned]; grind)
  | tlsSet =>
    cases o <;> simp only [mutRun, Option.some.injEq, reduceCtorEq] at hm
    subst hm; rename_i t
    exact mut_cls TlsO.foot .tls (fun _ => rfl) (fun _ => rfl) t _ (tlsSet_spec t) e
  | tlsReplace =>
    cases o <;> simp only [mutRun, Option.some.injEq, reduceCtorEq] at hm
    subst hm; rename_i t
    exact mut_cls TlsO.foot .tls (fun _ => rfl) (fun _ => rfl) t _ (tlsReplace_spec t) e
  | tlsGet =>
    cases o <;> simp only [mutRun, Option.some.injEq, reduceCtorEq] at hm
    subst hm; rename_i t
    exact mut_val TlsO.foot .tls (fun _ => rfl) (fun _ => rfl) t _ (tlsGet_spec t) e (fun _ => 'S')
  | loaderSym =>
    cases o <;> simp only [mutRun, Option.some.injEq, reduceCtorEq] at hm
    subst hm; rename_i l
    intro f s fr h
    simp [loaderSym, optFoot, optOwned, Obj.owned] at h ⊢
    exact ⟨h, NamesOk.of_eq [] rfl⟩
  | mmapFree =>
    cases o <;> simp only [mutRun, Option.some.injEq, reduceCtorEq] at hm
    subst hm; rename_i i len
    have := (by simpa using (mmapUnmap_spec i len e).frameG [] [] :
        SpecG (R.map i len :: e.foot) [] (mmapUnmap i len e) (fun r => (if r.1 then [] else [R.map i len]) ++ r.2.foot) (fun _ => [])).map
      (fun r => (if r.1 then 'S' else 'F', if r.1 then none else some (Obj.mmap i len), r.2))
      (fun r => optFoot r.2.1 ++ r.2.2.foot) (fun r => optOwned r.2.1)
      (by rintro ⟨ok, e'⟩; cases ok <;> simp [optFoot, Obj.foot]) (by rintro ⟨ok, e'⟩; cases ok <;> simp [optOwned, Obj.owned])
    simpa [Obj.foot, Obj.owned] using this
  | strRealloc =>
    cases o <;> simp only [mutRun, Option.some.injEq, reduceCtorEq] at hm
    subst hm; rename_i b
    exact mut_cls (fun b => [R.blk b]) .str (fun _ => rfl) (fun _ => rfl) b _ (strRealloc_spec b) e

/-- derivations whose source object stays as it is: `g` returns (class, payload of the new object) -/
theorem der_keep {T : Type} (o : Obj) (hO : o.owned = []) (ft : T → List R) (C : T → Obj) (hC : ∀ t, (C t).foot = ft t)
    (hCO : ∀ t, (C t).owned = []) (e : EP) (g : ResM (Char × Option T))
    (hg : Spec o.foot g (fun r => optL ft r.2 ++ o.foot)) :
    SpecG (o.foot ++ e.foot) o.owned (do let (c, r) ← g; return (c, o, r.map C, e))
      (fun r => r.2.1.foot ++ optFoot r.2.2.1 ++ r.2.2.2.foot) (fun r => r.2.1.owned ++ optOwned r.2.2.1) := by
  have := (hg.frameG e.foot []).map (fun r => (r.1, o, r.2.map C, e))
    (fun r => r.2.1.foot ++ optFoot r.2.2.1 ++ r.2.2.2.foot) (fun r => r.2.1.owned ++ optOwned r.2.2.1)
    (by rintro ⟨c, a⟩; cases a <;> simp [optFoot, hC] <;> grind) (by rintro ⟨c, a⟩; cases a <;> simp [optOwned, hO, hCO])
  simpa [hO] using this

theorem deriveRun_spec (k : DeriveK) (o : Obj) (e : EP) (m : ResM (Char × Obj × Option Obj × EP))
    (hm : deriveRun k o e = some m) :
    SpecG (o.foot ++ e.foot) o.owned m (fun r => r.2.1.foot ++ optFoot r.2.2.1 ++ r.2.2.2.foot)
      (fun r => r.2.1.owned ++ optOwned r.2.2.1) := by
  -- the hash-table listings
  have htl : ∀ (t : HtO) (sel : List Nat),
      SpecG ((Obj.ht t).foot ++ e.foot) (Obj.ht t).owned (do let (c, l) ← htList t sel; return (c, Obj.ht t, some (Obj.list l), e))
        (fun r => r.2.1.foot ++ optFoot r.2.2.1 ++ r.2.2.2.foot) (fun r => r.2.1.owned ++ optOwned r.2.2.1) := by
    intro t sel
    have := ((htList_spec t sel).frameG e.foot []).map (fun r => (r.1, Obj.ht t, some (Obj.list r.2), e))
      (fun r => r.2.1.foot ++ optFoot r.2.2.1 ++ r.2.2.2.foot) (fun r => r.2.1.owned ++ optOwned r.2.2.1)
      (by rintro ⟨c, a⟩; simp [optFoot, Obj.foot]; grind) (by rintro ⟨c, a⟩; simp [optOwned, Obj.owned])
    show SpecG (t.foot ++ e.foot) [] _ _ _
    simpa using this
  -- string lists out of an INI object
  have inil : ∀ (i : IniO) (g : ResM (Char × SListO)), Spec i.foot g (fun r => r.2.foot ++ i.foot) →
      SpecG ((Obj.ini i).foot ++ e.foot) (Obj.ini i).owned (do let (c, l) ← g; return (c, Obj.ini i, some (Obj.slist l), e))
        (fun r => r.2.1.foot ++ optFoot r.2.2.1 ++ r.2.2.2.foot) (fun r => r.2.1.owned ++ optOwned r.2.2.1) := by
    intro i g hg
    have := (hg.frameG e.foot []).map (fun r => (r.1, Obj.ini i, some (Obj.slist r.2), e))
      (fun r => r.2.1.foot ++ optFoot r.2.2.1 ++ r.2.2.2.foot) (fun r => r.2.1.owned ++ optOwned r.2.2.1)
      (by rintro ⟨c, a⟩; simp [optFoot, Obj.foot]; grind) (by rintro ⟨c, a⟩; simp [optOwned, Obj.owned])
    show SpecG (i.foot ++ e.foot) [] _ _ _
    simpa using this
  cases k with
  | htKeys =>
    cases o <;> simp only [deriveRun, Option.some.injEq, reduceCtorEq] at hm
    subst hm; exact htl _ _
  | htValues =>
    cases o <;> simp only [deriveRun, Option.some.injEq, reduceCtorEq] at hm
    subst hm; exact htl _ _
  | htLbv v =>
    cases o <;> simp only [deriveRun, Option.some.injEq, reduceCtorEq] at hm
    subst hm; exact htl _ _
  | iniSections =>
    cases o <;> simp only [deriveRun, Option.some.injEq, reduceCtorEq] at hm
    subst hm; exact inil _ _ (iniSections_spec _)
  | iniKeys sec =>
    cases o <;> simp only [deriveRun, Option.some.injEq, reduceCtorEq] at hm
    subst hm; exact inil _ _ (iniKeys_spec _ sec)
  | iniList sec key =>
    cases o <;> simp only [deriveRun, Option.some.injEq, reduceCtorEq] at hm
    subst hm; exact inil _ _ (iniList_spec _ sec key)
  | errCopy =>
    cases o <;> simp only [deriveRun, Option.some.injEq, reduceCtorEq] at hm
    subst hm; rename_i x
    have := ((errCopy_spec x).frameG e.foot []).map (fun r => (errCls r x.msg.isSome, Obj.err x, r.map Obj.err, e))
      (fun r => r.2.1.foot ++ optFoot r.2.2.1 ++ r.2.2.2.foot) (fun r => r.2.1.owned ++ optOwned r.2.2.1)
      (by intro a; cases a <;> simp [optFoot, Obj.foot]; grind) (by intro a; cases a <;> simp [optOwned, Obj.owned])
    show SpecG (x.foot ++ e.foot) [] _ _ _
    simpa using this
  | iniString sec key =>
    cases o <;> simp only [deriveRun, Option.some.injEq, reduceCtorEq] at hm
    subst hm; rename_i i
    have := ((iniString_spec i sec key).frameG e.foot []).map (fun r => (r.1, Obj.ini i, r.2.map Obj.str, e))
      (fun r => r.2.1.foot ++ optFoot r.2.2.1 ++ r.2.2.2.foot) (fun r => r.2.1.owned ++ optOwned r.2.2.1)
      (by rintro ⟨c, a⟩; cases a <;> simp [optFoot, Obj.foot]; grind) (by rintro ⟨c, a⟩; cases a <;> simp [optOwned, Obj.owned])
    show SpecG (i.foot ++ e.foot) [] _ _ _
    simpa using this
  | hashString =>
    cases o <;> simp only [deriveRun, Option.some.injEq, reduceCtorEq] at hm
    subst hm; rename_i x
    have := ((hashString_spec x).frameG e.foot []).map (fun r => (if r.isSome then 'S' else 'F', Obj.hash x, r.map Obj.str, e))
      (fun r => r.2.1.foot ++ optFoot r.2.2.1 ++ r.2.2.2.foot) (fun r => r.2.1.owned ++ optOwned r.2.2.1)
      (by intro a; cases a <;> simp [optFoot, Obj.foot]; grind) (by intro a; cases a <;> simp [optOwned, Obj.owned])
    show SpecG (x.foot ++ e.foot) [] _ _ _
    simpa using this
  | dirNext =>
    cases o <;> simp only [deriveRun, Option.some.injEq, reduceCtorEq] at hm
    subst hm; rename_i d
    have := (by simpa using (dirNext_spec d e).frameG [] [] :
        SpecG (d.foot ++ e.foot) [] (dirNext d e) (fun r => r.2.1.foot ++ optL DirentO.foot r.2.2.1 ++ r.2.2.2.foot) (fun _ => [])).map
      (fun r => (r.1, Obj.dir r.2.1, r.2.2.1.map Obj.dirent, r.2.2.2))
      (fun r => r.2.1.foot ++ optFoot r.2.2.1 ++ r.2.2.2.foot) (fun r => r.2.1.owned ++ optOwned r.2.2.1)
      (by rintro ⟨c, d', a, e'⟩; cases a <;> simp [optFoot, Obj.foot]) (by rintro ⟨c, d', a, e'⟩; cases a <;> simp [optOwned, Obj.owned])
    show SpecG (d.foot ++ e.foot) [] _ _ _
    simpa using this
  | dirPath =>
    cases o <;> simp only [deriveRun, Option.some.injEq, reduceCtorEq] at hm
    subst hm; rename_i d
    have := ((dirPath_spec d).frameG e.foot []).map (fun r => (if r.isSome then 'S' else 'F', Obj.dir d, r.map Obj.str, e))
      (fun r => r.2.1.foot ++ optFoot r.2.2.1 ++ r.2.2.2.foot) (fun r => r.2.1.owned ++ optOwned r.2.2.1)
      (by intro a; cases a <;> simp [optFoot, Obj.foot]; grind) (by intro a; cases a <;> simp [optOwned, Obj.owned])
    show SpecG (d.foot ++ e.foot) [] _ _ _
    simpa using this
  | saAddr =>
    cases o <;> simp only [deriveRun, Option.some.injEq, reduceCtorEq] at hm
    subst hm; rename_i b
    intro f s fr h
    simp [Obj.foot, optFoot, optOwned, Obj.owned] at h ⊢
    refine ⟨by permg h, ?_⟩
    split <;> simp [optFoot, Obj.foot, optOwned, Obj.owned, NamesOk.of_eq] <;> permg h
  | sockAccept =>
    cases o <;> simp only [deriveRun, reduceCtorEq] at hm
    rename_i x
    split at hm <;> simp only [Option.some.injEq, reduceCtorEq] at hm
    subst hm
    have := (by simpa using (sockAccept_spec x e).frameG [] [] :
        SpecG (x.foot ++ e.foot) [] (sockAccept x e) (fun r => r.2.1.foot ++ optL SockO.foot r.2.2.1 ++ r.2.2.2.foot) (fun _ => [])).map
      (fun r => (r.1, Obj.sock r.2.1, r.2.2.1.map Obj.sock, r.2.2.2))
      (fun r => r.2.1.foot ++ optFoot r.2.2.1 ++ r.2.2.2.foot) (fun r => r.2.1.owned ++ optOwned r.2.2.1)
      (by rintro ⟨c, d', a, e'⟩; cases a <;> simp [optFoot, Obj.foot]) (by rintro ⟨c, d', a, e'⟩; cases a <;> simp [optOwned, Obj.owned])
    show SpecG (x.foot ++ e.foot) [] _ _ _
    simpa using this
  | sockLocal =>
    cases o <;> simp only [deriveRun, Option.some.injEq, reduceCtorEq] at hm
    subst hm; rename_i x
    have := (by simpa using (sockAddr_spec x false e).frameG [] [] :
        SpecG (x.foot ++ e.foot) [] (sockAddr x false e) (fun r => ob r.1 ++ x.foot ++ r.2.foot) (fun _ => [])).map
      (fun r => (if r.1.isSome then 'S' else 'F', Obj.sock x, r.1.map Obj.saddr, r.2))
      (fun r => r.2.1.foot ++ optFoot r.2.2.1 ++ r.2.2.2.foot) (fun r => r.2.1.owned ++ optOwned r.2.2.1)
      (by rintro ⟨a, e'⟩; cases a <;> simp [optFoot, Obj.foot]; grind) (by rintro ⟨a, e'⟩; cases a <;> simp [optOwned, Obj.owned])
    show SpecG (x.foot ++ e.foot) [] _ _ _
    simpa using this
  | sockRemote =>
    cases o <;> simp only [deriveRun, Option.some.injEq, reduceCtorEq] at hm
    subst hm; rename_i x
    have := (by simpa using (sockAddr_spec x true e).frameG [] [] :
        SpecG (x.foot ++ e.foot) [] (sockAddr x true e) (fun r => ob r.1 ++ x.foot ++ r.2.foot) (fun _ => [])).map
      (fun r => (if r.1.isSome then 'S' else 'F', Obj.sock x, r.1.map Obj.saddr, r.2))
      (fun r => r.2.1.foot ++ optFoot r.2.2.1 ++ r.2.2.2.foot) (fun r => r.2.1.owned ++ optOwned r.2.2.1)
      (by rintro ⟨a, e'⟩; cases a <;> simp [optFoot, Obj.foot]; grind) (by rintro ⟨a, e'⟩; cases a <;> simp [optOwned, Obj.owned])
    show SpecG (x.foot ++ e.foot) [] _ _ _
    simpa using this
  | sockUdpEcho =>
    cases o <;> simp only [deriveRun, reduceCtorEq] at hm
    rename_i x
    split at hm <;> simp only [Option.some.injEq, reduceCtorEq] at hm
    subst hm
    have := (by simpa using (sockUdpEcho_spec x e).frameG [] [] :
        SpecG (x.foot ++ e.foot) [] (sockUdpEcho x e) (fun r => ob r.2.1 ++ x.foot ++ r.2.2.foot) (fun _ => [])).map
      (fun r => (r.1, Obj.sock x, r.2.1.map Obj.saddr, r.2.2))
      (fun r => r.2.1.foot ++ optFoot r.2.2.1 ++ r.2.2.2.foot) (fun r => r.2.1.owned ++ optOwned r.2.2.1)
      (by rintro ⟨c, a, e'⟩; cases a <;> simp [optFoot, Obj.foot]; grind) (by rintro ⟨c, a, e'⟩; cases a <;> simp [optOwned, Obj.owned])
    show SpecG (x.foot ++ e.foot) [] _ _ _
    simpa using this

theorem dtorRun_spec (o : Obj) : SpecG o.foot o.owned (dtorRun o) (fun _ => []) (fun _ => []) := by
  have plain : ∀ (m : ResM Unit), Spec o.foot m (fun _ => []) → o.owned = [] → SpecG o.foot o.owned m (fun _ => []) (fun _ => []) := by
    intro m hm ho
    rw [ho]
    simpa using hm.frameG [] []
  have one : ∀ b : Blk, Spec [.blk b] (freeB b) (fun _ => []) := by
    intro b f s fr h
    simp at h ⊢
    exact ⟨by permg h, by permg h⟩
  cases o with
  | str b => exact plain _ (one b) rfl
  | list l => exact plain _ (listFree_spec l) rfl
  | slist l => exact plain _ (slistFree_spec l) rfl
  | tree t => exact plain _ (treeFree_spec t) rfl
  | ht t => exact plain _ (htFree_spec t) rfl
  | err x => exact plain _ (errFree_spec x) rfl
  | ini i => exact plain _ (iniFree_spec i) rfl
  | hash h => exact plain _ (hashFree_spec h) rfl
  | dir d => exact plain _ (dirFree_spec d) rfl
  | dirent d => exact plain _ (direntFree_spec d) rfl
  | saddr b => exact plain _ (one b) rfl
  | sock x => exact plain _ (sockFree_spec x) rfl
  | sem x => exact semFree_spec x
  | shm x => exact shmFree_spec x
  | shmbuf b => exact shmbufFree_spec b
  | one k b => exact plain _ (one b) rfl
  | rwg l => exact plain _ (rwgFree_spec l) rfl
  | thread t => exact plain _ (threadUnref_spec t) rfl
  | tls t => exact plain _ (tlsFree_spec t) rfl
  | loader l => exact plain _ (loaderFree_spec l) rfl
  | mmap i len =>
    refine plain _ ?_ rfl
    intro f s fr h
    simp [dtorRun, Obj.foot] at h ⊢
    exact ⟨by permg h, by permg h⟩

end PV.Res

import Lean.Elab.Tactic
import PV.Model.Res
/-! # C18 / C20 — weakest preconditions over `ResM` and the generic specification predicate -/
namespace PV.Res
open List

open Lean Elab Tactic in
/-- drop every hypothesis except `h` (and what `h` or the goal depend on): unrelated hypotheses only distract
    the proof search of `grind` -/
elab "keep_only " h:ident : tactic => do
  let g ← getMainGoal
  let g' ← g.withContext do
    let fv ← getFVarId h
    let mut g := g
    for d in (← getLCtx).decls.toList.reverse do
      if let some d := d then
        if d.fvarId != fv && !d.isImplementationDetail then
          g ← g.tryClear d.fvarId
    pure g
  replaceMainGoal [g']

theorem ResM.run_bind (m : ResM α) (g : α → ResM β) (f : Nat → Bool) (s : St) :
    (m.bind g).run f s = match m.run f s with
      | .fault e => .fault e
      | .ok a s' => (g a).run f s' := by
  induction m generalizing s with
  | ret a => simp [ResM.bind, ResM.run]
  | deref p k ih =>
    simp only [ResM.bind, ResM.run]
    cases p with
    | none => rfl
    | some b => simp only []; split <;> first | rfl | exact ih _
  | munmap i mp len k ih =>
    simp only [ResM.bind, ResM.run]
    split
    · split <;> exact ih _
    · rfl
  | _ =>
    rename_i ih
    simp only [ResM.bind, ResM.run]
    first
    | exact ih _
    | exact ih _ _
    | (split <;> first | rfl | exact ih _ | exact ih _ _)

/-- total correctness: the program does not fault and its result satisfies `Q` -/
def wp (m : ResM α) (f : Nat → Bool) (s : St) (Q : α → St → Prop) : Prop :=
  match m.run f s with
  | .fault _ => False
  | .ok a s' => Q a s'

theorem wp_mono {m : ResM α} (h : wp m f s Q) (hq : ∀ a s', Q a s' → Q' a s') : wp m f s Q' := by
  unfold wp at *
  cases hm : m.run f s <;> simp_all

@[simp] theorem wp_pure (a : α) : wp (pure a : ResM α) f s Q ↔ Q a s := Iff.rfl
@[simp] theorem wp_ret (a : α) : wp (ResM.ret a) f s Q ↔ Q a s := Iff.rfl

@[simp] theorem wp_bind (m : ResM α) (g : α → ResM β) :
    wp (m >>= g) f s Q ↔ wp m f s (fun a s' => wp (g a) f s' Q) := by
  show wp (m.bind g) f s Q ↔ _
  unfold wp
  rw [ResM.run_bind]
  cases m.run f s <;> simp

@[simp] theorem wp_map (m : ResM α) (g : α → β) :
    wp (g <$> m) f s Q ↔ wp m f s (fun a s' => Q (g a) s') := by
  show wp (m.bind (fun a => pure (g a))) f s Q ↔ _
  unfold wp
  rw [ResM.run_bind]
  cases m.run f s <;> simp [pure, ResM.run]

@[simp] theorem wp_malloc : wp malloc f s Q ↔
    (if f (s.next + 1) then Q none { s with next := s.next + 1, log := .m (s.next + 1) false :: s.log }
     else Q (some (s.next + 1))
       { s with next := s.next + 1, held := .blk (s.next + 1) :: s.held, log := .m (s.next + 1) true :: s.log }) := by
  by_cases h : f (s.next + 1) = true <;> simp [wp, malloc, ResM.run, h]

@[simp] theorem wp_freeB : wp (freeB b) f s Q ↔
    (.blk b ∈ s.held ∧ Q () { s with held := s.held.erase (.blk b), log := .f b :: s.log }) := by
  by_cases h : R.blk b ∈ s.held <;> simp [wp, freeB, ResM.run, h]

@[simp] theorem wp_free_none : wp (free none) f s Q ↔ Q () s := Iff.rfl
@[simp] theorem wp_free_some : wp (free (some b)) f s Q ↔
    (.blk b ∈ s.held ∧ Q () { s with held := s.held.erase (.blk b), log := .f b :: s.log }) := wp_freeB

@[simp] theorem wp_deref_some : wp (deref (some b)) f s Q ↔ (.blk b ∈ s.held ∧ Q () s) := by
  by_cases h : R.blk b ∈ s.held <;> simp [wp, deref, ResM.run, h]
@[simp] theorem wp_deref_none : wp (deref none) f s Q ↔ False := by simp [wp, deref, ResM.run]

@[simp] theorem wp_openFd : wp openFd f s Q ↔
    Q (s.nextFd + 1) { s with nextFd := s.nextFd + 1, held := .fd (s.nextFd + 1) :: s.held } := by
  simp [wp, openFd, ResM.run]

@[simp] theorem wp_closeFd : wp (closeFd n) f s Q ↔
    (.fd n ∈ s.held ∧ Q () { s with held := s.held.erase (.fd n), closed := n :: s.closed }) := by
  by_cases h : R.fd n ∈ s.held <;> simp [wp, closeFd, ResM.run, h]

@[simp] theorem wp_mmap : wp (mmap len) f s Q ↔
    Q (s.nextMap + 1) { s with nextMap := s.nextMap + 1, held := .map (s.nextMap + 1) len :: s.held } := by
  simp [wp, mmap, ResM.run]

/-- unmapping exactly what was mapped -/
@[simp] theorem wp_munmap_full : wp (munmap i len len) f s Q ↔
    (.map i len ∈ s.held ∧ Q () { s with held := s.held.erase (.map i len) }) := by
  by_cases h : R.map i len ∈ s.held <;> simp [wp, munmap, ResM.run, h]

@[simp] theorem wp_nameTest : wp (nameTest n) f s Q ↔ Q (ResM.nameSize s.names n) s := by
  simp [wp, nameTest, ResM.run]

@[simp] theorem wp_nameCreate : wp (nameCreate n sz) f s Q ↔
    (ResM.nameSize s.names n = none ∧ Q () { s with names := (n, sz) :: s.names }) := by
  cases h : ResM.nameSize s.names n <;> simp [wp, nameCreate, ResM.run, h]

@[simp] theorem wp_nameUnlink : wp (nameUnlink n) f s Q ↔
    Q () { s with names := s.names.filter (·.1 ≠ n) } := by
  simp [wp, nameUnlink, ResM.run]

@[simp] theorem wp_keyCreate : wp keyCreate f s Q ↔
    Q (s.nextKey + 1) { s with nextKey := s.nextKey + 1, held := .key (s.nextKey + 1) :: s.held } := by
  simp [wp, keyCreate, ResM.run]

@[simp] theorem wp_keyDelete : wp (keyDelete i) f s Q ↔
    (.key i ∈ s.held ∧ Q () { s with held := s.held.erase (.key i) }) := by
  by_cases h : R.key i ∈ s.held <;> simp [wp, keyDelete, ResM.run, h]

@[simp] theorem wp_sysOk : wp (sysOk nm) f s Q ↔
    (if nm ∈ s.sysfail then Q false { s with sysfail := s.sysfail.erase nm } else Q true s) := by
  by_cases h : nm ∈ s.sysfail <;> simp [wp, sysOk, ResM.run, h]

@[simp] theorem wp_arm : wp (arm nm) f s Q ↔ Q () { s with sysfail := nm :: s.sysfail } := by
  simp [wp, arm, ResM.run]
@[simp] theorem wp_dlGet : wp dlGet f s Q ↔ Q s.dlPending s := by simp [wp, dlGet, ResM.run]
@[simp] theorem wp_dlSet : wp (dlSet b) f s Q ↔ Q () { s with dlPending := b } := by simp [wp, dlSet, ResM.run]
@[simp] theorem wp_emit : wp (emit e) f s Q ↔ Q () { s with log := e :: s.log } := by simp [wp, emit, ResM.run]

/-! ## the generic predicate -/

/-- how the IPC names may change: a name existing afterwards is owned by the result, or existed before and
    was not owned by the arguments -/
def NamesOk (ns : List (Name × Nat)) (ownIn : List Name) (ns' : List (Name × Nat)) (ownOut : List Name) : Prop :=
  ∀ n ∈ ns'.map (·.1), n ∈ ownOut ∨ (n ∈ ns.map (·.1) ∧ n ∉ ownIn)

/-- **The generic predicate of C18/C20.**  Whatever the failure predicate `f`, from every state that holds
    the argument footprint `pre` (next to an arbitrary frame `fr` of other objects' resources) the program
    * does not fault (no NULL dereference, use after free, double free, double close),
    * ends holding exactly `post result` next to the untouched frame,
    * changes IPC names only as `NamesOk` allows. -/
def SpecG (pre : List R) (ownIn : List Name) (m : ResM α) (post : α → List R) (ownOut : α → List Name) : Prop :=
  ∀ (f : Nat → Bool) (s : St) (fr : List R), s.held ~ pre ++ fr →
    wp m f s (fun a s' => s'.held ~ post a ++ fr ∧ NamesOk s.names ownIn s'.names (ownOut a))

/-- the same for programs that do not touch IPC names -/
def Spec (pre : List R) (m : ResM α) (post : α → List R) : Prop :=
  ∀ (f : Nat → Bool) (s : St) (fr : List R), s.held ~ pre ++ fr →
    wp m f s (fun a s' => s'.held ~ post a ++ fr ∧ s'.names = s.names)

theorem NamesOk.refl (ns : List (Name × Nat)) (own : List Name) (own' : List Name) (h : ∀ n ∈ own, n ∈ own') :
    NamesOk ns own ns own' := by
  intro n hn
  by_cases hin : n ∈ own
  · exact .inl (h n hin)
  · exact .inr ⟨hn, hin⟩

theorem Spec.toG {m : ResM α} (h : Spec pre m post) (ownIn : List Name) (ownOut : α → List Name)
    (hown : ∀ a, ∀ n ∈ ownIn, n ∈ ownOut a) : SpecG pre ownIn m post ownOut := by
  intro f s fr hs
  refine wp_mono (h f s fr hs) ?_
  intro a s' ⟨h1, h2⟩
  exact ⟨h1, h2 ▸ NamesOk.refl _ _ _ (hown a)⟩

/-- using an established specification inside a larger program -/
theorem wp_spec {m : ResM α} (h : Spec pre m post) (hs : s.held ~ pre ++ fr)
    (hq : ∀ a s', s'.held ~ post a ++ fr → s'.names = s.names → Q a s') : wp m f s Q :=
  wp_mono (h f s fr hs) fun a s' ⟨h1, h2⟩ => hq a s' h1 h2

theorem wp_specG {m : ResM α} (h : SpecG pre ownIn m post ownOut) (hs : s.held ~ pre ++ fr)
    (hq : ∀ a s', s'.held ~ post a ++ fr → NamesOk s.names ownIn s'.names (ownOut a) → Q a s') : wp m f s Q :=
  wp_mono (h f s fr hs) fun a s' ⟨h1, h2⟩ => hq a s' h1 h2

/-- `freeAll` releases exactly the listed blocks -/
theorem freeAll_spec (bs : List Blk) : Spec (bs.map .blk) (freeAll bs) (fun _ => []) := by
  induction bs with
  | nil => intro f s fr h; simpa [freeAll] using h
  | cons b bs ih =>
    intro f s fr h
    simp only [freeAll, wp_bind, wp_freeB]
    refine ⟨by grind, ?_⟩
    refine wp_mono (ih f _ fr ?_) ?_
    · simp at *; grind
    · intro _ s' h'; simpa using h'

end PV.Res

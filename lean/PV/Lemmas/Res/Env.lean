import PV.Lemmas.Res.Tables
import PV.Lemmas.Res.EP
/-! # C20 — the footprint invariant over call sequences

`Inv env s`: the resources held by the process are exactly the footprints of the live objects (the library's
own state and the objects in the slots), and every IPC name that exists has a live owner among them.
Every call of the call language preserves it — whatever the failure predicate, whether the call succeeds,
fails or is skipped. -/
namespace PV.Res
open List

def footL (l : List (Option Obj)) : List R := l.flatMap optFoot
def ownL (l : List (Option Obj)) : List Name := l.flatMap optOwned

/-- exchanging the content of a slot: new footprints + old content = new content + old footprints -/
theorem footL_set (l : List (Option Obj)) (i : Nat) (x : Option Obj) (hi : i < l.length) :
    footL (l.set i x) ++ optFoot (l[i]?.join) ~ optFoot x ++ footL l := by
  induction l generalizing i with
  | nil => simp at hi
  | cons a l ih =>
    cases i with
    | zero => simp [footL]; grind
    | succ i =>
      have := ih i (by simpa using hi)
      simp [footL] at this ⊢
      grind

theorem mem_ownL_set_new (l : List (Option Obj)) (i : Nat) (x : Option Obj) (hi : i < l.length) (n : Name)
    (h : n ∈ optOwned x) : n ∈ ownL (l.set i x) := by
  simp only [ownL, List.mem_flatMap]
  exact ⟨x, by simpa using List.mem_set hi x |> fun h => h, h⟩

theorem mem_ownL_set_old (l : List (Option Obj)) (i : Nat) (x : Option Obj) (n : Name)
    (h : n ∈ ownL l) (hn : n ∉ optOwned (l[i]?.join)) : n ∈ ownL (l.set i x) := by
  induction l generalizing i with
  | nil => simp [ownL] at h
  | cons a l ih =>
    cases i with
    | zero =>
      simp [ownL] at h hn ⊢
      rcases h with h | h
      · exact absurd h hn
      · exact .inr h
    | succ i =>
      simp [ownL] at h hn ⊢
      rcases h with h | h
      · exact .inl h
      · exact .inr (by simpa [ownL] using ih i (by simpa [ownL] using h) hn)

/-- the invariant of C20 -/
def Inv (env : Env) (s : St) : Prop :=
  s.held ~ env.lib.foot ++ footL env.slots ∧ ∀ n ∈ s.names.map (·.1), n ∈ ownL env.slots

/-- permutation goals between sums of opaque lists, from permutation facts, by counting -/
syntax "perm_omega" "[" term,* "]" : tactic
macro_rules
  | `(tactic| perm_omega [$hs,*]) => `(tactic| (
      rw [List.perm_iff_count]; intro w
      $[have := (List.perm_iff_count.1 $hs) w]*
      simp only [List.count_append, List.count_nil] at *
      omega))

/-! ## the error-pointer argument -/
theorem ep_split {env : Env} {e : Option Nat} {excl : List Nat} {ep : EP} (h : env.ep e excl = some ep) :
    (e = none ∧ ep = none) ∨
    (∃ i, e = some i ∧ i < env.slots.length ∧ i ∉ excl ∧ env.slots[i]? = some none ∧ ep = some none) ∨
    (∃ i eo, e = some i ∧ i < env.slots.length ∧ i ∉ excl ∧ env.slots[i]? = some (some (.err eo)) ∧ ep = some (some eo)) := by
  rcases e with _ | i
  · simp [Env.ep] at h; exact .inl ⟨rfl, h.symm⟩
  · simp only [Env.ep] at h
    split at h
    · simp at h
    · rename_i hc
      have hi : i < env.slots.length := by omega
      have hx : i ∉ excl := fun hx => hc (.inr hx)
      right
      simp only [Env.get] at h
      rcases hs : env.slots[i]? with _ | o
      · simp at hs; omega
      · rcases o with _ | o
        · simp [hs] at h; exact .inl ⟨i, rfl, hi, hx, hs, h.symm⟩
        · cases o <;> simp [hs] at h
          rename_i eo
          exact .inr ⟨i, eo, rfl, hi, hx, hs, h.symm⟩

/-! ## several slots change in one call -/
def setAll (l : List (Option Obj)) : List (Nat × Option Obj) → List (Option Obj)
  | [] => l
  | u :: us => setAll (l.set u.1 u.2) us

@[simp] theorem setAll_length (l : List (Option Obj)) (us : List (Nat × Option Obj)) : (setAll l us).length = l.length := by
  induction us generalizing l with
  | nil => rfl
  | cons u us ih => simp [setAll, ih]

theorem setAll_get_other (l : List (Option Obj)) (us : List (Nat × Option Obj)) (j : Nat) (h : ∀ u ∈ us, u.1 ≠ j) :
    (setAll l us)[j]? = l[j]? := by
  induction us generalizing l with
  | nil => rfl
  | cons u us ih =>
    simp only [setAll]
    rw [ih _ (fun v hv => h v (by simp [hv]))]
    exact List.getElem?_set_ne (h u (by simp))

/-- the old contents of the updated slots -/
def olds (l : List (Option Obj)) (us : List (Nat × Option Obj)) : List R := us.flatMap fun u => optFoot (l[u.1]?.join)
def news (us : List (Nat × Option Obj)) : List R := us.flatMap fun u => optFoot u.2

theorem olds_congr {l1 l2 : List (Option Obj)} {us : List (Nat × Option Obj)} (h : ∀ v ∈ us, l1[v.1]? = l2[v.1]?) :
    olds l1 us = olds l2 us := by
  induction us with
  | nil => rfl
  | cons u us ih =>
    simp only [olds, List.flatMap_cons] at ih ⊢
    rw [h u (by simp), ih (fun v hv => h v (by simp [hv]))]

/-- exchange form for several distinct slots -/
theorem footL_setAll (l : List (Option Obj)) (us : List (Nat × Option Obj)) (hlt : ∀ u ∈ us, u.1 < l.length)
    (hd : (us.map (·.1)).Nodup) : footL (setAll l us) ++ olds l us ~ news us ++ footL l := by
  induction us generalizing l with
  | nil => simp [setAll, olds, news]
  | cons u us ih =>
    have hnd : u.1 ∉ us.map (·.1) ∧ (us.map (·.1)).Nodup := List.nodup_cons.1 hd
    have h1 := footL_set l u.1 u.2 (hlt u (by simp))
    have h2 := ih (l.set u.1 u.2) (by intro v hv; simpa using hlt v (by simp [hv])) hnd.2
    have hold : olds (l.set u.1 u.2) us = olds l us := by
      apply olds_congr
      intro v hv
      rw [List.getElem?_set_ne]
      intro heq
      exact hnd.1 (by rw [heq]; exact List.mem_map_of_mem hv)
    rw [hold] at h2
    simp only [setAll, olds, news, List.flatMap_cons] at h2 ⊢
    perm_omega [h1, h2]

theorem mem_ownL_setAll_new (l : List (Option Obj)) (us : List (Nat × Option Obj)) (hlt : ∀ u ∈ us, u.1 < l.length)
    (hd : (us.map (·.1)).Nodup) (n : Name) (h : ∃ u ∈ us, n ∈ optOwned u.2) : n ∈ ownL (setAll l us) := by
  induction us generalizing l with
  | nil => simp at h
  | cons u us ih =>
    have hnd : u.1 ∉ us.map (·.1) ∧ (us.map (·.1)).Nodup := List.nodup_cons.1 hd
    simp only [setAll]
    rcases h with ⟨v, hv, hn⟩
    rcases List.mem_cons.1 hv with rfl | hv
    · -- placed first; later updates touch other slots
      have : n ∈ ownL (l.set v.1 v.2) := mem_ownL_set_new l v.1 v.2 (hlt v (by simp)) n hn
      simp only [ownL, List.mem_flatMap] at this ⊢
      rcases this with ⟨x, hx, hnx⟩
      rcases List.getElem?_of_mem hx with ⟨j, hj⟩
      by_cases hjv : j = v.1
      · subst hjv
        refine ⟨v.2, ?_, hn⟩
        have hg : (setAll (l.set v.1 v.2) us)[v.1]? = some v.2 := by
          rw [setAll_get_other _ _ _ (fun w hw heq => hnd.1 (by rw [← heq]; exact List.mem_map_of_mem hw))]
          simp [hlt v (by simp)]
        exact List.mem_of_getElem? hg
      · refine ⟨v.2, ?_, hn⟩
        have hg : (setAll (l.set v.1 v.2) us)[v.1]? = some v.2 := by
          rw [setAll_get_other _ _ _ (fun w hw heq => hnd.1 (by rw [← heq]; exact List.mem_map_of_mem hw))]
          simp [hlt v (by simp)]
        exact List.mem_of_getElem? hg
    · exact ih _ (by intro w hw; simpa using hlt w (by simp [hw])) hnd.2 ⟨v, hv, hn⟩

theorem mem_ownL_setAll_old (l : List (Option Obj)) (us : List (Nat × Option Obj)) (n : Name)
    (h : n ∈ ownL l) (hn : ∀ u ∈ us, n ∉ optOwned (l[u.1]?.join)) (hd : (us.map (·.1)).Nodup) : n ∈ ownL (setAll l us) := by
  induction us generalizing l with
  | nil => exact h
  | cons u us ih =>
    have hnd : u.1 ∉ us.map (·.1) ∧ (us.map (·.1)).Nodup := List.nodup_cons.1 hd
    simp only [setAll]
    apply ih _ (mem_ownL_set_old l u.1 u.2 n h (hn u (by simp))) _ hnd.2
    intro v hv
    rw [List.getElem?_set_ne]
    · exact hn v (by simp [hv])
    · intro heq
      exact hnd.1 (by rw [heq]; exact List.mem_map_of_mem hv)

theorem setAll_append (l : List (Option Obj)) (us vs : List (Nat × Option Obj)) :
    setAll l (us ++ vs) = setAll (setAll l us) vs := by
  induction us generalizing l with
  | nil => rfl
  | cons u us ih => simp [setAll, ih]

/-- what the slots hold apart from the slots `idx` -/
def frameL (l : List (Option Obj)) (idx : List Nat) : List R := footL (setAll l (idx.map fun j => (j, none)))

theorem news_nones (idx : List Nat) : news (idx.map fun j => (j, (none : Option Obj))) = [] := by
  induction idx with
  | nil => rfl
  | cons j idx ih => simpa [news, optFoot] using ih

theorem olds_nones (l : List (Option Obj)) (us : List (Nat × Option Obj)) :
    olds l ((us.map (·.1)).map fun j => (j, (none : Option Obj))) = olds l us := by
  induction us with
  | nil => rfl
  | cons u us ih => simpa [olds] using ih

theorem frameL_perm (l : List (Option Obj)) (us : List (Nat × Option Obj)) (hlt : ∀ u ∈ us, u.1 < l.length)
    (hd : (us.map (·.1)).Nodup) : footL l ~ olds l us ++ frameL l (us.map (·.1)) := by
  have h := footL_setAll l ((us.map (·.1)).map fun j => (j, none))
    (by
      intro u hu
      simp only [List.mem_map] at hu
      rcases hu with ⟨j, ⟨v, hv, rfl⟩, rfl⟩
      exact hlt v hv)
    (by simpa [List.map_map, Function.comp_def] using hd)
  rw [news_nones, olds_nones] at h
  simp only [frameL]
  perm_omega [h]

/-- **the generic invariant step**: the slots `us` (pairwise distinct) receive new contents and the library
    state becomes `lib'`; what is held changed accordingly; names changed as `NamesOk` allows -/
theorem inv_update {env : Env} {s s' : St} (hinv : Inv env s) (lib' : LibO) (us : List (Nat × Option Obj))
    (hlt : ∀ u ∈ us, u.1 < env.slots.length) (hd : (us.map (·.1)).Nodup)
    (hheld : s'.held ~ lib'.foot ++ news us ++ frameL env.slots (us.map (·.1)))
    (hnames : ∀ n ∈ s'.names.map (·.1), (∃ u ∈ us, n ∈ optOwned u.2) ∨
      (n ∈ s.names.map (·.1) ∧ ∀ u ∈ us, n ∉ optOwned (env.slots[u.1]?.join))) :
    Inv ⟨lib', setAll env.slots us⟩ s' := by
  constructor
  · have h1 := footL_setAll env.slots us hlt hd
    have h2 := frameL_perm env.slots us hlt hd
    simp only []
    perm_omega [hheld, h1, h2]
  · intro n hn
    rcases hnames n hn with h | ⟨h1, h2⟩
    · exact mem_ownL_setAll_new _ _ hlt hd n h
    · exact mem_ownL_setAll_old _ _ n (hinv.2 n h1) h2 hd

theorem frame_held {env : Env} {s : St} (hinv : Inv env s) (us : List (Nat × Option Obj))
    (hlt : ∀ u ∈ us, u.1 < env.slots.length) (hd : (us.map (·.1)).Nodup) :
    s.held ~ env.lib.foot ++ olds env.slots us ++ frameL env.slots (us.map (·.1)) := by
  have h2 := frameL_perm env.slots us hlt hd
  have h1 := hinv.1
  perm_omega [h1, h2]

/-! ## the error pointer as one more slot update -/
def epObj : EP → Option Obj
  | some (some eo) => some (.err eo)
  | _ => none

def epUpd (e : Option Nat) (ep' : EP) : List (Nat × Option Obj) :=
  match e with
  | some i => [(i, epObj ep')]
  | none => []

theorem epUpd_idx (e : Option Nat) (ep' : EP) : (epUpd e ep').map (·.1) = e.toList := by
  cases e <;> rfl

theorem epUpd_olds {env : Env} {e : Option Nat} {excl : List Nat} {ep : EP} (h : env.ep e excl = some ep) (ep' : EP) :
    olds env.slots (epUpd e ep') = ep.foot := by
  rcases ep_split h with ⟨rfl, rfl⟩ | ⟨i, rfl, hi, _, hs, rfl⟩ | ⟨i, eo, rfl, hi, _, hs, rfl⟩
  · rfl
  · simp only [epUpd, olds, List.flatMap_cons, List.flatMap_nil, hs]; rfl
  · simp only [epUpd, olds, List.flatMap_cons, List.flatMap_nil, hs]; simp [optFoot, EP.foot, Obj.foot]

theorem epUpd_news {env : Env} {e : Option Nat} {excl : List Nat} {ep ep' : EP} (h : env.ep e excl = some ep)
    (hle : EPle ep ep') : news (epUpd e ep') = ep'.foot := by
  rcases ep_split h with ⟨rfl, rfl⟩ | ⟨i, rfl, hi, _, hs, rfl⟩ | ⟨i, eo, rfl, hi, _, hs, rfl⟩
  · simp [EPle] at hle; subst hle; simp [epUpd, news, EP.foot]
  · rcases ep' with _ | _ | eo <;> simp [epUpd, news, EP.foot, epObj, optFoot, Obj.foot]
  · simp [EPle] at hle; subst hle; simp [epUpd, news, EP.foot, epObj, optFoot, Obj.foot]

/-- `putEP` is that update -/
theorem putEP_eq {env : Env} {e : Option Nat} {excl : List Nat} {ep ep' : EP} (h : env.ep e excl = some ep)
    (hle : EPle ep ep') (lib : LibO) (l' : List (Option Obj)) (hsame : ∀ i, e = some i → l'[i]? = env.slots[i]?) :
    (Env.mk lib l').putEP e ep' = ⟨lib, setAll l' (epUpd e ep')⟩ := by
  rcases ep_split h with ⟨rfl, rfl⟩ | ⟨i, rfl, hi, _, hs, rfl⟩ | ⟨i, eo, rfl, hi, _, hs, rfl⟩
  · simp [Env.putEP, epUpd, setAll]
  · rcases ep' with _ | _ | eo
    · simp [EPle] at hle
    · have hl : l'[i]? = some none := by rw [hsame i rfl, hs]
      obtain ⟨hlt, hget⟩ := List.getElem?_eq_some_iff.1 hl
      have : l'.set i none = l' := by
        apply List.ext_getElem?; intro j
        by_cases hj : i = j
        · subst hj; simp [hlt, hget]
        · rw [List.getElem?_set_ne hj]
      simp [Env.putEP, epUpd, setAll, epObj, this]
    · simp [Env.putEP, epUpd, setAll, epObj, Env.set]
  · simp [EPle] at hle; subst hle
    simp [Env.putEP, epUpd, setAll, epObj, Env.set]

/-- error objects own no IPC name -/
theorem epUpd_owned (e : Option Nat) (ep' : EP) (n : Name) : ¬ ∃ u ∈ epUpd e ep', n ∈ optOwned u.2 := by
  rcases e with _ | i <;> rcases ep' with _ | _ | eo <;> simp [epUpd, epObj, optOwned, Obj.owned]

theorem epUpd_old_owned {env : Env} {e : Option Nat} {excl : List Nat} {ep : EP} (h : env.ep e excl = some ep) (ep' : EP)
    (n : Name) : ∀ u ∈ epUpd e ep', n ∉ optOwned (env.slots[u.1]?.join) := by
  rcases ep_split h with ⟨rfl, rfl⟩ | ⟨i, rfl, hi, _, hs, rfl⟩ | ⟨i, eo, rfl, hi, _, hs, rfl⟩
  · simp [epUpd]
  · intro u hu; simp only [epUpd, List.mem_singleton] at hu; subst hu; simp only [hs]; simp [optOwned]
  · intro u hu; simp only [epUpd, List.mem_singleton] at hu; subst hu; simp only [hs]; simp [optOwned, Obj.owned]

theorem putEP_lib {env : Env} {e : Option Nat} {ep' : EP} : (env.putEP e ep').lib = env.lib := by
  unfold Env.putEP; split <;> rfl

theorem putEP_length {env : Env} {e : Option Nat} {ep' : EP} : (env.putEP e ep').slots.length = env.slots.length := by
  unfold Env.putEP; split <;> simp [Env.set]

theorem wp_and_always {m : ResM α} {Q : α → St → Prop} {P : α → Prop} (h : wp m f s Q) (ha : Always m P) :
    wp m f s (fun a s' => Q a s' ∧ P a) := by
  have := ha f s
  unfold wp wlp at *
  cases hm : m.run f s <;> simp_all

theorem isEmpty_spec {env : Env} {d : Nat} (h : env.isEmpty d = true) : d < env.slots.length ∧ env.slots[d]? = some none := by
  simp only [Env.isEmpty, Bool.and_eq_true, decide_eq_true_eq, Env.get] at h
  refine ⟨h.1, ?_⟩
  rcases hs : env.slots[d]? with _ | o
  · simp at hs; omega
  · rcases o with _ | o
    · rfl
    · simp [hs] at h

theorem get_spec {env : Env} {d : Nat} {o : Obj} (h : env.get d = some o) :
    d < env.slots.length ∧ env.slots[d]? = some (some o) := by
  simp only [Env.get] at h
  rcases hs : env.slots[d]? with _ | x
  · simp [hs] at h
  · simp [hs] at h; subst h
    exact ⟨(List.getElem?_eq_some_iff.1 hs).1, rfl⟩

theorem ep_idx_lt {env : Env} {e : Option Nat} {excl : List Nat} {ep : EP} (h : env.ep e excl = some ep) :
    ∀ i ∈ e.toList, i < env.slots.length ∧ i ∉ excl := by
  rcases ep_split h with ⟨rfl, rfl⟩ | ⟨i, rfl, hi, hx, hs, rfl⟩ | ⟨i, eo, rfl, hi, hx, hs, rfl⟩ <;> simp [*]

def oldsIdx (l : List (Option Obj)) (idx : List Nat) : List R := idx.flatMap fun j => optFoot (l[j]?.join)

theorem olds_eq_idx (l : List (Option Obj)) (us : List (Nat × Option Obj)) : olds l us = oldsIdx l (us.map (·.1)) := by
  simp [olds, oldsIdx, List.flatMap_map]

/-- **one call, generically**: the call `m` updates the slots `idx` (all excluded from being the error slot,
    pairwise distinct) with `main result`, turns the library state into `lib' result`, and threads the error
    pointer; its specification is stated over exactly those footprints.  Then the invariant is preserved. -/
theorem step_generic {α : Type} {env : Env} {s : St} (hinv : Inv env s) (e : Option Nat) (excl : List Nat) (ep : EP)
    (hep : env.ep e excl = some ep) (idx : List Nat) (hsub : ∀ j ∈ idx, j ∈ excl ∧ j < env.slots.length) (hnd : idx.Nodup)
    (main : α → List (Nat × Option Obj)) (hmain : ∀ a, (main a).map (·.1) = idx)
    (lib' : α → LibO) (epOf : α → EP) (m : ResM α) (ownIn : List Name)
    (hown : ∀ n, n ∉ ownIn → ∀ j ∈ idx, n ∉ optOwned (env.slots[j]?.join))
    (hspec : SpecG (env.lib.foot ++ oldsIdx env.slots idx ++ ep.foot) ownIn m
      (fun a => (lib' a).foot ++ news (main a) ++ (epOf a).foot) (fun a => (main a).flatMap fun u => optOwned u.2))
    (hepa : Always m (fun a => EPle ep (epOf a))) (a0 : α) (f : Nat → Bool) :
    wp m f s (fun a s' => Inv ((Env.mk (lib' a) (setAll env.slots (main a))).putEP e (epOf a)) s') := by
  have hidx := ep_idx_lt hep
  have hlt : ∀ (a : α) (ep' : EP), ∀ u ∈ main a ++ epUpd e ep', u.1 < env.slots.length := by
    intro a ep' u hu
    rcases List.mem_append.1 hu with hu | hu
    · exact (hsub u.1 (by rw [← hmain a]; exact List.mem_map_of_mem hu)).2
    · exact (hidx u.1 (by rw [← epUpd_idx e ep']; exact List.mem_map_of_mem hu)).1
  have hndA : ∀ (a : α) (ep' : EP), ((main a ++ epUpd e ep').map (·.1)).Nodup := by
    intro a ep'
    rw [List.map_append, hmain a, epUpd_idx]
    rcases e with _ | i
    · simpa using hnd
    · have := (hidx i (by simp)).2
      simp only [Option.toList, List.nodup_append, hnd, List.nodup_cons, List.not_mem_nil, not_false_eq_true,
        List.nodup_nil, and_self, List.mem_singleton, true_and]
      intro a ha b hb
      subst hb
      intro hab; subst hab
      exact this (hsub a ha).1
  have hidxA : ∀ (a : α) (ep' : EP), (main a ++ epUpd e ep').map (·.1) = idx ++ e.toList := by
    intro a ep'; rw [List.map_append, hmain a, epUpd_idx]
  -- the frame: everything in the slots apart from `idx` and the error slot
  have frameOf : ∀ (a : α), s.held ~ env.lib.foot ++ oldsIdx env.slots idx ++ ep.foot ++ frameL env.slots (idx ++ e.toList) := by
    intro a
    have hfr := frame_held hinv (main a ++ epUpd e none) (hlt a none) (hndA a none)
    have ho := epUpd_olds hep none
    rw [hidxA] at hfr
    simp only [olds, List.flatMap_append] at hfr ho
    rw [ho] at hfr
    have := olds_eq_idx env.slots (main a)
    simp only [olds, hmain a] at this
    rw [this] at hfr
    perm_omega [hfr]
  apply wp_mono (wp_and_always (hspec f s (frameL env.slots (idx ++ e.toList)) (frameOf a0)) hepa)
  rintro a s' ⟨⟨h1, hnm⟩, hle⟩
  have heq : (Env.mk (lib' a) (setAll env.slots (main a))).putEP e (epOf a) =
      ⟨lib' a, setAll env.slots (main a ++ epUpd e (epOf a))⟩ := by
    rw [putEP_eq hep hle (lib' a) (setAll env.slots (main a)) (by
      intro i hi
      apply setAll_get_other
      intro u hu heq
      have h1 := (hidx i (by simp [hi])).2
      exact h1 (hsub i (by rw [← hmain a, ← heq]; exact List.mem_map_of_mem hu)).1), setAll_append]
  rw [heq]
  apply inv_update hinv (lib' a) _ (hlt a (epOf a)) (hndA a (epOf a))
  · have hn := epUpd_news hep hle
    rw [hidxA]
    simp only [news, List.flatMap_append] at hn h1 ⊢
    rw [hn]
    perm_omega [h1]
  · intro n hn
    rcases hnm n hn with h | ⟨h, hni⟩
    · left
      simp only [List.mem_flatMap] at h
      rcases h with ⟨u, hu, hnu⟩
      exact ⟨u, List.mem_append_left _ hu, hnu⟩
    · refine .inr ⟨h, ?_⟩
      intro u hu
      rcases List.mem_append.1 hu with hu | hu
      · exact hown n hni u.1 (by rw [← hmain a]; exact List.mem_map_of_mem hu)
      · exact epUpd_old_owned hep (epOf a) n u hu

theorem ep_none (env : Env) (excl : List Nat) : env.ep none excl = some none := rfl

theorem oldsIdx_one {l : List (Option Obj)} {d : Nat} {o : Option Obj} (h : l[d]? = some o) : oldsIdx l [d] = optFoot o := by
  simp [oldsIdx, h]

/-- calls that only touch the library's own state -/
theorem step_lib {env : Env} {s : St} (hinv : Inv env s) (m : ResM (Char × LibO))
    (hm : Spec env.lib.foot m (fun r => r.2.foot)) (f : Nat → Bool) :
    wp (do let (cls, l) ← m; return (cls, { env with lib := l })) f s (fun r s' => Inv r.2 s') := by
  simp only [wp_bind, wp_pure]
  have := step_generic hinv none [] none (ep_none env []) [] (by simp) (by simp) (fun _ => []) (fun _ => rfl)
    (fun a : Char × LibO => a.2) (fun _ => none) m [] (by simp)
    (by simpa [oldsIdx, news, EP.foot] using hm.toG [] (fun _ => []) (by simp)) (fun _ _ => by
      unfold wlp; split <;> simp [EPle]) ('S', {}) f
  exact wp_mono this (fun a s' h => by simpa [Env.putEP, setAll] using h)

theorem skip_inv {env : Env} {s : St} (hinv : Inv env s) (f : Nat → Bool) :
    wp (skip env) f s (fun r s' => Inv r.2 s') := by
  simpa [skip] using hinv

theorem set_eq_setAll1 (env : Env) (d : Nat) (o : Option Obj) : env.set d o = ⟨env.lib, setAll env.slots [(d, o)]⟩ := rfl

theorem stepCtor_inv {env : Env} {s : St} (hinv : Inv env s) (k : CtorK) (d : Nat) (e : Option Nat) (f : Nat → Bool) :
    wp (stepCtor env k d e) f s (fun r s' => Inv r.2 s') := by
  unfold stepCtor
  cases hd : env.isEmpty d
  · simp only [Bool.not_false, if_true]; exact skip_inv hinv f
  simp only [Bool.not_true, Bool.false_eq_true, if_false]
  cases hb : loaderBusy env k
  case true => simp; exact skip_inv hinv f
  simp only [Bool.false_eq_true, ↓reduceIte]
  split
  · exact skip_inv hinv f
  · rename_i ep hep
    obtain ⟨hdl, hds⟩ := isEmpty_spec hd
    simp only [wp_bind]
    have := step_generic hinv e [d] ep hep [d] (by simp [hdl]) (by simp)
      (fun a : Char × Option Obj × EP => [(d, a.2.1)]) (fun _ => rfl) (fun _ => env.lib) (fun a => a.2.2)
      (ctorRun k ep) [] (by intro n _ j hj; simp at hj; subst hj; simp [hds, optOwned])
      (by
        have h := ctorRun_spec k ep
        intro f s fr hs
        refine wp_mono (h f s (env.lib.foot ++ fr) ?_) ?_
        · simp [oldsIdx_one hds, optFoot] at hs; perm_omega [hs]
        · rintro a s' ⟨h1, h2⟩
          refine ⟨?_, by simpa [optOwned] using h2⟩
          simp [news] at h1 ⊢; perm_omega [h1])
      (ctorRun_ep k ep) ('S', none, none) f
    exact wp_mono this (fun a s' h => by simpa [set_eq_setAll1] using h)

theorem stepMut_inv {env : Env} {s : St} (hinv : Inv env s) (k : MutK) (ty : Ty) (d : Nat) (e : Option Nat) (f : Nat → Bool) :
    wp (stepMut env k ty d e) f s (fun r s' => Inv r.2 s') := by
  unfold stepMut
  split
  · rename_i o ep hg hep
    split
    · exact skip_inv hinv f
    · split
      · exact skip_inv hinv f
      · rename_i m hm
        obtain ⟨hdl, hds⟩ := get_spec hg
        simp only [wp_bind]
        have := step_generic hinv e [d] ep hep [d] (by simp [hdl]) (by simp)
          (fun a : Char × Option Obj × EP => [(d, a.2.1)]) (fun _ => rfl) (fun _ => env.lib) (fun a => a.2.2)
          m o.owned (by intro n hn j hj; simp at hj; subst hj; simpa [hds, optOwned] using hn)
          (by
            have h := mutRun_spec k o ep m hm
            intro f s fr hs
            refine wp_mono (h f s (env.lib.foot ++ fr) ?_) ?_
            · simp [oldsIdx_one hds, optFoot] at hs; perm_omega [hs]
            · rintro a s' ⟨h1, h2⟩
              refine ⟨?_, by simpa [optOwned] using h2⟩
              simp [news] at h1 ⊢; perm_omega [h1])
          (mutRun_ep k o ep m hm) ('S', none, none) f
        exact wp_mono this (fun a s' h => by simpa [set_eq_setAll1] using h)
  · exact skip_inv hinv f

theorem stepDtor_inv {env : Env} {s : St} (hinv : Inv env s) (ty : Ty) (d : Nat) (f : Nat → Bool) :
    wp (stepDtor env ty d) f s (fun r s' => Inv r.2 s') := by
  unfold stepDtor
  split
  · rename_i o hg
    split
    · exact skip_inv hinv f
    · obtain ⟨hdl, hds⟩ := get_spec hg
      simp only [wp_bind, wp_pure]
      have := step_generic hinv none [d] none (ep_none env [d]) [d] (by simp [hdl]) (by simp)
        (fun _ : Unit => [(d, none)]) (fun _ => rfl) (fun _ => env.lib) (fun _ => none)
        (dtorRun o) o.owned (by intro n hn j hj; simp at hj; subst hj; simpa [hds, optOwned] using hn)
        (by
          have h := dtorRun_spec o
          intro f s fr hs
          refine wp_mono (h f s (env.lib.foot ++ fr) ?_) ?_
          · simp [oldsIdx_one hds, optFoot, EP.foot] at hs; perm_omega [hs]
          · rintro a s' ⟨h1, h2⟩
            refine ⟨?_, by simpa [optOwned] using h2⟩
            simp [news, optFoot, EP.foot] at h1 ⊢; perm_omega [h1])
        (fun _ _ => by unfold wlp; split <;> simp [EPle]) () f
      exact wp_mono this (fun a s' h => by simpa [set_eq_setAll1, Env.putEP] using h)
  · exact skip_inv hinv f

theorem oldsIdx_two {l : List (Option Obj)} {a b : Nat} {x y : Option Obj} (ha : l[a]? = some x) (hb : l[b]? = some y) :
    oldsIdx l [a, b] = optFoot x ++ optFoot y := by
  simp [oldsIdx, ha, hb]

theorem set_set_eq_setAll (env : Env) (a b : Nat) (x y : Option Obj) :
    (env.set a x).set b y = ⟨env.lib, setAll env.slots [(a, x), (b, y)]⟩ := rfl

theorem stepDerive_inv {env : Env} {s : St} (hinv : Inv env s) (k : DeriveK) (src d : Nat) (e : Option Nat) (f : Nat → Bool) :
    wp (stepDerive env k src d e) f s (fun r s' => Inv r.2 s') := by
  unfold stepDerive
  split
  · rename_i o ep hg hep
    cases hd : env.isEmpty d
    · simp; exact skip_inv hinv f
    simp only [Bool.not_true, Bool.false_eq_true, ↓reduceIte]
    split
    · exact skip_inv hinv f
    · rename_i m hm
      obtain ⟨hsl, hss⟩ := get_spec hg
      obtain ⟨hdl, hds⟩ := isEmpty_spec hd
      have hne : src ≠ d := by intro h; subst h; simp [hss] at hds
      simp only [wp_bind]
      have := step_generic hinv e [d, src] ep hep [src, d] (by simp [hdl, hsl]) (by simp [hne])
        (fun a : Char × Obj × Option Obj × EP => [(src, some a.2.1), (d, a.2.2.1)]) (fun _ => rfl) (fun _ => env.lib)
        (fun a => a.2.2.2) m o.owned
        (by
          intro n hn j hj
          simp at hj
          rcases hj with rfl | rfl
          · simpa [hss, optOwned] using hn
          · simp [hds, optOwned])
        (by
          have h := deriveRun_spec k o ep m hm
          intro f s fr hs
          refine wp_mono (h f s (env.lib.foot ++ fr) ?_) ?_
          · simp [oldsIdx_two hss hds, optFoot] at hs; perm_omega [hs]
          · rintro a s' ⟨h1, h2⟩
            refine ⟨?_, by simpa [optOwned] using h2⟩
            simp [news, optFoot] at h1 ⊢; perm_omega [h1])
        (deriveRun_ep k o ep m hm) ('S', o, none, none) f
      exact wp_mono this (fun a s' h => by simpa [set_set_eq_setAll] using h)
  · exact skip_inv hinv f

theorem stepConnect_inv {env : Env} {s : St} (hinv : Inv env s) (d srv : Nat) (e : Option Nat) (f : Nat → Bool) :
    wp (stepConnect env d srv e) f s (fun r s' => Inv r.2 s') := by
  unfold stepConnect
  split
  · rename_i x sv ep hgd hgs hep
    split
    · exact skip_inv hinv f
    · rename_i hc
      have hne : d ≠ srv := fun h => hc (.inl h)
      obtain ⟨hdl, hds⟩ := get_spec hgd
      obtain ⟨hsl, hss⟩ := get_spec hgs
      simp only [wp_bind]
      have := step_generic hinv e [d, srv] ep hep [d, srv] (by simp [hdl, hsl]) (by simp [hne])
        (fun a : Char × SockO × SockO × EP => [(d, some (.sock a.2.1)), (srv, some (.sock a.2.2.1))]) (fun _ => rfl)
        (fun _ => env.lib) (fun a => a.2.2.2) (sockConnect x sv ep) []
        (by
          intro n _ j hj
          simp at hj
          rcases hj with rfl | rfl
          · simp [hds, optOwned, Obj.owned]
          · simp [hss, optOwned, Obj.owned])
        (by
          have h := (sockConnect_spec x sv ep).toG [] (fun _ => []) (by simp)
          intro f s fr hs
          refine wp_mono (h f s (env.lib.foot ++ fr) ?_) ?_
          · simp [oldsIdx_two hds hss, optFoot, Obj.foot] at hs; perm_omega [hs]
          · rintro a s' ⟨h1, h2⟩
            refine ⟨?_, by simpa [optOwned, Obj.owned] using h2⟩
            simp [news, optFoot, Obj.foot] at h1 ⊢; perm_omega [h1])
        (sockConnect_ep x sv ep) ('S', x, sv, none) f
      exact wp_mono this (fun a s' h => by simpa [set_set_eq_setAll] using h)
  · exact skip_inv hinv f

theorem stepSetErr_inv {env : Env} {s : St} (hinv : Inv env s) (e : Option Nat) (v : Bool) (f : Nat → Bool) :
    wp (stepSetErr env e v) f s (fun r s' => Inv r.2 s') := by
  unfold stepSetErr
  split
  · exact skip_inv hinv f
  · rename_i ep hep
    simp only [wp_bind, wp_pure]
    have := step_generic hinv e [] ep hep [] (by simp) (by simp)
      (fun _ : EP => []) (fun _ => rfl) (fun _ => env.lib) (fun a => a) (setErr ep) [] (by simp)
      (by
        have h := (setErr_spec ep).toG [] (fun _ => []) (by simp)
        intro f s fr hs
        refine wp_mono (h f s (env.lib.foot ++ fr) ?_) ?_
        · simp [oldsIdx] at hs; perm_omega [hs]
        · rintro a s' ⟨h1, h2⟩
          refine ⟨?_, by simpa using h2⟩
          simp [news] at h1 ⊢; perm_omega [h1])
      (setErr_ep ep) none f
    exact wp_mono this (fun a s' h => by simpa [setAll] using h)

/-- the thread body hands back the user key it was given -/
theorem threadBody_shape (t : Option TlsO) (b : Bool) : Always (threadBody t b) (fun r => r.isSome = t.isSome) := by
  unfold threadBody
  split
  · apply Always.bind; intro v
    split
    · repeat (apply Always.bind; intro _)
      exact Always.pure rfl
    · exact Always.pure rfl
  · rename_i h
    rcases t with _ | t
    · exact Always.pure rfl
    · exact Always.pure rfl

theorem threadRun_shape (l : LibO) (t : Option TlsO) (b : ThrOpt) :
    Always (threadRun l t b) (fun r => r.2.2.isSome = t.isSome) := by
  unfold threadRun
  apply Always.bind; intro a
  split
  · apply Always.bind; intro ok
    split
    · apply Always.bind; intro _; exact Always.pure rfl
    · apply Always.bind; intro nm
      apply Always.bind; intro lt
      apply Always.bind; intro _
      apply Always.bind' (threadBody_shape t b.body); intro r hr
      exact Always.pure hr
  · exact Always.pure rfl

theorem stepThread_inv {env : Env} {s : St} (hinv : Inv env s) (d : Nat) (body : ThrOpt) (key : Option Nat) (f : Nat → Bool) :
    wp (stepThread env d body key) f s (fun r s' => Inv r.2 s') := by
  unfold stepThread
  cases hd : env.isEmpty d
  · simp; exact skip_inv hinv f
  simp only [Bool.not_true, Bool.false_eq_true, ↓reduceIte]
  obtain ⟨hdl, hds⟩ := isEmpty_spec hd
  split
  · -- no user key
    simp only [wp_bind]
    have := step_generic hinv none [d] none (ep_none env [d]) [d] (by simp [hdl]) (by simp)
      (fun a : Option ThreadO × LibO × Option TlsO => [(d, a.1.map Obj.thread)]) (fun _ => rfl) (fun a => a.2.1)
      (fun _ => none) (threadRun env.lib none body) []
      (by intro n _ j hj; simp at hj; subst hj; simp [hds, optOwned])
      (by
        have h := (threadRun_spec env.lib none body).toG [] (fun _ => []) (by simp)
        have hsh := threadRun_shape env.lib none body
        intro f s fr hs
        refine wp_mono (wp_and_always (h f s fr ?_) hsh) ?_
        · simp [oldsIdx_one hds, optFoot, EP.foot] at hs ⊢; perm_omega [hs]
        · rintro ⟨t, l, tl⟩ s' ⟨⟨h1, h2⟩, hn⟩
          simp at hn; subst hn
          refine ⟨?_, by cases t <;> simpa [optOwned, Obj.owned] using h2⟩
          cases t <;> simp [news, optFoot, EP.foot, Obj.foot] at h1 ⊢ <;> perm_omega [h1])
      (fun _ _ => by unfold wlp; split <;> simp [EPle]) (none, {}, none) f
    exact wp_mono this (fun a s' h => by simpa [Env.putEP, Env.set, setAll] using h)
  · rename_i k
    split
    · rename_i tl hg
      obtain ⟨hkl, hks⟩ := get_spec hg
      have hne : k ≠ d := by intro h; subst h; simp [hks] at hds
      simp only [wp_bind]
      have := step_generic hinv none [k, d] none (ep_none env [k, d]) [k, d] (by simp [hdl, hkl]) (by simp [hne])
        (fun a : Option ThreadO × LibO × Option TlsO => [(k, some (.tls (a.2.2.getD tl))), (d, a.1.map Obj.thread)])
        (fun _ => rfl) (fun a => a.2.1) (fun _ => none) (threadRun env.lib (some tl) body) []
        (by
          intro n _ j hj
          simp at hj
          rcases hj with rfl | rfl
          · simp [hks, optOwned, Obj.owned]
          · simp [hds, optOwned])
        (by
          have h := (threadRun_spec env.lib (some tl) body).toG [] (fun _ => []) (by simp)
          have hsh := threadRun_shape env.lib (some tl) body
          intro f s fr hs
          refine wp_mono (wp_and_always (h f s fr ?_) hsh) ?_
          · simp [oldsIdx_two hks hds, optFoot, EP.foot, Obj.foot] at hs ⊢; perm_omega [hs]
          · rintro ⟨t, l, tl'⟩ s' ⟨⟨h1, h2⟩, hn⟩
            rcases tl' with _ | tl'
            · simp at hn
            · refine ⟨?_, by cases t <;> simpa [optOwned, Obj.owned] using h2⟩
              cases t <;> simp [news, optFoot, EP.foot, Obj.foot] at h1 ⊢ <;> perm_omega [h1])
        (fun _ _ => by unfold wlp; split <;> simp [EPle]) (none, {}, none) f
      exact wp_mono this (fun a s' h => by simpa [Env.putEP, Env.set, setAll] using h)
    · exact skip_inv hinv f

theorem step_inv (c : Call) {env : Env} {s : St} (hinv : Inv env s) (f : Nat → Bool) :
    wp (step c env) f s (fun r s' => Inv r.2 s') := by
  unfold step
  split
  · -- lib_init
    have := step_lib hinv (do let l ← libInit env.lib; return ('S', l)) (by
      intro f s fr h
      simp only [wp_bind, wp_pure]
      exact libInit_spec env.lib f s fr h) f
    simpa using this
  · -- lib_shutdown
    have := step_lib hinv (do let l ← libShutdown env.lib; return ('S', l)) (by
      intro f s fr h
      simp only [wp_bind, wp_pure]
      exact libShutdown_spec env.lib f s fr h) f
    simpa using this
  · -- sysfail
    simp only [wp_bind, wp_arm, wp_pure]
    exact hinv
  · split
    · exact skip_inv hinv f
    · split
      · exact stepCtor_inv hinv _ _ _ f
      · exact stepMut_inv hinv _ _ _ _ f
      · exact stepDerive_inv hinv _ _ _ _ f
      · exact stepConnect_inv hinv _ _ _ f
      · exact stepDtor_inv hinv _ _ f
      · exact step_lib hinv _ (curThread_spec env.lib) f
      · simp only [wp_bind, wp_pure]
        have := strtod_spec f s (env.lib.foot ++ footL env.slots) (by simpa using hinv.1)
        refine wp_mono this ?_
        intro c s' ⟨h1, h2⟩
        exact ⟨by simpa using h1, by rw [h2]; exact hinv.2⟩
      · exact stepSetErr_inv hinv _ _ f
      · exact stepSetErr_inv hinv _ _ f
      · exact stepSetErr_inv hinv _ _ f
      · exact stepThread_inv hinv _ _ _ f
      · unfold stepLockCycle; split <;> simpa [skip] using hinv
      · exact skip_inv hinv f

end PV.Res

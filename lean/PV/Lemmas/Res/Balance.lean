import PV.Lemmas.Res.Seq
/-! # C18 — a static check that a call sequence frees everything it obtains

`balancedB cs` follows, slot by slot, which *type* of object a slot may hold (`none`: certainly empty) through the
calls `cs`; it accepts when every constructor goes to a certainly empty slot, every error slot holds nothing
but an error, and at the end every slot is certainly empty and the library is shut down.  The check is sound for
every failure predicate (`balanced_sound`): whatever fails, a destructor call finds either the object of the
expected type or an empty slot. -/
namespace PV.Res
open List

def CtorK.ty : CtorK → Ty
  | .strdup | .ipcKey _ | .ipcTmpdir | .loaderErr => .str
  | .listNew => .list | .treeNew => .tree | .htNew => .ht | .errNew | .errNewLiteral => .err
  | .iniNew _ => .ini | .hashNew => .hash | .dirNew _ => .dir | .saNew _ => .saddr
  | .sockNew _ | .sockFromFd => .sock | .semNew _ _ => .sem | .shmNew _ _ => .shm | .shmbufNew _ _ => .shmbuf
  | .oneNew k => .one k | .rwgNew => .rwg | .tlsNew => .tls | .loaderNew _ => .loader | .mmapNew _ => .mmap

def DeriveK.ty : DeriveK → Ty
  | .htKeys | .htValues | .htLbv _ => .list
  | .errCopy => .err
  | .iniSections | .iniKeys _ | .iniList _ _ => .slist
  | .iniString _ _ | .hashString | .dirPath | .saAddr => .str
  | .dirNext => .dirent
  | .sockAccept => .sock
  | .sockLocal | .sockRemote | .sockUdpEcho => .saddr

/-- value facts are carried through binds syntactically -/
macro "val_tac" : tactic => `(tactic| repeat (first
  | (apply Always.pure; simp [ret1, Obj.ty, CtorK.ty, DeriveK.ty]; done)
  | (apply Always.pure; intro o ho; simp [ret1, Option.map] at ho; (try split at ho) <;> simp_all [Obj.ty, CtorK.ty, DeriveK.ty]; done)
  | (apply Always.pure; intro o ho; simp only [Option.map_eq_some_iff] at ho; obtain ⟨_, _, rfl⟩ := ho; rfl)
  | (apply Always.bind; intro _)
  | apply Always.ite
  | split))

theorem ctorRun_ty (k : CtorK) (e : EP) : Always (ctorRun k e) (fun r => ∀ o, r.2.1 = some o → o.ty = k.ty) := by
  cases k <;> simp only [ctorRun]
  case mmapNew len =>
    apply Always.bind; rintro ⟨r, e'⟩
    apply Always.pure
    intro o ho
    cases r <;> simp at ho
    subst ho; rfl
  all_goals val_tac

theorem mutRun_ty (k : MutK) (o : Obj) (e : EP) (m : ResM (Char × Option Obj × EP)) (hm : mutRun k o e = some m) :
    Always m (fun r => ∀ o', r.2.1 = some o' → o'.ty = o.ty) := by
  cases k <;> cases o <;> simp only [mutRun, Option.some.injEq, reduceCtorEq] at hm
  case sockListen.sock x => split at hm <;> simp only [Option.some.injEq, reduceCtorEq] at hm; subst hm; val_tac
  case sockConnectRefused.sock x => split at hm <;> simp only [Option.some.injEq, reduceCtorEq] at hm; subst hm; val_tac
  case sockIoClosed.sock x => split at hm <;> simp only [Option.some.injEq, reduceCtorEq] at hm; subst hm; val_tac
  all_goals (subst hm; val_tac)

theorem deriveRun_ty (k : DeriveK) (o : Obj) (e : EP) (m : ResM (Char × Obj × Option Obj × EP))
    (hm : deriveRun k o e = some m) :
    Always m (fun r => r.2.1.ty = o.ty ∧ ∀ n, r.2.2.1 = some n → n.ty = k.ty) := by
  cases k <;> cases o <;> simp only [deriveRun, Option.some.injEq, reduceCtorEq] at hm
  case sockAccept.sock x => split at hm <;> simp only [Option.some.injEq, reduceCtorEq] at hm; subst hm; val_tac
  case sockUdpEcho.sock x => split at hm <;> simp only [Option.some.injEq, reduceCtorEq] at hm; subst hm; val_tac
  all_goals (subst hm; val_tac)

/-! ## the abstract environment -/
structure AEnv where
  inited : Bool := false
  slots : List (Option Ty) := List.replicate NSLOT none     -- `none`: certainly empty; `some T`: empty or holds a `T`
  deriving DecidableEq

def AEnv.errOk (a : AEnv) (e : Option Nat) (excl : List Nat) : Bool :=
  match e with
  | none => true
  | some i => decide (i < a.slots.length) && !(excl.contains i) &&
      (a.slots[i]? == some none || a.slots[i]? == some (some Ty.err))

def AEnv.putErr (a : AEnv) (e : Option Nat) : AEnv :=
  match e with
  | none => a
  | some i => { a with slots := a.slots.set i (some .err) }

def absStep (c : Call) (a : AEnv) : Option AEnv :=
  match c with
  | .glob .libInit _ => some { a with inited := true }
  | .glob .libShutdown _ => some { a with inited := false }
  | .glob (.sysfail _) _ => some a
  | c =>
    if !a.inited then some a else
    match c with
    | .ctor k d e =>
      if a.slots[d]? == some none && a.errOk e [d] then some (({ a with slots := a.slots.set d (some k.ty) }).putErr e) else none
    | .mut _ _ d e => if a.errOk e [d] then some (a.putErr e) else none
    | .derive k s d e =>
      if a.slots[d]? == some none && a.errOk e [d, s] then some (({ a with slots := a.slots.set d (some k.ty) }).putErr e) else none
    | .connect d srv e => if a.errOk e [d, srv] then some (a.putErr e) else none
    | .dtor ty d =>
      if a.slots[d]? == some (some ty) || a.slots[d]? == some none then some { a with slots := a.slots.set d none } else some a
    | .glob .curThread _ | .glob .strtod _ => some a
    | .glob _ e => if a.errOk e [] then some (a.putErr e) else none
    | .threadRun d _ _ =>
      if a.slots[d]? == some none then some { a with slots := a.slots.set d (some .thread) } else none
    | .lockCycle _ => some a

def absRun : List Call → AEnv → Option AEnv
  | [], a => some a
  | c :: cs, a => (absStep c a).bind (absRun cs)

/-- the static check: starting with nothing, the sequence ends with every slot certainly empty and the
    library shut down -/
def balancedB (cs : List Call) : Bool :=
  match absRun cs {} with
  | some a => !a.inited && a.slots.all (· == none)
  | none => false

/-- the abstract environment describes the concrete one -/
def Desc (a : AEnv) (env : Env) : Prop :=
  env.lib.inited = a.inited ∧ (a.inited = false → env.lib.foot = []) ∧ env.slots.length = a.slots.length ∧
  ∀ (i : Nat) (o : Obj), env.slots[i]? = some (some o) → a.slots[i]? = some (some o.ty)

theorem Desc_init : Desc {} {} := by
  refine ⟨rfl, fun _ => by simp [LibO.foot, optTls, ob], by simp, ?_⟩
  intro i o h
  simp [List.getElem?_replicate] at h

theorem Desc_neutral {a : AEnv} {env : Env} (h : Desc a env) (hi : a.inited = false) (hs : a.slots.all (· == none) = true) :
    env.neutral := by
  refine ⟨h.2.1 hi, ?_⟩
  intro o ho
  rcases o with _ | o
  · rfl
  · obtain ⟨i, hi'⟩ := List.getElem?_of_mem ho
    have := h.2.2.2 i o hi'
    have hm := List.mem_of_getElem? this
    simp [List.all_eq_true] at hs
    exact absurd (hs _ hm) (by simp)

/-! ## soundness of the abstract steps -/
def DescS (as : List (Option Ty)) (cs : List (Option Obj)) : Prop :=
  cs.length = as.length ∧ ∀ (i : Nat) (o : Obj), cs[i]? = some (some o) → as[i]? = some (some o.ty)

theorem DescS_set {as : List (Option Ty)} {cs : List (Option Obj)} (h : DescS as cs) (i : Nat) (x : Option Obj)
    (t : Option Ty) (hx : ∀ o, x = some o → t = some o.ty) : DescS (as.set i t) (cs.set i x) := by
  refine ⟨by simp [h.1], ?_⟩
  intro j o hj
  rw [List.getElem?_set] at hj ⊢
  split at hj
  · rename_i hij
    subst hij
    split at hj
    · rename_i hlt
      simp at hj
      simp [← h.1, hlt, hx o hj]
    · simp at hj
  · rename_i hij
    simp [hij]
    exact h.2 j o hj

theorem DescS_weaken {as : List (Option Ty)} {cs : List (Option Obj)} (h : DescS as cs) (i : Nat) (t : Option Ty)
    (hw : ∀ o, cs[i]? = some (some o) → t = some o.ty) : DescS (as.set i t) cs := by
  refine ⟨by simp [h.1], ?_⟩
  intro j o hj
  rw [List.getElem?_set]
  split
  · rename_i hij
    subst hij
    have hlt : i < as.length := by
      rw [← h.1]; exact (List.getElem?_eq_some_iff.1 hj).1
    simp [hlt, hw o hj]
  · exact h.2 j o hj

theorem errOk_spec {a : AEnv} {e : Option Nat} {excl : List Nat} (h : a.errOk e excl = true) (i : Nat) (he : e = some i) :
    i < a.slots.length ∧ i ∉ excl ∧ (a.slots[i]? = some none ∨ a.slots[i]? = some (some Ty.err)) := by
  subst he
  simp only [AEnv.errOk, Bool.and_eq_true, decide_eq_true_eq, Bool.not_eq_eq_eq_not, Bool.not_true,
    Bool.or_eq_true, beq_iff_eq] at h
  refine ⟨h.1.1, ?_, h.2⟩
  have := h.1.2
  simpa using this

/-- writing the error pointer back is described by `putErr` -/
theorem DescS_putEP {a : AEnv} {cs : List (Option Obj)} (h : DescS a.slots cs) (e : Option Nat) (excl : List Nat)
    (hok : a.errOk e excl = true) (lib : LibO) (ep' : EP) :
    DescS (a.putErr e).slots ((Env.mk lib cs).putEP e ep').slots := by
  rcases e with _ | i
  · simpa [AEnv.putErr, Env.putEP] using h
  · obtain ⟨hlt, _, hs⟩ := errOk_spec hok i rfl
    rcases ep' with _ | _ | eo
    · simp only [AEnv.putErr, Env.putEP]
      apply DescS_weaken h
      intro o ho
      have := h.2 i o ho
      rcases hs with hs | hs <;> simp [hs] at this
      simp [this]
    · simp only [AEnv.putErr, Env.putEP]
      apply DescS_weaken h
      intro o ho
      have := h.2 i o ho
      rcases hs with hs | hs <;> simp [hs] at this
      simp [this]
    · simp only [AEnv.putErr, Env.putEP, Env.set]
      exact DescS_set h i _ _ (by intro o ho; cases ho; rfl)

theorem Desc_of {a : AEnv} {env : Env} {a' : AEnv} {env' : Env} (h : Desc a env) (hl : env'.lib = env.lib)
    (hi : a'.inited = a.inited) (hs : DescS a'.slots env'.slots) : Desc a' env' :=
  ⟨by rw [hl, hi]; exact h.1, by rw [hl, hi]; exact h.2.1, hs.1, hs.2⟩

theorem Desc.slots {a : AEnv} {env : Env} (h : Desc a env) : DescS a.slots env.slots := ⟨h.2.2.1, h.2.2.2⟩

theorem putEP_lib' (env : Env) (e : Option Nat) (ep' : EP) : (env.putEP e ep').lib = env.lib := by
  unfold Env.putEP; split <;> rfl

theorem certainly_empty {a : AEnv} {env : Env} (h : Desc a env) {d : Nat} (hd : a.slots[d]? = some none) :
    ∀ o, env.slots[d]? = some (some o) → False := by
  intro o ho
  have := h.2.2.2 d o ho
  simp [hd] at this

theorem putEP_none (env : Env) (e : Option Nat) : env.putEP e none = env := by
  unfold Env.putEP; split <;> simp_all

theorem stepCtor_desc {a : AEnv} {env : Env} (h : Desc a env) (k : CtorK) (d : Nat) (e : Option Nat)
    (hd : a.slots[d]? = some none) (hok : a.errOk e [d] = true) :
    Always (stepCtor env k d e) (fun r => Desc (({ a with slots := a.slots.set d (some k.ty) }).putErr e) r.2) := by
  have hskip : Desc (({ a with slots := a.slots.set d (some k.ty) }).putErr e) env := by
    have h1 : DescS (a.slots.set d (some k.ty)) env.slots :=
      DescS_weaken h.slots d _ (fun o ho => (certainly_empty h hd o ho).elim)
    have hok' : ({ a with slots := a.slots.set d (some k.ty) } : AEnv).errOk e [d] = true := by
      rcases e with _ | i
      · rfl
      · obtain ⟨hlt, hx, hs⟩ := errOk_spec hok i rfl
        have hne : d ≠ i := by intro hh; subst hh; simp at hx
        simp only [AEnv.errOk, List.length_set, hlt, decide_true, Bool.true_and, List.getElem?_set_ne hne]
        simpa [AEnv.errOk, hlt] using hok
    have := DescS_putEP (a := { a with slots := a.slots.set d (some k.ty) }) h1 e [d] hok' env.lib none
    rw [putEP_none] at this
    exact Desc_of h rfl (by rcases e with _ | i <;> rfl) this
  have sk : Always (pure ('-', env) : ResM (Char × Env))
      (fun r => Desc (({ a with slots := a.slots.set d (some k.ty) }).putErr e) r.2) := Always.pure hskip
  unfold stepCtor skip
  apply Always.ite sk
  apply Always.ite sk
  split
  · exact sk
  · rename_i ep hep
    apply Always.bind' (ctorRun_ty k ep)
    rintro ⟨cls, o, ep'⟩ hty
    apply Always.pure
    have h1 : DescS (a.slots.set d (some k.ty)) (env.slots.set d o) :=
      DescS_set h.slots d o _ (fun o' ho' => by rw [hty o' ho'])
    have hok' : ({ a with slots := a.slots.set d (some k.ty) } : AEnv).errOk e [d] = true := by
      rcases e with _ | i
      · rfl
      · obtain ⟨hlt, hx, hs⟩ := errOk_spec hok i rfl
        have hne : d ≠ i := by intro hh; subst hh; simp at hx
        simp only [AEnv.errOk, List.length_set, hlt, decide_true, Bool.true_and, List.getElem?_set_ne hne]
        simpa [AEnv.errOk, hlt] using hok
    have := DescS_putEP (a := { a with slots := a.slots.set d (some k.ty) }) h1 e [d] hok' env.lib ep'
    exact Desc_of h (by simp [putEP_lib', Env.set]) (by rcases e with _ | i <;> rfl) (by simpa [Env.set] using this)

theorem set_same {α : Type} {l : List α} {i : Nat} {x : α} (h : l[i]? = some x) : l.set i x = l := by
  apply List.ext_getElem?
  intro j
  rw [List.getElem?_set]
  split
  · rename_i hij
    subst hij
    obtain ⟨hlt, hget⟩ := List.getElem?_eq_some_iff.1 h
    simp [hlt, hget]
  · rfl

/-- weakening only the error slot describes the unchanged environment -/
theorem Desc_putErr_same {a : AEnv} {env : Env} (h : Desc a env) (e : Option Nat) (excl : List Nat)
    (hok : a.errOk e excl = true) : Desc (a.putErr e) env := by
  have := DescS_putEP h.slots e excl hok env.lib none
  rw [putEP_none] at this
  exact Desc_of h rfl (by rcases e with _ | i <;> rfl) this

theorem stepMut_desc {a : AEnv} {env : Env} (h : Desc a env) (k : MutK) (ty : Ty) (d : Nat) (e : Option Nat)
    (hok : a.errOk e [d] = true) : Always (stepMut env k ty d e) (fun r => Desc (a.putErr e) r.2) := by
  have sk : Always (pure ('-', env) : ResM (Char × Env)) (fun r => Desc (a.putErr e) r.2) :=
    Always.pure (Desc_putErr_same h e [d] hok)
  unfold stepMut skip
  split
  · rename_i o ep hg hep
    apply Always.ite sk
    split
    · exact sk
    · rename_i m hm
      apply Always.bind' (mutRun_ty k o ep m hm)
      rintro ⟨cls, o', ep'⟩ hty
      apply Always.pure
      obtain ⟨hdl, hds⟩ := get_spec hg
      have hd : a.slots[d]? = some (some o.ty) := h.2.2.2 d o hds
      have h1 : DescS a.slots (env.slots.set d o') := by
        have := DescS_set h.slots d o' (some o.ty) (fun x hx => by rw [hty x hx])
        rwa [set_same hd] at this
      have := DescS_putEP h1 e [d] hok env.lib ep'
      exact Desc_of h (by simp [putEP_lib', Env.set]) (by rcases e with _ | i <;> rfl) (by simpa [Env.set] using this)
  · exact sk

theorem stepDerive_desc {a : AEnv} {env : Env} (h : Desc a env) (k : DeriveK) (src d : Nat) (e : Option Nat)
    (hd : a.slots[d]? = some none) (hok : a.errOk e [d, src] = true) :
    Always (stepDerive env k src d e) (fun r => Desc (({ a with slots := a.slots.set d (some k.ty) }).putErr e) r.2) := by
  have hok' : ({ a with slots := a.slots.set d (some k.ty) } : AEnv).errOk e [d, src] = true := by
    rcases e with _ | i
    · rfl
    · obtain ⟨hlt, hx, hs⟩ := errOk_spec hok i rfl
      have hne : d ≠ i := by intro hh; subst hh; simp at hx
      simp only [AEnv.errOk, List.length_set, hlt, decide_true, Bool.true_and, List.getElem?_set_ne hne]
      simpa [AEnv.errOk, hlt] using hok
  have hskip : Desc (({ a with slots := a.slots.set d (some k.ty) }).putErr e) env := by
    have h1 : DescS (a.slots.set d (some k.ty)) env.slots :=
      DescS_weaken h.slots d _ (fun o ho => (certainly_empty h hd o ho).elim)
    have := DescS_putEP (a := { a with slots := a.slots.set d (some k.ty) }) h1 e [d, src] hok' env.lib none
    rw [putEP_none] at this
    exact Desc_of h rfl (by rcases e with _ | i <;> rfl) this
  have sk : Always (pure ('-', env) : ResM (Char × Env))
      (fun r => Desc (({ a with slots := a.slots.set d (some k.ty) }).putErr e) r.2) := Always.pure hskip
  unfold stepDerive skip
  split
  · rename_i o ep hg hep
    apply Always.ite sk
    split
    · exact sk
    · rename_i m hm
      apply Always.bind' (deriveRun_ty k o ep m hm)
      rintro ⟨cls, o', n, ep'⟩ ⟨hty1, hty2⟩
      apply Always.pure
      obtain ⟨hsl, hss⟩ := get_spec hg
      have hs : a.slots[src]? = some (some o.ty) := h.2.2.2 src o hss
      have h0 : DescS a.slots (env.slots.set src (some o')) := by
        have := DescS_set h.slots src (some o') (some o.ty) (fun x hx => by cases hx; rw [hty1])
        rwa [set_same hs] at this
      have h1 : DescS (a.slots.set d (some k.ty)) ((env.slots.set src (some o')).set d n) :=
        DescS_set h0 d n _ (fun x hx => by rw [hty2 x hx])
      have := DescS_putEP (a := { a with slots := a.slots.set d (some k.ty) }) h1 e [d, src] hok' env.lib ep'
      exact Desc_of h (by simp [putEP_lib', Env.set]) (by rcases e with _ | i <;> rfl) (by simpa [Env.set] using this)
  · exact sk

theorem stepConnect_desc {a : AEnv} {env : Env} (h : Desc a env) (d srv : Nat) (e : Option Nat)
    (hok : a.errOk e [d, srv] = true) : Always (stepConnect env d srv e) (fun r => Desc (a.putErr e) r.2) := by
  have sk : Always (pure ('-', env) : ResM (Char × Env)) (fun r => Desc (a.putErr e) r.2) :=
    Always.pure (Desc_putErr_same h e [d, srv] hok)
  unfold stepConnect skip
  split
  · rename_i x sv ep hgd hgs hep
    apply Always.ite sk
    apply Always.bind; rintro ⟨cls, x', sv', ep'⟩
    apply Always.pure
    obtain ⟨hdl, hds⟩ := get_spec hgd
    obtain ⟨hsl, hss⟩ := get_spec hgs
    have hd : a.slots[d]? = some (some Ty.sock) := h.2.2.2 d _ hds
    have hs : a.slots[srv]? = some (some Ty.sock) := h.2.2.2 srv _ hss
    have h0 : DescS a.slots (env.slots.set d (some (.sock x'))) := by
      have := DescS_set h.slots d (some (.sock x')) (some Ty.sock) (fun o ho => by cases ho; rfl)
      rwa [set_same hd] at this
    have h1 : DescS a.slots ((env.slots.set d (some (.sock x'))).set srv (some (.sock sv'))) := by
      have := DescS_set h0 srv (some (.sock sv')) (some Ty.sock) (fun o ho => by cases ho; rfl)
      rwa [set_same hs] at this
    have := DescS_putEP h1 e [d, srv] hok env.lib ep'
    exact Desc_of h (by simp [putEP_lib', Env.set]) (by rcases e with _ | i <;> rfl) (by simpa [Env.set] using this)
  · exact sk

theorem stepDtor_desc {a : AEnv} {env : Env} (h : Desc a env) (ty : Ty) (d : Nat) :
    Always (stepDtor env ty d)
      (fun r => Desc (if a.slots[d]? == some (some ty) || a.slots[d]? == some none
        then { a with slots := a.slots.set d none } else a) r.2) := by
  unfold stepDtor skip
  split
  · rename_i o hg
    obtain ⟨hdl, hds⟩ := get_spec hg
    have hd : a.slots[d]? = some (some o.ty) := h.2.2.2 d o hds
    split
    · -- another type than the destructor's: skipped, the slot keeps its object
      rename_i hne
      apply Always.pure
      have : (a.slots[d]? == some (some ty) || a.slots[d]? == some none) = false := by
        simp [hd]; exact hne
      simp only [this]
      exact h
    · rename_i heq
      apply Always.bind; intro _
      apply Always.pure
      have hty : o.ty = ty := by simpa using heq
      simp only [hd, hty, beq_self_eq_true, Bool.true_or, ↓reduceIte]
      exact Desc_of h rfl rfl (DescS_set h.slots d none none (by simp))
  · rename_i hg
    apply Always.pure
    split
    · -- the slot was empty already
      refine Desc_of h rfl rfl (DescS_weaken h.slots d none ?_)
      intro o ho
      simp [Env.get, ho] at hg
    · exact h

theorem stepSetErr_desc {a : AEnv} {env : Env} (h : Desc a env) (e : Option Nat) (v : Bool) (hok : a.errOk e [] = true) :
    Always (stepSetErr env e v) (fun r => Desc (a.putErr e) r.2) := by
  unfold stepSetErr skip
  split
  · exact Always.pure (Desc_putErr_same h e [] hok)
  · apply Always.bind; intro ep'
    apply Always.pure
    have := DescS_putEP h.slots e [] hok env.lib ep'
    exact Desc_of h (by simp [putEP_lib']) (by rcases e with _ | i <;> rfl) this

theorem threadRun_inited (l : LibO) (t : Option TlsO) (b : ThrOpt) :
    Always (threadRun l t b) (fun r => r.2.1.inited = l.inited) := by
  unfold threadRun
  apply Always.bind; intro a
  split
  · apply Always.bind; intro ok
    split
    · apply Always.bind; intro _; exact Always.pure rfl
    · repeat (apply Always.bind; intro _)
      exact Always.pure rfl
  · exact Always.pure rfl

theorem stepThread_desc {a : AEnv} {env : Env} (h : Desc a env) (d : Nat) (body : ThrOpt) (key : Option Nat)
    (hd : a.slots[d]? = some none) (hin : a.inited = true) :
    Always (stepThread env d body key) (fun r => Desc { a with slots := a.slots.set d (some .thread) } r.2) := by
  have hskip : Desc { a with slots := a.slots.set d (some .thread) } env :=
    Desc_of h rfl rfl (DescS_weaken h.slots d _ (fun o ho => (certainly_empty h hd o ho).elim))
  have sk : Always (pure ('-', env) : ResM (Char × Env))
      (fun r => Desc { a with slots := a.slots.set d (some .thread) } r.2) := Always.pure hskip
  have libok : ∀ (l : LibO) (cs : List (Option Obj)), l.inited = env.lib.inited →
      DescS (a.slots.set d (some .thread)) cs → Desc { a with slots := a.slots.set d (some .thread) } ⟨l, cs⟩ := by
    intro l cs hl hs
    exact ⟨by simp [hl, h.1], by intro hf; simp [hin] at hf, hs.1, hs.2⟩
  unfold stepThread skip
  apply Always.ite sk
  split
  · apply Always.bind' (threadRun_inited env.lib none body)
    rintro ⟨t, l, tl⟩ hl
    apply Always.pure
    exact libok _ _ hl (DescS_set h.slots d _ _ (fun o ho => by cases t <;> simp at ho; subst ho; rfl))
  · rename_i k
    split
    · rename_i tl hg
      obtain ⟨hkl, hks⟩ := get_spec hg
      have hk : a.slots[k]? = some (some Ty.tls) := h.2.2.2 k _ hks
      apply Always.bind' (threadRun_inited env.lib (some tl) body)
      rintro ⟨t, l, tl'⟩ hl
      apply Always.pure
      have h0 : DescS a.slots (env.slots.set k (some (.tls (tl'.getD tl)))) := by
        have := DescS_set h.slots k (some (.tls (tl'.getD tl))) (some Ty.tls) (fun o ho => by cases ho; rfl)
        rwa [set_same hk] at this
      exact libok _ _ hl (DescS_set h0 d _ _ (fun o ho => by cases t <;> simp at ho; subst ho; rfl))
    · exact sk

theorem libInit_inited (l : LibO) : Always (libInit l) (fun r => r.inited = true) := by
  rcases l with ⟨i, t, sp⟩
  cases i
  · cases t <;> cases sp <;> simp only [libInit, Bool.false_eq_true, ↓reduceIte] <;>
      repeat (first | exact Always.pure rfl | (apply Always.bind; intro _))
  · simp only [libInit, ↓reduceIte]; exact Always.pure rfl

theorem libShutdown_shape (l : LibO) : Always (libShutdown l) (fun r => r = l ∧ l.inited = false ∨ r = {}) := by
  unfold libShutdown
  split
  · rename_i h; exact Always.pure (Or.inl ⟨rfl, by simpa using h⟩)
  · repeat (first | exact Always.pure (Or.inr rfl) | (apply Always.bind; intro _) | split)

theorem curThread_inited (l : LibO) : Always (curThread l) (fun r => r.2.inited = l.inited) := by
  unfold curThread
  repeat (first | exact Always.pure rfl | (apply Always.bind; intro _) | apply Always.ite | split)

/-- when the library is not initialised everything but init / shutdown / sysfail is skipped -/
theorem not_inited_skip {a : AEnv} {env : Env} (h : Desc a env) (hni : a.inited = false) :
    env.lib.inited = false := by rw [h.1]; exact hni

/-- **soundness of one abstract step** -/
theorem absStep_sound (c : Call) {a a' : AEnv} {env : Env} (h : Desc a env) (hs : absStep c a = some a') :
    Always (step c env) (fun r => Desc a' r.2) := by
  have skA : Always (skip env) (fun r => Desc a r.2) := by
    unfold skip; exact (Always.pure h : Always (pure ('-', env) : ResM (Char × Env)) (fun r => Desc a r.2))
  cases hi : a.inited
  · -- not initialised
    have hle := not_inited_skip h hi
    cases c with
    | glob k e =>
      cases k with
      | libInit =>
        simp only [absStep] at hs; cases hs
        simp only [step]
        apply Always.bind' (libInit_inited env.lib); intro l hl
        exact Always.pure ⟨hl, by simp, h.2.2.1, h.2.2.2⟩
      | libShutdown =>
        simp only [absStep] at hs; cases hs
        simp only [step]
        apply Always.bind' (libShutdown_shape env.lib); intro l hl
        apply Always.pure
        rcases hl with ⟨rfl, hf⟩ | rfl
        · exact ⟨hf, fun _ => h.2.1 hi, h.2.2.1, h.2.2.2⟩
        · exact ⟨rfl, fun _ => by simp [LibO.foot, optTls, ob], h.2.2.1, h.2.2.2⟩
      | sysfail nm =>
        simp only [absStep] at hs; cases hs
        simp only [step]
        apply Always.bind; intro _
        exact Always.pure h
      | _ =>
        simp only [absStep, hi, Bool.not_false, ↓reduceIte, Option.some.injEq] at hs; subst hs
        simp only [step, hle, Bool.not_false, ↓reduceIte]
        exact skA
    | _ =>
      simp only [absStep, hi, Bool.not_false, ↓reduceIte, Option.some.injEq] at hs; subst hs
      simp only [step, hle, Bool.not_false, ↓reduceIte]
      exact skA
  · -- initialised
    have hle : env.lib.inited = true := by rw [h.1]; exact hi
    cases c with
    | ctor k d e =>
      simp only [absStep, hi, Bool.not_true, Bool.false_eq_true, ↓reduceIte] at hs
      simp only [step, hle, Bool.not_true, Bool.false_eq_true, ↓reduceIte]
      split at hs
      · rename_i hc; cases hs
        simp only [Bool.and_eq_true, beq_iff_eq] at hc
        have := stepCtor_desc h k d e hc.1 hc.2
        simpa [hi] using this
      · cases hs
    | «mut» k ty d e =>
      simp only [absStep, hi, Bool.not_true, Bool.false_eq_true, ↓reduceIte] at hs
      simp only [step, hle, Bool.not_true, Bool.false_eq_true, ↓reduceIte]
      split at hs
      · rename_i hc; cases hs; exact stepMut_desc h k ty d e hc
      · cases hs
    | derive k src d e =>
      simp only [absStep, hi, Bool.not_true, Bool.false_eq_true, ↓reduceIte] at hs
      simp only [step, hle, Bool.not_true, Bool.false_eq_true, ↓reduceIte]
      split at hs
      · rename_i hc; cases hs
        simp only [Bool.and_eq_true, beq_iff_eq] at hc
        have := stepDerive_desc h k src d e hc.1 hc.2
        simpa [hi] using this
      · cases hs
    | connect d srv e =>
      simp only [absStep, hi, Bool.not_true, Bool.false_eq_true, ↓reduceIte] at hs
      simp only [step, hle, Bool.not_true, Bool.false_eq_true, ↓reduceIte]
      split at hs
      · rename_i hc; cases hs; exact stepConnect_desc h _ _ _ hc
      · cases hs
    | dtor ty d =>
      simp only [absStep, hi, Bool.not_true, Bool.false_eq_true, ↓reduceIte] at hs
      simp only [step, hle, Bool.not_true, Bool.false_eq_true, ↓reduceIte]
      have := stepDtor_desc h ty d
      split at hs <;> cases hs <;> simp_all
    | threadRun d body key =>
      simp only [absStep, hi, Bool.not_true, Bool.false_eq_true, ↓reduceIte] at hs
      simp only [step, hle, Bool.not_true, Bool.false_eq_true, ↓reduceIte]
      split at hs
      · rename_i hc; cases hs
        have := stepThread_desc h d body key (by simpa using hc) hi
        simpa [hi] using this
      · cases hs
    | lockCycle d =>
      simp only [absStep, hi, Bool.not_true, Bool.false_eq_true, ↓reduceIte, Option.some.injEq] at hs; subst hs
      simp only [step, hle, Bool.not_true, Bool.false_eq_true, ↓reduceIte]
      unfold stepLockCycle
      split
      · exact (Always.pure h : Always (pure (_, env) : ResM (Char × Env)) (fun r => Desc a r.2))
      · exact skA
    | glob k e =>
      cases k with
      | libInit =>
        simp only [absStep] at hs; cases hs
        simp only [step]
        apply Always.bind' (libInit_inited env.lib); intro l hl
        exact Always.pure ⟨hl, by simp, h.2.2.1, h.2.2.2⟩
      | libShutdown =>
        simp only [absStep] at hs; cases hs
        simp only [step]
        apply Always.bind' (libShutdown_shape env.lib); intro l hl
        apply Always.pure
        rcases hl with ⟨rfl, hf⟩ | rfl
        · rw [hle] at hf; cases hf
        · exact ⟨rfl, fun _ => by simp [LibO.foot, optTls, ob], h.2.2.1, h.2.2.2⟩
      | sysfail nm =>
        simp only [absStep] at hs; cases hs
        simp only [step]
        apply Always.bind; intro _
        exact Always.pure h
      | curThread =>
        simp only [absStep, hi, Bool.not_true, Bool.false_eq_true, ↓reduceIte, Option.some.injEq] at hs; subst hs
        simp only [step, hle, Bool.not_true, Bool.false_eq_true, ↓reduceIte]
        apply Always.bind' (curThread_inited env.lib); rintro ⟨cls, l⟩ hl
        exact Always.pure ⟨by rw [← h.1]; exact hl, by intro hf; simp [hi] at hf, h.2.2.1, h.2.2.2⟩
      | strtod =>
        simp only [absStep, hi, Bool.not_true, Bool.false_eq_true, ↓reduceIte, Option.some.injEq] at hs; subst hs
        simp only [step, hle, Bool.not_true, Bool.false_eq_true, ↓reduceIte]
        apply Always.bind; intro _
        exact Always.pure h
      | fileRemoveMissing =>
        simp only [absStep, hi, Bool.not_true, Bool.false_eq_true, ↓reduceIte] at hs
        simp only [step, hle, Bool.not_true, Bool.false_eq_true, ↓reduceIte]
        split at hs
        · rename_i hc; cases hs; exact stepSetErr_desc h _ _ hc
        · cases hs
      | sockBad =>
        simp only [absStep, hi, Bool.not_true, Bool.false_eq_true, ↓reduceIte] at hs
        simp only [step, hle, Bool.not_true, Bool.false_eq_true, ↓reduceIte]
        split at hs
        · rename_i hc; cases hs; exact stepSetErr_desc h _ _ hc
        · cases hs
      | errSetP =>
        simp only [absStep, hi, Bool.not_true, Bool.false_eq_true, ↓reduceIte] at hs
        simp only [step, hle, Bool.not_true, Bool.false_eq_true, ↓reduceIte]
        split at hs
        · rename_i hc; cases hs; exact stepSetErr_desc h _ _ hc
        · cases hs

theorem absRun_sound (cs : List Call) {a a' : AEnv} {env : Env} (h : Desc a env) (hs : absRun cs a = some a') :
    Always (runCalls cs env) (fun r => Desc a' r.2) := by
  induction cs generalizing a env with
  | nil =>
    simp only [absRun, Option.some.injEq] at hs; subst hs
    exact (Always.pure h : Always (pure ([], env) : ResM (List Char × Env)) (fun r => Desc a r.2))
  | cons c cs ih =>
    simp only [absRun] at hs
    cases h1 : absStep c a with
    | none => simp [h1] at hs
    | some a1 =>
      simp only [h1, Option.bind_some] at hs
      unfold runCalls
      apply Always.bind' (absStep_sound c h h1)
      rintro ⟨r, env1⟩ hd
      apply Always.bind' (ih hd hs)
      rintro ⟨rs, env2⟩ hd2
      exact Always.pure hd2

/-- **soundness of the static check**: a sequence accepted by `balancedB`, run from the empty state under any
    failure predicate, does not fault and ends holding nothing, with no IPC name left, every descriptor it opened
    closed exactly once -/
theorem balanced_sound (cs : List Call) (hb : balancedB cs = true) (f : Nat → Bool) :
    ∃ rs env' s', (runCalls cs {}).run f {} = .ok (rs, env') s' ∧ s'.held = [] ∧ s'.names = [] ∧
      s'.closed ~ List.range' 1 s'.nextFd := by
  unfold balancedB at hb
  split at hb
  · rename_i a ha
    simp only [Bool.and_eq_true, Bool.not_eq_eq_eq_not, Bool.not_true] at hb
    have h1 := wp_and_always (runCalls_inv cs Inv_init f) (absRun_sound cs Desc_init ha)
    unfold wp at h1
    cases hr : (runCalls cs {}).run f {} with
    | fault msg => rw [hr] at h1; exact h1.elim
    | ok r s' =>
      rw [hr] at h1
      obtain ⟨hinv, hdesc⟩ := h1
      obtain ⟨hh, hn⟩ := neutral_of_inv hinv (Desc_neutral hdesc hb.1 hb.2)
      refine ⟨r.1, r.2, s', rfl, hh, hn, ?_⟩
      have hfd := run_fdwf (runCalls cs {}) f {} FdWF_init r s' hr
      unfold FdWF at hfd
      rw [fds_eq, hh] at hfd
      simpa using hfd
  · cases hb

end PV.Res

import PV.Lemmas.Res.Env
import PV.Lemmas.Res.Generic
/-! # C20 — sequences of calls: the invariant, neutrality -/
namespace PV.Res
open List

theorem runLine_inv (line : String) {env : Env} {s : St} (hinv : Inv env s) (f : Nat → Bool) :
    wp (runLine line env) f s (fun r s' => Inv r.2 s') := by
  unfold runLine
  simp only [wp_bind, wp_emit]
  have hinv' : Inv env { s with log := .call line :: s.log } := hinv
  split
  · simpa using hinv'
  · exact step_inv _ hinv' f

theorem runLines_inv (lines : List String) {env : Env} {s : St} (hinv : Inv env s) (f : Nat → Bool) :
    wp (runLines lines env) f s (fun r s' => Inv r.2 s') := by
  induction lines generalizing env s with
  | nil => simpa [runLines] using hinv
  | cons l ls ih =>
    simp only [runLines, wp_bind]
    refine wp_mono (runLine_inv l hinv f) ?_
    rintro ⟨c, env'⟩ s' h
    refine wp_mono (ih h) ?_
    rintro ⟨cs, env''⟩ s'' h'
    simpa using h'

theorem runCalls_inv (cs : List Call) {env : Env} {s : St} (hinv : Inv env s) (f : Nat → Bool) :
    wp (runCalls cs env) f s (fun r s' => Inv r.2 s') := by
  induction cs generalizing env s with
  | nil => simpa [runCalls] using hinv
  | cons c cs ih =>
    simp only [runCalls, wp_bind]
    refine wp_mono (step_inv c hinv f) ?_
    rintro ⟨r, env'⟩ s' h
    refine wp_mono (ih h) ?_
    rintro ⟨rs, env''⟩ s'' h'
    simpa using h'

/-- nothing is live: every slot is empty and the library is shut down -/
def Env.neutral (env : Env) : Prop := env.lib.foot = [] ∧ ∀ o ∈ env.slots, o = none

theorem footL_of_none {l : List (Option Obj)} (h : ∀ o ∈ l, o = none) : footL l = [] ∧ ownL l = [] := by
  induction l with
  | nil => exact ⟨rfl, rfl⟩
  | cons a l ih =>
    have ha := h a (by simp)
    subst ha
    have := ih (fun o ho => h o (by simp [ho]))
    simpa [footL, ownL, optFoot, optOwned] using this

theorem Inv_init : Inv {} {} := by
  refine ⟨?_, by simp⟩
  have : footL (List.replicate NSLOT (none : Option Obj)) = [] := (footL_of_none (by simp)).1
  simp [Env.foot, LibO.foot, this, optTls, ob]

/-- when nothing is live, nothing is held and no IPC name of the sequence exists -/
theorem neutral_of_inv {env : Env} {s : St} (hinv : Inv env s) (hn : env.neutral) : s.held = [] ∧ s.names = [] := by
  obtain ⟨h1, h2⟩ := footL_of_none hn.2
  constructor
  · have := hinv.1
    rw [hn.1, h1] at this
    simpa using this
  · have := hinv.2
    rw [h2] at this
    cases hs : s.names with
    | nil => rfl
    | cons a l => simpa [hs] using this a.1

end PV.Res

import PV.Lemmas.Res.Wp
/-! # C18 — specifications of the modelled functions (`Spec`/`SpecG` of `PV.Lemmas.Res.Wp`)

One lemma per function: from any state holding the arguments' footprints (and anything else), for every
failure predicate, the function does not fault and ends holding exactly the footprints of what it
returns.  Failure values return footprint `[]` (or the unchanged argument), which is `clean_fail`. -/
namespace PV.Res
open List

/-- footprint of an optional result -/
def optL (f : α → List R) : Option α → List R
  | none => []
  | some a => f a

@[simp] theorem ob_none : ob none = [] := rfl
@[simp] theorem ob_some (b : Blk) : ob (some b) = [.blk b] := rfl
@[simp] theorem optL_none (f : α → List R) : optL f none = [] := rfl
@[simp] theorem optL_some (f : α → List R) (a : α) : optL f (some a) = f a := rfl

/-- symbolic execution of the primitive steps at the head of the goal -/
macro "wps" : tactic => `(tactic| try simp only [wp_bind, wp_pure, wp_ret, wp_malloc, wp_freeB, wp_free_none, wp_free_some,
  wp_deref_some, wp_openFd, wp_closeFd, wp_mmap, wp_munmap_full, wp_nameTest, wp_nameCreate, wp_nameUnlink,
  wp_keyCreate, wp_keyDelete, wp_sysOk, wp_arm, wp_dlGet, wp_dlSet, wp_emit])

/-- a permutation / membership goal from the single hypothesis `h` (everything else is dropped: unrelated
    hypotheses only distract the search) -/
macro "permg" h:ident : tactic => `(tactic| (keep_only $h; grind))

theorem Spec.perm_pre {m : ResM α} (h : Spec pre m post) (hp : pre' ~ pre) : Spec pre' m post := by
  intro f s fr hs
  exact h f s fr (hs.trans (hp.append_right fr))

theorem mem_of_find {l : List α} {p : α → Bool} {a : α} (h : l.find? p = some a) : a ∈ l :=
  List.mem_of_find?_eq_some h

theorem map_erase_perm [BEq α] [LawfulBEq α] {l : List α} {a : α} (g : α → β) (h : a ∈ l) :
    l.map g ~ g a :: (l.erase a).map g := by
  have := (List.perm_cons_erase h).map g
  simpa using this

theorem perm_remove {held L L' fr : List R} {x : R} (h : held ~ L ++ fr) (hp : L ~ x :: L') :
    x ∈ held ∧ held.erase x ~ L' ++ fr := by grind

theorem perm_mem {held L fr : List R} {x : R} (h : held ~ L ++ fr) (hx : x ∈ L) : x ∈ held := by grind

/-! ## errors -/
theorem errNewLiteral_spec : Spec [] errNewLiteral (optL ErrO.foot) := by
  intro f s fr h
  simp [errNewLiteral, ErrO.foot, ob]
  grind

theorem setErr_spec (e : EP) : Spec e.foot (setErr e) EP.foot := by
  intro f s fr h
  rcases e with _ | _ | x <;> simp [setErr, errNewLiteral, EP.foot, ErrO.foot, ob] at h ⊢ <;> grind

theorem errNew_spec : Spec [] errNew (optL ErrO.foot) := by
  intro f s fr h
  simp [errNew, ErrO.foot, ob]
  grind

theorem errCopy_spec (x : ErrO) : Spec x.foot (errCopy x) (fun r => optL ErrO.foot r ++ x.foot) := by
  intro f s fr h
  rcases x with ⟨a, _ | m⟩ <;> simp [errCopy, ErrO.foot, ob] at h ⊢ <;> grind

theorem errSetMsg_spec (x : ErrO) : Spec x.foot (errSetMsg x) ErrO.foot := by
  intro f s fr h
  rcases x with ⟨a, _ | m⟩ <;> simp [errSetMsg, ErrO.foot, ob] at h ⊢ <;> grind

theorem errClear_spec (x : ErrO) : Spec x.foot (errClear x) ErrO.foot := by
  intro f s fr h
  rcases x with ⟨a, _ | m⟩ <;> simp [errClear, ErrO.foot, ob] at h ⊢ <;> grind

theorem errFree_spec (x : ErrO) : Spec x.foot (errFree x) (fun _ => []) := by
  intro f s fr h
  rcases x with ⟨a, _ | m⟩ <;> simp [errFree, ErrO.foot, ob] at h ⊢ <;> grind

/-! ## strings -/
theorem strdup_spec : Spec [] strdup (optL fun b => [.blk b]) := by
  intro f s fr h
  simp [strdup]
  grind

theorem malloc_spec : Spec [] malloc (optL fun b => [.blk b]) := strdup_spec

theorem strtod_spec : Spec [] strtod (fun _ => []) := by
  intro f s fr h
  simp [strtod]
  grind

/-! ## lists -/
theorem listAdd_spec (l : ListO) (x : Nat) (pre : Bool) : Spec l.foot (listAdd l x pre) (fun r => r.2.foot) := by
  intro f s fr h
  cases pre <;> simp [listAdd, ListO.foot, ListO.blocks] at h ⊢ <;> grind

theorem listRemove_spec (l : ListO) (x : Nat) : Spec l.foot (listRemove l x) ListO.foot := by
  intro f s fr h
  unfold listRemove
  split
  · simpa using h
  · rename_i it hit
    have hp := map_erase_perm (R.blk ∘ fun (y : Nat × Blk) => y.2) (mem_of_find hit)
    simp [ListO.foot, ListO.blocks] at h ⊢
    exact perm_remove h hp

theorem listFree_spec (l : ListO) : Spec l.foot (listFree l) (fun _ => []) := freeAll_spec _

theorem slistFree_spec (l : SListO) : Spec l.foot (slistFree l) (fun _ => []) := freeAll_spec _

theorem listAddCopy_spec (items : List (Option Blk × Blk)) (app : Bool) :
    Spec (SListO.foot ⟨items⟩) (listAddCopy items app) (fun r => SListO.foot ⟨r⟩) := by
  intro f s fr h
  cases app <;> simp [listAddCopy, SListO.foot, SListO.blocks, ob] at h ⊢ <;> grind

theorem addCopies_spec (n : Nat) (app : Bool) (items : List (Option Blk × Blk)) :
    Spec (SListO.foot ⟨items⟩) (addCopies n app items) (fun r => SListO.foot ⟨r⟩) := by
  induction n generalizing items with
  | zero => intro f s fr h; simpa [addCopies] using h
  | succ n ih =>
    intro f s fr h
    simp only [addCopies, wp_bind]
    apply wp_spec (listAddCopy_spec items app) h
    intro a s' h1 h2
    refine wp_mono (ih a f s' fr h1) ?_
    intro r s'' ⟨h3, h4⟩
    exact ⟨h3, h4.trans h2⟩

/-! ## trees -/
theorem treeNew_spec : Spec [] treeNew (optL TreeO.foot) := by
  intro f s fr h
  simp [treeNew, TreeO.foot, TreeO.blocks]
  grind

theorem treeInsert_spec (t : TreeO) (k : Nat) : Spec t.foot (treeInsert t k) (fun r => r.2.foot) := by
  intro f s fr h
  simp only [treeInsert, wp_bind, wp_deref_some]
  refine ⟨by simp [TreeO.foot, TreeO.blocks] at h; grind, ?_⟩
  split
  · simpa using h
  · simp [TreeO.foot, TreeO.blocks] at h ⊢
    grind

theorem treeRemove_spec (t : TreeO) (k : Nat) : Spec t.foot (treeRemove t k) TreeO.foot := by
  intro f s fr h
  unfold treeRemove
  simp only [wp_bind, wp_deref_some]
  refine ⟨by simp [TreeO.foot, TreeO.blocks] at h; grind, ?_⟩
  split
  · simpa using h
  · rename_i it hit
    have hp := map_erase_perm (R.blk ∘ fun (y : Nat × Blk) => y.2) (mem_of_find hit)
    simp [TreeO.foot, TreeO.blocks] at h ⊢
    have h' : s.held ~ map (R.blk ∘ fun x => x.snd) t.nodes ++ (R.blk t.self :: fr) := h
    exact perm_remove h' hp

theorem treeClear_spec (t : TreeO) : Spec t.foot (treeClear t) TreeO.foot := by
  intro f s fr h
  simp only [treeClear, wp_bind, wp_deref_some]
  refine ⟨by simp [TreeO.foot, TreeO.blocks] at h; grind, ?_⟩
  apply wp_spec (freeAll_spec (t.nodes.map (·.2))) (fr := .blk t.self :: fr)
  · simp [TreeO.foot, TreeO.blocks] at h ⊢; grind
  · intro _ s' h1 h2
    simp [TreeO.foot, TreeO.blocks] at h1 ⊢
    exact ⟨h1, h2⟩

theorem treeFree_spec (t : TreeO) : Spec t.foot (treeFree t) (fun _ => []) := freeAll_spec _

/-! ## hash table -/
theorem htNew_spec : Spec [] htNew (optL HtO.foot) := by
  intro f s fr h
  simp [htNew, HtO.foot, HtO.blocks]
  grind

theorem htInsert_spec (t : HtO) (k v : Nat) : Spec t.foot (htInsert t k v) (fun r => r.2.foot) := by
  intro f s fr h
  simp only [htInsert, wp_bind, wp_deref_some]
  have hself : R.blk t.self ∈ s.held := by simp [HtO.foot, HtO.blocks] at h; grind
  have htbl : R.blk t.tbl ∈ s.held := by simp [HtO.foot, HtO.blocks] at h; grind
  refine ⟨hself, htbl, ?_⟩
  split
  · have : (t.nodes.map fun x => if x.1 = k then (x.1, v, x.2.2) else x).map (·.2.2) = t.nodes.map (·.2.2) := by
      rw [List.map_map]; apply List.map_congr_left; intro x _; simp only [Function.comp]; split <;> rfl
    simp only [wp_pure, HtO.foot, HtO.blocks, this]
    exact ⟨h, trivial⟩
  · simp [HtO.foot, HtO.blocks] at h ⊢
    grind

theorem htRemove_spec (t : HtO) (k : Nat) : Spec t.foot (htRemove t k) HtO.foot := by
  intro f s fr h
  unfold htRemove
  simp only [wp_bind, wp_deref_some]
  refine ⟨by simp [HtO.foot, HtO.blocks] at h; grind, ?_⟩
  split
  · simpa using h
  · rename_i it hit
    have hp := map_erase_perm (R.blk ∘ fun (y : Nat × Nat × Blk) => y.2.2) (mem_of_find hit)
    simp [HtO.foot, HtO.blocks] at h ⊢
    have h' : s.held ~ map (R.blk ∘ fun x => x.snd.snd) t.nodes ++ (R.blk t.tbl :: R.blk t.self :: fr) := h
    exact perm_remove h' hp

theorem appendAll_spec (xs : List Nat) (l : ListO) : Spec l.foot (appendAll xs l) ListO.foot := by
  induction xs generalizing l with
  | nil => intro f s fr h; simpa [appendAll] using h
  | cons x xs ih =>
    intro f s fr h
    simp only [appendAll, wp_bind]
    apply wp_spec (listAdd_spec l x false) h
    intro a s' h1 h2
    refine wp_mono (ih a.2 f s' fr h1) ?_
    intro r s'' ⟨h3, h4⟩
    exact ⟨h3, h4.trans h2⟩

theorem htList_spec (t : HtO) (sel : List Nat) : Spec t.foot (htList t sel) (fun r => r.2.foot ++ t.foot) := by
  intro f s fr h
  simp only [htList, wp_bind, wp_deref_some]
  refine ⟨by simp [HtO.foot, HtO.blocks] at h; grind, by simp [HtO.foot, HtO.blocks] at h; grind, ?_⟩
  apply wp_spec (appendAll_spec sel ⟨[]⟩) (fr := t.foot ++ fr)
  · simpa [ListO.foot, ListO.blocks] using h
  · intro a s' h1 h2
    simp at h1 ⊢
    exact ⟨h1, h2⟩

theorem htFree_spec (t : HtO) : Spec t.foot (htFree t) (fun _ => []) := freeAll_spec _

/-! ## INI files -/
def secsFoot (secs : List IniSec) : List R := secs.flatMap IniSec.foot

theorem secsFoot_perm (secs : List IniSec) :
    secsFoot secs ~ (secs.flatMap IniSec.blocks ++ secs.filterMap (·.node)).map .blk := by
  induction secs with
  | nil => simp [secsFoot]
  | cons a l ih =>
    simp only [secsFoot, flatMap_cons, filterMap_cons] at ih ⊢
    rcases hn : a.node with _ | nd <;> simp [IniSec.foot, hn] at ih ⊢ <;> grind

theorem iniFoot_perm (o : IniO) : o.foot ~ secsFoot o.secs ++ [.blk o.path, .blk o.self] := by
  have := secsFoot_perm o.secs
  simp [IniO.foot, IniO.blocks] at this ⊢
  grind

theorem iniNew_spec (file : Nat) : Spec [] (iniNew file) (optL IniO.foot) := by
  intro f s fr h
  simp [iniNew, IniO.foot, IniO.blocks]
  grind

theorem paramNew_spec : Spec [] paramNew (optL fun r => [.blk r.1, .blk r.2.1, .blk r.2.2]) := by
  intro f s fr h
  simp [paramNew]
  grind

theorem sectionNew_spec (i : Nat) : Spec [] (sectionNew i) (optL IniSec.foot) := by
  intro f s fr h
  simp [sectionNew, IniSec.foot, IniSec.blocks]
  grind

theorem sectionFree_spec (sec : IniSec) (h : sec.node = none) : Spec sec.foot (sectionFree sec) (fun _ => []) := by
  have := freeAll_spec sec.blocks
  simpa [IniSec.foot, h, sectionFree] using this

theorem flushSec_spec (cur : Option IniSec) (secs : List IniSec) (hc : ∀ c, cur = some c → c.node = none) :
    Spec (optL IniSec.foot cur ++ secsFoot secs) (flushSec cur secs) secsFoot := by
  intro f s fr h
  rcases cur with _ | sec
  · simpa [flushSec] using h
  · have hn := hc sec rfl
    simp only [flushSec]
    split
    · simp only [wp_bind]
      apply wp_spec (sectionFree_spec sec hn) (fr := secsFoot secs ++ fr) (by simpa using h)
      intro _ s' h1 h2
      simpa using ⟨h1, h2⟩
    · simp only [wp_bind, wp_malloc]
      split
      · apply wp_spec (sectionFree_spec sec hn) (fr := secsFoot secs ++ fr) (by simpa using h)
        intro _ s' h1 h2
        simpa using ⟨h1, h2⟩
      · simp [secsFoot, IniSec.foot, IniSec.blocks, hn] at h ⊢
        grind

theorem addParam_spec (cur : Option IniSec) (j : Nat) :
    Spec (optL IniSec.foot cur) (addParam cur j) (optL IniSec.foot) := by
  intro f s fr h
  rcases cur with _ | sec
  · simpa [addParam] using h
  · simp [addParam, paramNew, IniSec.foot, IniSec.blocks] at h ⊢
    grind

theorem addParam_node (cur : Option IniSec) (j : Nat) (hc : ∀ c, cur = some c → c.node = none) :
    wp (addParam cur j) f s (fun r _ => ∀ c, r = some c → c.node = none) := by
  rcases cur with _ | sec
  · simp [addParam]
  · have := hc sec rfl
    simp [addParam, paramNew]
    grind

theorem wp_and {m : ResM α} (h1 : wp m f s Q1) (h2 : wp m f s Q2) : wp m f s (fun a s' => Q1 a s' ∧ Q2 a s') := by
  unfold wp at *
  cases hm : m.run f s <;> simp_all

theorem sectionNew_node (i : Nat) : wp (sectionNew i) f s (fun r _ => ∀ c, r = some c → c.node = none) := by
  simp [sectionNew]

/-- the parsing loop: whatever lines are lost to failed allocations, everything allocated is either released
    or reachable from the section being read / the list of finished sections -/
theorem parseLines_wp (ls : List Line) (cur : Option IniSec) (secs : List IniSec)
    (hc : ∀ c, cur = some c → c.node = none) (f : Nat → Bool) (s : St) (fr : List R)
    (h : s.held ~ optL IniSec.foot cur ++ (secsFoot secs ++ fr)) :
    wp (parseLines ls cur secs) f s (fun r s' =>
      s'.held ~ optL IniSec.foot r.1 ++ (secsFoot r.2 ++ fr) ∧ s'.names = s.names ∧ ∀ c, r.1 = some c → c.node = none) := by
  induction ls generalizing cur secs s with
  | nil => simpa [parseLines] using ⟨h, hc⟩
  | cons ln rest ih =>
    -- a line that is skipped or only chomped: back to the loop with the same objects
    have again : ∀ s1 : St, s1.held ~ optL IniSec.foot cur ++ (secsFoot secs ++ fr) → s1.names = s.names →
        wp (parseLines rest cur secs) f s1 (fun r s' =>
          s'.held ~ optL IniSec.foot r.1 ++ (secsFoot r.2 ++ fr) ∧ s'.names = s.names ∧ ∀ c, r.1 = some c → c.node = none) := by
      intro s1 h1 hn1
      exact wp_mono (ih cur secs hc s1 h1) (fun r s' ⟨a, b, c⟩ => ⟨a, b.trans hn1, c⟩)
    cases ln with
    | other =>
      simp only [parseLines]
      wps
      split
      · exact again _ h rfl
      · wps
        exact ⟨by simp, again _ (by simpa using h) rfl⟩
    | hdr i =>
      simp only [parseLines]
      wps
      split
      · exact again _ h rfl
      · split
        · wps
          exact ⟨by simp, again _ (by simpa using h) rfl⟩
        · wps
          refine ⟨by simp, ?_⟩
          -- flush the previous section
          apply wp_spec (flushSec_spec cur secs hc) (fr := .blk (s.next + 1) :: fr)
          · simp at h ⊢; grind
          intro secs' s1 h1 hn1
          -- the new section
          apply wp_mono (wp_and (sectionNew_spec i f s1 (secsFoot secs' ++ .blk (s.next + 1) :: fr) (by simpa using h1)) (sectionNew_node i))
          intro cur' s2 ⟨⟨h2, hn2⟩, hnode⟩
          wps
          refine ⟨by grind, ?_⟩
          refine wp_mono (ih cur' secs' hnode _ ?_) ?_
          · simp at h2 ⊢; grind
          · intro r s' ⟨hr1, hr2, hr3⟩
            exact ⟨hr1, by simp_all, hr3⟩
    | kv j =>
      simp only [parseLines]
      wps
      split
      · exact again _ h rfl
      · split
        · wps
          exact ⟨by simp, again _ (by simpa using h) rfl⟩
        · wps
          refine ⟨by simp, ?_⟩
          split
          · wps
            exact ⟨by simp, again _ (by simpa using h) rfl⟩
          · wps
            refine ⟨by simp, ?_⟩
            apply wp_mono (wp_and (addParam_spec cur j f _ (secsFoot secs ++ .blk (s.next + 1) :: fr) ?_) (addParam_node cur j hc))
            · intro cur' s2 ⟨⟨h2, hn2⟩, hnode⟩
              wps
              refine ⟨by grind, ?_⟩
              refine wp_mono (ih cur' secs hnode _ ?_) ?_
              · simp at h2 ⊢; grind
              · intro r s' ⟨hr1, hr2, hr3⟩
                exact ⟨hr1, by simp_all, hr3⟩
            · simp at h ⊢; grind

theorem iniParse_spec (o : IniO) (e : EP) :
    Spec (o.foot ++ e.foot) (iniParse o e) (fun r => r.2.1.foot ++ r.2.2.foot) := by
  intro f s fr h
  simp only [List.append_assoc] at h
  have hself : R.blk o.self ∈ s.held := by
    simp [IniO.foot, IniO.blocks] at h; grind
  simp only [iniParse]
  wps
  refine ⟨hself, ?_⟩
  clear hself
  split
  · simpa using h
  · split
    · wps
      apply wp_spec (setErr_spec e) (fr := o.foot ++ fr)
      · grind
      · intro e' s' h1 h2
        simp at h1 ⊢
        exact ⟨by grind, h2⟩
    · rename_i ls _
      wps
      have h' := h.trans ((iniFoot_perm o).append_right _)
      apply wp_mono (parseLines_wp ls none o.secs (by simp) f _ (.fd (s.nextFd + 1) :: .blk o.path :: .blk o.self :: (e.foot ++ fr)) ?_)
      · intro r s1 ⟨h1, hn1, hnode⟩
        apply wp_spec (flushSec_spec r.1 r.2 hnode) (fr := .fd (s.nextFd + 1) :: .blk o.path :: .blk o.self :: (e.foot ++ fr))
        · simpa using h1
        · intro secs' s2 h2 hn2
          wps
          refine ⟨by grind, ?_⟩
          have hp' := iniFoot_perm { o with parsed := true, secs := secs' }
          simp at hp' h2 ⊢
          refine ⟨?_, by simp_all⟩
          grind
      · simp at h' ⊢
        grind

theorem ini_self_mem {o : IniO} {s : St} {fr : List R} (h : s.held ~ o.foot ++ fr) : R.blk o.self ∈ s.held := by
  simp [IniO.foot, IniO.blocks] at h; grind

theorem iniStrlist_spec (o : IniO) (n : Nat) (app : Bool) :
    Spec o.foot (do deref (some o.self); let items ← addCopies n app []; return (strlistCls items n, (⟨items⟩ : SListO)))
      (fun r => r.2.foot ++ o.foot) := by
  intro f s fr h
  wps
  refine ⟨ini_self_mem h, ?_⟩
  apply wp_spec (addCopies_spec n app []) (fr := o.foot ++ fr) (by simpa [SListO.foot, SListO.blocks] using h)
  intro items s' h1 h2
  simpa using ⟨h1, h2⟩

theorem iniSections_spec (o : IniO) : Spec o.foot (iniSections o) (fun r => r.2.foot ++ o.foot) :=
  iniStrlist_spec o _ false

theorem iniKeys_spec (o : IniO) (sec : Nat) : Spec o.foot (iniKeys o sec) (fun r => r.2.foot ++ o.foot) :=
  iniStrlist_spec o _ false

theorem iniString_spec (o : IniO) (sec key : Nat) :
    Spec o.foot (iniString o sec key) (fun r => ob r.2 ++ o.foot) := by
  intro f s fr h
  have hm := ini_self_mem h
  simp only [iniString]
  wps
  refine ⟨hm, ?_⟩
  clear hm
  split <;> simp [ob] <;> grind

theorem iniScalar_spec (o : IniO) (sec key : Nat) : Spec o.foot (iniScalar o sec key) (fun _ => o.foot) := by
  intro f s fr h
  have hm := ini_self_mem h
  simp only [iniScalar]
  wps
  refine ⟨hm, ?_⟩
  clear hm
  split <;> simp <;> grind

theorem iniDouble_spec (o : IniO) (sec key : Nat) : Spec o.foot (iniDouble o sec key) (fun _ => o.foot) := by
  intro f s fr h
  have hm := ini_self_mem h
  simp only [iniDouble]
  wps
  refine ⟨hm, ?_⟩
  clear hm
  split <;> simp <;> grind

theorem iniList_spec (o : IniO) (sec key : Nat) : Spec o.foot (iniList o sec key) (fun r => r.2.foot ++ o.foot) := by
  intro f s fr h
  have hm := ini_self_mem h
  simp only [iniList]
  wps
  refine ⟨hm, ?_⟩
  clear hm
  split
  · wps
    split
    · simpa [SListO.foot, SListO.blocks] using h
    · wps
      apply wp_spec (addCopies_spec _ true []) (fr := .blk (s.next + 1) :: (o.foot ++ fr))
      · simp [SListO.foot, SListO.blocks] at h ⊢; grind
      · intro items s' h1 h2
        wps
        refine ⟨by grind, ?_⟩
        simp at h1 ⊢
        exact ⟨by grind, h2⟩
  · simpa [SListO.foot, SListO.blocks] using h

theorem iniFree_spec (o : IniO) : Spec o.foot (iniFree o) (fun _ => []) := freeAll_spec _

/-! ## crypto hash, IPC key -/
theorem hashNew_spec : Spec [] hashNew (optL HashO.foot) := by
  intro f s fr h
  simp [hashNew, HashO.foot]
  grind

theorem hashString_spec (x : HashO) : Spec x.foot (hashString x) (fun r => ob r ++ x.foot) := by
  intro f s fr h
  simp [hashString, HashO.foot, ob] at h ⊢
  grind

theorem hashFree_spec (x : HashO) : Spec x.foot (hashFree x) (fun _ => []) := by
  intro f s fr h
  simp [hashFree, HashO.foot] at h ⊢
  grind

theorem ipcTmpDir_spec : Spec [] ipcTmpDir ob := by
  intro f s fr h
  simp [ipcTmpDir, ob]
  grind

theorem ipcKey_spec (posix : Bool) : Spec [] (ipcKey posix) ob := by
  intro f s fr h
  cases posix <;> simp [ipcKey, hashNew, hashString, hashFree, ipcTmpDir, ob] <;> grind

/-! ## directories -/
theorem dirNew_spec (m : Bool) (e : EP) : Spec e.foot (dirNew m e) (fun r => optL DirO.foot r.1 ++ r.2.foot) := by
  intro f s fr h
  rcases e with _ | _ | x <;> cases m <;>
    simp [dirNew, setErr, errNewLiteral, DirO.foot, EP.foot, ErrO.foot, ob] at h ⊢ <;> grind

theorem dirNext_spec (d : DirO) (e : EP) :
    Spec (d.foot ++ e.foot) (dirNext d e) (fun r => r.2.1.foot ++ optL DirentO.foot r.2.2.1 ++ r.2.2.2.foot) := by
  intro f s fr h
  simp only [dirNext]
  wps
  refine ⟨by simp [DirO.foot] at h; grind, ?_⟩
  split
  · simpa using h
  · rcases e with _ | _ | x <;>
      simp [setErr, errNewLiteral, DirO.foot, DirentO.foot, EP.foot, ErrO.foot, ob, List.erase_cons] at h ⊢ <;> grind

theorem dirPath_spec (d : DirO) : Spec d.foot (dirPath d) (fun r => ob r ++ d.foot) := by
  intro f s fr h
  simp [dirPath, DirO.foot, ob] at h ⊢
  grind

theorem dirFree_spec (d : DirO) : Spec d.foot (dirFree d) (fun _ => []) := by
  intro f s fr h
  simp [dirFree, DirO.foot] at h ⊢
  grind

theorem direntFree_spec (d : DirentO) : Spec d.foot (direntFree d) (fun _ => []) := by
  intro f s fr h
  simp [direntFree, DirentO.foot] at h ⊢
  grind

/-! ## socket addresses and sockets -/
theorem saNewBad_spec : Spec [] saNewBad ob := by
  intro f s fr h
  simp [saNewBad, ob]
  grind

theorem sockNew_spec (kind : Nat) (e : EP) : Spec e.foot (sockNew kind e) (fun r => optL SockO.foot r.1 ++ r.2.foot) := by
  intro f s fr h
  rcases e with _ | _ | x <;>
    simp [sockNew, setErr, errNewLiteral, SockO.foot, EP.foot, ErrO.foot, ob, List.erase_cons] at h ⊢ <;> grind

theorem sockFromFd_spec (e : EP) : Spec e.foot (sockFromFd e) (fun r => optL SockO.foot r.1 ++ r.2.foot) := by
  intro f s fr h
  rcases e with _ | _ | x <;>
    simp [sockFromFd, setErr, errNewLiteral, SockO.foot, EP.foot, ErrO.foot, ob, List.erase_cons] at h ⊢ <;> grind

theorem sock_self_mem {x : SockO} {s : St} {fr : List R} (h : s.held ~ x.foot ++ fr) : R.blk x.self ∈ s.held := by
  simp [SockO.foot] at h; grind

theorem sockListen_spec (x : SockO) (e : EP) :
    Spec (x.foot ++ e.foot) (sockListen x e) (fun r => r.2.1.foot ++ r.2.2.foot) := by
  intro f s fr h
  simp only [List.append_assoc] at h
  have hm := sock_self_mem h
  simp only [sockListen]
  wps
  refine ⟨hm, ?_⟩
  clear hm
  simp [SockO.foot] at h ⊢
  grind

theorem sockConnect_spec (x srv : SockO) (e : EP) :
    Spec (x.foot ++ srv.foot ++ e.foot) (sockConnect x srv e) (fun r => r.2.1.foot ++ r.2.2.1.foot ++ r.2.2.2.foot) := by
  intro f s fr h
  simp only [List.append_assoc] at h
  have hm := sock_self_mem h
  simp only [sockConnect]
  wps
  refine ⟨hm, ?_⟩
  clear hm
  simp [SockO.foot] at h ⊢
  grind

theorem sockConnectRefused_spec (x : SockO) (e : EP) :
    Spec (x.foot ++ e.foot) (sockConnectRefused x e) (fun r => r.2.1.foot ++ r.2.2.foot) := by
  intro f s fr h
  simp only [List.append_assoc] at h
  have hm := sock_self_mem h
  simp only [sockConnectRefused]
  wps
  refine ⟨hm, ?_⟩
  clear hm
  rcases e with _ | _ | y <;>
    simp [setErr, errNewLiteral, SockO.foot, EP.foot, ErrO.foot, ob, List.erase_cons] at h ⊢ <;> grind

theorem sockIoClosed_spec (x : SockO) (e : EP) :
    Spec (x.foot ++ e.foot) (sockIoClosed x e) (fun r => r.2.1.foot ++ r.2.2.foot) := by
  intro f s fr h
  simp only [List.append_assoc] at h
  have hm := sock_self_mem h
  simp only [sockIoClosed]
  wps
  refine ⟨hm, ?_⟩
  clear hm
  rcases e with _ | _ | y <;>
    simp [setErr, errNewLiteral, SockO.foot, EP.foot, ErrO.foot, ob, List.erase_cons] at h ⊢ <;> grind

theorem sockAccept_spec (x : SockO) (e : EP) :
    Spec (x.foot ++ e.foot) (sockAccept x e) (fun r => r.2.1.foot ++ optL SockO.foot r.2.2.1 ++ r.2.2.2.foot) := by
  intro f s fr h
  simp only [List.append_assoc] at h
  have hm := sock_self_mem h
  simp only [sockAccept]
  wps
  refine ⟨hm, ?_⟩
  clear hm
  split <;> rcases e with _ | _ | y <;>
    simp [setErr, errNewLiteral, SockO.foot, EP.foot, ErrO.foot, ob, List.erase_cons] at h ⊢ <;> grind

theorem sockAddr_spec (x : SockO) (remote : Bool) (e : EP) :
    Spec (x.foot ++ e.foot) (sockAddr x remote e) (fun r => ob r.1 ++ x.foot ++ r.2.foot) := by
  intro f s fr h
  simp only [List.append_assoc] at h
  have hm := sock_self_mem h
  simp only [sockAddr]
  wps
  refine ⟨hm, ?_⟩
  clear hm
  split <;> rcases e with _ | _ | y <;>
    simp [setErr, errNewLiteral, EP.foot, ErrO.foot, ob, List.erase_cons] at h ⊢ <;> grind

theorem sockUdpEcho_spec (x : SockO) (e : EP) :
    Spec (x.foot ++ e.foot) (sockUdpEcho x e) (fun r => ob r.2.1 ++ x.foot ++ r.2.2.foot) := by
  intro f s fr h
  simp only [List.append_assoc] at h
  have hm := sock_self_mem h
  simp only [sockUdpEcho]
  wps
  refine ⟨hm, ?_⟩
  clear hm
  simp [ob, List.erase_cons] at h ⊢
  grind

theorem sockClose_spec (x : SockO) : Spec x.foot (sockClose x) SockO.foot := by
  intro f s fr h
  have hm := sock_self_mem h
  simp only [sockClose]
  wps
  refine ⟨hm, ?_⟩
  clear hm
  rcases x with ⟨a, _ | fd, k, st, p⟩ <;> simp [SockO.foot] at h ⊢ <;> grind

theorem sockFree_spec (x : SockO) : Spec x.foot (sockFree x) (fun _ => []) := by
  intro f s fr h
  rcases x with ⟨a, _ | fd, k, st, p⟩ <;> simp [sockFree, SockO.foot] at h ⊢ <;> grind

/-! ## named semaphores, shared memory, shared buffers (these change IPC names: `SpecG`) -/
def optOwn (f : α → List Name) : Option α → List Name
  | none => []
  | some a => f a
@[simp] theorem optOwn_none (f : α → List Name) : optOwn f none = [] := rfl
@[simp] theorem optOwn_some (f : α → List Name) (a : α) : optOwn f (some a) = f a := rfl

theorem NamesOk.trans {ns ns1 ns2 : List (Name × Nat)} {o0 o1 o2 : List Name}
    (h1 : NamesOk ns o0 ns1 o1) (h2 : NamesOk ns1 o1 ns2 o2) : NamesOk ns o0 ns2 o2 := by
  intro n hn
  rcases h2 n hn with h | ⟨h, h'⟩
  · exact .inl h
  · rcases h1 n h with h'' | h''
    · exact absurd h'' h'
    · exact .inr h''

/-- names owned by somebody else (`x`) are carried along -/
theorem NamesOk.frame {ns ns' : List (Name × Nat)} {i o : List Name} (x : List Name) (h : NamesOk ns i ns' o) :
    NamesOk ns (x ++ i) ns' (x ++ o) := by
  intro n hn
  rcases h n hn with h | ⟨h, h'⟩
  · exact .inl (by simp [h])
  · by_cases hx : n ∈ x
    · exact .inl (by simp [hx])
    · exact .inr ⟨h, by simp [hx, h']⟩

theorem NamesOk.frame' {ns ns' : List (Name × Nat)} {i o : List Name} (x : List Name) (h : NamesOk ns i ns' o) :
    NamesOk ns (i ++ x) ns' (o ++ x) := by
  intro n hn
  rcases h n hn with h | ⟨h, h'⟩
  · exact .inl (by simp [h])
  · by_cases hx : n ∈ x
    · exact .inl (by simp [hx])
    · exact .inr ⟨h, by simp [hx, h']⟩

theorem NamesOk.of_eq {ns ns' : List (Name × Nat)} (own : List Name) (h : ns' = ns) : NamesOk ns own ns' own :=
  h ▸ NamesOk.refl _ _ _ (fun _ h => h)

/-- after `sem_unlink` / `shm_unlink` the name is free again -/
@[simp] theorem nameSize_filter_ne (ns : List (Name × Nat)) (n : Name) : ResM.nameSize (ns.filter (·.1 ≠ n)) n = none := by
  simp [ResM.nameSize, List.find?_eq_none]

@[simp] theorem nameSize_filter_ne2 (ns : List (Name × Nat)) (n : Name) :
    ResM.nameSize (filter (fun x => !decide (x.fst = n)) ns) n = none := by
  simp [ResM.nameSize, List.find?_eq_none]

theorem semNew_spec (name : Name) (create : Bool) (e : EP) :
    SpecG e.foot [] (semNew name create e) (fun r => optL SemO.foot r.1 ++ r.2.foot) (fun r => optOwn SemO.owned r.1) := by
  intro f s fr h
  rcases e with _ | _ | x <;> cases create <;> rcases hn : ResM.nameSize s.names name with _ | sz <;>
    simp [semNew, ipcKey, hashNew, hashString, hashFree, setErr, errNewLiteral, SemO.foot, SemO.owned, EP.foot, ErrO.foot, ob,
      List.erase_cons, NamesOk, hn] at h ⊢ <;> grind

theorem semFree_spec (x : SemO) : SpecG x.foot x.owned (semFree x) (fun _ => []) (fun _ => []) := by
  intro f s fr h
  rcases x with ⟨a, k, n, m, c⟩
  cases c <;> simp [semFree, SemO.foot, SemO.owned, NamesOk] at h ⊢ <;> grind

/-- what the first stage of `pp_shm_create_handle` leaves: the open descriptor; the new name when created -/
def shmOpenFoot : Option (Nat × Bool × Nat) → List R
  | some (fd, _, _) => [.fd fd]
  | none => []
def shmOpenOwn (id : Nat) : Option (Nat × Bool × Nat) → List Name
  | some (_, true, _) => [.shm id]
  | _ => []

theorem shmOpen_spec (id size : Nat) (e : EP) :
    SpecG e.foot [] (shmOpen id size e) (fun r => shmOpenFoot r.1 ++ r.2.foot) (fun r => shmOpenOwn id r.1) := by
  intro f s fr h
  rcases e with _ | _ | x <;> rcases hn : ResM.nameSize s.names (.shm id) with _ | sz <;>
    simp [shmOpen, setErr, errNewLiteral, shmOpenFoot, shmOpenOwn, EP.foot, ErrO.foot, ob, List.erase_cons, NamesOk, hn] at h ⊢ <;>
    grind

theorem shmMap_spec (id fd : Nat) (created : Bool) (segSize : Nat) (e : EP) :
    SpecG (.fd fd :: e.foot) (if created then [.shm id] else []) (shmMap id fd created segSize e)
      (fun r => optL (fun m => [.map m segSize]) r.1 ++ r.2.foot)
      (fun r => if r.1.isSome ∧ created then [.shm id] else []) := by
  intro f s fr h
  rcases e with _ | _ | x <;> cases created <;> by_cases hz : segSize = 0 <;>
    simp [shmMap, setErr, errNewLiteral, EP.foot, ErrO.foot, ob, List.erase_cons, NamesOk, hz] at h ⊢ <;> grind

theorem shmAttach_spec (a key : Blk) (id size : Nat) (e : EP) :
    SpecG (.blk a :: .blk key :: e.foot) [] (shmAttach a key id size e)
      (fun r => optL ShmO.foot r.1 ++ r.2.foot) (fun r => optOwn ShmO.owned r.1) := by
  intro f s fr h
  simp only [shmAttach, wp_bind]
  apply wp_specG (shmOpen_spec id size e) (fr := .blk a :: .blk key :: fr) (by simp at h ⊢; grind)
  rintro ⟨o, e1⟩ s1 h1 hn1
  rcases o with _ | ⟨fd, created, segSize⟩
  · -- the first stage failed
    wps
    simp [shmOpenFoot, shmOpenOwn] at h1 hn1 ⊢
    refine ⟨by grind, by grind, by grind, hn1⟩
  · simp only [wp_bind]
    apply wp_specG (shmMap_spec id fd created segSize e1) (fr := .blk a :: .blk key :: fr)
      (by simp [shmOpenFoot] at h1 ⊢; grind)
    rintro ⟨m, e2⟩ s2 h2 hn2
    have hn12 : NamesOk s.names [] s2.names (if m.isSome ∧ created then [.shm id] else []) := by
      refine NamesOk.trans hn1 ?_
      cases created <;> simpa [shmOpenOwn] using hn2
    rcases m with _ | m
    · wps
      simp at h2 hn12 ⊢
      refine ⟨by grind, by grind, by grind, hn12⟩
    · simp only [wp_bind]
      apply wp_specG (semNew_spec (.shmLock id) created e2) (fr := .map m segSize :: .blk a :: .blk key :: fr)
        (by simp at h2 ⊢; grind)
      rintro ⟨lock, e3⟩ s3 h3 hn3
      have hn12' : NamesOk s.names [] s2.names ((if created then [Name.shm id] else []) ++ []) := by
        cases created <;> simpa using hn12
      have hn3' := NamesOk.trans hn12' (NamesOk.frame (if created then [Name.shm id] else []) hn3)
      rcases lock with _ | lock
      · wps
        simp at h3 ⊢
        replace h3 : s3.held ~ .map m segSize :: .blk a :: .blk key :: (e3.foot ++ fr) := by permg h3
        refine ⟨by permg h3, ?_⟩
        cases created
        · simp at hn3' ⊢
          refine ⟨by permg h3, by permg h3, by permg h3, hn3'⟩
        · simp at hn3' ⊢
          refine ⟨by permg h3, by permg h3, by permg h3, ?_⟩
          intro n hn
          simp [NamesOk] at hn3' hn ⊢
          grind
      · wps
        simp [ShmO.foot, ShmO.owned] at h3 hn3' ⊢
        refine ⟨by grind, ?_⟩
        cases created <;> simpa using hn3'

theorem shmNew_spec (id size : Nat) (e : EP) :
    SpecG e.foot [] (shmNew id size e) (fun r => optL ShmO.foot r.1 ++ r.2.foot) (fun r => optOwn ShmO.owned r.1) := by
  intro f s fr h
  simp only [shmNew]
  wps
  split
  · apply wp_spec (setErr_spec e) (fr := fr) (by simpa using h)
    intro e' s' h1 h2
    simp at h2 ⊢
    exact ⟨h1, NamesOk.of_eq [] h2⟩
  · split
    · apply wp_spec (setErr_spec e) (fr := .blk (s.next + 1) :: fr) (by simp; grind)
      intro e' s' h1 h2
      wps
      simp at h2 ⊢
      exact ⟨by grind, by grind, NamesOk.of_eq [] h2⟩
    · apply wp_spec (ipcKey_spec true) (fr := .blk (s.next + 1 + 1) :: .blk (s.next + 1) :: (e.foot ++ fr)) (by simp; grind)
      intro key s1 h1 hn1
      wps
      refine ⟨by grind, ?_⟩
      rcases key with _ | key
      · simp only []
        wps
        apply wp_spec (setErr_spec e) (fr := .blk (s.next + 1) :: fr) (by simp [ob] at h1 ⊢; grind)
        intro e' s' h2 hn2
        wps
        simp at hn1 hn2 ⊢
        exact ⟨by grind, by grind, NamesOk.of_eq [] (hn2.trans hn1)⟩
      · simp only []
        apply wp_specG (shmAttach_spec (s.next + 1) key id size e) (fr := fr) (by simp [ob] at h1 ⊢; grind)
        intro r s' h2 hn2
        simp at hn1
        exact ⟨h2, by rw [← hn1]; exact hn2⟩

theorem shmFree_spec (x : ShmO) : SpecG x.foot x.owned (shmFree x) (fun _ => []) (fun _ => []) := by
  intro f s fr h
  simp only [shmFree]
  wps
  simp [ShmO.foot] at h
  refine ⟨by permg h, ?_⟩
  -- the state after munmap and the optional shm_unlink: release the lock semaphore, then key and structure
  have key : ∀ s1 : St, s1.held = s.held.erase (.map x.map x.mapLen) →
      NamesOk s.names (if x.created then [Name.shm x.id] else []) s1.names [] →
      wp (semFree x.lock) f s1 (fun _ s' =>
        R.blk x.key ∈ s'.held ∧ R.blk x.self ∈ s'.held.erase (R.blk x.key) ∧
          (s'.held.erase (R.blk x.key)).erase (R.blk x.self) ~ [] ++ fr ∧ NamesOk s.names x.owned s'.names []) := by
    intro s1 h1 hn1
    apply wp_specG (semFree_spec x.lock) (fr := .blk x.self :: .blk x.key :: fr) (by rw [h1]; permg h)
    intro _ s2 h2 hn2
    simp at h2 ⊢
    refine ⟨by permg h2, by permg h2, by permg h2, ?_⟩
    have := NamesOk.trans (o0 := (if x.created then [Name.shm x.id] else []) ++ x.lock.owned) (o1 := [] ++ x.lock.owned)
      (by simpa using NamesOk.frame' x.lock.owned hn1) (by simpa using hn2)
    simpa [ShmO.owned] using this
  split
  · rename_i hc
    wps
    refine key _ rfl ?_
    simp [NamesOk, hc]
  · rename_i hc
    wps
    refine key _ rfl ?_
    simpa [hc] using NamesOk.refl _ _ _ (fun _ h => h)

theorem shmbufNew_spec (id size : Nat) (e : EP) :
    SpecG e.foot [] (shmbufNew id size e) (fun r => optL ShmBufO.foot r.1 ++ r.2.foot)
      (fun r => optOwn (fun b => b.shm.owned) r.1) := by
  intro f s fr h
  simp only [shmbufNew, wp_bind]
  apply wp_specG (shmNew_spec id _ e) h
  rintro ⟨shm, e1⟩ s1 h1 hn1
  rcases shm with _ | shm
  · simpa using ⟨h1, hn1⟩
  · simp only []
    have free_ok : ∀ (s2 : St) (e2 : EP), s2.held ~ e2.foot ++ (shm.foot ++ fr) → s2.names = s1.names →
        wp (shmFree shm) f s2 (fun _ s3 => s3.held ~ e2.foot ++ fr ∧ NamesOk s.names [] s3.names []) := by
      intro s2 e2 h2 hn2
      apply wp_specG (shmFree_spec shm) (fr := e2.foot ++ fr) (by permg h2)
      intro _ s3 h3 hn3
      refine ⟨by simpa using h3, ?_⟩
      have := NamesOk.trans (o0 := []) (o1 := shm.owned ++ []) (by simpa using hn1) (NamesOk.frame shm.owned (NamesOk.of_eq [] hn2))
      exact NamesOk.trans this (by simpa using hn3)
    split
    · wps
      apply wp_spec (setErr_spec e1) (fr := shm.foot ++ fr) (by simp at h1 ⊢; permg h1)
      intro e2 s2 h2 hn2
      wps
      refine wp_mono (free_ok s2 e2 h2 hn2) ?_
      intro _ s3 ⟨h3, hn3⟩
      simpa using ⟨h3, hn3⟩
    · wps
      split
      · apply wp_spec (setErr_spec e1) (fr := shm.foot ++ fr) (by simp at h1 ⊢; permg h1)
        intro e2 s2 h2 hn2
        wps
        refine wp_mono (free_ok s2 e2 h2 (by simpa using hn2)) ?_
        intro _ s3 ⟨h3, hn3⟩
        simpa using ⟨h3, hn3⟩
      · simp [ShmBufO.foot] at h1 hn1 ⊢
        exact ⟨by permg h1, hn1⟩

theorem shmbufFree_spec (b : ShmBufO) : SpecG b.foot b.shm.owned (shmbufFree b) (fun _ => []) (fun _ => []) := by
  intro f s fr h
  simp only [shmbufFree, wp_bind]
  apply wp_specG (shmFree_spec b.shm) (fr := .blk b.self :: fr) (by simp [ShmBufO.foot] at h ⊢; permg h)
  intro _ s1 h1 hn1
  wps
  simp at h1 ⊢
  exact ⟨by permg h1, by permg h1, hn1⟩

/-! ## locks -/
theorem newInit_spec (nm : String) : Spec [] (newInit nm) ob := by
  intro f s fr h
  simp [newInit, ob]
  grind

theorem rwgNew_spec : Spec [] rwgNew (optL RwgO.foot) := by
  intro f s fr h
  simp [rwgNew, newInit, RwgO.foot, List.erase_cons]
  grind

theorem rwgFree_spec (l : RwgO) : Spec l.foot (rwgFree l) (fun _ => []) := by
  intro f s fr h
  simp [rwgFree, RwgO.foot] at h ⊢
  grind

/-! ## thread-local storage, the library's own state, threads -/
theorem getTlsKey_spec (slot : Option Slot) : Spec (slotFoot slot) (getTlsKey slot) slotFoot := by
  intro f s fr h
  rcases slot with _ | sl <;> simp [getTlsKey, slotFoot, Slot.foot, ob] at h ⊢ <;> grind

theorem tlsNew_spec : Spec [] tlsNew (optL TlsO.foot) := by
  intro f s fr h
  simp [tlsNew, TlsO.foot, slotFoot]
  grind

theorem tlsSet_spec (t : TlsO) : Spec t.foot (tlsSet t) (fun r => r.2.foot) := by
  intro f s fr h
  rcases t with ⟨a, _ | ⟨b, k, _ | v⟩⟩ <;>
    simp [tlsSet, getTlsKey, TlsO.foot, slotFoot, Slot.foot, ob, List.erase_cons] at h ⊢ <;> grind

theorem tlsReplace_spec (t : TlsO) : Spec t.foot (tlsReplace t) (fun r => r.2.foot) := by
  intro f s fr h
  rcases t with ⟨a, _ | ⟨b, k, _ | v⟩⟩ <;>
    simp [tlsReplace, getTlsKey, TlsO.foot, slotFoot, Slot.foot, ob, List.erase_cons] at h ⊢ <;> grind

theorem tlsGet_spec (t : TlsO) : Spec t.foot (tlsGet t) TlsO.foot := by
  intro f s fr h
  rcases t with ⟨a, _ | ⟨b, k, _ | v⟩⟩ <;>
    simp [tlsGet, getTlsKey, TlsO.foot, slotFoot, Slot.foot, ob, List.erase_cons] at h ⊢ <;> grind

theorem tlsFree_spec (t : TlsO) : Spec t.foot (tlsFree t) (fun _ => []) := by
  intro f s fr h
  rcases t with ⟨a, _ | ⟨b, k, _ | v⟩⟩ <;>
    simp [tlsFree, TlsO.foot, slotFoot, Slot.foot, ob, List.erase_cons] at h ⊢ <;> grind

theorem libInit_spec (l : LibO) : Spec l.foot (libInit l) LibO.foot := by
  intro f s fr h
  rcases l with ⟨_ | _, _ | t, _ | sp⟩ <;>
    simp [libInit, tlsNew, LibO.foot, optTls, TlsO.foot, slotFoot, ob] at h ⊢ <;> grind

theorem libShutdown_spec (l : LibO) : Spec l.foot (libShutdown l) LibO.foot := by
  intro f s fr h
  rcases l with ⟨_ | _, _ | ⟨a, _ | ⟨b, k, _ | v⟩⟩, _ | sp⟩ <;>
    simp [libShutdown, tlsGet, tlsFree, getTlsKey, LibO.foot, optTls, TlsO.foot, slotFoot, Slot.foot, ob, List.erase_cons] at h ⊢ <;>
    grind

theorem curThread_spec (l : LibO) : Spec l.foot (curThread l) (fun r => r.2.foot) := by
  intro f s fr h
  rcases l with ⟨i, _ | ⟨a, _ | ⟨b, k, _ | v⟩⟩, _ | sp⟩ <;>
    simp [curThread, getTlsKey, LibO.foot, optTls, TlsO.foot, slotFoot, Slot.foot, ob, List.erase_cons] at h ⊢ <;> grind

@[simp] theorem optTls_none : optTls none = [] := rfl
@[simp] theorem optTls_some (t : TlsO) : optTls (some t) = t.foot := rfl

theorem threadUnref_spec (t : ThreadO) : Spec t.foot (threadUnref t) (fun _ => []) := by
  intro f s fr h
  rcases t with ⟨a, _ | n⟩ <;> simp [threadUnref, ThreadO.foot, ob] at h ⊢ <;> grind

theorem threadProxy_spec (t : Option TlsO) : Spec (optTls t) (threadProxy t) optTls := by
  intro f s fr h
  rcases t with _ | ⟨a, _ | sl⟩ <;>
    simp [threadProxy, getTlsKey, TlsO.foot, Slot.foot, optTls, slotFoot, List.erase_cons] at h ⊢ <;> grind

theorem threadBody_spec (t : Option TlsO) (body : Bool) : Spec (optTls t) (threadBody t body) optTls := by
  intro f s fr h
  rcases t with _ | ⟨a, _ | sl⟩ <;> cases body <;>
    simp [threadBody, getTlsKey, TlsO.foot, Slot.foot, optTls, slotFoot, List.erase_cons] at h ⊢ <;> grind

/-- the attribute calls and `pthread_create` change neither what is held nor the names nor the allocation index -/
theorem threadStart_wp {Q : Bool → St → Prop}
    (hq : ∀ b s', s'.held = s.held → s'.names = s.names → s'.next = s.next → Q b s') : wp threadStart f s Q := by
  simp only [threadStart]
  wps
  split
  · simp only [Bool.not_false, if_true]
    wps
    exact hq _ _ rfl rfl rfl
  · simp only [Bool.not_true, Bool.false_eq_true, if_false]
    wps
    split
    · simp only [Bool.not_false, if_true]
      wps
      exact hq _ _ rfl rfl rfl
    · simp only [Bool.not_true, Bool.false_eq_true, if_false]
      wps
      split <;> exact hq _ _ rfl rfl rfl

theorem threadSetName_spec (long : Bool) (nm : Option Blk) : Spec [] (threadSetName long nm) (fun _ => []) := by
  intro f s fr h
  cases long <;> cases nm <;> simp [threadSetName] at h ⊢ <;> grind

theorem threadRun_spec (l : LibO) (tls : Option TlsO) (o : ThrOpt) :
    Spec (l.foot ++ optTls tls) (threadRun l tls o)
      (fun r => optL ThreadO.foot r.1 ++ r.2.1.foot ++ optTls r.2.2) := by
  intro f s fr h
  have h0 : s.held ~ optTls l.tls ++ (optTls tls ++ (ob l.spin ++ fr)) := by
    simp [LibO.foot] at h ⊢; permg h
  -- the name, then the thread: its proxy, the system name, its body
  have run : ∀ (nm : Option Blk) (s1 : St), s1.names = s.names →
      s1.held ~ optTls l.tls ++ (optTls tls ++ (.blk (s.next + 1) :: (ob nm ++ (ob l.spin ++ fr)))) →
      wp (threadProxy l.tls) f s1 (fun lt s2 => wp (threadSetName o.long nm) f s2 (fun _ s3 =>
        wp (threadBody tls o.body) f s3 (fun tls' s4 =>
        s4.held ~ optL ThreadO.foot (some (⟨s.next + 1, nm⟩ : ThreadO)) ++ ({ l with tls := lt } : LibO).foot ++ optTls tls' ++ fr ∧
          s4.names = s.names))) := by
    intro nm s1 hn1 h1
    apply wp_spec (threadProxy_spec l.tls) h1
    intro lt s2 h2 hn2
    apply wp_spec (threadSetName_spec o.long nm) (fr := s2.held) (by simp)
    intro _ s2' h2' hn2'
    simp only [List.nil_append] at h2'
    apply wp_spec (threadBody_spec tls o.body) (fr := optTls lt ++ (.blk (s.next + 1) :: (ob nm ++ (ob l.spin ++ fr))))
      (by have := h2'.trans h2; permg this)
    intro tls' s3 h3 hn3
    simp [ThreadO.foot, LibO.foot] at h3 ⊢
    exact ⟨by permg h3, by simp_all⟩
  simp only [threadRun]
  wps
  split
  · simpa using h
  · apply threadStart_wp
    intro ok s1 hh hn hx
    cases ok
    · simp only [Bool.not_false, if_true]
      wps
      simp [hh, hn] at h ⊢
      exact h
    · simp only [Bool.not_true, Bool.false_eq_true, if_false]
      wps
      rw [hx]
      split
      · exact run none _ (by simpa using hn) (by simp [hh]; permg h0)
      · exact run (some (s.next + 1 + 1)) _ (by simpa using hn) (by simp [hh]; permg h0)

/-! ## library loader, anonymous mappings -/
theorem loaderNew_spec (w : Nat) : Spec [] (loaderNew w) (optL LoaderO.foot) := by
  intro f s fr h
  by_cases h1 : w = 1 <;> by_cases h0 : w = 0 <;>
    simp [loaderNew, LoaderO.foot, h1, h0] <;> grind

theorem loaderFree_spec (l : LoaderO) : Spec l.foot (loaderFree l) (fun _ => []) := by
  intro f s fr h
  simp [loaderFree, LoaderO.foot] at h ⊢
  grind

theorem loaderErr_spec : Spec [] loaderErr (fun r => ob r.2) := by
  intro f s fr h
  cases hp : s.dlPending <;> simp [loaderErr, ob, hp] <;> grind

theorem mmapNew_spec (len : Nat) (e : EP) :
    Spec e.foot (mmapNew len e) (fun r => optL (fun x => [.map x.1 x.2]) r.1 ++ r.2.foot) := by
  intro f s fr h
  rcases e with _ | _ | x <;>
    simp [mmapNew, setErr, errNewLiteral, EP.foot, ErrO.foot, ob] at h ⊢ <;> grind

theorem strRealloc_spec (b : Blk) : Spec [.blk b] (strRealloc b) (fun r => [.blk r.2]) := by
  intro f s fr h
  simp [strRealloc] at h ⊢
  grind

theorem mmapUnmap_spec (i len : Nat) (e : EP) :
    Spec (.map i len :: e.foot) (mmapUnmap i len e) (fun r => (if r.1 then [] else [.map i len]) ++ r.2.foot) := by
  intro f s fr h
  rcases e with _ | _ | x <;>
    simp [mmapUnmap, setErr, errNewLiteral, EP.foot, ErrO.foot, ob] at h ⊢ <;> grind

end PV.Res

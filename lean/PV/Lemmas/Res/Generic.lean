import PV.Lemmas.Res.Wp
/-! # C20 — facts that hold for *every* `ResM` program (by induction on the program)

Descriptor discipline: the descriptors open now together with the descriptors closed so far are exactly the
descriptors issued so far, each once.  Hence no descriptor is closed twice, and when none is open any more
every descriptor the program opened has been closed exactly once. -/
namespace PV.Res
open List

def fdOf : R → Option Nat
  | .fd n => some n
  | _ => none

@[simp] theorem fdOf_blk (b : Nat) : fdOf (.blk b) = none := rfl
@[simp] theorem fdOf_map (i l : Nat) : fdOf (.map i l) = none := rfl
@[simp] theorem fdOf_key (k : Nat) : fdOf (.key k) = none := rfl
@[simp] theorem fdOf_fd (n : Nat) : fdOf (.fd n) = some n := rfl

@[simp] theorem fm_cons_blk (b : Nat) (l : List R) : (R.blk b :: l).filterMap fdOf = l.filterMap fdOf :=
  List.filterMap_cons_none rfl
@[simp] theorem fm_cons_map (i n : Nat) (l : List R) : (R.map i n :: l).filterMap fdOf = l.filterMap fdOf :=
  List.filterMap_cons_none rfl
@[simp] theorem fm_cons_key (k : Nat) (l : List R) : (R.key k :: l).filterMap fdOf = l.filterMap fdOf :=
  List.filterMap_cons_none rfl
@[simp] theorem fm_cons_fd (n : Nat) (l : List R) : (R.fd n :: l).filterMap fdOf = n :: l.filterMap fdOf :=
  List.filterMap_cons_some rfl

theorem fds_eq (s : St) : s.fds = s.held.filterMap fdOf := by
  unfold St.fds fdOf; rfl

/-- descriptors open ++ descriptors closed = descriptors issued -/
def FdWF (s : St) : Prop := s.fds ++ s.closed ~ List.range' 1 s.nextFd

theorem filterMap_erase_none {l : List R} {x : R} (hx : fdOf x = none) : (l.erase x).filterMap fdOf = l.filterMap fdOf := by
  induction l with
  | nil => rfl
  | cons a l ih =>
    by_cases h : a = x
    · subst h; simp [hx]
    · rw [List.erase_cons_tail (by simpa using h)]
      simp [List.filterMap_cons, ih]

@[simp] theorem fm_erase_blk (b : Nat) (l : List R) : (l.erase (.blk b)).filterMap fdOf = l.filterMap fdOf :=
  filterMap_erase_none rfl
@[simp] theorem fm_erase_map (i n : Nat) (l : List R) : (l.erase (.map i n)).filterMap fdOf = l.filterMap fdOf :=
  filterMap_erase_none rfl
@[simp] theorem fm_erase_key (k : Nat) (l : List R) : (l.erase (.key k)).filterMap fdOf = l.filterMap fdOf :=
  filterMap_erase_none rfl

theorem filterMap_erase_fd {l : List R} {n : Nat} (h : R.fd n ∈ l) :
    l.filterMap fdOf ~ n :: (l.erase (.fd n)).filterMap fdOf := by
  induction l with
  | nil => simp at h
  | cons a l ih =>
    by_cases ha : a = .fd n
    · subst ha; simp
    · have hm : R.fd n ∈ l := by simpa [Ne.symm ha] using h
      rw [List.erase_cons_tail (by simpa using ha)]
      cases hfa : fdOf a with
      | none => simpa [List.filterMap_cons, hfa] using ih hm
      | some k =>
        simp only [List.filterMap_cons, hfa]
        exact ((ih hm).cons k).trans (List.Perm.swap _ _ _)

theorem FdWF_of_same (s : St) {s' : St} (hf : s'.held.filterMap fdOf = s.held.filterMap fdOf) (hc : s'.closed = s.closed)
    (hn : s'.nextFd = s.nextFd) (h : FdWF s) : FdWF s' := by
  unfold FdWF at *
  rw [fds_eq] at *
  rw [hf, hc, hn]; exact h

theorem FdWF_open {s : St} (h : FdWF s) :
    FdWF { s with nextFd := s.nextFd + 1, held := .fd (s.nextFd + 1) :: s.held } := by
  unfold FdWF at *
  rw [fds_eq] at *
  simp only [List.filterMap_cons, fdOf_fd]
  rw [List.range'_concat]
  simp only [List.cons_append]
  have e1 : 1 + 1 * s.nextFd = s.nextFd + 1 := by omega
  rw [e1]
  exact (List.Perm.cons _ h).trans (List.perm_append_singleton _ _).symm

theorem FdWF_close {s : St} {n : Nat} (hm : R.fd n ∈ s.held) (h : FdWF s) :
    FdWF { s with held := s.held.erase (.fd n), closed := n :: s.closed } := by
  unfold FdWF at *
  rw [fds_eq] at *
  have := filterMap_erase_fd hm
  exact (List.perm_middle.trans ((this.symm.append_right _))).trans h

/-- **every program keeps the descriptor discipline** -/
theorem run_fdwf (m : ResM α) (f : Nat → Bool) (s : St) (h : FdWF s) (a : α) (s' : St)
    (hr : m.run f s = .ok a s') : FdWF s' := by
  induction m generalizing s with
  | ret x => simp only [ResM.run, Res.ok.injEq] at hr; exact hr.2 ▸ h
  | malloc k ih =>
    simp only [ResM.run] at hr
    split at hr
    · (refine ih _ _ ?_ hr; refine FdWF_of_same s ?_ rfl rfl h; simp)
    · (refine ih _ _ ?_ hr; refine FdWF_of_same s ?_ rfl rfl h; simp)
  | free b k ih =>
    simp only [ResM.run] at hr
    split at hr
    · (refine ih _ ?_ hr; refine FdWF_of_same s ?_ rfl rfl h; simp)
    · cases hr
  | deref p k ih =>
    simp only [ResM.run] at hr
    cases p with
    | none => cases hr
    | some b =>
      simp only [] at hr
      split at hr
      · exact ih _ h hr
      · cases hr
  | openFd k ih => simp only [ResM.run] at hr; (refine ih _ _ ?_ hr; exact FdWF_open h)
  | closeFd n k ih =>
    simp only [ResM.run] at hr
    split at hr
    · rename_i hm; refine ih _ ?_ hr; exact FdWF_close hm h
    · cases hr
  | mmap len k ih => simp only [ResM.run] at hr; (refine ih _ _ ?_ hr; refine FdWF_of_same s ?_ rfl rfl h; simp)
  | munmap i mp len k ih =>
    simp only [ResM.run] at hr
    split at hr
    · split at hr
      · (refine ih _ ?_ hr; refine FdWF_of_same s ?_ rfl rfl h; simp)
      · (refine ih _ ?_ hr; refine FdWF_of_same s ?_ rfl rfl h; simp)
    · cases hr
  | nameTest n k ih => simp only [ResM.run] at hr; exact ih _ _ h hr
  | nameCreate n sz k ih =>
    simp only [ResM.run] at hr
    split at hr
    · cases hr
    · (refine ih _ ?_ hr; refine FdWF_of_same s ?_ rfl rfl h; simp)
  | nameUnlink n k ih => simp only [ResM.run] at hr; (refine ih _ ?_ hr; refine FdWF_of_same s ?_ rfl rfl h; simp)
  | keyCreate k ih => simp only [ResM.run] at hr; (refine ih _ _ ?_ hr; refine FdWF_of_same s ?_ rfl rfl h; simp)
  | keyDelete i k ih =>
    simp only [ResM.run] at hr
    split at hr
    · (refine ih _ ?_ hr; refine FdWF_of_same s ?_ rfl rfl h; simp)
    · cases hr
  | sys nm k ih =>
    simp only [ResM.run] at hr
    split at hr
    · (refine ih _ _ ?_ hr; refine FdWF_of_same s ?_ rfl rfl h; simp)
    · exact ih _ _ h hr
  | arm nm k ih => simp only [ResM.run] at hr; (refine ih _ ?_ hr; refine FdWF_of_same s ?_ rfl rfl h; simp)
  | dlGet k ih => simp only [ResM.run] at hr; exact ih _ _ h hr
  | dlSet b k ih => simp only [ResM.run] at hr; (refine ih _ ?_ hr; refine FdWF_of_same s ?_ rfl rfl h; simp)
  | emit e k ih => simp only [ResM.run] at hr; (refine ih _ ?_ hr; refine FdWF_of_same s ?_ rfl rfl h; simp)

theorem FdWF_init : FdWF {} := by simp [FdWF, St.fds]

end PV.Res

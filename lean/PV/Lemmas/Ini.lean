import PV.Model.Ini
import PV.Spec.Ini
/-! Helper lemmas for C16 (INI parser). -/
namespace PV.Ini
open PV.Generated.Ini (commentSkip)

/-! ## generic list facts -/

theorem takeWhile_stop {α} (p : α → Bool) (a : List α) (c : α) (t : List α)
    (ha : ∀ x ∈ a, p x = true) (hc : p c = false) : (a ++ c :: t).takeWhile p = a := by
  induction a with
  | nil => simp [hc]
  | cons x a ih =>
    have hx : p x = true := ha x (by simp)
    simp only [List.cons_append, List.takeWhile_cons, hx, if_true]
    rw [ih (fun y hy => ha y (by simp [hy]))]

theorem takeWhile_all {α} (p : α → Bool) (a : List α) (ha : ∀ x ∈ a, p x = true) : a.takeWhile p = a := by
  induction a with
  | nil => rfl
  | cons x a ih =>
    have hx : p x = true := ha x (by simp)
    simp only [List.takeWhile_cons, hx, if_true]
    rw [ih (fun y hy => ha y (by simp [hy]))]

theorem dropWhile_stop {α} (p : α → Bool) (a : List α) (c : α) (t : List α)
    (ha : ∀ x ∈ a, p x = true) (hc : p c = false) : (a ++ c :: t).dropWhile p = c :: t := by
  induction a with
  | nil => simp [hc]
  | cons x a ih =>
    have hx : p x = true := ha x (by simp)
    simp only [List.cons_append, List.dropWhile_cons, hx, if_true]
    rw [ih (fun y hy => ha y (by simp [hy]))]

theorem dropWhile_all {α} (p : α → Bool) (a : List α) (ha : ∀ x ∈ a, p x = true) : a.dropWhile p = [] := by
  induction a with
  | nil => rfl
  | cons x a ih =>
    have hx : p x = true := ha x (by simp)
    simp only [List.dropWhile_cons, hx, if_true]
    rw [ih (fun y hy => ha y (by simp [hy]))]

theorem length_takeWhile_le' {α} (p : α → Bool) (l : List α) : (l.takeWhile p).length ≤ l.length := by
  induction l with
  | nil => simp
  | cons x l ih =>
    simp only [List.takeWhile_cons]
    split <;> simp <;> omega

theorem length_dropWhile_le' {α} (p : α → Bool) (l : List α) : (l.dropWhile p).length ≤ l.length := by
  induction l with
  | nil => simp
  | cons x l ih =>
    simp only [List.dropWhile_cons]
    split <;> simp <;> omega

/-! ## robustness: lengths -/

theorem splitAux_length (limit : Nat) (hl : 1 ≤ limit) (rest cur : Bytes) (n : Nat)
    (hn : n = cur.length) (hlt : n < limit) :
    ∀ c ∈ splitAux limit rest cur n, c.length ≤ limit := by
  induction rest generalizing cur n with
  | nil =>
    intro c hc
    simp only [splitAux] at hc
    split at hc
    · simp at hc
    · simp only [List.mem_singleton] at hc
      subst hc; simp; omega
  | cons b rest ih =>
    intro c hc
    simp only [splitAux] at hc
    split at hc
    · simp only [List.mem_cons] at hc
      rcases hc with hc | hc
      · subst hc; simp; omega
      · exact ih [] 0 rfl (by omega) c hc
    · rename_i hcond
      simp only [Bool.or_eq_true, decide_eq_true_eq, not_or, Nat.not_le] at hcond
      exact ih (b :: cur) (n + 1) (by simp [hn]) (by omega) c hc

/-- every `fgets` chunk fits the line buffer (leaving room for the terminating NUL) -/
theorem splitLines_length (input : Bytes) : ∀ c ∈ splitLines input, c.length ≤ maxLine := by
  intro c hc
  have := splitAux_length (PV.Generated.Ini.lineBufSize - 1) (by decide) input [] 0 rfl (by decide) c hc
  simpa [maxLine, PV.Generated.Ini.lineBufSize] using this

theorem chomp_length_le (s : Bytes) : (chomp s).length ≤ s.length := by
  unfold chomp
  simp only
  split
  · simp
  · split
    · simp
    · simp only [List.length_take, List.length_drop]; omega

theorem cstr_length_le (s : Bytes) : (cstr s).length ≤ s.length := length_takeWhile_le' _ _

theorem clip_length_le (s : Bytes) : (clip s).length ≤ s.length := by
  unfold clip; split
  · simp only [List.length_take]; omega
  · exact Nat.le_refl _

theorem clip_length_le_max (s : Bytes) : (clip s).length ≤ maxLine := by
  unfold clip; split
  · simp only [List.length_take]; omega
  · omega

theorem clip_of_le (s : Bytes) (h : s.length ≤ maxLine) : clip s = s := by
  unfold clip; split
  · omega
  · rfl

theorem lineOf_length_le (c : Bytes) : (lineOf c).length ≤ c.length := by
  unfold lineOf
  have h1 := clip_length_le (chomp (cstr (c.drop (bomShift c))))
  have h2 := chomp_length_le (cstr (c.drop (bomShift c)))
  have h3 := cstr_length_le (c.drop (bomShift c))
  have h4 : (c.drop (bomShift c)).length ≤ c.length := by simp
  omega

theorem scanRun_length_le (set : List UInt8) (w : Option Nat) (s : Bytes) : (scanRun set w s).length ≤ s.length := by
  unfold scanRun
  have := length_takeWhile_le' (fun b => !set.contains b) s
  cases w with
  | none => simpa using this
  | some n => simp only [List.length_take]; omega

/-- whatever a conversion stores is no longer than the scanned string -/
theorem scan_length_le (p : List Dir) (s : Bytes) : ∀ o ∈ scan p s, o.length ≤ s.length := by
  induction p generalizing s with
  | nil => intro o ho; simp [scan] at ho
  | cons d ds ih =>
    intro o ho
    cases d with
    | lit c =>
      cases s with
      | nil => simp [scan] at ho
      | cons b s' =>
        simp only [scan] at ho
        split at ho
        · have := ih s' o ho; simp; omega
        · simp at ho
    | ws =>
      simp only [scan] at ho
      have := ih _ o ho
      have := length_dropWhile_le' isSpace s
      omega
    | notIn set w =>
      simp only [scan] at ho
      split at ho
      · simp at ho
      · simp only [List.mem_cons] at ho
        rcases ho with ho | ho
        · subst ho; exact scanRun_length_le _ _ _
        · have := ih _ o ho
          simp only [List.length_drop] at this
          omega

/-! ## robustness: the parsed object is consistent -/

/-- every section that made it into `file->sections` has at least one key -/
def SecsOk (l : List Section) : Prop := ∀ s ∈ l, s.keys ≠ []

theorem pushSection_ok (st : PState) (h : SecsOk st.sections) : SecsOk (pushSection st) := by
  unfold pushSection
  cases hc : st.cur with
  | none => simpa using h
  | some sec =>
    simp only
    split
    · exact h
    · rename_i hne
      intro s hs
      simp only [List.mem_cons] at hs
      rcases hs with hs | hs
      · subst hs; intro he; simp [he] at hne
      · exact h s hs

theorem stepLine_ok (skip : Bool) (st : PState) (l : Bytes) (h : SecsOk st.sections) :
    SecsOk (stepLine skip st l).sections := by
  unfold stepLine
  split
  · exact pushSection_ok st h
  · split
    · exact h
    · split
      · exact h
      · split
        · exact h
        · exact h

theorem foldl_step_ok (skip : Bool) (cs : List Bytes) (st : PState) (h : SecsOk st.sections) :
    SecsOk (cs.foldl (step skip) st).sections := by
  induction cs generalizing st with
  | nil => exact h
  | cons c cs ih =>
    rw [List.foldl_cons]
    apply ih
    show SecsOk (stepLine skip st (lineOf c)).sections
    exact stepLine_ok skip st (lineOf c) h

theorem finish_ok (st : PState) (h : SecsOk st.sections) : SecsOk (finish st) := by
  unfold finish
  cases hc : st.cur with
  | none => simpa using h
  | some sec =>
    simp only
    split
    · exact h
    · rename_i hne
      intro s hs
      simp only [List.mem_append, List.mem_singleton] at hs
      rcases hs with hs | hs
      · exact h s hs
      · subst hs; intro he; simp [he] at hne

theorem parseWith_ok (skip : Bool) (input : Bytes) : SecsOk (parseWith skip input) := by
  unfold parseWith
  exact finish_ok _ (foldl_step_ok skip _ _ (by intro s hs; simp at hs))

theorem foldl_cons_eq {α β} (g : α → β) (l : List α) (acc : List β) :
    l.foldl (fun acc x => g x :: acc) acc = (l.map g).reverse ++ acc := by
  induction l generalizing acc with
  | nil => rfl
  | cons x l ih => simp [List.foldl_cons, ih]

theorem sections_eq (f : IniFile) : sections f = (f.map (·.name)).reverse := by
  unfold sections; rw [foldl_cons_eq]; simp

theorem keys_of_find (f : IniFile) (n : Bytes) (s : Section) (h : findSection f n = some s) :
    keys f n = (s.keys.map (·.1)).reverse := by
  unfold keys; rw [h]; simp only; rw [foldl_cons_eq]; simp

theorem consistent_of_ok (f : IniFile) (h : SecsOk f) :
    ∀ n ∈ sections f, keys f n ≠ [] ∧
      ∀ k ∈ keys f n, isKeyExists f n k = true ∧ (findParameter f n k).isSome = true := by
  intro n hn
  rw [sections_eq] at hn
  simp only [List.mem_reverse, List.mem_map] at hn
  obtain ⟨s0, hs0, hname⟩ := hn
  have hsome : (findSection f n).isSome = true := by
    unfold findSection
    rw [List.find?_isSome]
    exact ⟨s0, hs0, by simp [hname]⟩
  obtain ⟨s, hs⟩ := Option.isSome_iff_exists.mp hsome
  have hmem : s ∈ f := List.mem_of_find?_eq_some hs
  have hk := h s hmem
  rw [keys_of_find f n s hs]
  refine ⟨by simpa using hk, ?_⟩
  intro k hkm
  simp only [List.mem_reverse, List.mem_map] at hkm
  obtain ⟨p, hp, hpk⟩ := hkm
  constructor
  · unfold isKeyExists; rw [hs]; simp only [List.any_eq_true]
    exact ⟨p, hp, by simp [hpk]⟩
  · unfold findParameter; rw [hs]; simp only [Option.isSome_map]
    rw [List.find?_isSome]
    exact ⟨p, hp, by simp [hpk]⟩

/-! ## `p_strchomp` on the shapes that occur in rendered lines -/

def AllSpace (s : Bytes) : Prop := ∀ x ∈ s, isSpace x = true

theorem chompStart_eq (s : Bytes) (p e : Nat) :
    chompStart s p e = p + min (s.takeWhile isSpace).length (e - 1 - p) := by
  induction s generalizing p with
  | nil => simp [chompStart]
  | cons c cs ih =>
    simp only [chompStart, List.takeWhile_cons]
    by_cases hc : isSpace c = true
    · by_cases hp : p + 1 < e
      · simp only [hp, hc, decide_true, Bool.and_self, if_true, ih, List.length_cons]
        omega
      · simp only [hp, decide_false, Bool.false_and, hc, if_true, List.length_cons, Bool.false_eq_true, if_false]
        omega
    · simp [hc]

theorem chompEnd_eq (r : Bytes) (e : Nat) :
    chompEnd r e = e - min (r.takeWhile isSpace).length (e - 1) := by
  induction r generalizing e with
  | nil => simp [chompEnd]
  | cons c cs ih =>
    simp only [chompEnd, List.takeWhile_cons]
    by_cases hc : isSpace c = true
    · by_cases hp : e > 1
      · simp only [hp, hc, decide_true, Bool.and_self, if_true, ih, List.length_cons]
        omega
      · simp only [hp, decide_false, Bool.false_and, hc, if_true, List.length_cons, Bool.false_eq_true, if_false]
        omega
    · simp [hc]

/-- blanks, a block that starts and ends with a non-blank byte, blanks: `p_strchomp` returns the block -/
theorem chomp_sandwich (lead t : Bytes) (y0 y1 : UInt8) (Y' Y'' : Bytes)
    (hl : AllSpace lead) (ht : AllSpace t) (hy0 : isSpace y0 = false) (hy1 : isSpace y1 = false)
    (hY : y0 :: Y' = Y'' ++ [y1]) :
    chomp (lead ++ (y0 :: Y') ++ t) = y0 :: Y' := by
  have hlen : (y0 :: Y').length = Y''.length + 1 := by rw [hY]; simp
  have h1 : (lead ++ (y0 :: Y') ++ t).takeWhile isSpace = lead := by
    rw [List.append_assoc, List.cons_append]
    exact takeWhile_stop isSpace lead y0 _ hl hy0
  have h2 : (lead ++ (y0 :: Y') ++ t).reverse.takeWhile isSpace = t.reverse := by
    rw [hY]
    simp only [List.reverse_append, List.reverse_cons, List.nil_append,
      List.append_assoc, List.cons_append]
    exact takeWhile_stop isSpace t.reverse y1 _ (fun x hx => ht x (by simpa using hx)) hy1
  unfold chomp
  simp only [chompStart_eq, chompEnd_eq, h1, h2, List.length_reverse]
  have hL : (lead ++ (y0 :: Y') ++ t).length = lead.length + (Y''.length + 1) + t.length := by
    simp only [List.length_append, hlen]
  rw [hL]
  have e1 : min lead.length (lead.length + (Y''.length + 1) + t.length - 1 - 0) = lead.length := by
    omega
  have e2 : min t.length (lead.length + (Y''.length + 1) + t.length - 1) = t.length := by
    omega
  rw [e1, e2]
  have hget : (lead ++ (y0 :: Y') ++ t).getD (0 + lead.length) 0 = y0 := by
    simp [List.getD_eq_getElem?_getD]
  rw [hget, hy0]
  have c1 : ¬ (lead.length + (Y''.length + 1) + t.length - t.length < 0 + lead.length + 1) := by omega
  simp only [c1, if_false, Bool.and_false, Bool.false_eq_true]
  have c2 : lead.length + (Y''.length + 1) + t.length - t.length - (0 + lead.length) = (y0 :: Y').length := by
    rw [hlen]; omega
  rw [c2, List.append_assoc, Nat.zero_add, List.drop_left, List.take_left]

theorem chomp_allSpace (t : Bytes) (ht : AllSpace t) : chomp t = [] := by
  have h1 : t.takeWhile isSpace = t := takeWhile_all _ _ ht
  have h2 : t.reverse.takeWhile isSpace = t.reverse := takeWhile_all _ _ (fun x hx => ht x (by simpa using hx))
  unfold chomp
  simp only [chompStart_eq, chompEnd_eq, h1, h2, List.length_reverse]
  match t, ht with
  | [], _ => simp
  | [x], ht => have := ht x (by simp); simp [this]
  | x :: y :: r, _ =>
    have : (x :: y :: r).length - min (x :: y :: r).length ((x :: y :: r).length - 1)
        < 0 + min (x :: y :: r).length ((x :: y :: r).length - 1 - 0) + 1 := by
      simp only [List.length_cons]; omega
    simp only [this, if_true]

/-- a block without blanks at its ends is left alone -/
theorem chomp_trimmed (y0 y1 : UInt8) (Y' Y'' : Bytes) (hy0 : isSpace y0 = false) (hy1 : isSpace y1 = false)
    (hY : y0 :: Y' = Y'' ++ [y1]) : chomp (y0 :: Y') = y0 :: Y' := by
  have := chomp_sandwich [] [] y0 y1 Y' Y'' (by intro x hx; simp at hx) (by intro x hx; simp at hx) hy0 hy1 hY
  simpa using this

theorem chomp_sandwich' (lead Y t : Bytes) (a b : UInt8) (hl : AllSpace lead) (ht : AllSpace t)
    (ha : Y.head? = some a) (hb : Y.getLast? = some b) (hsa : isSpace a = false) (hsb : isSpace b = false) :
    chomp (lead ++ Y ++ t) = Y := by
  cases Y with
  | nil => simp at ha
  | cons y0 Y' =>
    simp only [List.head?_cons, Option.some.injEq] at ha
    subst ha
    obtain ⟨ys, hY⟩ := List.getLast?_eq_some_iff.mp hb
    exact chomp_sandwich lead t y0 b Y' ys hl ht hsa hsb hY

/-- any string is a block that does not end in a blank, followed by blanks -/
theorem rtrim_decomp (u : Bytes) :
    ∃ u' t, u = u' ++ t ∧ AllSpace t ∧ (u' = [] ∨ ∃ y, u'.getLast? = some y ∧ isSpace y = false) := by
  induction u with
  | nil => exact ⟨[], [], rfl, by intro x hx; simp at hx, Or.inl rfl⟩
  | cons x v ih =>
    obtain ⟨v', t, hv, ht, hc⟩ := ih
    rcases hc with hc | ⟨y, hy, hys⟩
    · subst hc
      by_cases hx : isSpace x = true
      · refine ⟨[], x :: t, by simp [hv], ?_, Or.inl rfl⟩
        intro z hz; simp only [List.mem_cons] at hz
        rcases hz with hz | hz
        · subst hz; exact hx
        · exact ht z hz
      · exact ⟨[x], t, by simp [hv], ht, Or.inr ⟨x, by simp, by simpa using hx⟩⟩
    · refine ⟨x :: v', t, by simp [hv], ht, Or.inr ⟨y, ?_, hys⟩⟩
      cases v' with
      | nil => simp at hy
      | cons w v'' => simpa [List.getLast?_cons_cons] using hy

/-! ## `p_strchomp` is `trim` -/

theorem isSpace_eq : isSpace = IniSpec.isSpace := rfl

theorem dropWhile_append_stop {α} (p : α → Bool) (a : List α) (c : α) (t : List α)
    (ha : ∀ x ∈ a, p x = true) (hc : p c = false) : (a ++ c :: t).dropWhile p = c :: t := by
  induction a with
  | nil => simp [List.dropWhile, hc]
  | cons x xs ih =>
    have hx := ha x (by simp)
    simp only [List.cons_append, List.dropWhile_cons, hx, if_true]
    exact ih (fun y hy => ha y (by simp [hy]))

/-- any string is blanks followed by a block that does not start with a blank -/
theorem ltrim_decomp (s : Bytes) :
    ∃ l u, s = l ++ u ∧ AllSpace l ∧ u = s.dropWhile isSpace ∧ (u = [] ∨ ∃ y, u.head? = some y ∧ isSpace y = false) := by
  induction s with
  | nil => exact ⟨[], [], rfl, by intro x hx; simp at hx, rfl, Or.inl rfl⟩
  | cons x v ih =>
    by_cases hx : isSpace x = true
    · obtain ⟨l, u, hv, hl, hu, hc⟩ := ih
      refine ⟨x :: l, u, by simp [hv], ?_, ?_, hc⟩
      · intro z hz; simp only [List.mem_cons] at hz
        rcases hz with hz | hz
        · subst hz; exact hx
        · exact hl z hz
      · simp [List.dropWhile_cons, hx, hu]
    · refine ⟨[], x :: v, rfl, by intro z hz; simp at hz, ?_, Or.inr ⟨x, rfl, by simpa using hx⟩⟩
      simp [List.dropWhile_cons, hx]

theorem chomp_eq_trim (s : Bytes) : chomp s = IniSpec.trim s := by
  obtain ⟨l, u, hs, hl, hu, hc⟩ := ltrim_decomp s
  obtain ⟨u', t, hu2, ht, hc2⟩ := rtrim_decomp u
  unfold IniSpec.trim
  rw [← isSpace_eq, ← hu]
  rcases hc2 with hnil | ⟨y, hy, hys⟩
  · -- everything is blank
    subst hnil
    simp only [List.nil_append] at hu2
    have hall : AllSpace s := by
      intro x hx; rw [hs] at hx
      rcases List.mem_append.mp hx with h | h
      · exact hl x h
      · rw [hu2] at h; exact ht x h
    rw [chomp_allSpace s hall, hu2]
    have : t.reverse.dropWhile isSpace = [] := dropWhile_all _ _ (fun x hx => ht x (by simpa using hx))
    rw [this]; rfl
  · -- u' is a non-empty block ending in a non-blank; it also starts with a non-blank
    have hne : u' ≠ [] := by intro h; rw [h] at hy; simp at hy
    obtain ⟨a, ha, has⟩ : ∃ a, u'.head? = some a ∧ isSpace a = false := by
      rcases hc with h | ⟨a, ha, has⟩
      · rw [h] at hu2
        have : u' = [] := by
          have := congrArg List.length hu2; simp at this; exact List.eq_nil_of_length_eq_zero (by omega)
        exact absurd this hne
      · refine ⟨a, ?_, has⟩
        rw [hu2] at ha
        cases u' with
        | nil => exact absurd rfl hne
        | cons b bs => simpa using ha
    have h1 : chomp s = u' := by
      rw [hs, hu2, ← List.append_assoc]
      exact chomp_sandwich' l u' t a y hl ht ha hy has hys
    rw [h1, hu2]
    obtain ⟨ys, hY⟩ := List.getLast?_eq_some_iff.mp hy
    rw [hY]
    simp only [List.reverse_append, List.reverse_cons, List.reverse_nil, List.nil_append, List.singleton_append]
    rw [dropWhile_append_stop isSpace t.reverse y ys.reverse (fun x hx => ht x (by simpa using hx)) hys]
    simp

/-! ## `sscanf` on the shapes that occur in rendered lines -/

theorem scanRun_stop (set : List UInt8) (a : Bytes) (c : UInt8) (t : Bytes)
    (ha : ∀ x ∈ a, x ∉ set) (hc : c ∈ set) : scanRun set none (a ++ c :: t) = a := by
  unfold scanRun
  simp only
  exact takeWhile_stop _ a c t (fun x hx => by simpa using ha x hx) (by simpa using hc)

theorem scanRun_end (set : List UInt8) (a : Bytes) (ha : ∀ x ∈ a, x ∉ set) : scanRun set none a = a := by
  unfold scanRun
  simp only
  exact takeWhile_all _ a (fun x hx => by simpa using ha x hx)

theorem scan_lit_nil (q : UInt8) (ds : List Dir) : scan (.lit q :: ds) [] = [] := by simp [scan]

theorem scan_lit_ne (q r : UInt8) (R : Bytes) (ds : List Dir) (h : r ≠ q) : scan (.lit q :: ds) (r :: R) = [] := by
  simp [scan, h]

theorem scan_lit_eq (q : UInt8) (R : Bytes) (ds : List Dir) : scan (.lit q :: ds) (q :: R) = scan ds R := by
  simp [scan]

/-- `%[^=] = ` on `K = post R` -/
theorem scan_key (ds : List Dir) (K post R : Bytes) (hK : K ≠ []) (hK61 : ∀ x ∈ K, x ∉ [(61 : UInt8)])
    (hpost : AllSpace post) (hR : R = [] ∨ ∃ r R', R = r :: R' ∧ isSpace r = false) :
    scan (patKey :: .ws :: .lit 61 :: .ws :: ds) (K ++ 61 :: (post ++ R)) = K :: scan ds R := by
  have h1 : scanRun [61] none (K ++ 61 :: (post ++ R)) = K := scanRun_stop [61] K 61 _ hK61 (by simp)
  have h2 : (post ++ R).dropWhile isSpace = R := by
    rcases hR with hR | ⟨r, R', hR, hr⟩
    · subst hR; simpa using dropWhile_all isSpace post hpost
    · subst hR; exact dropWhile_stop isSpace post r R' hpost hr
  have h3 : K.isEmpty = false := by cases K with | nil => exact absurd rfl hK | cons _ _ => rfl
  have h4 : isSpace 61 = false := by decide
  simp only [patKey, scan, h1, h3, List.drop_left, List.dropWhile_cons, h4, h2]
  simp [h2]

theorem scan_quoted (q : UInt8) (V rest : Bytes) (hV : V ≠ []) (hq : ∀ x ∈ V, x ∉ [q]) :
    scan [.lit q, .notIn [q] none, .lit q] (q :: (V ++ q :: rest)) = [V] := by
  have h1 : scanRun [q] none (V ++ q :: rest) = V := scanRun_stop [q] V q _ hq (by simp)
  have h3 : V.isEmpty = false := by cases V with | nil => exact absurd rfl hV | cons _ _ => rfl
  simp [scan, h1, h3]

theorem scan_quoted_empty (q : UInt8) (rest : Bytes) :
    scan [.lit q, .notIn [q] none, .lit q] (q :: q :: rest) = [] := by
  simp [scan, scanRun]

theorem scan_plain_stop (V : Bytes) (m : UInt8) (rest : Bytes) (hV : V ≠ [])
    (h : ∀ x ∈ V, x ∉ [(59 : UInt8), 35]) (hm : m ∈ [(59 : UInt8), 35]) :
    scan [.notIn [59, 35] none] (V ++ m :: rest) = [V] := by
  have h1 : scanRun [59, 35] none (V ++ m :: rest) = V := scanRun_stop _ V m _ h hm
  have h3 : V.isEmpty = false := by cases V with | nil => exact absurd rfl hV | cons _ _ => rfl
  simp [scan, h1, h3]

theorem scan_plain_end (V : Bytes) (hV : V ≠ []) (h : ∀ x ∈ V, x ∉ [(59 : UInt8), 35]) :
    scan [.notIn [59, 35] none] V = [V] := by
  have h1 : scanRun [59, 35] none V = V := scanRun_end _ V h
  have h3 : V.isEmpty = false := by cases V with | nil => exact absurd rfl hV | cons _ _ => rfl
  simp [scan, h1, h3]

/-! ## the key/value cascade -/

def RStart (R : Bytes) : Prop := R = [] ∨ ∃ r R', R = r :: R' ∧ isSpace r = false

/-- the first two formats stop after the key, the third one stores `W` -/
theorem kv_fallthrough (K post R W : Bytes) (hK : K ≠ []) (hK61 : ∀ x ∈ K, x ∉ [(61 : UInt8)])
    (hpost : AllSpace post) (hR : RStart R)
    (h1 : scan [.lit 34, .notIn [34] none, .lit 34] R = [])
    (h2 : scan [.lit 39, .notIn [39] none, .lit 39] R = [])
    (h3 : scan [.notIn [59, 35] none] R = [W]) :
    kvCascade kvPatterns (K ++ 61 :: (post ++ R)) = some (K, W) := by
  simp only [kvPatterns, kvCascade, patDq, patSq, patPlain, scan_key _ K post R hK hK61 hpost hR, h1, h2, h3]

theorem kv_dq (K post V rest : Bytes) (hK : K ≠ []) (hK61 : ∀ x ∈ K, x ∉ [(61 : UInt8)])
    (hpost : AllSpace post) (hV : V ≠ []) (hq : ∀ x ∈ V, x ∉ [(34 : UInt8)]) :
    kvCascade kvPatterns (K ++ 61 :: (post ++ 34 :: (V ++ 34 :: rest))) = some (K, V) := by
  have hR : RStart (34 :: (V ++ 34 :: rest)) := Or.inr ⟨34, _, rfl, by decide⟩
  simp only [kvPatterns, kvCascade, patDq, scan_key _ K post _ hK hK61 hpost hR, scan_quoted 34 V rest hV hq]

theorem kv_sq (K post V rest : Bytes) (hK : K ≠ []) (hK61 : ∀ x ∈ K, x ∉ [(61 : UInt8)])
    (hpost : AllSpace post) (hV : V ≠ []) (hq : ∀ x ∈ V, x ∉ [(39 : UInt8)]) :
    kvCascade kvPatterns (K ++ 61 :: (post ++ 39 :: (V ++ 39 :: rest))) = some (K, V) := by
  have hR : RStart (39 :: (V ++ 39 :: rest)) := Or.inr ⟨39, _, rfl, by decide⟩
  have hne : scan [.lit 34, .notIn [34] none, .lit 34] (39 :: (V ++ 39 :: rest)) = [] :=
    scan_lit_ne 34 39 _ _ (by decide)
  simp only [kvPatterns, kvCascade, patDq, patSq, scan_key _ K post _ hK hK61 hpost hR, hne,
    scan_quoted 39 V rest hV hq]

/-- nothing after the '=' but, possibly, a comment: none of the three formats stores a value -/
theorem kv_none (K post R : Bytes) (hK : K ≠ []) (hK61 : ∀ x ∈ K, x ∉ [(61 : UInt8)])
    (hpost : AllSpace post) (hR : R = [] ∨ ∃ m u, R = m :: u ∧ (m = 59 ∨ m = 35)) :
    kvCascade kvPatterns (K ++ 61 :: (post ++ R)) = none := by
  have hRS : RStart R := by
    rcases hR with h | ⟨m, u, h, hm⟩
    · exact Or.inl h
    · exact Or.inr ⟨m, u, h, by rcases hm with hm | hm <;> subst hm <;> decide⟩
  have h1 : scan [.lit 34, .notIn [34] none, .lit 34] R = [] := by
    rcases hR with h | ⟨m, u, h, hm⟩
    · subst h; exact scan_lit_nil _ _
    · subst h; exact scan_lit_ne 34 m _ _ (by rcases hm with hm | hm <;> subst hm <;> decide)
  have h2 : scan [.lit 39, .notIn [39] none, .lit 39] R = [] := by
    rcases hR with h | ⟨m, u, h, hm⟩
    · subst h; exact scan_lit_nil _ _
    · subst h; exact scan_lit_ne 39 m _ _ (by rcases hm with hm | hm <;> subst hm <;> decide)
  have h3 : scan [.notIn [59, 35] none] R = [] := by
    rcases hR with h | ⟨m, u, h, hm⟩
    · subst h; simp [scan, scanRun]
    · subst h; rcases hm with hm | hm <;> subst hm <;> simp [scan, scanRun]
  simp only [kvPatterns, kvCascade, patDq, patSq, patPlain, scan_key _ K post R hK hK61 hpost hRS, h1, h2, h3]

/-- what the loop does with a stored pair -/
def addKey (st : PState) (kv : Bytes × Bytes) : PState :=
  match st.cur with
  | none => st
  | some sec => { st with cur := some { sec with keys := kv :: sec.keys } }

theorem stepLine_kv (st : PState) (T K rawv key v1 value : Bytes)
    (h91 : bufAt T 0 ≠ 91) (h35 : bufAt T 0 ≠ 35) (h59 : bufAt T 0 ≠ 59)
    (hcas : kvCascade kvPatterns T = some (K, rawv))
    (hkey : clip (chomp K) = key) (hv1 : clip (chomp rawv) = v1)
    (hfix : (if v1 == [34, 34] || v1 == [39, 39] then [] else v1) = value) :
    stepLine true st T = addKey st (key, value) := by
  have e91 : (bufAt T 0 == 91) = false := by simp [h91]
  have e35 : (bufAt T 0 == 35) = false := by simp [h35]
  have e59 : (bufAt T 0 == 59) = false := by simp [h59]
  unfold stepLine addKey
  simp only [e91, e35, e59, Bool.false_and, Bool.or_self, Bool.and_false, Bool.false_eq_true, if_false,
    hcas, hkey, hv1, hfix]
  cases st.cur <;> rfl

theorem stepLine_none (st : PState) (T : Bytes)
    (h91 : bufAt T 0 ≠ 91) (hcas : kvCascade kvPatterns T = none) : stepLine true st T = st := by
  have e91 : (bufAt T 0 == 91) = false := by simp [h91]
  unfold stepLine
  simp only [e91, Bool.false_and, Bool.false_eq_true, if_false, hcas]
  split <;> rfl

theorem stepLine_comment (st : PState) (T : Bytes) (h : bufAt T 0 = 35 ∨ bufAt T 0 = 59) :
    stepLine true st T = st := by
  unfold stepLine
  rcases h with h | h <;> simp [h]

theorem stepLine_header (st : PState) (pre name post : Bytes) (hpre : AllSpace pre) (hpost : AllSpace post)
    (a b : UInt8) (ha : name.head? = some a) (hb : name.getLast? = some b)
    (hsa : isSpace a = false) (hsb : isSpace b = false) (h93 : ∀ x ∈ name, x ∉ [(93 : UInt8)])
    (hlen : name.length ≤ maxLine) :
    stepLine true st (91 :: (pre ++ name ++ post ++ [93])) =
      { sections := pushSection st, cur := some { name := name, keys := [] } } := by
  have hrun : scanRun [93] none (pre ++ name ++ post ++ [93]) = pre ++ name ++ post := by
    apply scanRun_stop [93] (pre ++ name ++ post) 93 [] _ (by simp)
    intro x hx
    simp only [List.mem_append] at hx
    rcases hx with (hx | hx) | hx
    · intro h; simp only [List.mem_singleton] at h; subst h; have := hpre _ hx; revert this; decide
    · exact h93 x hx
    · intro h; simp only [List.mem_singleton] at h; subst h; have := hpost _ hx; revert this; decide
  have hne : (pre ++ name ++ post).isEmpty = false := by
    cases name with
    | nil => simp at ha
    | cons _ _ => simp
  have hscan : scan patSection (91 :: (pre ++ name ++ post ++ [93])) = [pre ++ name ++ post] := by
    simp only [patSection, scan, hrun, hne]
    simp
  have hchomp : chomp (pre ++ name ++ post) = name := chomp_sandwich' pre name post a b hpre hpost ha hb hsa hsb
  have hlast : (91 :: (pre ++ name ++ post ++ [93])).getLast? = some 93 :=
    List.getLast?_eq_some_iff.mpr ⟨91 :: (pre ++ name ++ post), by simp⟩
  have h0 : bufAt (91 :: (pre ++ name ++ post ++ [93])) 0 = 91 := by simp [bufAt]
  unfold stepLine
  simp only [hscan, hlast, h0, List.getD_cons_zero, hchomp, clip_of_le name hlen, List.length_singleton,
    beq_self_eq_true, Bool.and_self, if_true]

/-! ## a `key = value` line after `p_strchomp` -/

/-- what follows the value on the chomped line: nothing, or blanks and a comment -/
def Tail (trail tail : Bytes) : Prop :=
  tail = [] ∨ ∃ m u, tail = trail ++ m :: u ∧ m ∈ [(59 : UInt8), 35]

/-- first and last byte exist and are not white space -/
def Trimmed (s : Bytes) : Prop :=
  ∃ a b, s.head? = some a ∧ s.getLast? = some b ∧ isSpace a = false ∧ isSpace b = false

theorem Trimmed.ne_nil {s : Bytes} (h : Trimmed s) : s ≠ [] := by
  obtain ⟨a, _, ha, _⟩ := h
  intro e; subst e; simp at ha

theorem chomp_of_trimmed_append (s t : Bytes) (h : Trimmed s) (ht : AllSpace t) : chomp (s ++ t) = s := by
  obtain ⟨a, b, ha, hb, hsa, hsb⟩ := h
  have := chomp_sandwich' [] s t a b (by intro x hx; simp at hx) ht ha hb hsa hsb
  simpa using this

theorem AllSpace.not_mem {t : Bytes} (ht : AllSpace t) (c : UInt8) (hc : isSpace c = false) : c ∉ t := by
  intro h; have := ht c h; rw [hc] at this; exact absurd this (by decide)

/-- the plain (third) format on `W tail` where `W` holds no comment marker -/
theorem scan_plain_tail (V trail tail : Bytes) (hV : V ≠ []) (hVm : ∀ x ∈ V, x ∉ [(59 : UInt8), 35])
    (htr : AllSpace trail) (ht : Tail trail tail) :
    ∃ W, scan [.notIn [59, 35] none] (V ++ tail) = [W] ∧ ∃ t', W = V ++ t' ∧ AllSpace t' := by
  rcases ht with ht | ⟨m, u, ht, hm⟩
  · subst ht
    exact ⟨V, by simpa using scan_plain_end V hV hVm, [], by simp, by intro x hx; simp at hx⟩
  · subst ht
    refine ⟨V ++ trail, ?_, trail, rfl, htr⟩
    have hne : V ++ trail ≠ [] := by simp [hV]
    have hno : ∀ x ∈ V ++ trail, x ∉ [(59 : UInt8), 35] := by
      intro x hx
      simp only [List.mem_append] at hx
      rcases hx with hx | hx
      · exact hVm x hx
      · intro h
        simp only [List.mem_cons, List.mem_nil_iff, or_false] at h
        rcases h with h | h <;> subst h
        · exact htr.not_mem 59 (by decide) hx
        · exact htr.not_mem 35 (by decide) hx
    have := scan_plain_stop (V ++ trail) m u hne hno hm
    simpa [List.append_assoc] using this

inductive QStyle where
  | none | single | double

def QStyle.bytes : QStyle → Bytes
  | .none => []
  | .single => [39]
  | .double => [34]

/-- the conditions `IniSpec.Entry.wf` puts on a value, per quoting style -/
def ValueOk : QStyle → Bytes → Prop
  | .none, v => Trimmed v ∧ (∀ x ∈ v, x ∉ [(59 : UInt8), 35]) ∧ v.head? ≠ some 34 ∧ v.head? ≠ some 39
  | .single, v => (∀ x ∈ v, x ∉ [(39 : UInt8)]) ∧ chomp v ≠ [34, 34]
  | .double, v => (∀ x ∈ v, x ∉ [(34 : UInt8)]) ∧ chomp v ≠ [39, 39]

/-- the value that ends up stored: an unquoted one as it is, a quoted one without the blanks at its ends -/
def storedValue : QStyle → Bytes → Bytes
  | .none, v => v
  | _, v => chomp v

theorem chomp_subset (s : Bytes) : ∀ x ∈ chomp s, x ∈ s := by
  intro x hx
  unfold chomp at hx
  simp only at hx
  split at hx
  · simp at hx
  · split at hx
    · simp at hx
    · exact List.mem_of_mem_drop (List.mem_of_mem_take hx)

theorem chomp_nil : chomp [] = [] := by decide

/-- the cascade on `K = post [q]value[q] tail` stores `K` and a string that chomps (and un-quotes) to the stored value -/
theorem entry_cascade (K post value trail tail : Bytes) (q : QStyle)
    (hK : K ≠ []) (hK61 : ∀ x ∈ K, x ∉ [(61 : UInt8)]) (hpost : AllSpace post) (htr : AllSpace trail)
    (hv : ValueOk q value) (ht : Tail trail tail) :
    ∃ rawv, kvCascade kvPatterns (K ++ 61 :: (post ++ (q.bytes ++ value ++ q.bytes ++ tail))) = some (K, rawv)
      ∧ rawv.length ≤ (q.bytes ++ value ++ q.bytes ++ tail).length
      ∧ (if chomp rawv == [34, 34] || chomp rawv == [39, 39] then [] else chomp rawv) = storedValue q value := by
  cases q with
  | none =>
    obtain ⟨htrim, hm, h34, h39⟩ := hv
    obtain ⟨a, b, ha, hb, hsa, hsb⟩ := htrim
    cases value with
    | nil => simp at ha
    | cons v0 v' =>
      simp only [List.head?_cons, Option.some.injEq] at ha
      have h34 : v0 ≠ 34 := fun h => h34 (by simp [h])
      have h39 : v0 ≠ 39 := fun h => h39 (by simp [h])
      subst ha
      obtain ⟨W, hW, t', hWt, ht'⟩ := scan_plain_tail (v0 :: v') trail tail (by simp) hm htr ht
      have hR : RStart ((v0 :: v') ++ tail) := Or.inr ⟨v0, v' ++ tail, rfl, hsa⟩
      have h1 : scan [.lit 34, .notIn [34] none, .lit 34] ((v0 :: v') ++ tail) = [] :=
        scan_lit_ne 34 v0 _ _ h34
      have h2 : scan [.lit 39, .notIn [39] none, .lit 39] ((v0 :: v') ++ tail) = [] :=
        scan_lit_ne 39 v0 _ _ h39
      have hc := kv_fallthrough K post _ W hK hK61 hpost hR h1 h2 hW
      have hchomp : chomp W = v0 :: v' := by
        rw [hWt]; exact chomp_of_trimmed_append _ t' ⟨v0, b, rfl, hb, hsa, hsb⟩ ht'
      refine ⟨W, by simpa [QStyle.bytes] using hc, ?_, ?_⟩
      · have := scan_length_le [.notIn [59, 35] none] ((v0 :: v') ++ tail) W (by rw [hW]; simp)
        simpa [QStyle.bytes] using this
      · rw [hchomp]
        have e1 : ((v0 :: v') == [34, 34]) = false := by
          simp only [beq_eq_false_iff_ne, ne_eq]; intro h; injection h with h _; exact h34 h
        have e2 : ((v0 :: v') == [39, 39]) = false := by
          simp only [beq_eq_false_iff_ne, ne_eq]; intro h; injection h with h _; exact h39 h
        simp [e1, e2, storedValue]
  | double =>
    obtain ⟨hq, hne⟩ := hv
    by_cases hte : value = []
    · -- `""`: the first two formats fail, the plain one stores the quotes, which are then dropped
      subst hte
      have hVm : ∀ x ∈ [(34 : UInt8), 34], x ∉ [(59 : UInt8), 35] := by decide
      obtain ⟨W, hW, t', hWt, ht'⟩ := scan_plain_tail [34, 34] trail tail (by simp) hVm htr ht
      have hR : RStart ([34, 34] ++ tail) := Or.inr ⟨34, 34 :: tail, rfl, by decide⟩
      have h1 : scan [.lit 34, .notIn [34] none, .lit 34] ([34, 34] ++ tail) = [] := scan_quoted_empty 34 tail
      have h2 : scan [.lit 39, .notIn [39] none, .lit 39] ([34, 34] ++ tail) = [] :=
        scan_lit_ne 39 34 _ _ (by decide)
      have hc := kv_fallthrough K post _ W hK hK61 hpost hR h1 h2 hW
      have hchomp : chomp W = [34, 34] := by
        rw [hWt]; exact chomp_of_trimmed_append _ t' ⟨34, 34, rfl, rfl, by decide, by decide⟩ ht'
      refine ⟨W, by simpa [QStyle.bytes] using hc, ?_, ?_⟩
      · have := scan_length_le [.notIn [59, 35] none] ([34, 34] ++ tail) W (by rw [hW]; simp)
        simpa [QStyle.bytes] using this
      · rw [hchomp]; simp [storedValue, chomp_nil]
    · have hc := kv_dq K post value tail hK hK61 hpost hte hq
      refine ⟨value, by simpa [QStyle.bytes] using hc, by simp [QStyle.bytes]; omega, ?_⟩
      have e1 : (chomp value == [34, 34]) = false := by
        simp only [beq_eq_false_iff_ne, ne_eq]; intro h
        exact hq 34 (chomp_subset value 34 (by rw [h]; simp)) (by simp)
      have e2 : (chomp value == [39, 39]) = false := by simp [hne]
      simp [e1, e2, storedValue]
  | single =>
    obtain ⟨hq, hne⟩ := hv
    by_cases hte : value = []
    · subst hte
      have hVm : ∀ x ∈ [(39 : UInt8), 39], x ∉ [(59 : UInt8), 35] := by decide
      obtain ⟨W, hW, t', hWt, ht'⟩ := scan_plain_tail [39, 39] trail tail (by simp) hVm htr ht
      have hR : RStart ([39, 39] ++ tail) := Or.inr ⟨39, 39 :: tail, rfl, by decide⟩
      have h1 : scan [.lit 34, .notIn [34] none, .lit 34] ([39, 39] ++ tail) = [] :=
        scan_lit_ne 34 39 _ _ (by decide)
      have h2 : scan [.lit 39, .notIn [39] none, .lit 39] ([39, 39] ++ tail) = [] := scan_quoted_empty 39 tail
      have hc := kv_fallthrough K post _ W hK hK61 hpost hR h1 h2 hW
      have hchomp : chomp W = [39, 39] := by
        rw [hWt]; exact chomp_of_trimmed_append _ t' ⟨39, 39, rfl, rfl, by decide, by decide⟩ ht'
      refine ⟨W, by simpa [QStyle.bytes] using hc, ?_, ?_⟩
      · have := scan_length_le [.notIn [59, 35] none] ([39, 39] ++ tail) W (by rw [hW]; simp)
        simpa [QStyle.bytes] using this
      · rw [hchomp]; simp [storedValue, chomp_nil]
    · have hc := kv_sq K post value tail hK hK61 hpost hte hq
      refine ⟨value, by simpa [QStyle.bytes] using hc, by simp [QStyle.bytes]; omega, ?_⟩
      have e1 : (chomp value == [39, 39]) = false := by
        simp only [beq_eq_false_iff_ne, ne_eq]; intro h
        exact hq 39 (chomp_subset value 39 (by rw [h]; simp)) (by simp)
      have e2 : (chomp value == [34, 34]) = false := by simp [hne]
      simp [e1, e2, storedValue]

/-! ## from the spec's well-formedness to the model's predicates -/

theorem allBlank_allSpace {s : Bytes} (h : IniSpec.allBlank s = true) : AllSpace s := by
  intro x hx
  have := (List.all_eq_true.mp h) x hx
  simp only [IniSpec.isBlank, Bool.and_eq_true] at this
  exact this.1

theorem plain_no0 {s : Bytes} (h : IniSpec.plain s = true) : ∀ x ∈ s, x ≠ 0 := by
  intro x hx
  have := (List.all_eq_true.mp h) x hx
  simp only [Bool.and_eq_true, bne_iff_ne, ne_eq] at this
  exact this.1

theorem AllSpace.no0 {s : Bytes} (h : AllSpace s) : ∀ x ∈ s, x ≠ 0 := by
  intro x hx e; subst e; have := h 0 hx; revert this; decide

theorem trimmed_Trimmed {s : Bytes} (h : IniSpec.trimmed s = true) : Trimmed s := by
  unfold IniSpec.trimmed at h
  split at h
  · rename_i a b ha hb
    simp only [Bool.and_eq_true, Bool.not_eq_true'] at h
    exact ⟨a, b, ha, hb, h.1, h.2⟩
  · simp at h

theorem not_contains {s : Bytes} {c : UInt8} (h : (!s.contains c) = true) : ∀ x ∈ s, x ∉ [c] := by
  intro x hx hc
  simp only [List.mem_singleton] at hc
  subst hc
  simp only [Bool.not_eq_true', List.contains_eq_mem, decide_eq_false_iff_not] at h
  exact h hx

theorem eol_allSpace (e : IniSpec.Eol) : AllSpace e.bytes := by
  cases e <;> simp [IniSpec.Eol.bytes, AllSpace] <;> decide

def quoteStyle : IniSpec.Quote → QStyle
  | .none => .none
  | .single => .single
  | .double => .double

theorem quoteStyle_bytes (q : IniSpec.Quote) : (quoteStyle q).bytes = q.bytes := by cases q <;> rfl

theorem getLast?_append_some {α} (a b : List α) (y : α) (h : b.getLast? = some y) : (a ++ b).getLast? = some y := by
  rw [List.getLast?_append, h]; rfl

theorem getLast?_cons_some {α} (x : α) (b : List α) (y : α) (h : b.getLast? = some y) : (x :: b).getLast? = some y := by
  have := getLast?_append_some [x] b y h
  simpa using this

theorem bomShift_bom (b : IniSpec.Bom) (hb : b ≠ .none) (L : Bytes) : bomShift (b.bytes ++ L) = b.bytes.length := by
  cases b with
  | none => exact absurd rfl hb
  | utf8 => simp [IniSpec.Bom.bytes, bomShift, bufAt]
  | utf16be => simp [IniSpec.Bom.bytes, bomShift, bufAt]
  | utf16le => simp [IniSpec.Bom.bytes, bomShift, bufAt]
  | utf32be => simp [IniSpec.Bom.bytes, bomShift, bufAt]

theorem bomShift_none (L : Bytes) (h : IniSpec.startsWithBom L = false) : bomShift L = 0 := by
  unfold IniSpec.startsWithBom at h
  unfold bomShift bufAt
  match L with
  | [] => simp
  | [a] => simp
  | [a, b] => simp [List.isPrefixOf] at h ⊢; grind
  | [a, b, c] => simp [List.isPrefixOf] at h ⊢; grind
  | a :: b :: c :: d :: r => simp [List.isPrefixOf] at h ⊢; grind

theorem lineOf_eq (pfx L : Bytes) (hsh : bomShift (pfx ++ L) = pfx.length) (h0 : ∀ x ∈ L, x ≠ 0)
    (hlen : L.length ≤ maxLine) : lineOf (pfx ++ L) = chomp L := by
  unfold lineOf
  rw [hsh, List.drop_left]
  have : cstr L = L := by
    unfold cstr
    exact takeWhile_all _ L (fun x hx => by simpa using h0 x hx)
  rw [this]
  exact clip_of_le _ (Nat.le_trans (chomp_length_le L) hlen)

/-- the line has no value text at all: unquoted and empty -/
def NoValue (e : IniSpec.Entry) : Prop := e.quote = .none ∧ e.value = []

instance (e : IniSpec.Entry) : Decidable (NoValue e) := by unfold NoValue; exact inferInstance

/-- the effect a line of the document has on the loop state -/
def bodyEffect (st : PState) : IniSpec.Body → PState
  | .blank _ => st
  | .comment _ _ => st
  | .entry e => match e.binding with
    | none => st
    | some kv => addKey st kv

theorem binding_of_value (e : IniSpec.Entry) (hnv : ¬ NoValue e) :
    e.binding = some (e.key, storedValue (quoteStyle e.quote) e.value) := by
  unfold IniSpec.Entry.binding
  cases hq : e.quote with
  | none =>
    have : e.value.isEmpty = false := by
      cases hv : e.value with
      | nil => exact absurd ⟨hq, hv⟩ hnv
      | cons _ _ => rfl
    simp [this, quoteStyle, storedValue]
  | single => simp [quoteStyle, storedValue, chomp_eq_trim]
  | double => simp [quoteStyle, storedValue, chomp_eq_trim]

theorem binding_noValue (e : IniSpec.Entry) (hnv : NoValue e) : e.binding = none := by
  unfold IniSpec.Entry.binding
  rw [hnv.1, hnv.2]; rfl

theorem kvCascade_nil : kvCascade kvPatterns [] = none := by
  simp [kvCascade, kvPatterns, patDq, patSq, patPlain, patKey, scan, scanRun]

theorem chomp_entry (e : IniSpec.Entry) (eol : IniSpec.Eol) (hwf : e.wf = true) (hnv : ¬ NoValue e) :
    ∃ tail, Tail e.trail tail ∧
      chomp (e.render ++ eol.bytes) =
        (e.key ++ e.pre) ++ 61 :: (e.post ++ (e.quote.bytes ++ e.value ++ e.quote.bytes ++ tail)) := by
  simp only [IniSpec.Entry.wf, Bool.and_eq_true] at hwf
  obtain ⟨⟨⟨⟨⟨⟨⟨⟨⟨⟨⟨⟨hlead, hpre⟩, hpost⟩, htrail⟩, hkplain⟩, hktrim⟩, hk61⟩, hk35⟩, hk59⟩, hk91⟩, hvplain⟩, hq⟩, hcm⟩ := hwf
  obtain ⟨k0, kb, hk0, hkb, hsk0, hskb⟩ := trimmed_Trimmed hktrim
  -- the quoted value ends in a non-blank byte
  have hQ : ∃ y, (e.quote.bytes ++ e.value ++ e.quote.bytes).getLast? = some y ∧ isSpace y = false := by
    cases hqq : e.quote with
    | none =>
      rw [hqq] at hq
      simp only [Bool.and_eq_true, Bool.or_eq_true, List.isEmpty_iff] at hq
      obtain ⟨a, b, _, hb, _, hsb⟩ := trimmed_Trimmed (hq.1.1.1.1.resolve_left (fun h => hnv ⟨hqq, h⟩))
      exact ⟨b, by simpa [IniSpec.Quote.bytes] using hb, hsb⟩
    | single => exact ⟨39, List.getLast?_eq_some_iff.mpr ⟨[39] ++ e.value, by simp [IniSpec.Quote.bytes]⟩, by decide⟩
    | double => exact ⟨34, List.getLast?_eq_some_iff.mpr ⟨[34] ++ e.value, by simp [IniSpec.Quote.bytes]⟩, by decide⟩
  obtain ⟨yq, hyq, hsyq⟩ := hQ
  cases hc : e.comment with
  | none =>
    refine ⟨[], Or.inl rfl, ?_⟩
    have hsplit : e.render ++ eol.bytes =
        e.lead ++ ((e.key ++ e.pre) ++ 61 :: (e.post ++ (e.quote.bytes ++ e.value ++ e.quote.bytes ++ [])))
          ++ (e.trail ++ eol.bytes) := by
      simp [IniSpec.Entry.render, hc, List.append_assoc]
    rw [hsplit]
    refine chomp_sandwich' _ _ _ k0 yq (allBlank_allSpace hlead) ?_ ?_ ?_ hsk0 hsyq
    · intro x hx
      simp only [List.mem_append] at hx
      rcases hx with hx | hx
      · exact allBlank_allSpace htrail x hx
      · exact eol_allSpace eol x hx
    · simp [List.head?_append, hk0]
    · apply getLast?_append_some
      apply getLast?_cons_some
      apply getLast?_append_some
      simpa using hyq
  | some c =>
    rw [hc] at hcm
    simp only [IniSpec.Comment.wf, Bool.and_eq_true, Bool.or_eq_true, beq_iff_eq] at hcm
    obtain ⟨u', t, hut, ht, hu'⟩ := rtrim_decomp (c.text ++ eol.bytes)
    refine ⟨e.trail ++ c.marker :: u', Or.inr ⟨c.marker, u', rfl, ?_⟩, ?_⟩
    · rcases hcm.1 with h | h <;> simp [h]
    have hsplit : e.render ++ eol.bytes =
        e.lead ++ ((e.key ++ e.pre) ++ 61 :: (e.post ++ (e.quote.bytes ++ e.value ++ e.quote.bytes ++
          (e.trail ++ c.marker :: u')))) ++ t := by
      simp only [IniSpec.Entry.render, hc, IniSpec.Comment.render, List.append_assoc, List.cons_append,
        List.nil_append, hut]
    rw [hsplit]
    have hmsp : isSpace c.marker = false := by rcases hcm.1 with h | h <;> rw [h] <;> decide
    obtain ⟨ym, hym, hsym⟩ : ∃ y, (c.marker :: u').getLast? = some y ∧ isSpace y = false := by
      rcases hu' with hu' | ⟨y, hy, hsy⟩
      · subst hu'; exact ⟨c.marker, rfl, hmsp⟩
      · exact ⟨y, getLast?_cons_some _ _ _ hy, hsy⟩
    refine chomp_sandwich' _ _ _ k0 ym (allBlank_allSpace hlead) ht ?_ ?_ hsk0 hsym
    · simp [List.head?_append, hk0]
    · apply getLast?_append_some
      apply getLast?_cons_some
      apply getLast?_append_some
      apply getLast?_append_some
      apply getLast?_append_some
      exact hym

theorem valueOk_of_wf (e : IniSpec.Entry) (hwf : e.wf = true) (hnv : ¬ NoValue e) :
    ValueOk (quoteStyle e.quote) e.value := by
  simp only [IniSpec.Entry.wf, Bool.and_eq_true] at hwf
  have hq := hwf.1.2
  cases hqq : e.quote with
  | none =>
    rw [hqq] at hq
    simp only [Bool.and_eq_true, bne_iff_ne, ne_eq, Bool.or_eq_true, List.isEmpty_iff] at hq
    obtain ⟨⟨⟨⟨h1, h2⟩, h3⟩, h4⟩, h5⟩ := hq
    have h1 : IniSpec.trimmed e.value = true := h1.resolve_left (fun h => hnv ⟨hqq, h⟩)
    refine ⟨trimmed_Trimmed h1, ?_, h4, h5⟩
    intro x hx hm
    simp only [List.mem_cons, List.mem_nil_iff, or_false] at hm
    rcases hm with hm | hm
    · exact not_contains h3 x hx (by simp [hm])
    · exact not_contains h2 x hx (by simp [hm])
  | single =>
    rw [hqq] at hq
    simp only [Bool.and_eq_true, bne_iff_ne, ne_eq] at hq
    exact ⟨not_contains hq.1, by rw [chomp_eq_trim]; exact hq.2⟩
  | double =>
    rw [hqq] at hq
    simp only [Bool.and_eq_true, bne_iff_ne, ne_eq] at hq
    exact ⟨not_contains hq.1, by rw [chomp_eq_trim]; exact hq.2⟩

theorem stepLine_entry (st : PState) (e : IniSpec.Entry) (tail : Bytes) (hwf : e.wf = true) (hnv : ¬ NoValue e)
    (ht : Tail e.trail tail)
    (hlen : ((e.key ++ e.pre) ++ 61 :: (e.post ++ (e.quote.bytes ++ e.value ++ e.quote.bytes ++ tail))).length ≤ maxLine) :
    stepLine true st ((e.key ++ e.pre) ++ 61 :: (e.post ++ (e.quote.bytes ++ e.value ++ e.quote.bytes ++ tail)))
      = addKey st (e.key, storedValue (quoteStyle e.quote) e.value) := by
  have hv := valueOk_of_wf e hwf hnv
  simp only [IniSpec.Entry.wf, Bool.and_eq_true] at hwf
  obtain ⟨⟨⟨⟨⟨⟨⟨⟨⟨⟨⟨⟨hlead, hpre⟩, hpost⟩, htrail⟩, hkplain⟩, hktrim⟩, hk61⟩, hk35⟩, hk59⟩, hk91⟩, hvplain⟩, hq⟩, hcm⟩ := hwf
  have hkt := trimmed_Trimmed hktrim
  obtain ⟨k0, kb, hk0, hkb, hsk0, hskb⟩ := hkt
  have hK : e.key ++ e.pre ≠ [] := by
    intro h; simp only [List.append_eq_nil_iff] at h; rw [h.1] at hk0; simp at hk0
  have hK61 : ∀ x ∈ e.key ++ e.pre, x ∉ [(61 : UInt8)] := by
    intro x hx
    simp only [List.mem_append] at hx
    rcases hx with hx | hx
    · exact not_contains hk61 x hx
    · intro h; simp only [List.mem_singleton] at h; subst h
      exact (allBlank_allSpace hpre).not_mem 61 (by decide) hx
  obtain ⟨rawv, hcas, hrl, hfix⟩ := entry_cascade (e.key ++ e.pre) e.post e.value e.trail tail (quoteStyle e.quote)
    hK hK61 (allBlank_allSpace hpost) (allBlank_allSpace htrail) hv ht
  rw [quoteStyle_bytes] at hcas hrl
  have hT0 : bufAt ((e.key ++ e.pre) ++ 61 :: (e.post ++ (e.quote.bytes ++ e.value ++ e.quote.bytes ++ tail))) 0 = k0 := by
    cases hk : e.key with
    | nil => rw [hk] at hk0; simp at hk0
    | cons a r => rw [hk] at hk0; simp only [List.head?_cons, Option.some.injEq] at hk0; subst hk0; simp [bufAt]
  have hmem0 : k0 ∈ e.key := List.mem_of_mem_head? (by rw [hk0]; simp)
  have hlenK : e.key.length ≤ maxLine := by
    simp only [List.length_append, List.length_cons] at hlen; omega
  have hlenR : (chomp rawv).length ≤ maxLine := by
    have := chomp_length_le rawv
    simp only [List.length_append, List.length_cons] at hlen hrl; omega
  refine stepLine_kv st _ (e.key ++ e.pre) rawv e.key (chomp rawv) _ ?_ ?_ ?_ hcas ?_ (clip_of_le _ hlenR) hfix
  · rw [hT0]; intro h; subst h; simp [hk0] at hk91
  · rw [hT0]; intro h; subst h; exact not_contains hk35 35 hmem0 (by simp)
  · rw [hT0]; intro h; subst h; exact not_contains hk59 59 hmem0 (by simp)
  · rw [chomp_of_trimmed_append e.key e.pre ⟨k0, kb, hk0, hkb, hsk0, hskb⟩ (allBlank_allSpace hpre)]
    exact clip_of_le _ hlenK

/-- `key =` with no value text: after `p_strchomp` the line is the key, '=', and possibly blanks and a comment -/
theorem chomp_entry_noValue (e : IniSpec.Entry) (eol : IniSpec.Eol) (hwf : e.wf = true) (hnv : NoValue e) :
    ∃ post R, AllSpace post ∧ (R = [] ∨ ∃ m u, R = m :: u ∧ (m = 59 ∨ m = 35)) ∧
      chomp (e.render ++ eol.bytes) = (e.key ++ e.pre) ++ 61 :: (post ++ R) := by
  simp only [IniSpec.Entry.wf, Bool.and_eq_true] at hwf
  obtain ⟨⟨⟨⟨⟨⟨⟨⟨⟨⟨⟨⟨hlead, hpre⟩, hpost⟩, htrail⟩, hkplain⟩, hktrim⟩, hk61⟩, hk35⟩, hk59⟩, hk91⟩, hvplain⟩, hq⟩, hcm⟩ := hwf
  obtain ⟨k0, kb, hk0, hkb, hsk0, hskb⟩ := trimmed_Trimmed hktrim
  obtain ⟨hq0, hv0⟩ := hnv
  cases hc : e.comment with
  | none =>
    refine ⟨[], [], by intro x hx; simp at hx, Or.inl rfl, ?_⟩
    have hsplit : e.render ++ eol.bytes =
        e.lead ++ ((e.key ++ e.pre) ++ 61 :: ([] ++ [])) ++ (e.post ++ e.trail ++ eol.bytes) := by
      simp [IniSpec.Entry.render, hc, hq0, hv0, IniSpec.Quote.bytes, List.append_assoc]
    rw [hsplit]
    refine chomp_sandwich' _ _ _ k0 61 (allBlank_allSpace hlead) ?_ ?_ ?_ hsk0 (by decide)
    · intro x hx
      simp only [List.mem_append] at hx
      rcases hx with (hx | hx) | hx
      · exact allBlank_allSpace hpost x hx
      · exact allBlank_allSpace htrail x hx
      · exact eol_allSpace eol x hx
    · simp [List.head?_append, hk0]
    · exact List.getLast?_eq_some_iff.mpr ⟨e.key ++ e.pre, by simp⟩
  | some c =>
    rw [hc] at hcm
    simp only [IniSpec.Comment.wf, Bool.and_eq_true, Bool.or_eq_true, beq_iff_eq] at hcm
    obtain ⟨u', t, hut, ht, hu'⟩ := rtrim_decomp (c.text ++ eol.bytes)
    have hm : c.marker = 59 ∨ c.marker = 35 := hcm.1.symm
    refine ⟨e.post ++ e.trail, c.marker :: u', ?_, Or.inr ⟨c.marker, u', rfl, hm⟩, ?_⟩
    · intro x hx
      simp only [List.mem_append] at hx
      rcases hx with hx | hx
      · exact allBlank_allSpace hpost x hx
      · exact allBlank_allSpace htrail x hx
    have hsplit : e.render ++ eol.bytes =
        e.lead ++ ((e.key ++ e.pre) ++ 61 :: ((e.post ++ e.trail) ++ c.marker :: u')) ++ t := by
      simp only [IniSpec.Entry.render, hc, hq0, hv0, IniSpec.Quote.bytes, IniSpec.Comment.render, List.append_assoc,
        List.cons_append, List.nil_append, List.append_nil, hut]
    rw [hsplit]
    have hmsp : isSpace c.marker = false := by rcases hm with h | h <;> rw [h] <;> decide
    obtain ⟨ym, hym, hsym⟩ : ∃ y, (c.marker :: u').getLast? = some y ∧ isSpace y = false := by
      rcases hu' with hu' | ⟨y, hy, hsy⟩
      · subst hu'; exact ⟨c.marker, rfl, hmsp⟩
      · exact ⟨y, getLast?_cons_some _ _ _ hy, hsy⟩
    refine chomp_sandwich' _ _ _ k0 ym (allBlank_allSpace hlead) ht ?_ ?_ hsk0 hsym
    · simp [List.head?_append, hk0]
    · apply getLast?_append_some
      apply getLast?_cons_some
      apply getLast?_append_some
      exact hym

/-- … and the loop does nothing with it -/
theorem stepLine_entry_noValue (st : PState) (e : IniSpec.Entry) (post R : Bytes) (hwf : e.wf = true)
    (hpost : AllSpace post) (hR : R = [] ∨ ∃ m u, R = m :: u ∧ (m = 59 ∨ m = 35)) :
    stepLine true st ((e.key ++ e.pre) ++ 61 :: (post ++ R)) = st := by
  simp only [IniSpec.Entry.wf, Bool.and_eq_true] at hwf
  obtain ⟨⟨⟨⟨⟨⟨⟨⟨⟨⟨⟨⟨hlead, hpre⟩, _⟩, htrail⟩, hkplain⟩, hktrim⟩, hk61⟩, hk35⟩, hk59⟩, hk91⟩, hvplain⟩, hq⟩, hcm⟩ := hwf
  obtain ⟨k0, kb, hk0, hkb, hsk0, hskb⟩ := trimmed_Trimmed hktrim
  have hK : e.key ++ e.pre ≠ [] := by
    intro h; simp only [List.append_eq_nil_iff] at h; rw [h.1] at hk0; simp at hk0
  have hK61 : ∀ x ∈ e.key ++ e.pre, x ∉ [(61 : UInt8)] := by
    intro x hx
    simp only [List.mem_append] at hx
    rcases hx with hx | hx
    · exact not_contains hk61 x hx
    · intro h; simp only [List.mem_singleton] at h; subst h
      exact (allBlank_allSpace hpre).not_mem 61 (by decide) hx
  have hT0 : bufAt ((e.key ++ e.pre) ++ 61 :: (post ++ R)) 0 = k0 := by
    cases hk : e.key with
    | nil => rw [hk] at hk0; simp at hk0
    | cons a r => rw [hk] at hk0; simp only [List.head?_cons, Option.some.injEq] at hk0; subst hk0; simp [bufAt]
  refine stepLine_none st _ ?_ (kv_none _ post R hK hK61 hpost hR)
  rw [hT0]; intro h; subst h; simp [hk0] at hk91

theorem avoid_append {c : UInt8} {a b : Bytes} (ha : ∀ x ∈ a, x ≠ c) (hb : ∀ x ∈ b, x ≠ c) : ∀ x ∈ a ++ b, x ≠ c := by
  intro x hx; simp only [List.mem_append] at hx
  rcases hx with hx | hx
  · exact ha x hx
  · exact hb x hx

theorem no0_append {a b : Bytes} (ha : ∀ x ∈ a, x ≠ 0) (hb : ∀ x ∈ b, x ≠ 0) : ∀ x ∈ a ++ b, x ≠ 0 :=
  avoid_append ha hb

theorem plain_avoid {s : Bytes} {c : UInt8} (hc : c = 0 ∨ c = 10) (h : IniSpec.plain s = true) : ∀ x ∈ s, x ≠ c := by
  intro x hx
  have := (List.all_eq_true.mp h) x hx
  simp only [Bool.and_eq_true, bne_iff_ne, ne_eq] at this
  rcases hc with hc | hc <;> subst hc
  · exact this.1
  · exact this.2

theorem allBlank_avoid {s : Bytes} {c : UInt8} (hc : c = 0 ∨ c = 10) (h : IniSpec.allBlank s = true) : ∀ x ∈ s, x ≠ c := by
  intro x hx
  have := (List.all_eq_true.mp h) x hx
  simp only [IniSpec.isBlank, Bool.and_eq_true, bne_iff_ne, ne_eq] at this
  rcases hc with hc | hc <;> subst hc
  · intro e; subst e; have := this.1; revert this; decide
  · exact this.2

theorem comment_avoid {c0 : UInt8} (hc : c0 = 0 ∨ c0 = 10) (c : IniSpec.Comment) (h : c.wf = true) :
    ∀ x ∈ c.render, x ≠ c0 := by
  simp only [IniSpec.Comment.wf, Bool.and_eq_true, Bool.or_eq_true, beq_iff_eq] at h
  intro x hx
  simp only [IniSpec.Comment.render, List.mem_cons] at hx
  rcases hx with hx | hx
  · subst hx; rcases h.1 with h1 | h1 <;> rw [h1] <;> rcases hc with hc | hc <;> subst hc <;> decide
  · exact plain_avoid hc h.2 x hx

theorem single_avoid {c0 b : UInt8} (h : b ≠ c0) : ∀ x ∈ [b], x ≠ c0 := by
  intro x hx; simp only [List.mem_singleton] at hx; subst hx; exact h

theorem body_avoid {c0 : UInt8} (hc : c0 = 0 ∨ c0 = 10) (b : IniSpec.Body) (hwf : b.wf = true) :
    ∀ x ∈ b.render, x ≠ c0 := by
  cases b with
  | blank ws => exact allBlank_avoid hc hwf
  | comment lead c =>
    simp only [IniSpec.Body.wf, Bool.and_eq_true] at hwf
    exact avoid_append (allBlank_avoid hc hwf.1) (comment_avoid hc c hwf.2)
  | entry e =>
    simp only [IniSpec.Body.wf] at hwf
    simp only [IniSpec.Entry.wf, Bool.and_eq_true] at hwf
    obtain ⟨⟨⟨⟨⟨⟨⟨⟨⟨⟨⟨⟨hlead, hpre⟩, hpost⟩, htrail⟩, hkplain⟩, hktrim⟩, hk61⟩, hk35⟩, hk59⟩, hk91⟩, hvplain⟩, hq⟩, hcm⟩ := hwf
    have hqb : ∀ x ∈ e.quote.bytes, x ≠ c0 := by
      cases e.quote <;> simp only [IniSpec.Quote.bytes] <;> rcases hc with hc | hc <;> subst hc <;> decide
    have h61 : ∀ x ∈ [(61 : UInt8)], x ≠ c0 := single_avoid (by rcases hc with hc | hc <;> subst hc <;> decide)
    simp only [IniSpec.Body.render, IniSpec.Entry.render]
    refine avoid_append (avoid_append (avoid_append (avoid_append (avoid_append (avoid_append (avoid_append
      (avoid_append (avoid_append
      (allBlank_avoid hc hlead) (plain_avoid hc hkplain)) (allBlank_avoid hc hpre)) h61)
      (allBlank_avoid hc hpost)) hqb) (plain_avoid hc hvplain)) hqb) (allBlank_avoid hc htrail)) ?_
    cases hcc : e.comment with
    | none => simp
    | some c => rw [hcc] at hcm; exact comment_avoid hc c hcm

theorem body_no0 (b : IniSpec.Body) (hwf : b.wf = true) : ∀ x ∈ b.render, x ≠ 0 := body_avoid (Or.inl rfl) b hwf

theorem header_body_avoid {c0 : UInt8} (hc : c0 = 0 ∨ c0 = 10) (h : IniSpec.Header) (hwf : h.wf = true) :
    ∀ x ∈ h.lead ++ [91] ++ h.pre ++ h.name ++ h.post ++ [93] ++ h.trail, x ≠ c0 := by
  simp only [IniSpec.Header.wf, Bool.and_eq_true] at hwf
  obtain ⟨⟨⟨⟨⟨⟨hlead, hpre⟩, hpost⟩, htrail⟩, hnplain⟩, hntrim⟩, hn93⟩ := hwf
  exact avoid_append (avoid_append (avoid_append (avoid_append (avoid_append (avoid_append
      (allBlank_avoid hc hlead) (single_avoid (by rcases hc with hc | hc <;> subst hc <;> decide)))
      (allBlank_avoid hc hpre)) (plain_avoid hc hnplain)) (allBlank_avoid hc hpost))
      (single_avoid (by rcases hc with hc | hc <;> subst hc <;> decide))) (allBlank_avoid hc htrail)

/-- one line of the document, as one `fgets` chunk (`pfx` = the BOM on the first line) -/
theorem step_line (st : PState) (pfx : Bytes) (l : IniSpec.Line) (hwf : l.body.wf = true)
    (hsh : bomShift (pfx ++ l.core) = pfx.length) (hlen : l.core.length ≤ maxLine) :
    step true st (pfx ++ l.core) = bodyEffect st l.body := by
  have h0 : ∀ x ∈ l.core, x ≠ 0 := no0_append (body_no0 l.body hwf) (eol_allSpace l.eol).no0
  unfold step
  rw [lineOf_eq pfx l.core hsh h0 hlen]
  simp only [IniSpec.Line.core] at hlen ⊢
  cases hb : l.body with
  | blank ws =>
    rw [hb] at hwf
    have : chomp (ws ++ l.eol.bytes) = [] := by
      apply chomp_allSpace
      intro x hx; simp only [List.mem_append] at hx
      rcases hx with hx | hx
      · exact allBlank_allSpace hwf x hx
      · exact eol_allSpace l.eol x hx
    simp only [IniSpec.Body.render, this, bodyEffect]
    exact stepLine_none st [] (by simp [bufAt]) kvCascade_nil
  | comment lead c =>
    rw [hb] at hwf
    simp only [IniSpec.Body.wf, Bool.and_eq_true] at hwf
    have hcw := hwf.2
    simp only [IniSpec.Comment.wf, Bool.and_eq_true, Bool.or_eq_true, beq_iff_eq] at hcw
    obtain ⟨u', t, hut, ht, hu'⟩ := rtrim_decomp (c.text ++ l.eol.bytes)
    have hmsp : isSpace c.marker = false := by rcases hcw.1 with h | h <;> rw [h] <;> decide
    obtain ⟨ym, hym, hsym⟩ : ∃ y, (c.marker :: u').getLast? = some y ∧ isSpace y = false := by
      rcases hu' with hu' | ⟨y, hy, hsy⟩
      · subst hu'; exact ⟨c.marker, rfl, hmsp⟩
      · exact ⟨y, getLast?_cons_some _ _ _ hy, hsy⟩
    have hsplit : lead ++ c.render ++ l.eol.bytes = lead ++ (c.marker :: u') ++ t := by
      simp only [IniSpec.Comment.render, List.append_assoc, List.cons_append, hut]
    have : chomp (lead ++ c.render ++ l.eol.bytes) = c.marker :: u' := by
      rw [hsplit]
      exact chomp_sandwich' lead _ t c.marker ym (allBlank_allSpace hwf.1) ht rfl hym hmsp hsym
    simp only [IniSpec.Body.render, this, bodyEffect]
    exact stepLine_comment st _ (by simpa [bufAt] using hcw.1)
  | entry e =>
    rw [hb] at hwf hlen
    simp only [IniSpec.Body.wf] at hwf
    by_cases hnv : NoValue e
    · obtain ⟨post, R, hpost, hR, hch⟩ := chomp_entry_noValue e l.eol hwf hnv
      simp only [IniSpec.Body.render, bodyEffect, binding_noValue e hnv]
      rw [hch]
      exact stepLine_entry_noValue st e post R hwf hpost hR
    · obtain ⟨tail, htail, hch⟩ := chomp_entry e l.eol hwf hnv
      simp only [IniSpec.Body.render, bodyEffect, binding_of_value e hnv] at hlen ⊢
      rw [hch]
      apply stepLine_entry st e tail hwf hnv htail
      rw [← hch]
      exact Nat.le_trans (chomp_length_le _) hlen

theorem step_header (st : PState) (pfx : Bytes) (h : IniSpec.Header) (hwf : h.wf = true)
    (hsh : bomShift (pfx ++ h.core) = pfx.length) (hlen : h.core.length ≤ maxLine) :
    step true st (pfx ++ h.core) = { sections := pushSection st, cur := some { name := h.name, keys := [] } } := by
  have hwf0 := hwf
  simp only [IniSpec.Header.wf, Bool.and_eq_true] at hwf
  obtain ⟨⟨⟨⟨⟨⟨hlead, hpre⟩, hpost⟩, htrail⟩, hnplain⟩, hntrim⟩, hn93⟩ := hwf
  have h0 : ∀ x ∈ h.core, x ≠ 0 := by
    simp only [IniSpec.Header.core]
    exact no0_append (header_body_avoid (Or.inl rfl) h hwf0) (eol_allSpace h.eol).no0
  unfold step
  rw [lineOf_eq pfx h.core hsh h0 hlen]
  obtain ⟨a, b, ha, hb, hsa, hsb⟩ := trimmed_Trimmed hntrim
  have hsplit : h.core = h.lead ++ (91 :: (h.pre ++ h.name ++ h.post ++ [93])) ++ (h.trail ++ h.eol.bytes) := by
    simp [IniSpec.Header.core, List.append_assoc]
  have hch : chomp h.core = 91 :: (h.pre ++ h.name ++ h.post ++ [93]) := by
    rw [hsplit]
    refine chomp_sandwich' _ _ _ 91 93 (allBlank_allSpace hlead) ?_ rfl ?_ (by decide) (by decide)
    · intro x hx; simp only [List.mem_append] at hx
      rcases hx with hx | hx
      · exact allBlank_allSpace htrail x hx
      · exact eol_allSpace h.eol x hx
    · exact List.getLast?_eq_some_iff.mpr ⟨91 :: (h.pre ++ h.name ++ h.post), by simp⟩
  rw [hch]
  apply stepLine_header st h.pre h.name h.post (allBlank_allSpace hpre) (allBlank_allSpace hpost) a b ha hb hsa hsb
    (not_contains hn93)
  simp only [IniSpec.Header.core, List.length_append] at hlen
  omega

/-! ## `fgets` on a file that consists of lines -/

theorem splitAux_line (L : Nat) (x rest cur : Bytes) (n : Nat) (hx : ∀ b ∈ x, b ≠ 10)
    (hlen : n + x.length + 1 ≤ L) :
    splitAux L (x ++ 10 :: rest) cur n = (cur.reverse ++ x ++ [10]) :: splitAux L rest [] 0 := by
  induction x generalizing cur n with
  | nil => simp [splitAux]
  | cons b x ih =>
    have hb : b ≠ 10 := hx b (by simp)
    have hb' : (b == 10) = false := by simp [hb]
    simp only [List.length_cons] at hlen
    have hn : ¬ (n + 1 ≥ L) := by omega
    simp only [List.cons_append, splitAux, hb', hn, decide_false, Bool.or_self, Bool.false_eq_true, if_false]
    rw [ih (b :: cur) (n + 1) (fun y hy => hx y (by simp [hy])) (by omega)]
    simp

theorem splitAux_last (L : Nat) (x cur : Bytes) (n : Nat) (hx : ∀ b ∈ x, b ≠ 10) (hlen : n + x.length ≤ L) :
    splitAux L x cur n = if (cur.reverse ++ x).isEmpty then [] else [cur.reverse ++ x] := by
  induction x generalizing cur n with
  | nil => cases cur <;> simp [splitAux]
  | cons b x ih =>
    have hb : b ≠ 10 := hx b (by simp)
    have hb' : (b == 10) = false := by simp [hb]
    simp only [List.length_cons] at hlen
    by_cases hn : n + 1 ≥ L
    · have hx0 : x = [] := by
        cases x with
        | nil => rfl
        | cons _ _ => simp only [List.length_cons] at hlen; omega
      subst hx0
      simp [splitAux, hn]
    · simp only [splitAux, hb', hn, decide_false, Bool.or_self, Bool.false_eq_true, if_false]
      rw [ih (b :: cur) (n + 1) (fun y hy => hx y (by simp [hy])) (by omega)]
      simp

/-- ends in a newline and has no other -/
def IsLine (l : Bytes) : Prop := ∃ x, l = x ++ [10] ∧ ∀ b ∈ x, b ≠ 10

/-- physical lines: each at most `L` bytes, all but possibly the last newline-terminated -/
def LinesOk (L : Nat) : List Bytes → Prop
  | [] => True
  | [l] => l.length ≤ L ∧ (IsLine l ∨ ∀ b ∈ l, b ≠ 10)
  | l :: l2 :: rest => l.length ≤ L ∧ IsLine l ∧ LinesOk L (l2 :: rest)

theorem split_lines (L : Nat) (ls : List Bytes) (h : LinesOk L ls) :
    splitAux L ls.flatten [] 0 = ls.filter (fun c => !c.isEmpty) := by
  induction ls with
  | nil => simp [splitAux]
  | cons l rest ih =>
    cases rest with
    | nil =>
      obtain ⟨hlen, hl | hl⟩ := h
      · obtain ⟨x, hx, hx10⟩ := hl
        subst hx
        have := splitAux_line L x [] [] 0 hx10 (by simp at hlen; omega)
        simp only [List.flatten_cons, List.flatten_nil, List.append_nil]
        have e : x ++ [10] = x ++ 10 :: [] := rfl
        rw [e, this]
        simp [splitAux]
      · have := splitAux_last L l [] 0 hl (by omega)
        simp only [List.flatten_cons, List.flatten_nil, List.append_nil, this]
        cases l <;> simp
    | cons l2 rest' =>
      obtain ⟨hlen, ⟨x, hx, hx10⟩, hrest⟩ := h
      subst hx
      have := splitAux_line L x (l2 :: rest').flatten [] 0 hx10 (by simp at hlen; omega)
      have e : ((x ++ [10]) :: l2 :: rest').flatten = x ++ 10 :: (l2 :: rest').flatten := by simp
      rw [e, this, ih hrest]
      simp

theorem lineOf_nil : lineOf [] = [] := by decide

theorem step_nil (st : PState) : step true st [] = st := by
  unfold step
  rw [lineOf_nil]
  exact stepLine_none st [] (by simp [bufAt]) kvCascade_nil

theorem foldl_filter_step (ls : List Bytes) (st : PState) :
    (ls.filter (fun c => !c.isEmpty)).foldl (step true) st = ls.foldl (step true) st := by
  induction ls generalizing st with
  | nil => rfl
  | cons l rest ih =>
    cases l with
    | nil => simp only [List.filter_cons, List.isEmpty_nil, Bool.not_true, Bool.false_eq_true, if_false,
        List.foldl_cons, step_nil]; exact ih st
    | cons b l' => simp only [List.filter_cons, List.isEmpty_cons, Bool.not_false, if_true, List.foldl_cons]; exact ih _

/-! ## the physical lines of a document -/

inductive RLine where
  | body (l : IniSpec.Line)
  | header (h : IniSpec.Header)

/-- the bytes before the line end -/
def RLine.pre : RLine → Bytes
  | .body l => l.body.render
  | .header h => h.lead ++ [91] ++ h.pre ++ h.name ++ h.post ++ [93] ++ h.trail

def RLine.eol : RLine → IniSpec.Eol
  | .body l => l.eol
  | .header h => h.eol

def RLine.mark : RLine → IniSpec.Bom
  | .body l => l.mark
  | .header h => h.mark

/-- the line without its mark -/
def RLine.core : RLine → Bytes
  | .body l => l.core
  | .header h => h.core

def RLine.render : RLine → Bytes
  | .body l => l.render
  | .header h => h.render

theorem RLine.render_mark (r : RLine) : r.render = r.mark.bytes ++ r.core := by
  cases r <;> rfl

def RLine.wf : RLine → Bool
  | .body l => l.body.wf
  | .header h => h.wf

theorem RLine.core_eq (r : RLine) : r.core = r.pre ++ r.eol.bytes := by
  cases r <;> rfl

def secRLines (s : IniSpec.Sec) : List RLine := .header s.header :: s.body.map .body

def docRLines (d : IniSpec.Doc) : List RLine := d.preamble.map .body ++ d.secs.flatMap secRLines

theorem doc_lines_eq (d : IniSpec.Doc) : d.lines = (docRLines d).map RLine.render := by
  unfold IniSpec.Doc.lines docRLines
  rw [List.map_append, List.map_map, List.map_flatMap]
  have h1 : (RLine.render ∘ RLine.body) = IniSpec.Line.render := by funext l; rfl
  have h2 : (fun s => (secRLines s).map RLine.render) = IniSpec.Sec.lines := by
    funext s; simp [secRLines, IniSpec.Sec.lines, RLine.render, Function.comp_def]
  rw [h1, h2]

theorem doc_eols_eq (d : IniSpec.Doc) : d.eols = (docRLines d).map RLine.eol := by
  unfold IniSpec.Doc.eols docRLines
  rw [List.map_append, List.map_map, List.map_flatMap]
  have h1 : (RLine.eol ∘ RLine.body) = (fun l : IniSpec.Line => l.eol) := by funext l; rfl
  have h2 : (fun s => (secRLines s).map RLine.eol) = (fun s : IniSpec.Sec => s.header.eol :: s.body.map (·.eol)) := by
    funext s; simp [secRLines, RLine.eol, Function.comp_def]
  rw [h1, h2]

theorem doc_cores_eq (d : IniSpec.Doc) : d.cores = (docRLines d).map (fun r => (r.mark, r.core)) := by
  unfold IniSpec.Doc.cores docRLines
  rw [List.map_append, List.map_map, List.map_flatMap]
  have h2 : (fun s => (secRLines s).map (fun r => (r.mark, r.core))) = IniSpec.Sec.cores := by
    funext s; simp [secRLines, IniSpec.Sec.cores, RLine.mark, RLine.core, Function.comp_def]
  rw [h2]
  rfl

theorem eff_bytes (a m : IniSpec.Bom) (h : a = .none ∨ m = .none) :
    a.bytes ++ m.bytes = (if a = .none then m else a).bytes := by
  cases a <;> cases m <;> simp_all [IniSpec.Bom.bytes]

theorem rline_pre_avoid {c0 : UInt8} (hc : c0 = 0 ∨ c0 = 10) (r : RLine) (hwf : r.wf = true) : ∀ x ∈ r.pre, x ≠ c0 := by
  cases r with
  | body l => exact body_avoid hc l.body hwf
  | header h => exact header_body_avoid hc h hwf

theorem rline_isLine (p : Bytes) (hp : ∀ x ∈ p, x ≠ 10) (r : RLine) (hwf : r.wf = true) (he : r.eol ≠ .eof) :
    IsLine (p ++ r.core) := by
  rw [RLine.core_eq]
  have h10 := rline_pre_avoid (Or.inr rfl) r hwf
  cases hr : r.eol with
  | lf => exact ⟨p ++ r.pre, by simp [IniSpec.Eol.bytes], avoid_append hp h10⟩
  | crlf =>
    refine ⟨p ++ r.pre ++ [13], by simp [IniSpec.Eol.bytes], avoid_append (avoid_append hp h10) (single_avoid (by decide))⟩
  | eof => exact absurd hr he

theorem rline_no10 (p : Bytes) (hp : ∀ x ∈ p, x ≠ 10) (r : RLine) (hwf : r.wf = true) (he : r.eol = .eof) :
    ∀ x ∈ p ++ r.core, x ≠ 10 := by
  rw [RLine.core_eq, he]
  simpa [IniSpec.Eol.bytes] using avoid_append hp (rline_pre_avoid (Or.inr rfl) r hwf)

theorem bom_avoid10 (b : IniSpec.Bom) : ∀ x ∈ b.bytes, x ≠ 10 := by
  cases b <;> simp [IniSpec.Bom.bytes]

theorem linesOk_map (L : Nat) (rl : List RLine) (hwf : ∀ r ∈ rl, r.wf = true)
    (he : IniSpec.eolsOk (rl.map RLine.eol) = true) (hlen : ∀ r ∈ rl, r.render.length ≤ L) :
    LinesOk L (rl.map RLine.render) := by
  induction rl with
  | nil => trivial
  | cons r rest ih =>
    have hm := bom_avoid10 r.mark
    have e := RLine.render_mark r
    cases rest with
    | nil =>
      refine ⟨hlen r (by simp), ?_⟩
      show IsLine r.render ∨ ∀ b ∈ r.render, b ≠ 10
      rw [e]
      by_cases hr : r.eol = .eof
      · exact Or.inr (rline_no10 _ hm r (hwf r (by simp)) hr)
      · exact Or.inl (rline_isLine _ hm r (hwf r (by simp)) hr)
    | cons r2 rest' =>
      simp only [List.map_cons, IniSpec.eolsOk, Bool.and_eq_true, bne_iff_ne, ne_eq] at he
      refine ⟨hlen r (by simp), ?_, ?_⟩
      · show IsLine r.render
        rw [e]; exact rline_isLine _ hm r (hwf r (by simp)) he.1
      · exact ih (fun x hx => hwf x (by simp [hx])) (by simpa using he.2) (fun x hx => hlen x (by simp [hx]))

/-- the chunks of a document: the mark of the first line (the file's or its own) is glued to it -/
theorem linesOk_chunks (L : Nat) (p : Bytes) (hp : ∀ x ∈ p, x ≠ 10) (r : RLine) (rest : List RLine)
    (hwf : ∀ x ∈ r :: rest, x.wf = true)
    (he : IniSpec.eolsOk ((r :: rest).map RLine.eol) = true) (hlen1 : p.length + r.core.length ≤ L)
    (hlen : ∀ x ∈ rest, x.render.length ≤ L) :
    LinesOk L ((p ++ r.core) :: rest.map RLine.render) := by
  cases rest with
  | nil =>
    refine ⟨by simp; omega, ?_⟩
    by_cases hr : r.eol = .eof
    · exact Or.inr (rline_no10 p hp r (hwf r (by simp)) hr)
    · exact Or.inl (rline_isLine p hp r (hwf r (by simp)) hr)
  | cons r2 rest' =>
    simp only [List.map_cons, IniSpec.eolsOk, Bool.and_eq_true, bne_iff_ne, ne_eq] at he
    refine ⟨by simp; omega, rline_isLine p hp r (hwf r (by simp)) he.1, ?_⟩
    exact linesOk_map L (r2 :: rest') (fun x hx => hwf x (by simp [hx])) (by simpa using he.2) hlen

/-- the effect of a physical line on the loop state -/
def rlineEffect (st : PState) : RLine → PState
  | .body l => bodyEffect st l.body
  | .header h => { sections := pushSection st, cur := some { name := h.name, keys := [] } }

theorem step_rline (st : PState) (pfx : Bytes) (r : RLine) (hwf : r.wf = true)
    (hsh : bomShift (pfx ++ r.core) = pfx.length) (hlen : r.core.length ≤ maxLine) :
    step true st (pfx ++ r.core) = rlineEffect st r := by
  cases r with
  | body l => exact step_line st pfx l hwf hsh hlen
  | header h => exact step_header st pfx h hwf hsh hlen

/-- a mark is skipped; without one nothing is, provided the line does not start like a mark -/
theorem bomShift_mark (b : IniSpec.Bom) (L : Bytes) (h : b ≠ .none ∨ IniSpec.startsWithBom L = false) :
    bomShift (b.bytes ++ L) = b.bytes.length := by
  by_cases hb : b = .none
  · subst hb
    rcases h with h | h
    · exact absurd rfl h
    · simpa [IniSpec.Bom.bytes] using bomShift_none L h
  · exact bomShift_bom b hb L

/-- a line is fine for the read loop: with its mark it fits the buffer, and without a mark it does not start like one -/
def RLine.ok (r : RLine) : Prop :=
  r.mark.bytes.length + r.core.length ≤ maxLine ∧ (r.mark ≠ .none ∨ IniSpec.startsWithBom r.core = false)

theorem foldl_rlines (rl : List RLine) (st : PState) (hwf : ∀ r ∈ rl, r.wf = true) (hok : ∀ r ∈ rl, r.ok) :
    (rl.map RLine.render).foldl (step true) st = rl.foldl rlineEffect st := by
  induction rl generalizing st with
  | nil => rfl
  | cons r rest ih =>
    simp only [List.map_cons, List.foldl_cons]
    have h1 := hok r (by simp)
    have : step true st r.render = rlineEffect st r := by
      rw [RLine.render_mark]
      exact step_rline st r.mark.bytes r (hwf r (by simp)) (bomShift_mark r.mark r.core h1.2) (by have := h1.1; omega)
    rw [this]
    exact ih _ (fun x hx => hwf x (by simp [hx])) (fun x hx => hok x (by simp [hx]))

/-! ## the whole file -/

theorem maxLine_eq : maxLine = IniSpec.maxLine := by decide

theorem splitLines_eq (x : Bytes) : splitLines x = splitAux maxLine x [] 0 := rfl

theorem wf_rlines (σ : IniSpec.Style) (d : IniSpec.Doc) (h : IniSpec.WF σ d = true) :
    ∀ r ∈ docRLines d, r.wf = true := by
  simp only [IniSpec.WF, Bool.and_eq_true, List.all_eq_true] at h
  obtain ⟨⟨⟨hpre, hsecs⟩, _⟩, _⟩ := h
  intro r hr
  simp only [docRLines, List.mem_append, List.mem_map, List.mem_flatMap] at hr
  rcases hr with ⟨l, hl, rfl⟩ | ⟨s, hs, hr⟩
  · exact hpre l hl
  · have := hsecs s hs
    simp only [secRLines, List.mem_cons, List.mem_map] at hr
    rcases hr with rfl | ⟨l, hl, rfl⟩
    · exact this.1
    · exact this.2 l hl

theorem bom_only (b : IniSpec.Bom) (st : PState) : (splitLines b.bytes).foldl (step true) st = st := by
  by_cases hb : b = .none
  · subst hb; rfl
  · have hok : LinesOk maxLine [b.bytes] := ⟨by cases b <;> decide, Or.inr (bom_avoid10 b)⟩
    have hs := split_lines maxLine [b.bytes] hok
    simp only [List.flatten_cons, List.flatten_nil, List.append_nil] at hs
    rw [splitLines_eq, hs, foldl_filter_step]
    simp only [List.foldl_cons, List.foldl_nil]
    have hl : lineOf b.bytes = [] := by
      have h := lineOf_eq b.bytes [] (by simpa using bomShift_bom b hb []) (by intro x hx; simp at hx) (by simp)
      rw [List.append_nil] at h
      rw [h]; exact chomp_allSpace [] (by intro x hx; simp at hx)
    unfold step
    rw [hl]
    exact stepLine_none st [] (by simp [bufAt]) kvCascade_nil

/-- reading a rendered document = applying the effect of each of its lines -/
theorem foldl_render (σ : IniSpec.Style) (d : IniSpec.Doc) (hwf : IniSpec.WF σ d = true) (st : PState) :
    (splitLines (IniSpec.render σ d)).foldl (step true) st = (docRLines d).foldl rlineEffect st := by
  have hrw := wf_rlines σ d hwf
  simp only [IniSpec.WF, Bool.and_eq_true] at hwf
  obtain ⟨⟨_, heols⟩, hlines⟩ := hwf
  rw [doc_eols_eq] at heols
  unfold IniSpec.linesOk at hlines
  unfold IniSpec.render
  rw [doc_cores_eq] at hlines
  rw [doc_lines_eq]
  cases hrl : docRLines d with
  | nil => simpa using bom_only σ.bom st
  | cons r rest =>
    rw [hrl] at hrw heols hlines
    simp only [List.map_cons, IniSpec.lineOk, Bool.and_eq_true, decide_eq_true_eq, Bool.or_eq_true, bne_iff_ne, ne_eq,
      Bool.not_eq_true', List.all_eq_true, List.mem_map, forall_exists_index, and_imp,
      forall_apply_eq_imp_iff₂, beq_iff_eq] at hlines
    obtain ⟨⟨hone, hlen1, hbom⟩, hrest⟩ := hlines
    rw [← maxLine_eq] at hlen1 hrest
    have hb := eff_bytes σ.bom r.mark hone
    generalize (if σ.bom = IniSpec.Bom.none then r.mark else σ.bom) = b at hb hlen1 hbom
    have hok := linesOk_chunks maxLine b.bytes (bom_avoid10 b) r rest hrw (by simpa using heols) hlen1
      (fun x hx => by rw [RLine.render_mark, List.length_append]; exact (hrest x hx).1)
    have hflat : σ.bom.bytes ++ (r.render :: rest.map RLine.render).flatten
        = ((b.bytes ++ r.core) :: rest.map RLine.render).flatten := by
      rw [RLine.render_mark]
      simp only [List.flatten_cons, ← List.append_assoc, hb]
    rw [List.map_cons, hflat, splitLines_eq, split_lines maxLine _ hok, foldl_filter_step, List.foldl_cons]
    rw [step_rline st b.bytes r (hrw r (by simp)) (bomShift_mark b r.core hbom) (by omega)]
    rw [foldl_rlines rest _ (fun x hx => hrw x (by simp [hx])) (fun x hx => hrest x hx)]
    rfl

/-! ## folding the line effects: sections and keys in C list order -/

def secOf (s : IniSpec.Sec) : Section := ⟨s.header.name, (IniSpec.entriesOf s.body).reverse⟩

theorem foldl_body_none (body : List IniSpec.Line) (S : List Section) :
    (body.map RLine.body).foldl rlineEffect ⟨S, none⟩ = ⟨S, none⟩ := by
  induction body with
  | nil => rfl
  | cons l rest ih =>
    simp only [List.map_cons, List.foldl_cons]
    have : rlineEffect ⟨S, none⟩ (RLine.body l) = ⟨S, none⟩ := by
      simp only [rlineEffect]
      cases l.body with
      | blank ws => simp [bodyEffect]
      | comment lead c => simp [bodyEffect]
      | entry e => cases hbd : e.binding <;> simp [bodyEffect, addKey, hbd]
    rw [this]; exact ih

theorem foldl_body_some (body : List IniSpec.Line) (S : List Section) (n : Bytes) (ks : List (Bytes × Bytes)) :
    (body.map RLine.body).foldl rlineEffect ⟨S, some ⟨n, ks⟩⟩
      = ⟨S, some ⟨n, (IniSpec.entriesOf body).reverse ++ ks⟩⟩ := by
  induction body generalizing ks with
  | nil => simp [IniSpec.entriesOf]
  | cons l rest ih =>
    simp only [List.map_cons, List.foldl_cons]
    cases hb : l.body with
    | blank ws =>
      have : rlineEffect ⟨S, some ⟨n, ks⟩⟩ (RLine.body l) = ⟨S, some ⟨n, ks⟩⟩ := by simp [rlineEffect, hb, bodyEffect]
      rw [this, ih]; simp [IniSpec.entriesOf, hb]
    | comment lead c =>
      have : rlineEffect ⟨S, some ⟨n, ks⟩⟩ (RLine.body l) = ⟨S, some ⟨n, ks⟩⟩ := by simp [rlineEffect, hb, bodyEffect]
      rw [this, ih]; simp [IniSpec.entriesOf, hb]
    | entry e =>
      cases hbd : e.binding with
      | none =>
        have : rlineEffect ⟨S, some ⟨n, ks⟩⟩ (RLine.body l) = ⟨S, some ⟨n, ks⟩⟩ := by
          simp [rlineEffect, hb, bodyEffect, hbd]
        rw [this, ih]; simp [IniSpec.entriesOf, hb, hbd]
      | some kv =>
        have : rlineEffect ⟨S, some ⟨n, ks⟩⟩ (RLine.body l) = ⟨S, some ⟨n, kv :: ks⟩⟩ := by
          simp [rlineEffect, hb, bodyEffect, addKey, hbd]
        rw [this, ih]; simp [IniSpec.entriesOf, hb, hbd]

/-- a whole section block: push what was current, start the new section, collect its keys -/
def secStep (st : PState) (s : IniSpec.Sec) : PState := ⟨pushSection st, some (secOf s)⟩

theorem foldl_sec (s : IniSpec.Sec) (st : PState) : (secRLines s).foldl rlineEffect st = secStep st s := by
  simp only [secRLines, List.foldl_cons, rlineEffect]
  rw [foldl_body_some]
  simp [secStep, secOf]

theorem foldl_secs (secs : List IniSpec.Sec) (st : PState) :
    (secs.flatMap secRLines).foldl rlineEffect st = secs.foldl secStep st := by
  induction secs generalizing st with
  | nil => rfl
  | cons s rest ih => simp only [List.flatMap_cons, List.foldl_append, List.foldl_cons, foldl_sec, ih]

theorem foldl_doc (d : IniSpec.Doc) :
    (docRLines d).foldl rlineEffect ⟨[], none⟩ = d.secs.foldl secStep ⟨[], none⟩ := by
  simp only [docRLines, List.foldl_append, foldl_body_none, foldl_secs]

def hasKeys (x : Section) : Bool := !x.keys.isEmpty

theorem pushSection_secStep (st : PState) (s : IniSpec.Sec) :
    pushSection (secStep st s) = [secOf s].filter hasKeys ++ pushSection st := by
  have : pushSection (secStep st s)
      = if (secOf s).keys.isEmpty then pushSection st else secOf s :: pushSection st := rfl
  rw [this]
  by_cases h : (secOf s).keys.isEmpty = true <;> simp [h, hasKeys]

theorem foldl_secStep (secs : List IniSpec.Sec) (last : IniSpec.Sec) (st : PState) :
    (secs ++ [last]).foldl secStep st
      = ⟨((secs.map secOf).filter hasKeys).reverse ++ pushSection st, some (secOf last)⟩ := by
  induction secs generalizing st with
  | nil => simp [secStep]
  | cons s rest ih =>
    simp only [List.cons_append, List.foldl_cons, ih, pushSection_secStep, List.map_cons, List.filter_cons]
    cases hasKeys (secOf s) <;> simp

theorem finish_some (S : List Section) (x : Section) : finish ⟨S, some x⟩ = S ++ [x].filter hasKeys := by
  simp only [finish]
  by_cases h : x.keys.isEmpty = true <;> simp [h, hasKeys]

/-- the parsed file of a well-formed document: earlier sections in reverse order, then the last one -/
theorem parse_render_sections (σ : IniSpec.Style) (d : IniSpec.Doc) (hwf : IniSpec.WF σ d = true)
    (init : List IniSpec.Sec) (last : IniSpec.Sec) (hs : d.secs = init ++ [last]) :
    parse (IniSpec.render σ d) = ((init.map secOf).filter hasKeys).reverse ++ [secOf last].filter hasKeys := by
  have hskip : PV.Generated.Ini.commentSkip = true := by decide
  unfold parse parseWith
  rw [hskip, foldl_render σ d hwf, foldl_doc, hs, foldl_secStep, finish_some]
  simp [pushSection]

theorem parse_render_nosections (σ : IniSpec.Style) (d : IniSpec.Doc) (hwf : IniSpec.WF σ d = true)
    (hs : d.secs = []) : parse (IniSpec.render σ d) = [] := by
  have hskip : PV.Generated.Ini.commentSkip = true := by decide
  unfold parse parseWith
  rw [hskip, foldl_render σ d hwf, foldl_doc, hs]
  rfl

/-! ## what the API shows of a parsed file -/

/-- every listed section with its keys (each once, in listing order) and the value a lookup returns -/
def fileView (f : IniFile) : List (Bytes × List (Bytes × Bytes)) :=
  (sections f).map fun n => (n, (keys f n).eraseDups.map fun k => (k, (parameterString f n k none).getD []))

def sectionView (x : Section) : Bytes × List (Bytes × Bytes) :=
  (x.name, (x.keys.map (·.1)).reverse.eraseDups.map fun k => (k, ((x.keys.find? (·.1 == k)).map (·.2)).getD []))

theorem findSection_of_inj (f : IniFile) (hinj : ∀ x ∈ f, ∀ y ∈ f, x.name = y.name → x = y)
    (x : Section) (hx : x ∈ f) : findSection f x.name = some x := by
  induction f with
  | nil => simp at hx
  | cons y f' ih =>
    unfold findSection
    simp only [List.find?_cons]
    by_cases hy : y.name = x.name
    · have : y = x := hinj y (by simp) x hx hy
      subst this; simp
    · have hne : (y.name == x.name) = false := by simp [hy]
      simp only [hne]
      have hx' : x ∈ f' := by
        simp only [List.mem_cons] at hx
        rcases hx with hx | hx
        · subst hx; exact absurd rfl hy
        · exact hx
      exact ih (fun a ha b hb => hinj a (by simp [ha]) b (by simp [hb])) hx'

theorem parameterString_none (f : IniFile) (n k : Bytes) : parameterString f n k none = findParameter f n k := by
  unfold parameterString; cases findParameter f n k <;> rfl

theorem findSection_some_of_mem (f : IniFile) (x : Section) (hx : x ∈ f) :
    ∃ y, findSection f x.name = some y ∧ y.name = x.name := by
  unfold findSection
  have h : (f.find? (·.name == x.name)).isSome = true := by
    rw [List.find?_isSome]; exact ⟨x, hx, by simp⟩
  obtain ⟨y, hy⟩ := Option.isSome_iff_exists.mp h
  exact ⟨y, hy, by have := List.find?_some hy; simpa using this⟩

/-- what the API shows under the name of `x`: the keys and values of the section a look-up of that name finds -/
def viewAs (f : IniFile) (x : Section) : Bytes × List (Bytes × Bytes) :=
  (x.name, (sectionView ((findSection f x.name).getD x)).2)

theorem fileView_gen (f : IniFile) : fileView f = f.reverse.map (viewAs f) := by
  unfold fileView
  rw [sections_eq, ← List.map_reverse, List.map_map]
  apply List.map_congr_left
  intro x hx
  have hx' : x ∈ f := by simpa using hx
  obtain ⟨y, hf, hyn⟩ := findSection_some_of_mem f x hx'
  simp only [Function.comp, viewAs, sectionView, keys_of_find f x.name y hf, parameterString_none, hf, Option.getD_some]
  congr 1
  apply List.map_congr_left
  intro k _
  simp [findParameter, hf]

theorem fileView_eq (f : IniFile) (hinj : ∀ x ∈ f, ∀ y ∈ f, x.name = y.name → x = y) :
    fileView f = f.reverse.map sectionView := by
  rw [fileView_gen]
  apply List.map_congr_left
  intro x hx
  have hx' : x ∈ f := by simpa using hx
  simp [viewAs, findSection_of_inj f hinj x hx', sectionView]

theorem sectionView_secOf (s : IniSpec.Sec) :
    sectionView (secOf s) = (s.header.name, IniSpec.assoc (IniSpec.entriesOf s.body)) := by
  simp [sectionView, secOf, IniSpec.assoc, IniSpec.lastValue, List.map_reverse]

theorem hasKeys_secOf : (hasKeys ∘ secOf) = IniSpec.Sec.assigns := by
  funext s; simp [hasKeys, secOf, IniSpec.Sec.assigns]

theorem filter_map_secOf (l : List IniSpec.Sec) :
    (l.map secOf).filter hasKeys = (l.filter IniSpec.Sec.assigns).map secOf := by
  rw [List.filter_map, hasKeys_secOf]

theorem lookupOrder_snoc (init : List IniSpec.Sec) (last : IniSpec.Sec) :
    IniSpec.lookupOrder (init ++ [last]) = init.reverse ++ [last] := by
  simp [IniSpec.lookupOrder]

/-- the parsed file of a well-formed document: its non-empty sections, in look-up order -/
theorem parse_render_all (σ : IniSpec.Style) (d : IniSpec.Doc) (hwf : IniSpec.WF σ d = true) :
    parse (IniSpec.render σ d) = ((IniSpec.lookupOrder d.secs).filter IniSpec.Sec.assigns).map secOf := by
  cases hr : d.secs.reverse with
  | nil =>
    have hs : d.secs = [] := by simpa using hr
    rw [parse_render_nosections σ d hwf hs, hs]; rfl
  | cons last initRev =>
    have hs : d.secs = initRev.reverse ++ [last] := by
      have := congrArg List.reverse hr
      simpa using this
    rw [parse_render_sections σ d hwf initRev.reverse last hs, hs, lookupOrder_snoc, filter_map_secOf,
      List.filter_append, List.map_append, List.reverse_reverse, ← List.map_reverse, ← List.filter_reverse,
      List.reverse_reverse]
    congr 1
    have := filter_map_secOf [last]
    simpa using this

theorem findSection_map_secOf (L : List IniSpec.Sec) (n : Bytes) :
    findSection (L.map secOf) n = (L.find? (·.header.name == n)).map secOf := by
  unfold findSection
  rw [List.find?_map]
  rfl

/-- the API view of the parsed rendering: the non-empty sections in listing order (the reverse of the look-up
order: the final section first, then the others in file order), each with what a look-up of its name sees -/
theorem fileView_parse_render (σ : IniSpec.Style) (d : IniSpec.Doc) (hwf : IniSpec.WF σ d = true) :
    fileView (parse (IniSpec.render σ d)) = IniSpec.meaningIn d.secs (IniSpec.lookupOrder d.secs).reverse := by
  rw [parse_render_all σ d hwf, fileView_gen, ← List.map_reverse, List.map_map]
  unfold IniSpec.meaningIn
  rw [List.filter_reverse]
  apply List.map_congr_left
  intro s _
  simp only [Function.comp, viewAs, IniSpec.viewOf, IniSpec.seenSec, findSection_map_secOf]
  have hname : (secOf s).name = s.header.name := rfl
  rw [hname]
  cases ((IniSpec.lookupOrder d.secs).filter IniSpec.Sec.assigns).find? (·.header.name == s.header.name) with
  | none => simp [sectionView_secOf]
  | some y => simp [sectionView_secOf]

/-! ## the round trip as it was stated before repeated headers, `key =` and blanks inside quotes were admitted -/

theorem distinct_inj {α} (g : α → Bytes) (l : List α) (h : IniSpec.distinct (l.map g) = true) :
    ∀ a ∈ l, ∀ b ∈ l, g a = g b → a = b := by
  induction l with
  | nil => intro a ha; simp at ha
  | cons x rest ih =>
    simp only [List.map_cons, IniSpec.distinct, Bool.and_eq_true, Bool.not_eq_true', List.contains_eq_mem,
      decide_eq_false_iff_not, List.mem_map, not_exists, not_and] at h
    intro a ha b hb hab
    simp only [List.mem_cons] at ha hb
    rcases ha with ha | ha <;> rcases hb with hb | hb
    · rw [ha, hb]
    · subst ha; exact absurd hab.symm (h.1 b hb)
    · subst hb; exact absurd hab (h.1 a ha)
    · exact ih h.2 a ha b hb hab

theorem find?_of_inj {α} (g : α → Bytes) (l : List α) (hinj : ∀ a ∈ l, ∀ b ∈ l, g a = g b → a = b)
    (x : α) (hx : x ∈ l) : l.find? (fun y => g y == g x) = some x := by
  induction l with
  | nil => simp at hx
  | cons y l ih =>
    simp only [List.find?_cons]
    by_cases hy : g y = g x
    · have : y = x := hinj y (by simp) x hx hy
      subst this; simp
    · have hne : (g y == g x) = false := by simp [hy]
      simp only [hne]
      have hx' : x ∈ l := by
        simp only [List.mem_cons] at hx
        rcases hx with hx | hx
        · subst hx; exact absurd rfl hy
        · exact hx
      exact ih (fun a ha b hb => hinj a (by simp [ha]) b (by simp [hb])) hx'

theorem mem_lookupOrder (all : List IniSpec.Sec) (s : IniSpec.Sec) : s ∈ IniSpec.lookupOrder all ↔ s ∈ all := by
  unfold IniSpec.lookupOrder
  cases hr : all.reverse with
  | nil =>
    have : all = [] := by simpa using hr
    simp [this]
  | cons last initRev =>
    have hs : all = initRev.reverse ++ [last] := by
      have := congrArg List.reverse hr
      simpa using this
    rw [hs]; simp

/-- with distinct names a look-up sees *the* section of that name -/
theorem seenSec_of_distinct (all : List IniSpec.Sec) (hd : IniSpec.distinct (all.map (·.header.name)) = true)
    (s : IniSpec.Sec) (hs : s ∈ all) (ha : s.assigns = true) : IniSpec.seenSec all s.header.name = some s := by
  unfold IniSpec.seenSec
  apply find?_of_inj (fun x : IniSpec.Sec => x.header.name)
  · intro a ha' b hb' hab
    exact distinct_inj _ all hd a ((mem_lookupOrder all a).mp (List.mem_filter.mp ha').1)
      b ((mem_lookupOrder all b).mp (List.mem_filter.mp hb').1) hab
  · exact List.mem_filter.mpr ⟨(mem_lookupOrder all s).mpr hs, ha⟩

theorem meaningOf_eq (secs : List IniSpec.Sec) :
    IniSpec.meaningOf secs
      = (secs.filter IniSpec.Sec.assigns).map fun s => (s.header.name, IniSpec.assoc (IniSpec.entriesOf s.body)) := by
  induction secs with
  | nil => rfl
  | cons s rest ih =>
    have ih' : List.filterMap (fun s : IniSpec.Sec =>
        if (IniSpec.entriesOf s.body).isEmpty = true then none
        else some (s.header.name, IniSpec.assoc (IniSpec.entriesOf s.body))) rest = _ := ih
    simp only [IniSpec.meaningOf, List.filterMap_cons, List.filter_cons, IniSpec.Sec.assigns]
    by_cases he : (IniSpec.entriesOf s.body).isEmpty = true
    · simp only [he, if_true, Bool.not_true, Bool.false_eq_true, if_false]; exact ih'
    · simp only [he, if_false, Bool.not_false, if_true, Bool.false_eq_true, List.map_cons]; rw [ih']

/-- with distinct section names every section is read on its own -/
theorem meaningIn_of_distinct (all : List IniSpec.Sec) (hd : IniSpec.distinct (all.map (·.header.name)) = true)
    (secs : List IniSpec.Sec) (hsub : ∀ s ∈ secs, s ∈ all) : IniSpec.meaningIn all secs = IniSpec.meaningOf secs := by
  rw [meaningOf_eq]
  unfold IniSpec.meaningIn
  apply List.map_congr_left
  intro s hs
  obtain ⟨hs1, hs2⟩ := List.mem_filter.mp hs
  simp [IniSpec.viewOf, seenSec_of_distinct all hd s (hsub s hs1) hs2]

/-- every `key = value` line read literally: the key and value fields as they are -/
def literalEntries (body : List IniSpec.Line) : List (Bytes × Bytes) :=
  body.filterMap fun l => match l.body with
    | .entry e => some (e.key, e.value)
    | _ => none

def literalMeaning (secs : List IniSpec.Sec) : List (Bytes × List (Bytes × Bytes)) :=
  secs.filterMap fun s =>
    let es := literalEntries s.body
    if es.isEmpty then none else some (s.header.name, IniSpec.assoc es)

/-- what `Entry.wf` used to demand of a value: unquoted → not empty; quoted → empty or without blanks at its ends -/
def entryStrict (e : IniSpec.Entry) : Bool :=
  match e.quote with
  | .none => !e.value.isEmpty
  | _ => e.value.isEmpty || IniSpec.trimmed e.value

def bodyStrict (body : List IniSpec.Line) : Bool :=
  body.all fun l => match l.body with
    | .entry e => entryStrict e
    | _ => true

/-- the restrictions the former `WF` had on top of the present one -/
def Strict (d : IniSpec.Doc) : Bool :=
  IniSpec.distinct (d.secs.map (·.header.name)) && d.secs.all fun s => bodyStrict s.body

theorem trim_of_trimmed (v : Bytes) (h : IniSpec.trimmed v = true) : IniSpec.trim v = v := by
  rw [← chomp_eq_trim]
  have := chomp_of_trimmed_append v [] (trimmed_Trimmed h) (by intro x hx; simp at hx)
  simpa using this

theorem binding_strict (e : IniSpec.Entry) (h : entryStrict e = true) : e.binding = some (e.key, e.value) := by
  unfold entryStrict at h
  unfold IniSpec.Entry.binding
  cases hq : e.quote with
  | none => rw [hq] at h; simp only [Bool.not_eq_true'] at h; simp [h]
  | single =>
    rw [hq] at h
    simp only [Bool.or_eq_true, List.isEmpty_iff] at h
    rcases h with h | h
    · rw [h]; rfl
    · simp [trim_of_trimmed _ h]
  | double =>
    rw [hq] at h
    simp only [Bool.or_eq_true, List.isEmpty_iff] at h
    rcases h with h | h
    · rw [h]; rfl
    · simp [trim_of_trimmed _ h]

theorem filterMap_congr' {α β} (f g : α → Option β) (l : List α) (h : ∀ x ∈ l, f x = g x) :
    l.filterMap f = l.filterMap g := by
  induction l with
  | nil => rfl
  | cons x l ih =>
    simp only [List.filterMap_cons, h x (by simp)]
    rw [ih (fun y hy => h y (by simp [hy]))]

theorem entriesOf_strict (body : List IniSpec.Line) (h : bodyStrict body = true) :
    IniSpec.entriesOf body = literalEntries body := by
  unfold IniSpec.entriesOf literalEntries
  apply filterMap_congr'
  intro l hl
  have := (List.all_eq_true.mp h) l hl
  cases hb : l.body with
  | blank ws => rfl
  | comment lead c => rfl
  | entry e => rw [hb] at this; exact binding_strict e this

theorem meaningOf_strict (secs : List IniSpec.Sec) (h : ∀ s ∈ secs, bodyStrict s.body = true) :
    IniSpec.meaningOf secs = literalMeaning secs := by
  unfold IniSpec.meaningOf literalMeaning
  apply filterMap_congr'
  intro s hs
  simp only [entriesOf_strict s.body (h s hs)]

/-! ## documents without marks inside: `linesOk` is what it was before marks were admitted on every line -/

/-- no line carries a mark of its own (the file may: `Style.bom`) -/
def Unmarked (d : IniSpec.Doc) : Bool :=
  d.preamble.all (·.mark == .none) && d.secs.all fun s => s.header.mark == .none && s.body.all (·.mark == .none)

/-- the former `linesOk`: every physical line fits the line buffer and does not look like a byte-order mark -/
def formerLinesOk (σ : IniSpec.Style) (d : IniSpec.Doc) : Bool :=
  match d.lines with
  | [] => true
  | l :: ls => (σ.bom.bytes.length + l.length ≤ IniSpec.maxLine && (σ.bom != .none || !IniSpec.startsWithBom l))
               && ls.all fun l => l.length ≤ IniSpec.maxLine && !IniSpec.startsWithBom l

theorem unmarked_rlines (d : IniSpec.Doc) (h : Unmarked d = true) : ∀ r ∈ docRLines d, r.mark = .none := by
  simp only [Unmarked, Bool.and_eq_true, List.all_eq_true, beq_iff_eq] at h
  obtain ⟨hpre, hsecs⟩ := h
  intro r hr
  simp only [docRLines, List.mem_append, List.mem_map, List.mem_flatMap] at hr
  rcases hr with ⟨l, hl, rfl⟩ | ⟨s, hs, hr⟩
  · exact hpre l hl
  · have := hsecs s hs
    simp only [secRLines, List.mem_cons, List.mem_map] at hr
    rcases hr with rfl | ⟨l, hl, rfl⟩
    · exact this.1
    · exact this.2 l hl

theorem cores_unmarked (d : IniSpec.Doc) (h : Unmarked d = true) :
    d.cores = d.lines.map fun l => (IniSpec.Bom.none, l) := by
  rw [doc_cores_eq, doc_lines_eq, List.map_map]
  apply List.map_congr_left
  intro r hr
  have hm := unmarked_rlines d h r hr
  simp [RLine.render_mark, hm, IniSpec.Bom.bytes]

theorem linesOk_unmarked (σ : IniSpec.Style) (d : IniSpec.Doc) (h : Unmarked d = true) :
    IniSpec.linesOk σ d = formerLinesOk σ d := by
  unfold IniSpec.linesOk formerLinesOk
  rw [cores_unmarked d h]
  cases d.lines with
  | nil => rfl
  | cons l ls =>
    simp only [List.map_cons, List.all_map, Function.comp_def, IniSpec.lineOk, IniSpec.Bom.bytes, List.length_nil,
      Nat.zero_add, beq_self_eq_true, Bool.or_true, Bool.true_and, bne_self_eq_false, Bool.false_or]
    cases σ.bom <;> simp [IniSpec.Bom.bytes]

/-! ## getters -/

theorem isKeyExists_iff (f : IniFile) (n k : Bytes) : isKeyExists f n k = (findParameter f n k).isSome := by
  unfold isKeyExists findParameter
  cases findSection f n with
  | none => rfl
  | some s =>
    simp only [Option.isSome_map]
    induction s.keys with
    | nil => rfl
    | cons p rest ih =>
      simp only [List.any_cons, List.find?_cons]
      cases (p.1 == k) <;> simp [ih]

theorem atoiDigits_numeral (neg : Bool) (ds rest : Bytes) (hds : ∀ d ∈ ds, isDigit d = true)
    (hrest : ∀ r ∈ rest.head?, isDigit r = false) :
    atoiDigits neg (ds ++ rest) = match IniSpec.intValue neg ds with
      | some v => .val v
      | none => .overflow := by
  have htw : (ds ++ rest).takeWhile isDigit = ds := by
    cases rest with
    | nil => simpa using takeWhile_all isDigit _ hds
    | cons r rest' => exact takeWhile_stop isDigit _ r rest' hds (hrest r (by simp))
  have hval : digitsValue ds = IniSpec.decimal ds := rfl
  unfold atoiDigits IniSpec.intValue
  simp only [htw, hval]
  split <;> (split <;> rfl)

theorem atoi_numeral (ws : Bytes) (sign : Option Bool) (ds rest : Bytes) (hws : AllSpace ws)
    (hds : ∀ d ∈ ds, isDigit d = true) (hne : ds ≠ [])
    (hrest : ∀ r ∈ rest.head?, isDigit r = false) :
    atoi (ws ++ (match sign with | none => [] | some true => [45] | some false => [43]) ++ ds ++ rest)
      = match IniSpec.intValue (sign == some true) ds with
        | some v => .val v
        | none => .overflow := by
  obtain ⟨d0, ds', rfl⟩ : ∃ d0 ds', ds = d0 :: ds' := by
    cases ds with
    | nil => exact absurd rfl hne
    | cons a b => exact ⟨a, b, rfl⟩
  have hd0 : isDigit d0 = true := hds d0 (by simp)
  have hd0s : isSpace d0 = false := by
    simp only [isDigit, Bool.and_eq_true, decide_eq_true_eq] at hd0
    simp only [isSpace, Bool.or_eq_false_iff, beq_eq_false_iff_ne, ne_eq, Bool.and_eq_false_iff,
      decide_eq_false_iff_not]
    refine ⟨?_, Or.inr ?_⟩
    · intro h; subst h; exact absurd hd0.1 (by decide)
    · intro h; exact absurd (UInt8.le_trans hd0.1 h) (by decide)
  have hd45 : d0 ≠ 45 := by intro h; subst h; revert hd0; decide
  have hd43 : d0 ≠ 43 := by intro h; subst h; revert hd0; decide
  unfold atoi
  cases sign with
  | none =>
    have h1 : (ws ++ [] ++ (d0 :: ds') ++ rest).dropWhile isSpace = d0 :: (ds' ++ rest) := by
      simpa using dropWhile_stop isSpace ws d0 (ds' ++ rest) hws hd0s
    simp only [h1]
    split
    · rename_i h; injection h with h _; exact absurd h hd45
    · rename_i h; injection h with h _; exact absurd h hd43
    · exact atoiDigits_numeral false (d0 :: ds') rest hds hrest
  | some neg =>
    cases neg with
    | true =>
      have h1 : (ws ++ [45] ++ (d0 :: ds') ++ rest).dropWhile isSpace = 45 :: ((d0 :: ds') ++ rest) := by
        simpa using dropWhile_stop isSpace ws 45 ((d0 :: ds') ++ rest) hws (by decide)
      simp only [h1]
      exact atoiDigits_numeral true (d0 :: ds') rest hds hrest
    | false =>
      have h1 : (ws ++ [43] ++ (d0 :: ds') ++ rest).dropWhile isSpace = 43 :: ((d0 :: ds') ++ rest) := by
        simpa using dropWhile_stop isSpace ws 43 ((d0 :: ds') ++ rest) hws (by decide)
      simp only [h1]
      exact atoiDigits_numeral false (d0 :: ds') rest hds hrest

theorem toBoolean_words :
    toBoolean strTrue = .val true ∧ toBoolean strTRUE = .val true ∧
    toBoolean strFalse = .val false ∧ toBoolean strFALSE = .val false ∧
    toBoolean [49] = .val true ∧ toBoolean [48] = .val false := by decide

theorem toBoolean_numeric (v : Bytes) (h1 : v ≠ strTrue) (h2 : v ≠ strTRUE) (h3 : v ≠ strFalse) (h4 : v ≠ strFALSE) :
    toBoolean v = match atoi v with
      | .val i => .val (decide (i > 0))
      | .overflow => .overflow := by
  have e1 : (v == strTrue) = false := by simp [h1]
  have e2 : (v == strTRUE) = false := by simp [h2]
  have e3 : (v == strFalse) = false := by simp [h3]
  have e4 : (v == strFALSE) = false := by simp [h4]
  unfold toBoolean
  rw [e1, e2, e3, e4]
  cases atoi v <;> rfl

/-- a list item: no white space, NUL or closing brace inside -/
def ItemBytes (it : Bytes) : Prop := ∀ b ∈ it, isSpace b = false ∧ b ≠ 0 ∧ b ≠ 125

theorem listLoop_item (it rest buf : Bytes) (acc : List Bytes) (h : ItemBytes it) :
    listLoop (it ++ rest) buf acc = listLoop rest (it.reverse ++ buf) acc := by
  induction it generalizing buf with
  | nil => rfl
  | cons c it ih =>
    obtain ⟨hs, h0, h125⟩ := h c (by simp)
    have e0 : (c == 0) = false := by simp [h0]
    have e1 : (c == 125) = false := by simp [h125]
    simp only [List.cons_append, listLoop, e0, e1, Bool.or_self, Bool.false_eq_true, if_false, hs, Bool.not_false, if_true]
    rw [ih (c :: buf) (fun b hb => h b (by simp [hb]))]
    simp

theorem listLoop_spaces (ws rest : Bytes) (acc : List Bytes) (h : AllSpace ws) :
    listLoop (ws ++ rest) [] acc = listLoop rest [] acc := by
  induction ws with
  | nil => rfl
  | cons c ws ih =>
    have hs : isSpace c = true := h c (by simp)
    have e0 : (c == 0) = false := by
      simp only [beq_eq_false_iff_ne, ne_eq]; intro e; subst e; revert hs; decide
    have e1 : (c == 125) = false := by
      simp only [beq_eq_false_iff_ne, ne_eq]; intro e; subst e; revert hs; decide
    simp only [List.cons_append, listLoop, e0, e1, Bool.or_self, Bool.false_eq_true, if_false, hs, Bool.not_true,
      List.isEmpty_nil, if_true]
    exact ih (fun b hb => h b (by simp [hb]))

theorem listLoop_sep (sep rest buf : Bytes) (acc : List Bytes) (h : AllSpace sep) (hne : sep ≠ []) (hb : buf ≠ []) :
    listLoop (sep ++ rest) buf acc = listLoop rest [] (buf.reverse :: acc) := by
  cases sep with
  | nil => exact absurd rfl hne
  | cons c sep' =>
    have hs : isSpace c = true := h c (by simp)
    have e0 : (c == 0) = false := by
      simp only [beq_eq_false_iff_ne, ne_eq]; intro e; subst e; revert hs; decide
    have e1 : (c == 125) = false := by
      simp only [beq_eq_false_iff_ne, ne_eq]; intro e; subst e; revert hs; decide
    have hbe : buf.isEmpty = false := by cases buf with | nil => exact absurd rfl hb | cons _ _ => rfl
    simp only [List.cons_append, listLoop, e0, e1, Bool.or_self, Bool.false_eq_true, if_false, hs, Bool.not_true, hbe]
    exact listLoop_spaces sep' rest _ (fun b hb => h b (by simp [hb]))

theorem listLoop_items (items : List (Bytes × Bytes)) (last : Option Bytes) (acc : List Bytes)
    (hi : ∀ p ∈ items, p.1 ≠ [] ∧ ItemBytes p.1 ∧ p.2 ≠ [] ∧ AllSpace p.2)
    (hl : ∀ it ∈ last, it ≠ [] ∧ ItemBytes it) :
    listLoop ((items.flatMap fun p => p.1 ++ p.2) ++ (last.getD [] ++ [125])) [] acc
      = acc.reverse ++ items.map (·.1) ++ last.toList := by
  induction items generalizing acc with
  | nil =>
    cases last with
    | none => simp [listLoop]
    | some it =>
      obtain ⟨hne, hit⟩ := hl it (by simp)
      have := listLoop_item it [125] [] acc hit
      simp only [List.flatMap_nil, List.nil_append, Option.getD_some, this, List.append_nil]
      have hbe : it.reverse.isEmpty = false := by
        cases it with | nil => exact absurd rfl hne | cons _ _ => simp
      simp [listLoop, hbe]
  | cons p rest ih =>
    obtain ⟨h1, h2, h3, h4⟩ := hi p (by simp)
    have e : ((p :: rest).flatMap fun p => p.1 ++ p.2) ++ (last.getD [] ++ [125])
        = p.1 ++ (p.2 ++ ((rest.flatMap fun p => p.1 ++ p.2) ++ (last.getD [] ++ [125]))) := by
      simp [List.flatMap_cons, List.append_assoc]
    rw [e, listLoop_item p.1 _ [] acc h2, List.append_nil,
      listLoop_sep p.2 _ p.1.reverse acc h4 h3 (by simpa using h1), List.reverse_reverse,
      ih (p.1 :: acc) (fun q hq => hi q (by simp [hq]))]
    simp

/-- `{a b c}` is read as its items -/
theorem toList_listText (lead : Bytes) (items : List (Bytes × Bytes)) (last : Option Bytes) (hlead : AllSpace lead)
    (hi : ∀ p ∈ items, p.1 ≠ [] ∧ ItemBytes p.1 ∧ p.2 ≠ [] ∧ AllSpace p.2)
    (hl : ∀ it ∈ last, it ≠ [] ∧ ItemBytes it) :
    toList (IniSpec.listText lead items last) = items.map (·.1) ++ last.toList := by
  have hshape : IniSpec.listText lead items last
      = 123 :: (lead ++ ((items.flatMap fun p => p.1 ++ p.2) ++ (last.getD [] ++ [125]))) := by
    simp [IniSpec.listText, List.append_assoc]
  rw [hshape]
  unfold toList
  have h0 : bufAt (123 :: (lead ++ ((items.flatMap fun p => p.1 ++ p.2) ++ (last.getD [] ++ [125])))) 0 = 123 := by
    simp [bufAt]
  have hl' : (123 :: (lead ++ ((items.flatMap fun p => p.1 ++ p.2) ++ (last.getD [] ++ [125])))).getLast? = some 125 :=
    List.getLast?_eq_some_iff.mpr ⟨123 :: (lead ++ ((items.flatMap fun p => p.1 ++ p.2) ++ last.getD [])), by simp⟩
  simp only [h0, hl', bne_self_eq_false, Bool.or_false, List.drop_succ_cons, List.drop_zero]
  by_cases hshort : (123 :: (lead ++ ((items.flatMap fun p => p.1 ++ p.2) ++ (last.getD [] ++ [125])))).length < 3
  · -- only `{}` is that short
    simp only [hshort, decide_true, if_true]
    simp only [List.length_cons, List.length_append, List.length_nil] at hshort
    have hitems : items = [] := by
      cases items with
      | nil => rfl
      | cons p rest =>
        have := (hi p (by simp)).1
        have : p.1.length > 0 := List.length_pos_iff.mpr this
        simp only [List.flatMap_cons, List.length_append] at hshort
        omega
    have hlast : last = none := by
      cases last with
      | none => rfl
      | some it =>
        have := (hl it (by simp)).1
        have : it.length > 0 := List.length_pos_iff.mpr this
        simp only [Option.getD_some] at hshort
        omega
    simp [hitems, hlast]
  · simp only [hshort, decide_false, Bool.false_eq_true, if_false]
    rw [listLoop_spaces lead _ [] hlead, listLoop_items items last [] hi hl]
    simp

/-! ## robustness: what is stored fits the fixed buffers of the getters -/

def SectionFits (s : Section) : Prop :=
  s.name.length ≤ maxLine ∧ ∀ kv ∈ s.keys, kv.1.length ≤ maxLine ∧ kv.2.length ≤ maxLine

def StateFits (st : PState) : Prop := (∀ s ∈ st.sections, SectionFits s) ∧ ∀ s ∈ st.cur, SectionFits s

theorem pushSection_fits (st : PState) (h : StateFits st) : ∀ s ∈ pushSection st, SectionFits s := by
  unfold pushSection
  cases hc : st.cur with
  | none => simpa using h.1
  | some sec =>
    simp only
    split
    · exact h.1
    · intro s hs
      simp only [List.mem_cons] at hs
      rcases hs with hs | hs
      · subst hs; exact h.2 s (by simp [hc])
      · exact h.1 s hs

theorem stepLine_fits (skip : Bool) (st : PState) (l : Bytes) (h : StateFits st) : StateFits (stepLine skip st l) := by
  unfold stepLine
  split
  · refine ⟨pushSection_fits st h, ?_⟩
    intro s hs
    simp only [Option.mem_def, Option.some.injEq] at hs
    subst hs
    exact ⟨clip_length_le_max _, by intro kv hkv; simp at hkv⟩
  · split
    · exact h
    · split
      · exact h
      · rename_i k v _
        cases hc : st.cur with
        | none => simpa [hc] using h
        | some sec =>
          simp only
          refine ⟨h.1, ?_⟩
          intro s hs
          simp only [Option.mem_def, Option.some.injEq] at hs
          subst hs
          have hsec := h.2 sec (by simp [hc])
          refine ⟨hsec.1, ?_⟩
          intro kv hkv
          simp only [List.mem_cons] at hkv
          rcases hkv with hkv | hkv
          · subst hkv
            refine ⟨clip_length_le_max _, ?_⟩
            simp only
            split
            · simp
            · exact clip_length_le_max _
          · exact hsec.2 kv hkv

theorem parseWith_fits (skip : Bool) (input : Bytes) : ∀ s ∈ parseWith skip input, SectionFits s := by
  have hfold : ∀ (cs : List Bytes) (st : PState), StateFits st → StateFits (cs.foldl (step skip) st) := by
    intro cs
    induction cs with
    | nil => intro st h; exact h
    | cons c cs ih =>
      intro st h
      rw [List.foldl_cons]
      apply ih
      show StateFits (stepLine skip st (lineOf c))
      exact stepLine_fits skip st _ h
  have h0 : StateFits ⟨[], none⟩ := ⟨by intro s hs; simp at hs, by intro s hs; simp at hs⟩
  have hfin := hfold (splitLines input) _ h0
  unfold parseWith finish
  cases hc : ((splitLines input).foldl (step skip) ⟨[], none⟩).cur with
  | none => simpa using hfin.1
  | some sec =>
    simp only
    split
    · exact hfin.1
    · intro s hs
      simp only [List.mem_append, List.mem_singleton] at hs
      rcases hs with hs | hs
      · exact hfin.1 s hs
      · subst hs; exact hfin.2 s (by simp [hc])

theorem listLoop_fits (s buf : Bytes) (acc : List Bytes) (n : Nat) (hacc : ∀ it ∈ acc, it.length ≤ n)
    (hb : buf.length + s.length ≤ n) : ∀ it ∈ listLoop s buf acc, it.length ≤ n := by
  induction s generalizing buf acc with
  | nil =>
    intro it hit
    simp only [listLoop] at hit
    split at hit
    · exact hacc it (by simpa using hit)
    · simp only [List.reverse_cons, List.mem_append, List.mem_reverse, List.mem_singleton] at hit
      rcases hit with hit | hit
      · exact hacc it hit
      · subst hit; simp at hb ⊢; omega
  | cons c cs ih =>
    intro it hit
    simp only [listLoop] at hit
    simp only [List.length_cons] at hb
    split at hit
    · split at hit
      · exact hacc it (by simpa using hit)
      · simp only [List.reverse_cons, List.mem_append, List.mem_reverse, List.mem_singleton] at hit
        rcases hit with hit | hit
        · exact hacc it hit
        · subst hit; simp; omega
    · split at hit
      · exact ih (c :: buf) acc hacc (by simp; omega) it hit
      · refine ih [] _ ?_ (by simp; omega) it hit
        intro x hx
        split at hx
        · exact hacc x hx
        · simp only [List.mem_cons] at hx
          rcases hx with hx | hx
          · subst hx; simp; omega
          · exact hacc x hx

theorem toList_fits (v : Bytes) : ∀ it ∈ toList v, it.length ≤ v.length := by
  unfold toList
  split
  · intro it hit; simp at hit
  · exact listLoop_fits (v.drop 1) [] [] v.length (by intro it hit; simp at hit) (by simp)

/-! # object life cycle, `p_strchomp` = trim, `p_strtok` (added with the getter / pstring audit) -/

section Audit
open PV.IniSpec (tokensAux tokens)


/-! ## life cycle -/

theorem visible_unparsed (h : Option Handle) (hp : fileIsParsed h = false) : visible h = [] := by
  cases h with
  | none => rfl
  | some x => simp [fileIsParsed] at hp; simp [visible, hp]

theorem findParameter_nil (s k : Bytes) : findParameter [] s k = none := rfl

theorem apiFind_unparsed (h : Option Handle) (hp : fileIsParsed h = false) (sec key : Option Bytes) :
    apiFind h sec key = none := by
  unfold apiFind
  rw [visible_unparsed h hp]
  cases sec <;> cases key <;> rfl

theorem apiFind_null (h : Option Handle) (sec key : Option Bytes) (hn : sec = none ∨ key = none) :
    apiFind h sec key = none := by
  rcases hn with rfl | rfl
  · rfl
  · cases sec <;> rfl

/-- the result of `p_strchomp` is empty or starts and ends with a non-blank byte -/
theorem chomp_shape (s : Bytes) :
    chomp s = [] ∨ ∃ a y, (chomp s).head? = some a ∧ (chomp s).getLast? = some y ∧ isSpace a = false ∧ isSpace y = false := by
  obtain ⟨l, u, hs, hl, _, hc⟩ := ltrim_decomp s
  obtain ⟨u', t, hu2, ht, hc2⟩ := rtrim_decomp u
  rcases hc2 with hnil | ⟨y, hy, hys⟩
  · subst hnil
    simp only [List.nil_append] at hu2
    left
    apply chomp_allSpace
    intro x hx; rw [hs] at hx
    rcases List.mem_append.mp hx with h | h
    · exact hl x h
    · rw [hu2] at h; exact ht x h
  · right
    have hne : u' ≠ [] := by intro h; rw [h] at hy; simp at hy
    obtain ⟨a, ha, has⟩ : ∃ a, u'.head? = some a ∧ isSpace a = false := by
      rcases hc with h | ⟨a, ha, has⟩
      · rw [h] at hu2
        have : u' = [] := by
          have := congrArg List.length hu2; simp at this; exact List.eq_nil_of_length_eq_zero (by omega)
        exact absurd this hne
      · refine ⟨a, ?_, has⟩
        rw [hu2] at ha
        cases u' with
        | nil => exact absurd rfl hne
        | cons b bs => simpa using ha
    have h1 : chomp s = u' := by
      rw [hs, hu2, ← List.append_assoc]
      exact chomp_sandwich' l u' t a y hl ht ha hy has hys
    exact ⟨a, y, by rw [h1]; exact ha, by rw [h1]; exact hy, has, hys⟩

theorem chomp_idem (s : Bytes) : chomp (chomp s) = chomp s := by
  rcases chomp_shape s with h | ⟨a, y, ha, hy, has, hys⟩
  · rw [h]; decide
  · have := chomp_sandwich' [] (chomp s) [] a y (by intro x hx; simp at hx) (by intro x hx; simp at hx) ha hy has hys
    simpa using this

theorem trim_idem (s : Bytes) : IniSpec.trim (IniSpec.trim s) = IniSpec.trim s := by
  rw [← chomp_eq_trim, ← chomp_eq_trim]; exact chomp_idem s

/-! ## `p_strtok` loop = the maximal delimiter-free runs -/

theorem dropWhile_head_false {α} (p : α → Bool) (l : List α) (b : α) (r : List α) (h : l.dropWhile p = b :: r) :
    p b = false := by
  induction l with
  | nil => simp at h
  | cons x xs ih =>
    by_cases hx : p x = true
    · simp only [List.dropWhile_cons, hx, if_true] at h; exact ih h
    · simp only [List.dropWhile_cons, hx] at h
      simp only [Bool.false_eq_true, if_false, List.cons.injEq] at h
      rw [← h.1]; simpa using hx

theorem takeWhile_cons_true {α} (p : α → Bool) (b : α) (r : List α) (h : p b = true) :
    (b :: r).takeWhile p = b :: r.takeWhile p := by
  rw [List.takeWhile_cons]; simp [h]

theorem mem_takeWhile_true {α} (p : α → Bool) (l : List α) (x : α) (h : x ∈ l.takeWhile p) : p x = true := by
  induction l with
  | nil => simp at h
  | cons y ys ih =>
    by_cases hy : p y = true
    · rw [takeWhile_cons_true p y ys hy] at h
      rcases List.mem_cons.mp h with rfl | h'
      · exact hy
      · exact ih h'
    · rw [List.takeWhile_cons] at h; simp [hy] at h

theorem drop_length_takeWhile {α} (p : α → Bool) (l : List α) : l.drop (l.takeWhile p).length = l.dropWhile p := by
  induction l with
  | nil => rfl
  | cons x xs ih =>
    by_cases hx : p x = true
    · simp [List.takeWhile_cons, List.dropWhile_cons, hx, ih]
    · simp [List.takeWhile_cons, List.dropWhile_cons, hx]

theorem tokensAux_cur (isD : UInt8 → Bool) (s cur : Bytes) (hc : cur ≠ []) :
    tokensAux isD s cur = (cur.reverse ++ s.takeWhile (fun b => !isD b))
      :: tokensAux isD ((s.dropWhile (fun b => !isD b)).drop 1) [] := by
  induction s generalizing cur with
  | nil =>
    have : cur.isEmpty = false := by cases cur <;> simp_all
    simp [tokensAux, this]
  | cons b r ih =>
    have hce : cur.isEmpty = false := by cases cur <;> simp_all
    by_cases hb : isD b = true
    · simp [tokensAux, hb, hce, List.takeWhile_cons, List.dropWhile_cons]
    · have hb' : isD b = false := by simpa using hb
      simp only [tokensAux, hb', Bool.false_eq_true, if_false]
      rw [ih (b :: cur) (by simp)]
      simp [List.takeWhile_cons, List.dropWhile_cons, hb']

theorem tokensAux_skip (isD : UInt8 → Bool) (s : Bytes) :
    tokensAux isD s [] = tokensAux isD (s.dropWhile isD) [] := by
  induction s with
  | nil => rfl
  | cons b r ih =>
    by_cases hb : isD b = true
    · simp [tokensAux, hb, List.dropWhile_cons, ih]
    · simp [List.dropWhile_cons, hb]

theorem tokensAux_start (isD : UInt8 → Bool) (b : UInt8) (r : Bytes) (hb : isD b = false) :
    tokensAux isD (b :: r) [] = (b :: r.takeWhile (fun b => !isD b))
      :: tokensAux isD ((r.dropWhile (fun b => !isD b)).drop 1) [] := by
  have := tokensAux_cur isD r [b] (by simp)
  simpa [tokensAux, hb] using this

theorem length_drop1_dropWhile_le {α} (p : α → Bool) (r : List α) : ((r.dropWhile p).drop 1).length ≤ r.length := by
  have := length_dropWhile_le' p r
  simp only [List.length_drop]; omega

theorem strtokLoop_eq_tokens (delim : Bytes) (n : Nat) (s : Bytes) (hn : s.length < n) :
    strtokLoop delim n s = tokens delim s := by
  induction n generalizing s with
  | zero => omega
  | succ n ih =>
    unfold tokens
    rw [tokensAux_skip]
    simp only [strtokLoop, strtokR]
    cases hs1 : s.dropWhile delim.contains with
    | nil => simp [tokensAux]
    | cons b r =>
      have hb : delim.contains b = false := dropWhile_head_false _ s b r hs1
      have hlen : (b :: r).length ≤ s.length := by rw [← hs1]; exact length_dropWhile_le' _ _
      simp only [List.isEmpty_cons, Bool.false_eq_true, if_false]
      rw [tokensAux_start _ b r hb]
      have htw : (b :: r).takeWhile (fun b => !delim.contains b) = b :: r.takeWhile (fun b => !delim.contains b) :=
        takeWhile_cons_true _ b r (by show (!delim.contains b) = true; rw [hb]; rfl)
      rw [htw]
      simp only [List.length_cons, List.drop_succ_cons, drop_length_takeWhile]
      congr 1
      have := length_drop1_dropWhile_le (fun b => !delim.contains b) r
      simp only [List.length_cons] at hlen
      exact ih _ (by omega)

/-- one call: the token is not empty, has no delimiter in it, and starts where the delimiters end -/
theorem strtokR_token (delim s tok rest : Bytes) (h : strtokR delim s = some (tok, rest)) :
    tok ≠ [] ∧ (∀ b ∈ tok, delim.contains b = false) ∧ tok <+: s.dropWhile delim.contains ∧ rest.length < s.length := by
  simp only [strtokR] at h
  cases hs1 : s.dropWhile delim.contains with
  | nil => simp [hs1] at h
  | cons b r =>
    have hb : delim.contains b = false := dropWhile_head_false _ s b r hs1
    have hlen : (b :: r).length ≤ s.length := by rw [← hs1]; exact length_dropWhile_le' _ _
    simp only [hs1, List.isEmpty_cons, Bool.false_eq_true, if_false, Option.some.injEq, Prod.mk.injEq] at h
    obtain ⟨h1, h2⟩ := h
    have htw : (b :: r).takeWhile (fun b => !delim.contains b) = b :: r.takeWhile (fun b => !delim.contains b) :=
      takeWhile_cons_true _ b r (by show (!delim.contains b) = true; rw [hb]; rfl)
    refine ⟨?_, ?_, ?_, ?_⟩
    · rw [← h1, htw]; simp
    · intro x hx; rw [← h1] at hx
      have := mem_takeWhile_true _ _ x hx
      simpa using this
    · rw [← h1]; exact List.takeWhile_prefix _
    · rw [← h2, htw]
      simp only [List.length_cons, List.drop_succ_cons, drop_length_takeWhile]
      have := length_drop1_dropWhile_le (fun b => !delim.contains b) r
      simp only [List.length_cons] at hlen
      omega


end Audit

end PV.Ini

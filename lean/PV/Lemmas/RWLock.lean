import PV.Lemmas.RWLock.Pack
import PV.Lemmas.RWLock.Step
import PV.Lemmas.RWLock.Inv
import PV.Lemmas.RWLock.Live
import PV.Lemmas.RWLock.Api
import PV.Lemmas.RWLock.Fail

import PV.Lemmas.RWLock.Pack
import PV.Lemmas.RWLock.Step

import PV.Model.Locks
/-! helper facts on wrapping words and on sequential runs of spec operations (used by `PV.Props.C04`) -/
namespace PV.C04
open PV.Atomics PV.Locks

theorem dec_lemma {n : Nat} (w : BitVec n) : (w == 1#n) = (w - 1#n == 0#n) := by
  rw [Bool.eq_iff_iff]
  simp only [beq_iff_eq]
  constructor
  · rintro rfl; simp
  · intro h
    have h2 : w - 1#n + 1#n = w := BitVec.sub_add_cancel w 1#n
    rw [h] at h2
    simpa using h2.symm

theorem one_ne_zero {n : Nat} (hn : 0 < n) : (1#n : BitVec n) ≠ 0#n := by
  intro h
  have := congrArg BitVec.toNat h
  simp at this
  omega

theorem b2w_eq_zero {n : Nat} (hn : 0 < n) (c : Bool) : ((b2w c : BitVec n) = 0#n) = (c = false) := by
  cases c <;> simp [b2w, one_ne_zero hn]

theorem b2w_bne_zero {n : Nat} (hn : 0 < n) (c : Bool) : ((b2w c : BitVec n) != 0#n) = c := by
  cases c <;> simp [b2w, one_ne_zero hn]

theorem specRun_snoc {n : Nat} (w : BitVec n) (l : List (LOp n)) (o : LOp n) :
    specRun w (l ++ [o]) =
      ((spec o.impl.op (specRun w l).1 o.a o.b).1, (specRun w l).2 ++ [(spec o.impl.op (specRun w l).1 o.a o.b).2]) := by
  induction l generalizing w with
  | nil => simp [specRun]
  | cons p rest ih => simp [specRun, ih]

end PV.C04

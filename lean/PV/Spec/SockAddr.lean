import PV.Model.SockAddr
/-! # What a user of `PSocketAddress` relies on (C17), stated directly

The native image of an address on Linux x86-64 written out byte by byte, its inverse, and the
classification in terms of the address bytes.  No offsets, no byte-order macros, no order of
checks: those belong to the model; `PV.Props.C17` proves the model equal to this. -/
namespace PV.SockAddr.Spec
open PV.SockAddr

def hi (p : UInt16) : UInt8 := UInt8.ofNat (p.toNat / 256)
def lo (p : UInt16) : UInt8 := UInt8.ofNat (p.toNat % 256)
/-- little-endian bytes of a 32-bit object -/
def le32 (x : UInt32) : List UInt8 :=
  [UInt8.ofNat (x.toNat % 256), UInt8.ofNat (x.toNat / 256 % 256), UInt8.ofNat (x.toNat / 65536 % 256), UInt8.ofNat (x.toNat / 16777216)]
def ofLe32 (b0 b1 b2 b3 : UInt8) : UInt32 :=
  UInt32.ofNat (b0.toNat + 256 * b1.toNat + 65536 * b2.toNat + 16777216 * b3.toNat)
def ofBe16 (h l : UInt8) : UInt16 := UInt16.ofNat (h.toNat * 256 + l.toNat)

/-- `struct sockaddr_in` (16 bytes) / `struct sockaddr_in6` (28 bytes) holding the address:
    family in host order, port in network order, flow info and scope id as stored -/
def encode : Addr → List UInt8
  | .v4 a p => [2, 0, hi p, lo p] ++ a.toList ++ [0, 0, 0, 0, 0, 0, 0, 0]
  | .v6 a p f s => [10, 0, hi p, lo p] ++ le32 f ++ a.toList ++ le32 s

/-- the address a native structure of `len` readable bytes denotes, if any -/
def decode (bytes : List UInt8) (len : Nat) : Option Addr :=
  match bytes with
  | 2 :: 0 :: ph :: pl :: a0 :: a1 :: a2 :: a3 :: _ :: _ :: _ :: _ :: _ :: _ :: _ :: _ :: _ =>
    if len ≥ 16 then some (.v4 #v[a0, a1, a2, a3] (ofBe16 ph pl)) else none
  | 10 :: 0 :: ph :: pl :: f0 :: f1 :: f2 :: f3 :: a0 :: a1 :: a2 :: a3 :: a4 :: a5 :: a6 :: a7 :: a8 :: a9 :: a10 :: a11 ::
      a12 :: a13 :: a14 :: a15 :: s0 :: s1 :: s2 :: s3 :: _ =>
    if len ≥ 28 then
      some (.v6 #v[a0, a1, a2, a3, a4, a5, a6, a7, a8, a9, a10, a11, a12, a13, a14, a15] (ofBe16 ph pl)
        (ofLe32 f0 f1 f2 f3) (ofLe32 s0 s1 s2 s3))
    else none
  | _ => none

def addrBytes : Addr → List UInt8
  | .v4 a _ => a.toList
  | .v6 a .. => a.toList

/-- the unspecified address: every address byte is 0 -/
def isAny (a : Addr) : Bool := (addrBytes a).all (· == 0)

/-- 127.0.0.0/8, respectively ::1 -/
def isLoopback : Addr → Bool
  | .v4 a _ => a[0] == 127
  | .v6 a .. => a.toList == [0, 0, 0, 0, 0, 0, 0, 0, 0, 0, 0, 0, 0, 0, 0, 1]

end PV.SockAddr.Spec

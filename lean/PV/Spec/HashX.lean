import PV.Model.HashX.Keccak
import PV.Model.HashX.Gost
/-!
# One-shot specifications: SHA-3 (FIPS 202) and GOST R 34.11-94

Written over the message as a whole, from the standards' structure.  Shared with the models (allowed
by the design): the permutation `keccakF`, the GOST step function `step`, and the byte/word view
helpers (`lane`, `stateBytes`, `w8OfBytes`, `bytesOfW8`, `W8.toNat` — all little-endian, which is
both the standards' convention and the platform's).  Padding, block splitting, rate/capacity,
length and checksum are written here independently of the C code.

`PV.Spec.HashXStd` repeats these definitions over `KeccakStd.keccakF` and `GostStd.chi` (written from the
standards); `PV.Lemmas.HashX.SpecStd` proves the two families of specs equal, so the sharing above is
no longer a trusted step.
-/
namespace PV.HashX.Spec
open PV.HashX PV.HashX.Keccak

/-- the full `B`-byte blocks of a message, in order
    (`(m.take B).length = B` says "`m` has at least `B` bytes" without measuring all of `m`) -/
def blocks (B : Nat) (m : Bytes) : List Bytes :=
  if _h : 0 < B ∧ (m.take B).length = B then m.take B :: blocks B (m.drop B) else []
termination_by m.length
decreasing_by simp only [List.length_take, List.length_drop] at *; omega

/-- what is left after the full blocks (fewer than `B` bytes) -/
def rest (B : Nat) (m : Bytes) : Bytes :=
  if _h : 0 < B ∧ (m.take B).length = B then rest B (m.drop B) else m
termination_by m.length
decreasing_by simp only [List.length_take, List.length_drop] at *; omega

/-! ## SHA-3 = KECCAK[c = 2d] (M ‖ 01, d), FIPS 202 §4–§6 -/

/-- `M ‖ 01 ‖ pad10*1 (r, |M| + 2)` for a byte-aligned message with the rate `r` in bytes.
    Bits are numbered from the least significant bit of a byte (FIPS 202 B.1), so the suffix `01`
    followed by the first pad bit `1` is the byte `0x06`, and the final pad bit `1` is `0x80`;
    when only one byte is missing both fall into the same byte, `0x86`. -/
def pad (r : Nat) (m : Bytes) : Bytes :=
  let q := r - m.length % r
  if q = 1 then m ++ [0x86] else m ++ [0x06] ++ List.replicate (q - 2) 0 ++ [0x80]

/-- `S ← f (S ⊕ (P ‖ 0^c))` for one `r`-byte block `P`; the state is 25 little-endian lanes (b = 200 bytes) -/
def absorbBlock (r : Nat) (S : Lanes) (P : Bytes) : Lanes :=
  let padded := (P ++ List.replicate (200 - r) 0).toArray
  keccakF (S.mapIdx fun i x => x ^^^ lane padded i)

/-- `Z ← Trunc_r (S); while |Z| < d: S ← f (S), Z ← Z ‖ Trunc_r (S); return Trunc_d (Z)` (in bytes) -/
def squeeze (r : Nat) (S : Lanes) (d : Nat) : Bytes :=
  if _h : 0 < r ∧ r < d then stateBytes S r ++ squeeze r (keccakF S) (d - r) else stateBytes S d
termination_by d
decreasing_by omega

/-- the sponge with rate `r` bytes and output `d` bytes over the message with the SHA-3 domain suffix -/
def sponge (r d : Nat) (m : Bytes) : Bytes :=
  squeeze r ((blocks r (pad r m)).foldl (absorbBlock r) zeroState) d

/-- SHA3-n: capacity `2 n` bits, so the rate is `(1600 − 2 n) / 8` bytes and the digest `n / 8` bytes -/
def sha3 (n : Nat) (m : Bytes) : Bytes := sponge ((1600 - 2 * n) / 8) (n / 8) m

def sha3_224 := sha3 224
def sha3_256 := sha3 256
def sha3_384 := sha3 384
def sha3_512 := sha3 512

/-! ## GOST R 34.11-94

`H ← 0`, `Σ ← 0`, `L ← 0`; for every 256-bit block `M` of the message (the last one zero-extended if
incomplete; little-endian: the first byte is the least significant): `H ← χ (M, H)`,
`L ← L + |M| mod 2^256`, `Σ ← Σ + M mod 2^256`; finally `H ← χ (L, H)`, `H ← χ (Σ, H)`.
No block is processed for the empty remainder (in particular for the empty message), as in every
implementation and in the published test vectors. -/

open PV.HashX.Gost in
/-- an integer `< 2^256` as eight 32-bit words -/
def wordsOfNat (n : Nat) : W8 :=
  ⟨UInt32.ofNat n, UInt32.ofNat (n / 2 ^ 32), UInt32.ofNat (n / 2 ^ 64), UInt32.ofNat (n / 2 ^ 96),
   UInt32.ofNat (n / 2 ^ 128), UInt32.ofNat (n / 2 ^ 160), UInt32.ofNat (n / 2 ^ 192), UInt32.ofNat (n / 2 ^ 224)⟩

open PV.HashX.Gost in
/-- the 32-byte blocks that are hashed: full blocks, then the zero-extended remainder if there is one -/
def gostBlocks (m : Bytes) : List W8 :=
  let t := rest 32 m
  ((blocks 32 m) ++ (if t.length = 0 then [] else [t ++ List.replicate (32 - t.length) 0])).map w8OfBytes

open PV.HashX.Gost in
def gost (m : Bytes) : Bytes :=
  let bs := gostBlocks m
  let h := bs.foldl step W8.zero
  let L := (8 * m.length) % 2 ^ 256
  let S := (bs.foldl (fun s b => s + b.toNat) 0) % 2 ^ 256
  bytesOfW8 (step (step h (wordsOfNat L)) (wordsOfNat S))

end PV.HashX.Spec

import PV.Model.Hash.Bytes
import PV.Model.Hash.Compress
/-!
# One-shot specification of MD5 (RFC 1321), SHA-1 and SHA-2 (FIPS 180-4)

`H msg = out (foldl compress iv (blocks (pad msg)))`.

Padding, written from the standards (FIPS 180-4 §5.1, RFC 1321 §3.1–3.2), in bytes:
append the byte `0x80`, then the smallest number `k ≥ 0` of zero bytes that makes the length
congruent to `B − L` modulo `B`, then the message length **in bits** as an `L`-byte integer
(`L = 8`, `B = 64` for MD5 / SHA-1 / SHA-224 / SHA-256; `L = 16`, `B = 128` for SHA-384 / SHA-512);
most significant byte first for the SHA family, least significant byte first for MD5.
The padded message is cut into `B`-byte blocks, each block is read as sixteen words (most
significant byte first for SHA, least significant first for MD5) and fed to the compression
function, starting from the algorithm's initial value.  The digest is the final hash words written
out in the same byte order, truncated to the leftmost 28 / 48 bytes for SHA-224 / SHA-384.

Nothing here is taken from the C streaming code; only the compression functions
(`md5Block`, `sha1Block`, `sha256Block`, `sha512Block`) and the initial values are shared with the
model (they are what the translator reads from the C source and what the `hashlib` differential
and the standard vectors test).
-/
namespace PV.Hash.Spec
open PV.Hash PV.Generated.HashMD

/-- `k` bytes of `n`, least significant first -/
def leBytesN : Nat → Nat → List UInt8
  | 0, _ => []
  | k + 1, n => (n % 256).toUInt8 :: leBytesN k (n / 256)

/-- `k` bytes of `n`, most significant first -/
def beBytesN (k n : Nat) : List UInt8 := (leBytesN k n).reverse

structure MDSpec where
  σ : Type
  /-- block size in bytes -/
  B : Nat
  /-- size of the length field in bytes -/
  L : Nat
  iv : σ
  /-- compression of one `B`-byte block -/
  compress : σ → ByteArray → σ
  /-- the `L`-byte length field for a message of the given number of *bits* -/
  encLen : Nat → List UInt8
  out : σ → List UInt8

namespace MDSpec
variable (S : MDSpec)

/-- the smallest `k` with `n + 1 + k + L ≡ 0 (mod B)` -/
def padZeros (n : Nat) : Nat := (S.B - (n + 1 + S.L) % S.B) % S.B

def pad (msg : ByteArray) : ByteArray :=
  msg ++ [0x80].toByteArray ++ zeroBytes (S.padZeros msg.size) ++ (S.encLen (8 * msg.size)).toByteArray

/-- the `m.size / B` consecutive `B`-byte blocks of `m` -/
def blocks (m : ByteArray) : List ByteArray :=
  (List.range (m.size / S.B)).map fun i => m.extract (i * S.B) (i * S.B + S.B)

/-- **the standard digest** -/
def H (msg : ByteArray) : List UInt8 := S.out ((S.blocks (S.pad msg)).foldl S.compress S.iv)
end MDSpec

def md5 : MDSpec where
  σ := Array UInt32
  B := 64
  L := 8
  iv := md5IV
  compress := fun h blk => md5Block h (wordsLE32 blk)
  encLen := fun bits => leBytesN 8 bits
  out := fun h => (h.toList.flatMap leBytes32).take 16

def sha32 (iv : Array UInt32) (block : Array UInt32 → Array UInt32 → Array UInt32) (outLen : Nat) : MDSpec where
  σ := Array UInt32
  B := 64
  L := 8
  iv := iv
  compress := fun h blk => block h (wordsBE32 blk)
  encLen := fun bits => beBytesN 8 bits
  out := fun h => (h.toList.flatMap beBytes32).take outLen

def sha64 (iv : Array UInt64) (outLen : Nat) : MDSpec where
  σ := Array UInt64
  B := 128
  L := 16
  iv := iv
  compress := fun h blk => sha512Block h (wordsBE64 blk)
  encLen := fun bits => beBytesN 16 bits
  out := fun h => (h.toList.flatMap beBytes64).take outLen

def sha1 : MDSpec := sha32 sha1IV sha1Block 20
def sha224 : MDSpec := sha32 sha224IV sha256Block 28
def sha256 : MDSpec := sha32 sha256IV sha256Block 32
def sha384 : MDSpec := sha64 sha384IV 48
def sha512 : MDSpec := sha64 sha512IV 64

/-- the standard each `PCryptoHashType` of this group names -/
def ofType : HashType → MDSpec
  | .md5 => md5 | .sha1 => sha1 | .sha224 => sha224 | .sha256 => sha256 | .sha384 => sha384 | .sha512 => sha512

end PV.Hash.Spec

import PV.Spec.Hash
/-!
# MD5, SHA-1, SHA-2 as the standards define them

`PV.Spec.Hash` takes padding, length field, block parsing and output from the standards and
shares the compression functions and initial values with the model (they are transliterations of
the C macros with constants extracted from the C source).  This file writes the compression
functions and the constants **from RFC 1321 §3.4 and FIPS 180-4 §4–§6**, independently of the C
code's shape:

* the bitwise functions `F G H I` (MD5), `Ch Parity Maj` (SHA-1), `Ch Maj Σ0 Σ1 σ0 σ1` (SHA-2) as
  the standards print them (the C code uses other, equivalent boolean forms);
* the message schedule `W_t` by the standards' recurrences (the C code keeps a 16-word ring for
  SHA-1, interleaves schedule and rounds for SHA-256, precomputes 80 words for SHA-512);
* the rounds as "for t = 0 … : T₁ = …; h = g; …" on a tuple of working variables (the C code
  unrolls eight / five / four steps and permutes the variable *names*);
* the constants by their defining formulas: SHA-2 `K` = first 32 / 64 bits of the fractional
  parts of the cube roots of the first 64 / 80 primes, SHA-2 initial values = fractional parts of
  the square roots of the first 8 primes (SHA-256, SHA-512) resp. of the 9th–16th primes
  (SHA-384; SHA-224 takes the *second* 32 bits of those), SHA-1 `K` = ⌊2³⁰·√2⌋, ⌊2³⁰·√3⌋,
  ⌊2³⁰·√5⌋, ⌊2³⁰·√10⌋, all through `fracRoot` (exact integer arithmetic, `iroot_spec`);
  MD5: per-round shift amounts and the message-word order `k = i, 5i+1, 3i+5, 7i (mod 16)` by
  formula.

**Taken as data** (no formula evaluable in core Lean, or none given by the standard): the MD5 table
`T[i] = ⌊2³²·|sin(i+1)|⌋` as printed in RFC 1321 (recomputed from the sine with floating point
when this file was written), and the MD5 / SHA-1 initial values (`01 23 45 67 …` byte patterns).

`PV.Lemmas.Hash.Std*` prove the model's block functions equal to these for every 16-word block.
-/
namespace PV.Hash.Std

/-! ## integer roots -/

/-- bisection on `[lo, hi)` for the largest `x` with `x ^ r ≤ n` -/
def irootGo (r n : Nat) : Nat → Nat → Nat → Nat
  | 0, lo, _ => lo
  | fuel + 1, lo, hi =>
    if hi ≤ lo + 1 then lo
    else if ((lo + hi) / 2) ^ r ≤ n then irootGo r n fuel ((lo + hi) / 2) hi
    else irootGo r n fuel lo ((lo + hi) / 2)

/-- `⌊ n^(1/r) ⌋` (see `iroot_spec`) -/
def iroot (r n : Nat) : Nat := irootGo r n (n.log2 + 2) 0 (n + 1)

/-- the first `b` bits of the fractional part of the `r`-th root of `p`:
    `⌊2^b · p^(1/r)⌋ mod 2^b`, and `⌊2^b · p^(1/r)⌋ = ⌊(p · 2^(r·b))^(1/r)⌋` -/
def fracRoot (r b p : Nat) : Nat := iroot r (p * 2 ^ (r * b)) % 2 ^ b

/-- trial division -/
def isPrime (n : Nat) : Bool := 2 ≤ n && (List.range n).all fun d => d < 2 || n % d != 0

/-- the primes below 410 in increasing order (there are exactly 80) -/
def primes : List Nat := (List.range 410).filter isPrime

/-- the `i`-th prime, counting from 0 -/
def prime (i : Nat) : Nat := primes[i]!

/-! ## rotations and shifts (FIPS 180-4 §3.2) -/

/-- `ROTLⁿ(x) = (x << n) ∨ (x >> w − n)` -/
def rotl32 (x n : UInt32) : UInt32 := (x <<< n) ||| (x >>> (32 - n))
/-- `ROTRⁿ(x) = (x >> n) ∨ (x << w − n)` -/
def rotr32 (x n : UInt32) : UInt32 := (x >>> n) ||| (x <<< (32 - n))
def rotr64 (x n : UInt64) : UInt64 := (x >>> n) ||| (x <<< (64 - n))

/-! ## MD5 (RFC 1321 §3.3, §3.4) -/

def md5IV : Array UInt32 := #[0x67452301, 0xefcdab89, 0x98badcfe, 0x10325476]

def F (x y z : UInt32) : UInt32 := (x &&& y) ||| (~~~x &&& z)
def G (x y z : UInt32) : UInt32 := (x &&& z) ||| (y &&& ~~~z)
def H (x y z : UInt32) : UInt32 := x ^^^ y ^^^ z
def I (x y z : UInt32) : UInt32 := y ^^^ (x ||| ~~~z)

/-- `T[i+1] = ⌊4294967296 · |sin(i+1)|⌋` as printed in RFC 1321 -/
def md5T : Array UInt32 := #[
  0xd76aa478, 0xe8c7b756, 0x242070db, 0xc1bdceee, 0xf57c0faf, 0x4787c62a, 0xa8304613, 0xfd469501,
  0x698098d8, 0x8b44f7af, 0xffff5bb1, 0x895cd7be, 0x6b901122, 0xfd987193, 0xa679438e, 0x49b40821,
  0xf61e2562, 0xc040b340, 0x265e5a51, 0xe9b6c7aa, 0xd62f105d, 0x02441453, 0xd8a1e681, 0xe7d3fbc8,
  0x21e1cde6, 0xc33707d6, 0xf4d50d87, 0x455a14ed, 0xa9e3e905, 0xfcefa3f8, 0x676f02d9, 0x8d2a4c8a,
  0xfffa3942, 0x8771f681, 0x6d9d6122, 0xfde5380c, 0xa4beea44, 0x4bdecfa9, 0xf6bb4b60, 0xbebfbc70,
  0x289b7ec6, 0xeaa127fa, 0xd4ef3085, 0x04881d05, 0xd9d4d039, 0xe6db99e5, 0x1fa27cf8, 0xc4ac5665,
  0xf4292244, 0x432aff97, 0xab9423a7, 0xfc93a039, 0x655b59c3, 0x8f0ccc92, 0xffeff47d, 0x85845dd1,
  0x6fa87e4f, 0xfe2ce6e0, 0xa3014314, 0x4e0811a1, 0xf7537e82, 0xbd3af235, 0x2ad7d2bb, 0xeb86d391]

/-- shift amount of operation `i` (0-based): round `i / 16` cycles through four amounts -/
def md5Shift (i : Nat) : UInt32 :=
  match i / 16, i % 4 with
  | 0, 0 => 7 | 0, 1 => 12 | 0, 2 => 17 | 0, _ => 22
  | 1, 0 => 5 | 1, 1 => 9 | 1, 2 => 14 | 1, _ => 20
  | 2, 0 => 4 | 2, 1 => 11 | 2, 2 => 16 | 2, _ => 23
  | _, 0 => 6 | _, 1 => 10 | _, 2 => 15 | _, _ => 21

/-- message word used by operation `i`: `i`, `5i+1`, `3i+5`, `7i` modulo 16 in rounds 1–4 -/
def md5Index (i : Nat) : Nat :=
  match i / 16 with
  | 0 => i % 16 | 1 => (5 * i + 1) % 16 | 2 => (3 * i + 5) % 16 | _ => (7 * i) % 16

/-- operation `i` on `(A, B, C, D)`: `[abcd k s i]  a = b + ((a + f(b,c,d) + X[k] + T[i]) <<< s)`,
    after which the roles rotate to `[dabc …]` -/
def md5Op (x : Array UInt32) (s : UInt32 × UInt32 × UInt32 × UInt32) (i : Nat) : UInt32 × UInt32 × UInt32 × UInt32 :=
  let f := match i / 16 with
    | 0 => F s.2.1 s.2.2.1 s.2.2.2 | 1 => G s.2.1 s.2.2.1 s.2.2.2
    | 2 => H s.2.1 s.2.2.1 s.2.2.2 | _ => I s.2.1 s.2.2.1 s.2.2.2
  (s.2.2.2, s.2.1 + rotl32 (s.1 + f + x[md5Index i]! + md5T[i]!) (md5Shift i), s.2.1, s.2.2.1)

def md5Compress (h x : Array UInt32) : Array UInt32 :=
  let r := (List.range 64).foldl (md5Op x) (h[0]!, h[1]!, h[2]!, h[3]!)
  #[h[0]! + r.1, h[1]! + r.2.1, h[2]! + r.2.2.1, h[3]! + r.2.2.2]

/-! ## SHA-1 (FIPS 180-4 §4.1.1, §4.2.1, §5.3.1, §6.1.2) -/

def sha1IV : Array UInt32 := #[0x67452301, 0xefcdab89, 0x98badcfe, 0x10325476, 0xc3d2e1f0]

def Ch (x y z : UInt32) : UInt32 := (x &&& y) ^^^ (~~~x &&& z)
def Parity (x y z : UInt32) : UInt32 := x ^^^ y ^^^ z
def Maj (x y z : UInt32) : UInt32 := (x &&& y) ^^^ (x &&& z) ^^^ (y &&& z)

def sha1F (t : Nat) (x y z : UInt32) : UInt32 :=
  if t < 20 then Ch x y z else if t < 40 then Parity x y z else if t < 60 then Maj x y z else Parity x y z

/-- `K_t`: `⌊2³⁰·√2⌋, ⌊2³⁰·√3⌋, ⌊2³⁰·√5⌋, ⌊2³⁰·√10⌋` -/
def sha1K (t : Nat) : UInt32 :=
  UInt32.ofNat (iroot 2 ((if t < 20 then 2 else if t < 40 then 3 else if t < 60 then 5 else 10) * 2 ^ 60))

/-- `W_t = M_t` (`t < 16`), `ROTL¹(W_{t-3} ⊕ W_{t-8} ⊕ W_{t-14} ⊕ W_{t-16})` otherwise -/
def sha1W (m : Array UInt32) (t : Nat) : UInt32 :=
  if _h : t < 16 then m[t]!
  else rotl32 (sha1W m (t - 3) ^^^ sha1W m (t - 8) ^^^ sha1W m (t - 14) ^^^ sha1W m (t - 16)) 1
termination_by t
decreasing_by all_goals omega

/-- `T = ROTL⁵(a) + f_t(b,c,d) + e + K_t + W_t; e = d; d = c; c = ROTL³⁰(b); b = a; a = T` -/
def sha1Round (m : Array UInt32) (s : UInt32 × UInt32 × UInt32 × UInt32 × UInt32) (t : Nat) :
    UInt32 × UInt32 × UInt32 × UInt32 × UInt32 :=
  (rotl32 s.1 5 + sha1F t s.2.1 s.2.2.1 s.2.2.2.1 + s.2.2.2.2 + sha1K t + sha1W m t,
   s.1, rotl32 s.2.1 30, s.2.2.1, s.2.2.2.1)

def sha1Compress (h m : Array UInt32) : Array UInt32 :=
  let r := (List.range 80).foldl (sha1Round m) (h[0]!, h[1]!, h[2]!, h[3]!, h[4]!)
  #[h[0]! + r.1, h[1]! + r.2.1, h[2]! + r.2.2.1, h[3]! + r.2.2.2.1, h[4]! + r.2.2.2.2]

/-! ## SHA-224 / SHA-256 (FIPS 180-4 §4.1.2, §4.2.2, §5.3.2–3, §6.2.2) -/

def bigSigma0 (x : UInt32) : UInt32 := rotr32 x 2 ^^^ rotr32 x 13 ^^^ rotr32 x 22
def bigSigma1 (x : UInt32) : UInt32 := rotr32 x 6 ^^^ rotr32 x 11 ^^^ rotr32 x 25
def smallSigma0 (x : UInt32) : UInt32 := rotr32 x 7 ^^^ rotr32 x 18 ^^^ (x >>> 3)
def smallSigma1 (x : UInt32) : UInt32 := rotr32 x 17 ^^^ rotr32 x 19 ^^^ (x >>> 10)

/-- first 32 bits of the fractional part of the cube root of the `t`-th prime -/
def sha256K (t : Nat) : UInt32 := UInt32.ofNat (fracRoot 3 32 (prime t))

/-- first 32 bits of the fractional parts of the square roots of the first eight primes -/
def sha256IV : Array UInt32 := Array.ofFn (n := 8) fun i => UInt32.ofNat (fracRoot 2 32 (prime i.val))
/-- second 32 bits of the fractional parts of the square roots of the 9th to 16th prime -/
def sha224IV : Array UInt32 := Array.ofFn (n := 8) fun i => UInt32.ofNat (fracRoot 2 64 (prime (8 + i.val)) % 2 ^ 32)

/-- `W_t = M_t` (`t < 16`), `σ₁(W_{t-2}) + W_{t-7} + σ₀(W_{t-15}) + W_{t-16}` otherwise -/
def sha256W (m : Array UInt32) (t : Nat) : UInt32 :=
  if _h : t < 16 then m[t]!
  else smallSigma1 (sha256W m (t - 2)) + sha256W m (t - 7) + smallSigma0 (sha256W m (t - 15)) + sha256W m (t - 16)
termination_by t
decreasing_by all_goals omega

/-- `T₁ = h + Σ₁(e) + Ch(e,f,g) + K_t + W_t; T₂ = Σ₀(a) + Maj(a,b,c);
     h = g; g = f; f = e; e = d + T₁; d = c; c = b; b = a; a = T₁ + T₂` -/
def sha256Round (m : Array UInt32) (s : UInt32 × UInt32 × UInt32 × UInt32 × UInt32 × UInt32 × UInt32 × UInt32) (t : Nat) :
    UInt32 × UInt32 × UInt32 × UInt32 × UInt32 × UInt32 × UInt32 × UInt32 :=
  let a := s.1; let b := s.2.1; let c := s.2.2.1; let d := s.2.2.2.1
  let e := s.2.2.2.2.1; let f := s.2.2.2.2.2.1; let g := s.2.2.2.2.2.2.1; let h := s.2.2.2.2.2.2.2
  let T1 := h + bigSigma1 e + Ch e f g + sha256K t + sha256W m t
  let T2 := bigSigma0 a + Maj a b c
  (T1 + T2, a, b, c, d + T1, e, f, g)

def sha256Compress (h m : Array UInt32) : Array UInt32 :=
  let r := (List.range 64).foldl (sha256Round m) (h[0]!, h[1]!, h[2]!, h[3]!, h[4]!, h[5]!, h[6]!, h[7]!)
  #[h[0]! + r.1, h[1]! + r.2.1, h[2]! + r.2.2.1, h[3]! + r.2.2.2.1, h[4]! + r.2.2.2.2.1, h[5]! + r.2.2.2.2.2.1,
    h[6]! + r.2.2.2.2.2.2.1, h[7]! + r.2.2.2.2.2.2.2]

/-! ## SHA-384 / SHA-512 (FIPS 180-4 §4.1.3, §4.2.3, §5.3.4–5, §6.4.2) -/

def Ch64 (x y z : UInt64) : UInt64 := (x &&& y) ^^^ (~~~x &&& z)
def Maj64 (x y z : UInt64) : UInt64 := (x &&& y) ^^^ (x &&& z) ^^^ (y &&& z)
def bigSigma0_64 (x : UInt64) : UInt64 := rotr64 x 28 ^^^ rotr64 x 34 ^^^ rotr64 x 39
def bigSigma1_64 (x : UInt64) : UInt64 := rotr64 x 14 ^^^ rotr64 x 18 ^^^ rotr64 x 41
def smallSigma0_64 (x : UInt64) : UInt64 := rotr64 x 1 ^^^ rotr64 x 8 ^^^ (x >>> 7)
def smallSigma1_64 (x : UInt64) : UInt64 := rotr64 x 19 ^^^ rotr64 x 61 ^^^ (x >>> 6)

/-- first 64 bits of the fractional part of the cube root of the `t`-th prime -/
def sha512K (t : Nat) : UInt64 := UInt64.ofNat (fracRoot 3 64 (prime t))

/-- first 64 bits of the fractional parts of the square roots of the first eight primes -/
def sha512IV : Array UInt64 := Array.ofFn (n := 8) fun i => UInt64.ofNat (fracRoot 2 64 (prime i.val))
/-- … of the 9th to 16th prime -/
def sha384IV : Array UInt64 := Array.ofFn (n := 8) fun i => UInt64.ofNat (fracRoot 2 64 (prime (8 + i.val)))

def sha512W (m : Array UInt64) (t : Nat) : UInt64 :=
  if _h : t < 16 then m[t]!
  else smallSigma1_64 (sha512W m (t - 2)) + sha512W m (t - 7) + smallSigma0_64 (sha512W m (t - 15)) + sha512W m (t - 16)
termination_by t
decreasing_by all_goals omega

def sha512Round (m : Array UInt64) (s : UInt64 × UInt64 × UInt64 × UInt64 × UInt64 × UInt64 × UInt64 × UInt64) (t : Nat) :
    UInt64 × UInt64 × UInt64 × UInt64 × UInt64 × UInt64 × UInt64 × UInt64 :=
  let a := s.1; let b := s.2.1; let c := s.2.2.1; let d := s.2.2.2.1
  let e := s.2.2.2.2.1; let f := s.2.2.2.2.2.1; let g := s.2.2.2.2.2.2.1; let h := s.2.2.2.2.2.2.2
  let T1 := h + bigSigma1_64 e + Ch64 e f g + sha512K t + sha512W m t
  let T2 := bigSigma0_64 a + Maj64 a b c
  (T1 + T2, a, b, c, d + T1, e, f, g)

def sha512Compress (h m : Array UInt64) : Array UInt64 :=
  let r := (List.range 80).foldl (sha512Round m) (h[0]!, h[1]!, h[2]!, h[3]!, h[4]!, h[5]!, h[6]!, h[7]!)
  #[h[0]! + r.1, h[1]! + r.2.1, h[2]! + r.2.2.1, h[3]! + r.2.2.2.1, h[4]! + r.2.2.2.2.1, h[5]! + r.2.2.2.2.2.1,
    h[6]! + r.2.2.2.2.2.2.1, h[7]! + r.2.2.2.2.2.2.2]

/-! ## the one-shot specifications with nothing shared with the model

Padding, length field, block parsing and output are those of `PV.Spec.Hash` (written from the
standards there); compression function and initial value are the ones above. -/

open PV.Hash.Spec

def md5 : MDSpec where
  σ := Array UInt32
  B := 64
  L := 8
  iv := md5IV
  compress := fun h blk => md5Compress h (wordsLE32 blk)
  encLen := fun bits => leBytesN 8 bits
  out := fun h => (h.toList.flatMap leBytes32).take 16

def sha32 (iv : Array UInt32) (compress : Array UInt32 → Array UInt32 → Array UInt32) (outLen : Nat) : MDSpec where
  σ := Array UInt32
  B := 64
  L := 8
  iv := iv
  compress := fun h blk => compress h (wordsBE32 blk)
  encLen := fun bits => beBytesN 8 bits
  out := fun h => (h.toList.flatMap beBytes32).take outLen

def sha64 (iv : Array UInt64) (outLen : Nat) : MDSpec where
  σ := Array UInt64
  B := 128
  L := 16
  iv := iv
  compress := fun h blk => sha512Compress h (wordsBE64 blk)
  encLen := fun bits => beBytesN 16 bits
  out := fun h => (h.toList.flatMap beBytes64).take outLen

def sha1 : MDSpec := sha32 sha1IV sha1Compress 20
def sha224 : MDSpec := sha32 sha224IV sha256Compress 28
def sha256 : MDSpec := sha32 sha256IV sha256Compress 32
def sha384 : MDSpec := sha64 sha384IV 48
def sha512 : MDSpec := sha64 sha512IV 64

def ofType : HashType → MDSpec
  | .md5 => md5 | .sha1 => sha1 | .sha224 => sha224 | .sha256 => sha256 | .sha384 => sha384 | .sha512 => sha512

end PV.Hash.Std

import PV.Model.UThread
import PV.Spec.UThread
/-!
# The spec (`PV.Spec.UThread`) driven by the events of the machine, and the observables both sides answer

`specStep` feeds one event of the history machine to the independent reference: `createBegin` is the
spec's `create` (the handle exists, with the creator's and the thread's reference, from the moment the
pointer is allocated), `createEnd`, `start`, `ret` and the two steps of the lazy native-key creation
are invisible to it, `exit` is `current` followed by the spec's `exit`; `createFail` is the spec's `createFailed`; `joinFail` (the native join
reports an error) answers like `join`: the code recorded so far; `tlsFail` (the native key cannot be made) stores nothing and reads the cell
as it is; `currentFail` is `createFailed` as well; `storeFail` (the native store reports an error) leaves the cell as it is — a
`replace` has notified the old value by then, exactly as `replaceLocal` does.  `Obs` is the API-visible
answer of an event — the `r`, `L`, `F`, `D` columns of the differential run: returned ids / join code /
`get_local` value, live handles, handles released by the event, notifier calls of the event (as a
sorted list: the order of destructor calls at thread end is unspecified).  `obsM` reads the same
answer off two consecutive states of the machine.  `PV.Lemmas.UThreadRefine` proves that they agree.
-/
namespace PV.UThreadSpec
open PV.UThread (Ev State)

structure Obs where
  ret : List Int := []
  live : List Nat := []
  freed : List Nat := []
  dtor : List (Nat × Nat × Nat) := []
  deriving DecidableEq, Repr

def specStep (sp : S) : Ev → S × Obs
  | .spawn => let r := spawn sp; (r.1, { ret := [r.2], live := r.1.live })
  | .createBegin _ j _ => let r := create sp j; (r.1, { ret := [r.2.1, r.2.2], live := r.1.live })
  | .createEnd _ => (sp, { live := sp.live })
  | .start _ => (sp, { live := sp.live })
  | .exit t c => let r := exit (current sp t).1 t c; (r, { live := r.live })
  | .ret _ => (sp, { live := sp.live })
  | .threadEnd t => let r := threadEnd sp t; (r.1, { live := r.1.live, freed := r.2.freed, dtor := r.2.dtor })
  | .ref _ h => let r := ref sp h; (r, { live := r.live })
  | .unref _ h => let r := drop sp h; (r.1, { live := r.1.live, freed := r.2 })
  | .join _ h => (sp, { ret := [join sp h], live := sp.live })
  | .current t => let r := current sp t; (r.1, { ret := [r.2], live := r.1.live })
  | .localNew _ n => let r := keyNew sp n; (r.1, { ret := [r.2], live := r.1.live })
  | .localFree _ k => let r := keyFree sp k; (r, { live := r.live })
  | .keyCreate _ _ => (sp, { live := sp.live })
  | .keyCas _ _ => (sp, { live := sp.live })
  | .setLocal t k v => let r := setLocal sp t k v; (r, { live := r.live })
  | .replaceLocal t k v => let r := replaceLocal sp t k v; (r.1, { live := r.1.live, dtor := sortD r.2.dtor })
  | .getLocal t k => (sp, { ret := [sp.cell t k], live := sp.live })
  | .createFail _ => let r := createFailed sp; (r.1, { live := r.1.live, freed := [r.2] })
  | .joinFail _ h => (sp, { ret := [join sp h], live := sp.live })
  | .tlsFail t k g => (sp, { ret := if g then [sp.cell t k] else [], live := sp.live })
  | .currentFail _ => let r := createFailed sp; (r.1, { live := r.1.live, freed := [r.2] })
  | .startUnstored t => let r := unstored sp t; (r, { live := r.live })
  | .storeFail t k r => (sp, { live := sp.live, dtor := if r then sortD (replaceLocal sp t k 0).2.dtor else [] })
  | .retUnstored _ h => let r := drop sp h; (r.1, { live := r.1.live, freed := r.2 })

/-- live handles of a machine state -/
def liveOf (s : State) : List Nat := (List.range s.nH).filter fun h => !(s.hdl h).freed

/-- the answer of event `e` that took the machine from `s` to `s'` -/
def obsM (s : State) (e : Ev) (s' : State) : Obs :=
  { ret := (match e with
      | .spawn => [(s.nT : Int)]
      | .createBegin _ _ _ => [(s.nT : Int), (s.nH : Int)]
      | .localNew _ _ => [(s.nK : Int)]
      | _ => (s'.joinLog.drop s.joinLog.length).map (·.2.2) ++
             (s'.getLog.drop s.getLog.length).map (fun x => (x.2.2 : Int)) ++
             (s'.curLog.drop s.curLog.length).map (fun x => (x.2 : Int)))
    live := liveOf s'
    freed := s'.freeLog.drop s.freeLog.length
    dtor := sortD ((s'.dtorLog.drop s.dtorLog.length).filter fun x => x.2.1 ≠ 0) }

/-- both sides over a whole history: the list of answers -/
def specRun : S → List Ev → List Obs
  | _, [] => []
  | sp, e :: r => (specStep sp e).2 :: specRun (specStep sp e).1 r

def obsRun : State → List Ev → List Obs
  | _, [] => []
  | s, e :: r =>
    match PV.UThread.step s e with
    | .ok s' => obsM s e s' :: obsRun s' r
    | .error _ => []

end PV.UThreadSpec

import PV.Model.HashX.Gost
import PV.Spec.HashX
/-!
# The step function χ of GOST R 34.11-94, written from the standard's structure

A 256-bit block is held as eight 32-bit words, least significant first (`W8`, the data type of the
model; the byte view `bytesOfW8` / `w8OfBytes` is little-endian).  In the standard's notation a
block `Y` is `y4 ‖ y3 ‖ y2 ‖ y1` (64-bit parts, `y1` = words 0, 1), `η16 ‖ … ‖ η1` (16-bit parts,
`η1` = low half of word 0) and `ξ32 ‖ … ‖ ξ1` (bytes, `ξ1` = byte 0).

* §6.1 key generation: `U := H`, `V := M`, `K1 = P (U ⊕ V)`; for `j = 2, 3, 4`:
  `U := A (U) ⊕ Cj`, `V := A (A (V))`, `Kj = P (U ⊕ V)`; `C2 = C4 = 0`, `C3` the standard's constant.
  `A (Y) = (y1 ⊕ y2) ‖ y4 ‖ y3 ‖ y2`;  `P (Y) = ξφ(32) ‖ … ‖ ξφ(1)` with `φ (i + 1 + 4 (k − 1)) = 8 i + k`.
* §6.2 enciphering: `s_i = E_{K_i} (h_i)` with GOST 28147-89 in the simple substitution mode
  (32 rounds, key words in the order `0…7, 0…7, 0…7, 7…0`, S-boxes = the parameter set in use —
  here the table found in the C source, `PV.Generated.HashX.gostKBlock`).
* §6.3 mixing: `H' = ψ^61 (H ⊕ ψ (M ⊕ ψ^12 (S)))`, `ψ (Y) = (η1 ⊕ η2 ⊕ η3 ⊕ η4 ⊕ η13 ⊕ η16) ‖ η16 ‖ … ‖ η2`
  (on the 256-bit number the block denotes).

Nothing here is taken from the C code's unrolled formulas; `Lemmas/HashX/GostStd.lean` proves
`Gost.step = GostStd.chi`.
-/
namespace PV.HashX.GostStd
open PV.HashX PV.HashX.Gost PV.Generated.HashX

/-- `X ⊕ Y` on 256-bit blocks -/
def xor8 (a b : W8) : W8 :=
  ⟨a.w0 ^^^ b.w0, a.w1 ^^^ b.w1, a.w2 ^^^ b.w2, a.w3 ^^^ b.w3, a.w4 ^^^ b.w4, a.w5 ^^^ b.w5, a.w6 ^^^ b.w6, a.w7 ^^^ b.w7⟩

/-! ## key generation -/

/-- `A (y4 ‖ y3 ‖ y2 ‖ y1) = (y1 ⊕ y2) ‖ y4 ‖ y3 ‖ y2` -/
def A (y : W8) : W8 := ⟨y.w2, y.w3, y.w4, y.w5, y.w6, y.w7, y.w0 ^^^ y.w2, y.w1 ^^^ y.w3⟩

/-- `φ` on 0-based byte numbers: `φ (i + 1 + 4 (k − 1)) = 8 i + k` (`i = 0…3`, `k = 1…8`) reads
    `φ0 (i + 4 k') = 8 i + k'` with `k' = k − 1` -/
def phi (j : Nat) : Nat := 8 * (j % 4) + j / 4

/-- `P (Y)`: byte `j` of the result is byte `φ (j)` of `Y` -/
def P (y : W8) : W8 := w8OfBytes ((List.range 32).map fun j => (bytesOfW8 y).getD (phi j) 0)

def C2 : W8 := W8.zero
def C4 : W8 := W8.zero
/-- `C3 = 1^8 0^8 1^16 0^24 1^16 0^8 (0^8 1^8)^2 1^8 0^8 (0^8 1^8)^4 (1^8 0^8)^4` (most significant bit first) -/
def C3 : W8 := Spec.wordsOfNat 0xff00ffff000000ffff0000ff00ffff0000ff00ff00ff00ffff00ff00ff00ff00

/-- the four keys before `P`: `U_j ⊕ V_j` -/
def keyW (h m : W8) : W8 × W8 × W8 × W8 :=
  let u1 := h
  let v1 := m
  let u2 := xor8 (A u1) C2
  let v2 := A (A v1)
  let u3 := xor8 (A u2) C3
  let v3 := A (A v2)
  let u4 := xor8 (A u3) C4
  let v4 := A (A v3)
  (xor8 u1 v1, xor8 u2 v2, xor8 u3 v3, xor8 u4 v4)

/-! ## GOST 28147-89, simple substitution mode -/

/-- S-box `i` (of the parameter set found in the source) applied to a 4-bit value -/
def sbox (i : Nat) (v : UInt32) : UInt32 := UInt32.ofNat ((gostKBlock.getD i []).getD v.toNat 0)

/-- the eight 4-bit groups of `x` go through S-boxes 0 … 7 (group 0 = least significant) -/
def subst (x : UInt32) : UInt32 :=
  (List.range 8).foldl (fun acc i =>
    acc ||| (sbox i ((x >>> (4 * i).toUInt32) &&& (0xF : UInt32)) <<< (4 * i).toUInt32)) 0

/-- cyclic shift by 11 towards the most significant bit -/
def rotl11 (x : UInt32) : UInt32 := (x <<< (11 : UInt32)) ||| (x >>> (21 : UInt32))

/-- one round: `(N1, N2) ← (N2 ⊕ rotl11 (S (N1 ⊞ k)), N1)` -/
def roundE (n : UInt32 × UInt32) (k : UInt32) : UInt32 × UInt32 :=
  (rotl11 (subst (n.1 + k)) ^^^ n.2, n.1)

/-- order of the key words in the 32 rounds -/
def keyOrder : List Nat := List.range 8 ++ List.range 8 ++ List.range 8 ++ (List.range 8).reverse

/-- `E_K (N2 ‖ N1)`: 32 rounds; the last one does not exchange the halves -/
def E (key : W8) (n1 n2 : UInt32) : UInt32 × UInt32 :=
  let r := keyOrder.foldl (fun n i => roundE n (key.toList.getD i 0)) (n1, n2)
  (r.2, r.1)

/-! ## the mixing transformation

For ψ a block is taken as the 256-bit number it denotes (`W8.toNat`; `Spec.wordsOfNat` back). -/

/-- `η_k` (`k = 1 … 16`) of the block `Y`: bits `16 (k − 1) … 16 k − 1` -/
def eta (Y : Nat) (k : Nat) : Nat := (Y >>> (16 * (k - 1))) &&& 0xFFFF

/-- `ψ (η16 ‖ … ‖ η1) = (η1 ⊕ η2 ⊕ η3 ⊕ η4 ⊕ η13 ⊕ η16) ‖ η16 ‖ … ‖ η2`: the lower fifteen parts move down
    by 16 bits, the new top part is put at bit 240 (disjoint from the rest, so `⊕` is concatenation) -/
def psi (Y : Nat) : Nat :=
  (Y >>> 16) ^^^ ((eta Y 1 ^^^ eta Y 2 ^^^ eta Y 3 ^^^ eta Y 4 ^^^ eta Y 13 ^^^ eta Y 16) <<< 240)

/-- `ψ^k` on blocks -/
def psiPow (k : Nat) (y : W8) : W8 := Spec.wordsOfNat (Nat.repeat psi k y.toNat)

/-! ## χ -/

/-- the step function `χ (M, H)` (argument order as in the model: state first) -/
def chi (h m : W8) : W8 :=
  let W := keyW h m
  let K1 := P W.1
  let K2 := P W.2.1
  let K3 := P W.2.2.1
  let K4 := P W.2.2.2
  let s1 := E K1 h.w0 h.w1
  let s2 := E K2 h.w2 h.w3
  let s3 := E K3 h.w4 h.w5
  let s4 := E K4 h.w6 h.w7
  let S : W8 := ⟨s1.1, s1.2, s2.1, s2.2, s3.1, s3.2, s4.1, s4.2⟩
  psiPow 61 (xor8 h (psiPow 1 (xor8 m (psiPow 12 S))))

end PV.HashX.GostStd

import PV.Model.RWLock
/-! Specification vocabulary for C02 (read-write lock): disciplined programs, who holds / waits,
reachable states, labelled steps.  (`PV/Props/C02.lean` states the property theorems in these terms.) -/
namespace PV.RWLock

/-! ### discipline of programs -/

/-- a disciplined program: a sequence of rounds `acquire ; matching release` -/
def Disc : List Op → Bool
  | [] => true
  | a :: b :: rest => a.isAcq && (b == a.rel) && Disc rest
  | [_] => false

def Op.heldBy : Op → Held
  | .rlock | .rtry => .r
  | .wlock | .wtry => .w
  | _ => .none

def Op.isTry : Op → Bool
  | .rtry | .wtry => true
  | _ => false

/-! ### counting predicates -/

def heldR (th : Thread) : Bool := th.held == .r
def heldW (th : Thread) : Bool := th.held == .w
/-- inside the wait block (`waiting++ … waiting--`) on `cv` -/
def inWait (cv : Cv) (th : Thread) : Bool :=
  match th.pc with
  | .atWait _ c | .blocked _ c | .woken _ c => c == cv
  | _ => false
def isAtWait (cv : Cv) (th : Thread) : Bool :=
  match th.pc with
  | .atWait _ c => c == cv
  | _ => false
def isWoken (cv : Cv) (th : Thread) : Bool :=
  match th.pc with
  | .woken _ c => c == cv
  | _ => false
def isAtSignal (cv : Cv) (th : Thread) : Bool :=
  match th.pc with
  | .atSignal _ c => c == cv
  | _ => false
def isAtBcast (cv : Cv) (th : Thread) : Bool :=
  match th.pc with
  | .atBcast _ c => c == cv
  | _ => false
def owns (th : Thread) : Bool := th.pc.ownsMutex


/-! ### holders and waiters of a state -/

/-- number of threads holding the lock in read mode -/
def readers (s : State) : Nat := s.threads.countP heldR
/-- number of threads holding the lock in write mode -/
def writers (s : State) : Nat := s.threads.countP heldW
/-- number of threads inside the wait block of `p_rwlock_reader_lock` (they wait on `read_cv`) -/
def waitingReaders (s : State) : Nat := s.threads.countP (inWait .read)
/-- number of threads inside the wait block of `p_rwlock_writer_lock` (they wait on `write_cv`) -/
def waitingWriters (s : State) : Nat := s.threads.countP (inWait .write)

/-! ### executions -/

/-- states reachable from an initial state whose programs are disciplined, by any interleaving of
    thread steps (any choice of the waiter a signal wakes) and spurious wake-ups; fewer than 2^15
    threads (the width of the packed counter fields) -/
inductive Reach (c : Cfg) : State → Prop
  | init (progs : List (List Op)) (hd : ∀ p ∈ progs, Disc p = true) (hn : progs.length < 2^15) : Reach c (init progs)
  | step {s s' : State} {t : Tid} {pick : Option Tid} : Reach c s → stepThread c s t pick = some s' → Reach c s'
  | spur {s s' : State} {t : Tid} : Reach c s → spurious s t = some s' → Reach c s'

inductive Label
  | run (t : Tid) (pick : Option Tid)
  | spur (t : Tid)

def Label.isSpur : Label → Bool
  | .spur _ => true
  | _ => false

/-- one labelled transition of the system -/
def Step (c : Cfg) (s : State) (l : Label) (s' : State) : Prop :=
  match l with
  | .run t pick => stepThread c s t pick = some s'
  | .spur t => spurious s t = some s'

/-- run a schedule -/
def runLabels (c : Cfg) : State → List Label → Option State
  | s, [] => some s
  | s, .run t pick :: ls => (stepThread c s t pick).bind (runLabels c · ls)
  | s, .spur t :: ls => (spurious s t).bind (runLabels c · ls)

theorem reach_runLabels {c : Cfg} : ∀ {s s' : State} (ls : List Label), Reach c s → runLabels c s ls = some s' → Reach c s'
  | s, s', [], h, e => by simp [runLabels] at e; exact e ▸ h
  | s, s', .run t pick :: ls, h, e => by
    simp only [runLabels] at e
    cases hs : stepThread c s t pick with
    | none => simp [hs] at e
    | some s1 => rw [hs] at e; exact reach_runLabels ls (Reach.step h hs) e
  | s, s', .spur t :: ls, h, e => by
    simp only [runLabels] at e
    cases hs : spurious s t with
    | none => simp [hs] at e
    | some s1 => rw [hs] at e; exact reach_runLabels ls (Reach.spur h hs) e

/-- a state reached by a concrete schedule from disciplined programs that satisfies a (decidable) test -/
theorem reach_witness {c : Cfg} (progs : List (List Op)) (ls : List Label) (q : State → Bool)
    (hd : (progs.all fun p => Disc p) = true) (hn : progs.length < 2^15)
    (h : (runLabels c (init progs) ls).any q = true) : ∃ s, Reach c s ∧ q s = true := by
  cases hr : runLabels c (init progs) ls with
  | none => simp [hr] at h
  | some s =>
    rw [hr] at h
    exact ⟨s, reach_runLabels ls (Reach.init progs (by simpa using hd) hn) hr, by simpa using h⟩

/-! ### executions with failing primitive calls -/

/-- states reachable when, in addition, any primitive call may FAIL (`failStep`: `p_mutex_lock`,
    `p_mutex_unlock`, `p_cond_variable_wait`, signal, broadcast returning FALSE), any number of times -/
inductive ReachF (c : Cfg) : State → Prop
  | init (progs : List (List Op)) (hd : ∀ p ∈ progs, Disc p = true) (hn : progs.length < 2^15) : ReachF c (init progs)
  | step {s s' : State} {t : Tid} {pick : Option Tid} : ReachF c s → stepThread c s t pick = some s' → ReachF c s'
  | spur {s s' : State} {t : Tid} : ReachF c s → spurious s t = some s' → ReachF c s'
  | fail {s s' : State} {t : Tid} {zero : Bool} : ReachF c s → failStep s t zero = some s' → ReachF c s'

/-- every failure-free execution is one -/
theorem Reach.toF {c : Cfg} {s : State} (h : Reach c s) : ReachF c s := by
  induction h with
  | init progs hd hn => exact .init progs hd hn
  | step _ hs ih => exact .step ih hs
  | spur _ hs ih => exact .spur ih hs

inductive LabelF
  | run (t : Tid) (pick : Option Tid)
  | spur (t : Tid)
  | fail (t : Tid) (zero : Bool)

def runLabelsF (c : Cfg) : State → List LabelF → Option State
  | s, [] => some s
  | s, .run t pick :: ls => (stepThread c s t pick).bind (runLabelsF c · ls)
  | s, .spur t :: ls => (spurious s t).bind (runLabelsF c · ls)
  | s, .fail t z :: ls => (failStep s t z).bind (runLabelsF c · ls)

theorem reachF_runLabels {c : Cfg} : ∀ {s s' : State} (ls : List LabelF), ReachF c s → runLabelsF c s ls = some s' → ReachF c s'
  | s, s', [], h, e => by simp [runLabelsF] at e; exact e ▸ h
  | s, s', .run t pick :: ls, h, e => by
    simp only [runLabelsF] at e
    cases hs : stepThread c s t pick with
    | none => simp [hs] at e
    | some s1 => rw [hs] at e; exact reachF_runLabels ls (ReachF.step h hs) e
  | s, s', .spur t :: ls, h, e => by
    simp only [runLabelsF] at e
    cases hs : spurious s t with
    | none => simp [hs] at e
    | some s1 => rw [hs] at e; exact reachF_runLabels ls (ReachF.spur h hs) e
  | s, s', .fail t z :: ls, h, e => by
    simp only [runLabelsF] at e
    cases hs : failStep s t z with
    | none => simp [hs] at e
    | some s1 => rw [hs] at e; exact reachF_runLabels ls (ReachF.fail h hs) e

/-- a state reached by a concrete schedule with failing calls that satisfies a (decidable) test -/
theorem reachF_witness {c : Cfg} (progs : List (List Op)) (ls : List LabelF) (q : State → Bool)
    (hd : (progs.all fun p => Disc p) = true) (hn : progs.length < 2^15)
    (h : (runLabelsF c (init progs) ls).any q = true) : ∃ s, ReachF c s ∧ q s = true := by
  cases hr : runLabelsF c (init progs) ls with
  | none => simp [hr] at h
  | some s =>
    rw [hr] at h
    exact ⟨s, reachF_runLabels ls (ReachF.init progs (by simpa using hd) hn) hr, by simpa using h⟩

/-- thread `t` can make a (non-spurious) step -/
def Enabled (c : Cfg) (s : State) (t : Tid) : Prop := ∃ pick s', stepThread c s t pick = some s'

/-! ### termination measure -/

/-- 2 while an API call is in progress before its final `p_mutex_unlock`, 1 at that unlock, 0 when done -/
def PC.major : PC → Nat
  | .done => 0
  | .atUnlock _ _ => 1
  | _ => 2

/-- progress inside one call; only a wake-up (signal / broadcast / spurious) can raise it -/
def PC.minor : PC → Nat
  | .lock _ => 4
  | .woken _ _ | .atSignal _ _ | .atBcast _ _ => 3
  | .atWait _ _ => 2
  | .blocked _ _ => 1
  | _ => 0

def Thread.major (th : Thread) : Nat := 2 * th.prog.length + th.pc.major
def Thread.minor (th : Thread) : Nat := th.pc.minor

/-- remaining API calls (doubled, plus the calls in progress) of all threads -/
def major (s : State) : Nat := (s.threads.map Thread.major).sum
/-- steps the threads can still make inside their current calls without a new wake-up -/
def minor (s : State) : Nat := (s.threads.map Thread.minor).sum

/-- the lexicographic termination measure -/
def measure (s : State) : Nat × Nat := (major s, minor s)

end PV.RWLock

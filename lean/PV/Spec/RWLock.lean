import PV.Model.RWLock
/-! Specification vocabulary for C02 (read-write lock): disciplined programs, who holds / waits,
reachable states, labelled steps.  (`PV/Props/C02.lean` states the property theorems in these terms.) -/
namespace PV.RWLock

/-! ### discipline of programs -/

/-- a disciplined program: a sequence of rounds `acquire ; matching release` -/
def Disc : List Op → Bool
  | [] => true
  | a :: b :: rest => a.isAcq && (b == a.rel) && Disc rest
  | [_] => false

def Op.heldBy : Op → Held
  | .rlock | .rtry => .r
  | .wlock | .wtry => .w
  | _ => .none

def Op.isTry : Op → Bool
  | .rtry | .wtry => true
  | _ => false

/-! ### counting predicates -/

def heldR (th : Thread) : Bool := th.held == .r
def heldW (th : Thread) : Bool := th.held == .w
/-- inside the wait block (`waiting++ … waiting--`) on `cv` -/
def inWait (cv : Cv) (th : Thread) : Bool :=
  match th.pc with
  | .atWait _ c | .blocked _ c | .woken _ c => c == cv
  | _ => false
def isAtWait (cv : Cv) (th : Thread) : Bool :=
  match th.pc with
  | .atWait _ c => c == cv
  | _ => false
def isWoken (cv : Cv) (th : Thread) : Bool :=
  match th.pc with
  | .woken _ c => c == cv
  | _ => false
def isAtSignal (cv : Cv) (th : Thread) : Bool :=
  match th.pc with
  | .atSignal _ c => c == cv
  | _ => false
def isAtBcast (cv : Cv) (th : Thread) : Bool :=
  match th.pc with
  | .atBcast _ c => c == cv
  | _ => false
def owns (th : Thread) : Bool := th.pc.ownsMutex


/-! ### holders and waiters of a state -/

/-- number of threads holding the lock in read mode -/
def readers (s : State) : Nat := s.threads.countP heldR
/-- number of threads holding the lock in write mode -/
def writers (s : State) : Nat := s.threads.countP heldW
/-- number of threads inside the wait block of `p_rwlock_reader_lock` (they wait on `read_cv`) -/
def waitingReaders (s : State) : Nat := s.threads.countP (inWait .read)
/-- number of threads inside the wait block of `p_rwlock_writer_lock` (they wait on `write_cv`) -/
def waitingWriters (s : State) : Nat := s.threads.countP (inWait .write)

/-! ### executions -/

/-- states reachable from an initial state whose programs are disciplined, by any interleaving of
    thread steps (any choice of the waiter a signal wakes) and spurious wake-ups; fewer than 2^15
    threads (the width of the packed counter fields) -/
inductive Reach (c : Cfg) : State → Prop
  | init (progs : List (List Op)) (hd : ∀ p ∈ progs, Disc p = true) (hn : progs.length < 2^15) : Reach c (init progs)
  | step {s s' : State} {t : Tid} {pick : Option Tid} : Reach c s → stepThread c s t pick = some s' → Reach c s'
  | spur {s s' : State} {t : Tid} : Reach c s → spurious s t = some s' → Reach c s'

inductive Label
  | run (t : Tid) (pick : Option Tid)
  | spur (t : Tid)

def Label.isSpur : Label → Bool
  | .spur _ => true
  | _ => false

/-- one labelled transition of the system -/
def Step (c : Cfg) (s : State) (l : Label) (s' : State) : Prop :=
  match l with
  | .run t pick => stepThread c s t pick = some s'
  | .spur t => spurious s t = some s'

/-- thread `t` can make a (non-spurious) step -/
def Enabled (c : Cfg) (s : State) (t : Tid) : Prop := ∃ pick s', stepThread c s t pick = some s'

end PV.RWLock

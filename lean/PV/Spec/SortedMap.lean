/-!
The reference for the trees: a map kept as an association list that is strictly ascending in the
user comparator.  Equal keys (comparator says `.eq`) are one key; `insert` stores the *new* key
object, as the trees do.
-/
namespace PV.SM

variable {κ ν : Type}

def Sorted (cmp : κ → κ → Ordering) (l : List (κ × ν)) : Prop :=
  l.Pairwise fun a b => cmp a.1 b.1 = .lt

def insert (cmp : κ → κ → Ordering) : List (κ × ν) → κ → ν → List (κ × ν)
  | [], k, v => [(k, v)]
  | p :: r, k, v =>
    match cmp k p.1 with
    | .lt => (k, v) :: p :: r
    | .eq => (k, v) :: r
    | .gt => p :: insert cmp r k v

def erase (cmp : κ → κ → Ordering) : List (κ × ν) → κ → List (κ × ν)
  | [], _ => []
  | p :: r, k =>
    match cmp k p.1 with
    | .lt => p :: r
    | .eq => r
    | .gt => p :: erase cmp r k

/-- the stored pair whose key equals `k` -/
def find (cmp : κ → κ → Ordering) (l : List (κ × ν)) (k : κ) : Option (κ × ν) :=
  l.find? fun p => cmp k p.1 == .eq

def lookup (cmp : κ → κ → Ordering) (l : List (κ × ν)) (k : κ) : Option ν := (find cmp l k).map (·.2)

end PV.SM

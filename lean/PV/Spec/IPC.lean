/-!
Spec of C06 / C07: what a user of `PSemaphore` / `PShm` relies on, with every call atomic.

* a semaphore name is bound to an *incarnation* (one counter); OPEN of a bound name joins it and
  ignores the initial value, OPEN of an unbound name and every CREATE start a fresh incarnation
  with exactly the given value; the handle that started an incarnation, or that took ownership,
  is an owner: freeing it unbinds the name.
* a segment name is bound to an incarnation = (zero-initialised bytes of the creator's size, one
  lock counter starting at 1).  Opening an existing segment always succeeds; the reported size is
  the request when that is non-zero and smaller than the segment, else the segment's size.  Every
  offset below the reported size is accessible.  A handle holds exactly one mapping until freed.
-/
namespace PV.IPCSpec

inductive Kind where
  | sem | shm
deriving DecidableEq, Repr

structure H where
  kind : Kind
  pid : Nat
  name : Nat
  inc : Nat
  owner : Bool
  size : Nat := 0
deriving Repr

structure S where
  semOf : Nat → Option Nat := fun _ => none     -- name ↦ incarnation
  ctr : Nat → Nat := fun _ => 0                 -- incarnation ↦ counter
  shmOf : Nat → Option Nat := fun _ => none
  mem : Nat → List UInt8 := fun _ => []
  lock : Nat → Option Nat := fun _ => none       -- shm incarnation ↦ lock counter (none: no lock object, the next open makes one)
  next : Nat := 0
  hs : Nat → Option H := fun _ => none

inductive R where
  | ok | okSize (n : Nat) | fail | byte (b : UInt8) | size (n : Nat) | fault | wouldBlock | bad
deriving DecidableEq, Repr

def S.setH (s : S) (h : Nat) (v : Option H) : S := { s with hs := fun x => if x = h then v else s.hs x }

def S.handle (s : S) (pid h : Nat) (k : Kind) : Option H :=
  match s.hs h with
  | some x => if x.pid = pid ∧ x.kind = k then some x else none
  | none => none

def newSem (s : S) (pid h name init : Nat) (create : Bool) : S × R :=
  if (s.hs h).isSome then (s, .bad) else
  match s.semOf name, create with
  | some i, false => (s.setH h (some { kind := .sem, pid := pid, name := name, inc := i, owner := false }), .ok)
  | _, _ =>
    let i := s.next
    ({ s with semOf := fun n => if n = name then some i else s.semOf n,
              ctr := fun j => if j = i then init else s.ctr j, next := i + 1 }.setH h
        (some { kind := .sem, pid := pid, name := name, inc := i, owner := true }), .ok)

def acquire (s : S) (pid h : Nat) : S × R :=
  match s.handle pid h .sem with
  | some x =>
    if s.ctr x.inc = 0 then (s, .wouldBlock)
    else ({ s with ctr := fun j => if j = x.inc then s.ctr x.inc - 1 else s.ctr j }, .ok)
  | none => (s, .bad)

def release (s : S) (pid h : Nat) : S × R :=
  match s.handle pid h .sem with
  | some x => ({ s with ctr := fun j => if j = x.inc then s.ctr x.inc + 1 else s.ctr j }, .ok)
  | none => (s, .bad)

def own (s : S) (pid h : Nat) : S × R :=
  match s.hs h with
  | some x => if x.pid = pid then (s.setH h (some { x with owner := true }), .ok) else (s, .bad)
  | none => (s, .bad)

def free (s : S) (pid h : Nat) : S × R :=
  match s.hs h with
  | some x =>
    if x.pid ≠ pid then (s, .bad) else
    let s := s.setH h none
    if x.owner then
      match x.kind with
      | .sem => ({ s with semOf := fun n => if n = x.name then none else s.semOf n }, .ok)
      | .shm => ({ s with shmOf := fun n => if n = x.name then none else s.shmOf n }, .ok)
    else (s, .ok)
  | none => (s, .bad)

def newShm (s : S) (pid h name size : Nat) : S × R :=
  if (s.hs h).isSome then (s, .bad) else
  match s.shmOf name with
  | some i =>
    let real := (s.mem i).length
    let rep := if size = 0 ∨ real < size then real else size
    let s := if (s.lock i).isNone then { s with lock := fun j => if j = i then some 1 else s.lock j } else s
    (s.setH h (some { kind := .shm, pid := pid, name := name, inc := i, owner := false, size := rep }), .okSize rep)
  | none =>
    if size = 0 then (s, .fail) else
    let i := s.next
    ({ s with shmOf := fun n => if n = name then some i else s.shmOf n,
              mem := fun j => if j = i then List.replicate size 0 else s.mem j,
              lock := fun j => if j = i then some 1 else s.lock j, next := i + 1 }.setH h
        (some { kind := .shm, pid := pid, name := name, inc := i, owner := true, size := size }), .okSize size)

def lock (s : S) (pid h : Nat) : S × R :=
  match s.handle pid h .shm with
  | some x =>
    match s.lock x.inc with
    | some 0 => (s, .wouldBlock)
    | some (v + 1) => ({ s with lock := fun j => if j = x.inc then some v else s.lock j }, .ok)
    | none => (s, .bad)
  | none => (s, .bad)

def unlock (s : S) (pid h : Nat) : S × R :=
  match s.handle pid h .shm with
  | some x =>
    match s.lock x.inc with
    | some v => ({ s with lock := fun j => if j = x.inc then some (v + 1) else s.lock j }, .ok)
    | none => (s, .bad)
  | none => (s, .bad)

def rd (s : S) (pid h off : Nat) : R :=
  match s.handle pid h .shm with
  | some x => if off < x.size then (match (s.mem x.inc)[off]? with | some b => .byte b | none => .fault) else .fault
  | none => .bad

def wr (s : S) (pid h off : Nat) (b : UInt8) : S × R :=
  match s.handle pid h .shm with
  | some x =>
    if off < x.size ∧ off < (s.mem x.inc).length then
      ({ s with mem := fun j => if j = x.inc then (s.mem x.inc).set off b else s.mem j }, .ok)
    else (s, .fault)
  | none => (s, .bad)

def size (s : S) (pid h : Nat) : R :=
  match s.handle pid h .shm with
  | some x => .size x.size
  | none => .bad

/-- a killed process loses its handles; nothing else is promised about the names it was working on -/
def kill (s : S) (pid : Nat) : S :=
  { s with hs := fun h => match s.hs h with
                          | some x => if x.pid = pid then none else some x
                          | none => none }

end PV.IPCSpec

import PV.Spec.HashX
import PV.Spec.KeccakStd
import PV.Spec.GostStd
/-!
# One-shot specifications with the standards' own compression functions

The same sponge / GOST iteration as `PV.Spec.HashX`, but over `KeccakStd.keccakF` (FIPS 202 step
mappings) and `GostStd.chi` (A, P, E, ψ of GOST R 34.11-94) in place of the functions shared with
the models.  Nothing in these definitions refers to the C code's unrolled formulas.
-/
namespace PV.HashX.SpecStd
open PV.HashX PV.HashX.Keccak PV.HashX.Spec

/-- `S ← Keccak-f[1600] (S ⊕ (P ‖ 0^c))` -/
def absorbBlock (r : Nat) (S : Lanes) (P : Bytes) : Lanes :=
  let padded := (P ++ List.replicate (200 - r) 0).toArray
  KeccakStd.keccakF (S.mapIdx fun i x => x ^^^ lane padded i)

def squeeze (r : Nat) (S : Lanes) (d : Nat) : Bytes :=
  if _h : 0 < r ∧ r < d then stateBytes S r ++ squeeze r (KeccakStd.keccakF S) (d - r) else stateBytes S d
termination_by d
decreasing_by omega

def sponge (r d : Nat) (m : Bytes) : Bytes :=
  squeeze r ((blocks r (pad r m)).foldl (absorbBlock r) zeroState) d

/-- SHA3-n per FIPS 202 with the FIPS 202 permutation -/
def sha3 (n : Nat) (m : Bytes) : Bytes := sponge ((1600 - 2 * n) / 8) (n / 8) m

def sha3_224 := sha3 224
def sha3_256 := sha3 256
def sha3_384 := sha3 384
def sha3_512 := sha3 512

open PV.HashX.Gost in
/-- GOST R 34.11-94 (start vector 0, the S-boxes of the source) with the standard's step function χ -/
def gost (m : Bytes) : Bytes :=
  let bs := gostBlocks m
  let h := bs.foldl GostStd.chi W8.zero
  let L := (8 * m.length) % 2 ^ 256
  let S := (bs.foldl (fun s b => s + b.toNat) 0) % 2 ^ 256
  bytesOfW8 (GostStd.chi (GostStd.chi h (wordsOfNat L)) (wordsOfNat S))

end PV.HashX.SpecStd

/-! The reference: one bounded FIFO byte queue of capacity `S`. -/
namespace PV.Queue

abbrev Q := List UInt8

/-- write: all or nothing; `-1` for an empty write (invalid argument) -/
def write (S : Nat) (q : Q) (xs : List UInt8) : Q × Int :=
  if xs.length = 0 then (q, -1)
  else if xs.length ≤ S - q.length then (q ++ xs, xs.length)
  else (q, 0)

/-- `write` of `n` zero bytes (theorem `queue_writeZeros_eq_write` in PV.Props.C08), without building the list when it cannot fit -/
def writeZeros (S : Nat) (q : Q) (n : Nat) : Q × Int :=
  if n ≠ 0 ∧ ¬ n ≤ S - q.length then (q, 0) else write S q (List.replicate n 0)

/-- read: the oldest `min len used` bytes; `-1` for a zero-length read -/
def read (q : Q) (len : Nat) : Q × List UInt8 × Int :=
  if len = 0 then (q, [], -1)
  else (q.drop len, q.take len, (min len q.length : Nat))

def used (q : Q) : Nat := q.length
def free (S : Nat) (q : Q) : Nat := S - q.length

end PV.Queue

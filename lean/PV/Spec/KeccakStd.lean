/-!
# Keccak-f[1600] written from FIPS 202 (§3.2 step mappings, §3.3 Keccak-p, Algorithms 1–7)

Nothing here comes from the C source or from `PV.Generated`: the state is the 5 × 5 array of 64-bit
lanes `A[x, y]` (stored at index `x + 5 y`, the standard's lane order of §3.1.2 / B.1), the rotation
offsets of ρ are computed by the `(t + 1)(t + 2) / 2` walk of Algorithm 2, and the round constants of ι
by the LFSR `rc (t)` of Algorithm 5.  Bit `z` of a lane is bit `z` of the `UInt64`
(so the standard's "`(z − d) mod w`" moves bits towards higher positions = rotate left).
-/
namespace PV.HashX.KeccakStd

abbrev State := Array UInt64

/-- lane `A[x mod 5, y mod 5]` -/
@[inline] def get (A : State) (x y : Nat) : UInt64 := A[x % 5 + 5 * (y % 5)]!

/-- the state whose lane `(x, y)` is `f x y` -/
@[inline] def ofFn (f : Nat → Nat → UInt64) : State :=
  ((List.range 25).map fun i => f (i % 5) (i / 5)).toArray

/-- `A'[x, y, z] = A[x, y, (z − d) mod 64]` for all `z`: rotation of the lane by `d` towards higher bits -/
@[inline] def rot (v : UInt64) (d : Nat) : UInt64 :=
  if d % 64 = 0 then v else (v <<< (d % 64).toUInt64) ||| (v >>> (64 - d % 64).toUInt64)

/-- θ (Algorithm 1): `C[x] = ⊕_y A[x, y]`, `D[x] = C[x − 1] ⊕ rot (C[x + 1], 1)`, `A' = A ⊕ D[x]` -/
def theta (A : State) : State :=
  let C (x : Nat) : UInt64 := get A x 0 ^^^ get A x 1 ^^^ get A x 2 ^^^ get A x 3 ^^^ get A x 4
  let D (x : Nat) : UInt64 := rot (C (x + 1)) 1 ^^^ C (x + 4)      -- x − 1 ≡ x + 4 (mod 5)
  ofFn fun x y => get A x y ^^^ D x

/-- Algorithm 2, steps 2–3: starting at `(x, y) = (1, 0)`, for `t = 0 … 23` the lane `(x, y)` gets the
    offset `(t + 1)(t + 2) / 2` and `(x, y) ← (y, (2 x + 3 y) mod 5)` -/
def rhoWalk : Nat → Nat × Nat → List ((Nat × Nat) × Nat) → Nat → List ((Nat × Nat) × Nat)
  | 0, _, acc, _ => acc
  | n + 1, (x, y), acc, t => rhoWalk n (y, (2 * x + 3 * y) % 5) (((x, y), (t + 1) * (t + 2) / 2) :: acc) (t + 1)

def rhoTable : List ((Nat × Nat) × Nat) := rhoWalk 24 (1, 0) [] 0

/-- rotation offset of lane `(x, y)`; lane `(0, 0)` is not rotated -/
def offset (x y : Nat) : Nat :=
  match rhoTable.lookup (x % 5, y % 5) with
  | some r => r
  | none => 0

/-- ρ -/
def rho (A : State) : State := ofFn fun x y => rot (get A x y) (offset x y)

/-- π (Algorithm 3): `A'[x, y] = A[(x + 3 y) mod 5, x]` -/
def pi (A : State) : State := ofFn fun x y => get A (x + 3 * y) x

/-- χ (Algorithm 4): `A'[x, y] = A[x, y] ⊕ ((A[x + 1, y] ⊕ 1) · A[x + 2, y])` -/
def chi (A : State) : State := ofFn fun x y => get A x y ^^^ (~~~ get A (x + 1) y &&& get A (x + 2) y)

/-- Algorithm 5: `rc (t)`.  The register `R[0..7]` is kept as a number (`R[i]` = bit `i`). -/
def rcStep (r : Nat) : Nat :=
  -- R = 0 ‖ R (shift towards higher indices); R[0] ^= R[8]; R[4] ^= R[8]; R[5] ^= R[8]; R[6] ^= R[8]; Trunc8
  let r := r * 2
  let r := if r.testBit 8 then r ^^^ 0b01110001 else r
  r % 256

def rc (t : Nat) : Bool := (Nat.repeat rcStep (t % 255) 1).testBit 0

/-- Algorithm 6, steps 2–3: `RC[2^j − 1] = rc (j + 7 i_r)` for `j = 0 … 6` -/
def RC (ir : Nat) : UInt64 :=
  (List.range 7).foldl (fun acc j => if rc (j + 7 * ir) then acc ||| ((1 : UInt64) <<< (2 ^ j - 1).toUInt64) else acc) 0

/-- ι -/
def iota (ir : Nat) (A : State) : State :=
  ofFn fun x y => if x = 0 ∧ y = 0 then get A 0 0 ^^^ RC ir else get A x y

/-- `Rnd (A, i_r) = ι (χ (π (ρ (θ (A)))), i_r)` -/
def round (ir : Nat) (A : State) : State := iota ir (chi (pi (rho (theta A))))

/-- Keccak-f[1600] = Keccak-p[1600, 24]: rounds `i_r = 12 + 2 l − n_r … 12 + 2 l − 1` with `l = 6`, `n_r = 24`,
    i.e. `0 … 23` -/
def keccakF (A : State) : State := (List.range 24).foldl (fun A ir => round ir A) A

end PV.HashX.KeccakStd

import PV.Model.Socket
/-!
# Spec side of C10 `getters_reflect`: the mode/lifecycle record a user keeps in his head

The record is updated from the *call made and what it reported* (return value, error message) —
plus, for the two things the API does not report (`set_keepalive` is `void`; a socket adopted from a
descriptor inherits the kernel's state), the kernel's answers in the trace.
-/
namespace PV.Socket.Spec
open PV.Socket PV.Generated.Socket

structure Flags where
  timeout   : Int := 0
  backlog   : Int := 0
  blocking  : Bool := false
  keepalive : Bool := false
  connected : Bool := false
  closed    : Bool := false
  listening : Bool := false
  deriving DecidableEq, Repr, Inhabited

def flagsOf (s : Sock) : Flags :=
  { timeout := s.timeout, backlog := s.listen_backlog, blocking := s.blocking, keepalive := s.keepalive,
    connected := s.connected, closed := s.closed, listening := s.listening }

/-- did the trace contain a successful `setsockopt (SO_KEEPALIVE)` -/
def keepaliveSet (tr : List Ev) : Bool :=
  tr.any fun ev => match ev.call with
    | .setsockopt _ _ opt _ _ => opt = SO_KEEPALIVE && !ev.res.failed
    | _ => false

def layerMsg : String := "Error in socket layer"

def errIsLayer (o : Outcome) : Bool := match o.err with | some e => e.msg = layerMsg | none => false

/-- the obvious rules -/
def step (f : Flags) (c : Call) (o : Outcome) (tr : List Ev) : Flags :=
  match c with
  | .setTimeout n => { f with timeout := if n < 0 then 0 else n }                 -- clamped at 0
  | .setBacklog n => if f.listening then f else { f with backlog := n }           -- frozen while listening
  | .setBlocking b => { f with blocking := b }
  | .setKeepalive b => if keepaliveSet tr then { f with keepalive := b } else f   -- only on successful setsockopt
  | .connect _ =>
      if o.ret = 1 then { f with connected := true }
      else if errIsLayer o then { f with connected := false } else f
  | .checkConnectResult =>
      if o.ret = 1 then { f with connected := true }
      else if errIsLayer o then { f with connected := false } else f
  | .listen => if o.ret = 1 then { f with listening := true } else f
  | .shutdown rd wr => if o.ret = 1 ∧ rd ∧ wr then { f with connected := false } else f
  | .close => if o.ret = 1 ∧ !f.closed then { f with connected := false, closed := true, listening := false } else f   -- idempotent
  | _ => f

/-- what the caller of `p_socket_shutdown` means by two `pboolean`s: every non-zero value is TRUE -/
def shutdownArgs (rd wr : Int) : Bool × Bool := (rd ≠ 0, wr ≠ 0)

/-- flags of a socket just made by `p_socket_new` -/
def fresh : Flags := { timeout := 0, backlog := defaultBacklog, blocking := true }

/-- a socket adopted from a descriptor (`new_from_fd`, `accept`): connected iff `getpeername`
    succeeded, keepalive as `getsockopt (SO_KEEPALIVE)` says -/
def adopted (tr : List Ev) : Flags :=
  { fresh with
    connected := tr.any fun ev => match ev.call with | .getpeername .. => !ev.res.failed | _ => false
    keepalive := tr.any fun ev => match ev.call with
      | .getsockopt _ _ opt _ => opt = SO_KEEPALIVE && ev.res.ret = .ok 0 && ev.res.val ≠ 0
      | _ => false }

end PV.Socket.Spec

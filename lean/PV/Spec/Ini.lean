/-!
# The documented INI format (pinifile.h) as an AST, its printer and its meaning (C16)

Nothing here refers to the model.  A document is what the header file describes: lines before the
first section, then sections — a header line `[name]` followed by blank lines, comment lines
(`#…`, `;…`) and `key = value` lines.  The layout freedom of the format (blanks, quoting style,
trailing comments, line ends, a byte-order mark at the start of a line) is part of the AST so that the
printer is a plain function; the only choice outside the AST is the byte-order mark of the file (`Style`).
-/
namespace PV.IniSpec

abbrev Bytes := List UInt8

/-- longest line (with its line end, and the BOM on the first line) the parser reads in one piece -/
def maxLine : Nat := 1024

/-- white space of the "C" locale -/
def isSpace (b : UInt8) : Bool := b == 32 || (9 ≤ b && b ≤ 13)
/-- white space that does not end a line -/
def isBlank (b : UInt8) : Bool := isSpace b && b != 10

inductive Quote where
  | none | single | double
  deriving Repr, DecidableEq

/-- line end: `eof` = the file ends without a newline (last line only) -/
inductive Eol where
  | lf | crlf | eof
  deriving Repr, DecidableEq

def Eol.bytes : Eol → Bytes
  | .lf => [10]
  | .crlf => [13, 10]
  | .eof => []

/-- `#` (35) or `;` (59) followed by arbitrary text -/
structure Comment where
  marker : UInt8
  text : Bytes
  deriving Repr, DecidableEq

/-- `lead key pre = post [quote] value [quote] trail [comment]` -/
structure Entry where
  lead : Bytes
  key : Bytes
  pre : Bytes
  post : Bytes
  quote : Quote
  value : Bytes
  trail : Bytes
  comment : Option Comment
  deriving Repr, DecidableEq

inductive Body where
  | blank (ws : Bytes)
  | comment (lead : Bytes) (c : Comment)
  | entry (e : Entry)
  deriving Repr, DecidableEq

/-- byte-order marks the header promises are skipped.  (UTF-32 LE, `FF FE 00 00`, is not offered:
the code takes it for UTF-16 LE and then sees an empty line.) -/
inductive Bom where
  | none | utf8 | utf16be | utf16le | utf32be
  deriving Repr, DecidableEq

def Bom.bytes : Bom → Bytes
  | .none => []
  | .utf8 => [0xEF, 0xBB, 0xBF]
  | .utf16be => [0xFE, 0xFF]
  | .utf16le => [0xFF, 0xFE]
  | .utf32be => [0x00, 0x00, 0xFE, 0xFF]

/-- one physical line that is no section header.  `mark`: a byte-order mark at its very start — the parser
skips one at the start of *every* line it reads (files pasted together carry marks in the middle) -/
structure Line where
  body : Body
  eol : Eol
  mark : Bom
  deriving Repr, DecidableEq

/-- `[mark] lead [ pre name post ] trail` -/
structure Header where
  lead : Bytes
  pre : Bytes
  name : Bytes
  post : Bytes
  trail : Bytes
  eol : Eol
  mark : Bom
  deriving Repr, DecidableEq

structure Sec where
  header : Header
  body : List Line
  deriving Repr, DecidableEq

structure Doc where
  /-- lines before the first section header: they contribute nothing -/
  preamble : List Line
  secs : List Sec
  deriving Repr, DecidableEq

structure Style where
  bom : Bom
  deriving Repr, DecidableEq

/-! ## printer -/

def Quote.bytes : Quote → Bytes
  | .none => []
  | .single => [39]
  | .double => [34]

def Comment.render (c : Comment) : Bytes := c.marker :: c.text

def Entry.render (e : Entry) : Bytes :=
  e.lead ++ e.key ++ e.pre ++ [61] ++ e.post ++ e.quote.bytes ++ e.value ++ e.quote.bytes ++ e.trail
    ++ (match e.comment with | none => [] | some c => c.render)

def Body.render : Body → Bytes
  | .blank ws => ws
  | .comment lead c => lead ++ c.render
  | .entry e => e.render

/-- the line without its mark -/
def Line.core (l : Line) : Bytes := l.body.render ++ l.eol.bytes

def Line.render (l : Line) : Bytes := l.mark.bytes ++ l.core

/-- the header line without its mark -/
def Header.core (h : Header) : Bytes :=
  h.lead ++ [91] ++ h.pre ++ h.name ++ h.post ++ [93] ++ h.trail ++ h.eol.bytes

def Header.render (h : Header) : Bytes := h.mark.bytes ++ h.core

def Sec.lines (s : Sec) : List Bytes := s.header.render :: s.body.map Line.render

/-- the physical lines as (mark, rest) -/
def Sec.cores (s : Sec) : List (Bom × Bytes) := (s.header.mark, s.header.core) :: s.body.map fun l => (l.mark, l.core)

/-- the physical lines of the file, in order -/
def Doc.lines (d : Doc) : List Bytes := d.preamble.map Line.render ++ d.secs.flatMap Sec.lines

def Doc.cores (d : Doc) : List (Bom × Bytes) :=
  d.preamble.map (fun l => (l.mark, l.core)) ++ d.secs.flatMap Sec.cores

def render (σ : Style) (d : Doc) : Bytes := σ.bom.bytes ++ d.lines.flatten

/-! ## meaning -/

/-- the string without its leading and trailing white space -/
def trim (s : Bytes) : Bytes := ((s.dropWhile isSpace).reverse.dropWhile isSpace).reverse

/-- what a `key = value` line assigns.  A line without any value text (`key =`, `key = ; note`) assigns
nothing — an empty value has to be written `""` or `''`; a quoted value loses the blanks directly inside
the quotes (`" a "` is `a`, `"  "` is the empty value). -/
def Entry.binding (e : Entry) : Option (Bytes × Bytes) :=
  match e.quote with
  | .none => if e.value.isEmpty then none else some (e.key, e.value)
  | _ => some (e.key, trim e.value)

def entriesOf (body : List Line) : List (Bytes × Bytes) :=
  body.filterMap fun l => match l.body with
    | .entry e => e.binding
    | _ => none

/-- the last assignment of a key wins -/
def lastValue (es : List (Bytes × Bytes)) (k : Bytes) : Option Bytes :=
  (es.reverse.find? (·.1 == k)).map (·.2)

/-- the keys of a section, each once (in order of first appearance), with the value that wins -/
def assoc (es : List (Bytes × Bytes)) : List (Bytes × Bytes) :=
  (es.map (·.1)).eraseDups.map fun k => (k, (lastValue es k).getD [])

/-- the section assigns something: it is "non-empty" -/
def Sec.assigns (s : Sec) : Bool := !(entriesOf s.body).isEmpty

/-- the non-empty sections with their keys and values, each section read on its own: the meaning of a
document whose section names are distinct (`meaning_of_distinct`) -/
def meaningOf (secs : List Sec) : List (Bytes × List (Bytes × Bytes)) :=
  secs.filterMap fun s =>
    let es := entriesOf s.body
    if es.isEmpty then none else some (s.header.name, assoc es)

/-- Sections are looked up by name.  The order in which a look-up goes through the sections of a file:
the sections before the final one, latest first, then the final one. -/
def lookupOrder (secs : List Sec) : List Sec :=
  match secs.reverse with
  | [] => []
  | last :: initRev => initRev ++ [last]

/-- the section a look-up by name sees: the first non-empty one of that name in look-up order.  With
distinct names that is *the* section of that name; a repeated header does not continue the earlier
section, it starts a section of its own, and look-ups see only one of the two. -/
def seenSec (all : List Sec) (n : Bytes) : Option Sec :=
  ((lookupOrder all).filter Sec.assigns).find? (·.header.name == n)

/-- what the API shows for section `s` of the file `all`: its name, with the keys and values of the section
a look-up of that name sees -/
def viewOf (all : List Sec) (s : Sec) : Bytes × List (Bytes × Bytes) :=
  (s.header.name, assoc (entriesOf ((seenSec all s.header.name).getD s).body))

def meaningIn (all secs : List Sec) : List (Bytes × List (Bytes × Bytes)) :=
  (secs.filter Sec.assigns).map (viewOf all)

/-- what a reader of the file is entitled to see: the non-empty sections with their keys and values.
Comment lines, blank lines and the preamble contribute nothing.  (A name that heads several non-empty
sections is listed once for each of them, every time with the keys `seenSec` finds.) -/
def meaning (d : Doc) : List (Bytes × List (Bytes × Bytes)) := meaningIn d.secs d.secs

/-! ## well-formedness: the documented grammar, made explicit -/

def allBlank (s : Bytes) : Bool := s.all isBlank
/-- no NUL (the parser works on C strings) and no newline inside a field -/
def plain (s : Bytes) : Bool := s.all fun b => b != 0 && b != 10
/-- non-empty, first and last byte are not white space -/
def trimmed (s : Bytes) : Bool :=
  match s.head?, s.getLast? with
  | some a, some b => !isSpace a && !isSpace b
  | _, _ => false

/-- the line starts with one of the byte-order marks (the parser tests every line, not only the first) -/
def startsWithBom (l : Bytes) : Bool :=
  [0xEF, 0xBB, 0xBF].isPrefixOf l || [0xFE, 0xFF].isPrefixOf l || [0xFF, 0xFE].isPrefixOf l
  || [0x00, 0x00, 0xFE, 0xFF].isPrefixOf l || [0xFF, 0xFE, 0x00, 0x00].isPrefixOf l

def Comment.wf (c : Comment) : Bool := (c.marker == 35 || c.marker == 59) && plain c.text

def Entry.wf (e : Entry) : Bool :=
  allBlank e.lead && allBlank e.pre && allBlank e.post && allBlank e.trail
  -- key: non-empty, no blanks at its ends, free of '=', of the comment markers, not starting with '['
  && plain e.key && trimmed e.key && !e.key.contains 61 && !e.key.contains 35 && !e.key.contains 59
  && e.key.head? != some 91
  && plain e.value
  && (match e.quote with
      -- unquoted: empty (`key =`: the line assigns nothing, see `Entry.binding`) or without blanks at its
      -- ends (they belong to `post` / `trail`), no comment marker inside, not starting with a quote
      | .none => (e.value.isEmpty || trimmed e.value) && !e.value.contains 35 && !e.value.contains 59
                 && e.value.head? != some 34 && e.value.head? != some 39
      -- quoted: any text without that quote, blanks at its ends included (they are dropped, see
      -- `Entry.binding`).  A quoted value that is, blanks aside, just the other kind of empty quotes, "''" or
      -- '""', is emptied by the parser: excluded here and reported as an observation
      | .single => !e.value.contains 39 && trim e.value != [34, 34]
      | .double => !e.value.contains 34 && trim e.value != [39, 39])
  && (match e.comment with | none => true | some c => c.wf)

def Body.wf : Body → Bool
  | .blank ws => allBlank ws
  | .comment lead c => allBlank lead && c.wf
  | .entry e => e.wf

def Header.wf (h : Header) : Bool :=
  allBlank h.lead && allBlank h.pre && allBlank h.post && allBlank h.trail
  && plain h.name && trimmed h.name && !h.name.contains 93

def distinct : List Bytes → Bool
  | [] => true
  | a :: l => !l.contains a && distinct l

/-- all but the last line end in a newline -/
def eolsOk : List Eol → Bool
  | [] => true
  | [_] => true
  | e :: rest => e != .eof && eolsOk rest

def Doc.eols (d : Doc) : List Eol :=
  d.preamble.map (·.eol) ++ d.secs.flatMap fun s => s.header.eol :: s.body.map (·.eol)

/-- a physical line `mark rest` fits the line buffer; when it has no mark its first bytes are not those of one
(they would *be* its mark) -/
def lineOk (m : Bom) (rest : Bytes) : Bool :=
  m.bytes.length + rest.length ≤ maxLine && (m != .none || !startsWithBom rest)

/-- every physical line fits the line buffer; a mark is what the line starts with; the first line carries at
most one mark (the file's, `σ.bom`, or its own) -/
def linesOk (σ : Style) (d : Doc) : Bool :=
  match d.cores with
  | [] => true
  | (m, l) :: ls =>
    (σ.bom == .none || m == .none)
    && lineOk (if σ.bom == .none then m else σ.bom) l
    && ls.all fun p => lineOk p.1 p.2

/-- The documented grammar, line by line (see `PV.Props.C16` for what it leaves out). -/
def WF (σ : Style) (d : Doc) : Bool :=
  d.preamble.all (·.body.wf)
  && d.secs.all (fun s => s.header.wf && s.body.all (·.body.wf))
  && eolsOk d.eols
  && linesOk σ d

/-! ## the documented typed readings of a value -/

/-- positional value of a string of ASCII digits -/
def decimal (ds : Bytes) : Nat := ds.foldl (fun a d => 10 * a + (d.toNat - 48)) 0

def isDigit (b : UInt8) : Bool := 48 ≤ b && b ≤ 57

/-- "Integer values can be written in the usual form": blanks, an optional sign, digits; anything
after the digits is ignored.  `none` when the number does not fit a C `int`. -/
def intValue (neg : Bool) (ds : Bytes) : Option Int :=
  let v : Int := if neg then -(decimal ds : Int) else (decimal ds : Int)
  if -2147483648 ≤ v ∧ v ≤ 2147483647 then some v else none

/-- `{item item …}`: the text of a list value; separators are non-empty runs of white space, the
last item may touch the closing brace -/
def listText (lead : Bytes) (items : List (Bytes × Bytes)) (last : Option Bytes) : Bytes :=
  [123] ++ lead ++ (items.flatMap fun p => p.1 ++ p.2) ++ (last.getD []) ++ [125]

/-- an item: non-empty, no white space, no NUL, no closing brace -/
def isItem (it : Bytes) : Bool := !it.isEmpty && it.all fun b => !isSpace b && b != 0 && b != 125

/-! ## documented lookups on a document -/

/-- the value the documentation assigns to `key` of `sec`: the last assignment in the (first) section of
that name that has any assignment at all -/
def docFind (d : Doc) (sec key : Bytes) : Option Bytes :=
  match (meaning d).find? (·.1 == sec) with
  | none => none
  | some (_, kvs) => (kvs.find? (·.1 == key)).map (·.2)

/-- number of distinct keys of a section (0 when the section is not reported) -/
def docKeyCount (d : Doc) (sec : Bytes) : Nat :=
  match (meaning d).find? (·.1 == sec) with
  | none => 0
  | some (_, kvs) => kvs.length

/-! ## `pstring.h`: "Removes trailing and leading whitespaces", "Tokenizes a string by given delimiters" -/

/-- the maximal non-empty runs of bytes that are no delimiters, in order -/
def tokensAux (isD : UInt8 → Bool) : Bytes → Bytes → List Bytes
  | [], cur => if cur.isEmpty then [] else [cur.reverse]
  | b :: r, cur =>
    if isD b then (if cur.isEmpty then tokensAux isD r [] else cur.reverse :: tokensAux isD r [])
    else tokensAux isD r (b :: cur)

def tokens (delim s : Bytes) : List Bytes := tokensAux delim.contains s []

end PV.IniSpec

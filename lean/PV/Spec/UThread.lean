/-!
# Spec view for C05: what a user of PUThread relies on

No native keys, no lazy creation, no spinlock, no proxy: a handle is a counter of outstanding
references (creator's, explicit ones, the thread's own while it has not ended) and is released by the
operation that drops the last one; `join` yields the code given to `exit` (0 for a plain return, −1
for a handle that is not joinable); a TLS key is an independent cell per (thread, key); the
notifier runs for the non-NULL value overwritten by `replace`, for every non-NULL value left at
thread end under a key that still exists, and never otherwise; `p_uthread_local_free` releases a key together
with whatever is still stored under it (those values are dropped, not passed to the notifier).

This is the `S` column of the differential run (DESIGN §2.4); it is written independently of
`PV.Model.UThread` (association lists instead of the model's state).
-/
namespace PV.UThreadSpec

structure H where
  refs : Nat            -- outstanding references
  joinable : Bool
  code : Int := 0
  live : Bool := true
  deriving Repr

structure S where
  handles : List H := []                    -- by handle id
  threadHandle : List (Nat × Nat) := []     -- thread ↦ handle that describes it (library threads, or after `current`)
  ours : List Nat := []                     -- threads created by the library
  nThreads : Nat := 1
  keys : List Bool := [true]                -- by key id: has a notifier (key 0 is the library's, never visible)
  cells : List ((Nat × Nat) × Nat) := []    -- (thread, key) ↦ value
  freedKeys : List Nat := []                -- keys released with `p_uthread_local_free`

structure Out where
  freed : List Nat := []                    -- handles released by this operation
  dtor : List (Nat × Nat × Nat) := []       -- notifier calls (thread, key, value) of this operation

def lookup {α β : Type} [DecidableEq α] (l : List (α × β)) (a : α) : Option β := (l.find? (·.1 = a)).map (·.2)
def store {α β : Type} [DecidableEq α] (l : List (α × β)) (a : α) (b : β) : List (α × β) := (a, b) :: l.filter (·.1 ≠ a)

def S.cell (s : S) (t k : Nat) : Nat := (lookup s.cells (t, k)).getD 0
def S.live (s : S) : List Nat := (List.range s.handles.length).filter fun h => (s.handles[h]?.map (·.live)).getD false

def S.modH (s : S) (h : Nat) (f : H → H) : S := { s with handles := s.handles.modify h f }

/-- a new joinable / detached thread: two references (the creator's and the thread's own) -/
def create (s : S) (j : Bool) : S × Nat × Nat :=
  let h := s.handles.length
  let t := s.nThreads
  ({ s with handles := s.handles ++ [{ refs := 2, joinable := j }], nThreads := t + 1,
            threadHandle := store s.threadHandle t h, ours := t :: s.ours }, t, h)

/-- a creation that fails (NULL): no thread, no handle for anybody; the block the call needed meanwhile takes a handle
    id and is released again before the call returns -/
def createFailed (s : S) : S × Nat :=
  ({ s with handles := s.handles ++ [{ refs := 0, joinable := false, live := false }] }, s.handles.length)

/-- a library thread whose own handle could not be put into its slot: for the library it is an unknown thread from now on
    (`current` makes a fresh handle for it, `exit` is refused); the reference it holds to its handle goes when its
    function returns (that is `drop`) -/
def unstored (s : S) (t : Nat) : S :=
  { s with threadHandle := s.threadHandle.filter (fun c => c.1 ≠ t), ours := s.ours.filter (fun x => x ≠ t) }

def spawn (s : S) : S × Nat := ({ s with nThreads := s.nThreads + 1 }, s.nThreads)

def ref (s : S) (h : Nat) : S := s.modH h fun x => { x with refs := x.refs + 1 }

/-- give up one reference; the handle is released iff it was the last -/
def drop (s : S) (h : Nat) : S × List Nat :=
  match s.handles[h]? with
  | none => (s, [])
  | some x =>
    if x.refs = 1 then (s.modH h fun x => { x with refs := 0, live := false }, [h])
    else (s.modH h fun x => { x with refs := x.refs - 1 }, [])

/-- the handle describing the calling thread; for a thread the library did not create it comes into
    being at the first call, owned by the thread alone -/
def current (s : S) (t : Nat) : S × Nat :=
  match lookup s.threadHandle t with
  | some h => (s, h)
  | none =>
    let h := s.handles.length
    ({ s with handles := s.handles ++ [{ refs := 1, joinable := false }], threadHandle := store s.threadHandle t h }, h)

def exit (s : S) (t : Nat) (c : Int) : S :=
  if t ∈ s.ours then
    match lookup s.threadHandle t with
    | some h => s.modH h fun x => { x with code := c }
    | none => s
  else s

def join (s : S) (h : Nat) : Int :=
  match s.handles[h]? with
  | some x => if x.joinable then x.code else -1
  | none => -1

def insertSorted (x : Nat × Nat × Nat) : List (Nat × Nat × Nat) → List (Nat × Nat × Nat)
  | [] => [x]
  | y :: r => if x.1 < y.1 ∨ (x.1 = y.1 ∧ (x.2.1 < y.2.1 ∨ (x.2.1 = y.2.1 ∧ x.2.2 ≤ y.2.2))) then x :: y :: r else y :: insertSorted x r
def sortD (l : List (Nat × Nat × Nat)) : List (Nat × Nat × Nat) := l.foldr insertSorted []

/-- thread end: the notifier of every key for every non-NULL value the thread leaves; the thread's own
    reference to its handle disappears -/
def threadEnd (s : S) (t : Nat) : S × Out :=
  let owed := (List.range s.keys.length).filterMap fun k =>
    if k ≠ 0 ∧ k ∉ s.freedKeys ∧ s.keys[k]?.getD false ∧ s.cell t k ≠ 0 then some (t, k, s.cell t k) else none
  let s1 := { s with cells := s.cells.filter fun c => ¬ (c.1.1 = t ∧ (s.keys[c.1.2]?.getD false)) }
  match lookup s1.threadHandle t with
  | some h =>
    let r := drop s1 h
    ({ r.1 with threadHandle := r.1.threadHandle.filter (·.1 ≠ t) }, { freed := r.2, dtor := sortD owed })
  | none => (s1, { dtor := sortD owed })

/-- library shutdown by thread `t`: the reference the library held for the calling thread's own handle goes -/
def shutdown (s : S) (t : Nat) : S × Out :=
  match lookup s.threadHandle t with
  | some h =>
    let r := drop s h
    ({ r.1 with threadHandle := r.1.threadHandle.filter (·.1 ≠ t) }, { freed := r.2 })
  | none => (s, {})

def keyNew (s : S) (n : Bool) : S × Nat := ({ s with keys := s.keys ++ [n] }, s.keys.length)

/-- the key is gone together with every value still stored under it -/
def keyFree (s : S) (k : Nat) : S := { s with freedKeys := k :: s.freedKeys, cells := s.cells.filter fun c => c.1.2 ≠ k }

def setLocal (s : S) (t k v : Nat) : S := { s with cells := store s.cells (t, k) v }

def replaceLocal (s : S) (t k v : Nat) : S × Out :=
  let old := s.cell t k
  ({ s with cells := store s.cells (t, k) v },
   { dtor := if old ≠ 0 ∧ s.keys[k]?.getD false then [(t, k, old)] else [] })

end PV.UThreadSpec

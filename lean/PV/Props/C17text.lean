import PV.Props.C17
import PV.Lemmas.Inet6Text
/-! # C17 — the text round trip without a platform hypothesis, relative to a model of glibc

`PV.Props.C17.text_roundtrip_v6` is about any `Platform` and carries the platform contract
`pton6 (ntop6 a) = some a` (with its companions) as hypotheses.  `PV.Model.Inet6Text` is an executable model
of glibc's `inet_ntop (AF_INET6)`, `inet_pton (AF_INET6)` and numeric `getaddrinfo`, written after glibc's
sources; the theorems here discharge those hypotheses for that model, for all 2^128 addresses, so that the
corollary `text_round_trip_v6_glibc_model` has no hypothesis left.  What remains trusted is that the model is
what the platform does: the differential compares the model's text / parse result with the real
`inet_ntop` / `inet_pton` / `getaddrinfo` on every address and string of the C17 generators (ops `ntop6`,
`ntop4`, `pton` of the sockaddr protocol); a difference is a correspondence break of that model. -/
namespace PV.Props.C17text
open PV.SockAddr PV.Generated

/-- one group: the loop of `inet_pton6` reads the digits `"%x"` prints as the group's value (1..4 digits) -/
theorem hex_group_read_back (w : Nat) (hw : w < 65536) (rest acc : List UInt8) (colon : Option Nat) (tok : List UInt8) :
    go6 (hexG w ++ rest) ⟨acc, colon, 0, 0, tok⟩ = go6 rest ⟨acc, colon, (hexG w).length, w, tok⟩ ∧
    1 ≤ (hexG w).length ∧ (hexG w).length ≤ 4 :=
  ⟨go6_hexG w hw rest acc colon tok, hexG_length w⟩

example : hexG 0 = [48] ∧ hexG 0xa0 = [97, 48] ∧ hexG 0xffff = [102, 102, 102, 102] ∧ hexG 0x102 = [49, 48, 50] := by decide

/-- IPv4: parsing the printed text gives the address back, for all 2^32 addresses -/
theorem pton4_ntop4 (a : Vector UInt8 4) : pton4 (ntop4 a) = some a := PV.SockAddr.pton4_ntop4 a

example : pton4 (ntop4 #v[10, 0, 200, 9]) = some #v[10, 0, 200, 9] ∧ ntop4 #v[10, 0, 200, 9] = [49, 48, 46, 48, 46, 50, 48, 48, 46, 57] := by
  decide

/-- IPv6: parsing the printed text gives the address back, for all 2^128 addresses — whatever run is
    compressed, with and without the dotted tail -/
theorem pton6_ntop6 (a : Vector UInt8 16) : pton6 (ntop6 a) = some a := PV.SockAddr.pton6_ntop6 a

-- "2001:db8::1" in both directions
example : ntop6 #v[0x20, 0x01, 0x0d, 0xb8, 0, 0, 0, 0, 0, 0, 0, 0, 0, 0, 0, 1] = [50, 48, 48, 49, 58, 100, 98, 56, 58, 58, 49] ∧
    pton6 [50, 48, 48, 49, 58, 100, 98, 56, 58, 58, 49] = some #v[0x20, 0x01, 0x0d, 0xb8, 0, 0, 0, 0, 0, 0, 0, 0, 0, 0, 0, 1] := by
  decide

-- the formatting rules on concrete addresses: "::", "::1", "::1.2.3.4", "::ffff:1.2.3.4"; a single zero group is not
-- compressed ("1:0:2:3:4:5:6:7"); of two runs of equal length the first is ("1::2:3:0:0:4"); the longest wins ("1:0:0:2::3")
example : ntop6 #v[0, 0, 0, 0, 0, 0, 0, 0, 0, 0, 0, 0, 0, 0, 0, 0] = [58, 58] ∧
    ntop6 #v[0, 0, 0, 0, 0, 0, 0, 0, 0, 0, 0, 0, 0, 0, 0, 1] = [58, 58, 49] ∧
    ntop6 #v[0, 0, 0, 0, 0, 0, 0, 0, 0, 0, 0, 0, 1, 2, 3, 4] = [58, 58, 49, 46, 50, 46, 51, 46, 52] ∧
    ntop6 #v[0, 0, 0, 0, 0, 0, 0, 0, 0, 0, 255, 255, 1, 2, 3, 4] = [58, 58, 102, 102, 102, 102, 58, 49, 46, 50, 46, 51, 46, 52] ∧
    ntop6 #v[0, 1, 0, 0, 0, 2, 0, 3, 0, 4, 0, 5, 0, 6, 0, 7] = [49, 58, 48, 58, 50, 58, 51, 58, 52, 58, 53, 58, 54, 58, 55] ∧
    ntop6 #v[0, 1, 0, 0, 0, 0, 0, 2, 0, 3, 0, 0, 0, 0, 0, 4] = [49, 58, 58, 50, 58, 51, 58, 48, 58, 48, 58, 52] ∧
    ntop6 #v[0, 1, 0, 0, 0, 0, 0, 2, 0, 0, 0, 0, 0, 0, 0, 3] = [49, 58, 48, 58, 48, 58, 50, 58, 58, 51] := by
  decide

-- what the parser refuses: "1::2::3", "12345::", "1:2:3:4:5:6:7:8:9", "1:2:3:4:5:6:7:", "", ":::", "::01.2.3.4",
-- "1:2:3:4:5:6:7:8::"; and accepts: upper case "::ABCD", "1:2:3:4:5:6:1.2.3.4"
example : pton6 [49, 58, 58, 50, 58, 58, 51] = none ∧ pton6 [49, 50, 51, 52, 53, 58, 58] = none ∧
    pton6 [49, 58, 50, 58, 51, 58, 52, 58, 53, 58, 54, 58, 55, 58, 56, 58, 57] = none ∧
    pton6 [49, 58, 50, 58, 51, 58, 52, 58, 53, 58, 54, 58, 55, 58] = none ∧ pton6 [] = none ∧ pton6 [58, 58, 58] = none ∧
    pton6 [58, 58, 48, 49, 46, 50, 46, 51, 46, 52] = none ∧
    pton6 [49, 58, 50, 58, 51, 58, 52, 58, 53, 58, 54, 58, 55, 58, 56, 58, 58] = none ∧
    pton6 [58, 58, 65, 66, 67, 68] = some #v[0, 0, 0, 0, 0, 0, 0, 0, 0, 0, 0, 0, 0, 0, 0xab, 0xcd] ∧
    pton6 [49, 58, 50, 58, 51, 58, 52, 58, 53, 58, 54, 58, 49, 46, 50, 46, 51, 46, 52] =
      some #v[0, 1, 0, 2, 0, 3, 0, 4, 0, 5, 0, 6, 1, 2, 3, 4] := by
  decide

/-- the text of an IPv6 address always has a ':' (so `p_socket_address_new` sends it to `getaddrinfo`), and
    `inet_pton (AF_INET)` takes no string with a ':' -/
theorem v6_text_is_not_v4 (a : Vector UInt8 16) : (ntop6 a).contains 58 = true ∧ pton4 (ntop6 a) = none :=
  ⟨ntop6_has_colon a, pton4_colon _ (by simpa using ntop6_has_colon a)⟩

/-- **the IPv6 text round trip through the library with glibc's functions as modelled**: no platform hypothesis.
    (Flow info and scope id are not part of the text; they come back 0.) -/
theorem text_round_trip_v6_glibc_model (a : Vector UInt8 16) (p : UInt16) (f s : UInt32) :
    new glibcModel (getAddress glibcModel (.v6 a p f s)) p = .ok (some (.v6 a p 0 0)) := by
  apply PV.Props.C17.text_roundtrip_v6 glibcModel a p f s
  · exact PV.SockAddr.pton6_ntop6 a
  · exact (v6_text_is_not_v4 a).2
  · intro x hx hc
    refine ⟨0, ?_⟩
    show gaiNumeric (ntop6 a) = _
    have hx' : pton6 (ntop6 a) = some x := hx
    have hc0 : (ntop6 a).contains 58 = true := hc
    have hc' : (58 : UInt8) ∈ ntop6 a := by simpa using hc0
    simp [gaiNumeric, hc', hx']

/-- the IPv4 text round trip through the library with the same platform model -/
theorem text_round_trip_v4_glibc_model (a : Vector UInt8 4) (p : UInt16) :
    new glibcModel (getAddress glibcModel (.v4 a p)) p = .ok (some (.v4 a p)) :=
  PV.Props.C17.text_roundtrip_v4_lib glibcModel rfl rfl a p

-- fe80::1 port 443 (flow 7, scope 3) and 192.168.0.1 port 80 through text and back
example : new glibcModel (getAddress glibcModel (.v6 #v[0xfe, 0x80, 0, 0, 0, 0, 0, 0, 0, 0, 0, 0, 0, 0, 0, 1] 443 7 3)) 443 =
    .ok (some (.v6 #v[0xfe, 0x80, 0, 0, 0, 0, 0, 0, 0, 0, 0, 0, 0, 0, 0, 1] 443 0 0)) :=
  text_round_trip_v6_glibc_model _ _ _ _

example : getAddress glibcModel (.v6 #v[0xfe, 0x80, 0, 0, 0, 0, 0, 0, 0, 0, 0, 0, 0, 0, 0, 1] 443 7 3) = [102, 101, 56, 48, 58, 58, 49] ∧
    new glibcModel [102, 101, 56, 48, 58, 58, 49] 443 = .ok (some (.v6 #v[0xfe, 0x80, 0, 0, 0, 0, 0, 0, 0, 0, 0, 0, 0, 0, 0, 1] 443 0 0)) ∧
    new glibcModel [49, 57, 50, 46, 49, 54, 56, 46, 48, 46, 49] 80 = .ok (some (.v4 #v[192, 168, 0, 1] 80)) := by
  decide

end PV.Props.C17text

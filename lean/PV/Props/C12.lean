import PV.Lemmas.Tree.BST
import PV.Lemmas.Tree.AVL
import PV.Lemmas.Tree.RB
import PV.Generated.TreeLoops
/-!
# C12 — the three tree variants behave as a sorted map, for every operation sequence

`cmp` is any comparator that is oriented and transitive (`Std.TransCmp`: a total preorder; keys the
comparator calls equal are one key).  The outputs compared are everything the API shows: `nnodes`
after insert/remove, the found flag, lookup results, the pairs visited by `foreach` up to any stop
point, and the objects handed to the destroy notifiers (used again by C14).
Histories may contain inserts whose node allocation fails (`Op.insf`): `replace_allocates_nothing`, `failed_insert_is_identity`.
`newFull_iff` / `newFull_alloc_failure`: which creation calls give a tree (bad type, no comparator, failed allocation: NULL).
-/
namespace PV.Tree
open Std

variable {κ ν : Type} {cmp : κ → κ → Ordering}

/-- plain BST: every op sequence from the empty tree answers as the sorted map -/
theorem bst_run_refines [TransCmp cmp] (ops : List (Op κ ν)) :
    (bstRun cmp (.nil, 0) ops).2 = (specRun cmp [] ops).2 ∧
    (bstRun cmp (.nil, 0) ops).1.1.toList = (specRun cmp [] ops).1 :=
  bstRun_refines ops .nil 0 [] (by simp [BT.Ordered, BT.toList, SM.Sorted]) rfl rfl

/-- AVL: additionally the C code never dereferences NULL (`avlRun` is `some`) -/
theorem avl_run_refines [TransCmp cmp] (ops : List (Op κ ν)) :
    ∃ s, avlRun cmp (.nil, 0) ops = some (s, (specRun cmp [] ops).2) ∧
      s.1.toList = (specRun cmp [] ops).1 := by
  obtain ⟨s, h1, h2, _⟩ := avlRun_refines (cmp := cmp) ops .nil 0 []
    (by simp [BT.Ordered, AT.toBT, BT.toList, SM.Sorted]) (by simp [AT.Inv]) rfl rfl
  exact ⟨s, h1, h2⟩

/-- red-black -/
theorem rb_run_refines [TransCmp cmp] (ops : List (Op κ ν)) :
    ∃ s, rbRun cmp (.nil, 0) ops = some (s, (specRun cmp [] ops).2) ∧
      s.1.toList = (specRun cmp [] ops).1 := by
  obtain ⟨s, h1, h2, _⟩ := rbRun_refines (cmp := cmp) ops .nil 0 []
    (by simp [BT.Ordered, RT.toBT, BT.toList, SM.Sorted]) (by simp [RT.Inv, RT.isBlack, RT.Bal]) rfl rfl
  exact ⟨s, h1, h2⟩

/-- the map the spec keeps is strictly ascending in the comparator, so `foreach` (which visits a
    prefix of it: `specStep … (.each j)`) visits in strictly ascending key order, each pair once -/
theorem spec_sorted [TransCmp cmp] (ops : List (Op κ ν)) (l : List (κ × ν)) (hs : SM.Sorted cmp l) :
    SM.Sorted cmp (specRun cmp l ops).1 := by
  induction ops generalizing l with
  | nil => exact hs
  | cons op ops ih =>
    cases op with
    | ins k v => exact ih _ (SM.sorted_insert hs k v)
    | insf k v =>
      by_cases hf : (SM.find cmp l k).isSome = true
      · have e : specStep cmp l (.insf k v) = specStep cmp l (.ins k v) := by simp only [specStep, hf, if_true]
        simp only [specRun, e]
        exact ih _ (SM.sorted_insert hs k v)
      · have e : specStep cmp l (.insf k v) = (l, .ins l.length []) := by simp only [specStep, hf]; rfl
        simp only [specRun, e]
        exact ih _ hs
    | rem k => exact ih _ (SM.sorted_erase hs k)
    | get k => exact ih _ hs
    | each j => exact ih _ hs
    | clear => exact ih _ (by simp [SM.Sorted])
    | count => exact ih _ hs

/-- the node count is the number of distinct keys -/
theorem count_is_length (l : List (κ × ν)) : (specStep cmp l .count).2 = .num l.length := rfl

/-- the source facts the translator pins (`tools/extract.py`, refusing any other text): the threaded loops of
    `p_tree_foreach` / `p_tree_clear` are the ones of `Morris` / `MorrisClear`; insert / remove / lookup / get_nnodes /
    free / new of ptree.c are the texts `Run` was written from; the variants test only the sign of the comparator -/
theorem tree_source_as_modelled :
    Generated.treeLoopsAsModelled = true ∧ Generated.treeCallsAsModelled = true ∧ Generated.treeCompareBySign = true := by
  decide

/-! ### inserts whose node allocation fails (`Op.insf`) are step kinds of the histories above

`bst_run_refines` / `avl_run_refines` / `rb_run_refines` (and C13's balance invariants, C14's exactly-once bookkeeping)
quantify over every `List (Op κ ν)`, so over histories with failing inserts at any point.  The two cases of such a step: -/

/-- replace path: when an equal key is stored the insert allocates no node, so an allocation failure cannot change it —
    the failing-allocator step IS the ordinary insert step, in the spec and in all three variants -/
theorem replace_allocates_nothing (k : κ) (v : ν) :
    (∀ l : List (κ × ν), (SM.find cmp l k).isSome = true → specStep cmp l (.insf k v) = specStep cmp l (.ins k v)) ∧
    (∀ s : BT κ ν × Int, (s.1.lookup cmp k).isSome = true → bstStep cmp s (.insf k v) = bstStep cmp s (.ins k v)) ∧
    (∀ s : AT κ ν × Int, (s.1.toBT.lookup cmp k).isSome = true → avlStep cmp s (.insf k v) = avlStep cmp s (.ins k v)) ∧
    (∀ s : RT κ ν × Int, (s.1.toBT.lookup cmp k).isSome = true → rbStep cmp s (.insf k v) = rbStep cmp s (.ins k v)) := by
  refine ⟨fun l h => ?_, fun s h => ?_, fun s h => ?_, fun s h => ?_⟩
  · simp only [specStep, h, if_true]
  · simp only [bstStep, h, if_true]
  · simp only [avlStep, h, if_true]
  · simp only [rbStep, h, if_true]

/-- new key, allocation fails: the tree is literally the same tree (same shape, same stored balance factors and colours,
    same `nnodes`), the call reports the unchanged count and hands nothing to the destroy notifiers -/
theorem failed_insert_is_identity (k : κ) (v : ν) :
    (∀ l : List (κ × ν), (SM.find cmp l k).isSome = false → specStep cmp l (.insf k v) = (l, .ins l.length [])) ∧
    (∀ s : BT κ ν × Int, (s.1.lookup cmp k).isSome = false → bstStep cmp s (.insf k v) = (s, .ins s.2 [])) ∧
    (∀ s : AT κ ν × Int, (s.1.toBT.lookup cmp k).isSome = false → avlStep cmp s (.insf k v) = some (s, .ins s.2 [])) ∧
    (∀ s : RT κ ν × Int, (s.1.toBT.lookup cmp k).isSome = false → rbStep cmp s (.insf k v) = some (s, .ins s.2 [])) := by
  refine ⟨fun l h => ?_, fun s h => ?_, fun s h => ?_, fun s h => ?_⟩
  · simp only [specStep, h]; rfl
  · simp only [bstStep, h]; rfl
  · simp only [avlStep, h]; rfl
  · simp only [rbStep, h]; rfl

/-- non-vacuity: a failing insert of a new key between two successful ones, then of a stored key (replaced) -/
example : (match avlRun (κ := Nat) (ν := Nat) compare (.nil, 0) [.ins 2 20, .insf 1 10, .count, .insf 2 21, .get 2, .get 1] with
    | some (_, [.ins _ _, .ins n1 d1, .num c, .ins n2 d2, .got g2, .got g1]) =>
      n1 == 1 && d1.isEmpty && c == 1 && n2 == 1 && d2 == [(2, 20)] && g2 == some 21 && g1 == none
    | _ => false) = true := by
  decide

/-- `p_tree_new_full` gives a tree exactly for the three types, a comparator and a successful allocation — in particular a
    failed allocation gives NULL whatever the arguments (harness op `newf`), and every valid request is served -/
theorem newFull_iff (ty : Int) (f a : Bool) : newFull ty f a = true ↔ (0 ≤ ty ∧ ty ≤ 2) ∧ f = true ∧ a = true := by
  simp [newFull, and_assoc]

theorem newFull_alloc_failure (ty : Int) (f : Bool) : newFull ty f false = false := by
  simp [newFull]

example : newFull 2 true true = true ∧ newFull 3 true true = false ∧ newFull 1 false true = false := by decide

/-! non-vacuity: `Nat` with `compare` is such a comparator; a concrete run -/
example : (avlRun (κ := Nat) (ν := Nat) compare (.nil, 0) [.ins 2 20, .ins 1 10, .ins 3 30, .rem 2, .get 3, .each 1]).isSome := by
  decide

end PV.Tree

import PV.Lemmas.Tree.BST
import PV.Lemmas.Tree.AVL
import PV.Lemmas.Tree.RB
import PV.Generated.TreeLoops
/-!
# C12 — the three tree variants behave as a sorted map, for every operation sequence

`cmp` is any comparator that is oriented and transitive (`Std.TransCmp`: a total preorder; keys the
comparator calls equal are one key).  The outputs compared are everything the API shows: `nnodes`
after insert/remove, the found flag, lookup results, the pairs visited by `foreach` up to any stop
point, and the objects handed to the destroy notifiers (used again by C14).
`newFull_iff` / `newFull_alloc_failure`: which creation calls give a tree (bad type, no comparator, failed allocation: NULL).
-/
namespace PV.Tree
open Std

variable {κ ν : Type} {cmp : κ → κ → Ordering}

/-- plain BST: every op sequence from the empty tree answers as the sorted map -/
theorem bst_run_refines [TransCmp cmp] (ops : List (Op κ ν)) :
    (bstRun cmp (.nil, 0) ops).2 = (specRun cmp [] ops).2 ∧
    (bstRun cmp (.nil, 0) ops).1.1.toList = (specRun cmp [] ops).1 :=
  bstRun_refines ops .nil 0 [] (by simp [BT.Ordered, BT.toList, SM.Sorted]) rfl rfl

/-- AVL: additionally the C code never dereferences NULL (`avlRun` is `some`) -/
theorem avl_run_refines [TransCmp cmp] (ops : List (Op κ ν)) :
    ∃ s, avlRun cmp (.nil, 0) ops = some (s, (specRun cmp [] ops).2) ∧
      s.1.toList = (specRun cmp [] ops).1 := by
  obtain ⟨s, h1, h2, _⟩ := avlRun_refines (cmp := cmp) ops .nil 0 []
    (by simp [BT.Ordered, AT.toBT, BT.toList, SM.Sorted]) (by simp [AT.Inv]) rfl rfl
  exact ⟨s, h1, h2⟩

/-- red-black -/
theorem rb_run_refines [TransCmp cmp] (ops : List (Op κ ν)) :
    ∃ s, rbRun cmp (.nil, 0) ops = some (s, (specRun cmp [] ops).2) ∧
      s.1.toList = (specRun cmp [] ops).1 := by
  obtain ⟨s, h1, h2, _⟩ := rbRun_refines (cmp := cmp) ops .nil 0 []
    (by simp [BT.Ordered, RT.toBT, BT.toList, SM.Sorted]) (by simp [RT.Inv, RT.isBlack, RT.Bal]) rfl rfl
  exact ⟨s, h1, h2⟩

/-- the map the spec keeps is strictly ascending in the comparator, so `foreach` (which visits a
    prefix of it: `specStep … (.each j)`) visits in strictly ascending key order, each pair once -/
theorem spec_sorted [TransCmp cmp] (ops : List (Op κ ν)) (l : List (κ × ν)) (hs : SM.Sorted cmp l) :
    SM.Sorted cmp (specRun cmp l ops).1 := by
  induction ops generalizing l with
  | nil => exact hs
  | cons op ops ih =>
    cases op with
    | ins k v => exact ih _ (SM.sorted_insert hs k v)
    | rem k => exact ih _ (SM.sorted_erase hs k)
    | get k => exact ih _ hs
    | each j => exact ih _ hs
    | clear => exact ih _ (by simp [SM.Sorted])
    | count => exact ih _ hs

/-- the node count is the number of distinct keys -/
theorem count_is_length (l : List (κ × ν)) : (specStep cmp l .count).2 = .num l.length := rfl

/-- the source facts the translator pins (`tools/extract.py`, refusing any other text): the threaded loops of
    `p_tree_foreach` / `p_tree_clear` are the ones of `Morris` / `MorrisClear`; insert / remove / lookup / get_nnodes /
    free / new of ptree.c are the texts `Run` was written from; the variants test only the sign of the comparator -/
theorem tree_source_as_modelled :
    Generated.treeLoopsAsModelled = true ∧ Generated.treeCallsAsModelled = true ∧ Generated.treeCompareBySign = true := by
  decide

/-- `p_tree_new_full` gives a tree exactly for the three types, a comparator and a successful allocation — in particular a
    failed allocation gives NULL whatever the arguments (harness op `newf`), and every valid request is served -/
theorem newFull_iff (ty : Int) (f a : Bool) : newFull ty f a = true ↔ (0 ≤ ty ∧ ty ≤ 2) ∧ f = true ∧ a = true := by
  simp [newFull, and_assoc]

theorem newFull_alloc_failure (ty : Int) (f : Bool) : newFull ty f false = false := by
  simp [newFull]

example : newFull 2 true true = true ∧ newFull 3 true true = false ∧ newFull 1 false true = false := by decide

/-! non-vacuity: `Nat` with `compare` is such a comparator; a concrete run -/
example : (avlRun (κ := Nat) (ν := Nat) compare (.nil, 0) [.ins 2 20, .ins 1 10, .ins 3 30, .rem 2, .get 3, .each 1]).isSome := by
  decide

end PV.Tree

import PV.Model.Tree.BST
import PV.Model.Tree.AVL
import PV.Model.Tree.RB
/-! placeholder: theorems of C12 are being written -/

import PV.Lemmas.Res.Balance
import PV.Generated.ResSites
/-! # C18 — allocation failure at any point

"Whichever single allocation (or allocation and all later ones) fails inside any library call, the call returns
normally with its failure value or a documented degraded result, the process does not crash or touch invalid
memory, nothing allocated during the failed call stays allocated once the objects involved are freed, and
objects that existed before the call remain valid and unchanged."

The statements range over **every** failure predicate `f : Nat → Bool` (consulted with the running allocation
index): a single failing allocation, failure from some index on, and any other pattern.  They are about the
model `PV.Model.Res` (allocation / acquisition skeletons of the library functions, with the repairs of findings
F10 / F12 applied); the tie to the C code is the exhaustive fault enumeration of `tools/props/c18.py`.

"For each modelled function" is quantification over the call tables `ctorRun`, `mutRun`, `deriveRun`,
`dtorRun` (one entry per library function, see `PV.Model.Res.Calls`) plus the library-state functions.

Gap closing (coverage audit of the correspondence): the tables now also hold `p_realloc` (`MutK.strRealloc`),
`p_mem_munmap` with a failing `munmap` (`MutK.mmapFree`), `p_libsys_init_full`, invalid-argument calls of 37 entry
points; the modelled functions gained the error exits behind a failing `fstat` (existing segment), `getsockopt`
(`p_socket_new_from_fd`, `p_socket_accept`), `pthread_attr_init` / `pthread_attr_setdetachstate`, and the name copy of
`p_uthread_set_name_internal`.  The generic theorems below cover them as they cover every entry; `realloc_keeps_or_moves`,
`munmap_failure_keeps_mapping`, `clean_fail_thread_start`, `thread_name_copy_released` state what is specific to them. -/
namespace PV.Props.C18
open PV.Res List

/-! ## the generic predicates (all of them are consequences of `PV.Res.SpecG`) -/

/-- no fault (NULL dereference, use after free, double free, double close …) from any state that holds the
    arguments' footprint `pre` next to anything else, whatever fails -/
def Safe (pre : List R) (m : ResM α) : Prop :=
  ∀ (f : Nat → Bool) (s : St) (fr : List R), s.held ~ pre ++ fr → ∃ a s', m.run f s = .ok a s'

/-- what is held afterwards is exactly `post result` next to the untouched rest `fr` -/
def Accounts (pre : List R) (m : ResM α) (post : α → List R) : Prop :=
  ∀ (f : Nat → Bool) (s : St) (fr : List R) (a : α) (s' : St), s.held ~ pre ++ fr → m.run f s = .ok a s' →
    s'.held ~ post a ++ fr

theorem safe_of_spec {m : ResM α} (h : SpecG pre oi m post oo) : Safe pre m := by
  intro f s fr hs
  have := h f s fr hs
  unfold wp at this
  cases hr : m.run f s with
  | fault msg => rw [hr] at this; exact this.elim
  | ok a s' => exact ⟨a, s', rfl⟩

theorem accounts_of_spec {m : ResM α} (h : SpecG pre oi m post oo) : Accounts pre m post := by
  intro f s fr a s' hs hr
  have := h f s fr hs
  unfold wp at this
  rw [hr] at this
  exact this.1

/-- **pre_objects_intact**, generically: whatever else the process holds (`fr`: the resources of every object
    that is not an argument of the call) is still held afterwards (with its multiplicity) -/
theorem pre_objects_intact {m : ResM α} (h : SpecG pre oi m post oo) (f : Nat → Bool) (s : St) (fr : List R) (a : α)
    (s' : St) (hs : s.held ~ pre ++ fr) (hr : m.run f s = .ok a s') : ∀ r, List.count r fr ≤ List.count r s'.held := by
  intro r
  rw [(accounts_of_spec h f s fr a s' hs hr).count_eq r, List.count_append]
  omega

/-! ## constructors (`p_*_new*`, `p_strdup`, `p_ipc_get_platform_key`, …: every `CtorK`) -/

theorem safe_ctor (k : CtorK) (e : EP) : Safe e.foot (ctorRun k e) := safe_of_spec (ctorRun_spec k e)

/-- **clean_fail**: a constructor that returns no object leaves held exactly what was held before, plus the
    error object it handed back through the error pointer (which is only ever filled, never lost) -/
theorem clean_fail_ctor (k : CtorK) (e : EP) (f : Nat → Bool) (s : St) (fr : List R) (cls : Char) (e' : EP) (s' : St)
    (hs : s.held ~ e.foot ++ fr) (hr : (ctorRun k e).run f s = .ok (cls, none, e') s') :
    s'.held ~ e'.foot ++ fr ∧ EPle e e' := by
  have h1 := accounts_of_spec (ctorRun_spec k e) f s fr _ s' hs hr
  have h2 := ctorRun_ep k e f s
  unfold wlp at h2
  rw [hr] at h2
  exact ⟨by simpa [optFoot] using h1, h2⟩

/-- a constructor that succeeds holds exactly the footprint of the new object more -/
theorem success_ctor (k : CtorK) (e : EP) (f : Nat → Bool) (s : St) (fr : List R) (cls : Char) (o : Obj) (e' : EP)
    (s' : St) (hs : s.held ~ e.foot ++ fr) (hr : (ctorRun k e).run f s = .ok (cls, some o, e') s') :
    s'.held ~ o.foot ++ e'.foot ++ fr ∧ o.ty = k.ty := by
  have h1 := accounts_of_spec (ctorRun_spec k e) f s fr _ s' hs hr
  have h2 := ctorRun_ty k e f s
  unfold wlp at h2
  rw [hr] at h2
  exact ⟨by simpa [optFoot] using h1, h2 o rfl⟩

theorem pre_objects_intact_ctor (k : CtorK) (e : EP) (f : Nat → Bool) (s : St) (fr : List R) (r : Char × Option Obj × EP)
    (s' : St) (hs : s.held ~ e.foot ++ fr) (hr : (ctorRun k e).run f s = .ok r s') :
    ∀ x, List.count x fr ≤ List.count x s'.held :=
  pre_objects_intact (ctorRun_spec k e) f s fr r s' hs hr

/-! ## calls on an existing object (`p_list_append`, `p_tree_insert`, `p_hash_table_insert`, `p_ini_file_parse`,
    `p_error_set_*`, …: every `MutK`) -/

theorem safe_mut (k : MutK) (o : Obj) (e : EP) (m : ResM (Char × Option Obj × EP)) (hm : mutRun k o e = some m) :
    Safe (o.foot ++ e.foot) m := safe_of_spec (mutRun_spec k o e m hm)

/-- afterwards exactly the (possibly changed) object and the error pointer's object are held: whatever the call
    allocated and did not hand over is released again, on every path -/
theorem accounts_mut (k : MutK) (o : Obj) (e : EP) (m : ResM (Char × Option Obj × EP)) (hm : mutRun k o e = some m) :
    Accounts (o.foot ++ e.foot) m (fun r => optFoot r.2.1 ++ r.2.2.foot) := accounts_of_spec (mutRun_spec k o e m hm)

theorem pre_objects_intact_mut (k : MutK) (o : Obj) (e : EP) (m : ResM (Char × Option Obj × EP))
    (hm : mutRun k o e = some m) (f : Nat → Bool) (s : St) (fr : List R) (r : Char × Option Obj × EP) (s' : St)
    (hs : s.held ~ (o.foot ++ e.foot) ++ fr) (hr : m.run f s = .ok r s') :
    ∀ x, List.count x fr ≤ List.count x s'.held :=
  pre_objects_intact (mutRun_spec k o e m hm) f s fr r s' hs hr

/-! ## calls that derive a new object from an existing one (`p_hash_table_keys/values/lookup_by_value`,
    `p_ini_file_sections/keys/parameter_*`, `p_dir_get_next_entry`, `p_crypto_hash_get_string`,
    `p_socket_accept`, `p_socket_address_get_address`, …: every `DeriveK`) -/

theorem safe_derive (k : DeriveK) (o : Obj) (e : EP) (m : ResM (Char × Obj × Option Obj × EP))
    (hm : deriveRun k o e = some m) : Safe (o.foot ++ e.foot) m := safe_of_spec (deriveRun_spec k o e m hm)

theorem accounts_derive (k : DeriveK) (o : Obj) (e : EP) (m : ResM (Char × Obj × Option Obj × EP))
    (hm : deriveRun k o e = some m) :
    Accounts (o.foot ++ e.foot) m (fun r => r.2.1.foot ++ optFoot r.2.2.1 ++ r.2.2.2.foot) :=
  accounts_of_spec (deriveRun_spec k o e m hm)

/-! ## destructors -/

theorem safe_dtor (o : Obj) : Safe o.foot (dtorRun o) := safe_of_spec (dtorRun_spec o)

/-- a destructor releases exactly what its object holds -/
theorem released_dtor (o : Obj) : Accounts o.foot (dtorRun o) (fun _ => []) := accounts_of_spec (dtorRun_spec o)

/-! ## the library's own state and threads -/

theorem safe_lib_init (l : LibO) : Safe l.foot (libInit l) := safe_of_spec ((libInit_spec l).toG [] (fun _ => []) (by simp))
theorem safe_lib_shutdown (l : LibO) : Safe l.foot (libShutdown l) :=
  safe_of_spec ((libShutdown_spec l).toG [] (fun _ => []) (by simp))
theorem accounts_lib_shutdown (l : LibO) : Accounts l.foot (libShutdown l) LibO.foot :=
  accounts_of_spec ((libShutdown_spec l).toG [] (fun _ => []) (by simp))
theorem safe_uthread_current (l : LibO) : Safe l.foot (curThread l) :=
  safe_of_spec ((curThread_spec l).toG [] (fun _ => []) (by simp))
theorem safe_thread_run (l : LibO) (t : Option TlsO) (b : ThrOpt) : Safe (l.foot ++ optTls t) (threadRun l t b) :=
  safe_of_spec ((threadRun_spec l t b).toG [] (fun _ => []) (by simp))
theorem accounts_thread_run (l : LibO) (t : Option TlsO) (b : ThrOpt) :
    Accounts (l.foot ++ optTls t) (threadRun l t b) (fun r => optL ThreadO.foot r.1 ++ r.2.1.foot ++ optTls r.2.2) :=
  accounts_of_spec ((threadRun_spec l t b).toG [] (fun _ => []) (by simp))

/-! ## documented degraded results -/

/-- `p_list_append` / `p_list_prepend`: when the item cannot be allocated the *old list* is returned, unchanged,
    and nothing was allocated -/
theorem degraded_ok_list_add (l : ListO) (x : Nat) (pre : Bool) (f : Nat → Bool) (s : St) (c : Char) (l' : ListO) (s' : St)
    (hr : (listAdd l x pre).run f s = .ok (c, l') s') (hc : c = 'D') : l' = l ∧ s'.held = s.held := by
  simp only [listAdd, malloc, ResM.run, bind, ResM.bind, pure] at hr
  split at hr
  · simp only [ResM.run, Res.ok.injEq, Prod.mk.injEq] at hr
    obtain ⟨⟨_, rfl⟩, rfl⟩ := hr
    exact ⟨rfl, rfl⟩
  · simp only [ResM.run, Res.ok.injEq, Prod.mk.injEq] at hr
    obtain ⟨⟨rfl, _⟩, _⟩ := hr
    cases hc

/-- the (repaired) `p_dir_get_next_entry`: an entry whose type could not be determined (class `'D'`, type OTHER)
    is a complete entry — structure and name — accounted for like any other -/
theorem degraded_ok_dir_next (d : DirO) (e : EP) (f : Nat → Bool) (s : St) (fr : List R)
    (r : Char × DirO × Option DirentO × EP) (s' : St) (hs : s.held ~ (d.foot ++ e.foot) ++ fr)
    (hr : (dirNext d e).run f s = .ok r s') :
    s'.held ~ r.2.1.foot ++ optL DirentO.foot r.2.2.1 ++ r.2.2.2.foot ++ fr := by
  have := (dirNext_spec d e) f s fr hs
  unfold wp at this
  rw [hr] at this
  exact this.1

/-- `p_hash_table_keys/values`: a list shorter than the table (some items could not be allocated) is a proper
    list, accounted for, and the table is untouched -/
theorem degraded_ok_ht_list (t : HtO) (sel : List Nat) (f : Nat → Bool) (s : St) (fr : List R) (r : Char × ListO) (s' : St)
    (hs : s.held ~ t.foot ++ fr) (hr : (htList t sel).run f s = .ok r s') : s'.held ~ r.2.foot ++ t.foot ++ fr := by
  have := (htList_spec t sel) f s fr hs
  unfold wp at this
  rw [hr] at this
  exact this.1

/-- the (repaired) `p_ini_file_parse`: whatever lines are lost to failed allocations, the file object holds
    exactly what was kept — nothing of the dropped sections and parameters stays allocated -/
theorem degraded_ok_ini_parse (o : IniO) (e : EP) (f : Nat → Bool) (s : St) (fr : List R) (r : Char × IniO × EP)
    (s' : St) (hs : s.held ~ (o.foot ++ e.foot) ++ fr) (hr : (iniParse o e).run f s = .ok r s') :
    s'.held ~ r.2.1.foot ++ r.2.2.foot ++ fr := by
  have := (iniParse_spec o e) f s fr hs
  unfold wp at this
  rw [hr] at this
  exact this.1

/-! ## scenarios -/

/-- **balanced_scenario**: every scenario program of the harness (`PV.Model.Res.Scenarios`; the same call lines as
    the C scenario functions), run from the empty state under **any** failure predicate, returns normally and —
    after its own frees — holds no block, descriptor, mapping or TLS key, leaves no IPC name, and has closed every
    descriptor it opened exactly once. -/
theorem balanced_scenario (name : String) (cs : List Call) (h : (name, cs) ∈ scenarioCalls) (f : Nat → Bool) :
    ∃ rs env' s', (runCalls cs {}).run f {} = .ok (rs, env') s' ∧ s'.held = [] ∧ s'.names = [] ∧
      s'.closed ~ List.range' 1 s'.nextFd := by
  have hall : scenarioCalls.all (fun p => balancedB p.2) = true := by decide +kernel
  have := List.all_eq_true.1 hall (name, cs) h
  exact balanced_sound cs this f

/-- in particular (finding F12 repaired): `p_libsys_init` / `p_libsys_shutdown` pairs leave nothing allocated,
    whatever fails in between -/
theorem init_shutdown_neutral (f : Nat → Bool) :
    ∃ rs env' s', (runCalls [.glob .libInit none, .glob .libShutdown none, .glob .libInit none, .glob .libShutdown none] {}).run f {}
      = .ok (rs, env') s' ∧ s'.held = [] :=
  let ⟨rs, env', s', h1, h2, _⟩ := balanced_sound _ (by decide) f
  ⟨rs, env', s', h1, h2⟩

/-! ## the translator's part -/

/-- the allocation call sites of the current sources (regenerated by tools/extract.py on every run) are exactly those
    the model transliterates -/
theorem alloc_sites_as_modelled : PV.Generated.resSites = modelSites := by decide +kernel

/-! ## non-vacuity: the functions do succeed, and do fail -/

example : ∃ t s', (htNew).run (fun _ => false) {} = .ok (some t) s' ∧ s'.held = [.blk 2, .blk 1] := ⟨_, _, rfl, rfl⟩
example : ∃ s', (htNew).run (fun i => i == 2) {} = .ok none s' ∧ s'.held = [] := ⟨_, rfl, by decide⟩
example : (match (shmNew 0 1024 (some none)).run (fun i => i == 8) {} with
    | .ok (none, some (some _)) s => decide (s.held.length = 2 ∧ s.names = [])
    | _ => false) = true := by decide

/-! ## gap closing (coverage audit): entry points and error exits added to the model -/

/-- `p_realloc` of a block of the caller: when the allocator refuses (class `'F'`) the old block is still the
    caller's — same block, nothing else changed hands; when it succeeds the old block has become the new one and
    exactly one block is held for it (no copy is left behind) -/
theorem realloc_keeps_or_moves (b : Blk) (f : Nat → Bool) (s : St) (fr : List R) (c : Char) (b' : Blk) (s' : St)
    (hs : s.held ~ [.blk b] ++ fr) (hr : (strRealloc b).run f s = .ok (c, b') s') :
    s'.held ~ [.blk b'] ++ fr ∧ (c = 'F' → b' = b ∧ s'.held = s.held) := by
  refine ⟨accounts_of_spec ((strRealloc_spec b).toG [] (fun _ => []) (by simp)) f s fr _ s' hs hr, ?_⟩
  intro hc
  have hw : wp (strRealloc b) f s (fun r s' => r.1 = 'F' → r.2 = b ∧ s'.held = s.held) := by
    have hm : R.blk b ∈ s.held := hs.symm.subset (by simp)
    simp only [strRealloc, wp_bind, wp_malloc]
    split
    · simp
    · simp [hm]
  unfold wp at hw
  rw [hr] at hw
  exact hw hc

/-- `p_mem_munmap`: a failing `munmap` is reported and the mapping is still held by the caller (it is neither lost
    nor counted as released); a successful one releases exactly the mapping -/
theorem munmap_failure_keeps_mapping (i len : Nat) (e : EP) :
    Accounts (.map i len :: e.foot) (mmapUnmap i len e) (fun r => (if r.1 then [] else [.map i len]) ++ r.2.foot) :=
  accounts_of_spec ((mmapUnmap_spec i len e).toG [] (fun _ => []) (by simp))

/-- `p_uthread_create` whose native start fails (`pthread_attr_init`, `pthread_attr_setdetachstate` or
    `pthread_create` — whichever is scripted to fail, whatever allocation fails): no thread object is returned and
    exactly the library's state and the caller's key are held afterwards — the structure is released on every exit -/
theorem clean_fail_thread_start (l : LibO) (t : Option TlsO) (o : ThrOpt) (f : Nat → Bool) (s : St) (fr : List R)
    (l' : LibO) (t' : Option TlsO) (s' : St) (hs : s.held ~ (l.foot ++ optTls t) ++ fr)
    (hr : (threadRun l t o).run f s = .ok (none, l', t') s') : s'.held ~ l'.foot ++ optTls t' ++ fr := by
  simpa [optL] using accounts_thread_run l t o f s fr _ s' hs hr

/-- the thread with a long name: the truncated copy `p_uthread_set_name_internal` works on is released again,
    whether or not it could be allocated -/
theorem thread_name_copy_released (long : Bool) (nm : Option Blk) : Accounts [] (threadSetName long nm) (fun _ => []) :=
  accounts_of_spec ((threadSetName_spec long nm).toG [] (fun _ => []) (by simp))

/-- non-vacuity: the refused reallocation keeps block 1; the granted one holds block 2 only -/
example : (match (strRealloc 1).run (fun i => i == 2) { held := [.blk 1], next := 1 } with
    | .ok (c, b') s => decide (c = 'F' ∧ b' = 1 ∧ s.held = [.blk 1]) | .fault _ => false) = true := by decide
example : (match (strRealloc 1).run (fun _ => false) { held := [.blk 1], next := 1 } with
    | .ok (c, b') s => decide (c = 'S' ∧ b' = 2 ∧ s.held = [.blk 2]) | .fault _ => false) = true := by decide
/-- … a scripted `munmap` failure leaves mapping 1 held and hands back an error (two blocks) -/
example : (match (mmapUnmap 1 4096 (some none)).run (fun _ => false) { held := [.map 1 4096], sysfail := ["munmap"] } with
    | .ok (ok, e') s => decide (ok = false ∧ e'.isSome ∧ s.held.length = 3 ∧ R.map 1 4096 ∈ s.held) | .fault _ => false) = true := by decide
/-- … each of the three native calls of a thread start can be the failing one: nothing is held afterwards -/
example : ["pthread_attr_init", "pthread_attr_setdetachstate", "pthread_create"].all (fun nm =>
    match (threadRun {} none ⟨true, true⟩).run (fun _ => false) { sysfail := [nm] } with
    | .ok (none, _, _) s => decide (s.held = [] ∧ s.sysfail = []) | _ => false) = true := by decide
/-- … and a started thread with a long name allocates structure, name and the truncated copy (three attempts), keeping two -/
example : (match (threadRun {} none ⟨false, true⟩).run (fun _ => false) {} with
    | .ok (some _, _, _) s => decide (s.next = 3 ∧ s.held.length = 2) | _ => false) = true := by decide
/-- … `fstat` failing on an existing segment: the second handle fails, its descriptor is closed, both names stay
    (they belong to the first handle), nothing but the first handle and the error is held -/
example : (match (runCalls [.glob .libInit none, .ctor (.shmNew 0 0) 0 none, .glob (.sysfail "fstat") none,
      .ctor (.shmNew 0 0) 1 (some 9)] {}).run (fun _ => false) {} with
    | .ok (rs, _) s => decide (rs = ['S', 'S', 'S', 'F'] ∧ s.fds = [] ∧ s.closed = [2, 1] ∧ s.names.length = 2 ∧ s.maps.length = 2)
    | .fault _ => false) = true := by decide
/-- … `getsockopt` failing in `p_socket_new_from_fd`: structure released, the caller closes its descriptor -/
example : (match (sockFromFd (some none)).run (fun _ => false) { sysfail := ["getsockopt"] } with
    | .ok (none, some (some _)) s => decide (s.fds = [] ∧ s.closed = [1] ∧ s.live.length = 2)
    | _ => false) = true := by decide

/-! ## the old behaviour (findings): what the repaired functions replaced

Each is the allocation skeleton of the function *before* the repair, with a `decide`-checked failing run.
The harness reproduces every one of them on the unpatched C code (scenario, mode, index in the comment). -/

def isFault : Res α → Bool
  | .fault _ => true
  | .ok _ _ => false

/-- F10a, `p_dir_new` before the repair: the copies of the path are used unchecked
    (`strlen (ret->path)`); harness: `dir_basic once 4`, NULL dereference in pdir-posix.c -/
def dirNewOld : ResM (Option DirO) := do
  let fd ← openFd
  let some a ← malloc | do closeFd fd; return none
  let p ← malloc
  let o ← malloc
  deref p
  match p, o with
  | some p, some o => return some ⟨a, p, o, fd, 0⟩
  | _, _ => return none

example : isFault (dirNewOld.run (fun i => i == 2) {}) = true := by decide

/-- F10a, `p_dir_get_next_entry` before the repair: `strlen (ret->name)` on a failed copy; harness:
    `cross_dir_hash once 7` -/
def dirNextOld : ResM Unit := do
  let some _a ← malloc | return ()
  let n ← malloc
  deref n

example : isFault (dirNextOld.run (fun i => i == 2) {}) = true := by decide

/-- F10b, `p_rwlock_new` of prwlock-general.c before the repair: no `return NULL` after releasing the structure;
    harness: `rwlock_general once 4` (heap-use-after-free) -/
def rwgNewOld : ResM (Option RwgO) := do
  let some a ← malloc | return none
  let m ← newInit "pthread_mutex_init"
  if m.isNone then freeB a
  deref (some a)                      -- `ret->read_cv = …` on the released block
  return none

example : isFault (rwgNewOld.run (fun i => i == 2) {}) = true := by decide

/-- F12, `p_uthread_local_free` before the repair releases only the reference: the native key and its block stay;
    harness: every scenario ended with one block and one key outstanding (`init_only none 0`: `lost=[3]`) -/
def tlsFreeOld (t : TlsO) : ResM Unit := freeB t.self

def tlsOldDemo : ResM Unit := do
  let some t ← tlsNew | return ()
  let (_, t') ← tlsSet t
  free (t'.slot.bind (·.value))
  tlsFreeOld t'

example : (match tlsOldDemo.run (fun _ => false) {} with
    | .ok _ s => decide (s.held = [.key 1, .blk 2])
    | .fault _ => false) = true := by decide

/-- `p_ipc_unix_get_temp_dir` before the repair: the copy of the directory name is used unchecked and never
    released; harness: `ipc_tmpdir once 3` (crash), `ipc_tmpdir none 0` (one block outstanding) -/
def ipcTmpDirOld : ResM (Option Blk) := do
  let str ← malloc
  deref str
  let some ret ← malloc | do free str; return none
  return some ret

example : isFault (ipcTmpDirOld.run (fun i => i == 1) {}) = true := by decide
example : (match ipcTmpDirOld.run (fun _ => false) {} with
    | .ok _ s => decide (s.held.length = 2)
    | .fault _ => false) = true := by decide

/-- `p_ini_file_parse` before the repair: a parameter whose list item cannot be allocated is lost with its three
    blocks; harness: `ini_parse_small once 9` (three blocks outstanding) -/
def addParamOld : ResM Unit := do
  let some _ ← paramNew | return ()
  let _ ← malloc
  return ()

example : (match addParamOld.run (fun i => i == 4) {} with
    | .ok _ s => decide (s.held.length = 3)
    | .fault _ => false) = true := by decide

/-- `p_uthread_current` before the repair: when the structure cannot be stored in thread-local storage it is
    handed out anyway and never released; harness: `cur_thread once 1` -/
def curThreadOld (l : LibO) : ResM Unit := do
  match l.tls with
  | none => do let _ ← malloc; return ()
  | some _ => return ()

example : (match (curThreadOld {}).run (fun _ => false) {} with
    | .ok _ s => decide (s.held.length = 1)
    | .fault _ => false) = true := by decide

end PV.Props.C18

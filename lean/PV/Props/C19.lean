import PV.Model.Sleep
/-!
# C19 — blocking calls are transparent to signal interruptions (sleep part)

`p_uthread_sleep`: for EVERY number of interruptions, every remaining-time value the kernel may
report and every value `errno` happens to hold, the call returns 0, re-issues the native sleep with
exactly the remaining time each time, and the time slept adds up to the request.

The semaphore / shared-memory / socket parts of C19 are the `*_eintr_transparent` theorems of
`PV.Props.C06`, `PV.Props.C07`, `PV.Props.C09`.
-/
namespace PV.Sleep
open PV.Generated

/-- the kernel never reports more remaining time than was requested -/
def Chain : Nat → List Nat → Prop
  | _, [] => True
  | req, r :: rs => r ≤ req ∧ Chain r rs

def script (rems : List Nat) : List Native := rems.map .intr ++ [.ok]

def reqOf (msec : Nat) : Nat := (msec % 1000) * 1000000 + (msec / 1000) * 1000000000

theorem reqOf_eq (msec : Nat) : reqOf msec = msec * 1000000 := by
  unfold reqOf; omega

private def cfg : Cfg := { usesClockNanosleep := sleepUsesClockNanosleep, testsReturnValue := sleepTestsReturnValue }

private theorem loop_intrs (e : Int) (req : Nat) (rems : List Nat) (acc : List Nat) :
    loop cfg e req (script rems) acc = { ret := 0, calls := acc.reverse ++ req :: rems } := by
  induction rems generalizing req acc with
  | nil => simp [script, loop]
  | cons r rs ih =>
    have h : looksInterrupted cfg e EINTR = true := by
      simp [looksInterrupted, cfg, sleepUsesClockNanosleep, sleepTestsReturnValue]
    have := ih r (req :: acc)
    simp only [script, List.map_cons, List.cons_append, loop, h, if_true] at *
    rw [this]
    simp

/-- **Transparency.**  Any number of handled signals: returns 0, and the native call is re-issued
    with exactly the remaining time reported by the kernel each time. -/
theorem sleep_transparent (ambientErrno : Int) (msec : Nat) (rems : List Nat) :
    sleep ambientErrno msec (script rems) = { ret := 0, calls := reqOf msec :: rems } := by
  have := loop_intrs ambientErrno (reqOf msec) rems []
  simpa [sleep, reqOf, cfg] using this

private theorem slept_chain (req : Nat) (rems : List Nat) (h : Chain req rems) :
    slept (req :: rems) (script rems) = req := by
  induction rems generalizing req with
  | nil => simp [script, slept]
  | cons r rs ih =>
    obtain ⟨h1, h2⟩ := h
    have := ih r h2
    simp only [script, List.map_cons, List.cons_append, slept] at *
    rw [this]; omega

/-- … and the intervals slept add up to the whole request (kernel contract: an interrupted call
    slept `requested − remaining`). -/
theorem sleep_total_elapsed (ambientErrno : Int) (msec : Nat) (rems : List Nat) (h : Chain (reqOf msec) rems) :
    slept (sleep ambientErrno msec (script rems)).calls (script rems) = msec * 1000000 := by
  rw [sleep_transparent, slept_chain _ _ h, reqOf_eq]

/-- a genuine error (any code other than EINTR) is reported, at once -/
theorem sleep_hard_error (ambientErrno : Int) (msec : Nat) (code : Int) (hc : code ≠ EINTR) (rest : List Native) :
    (sleep ambientErrno msec (.err code :: rest)).ret = -1 := by
  have : looksInterrupted cfg ambientErrno code = false := by
    simp [looksInterrupted, cfg, sleepUsesClockNanosleep, sleepTestsReturnValue, hc]
  simp [sleep, loop, cfg] at *
  simp [this]

/-- the result never depends on what `errno` happened to contain -/
theorem sleep_ignores_ambient_errno (e1 e2 : Int) (msec : Nat) (s : List Native) :
    sleep e1 msec s = sleep e2 msec s := by
  unfold sleep
  generalize ((msec % 1000) * 1000000 + (msec / 1000) * 1000000000) = req
  generalize ([] : List Nat) = acc
  induction s generalizing req acc with
  | nil => simp [loop]
  | cons x xs ih =>
    cases x with
    | ok => simp [loop]
    | intr rem =>
      simp only [loop, looksInterrupted, sleepUsesClockNanosleep, sleepTestsReturnValue, if_true]
      split
      · exact ih _ _
      · rfl
    | err code =>
      simp only [loop, looksInterrupted, sleepUsesClockNanosleep, sleepTestsReturnValue, if_true]
      split
      · exact ih _ _
      · rfl

/-! non-vacuity: three interruptions of a 300 ms sleep -/
example : Chain (reqOf 300) [280000000, 100000000, 5] := by simp [Chain, reqOf]
example : (sleep 0 300 (script [280000000, 100000000, 5])).ret = 0 := by
  rw [sleep_transparent]

end PV.Sleep

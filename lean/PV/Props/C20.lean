import PV.Lemmas.Res.Balance
import PV.Generated.ResSites
/-! # C20 — resource neutrality

"After any sequence of library calls in which every object obtained is eventually freed (and named IPC objects
are freed by an owner), the process holds no library allocation, no additional open file descriptor and no
additional memory mapping compared with before the sequence, and no IPC name created by the sequence remains in
the system; this holds equally when calls in the sequence fail.  Each descriptor the library opens is closed
exactly once."

The statements are about the model `PV.Model.Res` (every public constructor / destructor / failing path of the
library as a resource program, the code with the repairs of findings F5 / F10 / F12 applied) and range over
**every** sequence of call lines and **every** failure predicate.  The tie to the C code is the differential run
of `tools/props/c20.py` (resource counts after every call of random cross-module sequences) and the fault
enumeration of C18. -/
namespace PV.Props.C20
open PV.Res List

/-- what the process holds: heap blocks, descriptors, mappings, native TLS keys -/
abbrev resources (s : St) : List R := s.held

/-- the union of the footprints of the live objects: the library's own state and the objects in the slots -/
abbrev footprints (env : Env) : List R := env.lib.foot ++ footL env.slots

/-- **footprint_inv**, one call: every call of the call language — constructor, destructor, any other call, on any
    slots, succeeding, failing, or skipped because its arguments do not fit — keeps
    `resources = ⋃ footprint (live objects)` and "every existing IPC name has a live owner"; it never faults. -/
theorem footprint_inv_call (c : Call) (env : Env) (s : St) (f : Nat → Bool)
    (h : resources s ~ footprints env ∧ ∀ n ∈ s.names.map (·.1), n ∈ ownL env.slots) :
    ∃ r env' s', (step c env).run f s = .ok (r, env') s' ∧
      resources s' ~ footprints env' ∧ ∀ n ∈ s'.names.map (·.1), n ∈ ownL env'.slots := by
  have := step_inv c (env := env) (s := s) h f
  unfold wp at this
  cases hr : (step c env).run f s with
  | fault msg => rw [hr] at this; exact this.elim
  | ok a s' => rw [hr] at this; exact ⟨a.1, a.2, s', rfl, this⟩

/-- **footprint_inv**: for every sequence of successful and failing calls (given as call lines, the language of
    the harness), from the empty state -/
theorem footprint_inv (lines : List String) (f : Nat → Bool) :
    ∃ rs env' s', (runLines lines {}).run f {} = .ok (rs, env') s' ∧
      resources s' ~ footprints env' ∧ ∀ n ∈ s'.names.map (·.1), n ∈ ownL env'.slots := by
  have := runLines_inv lines Inv_init f
  unfold wp at this
  cases hr : (runLines lines {}).run f {} with
  | fault msg => rw [hr] at this; exact this.elim
  | ok a s' => rw [hr] at this; exact ⟨a.1, a.2, s', rfl, this⟩

/-- the same for sequences of parsed calls, from any state in which the invariant holds -/
theorem footprint_inv_calls (cs : List Call) (env : Env) (s : St) (f : Nat → Bool) (h : Inv env s) :
    ∃ rs env' s', (runCalls cs env).run f s = .ok (rs, env') s' ∧ Inv env' s' := by
  have := runCalls_inv cs h f
  unfold wp at this
  cases hr : (runCalls cs env).run f s with
  | fault msg => rw [hr] at this; exact this.elim
  | ok a s' => rw [hr] at this; exact ⟨a.1, a.2, s', rfl, this⟩

/-- **neutral**: when every object obtained has been freed (every slot is empty, the library is shut down; a named
    IPC object that was freed by non-owners only would still be counted as existing), the resource state equals
    the initial one: nothing held, no IPC name — whichever calls of the sequence failed -/
theorem neutral (lines : List String) (f : Nat → Bool) (rs : List Char) (env' : Env) (s' : St)
    (hr : (runLines lines {}).run f {} = .ok (rs, env') s') (hfreed : env'.neutral) :
    resources s' = [] ∧ s'.names = [] ∧ s'.live = [] ∧ s'.fds = [] ∧ s'.maps = [] ∧ s'.tlsKeys = [] := by
  obtain ⟨rs2, env2, s2, h2, hinv⟩ := footprint_inv lines f
  rw [hr] at h2
  cases h2
  obtain ⟨h1, h3⟩ := neutral_of_inv hinv hfreed
  refine ⟨h1, h3, ?_, ?_, ?_, ?_⟩ <;> simp [St.live, St.fds, St.maps, St.tlsKeys, h1]

/-- **fd_closed_once**: for *every* resource program (by induction on programs, so for every library function,
    call and sequence): the descriptors open now and the descriptors closed so far are together exactly the
    descriptors issued so far, each once.  Hence no descriptor is ever closed twice … -/
theorem fd_closed_once (m : ResM α) (f : Nat → Bool) (a : α) (s' : St) (hr : m.run f {} = .ok a s') :
    (s'.fds ++ s'.closed) ~ List.range' 1 s'.nextFd ∧ s'.closed.Nodup := by
  have h := run_fdwf m f {} FdWF_init a s' hr
  refine ⟨h, ?_⟩
  have hn : (s'.fds ++ s'.closed).Nodup := (List.Perm.nodup_iff h).2 (List.nodup_range' (n := s'.nextFd) (s := 1) (step := 1) (by omega))
  exact (List.nodup_append.1 hn).2.1

/-- … and when none is open any more, every descriptor the sequence opened has been closed exactly once -/
theorem fd_closed_exactly_once (lines : List String) (f : Nat → Bool) (rs : List Char) (env' : Env) (s' : St)
    (hr : (runLines lines {}).run f {} = .ok (rs, env') s') (hfreed : env'.neutral) :
    s'.closed ~ List.range' 1 s'.nextFd := by
  have h := (fd_closed_once _ f _ s' hr).1
  have := (neutral lines f rs env' s' hr hfreed).2.2.2.1
  rw [this] at h
  simpa using h

/-- the model predicts a clean run for every line sequence: no call ever faults -/
theorem never_faults (lines : List String) (f : Nat → Bool) : ∃ r s', (runLines lines {}).run f {} = .ok r s' :=
  let ⟨rs, env', s', h, _⟩ := footprint_inv lines f
  ⟨(rs, env'), s', h⟩

/-- **The model's acquisitions and releases are those of the source.**  Per function of the in-scope files, the number of
    call sites that acquire a system resource (socket, accept, open, fopen, opendir, shm_open, mmap, sem_open, dlopen,
    pthread_key_create, pthread_create) and of call sites that release one, in the sources as compiled for this platform
    (`tools/extract.py`), equal the snapshot the resource programs were transliterated from.  A release removed from an error
    exit that no sampled sequence reaches is a broken obligation here. -/
theorem sys_sites_as_modelled : PV.Generated.resSysSites = modelSysSites := by decide +kernel

/-! ## non-vacuity -/

/-- a sequence across modules with a failing allocation in the middle: it ends neutral -/
example : (match (runCalls [.glob .libInit none, .ctor .htNew 0 none, .mut (.htInsert 1 2) .ht 0 none,
      .ctor (.semNew 0 false) 1 (some 9), .ctor (.dirNew false) 2 (some 9), .dtor .dir 2, .dtor .sem 1, .dtor .ht 0,
      .dtor .err 9, .glob .libShutdown none] {}).run (fun i => i == 6) {} with
    | .ok (rs, env') s => decide (rs = ['S', 'S', 'S', 'F', 'S', 'S', '-', 'S', 'S', 'S'] ∧ s.held = [] ∧ s.names = [] ∧ s.closed = [1])
    | .fault _ => false) = true := by decide

/-- gap closing (coverage audit): the error exits and entry points added to the model — a refused `p_realloc`, an
    invalid-argument call, `fstat` failing on an existing segment, `getsockopt` failing in `p_socket_new_from_fd`,
    `pthread_attr_setdetachstate` failing in `p_uthread_create`, a thread with a long name, `munmap` failing in
    `p_mem_munmap` — in one sequence: it ends neutral, every descriptor closed once -/
example : (match (runCalls [.glob .libInit none, .ctor .strdup 0 none, .mut .strRealloc .str 0 none, .glob .fileRemoveMissing (some 9),
      .ctor (.shmNew 0 0) 1 (some 9), .glob (.sysfail "fstat") none, .ctor (.shmNew 0 0) 2 (some 9),
      .glob (.sysfail "getsockopt") none, .ctor .sockFromFd 3 (some 9),
      .glob (.sysfail "pthread_attr_setdetachstate") none, .threadRun 4 ⟨false, false⟩ none, .threadRun 4 ⟨false, true⟩ none,
      .ctor (.mmapNew 4096) 5 (some 9), .glob (.sysfail "munmap") none, .mut .mmapFree .mmap 5 (some 9), .mut .mmapFree .mmap 5 (some 9),
      .dtor .thread 4, .dtor .shm 1, .dtor .str 0, .dtor .err 9, .glob .libShutdown none] {}).run (fun i => i == 4) {} with
    | .ok (rs, env') s => decide (rs = ['S', 'S', 'F', 'F', 'S', 'S', 'F', 'S', 'F', 'S', 'F', 'S', 'S', 'S', 'F', 'S', 'S', 'S', 'S', 'S', 'S']
        ∧ env'.slots.all (·.isNone) ∧ s.held = [] ∧ s.names = [] ∧ s.closed.length = s.nextFd)
    | .fault _ => false) = true := by decide

/-- … and while objects are live the process does hold their footprints -/
example : (match (runCalls [.glob .libInit none, .ctor (.shmNew 0 0) 1 none] {}).run (fun _ => false) {} with
    | .ok (_, _) s => decide (s.live.length = 2 + 4 ∧ s.maps.length = 2 ∧ s.names.length = 2 ∧ s.closed = [1])
    | .fault _ => false) = true := by decide

/-- F5 (not repaired in this round; the model has the repaired `p_shm_free`): unmapping only the clamped size of
    a handle opened with a smaller size leaves the tail of the mapping; harness: `shm_two_smaller none 0`, `maps=1` -/
example : (match (do let m ← mmap 12288; munmap m 12288 1024 : ResM Unit).run (fun _ => false) {} with
    | .ok _ s => decide (s.held = [.map 1 8192])
    | .fault _ => false) = true := by decide

end PV.Props.C20

import PV.Model.ShmBuffer
import PV.Spec.Queue
import PV.Lemmas.ShmBuffer
import PV.Generated.ShmBuffer
/-!
# C08 — the shared-memory buffer is one bounded FIFO byte queue

`M` is the ring modulus (`buf->size`), the capacity is `S = M − 1`.  All theorems hold for every
capacity `1 ≤ S < 2^31 − 1`, every position of `rd`/`wr` (so every wrap-around), every length.
The `2^31` bound is the `(pint)` cast of the read result (API-inherent).
Last section: the error exits taken when `p_shm_lock` / `p_shm_unlock` fail (`writeL`, `readL`, … with a `LockScript`).
-/
namespace PV.SB

/-- **used + free = capacity**, always -/
theorem used_add_free {M : Nat} {s : Shared} (wf : WF M s) : usedSpace M s + freeSpace M s = M - 1 :=
  used_add_free' wf

/-- **write**: never faults, keeps the state well-formed, and is exactly the queue's all-or-nothing append -/
theorem write_refines {M : Nat} {s : Shared} (wf : WF M s) (xs : List UInt8) :
    ∃ s' r, write M s xs = .ok s' r ∧ WF M s' ∧ (abs M s', r) = Queue.write (M - 1) (abs M s) xs :=
  write_refines' wf xs

/-- **read**: never faults, returns the oldest `min len used` bytes in order and removes them -/
theorem read_refines {M : Nat} {s : Shared} (wf : WF M s) (len : Nat) :
    ∃ s' out r, read M s len = .ok s' (out, r) ∧ WF M s' ∧ (abs M s', out, r) = Queue.read (abs M s) len :=
  read_refines' wf len

/-- **clear** empties the queue -/
theorem clear_refines {M : Nat} {s : Shared} (wf : WF M s) : WF M (clear M s) ∧ abs M (clear M s) = [] :=
  clear_refines' wf

/-- a freshly created (zero-filled) segment is an empty queue -/
theorem init_refines {M : Nat} (h1 : 2 ≤ M) (h2 : M < 2147483648) : WF M (init M) ∧ abs M (init M) = [] :=
  init_refines' h1 h2

/-- the space queries are the queue's -/
theorem used_is_length {M : Nat} {s : Shared} (wf : WF M s) : usedSpace M s = Queue.used (abs M s) :=
  used_is_length' wf
theorem free_is_capacity_minus_length {M : Nat} {s : Shared} (wf : WF M s) :
    freeSpace M s = Queue.free (M - 1) (abs M s) := by
  have := used_add_free wf; have := used_is_length wf; unfold Queue.free Queue.used at *; omega

/-! ## every operation sequence, through any handles that share the modulus -/

inductive Op where
  | write (xs : List UInt8) | read (len : Nat) | clear | used | free

inductive Out where
  | wrote (r : Int) | got (bytes : List UInt8) (r : Int) | done | num (n : Nat)
deriving DecidableEq

def step (M : Nat) (s : Shared) : Op → Option (Shared × Out)
  | .write xs => match write M s xs with | .ok s' r => some (s', .wrote r) | .fault => none
  | .read len => match read M s len with | .ok s' (o, r) => some (s', .got o r) | .fault => none
  | .clear => some (clear M s, .done)
  | .used => some (s, .num (usedSpace M s))
  | .free => some (s, .num (freeSpace M s))

def specStep (S : Nat) (q : Queue.Q) : Op → Queue.Q × Out
  | .write xs => let (q', r) := Queue.write S q xs; (q', .wrote r)
  | .read len => let (q', o, r) := Queue.read q len; (q', .got o r)
  | .clear => ([], .done)
  | .used => (q, .num (Queue.used q))
  | .free => (q, .num (Queue.free S q))

def run (M : Nat) (s : Shared) : List Op → Option (Shared × List Out)
  | [] => some (s, [])
  | op :: ops => do
      let (s', o) ← step M s op
      let (s'', os) ← run M s' ops
      pure (s'', o :: os)

def specRun (S : Nat) (q : Queue.Q) : List Op → Queue.Q × List Out
  | [] => (q, [])
  | op :: ops =>
      let (q', o) := specStep S q op
      let (q'', os) := specRun S q' ops
      (q'', o :: os)

/-- **Main theorem.** For every capacity and every sequence of write/read/clear/space queries with
    every length, the buffer never touches memory outside its data area (`run` is `some`) and
    answers exactly as the FIFO queue of capacity `M − 1`. -/
theorem run_refines {M : Nat} (ops : List Op) (s : Shared) (wf : WF M s) :
    ∃ s' outs, run M s ops = some (s', outs) ∧ WF M s' ∧
      specRun (M - 1) (abs M s) ops = (abs M s', outs) := by
  induction ops generalizing s with
  | nil => exact ⟨s, [], rfl, wf, rfl⟩
  | cons op ops ih =>
    cases op with
    | write xs =>
      obtain ⟨s1, r, h1, wf1, e1⟩ := write_refines wf xs
      obtain ⟨s', outs, h2, wf2, e2⟩ := ih s1 wf1
      refine ⟨s', .wrote r :: outs, by simp [run, step, h1, h2], wf2, ?_⟩
      simp only [specRun, specStep]
      rw [← e1] ; simp [e2]
    | read len =>
      obtain ⟨s1, o, r, h1, wf1, e1⟩ := read_refines wf len
      obtain ⟨s', outs, h2, wf2, e2⟩ := ih s1 wf1
      refine ⟨s', .got o r :: outs, by simp [run, step, h1, h2], wf2, ?_⟩
      simp only [specRun, specStep]
      rw [← e1] ; simp [e2]
    | clear =>
      obtain ⟨wf1, e1⟩ := clear_refines wf
      obtain ⟨s', outs, h2, wf2, e2⟩ := ih _ wf1
      refine ⟨s', .done :: outs, by simp [run, step, h2], wf2, ?_⟩
      simp only [specRun, specStep]
      rw [e1] at e2 ; simp [e2]
    | used =>
      obtain ⟨s', outs, h2, wf2, e2⟩ := ih s wf
      refine ⟨s', .num (usedSpace M s) :: outs, by simp [run, step, h2], wf2, ?_⟩
      simp [specRun, specStep, e2, used_is_length wf]
    | free =>
      obtain ⟨s', outs, h2, wf2, e2⟩ := ih s wf
      refine ⟨s', .num (freeSpace M s) :: outs, by simp [run, step, h2], wf2, ?_⟩
      simp [specRun, specStep, e2, free_is_capacity_minus_length wf]

/-! ## lengths far beyond the capacity

The driver answers `wz H LEN` (a write of `LEN` zero bytes, `LEN` up to 2^64 − 1) with `writeZeros`; it is the
same function as `write` on that input, for the model and for the reference queue alike, so `run_refines`
speaks about those calls too. -/
theorem setRange_length {d : List UInt8} {st : Nat} {xs d' : List UInt8} (h : setRange d st xs = some d') :
    d'.length = d.length := by
  unfold setRange at h
  split at h
  · cases h; simp; omega
  · cases h

/-- a write that passes the free-space test but is longer than data area + modulus runs out of the data area -/
theorem write_fault_of_too_long (M : Nat) (s : Shared) (xs : List UInt8) (h0 : xs.length ≠ 0)
    (hf : ¬ freeSpace M s < xs.length) (hl : s.data.length + M < xs.length) : write M s xs = .fault := by
  unfold write
  have h1 : ¬ (s.wr % M + xs.length ≤ M) := by omega
  simp only [h0, hf, h1, if_false]
  cases e1 : setRange s.data (s.wr % M) (List.take (M - s.wr % M) xs) with
  | none => rfl
  | some d1 =>
    have hlen := setRange_length e1
    have : setRange d1 0 (List.drop (M - s.wr % M) xs) = none := by
      unfold setRange
      have : ¬ (0 + (List.drop (M - s.wr % M) xs).length ≤ d1.length) := by
        simp only [List.length_drop]; omega
      simp; omega
    simp [this]

theorem writeZeros_eq_write (M : Nat) (s : Shared) (n : Nat) : writeZeros M s n = write M s (List.replicate n 0) := by
  unfold writeZeros
  by_cases h : n ≠ 0 ∧ freeSpace M s < n
  · unfold write; simp [h, List.length_replicate]
  · rw [if_neg h]
    by_cases hl : s.data.length + M < n
    · rw [if_pos hl]
      by_cases h0 : n = 0
      · omega
      · have hf : ¬ freeSpace M s < n := fun hh => h ⟨h0, hh⟩
        exact (write_fault_of_too_long M s (List.replicate n 0) (by simpa using h0) (by simpa using hf) (by simpa using hl)).symm
    · rw [if_neg hl]

theorem queue_writeZeros_eq_write (S : Nat) (q : Queue.Q) (n : Nat) :
    Queue.writeZeros S q n = Queue.write S q (List.replicate n 0) := by
  unfold Queue.writeZeros Queue.write
  by_cases h : n ≠ 0 ∧ ¬ n ≤ S - q.length
  · simp [h, List.length_replicate]
  · rw [if_neg h]

/-- a write longer than the capacity is refused whatever the state (so is every length ≥ 2^32) -/
theorem write_longer_than_capacity {M : Nat} {s : Shared} (wf : WF M s) (xs : List UInt8) (h : M - 1 < xs.length) :
    ∃ s', write M s xs = .ok s' 0 ∧ abs M s' = abs M s := by
  obtain ⟨s', r, e, _, q⟩ := write_refines wf xs
  have hl : ¬ xs.length ≤ M - 1 - (abs M s).length := by omega
  have h0 : xs.length ≠ 0 := by omega
  simp [Queue.write, hl, h0] at q
  exact ⟨s', by rw [e, ← q.2], q.1⟩

/-! ## the source text is the text the model was written from -/
theorem source_shape_as_modelled : Generated.shmBufferShapeAsModelled = true := by decide

/-! ## concurrent reads and writes are atomic with respect to each other

Every operation of `pshmbuffer.c` touches the shared segment only between `p_shm_lock` and
`p_shm_unlock` of the per-name lock, on every path (a fact the translator re-derives from the
current source by walking the statement tree of each function).  With the lock being one system-wide
mutex per name (C07 `lock_is_mutex`) concurrent operations are therefore serialised, and each one is
the sequential step proved above. -/
theorem ops_bracketed_by_lock : Generated.shmBufferOpsBracketed = true := by decide

/-! ## handles opened with a *different* size argument (finding F6)

The full-strength statement "every handle of a name sees the same queue" would need every handle
to use the same modulus.  `p_shm_buffer_new` derives the modulus from `p_shm_get_size`, which
`p_shm_new` clamps to the *requested* size when the existing segment is larger, so a second handle
opened with a smaller size argument uses a smaller modulus on the same header words.
The theorems above are therefore the `…_partial` form: they hold for all handles that share `M`.
The negation of the full statement, on a concrete witness: -/

/-- 20 bytes written through a handle of capacity 64 are read back *wrong* through a handle that was
    opened with size 16 (modulus 17): it wraps at 17 and returns bytes 0,1,2 in place of 17,18,19. -/
theorem handles_with_unequal_size_disagree :
    let xs : List UInt8 := (List.range 20).map (·.toUInt8)
    ∃ s1 s2 out r, write 65 (init 65) xs = .ok s1 20 ∧ read 17 s1 64 = .ok s2 (out, r) ∧ out ≠ xs := by
  intro xs
  refine ⟨{ rd := 0, wr := 20, data := xs ++ List.replicate 45 0 },
    { rd := 3, wr := 20, data := xs ++ List.replicate 45 0 },
    xs.take 17 ++ xs.take 3, 20, by decide, by decide, by decide⟩

/-! ## non-vacuity -/
example : WF 5 { rd := 3, wr := 1, data := [1, 2, 3, 4, 5] } := by
  refine ⟨by decide, by decide, by decide, by decide, by decide⟩

/-! ## the lock calls of every operation fail (scripted): error exits of read / write / clear / space queries -/

/-- without a scripted failure the locked operations are the plain ones -/
theorem locked_ops_without_failure (M : Nat) (s : Shared) (xs : List UInt8) (len : Nat) :
    writeL {} M s xs = write M s xs ∧ readL {} M s len = read M s len ∧ clearL {} M s = clear M s ∧
    freeSpaceL {} M s = freeSpace M s ∧ usedSpaceL {} M s = usedSpace M s := by
  refine ⟨?_, ?_, rfl, rfl, rfl⟩
  · simp only [writeL, write]
    split
    · rfl
    · simp only [Bool.false_eq_true, if_false]
      split <;> simp_all
  · simp only [readL, read]
    split
    · rfl
    · simp only [Bool.false_eq_true, if_false]
      split <;> simp_all

/-- **a failing `p_shm_lock`**: the call reports −1 and the buffer (positions and bytes) is exactly as before -/
theorem lock_failure_no_effect (u : Bool) (M : Nat) (s : Shared) (xs : List UInt8) (len n : Nat) :
    writeL ⟨true, u⟩ M s xs = .ok s (-1) ∧ writeZerosL ⟨true, u⟩ M s n = .ok s (-1) ∧ readL ⟨true, u⟩ M s len = .ok s ([], -1) ∧
    clearL ⟨true, u⟩ M s = s ∧ freeSpaceL ⟨true, u⟩ M s = -1 ∧ usedSpaceL ⟨true, u⟩ M s = -1 := by
  refine ⟨?_, ?_, ?_, rfl, rfl, rfl⟩ <;> simp only [writeL, writeZerosL, readL] <;> split <;> rfl

/-- **a failing `p_shm_unlock`**: −1 is reported although the operation took effect — the queue is the one after the
    write / read (all-or-nothing append, oldest bytes removed), still well-formed -/
theorem unlock_failure_keeps_effect {M : Nat} {s : Shared} (wf : WF M s) (xs : List UInt8) (len : Nat)
    (hx : xs.length ≠ 0) (hl : len ≠ 0) :
    (∃ s', writeL ⟨false, true⟩ M s xs = .ok s' (-1) ∧ WF M s' ∧ abs M s' = (Queue.write (M - 1) (abs M s) xs).1) ∧
    (∃ s', readL ⟨false, true⟩ M s len = .ok s' ([], -1) ∧ WF M s' ∧ abs M s' = (Queue.read (abs M s) len).1) := by
  obtain ⟨s1, r1, h1, w1, e1⟩ := write_refines wf xs
  obtain ⟨s2, o2, r2, h2, w2, e2⟩ := read_refines wf len
  refine ⟨⟨s1, ?_, w1, ?_⟩, ⟨s2, ?_, w2, ?_⟩⟩
  · simp [writeL, hx, h1]
  · rw [← e1]
  · simp [readL, hl, h2]
  · rw [← e2]

example : writeL ⟨true, false⟩ 4 (init 4) [1, 2] = .ok (init 4) (-1) := by decide
example : writeL ⟨false, true⟩ 4 (init 4) [1, 2] = .ok ⟨0, 2, [1, 2, 0, 0]⟩ (-1) := by decide
end PV.SB

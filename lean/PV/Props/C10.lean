import PV.Lemmas.SocketCalls
import PV.Lemmas.SocketGetters
import PV.Lemmas.SocketFd
import PV.Lemmas.SocketAdopt
/-!
# C10 — Socket modes and lifecycle

Theorems about the model `PV.Model.Socket` of `psocket.c`; every statement is for all scripts of
native results (and, where sequences are involved, all call sequences).

§1 closed_is_dead / close_idempotent · §3 timeout_semantics / nonblocking_never_waits · §2 getters_reflect ·
§4 cloexec · §5 fd_closed_once · §6 failure paths reached by the directed cases of the coverage audit
(`refused_address_connect / _send_to / _bind`: an address object `p_socket_address_to_native` rejects;
`new_from_fd_null_iff_error`, `new_from_fd_keeps_descriptor`: the error returns of adoption; `adopted_identity`:
family / protocol / connected of an adopted socket, incl. families the library does not know) ·
§7 `p_socket_shutdown` reads every pair of C ints as truth values (`shutdown_source_as_modelled`, `shutdown_args_full`,
`shutdown_reads_truth_values`; the `== TRUE` reading of the code before its repair: `shutdown_args_historical_witness`).
-/
set_option linter.unusedSimpArgs false
namespace PV.Socket
open PV.Generated.Socket

/-! ## 1. `closed_is_dead`, `close_idempotent` -/

def demoSockC10 : Sock := { family := AF_INET, protocol := 6, type := 1, fd := 5, listen_backlog := 5, timeout := 50, blocking := true, connected := true }

def notAvailable : PErr := { code := P_ERROR_IO_NOT_AVAILABLE, native := 0, msg := "Socket is already closed" }

/-- no argument is rejected before `pp_socket_check` is reached -/
def Call.argsOk : Call → Bool
  | .bind a _ => a ≠ .null
  | .connect a => a ≠ .null
  | .receive bn _ => !bn
  | .receiveFrom _ bn n => !bn && n ≠ 0
  | .send b n => b.isSome && n ≠ 0
  | .sendTo a b _ => a ≠ .null && b.isSome
  | _ => true

/-- the value each guarded function returns on failure -/
def Call.failRet : Call → Int
  | .receive .. | .receiveFrom .. | .send .. | .sendTo .. => -1
  | _ => 0

/-- After `close`, every call guarded by `pp_socket_check` fails with NOT_AVAILABLE (INVALID_ARGUMENT
    if an argument is NULL — that test comes first), touches **no** descriptor (`tr = []`), consumes
    nothing and leaves the object as it was. -/
theorem closed_is_dead (s : Sock) (hc : s.closed = true) (c : Call) (hg : c.guarded = true) (script : Script) (e : Int) :
    call s c script e =
      .ok { sock := s, out := failOut c.failRet (if c.argsOk then notAvailable else invalidArg),
            tr := [], rest := script, errno := e } := by
  cases c <;> simp [Call.guarded] at hg
  case bind a r => cases a <;> simp [call, callM, bind, check, hc, Call.argsOk, Call.failRet, notAvailable, M.bind, M.pure, pure]
  case connect a => cases a <;> simp [call, callM, connect, check, hc, Call.argsOk, Call.failRet, notAvailable, M.bind, M.pure, pure]
  case listen => simp [call, callM, listen, check, hc, Call.argsOk, Call.failRet, notAvailable, M.bind, M.pure, pure]
  case accept => simp [call, callM, accept, check, hc, Call.argsOk, Call.failRet, notAvailable, M.bind, M.pure, pure]
  case receive bn n => cases bn <;> simp [call, callM, receive, check, hc, Call.argsOk, Call.failRet, notAvailable, M.bind, M.pure, pure]
  case receiveFrom w bn n =>
    cases bn <;> by_cases h0 : n = 0 <;>
      simp [call, callM, receiveFrom, check, hc, Call.argsOk, Call.failRet, notAvailable, M.bind, M.pure, pure, h0]
  case send b n =>
    cases b <;> by_cases h0 : n = 0 <;>
      simp [call, callM, send, check, hc, Call.argsOk, Call.failRet, notAvailable, M.bind, M.pure, pure, h0]
  case sendTo a b n =>
    cases a <;> cases b <;> simp [call, callM, sendTo, check, hc, Call.argsOk, Call.failRet, notAvailable, M.bind, M.pure, pure]
  case shutdown r w => simp [call, callM, shutdown, check, hc, Call.argsOk, Call.failRet, notAvailable, M.bind, M.pure, pure]
  case setBufferSize d n => simp [call, callM, setBufferSize, check, hc, Call.argsOk, Call.failRet, notAvailable, M.bind, M.pure, pure]
  case ioWait cnd => simp [call, callM, ioWait, check, hc, Call.argsOk, Call.failRet, notAvailable, M.bind, M.pure, pure]

/-- a successful `close` issues exactly `close (fd)`, and leaves `closed`, `fd = −1`, not connected, not listening -/
theorem close_effect (s : Sock) (hc : s.closed = false) (script : Script) (e : Int) (r : CallResult)
    (h : call s .close script e = .ok r) :
    r.tr.map (·.call) = [.close s.fd] ∧
    (r.out.ret = 1 →
      r.sock = { s with connected := false, closed := true, listening := false, fd := -1 } ∧ r.out.err = none) ∧
    (r.out.ret ≠ 1 → r.sock = s ∧ r.out.err.isSome) := by
  cases script with
  | nil => simp [call, callM, close, hc, sys, M.bind] at h
  | cons a t =>
    by_cases hs : a.sys = Sys.close
    · by_cases hr : a.ret = .ok 0
      · simp [call, callM, close, hc, sys, M.bind, hs, Issued.sys, hr, M.pure, pure] at h
        subst h; simp [b2i]
      · simp [call, callM, close, hc, sys, M.bind, hs, Issued.sys, hr, M.pure, pure, errnoErr] at h
        subst h; simp [b2i]
    · simp [call, callM, close, hc, sys, M.bind, hs, Issued.sys] at h

/-- `close` on a closed socket: TRUE, no native call -/
theorem close_idempotent (s : Sock) (hc : s.closed = true) (script : Script) (e : Int) :
    call s .close script e = .ok { sock := s, out := { ret := 1 }, tr := [], rest := script, errno := e } := by
  simp [call, callM, close, hc, M.bind, M.pure, pure, b2i]

/-- After `close` the object holds `fd = −1` (`close_effect`), so whatever a later call does — the guarded
    ones issue nothing, the unguarded query calls (`check_connect_result`, `set_keepalive`,
    `get_local/remote_address`) do issue their native call — no native call carries a descriptor other than
    the object's `fd` field, i.e. −1: the old number is never used again. -/
theorem dead_socket_descriptor (s : Sock) (hc : s.closed = true) (c : Call) (script : Script) (e : Int) (r : CallResult)
    (h : call s c script e = .ok r) : ∀ ev ∈ r.tr, ev.call.fd? = none ∨ ev.call.fd? = some s.fd := by
  by_cases hg : c.guarded = true
  · rw [closed_is_dead s hc c hg] at h
    injection h with h; subst h; simp
  · cases c <;> simp [Call.guarded] at hg
    case close => rw [close_idempotent s hc] at h; injection h with h; subst h; simp
    case setBlocking b => simp [call, callM, M.pure, pure] at h; subst h; simp
    case setBacklog b => simp [call, callM, M.pure, pure] at h; subst h; simp
    case setTimeout b => simp [call, callM, M.pure, pure] at h; subst h; simp
    case checkConnectResult =>
      cases script with
      | nil => simp [call, callM, checkConnectResult, sys, M.bind] at h
      | cons a t =>
        by_cases hs : a.sys = Sys.getsockopt
        · by_cases hf : a.failed = true <;> by_cases hv : a.val = 0 <;>
            (simp [call, callM, checkConnectResult, sys, M.bind, hs, Issued.sys, hf, hv, M.pure, pure, errnoErr] at h
             subst h; simp [Issued.fd?])
        · simp [call, callM, checkConnectResult, sys, M.bind, hs, Issued.sys] at h
    case setKeepalive b =>
      by_cases hk : s.keepalive = b
      · simp [call, callM, setKeepalive, hk, M.bind, M.pure, pure] at h; subst h; simp
      · cases script with
        | nil => simp [call, callM, setKeepalive, hk, sys, M.bind] at h
        | cons a t =>
          by_cases hs : a.sys = Sys.setsockopt
          · by_cases hf : a.failed = true <;>
              (simp [call, callM, setKeepalive, hk, sys, M.bind, hs, Issued.sys, hf, M.pure, pure] at h
               subst h; simp [Issued.fd?])
          · simp [call, callM, setKeepalive, hk, sys, M.bind, hs, Issued.sys] at h
    case getLocal =>
      cases script with
      | nil => simp [call, callM, getAddress, sys, M.bind] at h
      | cons a t =>
        by_cases hs : a.sys = Sys.getsockname
        · by_cases hf : a.failed = true
          · simp [call, callM, getAddress, sys, M.bind, hs, Issued.sys, hf, M.pure, pure, errnoErr] at h
            subst h; simp [Issued.fd?]
          · cases t with
            | nil => simp [call, callM, getAddress, sys, M.bind, hs, Issued.sys, hf, M.pure, pure] at h
            | cons a2 t2 =>
              by_cases hs2 : a2.sys = Sys.fromNative
              · by_cases h0 : a2.ret = .ok 0 <;>
                  (simp [call, callM, getAddress, sys, M.bind, hs, hs2, Issued.sys, hf, h0, M.pure, pure] at h
                   subst h; simp [Issued.fd?])
              · simp [call, callM, getAddress, sys, M.bind, hs, hs2, Issued.sys, hf, M.pure, pure] at h
        · simp [call, callM, getAddress, sys, M.bind, hs, Issued.sys] at h
    case getRemote =>
      cases script with
      | nil => simp [call, callM, getAddress, sys, M.bind] at h
      | cons a t =>
        by_cases hs : a.sys = Sys.getpeername
        · by_cases hf : a.failed = true
          · simp [call, callM, getAddress, sys, M.bind, hs, Issued.sys, hf, M.pure, pure, errnoErr] at h
            subst h; simp [Issued.fd?]
          · cases t with
            | nil => simp [call, callM, getAddress, sys, M.bind, hs, Issued.sys, hf, M.pure, pure] at h
            | cons a2 t2 =>
              by_cases hs2 : a2.sys = Sys.fromNative
              · by_cases h0 : a2.ret = .ok 0 <;>
                  (simp [call, callM, getAddress, sys, M.bind, hs, hs2, Issued.sys, hf, h0, M.pure, pure] at h
                   subst h; simp [Issued.fd?])
              · simp [call, callM, getAddress, sys, M.bind, hs, hs2, Issued.sys, hf, M.pure, pure] at h
        · simp [call, callM, getAddress, sys, M.bind, hs, Issued.sys] at h

example : call { demoSockC10 with } .close [{ sys := .close, ret := .ok 0 }] =
    .ok { sock := { demoSockC10 with connected := false, closed := true, listening := false, fd := -1 },
          out := { ret := 1 }, tr := [⟨.close 5, { sys := .close, ret := .ok 0 }⟩], rest := [], errno := 0 } := by
  rfl

/-! ## 3. `timeout_semantics`, `nonblocking_never_waits` -/

/-- **timeout_semantics (1)**: whatever the call, the mode and the script, every wait the library makes is
    `poll ({fd}, 1, T)` with the socket's own descriptor and `T = timeout` if `timeout > 0`, else `−1`
    (blocks until the condition holds).  In particular a shortened, zero or negative-but-not-−1 timeout is
    never handed to `poll`, and an interrupted `poll` is re-issued with the **full** `T`. -/
theorem timeout_semantics (s : Sock) (c : Call) (script : Script) (e : Int) (r : CallResult)
    (h : call s c script e = .ok r) : ∀ ev ∈ r.tr, pollArgsOk s.fd s.timeout ev :=
  TrAll.of_call s c (callM_polls s c) script e r h

/-- the error `p_socket_io_condition_wait` makes when its `poll` returned 0 -/
def isWaitTimeout (pe : PErr) : Prop := pe.msg = msgTimedOut

/-- **timeout_semantics (2)**: the time-out error of a data loop is produced only by a `poll` that returned 0
    — the last native call made — and by (1) that `poll` was given the full `T`; so, the kernel keeping its
    `poll` contract, not before `T` elapsed.  (Loop level: covers receive, receive_from, send, send_to, accept.) -/
theorem timed_out_only_from_poll_zero (c : LoopCfg) (hmsg : c.failMsg ≠ msgTimedOut) (ph : Phase) (script : Script) (e : Int)
    (pe : PErr) (h : (ioLoop c ph script e).fin = .fail pe) (ht : isWaitTimeout pe) :
    ∃ r, (ioLoop c ph script e).evs.getLast? = some ⟨c.poll, r⟩ ∧ r.ret = .ok 0 :=
  ioLoop_timeout_from_poll0 c ph script e pe h ht hmsg

/-- the same at API level for `p_socket_receive` … -/
theorem timed_out_only_from_poll_zero_receive (s : Sock) (hc : s.closed = false) (n : Nat) (script : Script) (e : Int)
    (r : CallResult) (pe : PErr) (h : call s (.receive false n) script e = .ok r) (he : r.out.err = some pe)
    (ht : isWaitTimeout pe) :
    ∃ x, r.tr.getLast? = some ⟨.poll s.fd pollEventsIn (pollTimeout s) 1, x⟩ ∧ x.ret = .ok 0 := by
  rw [receive_eq s hc] at h
  obtain ⟨hf, hr⟩ := ofLoop_ok_err _ _ _ _ _ pe (by intro x; rfl) h he
  obtain ⟨x, h1, h2⟩ := ioLoop_timeout_from_poll0 _ _ _ _ pe hf ht (by simp [recvCfg, loopCfg, msgTimedOut])
  exact ⟨x, by subst hr; simpa [recvCfg, loopCfg, pollCall, pollEvents, P_SOCKET_IO_CONDITION_POLLIN] using h1, h2⟩

/-- … `p_socket_send` … -/
theorem timed_out_only_from_poll_zero_send (s : Sock) (hc : s.closed = false) (b : Bytes) (n : Nat) (hn : n ≠ 0)
    (script : Script) (e : Int) (r : CallResult) (pe : PErr)
    (h : call s (.send (some b) n) script e = .ok r) (he : r.out.err = some pe) (ht : isWaitTimeout pe) :
    ∃ x, r.tr.getLast? = some ⟨.poll s.fd pollEventsOut (pollTimeout s) 1, x⟩ ∧ x.ret = .ok 0 := by
  rw [send_eq s hc b n hn] at h
  obtain ⟨hf, hr⟩ := ofLoop_ok_err _ _ _ _ _ pe (by intro x; rfl) h he
  obtain ⟨x, h1, h2⟩ := ioLoop_timeout_from_poll0 _ _ _ _ pe hf ht (by simp [sendCfg, loopCfg, msgTimedOut])
  exact ⟨x, by subst hr; simpa [sendCfg, loopCfg, pollCall, pollEvents, P_SOCKET_IO_CONDITION_POLLIN, P_SOCKET_IO_CONDITION_POLLOUT] using h1, h2⟩

/-- … and `p_socket_io_condition_wait` itself (used by blocking connect). -/
theorem timed_out_only_from_poll_zero_wait (s : Sock) (hc : s.closed = false) (cond : Int)
    (script : Script) (e : Int) (r : CallResult) (pe : PErr)
    (h : call s (.ioWait cond) script e = .ok r) (he : r.out.err = some pe) (ht : isWaitTimeout pe) :
    ∃ x, r.tr.getLast? = some ⟨.poll s.fd (pollEvents cond) (pollTimeout s) 1, x⟩ ∧ x.ret = .ok 0 := by
  rw [ioWait_eq s hc] at h
  obtain ⟨hf, hr⟩ := ofLoop_ok_err _ _ _ _ _ pe (by intro x; rfl) h he
  obtain ⟨x, h1, h2⟩ := pollLoop_timeout_from_poll0 _ _ _ pe hf ht
  exact ⟨x, by subst hr; simpa [pollCall] using h1, h2⟩

/-- an error code TIMED_OUT that is *not* the wait's own comes from the kernel reporting ETIMEDOUT
    (a real reason), never from the library's timer: the wait's error is the only one built without a native failure -/
theorem other_timed_out_is_ETIMEDOUT (e : Int) (h : ioFromSystem e = P_ERROR_IO_TIMED_OUT) : e = ETIMEDOUT := by
  unfold ioFromSystem at h
  have key : ∀ (l : List (Int × Int)), (∀ p ∈ l, p.2 = P_ERROR_IO_TIMED_OUT → p.1 = ETIMEDOUT) →
      (l.lookup e).getD errnoDefault = P_ERROR_IO_TIMED_OUT → e = ETIMEDOUT := by
    intro l
    induction l with
    | nil => intro _ h; simp only [List.lookup, Option.getD_none] at h; exact absurd h (by decide)
    | cons p t ih =>
      intro hall h
      obtain ⟨a, b⟩ := p
      by_cases hea : e = a
      · subst hea
        simp only [List.lookup, beq_self_eq_true, Option.getD_some] at h
        exact hall (e, b) (by simp) h
      · have : (e == a) = false := by simpa using hea
        simp only [List.lookup, this] at h
        exact ih (fun p hp => hall p (by simp [hp])) h
  exact key errnoTable (by decide) h

/-- non-vacuity: T = 50 ms, `poll` is interrupted, re-issued with 50 again, then times out -/
example : (call demoSockC10 (.receive false 4) [{ sys := .poll, ret := .err EINTR }, { sys := .poll, ret := .ok 0 }]).toOption.map
    (fun r => (r.out.err.map (·.code), r.tr.map (·.call))) =
    some (some P_ERROR_IO_TIMED_OUT, [.poll 5 POLLIN 50 1, .poll 5 POLLIN 50 1]) := by decide

/-- with no timeout the wait is unbounded -/
example : (call { demoSockC10 with timeout := 0 } (.receive false 4) [{ sys := .poll, ret := .ok 1 }, { sys := .recv, ret := .ok 0 }]).toOption.map
    (fun r => r.tr.map (·.call)) = some [.poll 5 POLLIN (-1) 1, .recv 5 0 4 0] := by decide

/-! ### non-blocking -/

/-- the calls that may block -/
def Call.mayWait : Call → Bool
  | .send .. | .sendTo .. | .receive .. | .receiveFrom .. | .accept | .connect .. => true
  | _ => false

/-- **nonblocking_never_waits (1)**: with `blocking = FALSE`, send / send_to / receive / receive_from / accept /
    connect issue no `poll` at all, on any script. -/
theorem nonblocking_never_waits (s : Sock) (hb : s.blocking = false) (c : Call) (hw : c.mayWait = true)
    (script : Script) (e : Int) (r : CallResult) (h : call s c script e = .ok r) :
    ∀ ev ∈ r.tr, ev.call.sys ≠ .poll := by
  apply TrAll.of_call (P := noPoll) s c _ script e r h
  cases c <;> simp [Call.mayWait] at hw <;> simp only [callM]
  case receive bn n =>
    unfold receive; tr_all (simp [noPoll, Issued.sys])
    exact nb_loop s hb _ _ _ (by simp [recvCall, Issued.sys])
  case receiveFrom w bn n =>
    unfold receiveFrom; tr_all (simp [noPoll, Issued.sys])
    exact nb_loop s hb _ _ _ (by simp [recvfromCall, Issued.sys])
  case send b n =>
    unfold send; tr_all (simp [noPoll, Issued.sys])
    exact nb_loop s hb _ _ _ (by simp [sendCall, Issued.sys])
  case sendTo a b n =>
    unfold sendTo; tr_all (simp [noPoll, Issued.sys])
    exact nb_loop s hb _ _ _ (by simp [sendtoCall, Issued.sys])
  case accept =>
    unfold accept; tr_all (simp [noPoll, Issued.sys])
    all_goals first
      | exact nb_loop s hb _ _ _ (by simp [Issued.sys])
      | exact cloexecBlock_np _ _ _ _ _ _
      | exact newFromFd_np _
  case connect a =>
    unfold connect
    simp only [hb]
    tr_all (simp [noPoll, Issued.sys])
    all_goals first
      | (apply TrAll.liftLoop
         intro sc e ev hev
         unfold noPoll; rw [connLoop_calls _ _ _ ev hev]; simp [Issued.sys])
      | (exfalso; simp_all)

/-- **nonblocking_never_waits (2)**: a would-block answer of the data call is handed back at once as
    WOULD_BLOCK, after exactly that one native call (loop level: all five data calls) -/
theorem nonblocking_wouldblock_at_once (c : LoopCfg) (hb : c.blocking = false) (r : Res) (rest : Script) (e x : Int)
    (hs : r.sys = c.call.sys) (hr : r.ret = .err x) (hw : ioFromSystem x = P_ERROR_IO_WOULD_BLOCK) :
    ioLoop c (startPhase c) (r :: rest) e =
      ⟨.fail { code := P_ERROR_IO_WOULD_BLOCK, native := x, msg := c.failMsg }, [⟨c.call, r⟩], rest, x⟩ := by
  have : startPhase c = .data := by simp [startPhase, hb]
  rw [this]
  exact ioLoop_nonblocking_wouldblock c hb r rest e x hs hr hw

/-- … for `p_socket_receive` at API level: `recv → EAGAIN` gives `−1`, WOULD_BLOCK / EAGAIN, one native call -/
theorem nonblocking_receive_wouldblock (s : Sock) (hb : s.blocking = false) (hc : s.closed = false) (n : Nat) (rest : Script) (e : Int) :
    call s (.receive false n) ({ sys := .recv, ret := .err EAGAIN } :: rest) e =
      .ok { sock := s,
            out := failOut (-1) { code := P_ERROR_IO_WOULD_BLOCK, native := EAGAIN, msg := "Failed to call recv() on socket" },
            tr := [⟨.recv s.fd 0 (toSocklen n) recvFlags, { sys := .recv, ret := .err EAGAIN }⟩], rest := rest, errno := EAGAIN } := by
  rw [receive_eq s hc]
  rw [nonblocking_wouldblock_at_once (recvCfg s n) (by simp [recvCfg, loopCfg, hb]) _ rest e EAGAIN
    (by simp [recvCfg, loopCfg, recvCall, Issued.sys]) rfl io_EAGAIN]
  simp [ofLoop, recvCfg, loopCfg, recvCall]

/-! ## 2. `getters_reflect`

Spec: the record `PV.Socket.Spec.Flags` (timeout, backlog, blocking, keepalive, connected, closed,
listening) updated by `Spec.step` — timeout clamped at 0; backlog frozen while listening; keepalive
only on a successful `setsockopt`; connected set by a successful connect / check_connect_result (and
by accept / new_from_fd when `getpeername` succeeds), cleared by close, by shutdown of both
directions and by a SO_ERROR ≠ 0 ("Error in socket layer"); closed / listening by close / listen. -/

/-- one call, every script: the object's mode/lifecycle fields after the call are the spec record's -/
theorem getters_reflect_step (s : Sock) (c : Call) (script : Script) (e : Int) (r : CallResult)
    (h : call s c script e = .ok r) :
    Spec.flagsOf r.sock = Spec.step (Spec.flagsOf s) c r.out r.tr :=
  call_refines_spec s c script e r h

/-- no call changes family / type / protocol; `fd` changes only in `close` (to −1), so `closed → fd = −1` is invariant -/
theorem getters_identity_fields (s : Sock) (c : Call) (script : Script) (e : Int) (r : CallResult)
    (h : call s c script e = .ok r) :
    (r.sock.family = s.family ∧ r.sock.type = s.type ∧ r.sock.protocol = s.protocol) ∧
    (r.sock.fd = s.fd ∨ (c = .close ∧ r.sock.fd = -1)) ∧
    ((s.closed = true → s.fd = -1) → (r.sock.closed = true → r.sock.fd = -1)) :=
  ⟨call_identity s c script e r h, call_fd s c script e r h, call_closed_fd s c script e r h⟩

/-- a socket made by `p_socket_new` starts blocking, timeout 0, backlog 5, not connected / closed / listening / keepalive -/
theorem getters_of_new (f t p : Int) (script : Script) (e : Int) (s : Sock) (err : Option PErr) (st : St) (evs : List Ev)
    (h : runM (new f t p) script e = .ok ((some s, err), st, evs)) :
    Spec.flagsOf s = Spec.fresh ∧ s.family = f ∧ s.type = t ∧ s.protocol = p :=
  new_spec f t p script e s err st evs h

/-- an accepted socket: as `Spec.adopted` (connected iff `getpeername` worked, keepalive as the kernel says), protocol of the listener -/
theorem getters_of_accepted (s : Sock) (script : Script) (e : Int) (r : CallResult) (ns : Sock)
    (h : call s .accept script e = .ok r) (hs : r.out.sock = some ns) :
    Spec.flagsOf ns = Spec.adopted r.tr ∧ ns.protocol = s.protocol :=
  accept_spec s script e r ns h hs

/-- **getters_reflect**: after ANY sequence of API calls (new / new_from_fd / any call on any slot incl. accept /
    free) with ANY native answers, starting from nothing, the fields behind the connected / closed / keepalive /
    blocking / timeout / backlog getters of every socket held equal the spec record (`run`, `sstep` in
    `PV.Lemmas.SocketGetters`) -/
theorem getters_reflect (steps : List (WCall × Script)) (e : Int) (slot : Nat) :
    (World.get (run [] [] e steps).1 slot).map Spec.flagsOf = SWorld.get (run [] [] e steps).2 slot :=
  getters_reflect_run steps e slot

/-- non-vacuity: adopt fd 5 (connected, keepalive), timeout −3 → 0, backlog 9, listen, backlog 11 (frozen),
    shutdown both, close twice, call on an empty slot — model and spec worlds agree, and are not trivial -/
example : (run [] [] 0 demoSteps).1.map (fun p => (p.1, Spec.flagsOf p.2)) = (run [] [] 0 demoSteps).2
    ∧ (run [] [] 0 demoSteps).2.length = 1 := by decide

/-! ## 4. `cloexec`   (kernel side: `cloexecAfter`, contract `fcntlFdOk` — trusted)

`p_socket_new` asks for SOCK_CLOEXEC and then runs `F_GETFD` / `F_SETFD (flags | FD_CLOEXEC)`;
`p_socket_accept` uses plain `accept()` (not `accept4`) followed by the same block, so between the two
native calls the fresh descriptor is inheritable (a window for `fork+exec` in another thread — not
visible to a single-threaded model, recorded as a remark).  "By the time the call returns": -/

/-- every socket object returned by `p_socket_new` holds a descriptor with close-on-exec set, provided the
    `fcntl (F_GETFD / F_SETFD)` calls on it do not fail (they cannot on a valid descriptor) -/
theorem cloexec (f t p : Int) (script : Script) (e : Int) (s : Sock) (err : Option PErr) (st : St) (evs : List Ev)
    (h : runM (new f t p) script e = .ok ((some s, err), st, evs)) (hk : fcntlFdOk s.fd evs = true) :
    cloexecAfter s.fd evs false = true :=
  cloexec_new f t p script e s err st evs h hk

/-- … and every socket object returned by `p_socket_accept` (on every path that keeps the descriptor), same proviso -/
theorem cloexec_accepted (s : Sock) (script : Script) (e : Int) (r : CallResult) (ns : Sock)
    (h : call s .accept script e = .ok r) (hs : r.out.sock = some ns) (hk : fcntlFdOk ns.fd r.tr = true) :
    cloexecAfter ns.fd r.tr false = true :=
  cloexec_accept s script e r ns h hs hk

/-- the code as it is when the proviso fails: `F_SETFD` fails after `accept` → only a warning, the object for
    descriptor 7 is returned and the flag is NOT set -/
example :
    (call { demoSockC10 with connected := false, listening := true } .accept
      ([{ sys := .poll, ret := .ok 1 }, { sys := .accept, ret := .ok 7 }, { sys := .fcntl, ret := .ok 0 },
        { sys := .fcntl, ret := .err EBADF }] ++ newFromFdAnswers)).toOption.map
      (fun r => (r.out.sock.map (·.fd), r.out.sock.map (fun ns => cloexecAfter ns.fd r.tr false))) =
    some (some 7, some false) := by decide

/-! ## 5. `fd_closed_once`   (kernel side: `fdTable` — trusted)

Sequences: `Reach w tr` = the world `w` and the whole trace `tr` reached from nothing by any API calls
(`p_socket_new`, every call on a socket incl. accept / close, `p_socket_free`, init_once) on any scripts;
a slot is only filled when empty (`WCall.Disciplined`; overwriting a live pointer is the caller's leak);
`p_socket_new_from_fd` on a caller-supplied descriptor (ownership transfer) is outside this theorem.
Kernel contract: `FreshFrom [] tr` (socket()/accept() never return a number that is open) and
`ClosesSucceed tr` (close() returns 0). -/

/-- the descriptor table of the whole trace is defined — **no number is passed to `close()` twice or without
    having been obtained** — and the open numbers are exactly, without repetition, the `fd` fields of the live
    objects not marked closed (incl. the failed-`new_from_fd` path inside accept and the failed
    `set_fd_blocking` path inside new, where the library closes the fresh descriptor itself) -/
theorem fd_closed_once_invariant {w : World} {tr : List Ev} (h : Reach w tr) (hfr : FreshFrom [] tr) (hcl : ClosesSucceed tr) :
    ∃ T, fdTable tr [] = some T ∧ FdInv w T :=
  fd_closed_once h hfr hcl

/-- hence, once every object is freed or closed, every descriptor obtained was closed **exactly once** -/
theorem fd_closed_once_all {w : World} {tr : List Ev} (h : Reach w tr) (hfr : FreshFrom [] tr)
    (hcl : ClosesSucceed tr) (hall : w.openFds = []) : fdTable tr [] = some [] :=
  fd_closed_once_balanced h hfr hcl hall

/-- the failing-`close()` case, as the code behaves: `p_socket_close` reports the error and keeps `fd`, a later
    `p_socket_free` passes the same number to `close()` again (on Linux the first call had released it: stray close) -/
theorem failing_close_is_closed_twice :
    ((wstep [(0, demoOpenSock)] (.on 0 .close) [{ sys := .close, ret := .err EINTR }]).toOption.bind fun r1 =>
      (wstep r1.world (.free 0) [{ sys := .close, ret := .ok 0 }]).toOption.map fun r2 =>
        ((r1.tr ++ r2.tr).map (fun ev => (ev.call, ev.res.ret)), fdTable (r1.tr ++ r2.tr) [5])) =
    some ([(.close 5, .err EINTR), (.close 5, .ok 0)], none) := by decide

/-- non-vacuity (conclusion exercised on a concrete run): new → 7, accept → 8, both freed: closes are exactly 7 and 8 -/
example :
    (wrun [] [] [.new 0 AF_INET P_SOCKET_TYPE_STREAM P_SOCKET_PROTOCOL_TCP, .on 0 .accept 1, .free 0, .free 1]
      ([{ sys := .socket, ret := .ok 7 }, { sys := .fcntl, ret := .ok 1 }, { sys := .fcntl, ret := .ok 2 }, { sys := .fcntl, ret := .ok 0 },
        { sys := .poll, ret := .ok 1 }, { sys := .accept, ret := .ok 8 }, { sys := .fcntl, ret := .ok 0 }, { sys := .fcntl, ret := .ok 0 }]
       ++ newFromFdAnswers ++ [{ sys := .close, ret := .ok 0 }, { sys := .close, ret := .ok 0 }]) 0).toOption.map
      (fun x => (x.2.map (·.call) |>.filter (fun c => c.sys == .close), fdTable x.2 [])) =
    some ([.close 7, .close 8], some []) := by decide

/-! ## 6. failure paths: a refused address object, a failing adoption

(the branches of `p_socket_bind / connect / send_to` after `p_socket_address_to_native` answered FALSE, and the
error returns of `p_socket_new_from_fd`; the differential runs reach them through `bad:<hex>` addresses and the
directed adoption cases of `tools/props/sockets.py`) -/

def convFailed : PErr := { code := P_ERROR_IO_FAILED, native := 0, msg := "Failed to convert socket address to native structure" }

/-- `p_socket_connect` with an address object that `p_socket_address_to_native` rejects: FALSE / FAILED, **no** native
    call (in particular no `connect` with an uninitialised `sockaddr_storage`), nothing consumed, and the object — its
    `connected` flag included — is exactly as before; in every mode, whatever the script -/
theorem refused_address_connect (s : Sock) (hc : s.closed = false) (script : Script) (e : Int) :
    call s (.connect .bad) script e = .ok { sock := s, out := failOut 0 convFailed, tr := [], rest := script, errno := e } := by
  simp [call, callM, connect, check, hc, convFailed, M.bind, M.pure, pure]

/-- … `p_socket_send_to`: −1 / FAILED, no wait, no `sendto` -/
theorem refused_address_send_to (s : Sock) (hc : s.closed = false) (b : Bytes) (n : Nat) (script : Script) (e : Int) :
    call s (.sendTo .bad (some b) n) script e =
      .ok { sock := s, out := failOut (-1) convFailed, tr := [], rest := script, errno := e } := by
  simp [call, callM, sendTo, check, hc, convFailed, M.bind, M.pure, pure]

/-- … `p_socket_bind`: the two best-effort `setsockopt` calls are made (their results are ignored), then FALSE / FAILED
    and **no** `bind`; the object is unchanged -/
theorem refused_address_bind (s : Sock) (hc : s.closed = false) (reuse : Bool) (script : Script) (e : Int) (r : CallResult)
    (h : call s (.bind .bad reuse) script e = .ok r) :
    r.sock = s ∧ r.out = failOut 0 convFailed ∧
    r.tr.map (·.call) = [.setsockopt s.fd SOL_SOCKET SO_REUSEADDR (b2i reuse) 4,
                         .setsockopt s.fd SOL_SOCKET SO_REUSEPORT (b2i (reuse && s.type = P_SOCKET_TYPE_DATAGRAM)) 4] := by
  cases script with
  | nil => simp [call, callM, bind, check, hc, sys, M.bind] at h
  | cons a t =>
    by_cases hs : a.sys = Sys.setsockopt
    · cases t with
      | nil => simp [call, callM, bind, check, hc, sys, M.bind, hs, Issued.sys] at h
      | cons a2 t2 =>
        by_cases hs2 : a2.sys = Sys.setsockopt
        · simp [call, callM, bind, check, hc, sys, M.bind, hs, hs2, Issued.sys, M.pure, pure] at h
          subst h; simp [convFailed]
        · simp [call, callM, bind, check, hc, sys, M.bind, hs, hs2, Issued.sys] at h
    · simp [call, callM, bind, check, hc, sys, M.bind, hs, Issued.sys] at h

/-- non-vacuity: a connected blocking socket, refused address: nothing is issued although the script offers a `connect` answer -/
example : call demoSockC10 (.connect .bad) [{ sys := .connect, ret := .ok 0 }] =
    .ok { sock := demoSockC10, out := failOut 0 convFailed, tr := [], rest := [{ sys := .connect, ret := .ok 0 }], errno := 0 } :=
  refused_address_connect demoSockC10 rfl _ _
example : (call demoSockC10 (.bind .bad true) [{ sys := .setsockopt, ret := .ok 0 }, { sys := .setsockopt, ret := .err EBADF }, { sys := .bind, ret := .ok 0 }]).toOption.map
    (fun r => (r.out.ret, r.tr.length, r.rest.length)) = some (0, 2, 1) := by decide

/-- `p_socket_new_from_fd` returns NULL **exactly when** it reports an error, on every script: each error return of
    `pp_socket_set_details_from_fd` (SO_TYPE failing or answering with an option length other than `sizeof (int)`,
    `getsockname` failing, the SO_DOMAIN query failing) and of `pp_socket_set_fd_blocking` (F_SETFL failing) and the bad
    descriptor give NULL + error; the success return gives an object and no error -/
theorem new_from_fd_null_iff_error (fd : Int) (script : Script) (e : Int) (so : Option Sock) (err : Option PErr) (st : St) (evs : List Ev)
    (h : runM (newFromFd fd) script e = .ok ((so, err), st, evs)) : so = none ↔ err.isSome = true := by
  unfold runM at h
  cases hm : newFromFd fd { script := script, errno := e } with
  | stop w => simp [hm] at h
  | ok a st' evs' =>
    simp [hm] at h
    obtain ⟨rfl, _, _⟩ := h
    exact (newFromFd_null_iff_error fd).elim hm

/-- … and it never passes the caller's descriptor to `close()` (nor obtains one): a failed adoption leaves the descriptor
    with the caller; inside `p_socket_accept` the library closes it itself (`fd_closed_once`) -/
theorem new_from_fd_keeps_descriptor (fd : Int) (script : Script) (e : Int) (x : Option Sock × Option PErr) (st : St) (evs : List Ev)
    (h : runM (newFromFd fd) script e = .ok (x, st, evs)) : ∀ ev ∈ evs, ev.call.sys ≠ .close ∧ ev.call.sys ≠ .socket ∧ ev.call.sys ≠ .accept := by
  unfold runM at h
  cases hm : newFromFd fd { script := script, errno := e } with
  | stop w => simp [hm] at h
  | ok a st' evs' =>
    simp [hm] at h
    obtain ⟨_, _, rfl⟩ := h
    have key : TrAll (fun ev => ev.call.sys ≠ .close ∧ ev.call.sys ≠ .socket ∧ ev.call.sys ≠ .accept) (newFromFd fd) := by
      unfold newFromFd setDetailsFromFd setFdBlocking
      tr_all (simp [Issued.sys])
    exact key.elim hm

/-- the identity getters (family / type / protocol) and `connected` of an adopted socket, on every script: the family is
    INET, INET6 or UNKNOWN (whatever 16-bit value `getsockname` wrote); for a family the library does not know the
    protocol stays UNKNOWN-as-allocated (0), no `getpeername` result is taken and the object is **not connected**; for
    INET / INET6 the protocol is the one of the native type: STREAM → TCP, DATAGRAM → UDP, SEQPACKET → SCTP, other → 0 -/
theorem adopted_identity (fd : Int) (script : Script) (e : Int) (ns : Sock) (err : Option PErr) (st : St) (evs : List Ev)
    (h : runM (newFromFd fd) script e = .ok ((some ns, err), st, evs)) :
    (ns.family = AF_INET ∨ ns.family = AF_INET6 ∨ ns.family = 0) ∧
    (ns.family = 0 → ns.protocol = 0 ∧ ns.connected = false) ∧
    (ns.family ≠ 0 → ns.protocol = protoOfType ns.type 0) := by
  unfold runM at h
  cases hm : newFromFd fd { script := script, errno := e } with
  | stop w => simp [hm] at h
  | ok a st' evs' =>
    simp [hm] at h
    obtain ⟨ha, _, _⟩ := h
    have := (newFromFd_identity fd).elim hm ns (by rw [ha])
    exact this

/-- non-vacuity: a SEQPACKET socket of family INET is adopted with protocol SCTP; an AF_UNIX descriptor with family
    UNKNOWN, protocol 0, not connected, and no `getpeername` among its four native calls before the fcntl pair -/
example : (runM (newFromFd 6) [{ sys := .getsockopt, ret := .ok 0, val := SOCK_SEQPACKET }, { sys := .getsockname, ret := .ok 0, sa := [2, 0, 0, 80, 127, 0, 0, 1] },
      { sys := .getpeername, ret := .ok 0 }, { sys := .getsockopt, ret := .ok 0, val := 0 }, { sys := .fcntl, ret := .ok 2 }, { sys := .fcntl, ret := .ok 0 }] 0).toOption.map
    (fun x => x.1.1.map (fun ns => (ns.family, ns.type, ns.protocol, ns.connected))) = some (some (AF_INET, P_SOCKET_TYPE_SEQPACKET, P_SOCKET_PROTOCOL_SCTP, true)) := by decide
example : (runM (newFromFd 6) [{ sys := .getsockopt, ret := .ok 0, val := SOCK_STREAM }, { sys := .getsockname, ret := .ok 0, sa := [1, 0, 47, 120, 0] },
      { sys := .getsockopt, ret := .ok 0, val := 1 }, { sys := .fcntl, ret := .ok 2 }, { sys := .fcntl, ret := .ok 0 }] 0).toOption.map
    (fun x => (x.1.1.map (fun ns => (ns.family, ns.protocol, ns.connected, ns.keepalive)), x.2.2.map (·.call.sys))) =
    some (some (0, 0, false, true), [.getsockopt, .getsockname, .getsockopt, .fcntl, .fcntl]) := by decide

/-- non-vacuity: SO_TYPE answers with option length 2 → NULL, INVALID_ARGUMENT, one native call; and a full success -/
example : (runM (newFromFd 6) [{ sys := .getsockopt, ret := .ok 0, val := 1, len := 2 }] 0).toOption.map
    (fun x => (x.1.1.isSome, x.1.2.map (·.code), x.2.2.length)) = some (false, some P_ERROR_IO_INVALID_ARGUMENT, 1) := by decide
example : (runM (newFromFd 6) newFromFdAnswers 0).toOption.map (fun x => (x.1.1.map (·.fd), x.1.2.isSome)) = some (some 6, false) := by decide

/-! ## 7. `p_socket_shutdown`: how the two `pboolean` arguments are read

Full strength: for **every** pair of C ints the direction shut down and the `connected` getter afterwards are those of the
truth values (non-zero = TRUE).  The code normalises both arguments with `!!` before it compares them; the translator pins
that text (`shutdown_source_as_modelled`).

History (known_findings.json, `fixed`, C10): the function used to compare the arguments with `== TRUE` as they came, so
`p_socket_shutdown (s, 2, FALSE)` shut the WRITE direction down and `(2, 2)` shut only WRITE down and left `connected` set.
`shutdownArgsHistorical` below is that reading; `shutdown_args_historical_witness` records where it left the specification
(it is a statement about the old text, not about the code the other theorems are about). -/

/-- the source text of `p_socket_shutdown` is the one `shutdown` / `shutdownArgs` transliterate -/
theorem shutdown_source_as_modelled : shutdownAsModelled = true := by decide

/-- every pair of C ints is read as the caller means it -/
theorem shutdown_args_full (rd wr : Int) : shutdownArgs rd wr = Spec.shutdownArgs rd wr := rfl

/-- `p_socket_shutdown (s, rd, wr)` on an open socket, for every pair of C ints and every script:
    both zero → TRUE at once, no native call, object untouched; otherwise exactly one `shutdown (fd, how)` with
    `how` = SHUT_RDWR / SHUT_RD / SHUT_WR according to the **truth values** of `rd`, `wr`; when it succeeds the object is
    unchanged except that `connected` is cleared iff both are non-zero; when it fails the object is unchanged and an error is set -/
theorem shutdown_reads_truth_values (s : Sock) (hc : s.closed = false) (rd wr : Int) (script : Script) (e : Int) (r : CallResult)
    (h : call s (.shutdown (shutdownArgs rd wr).1 (shutdownArgs rd wr).2) script e = .ok r) :
    (rd = 0 ∧ wr = 0 → r.tr = [] ∧ r.out = { ret := 1 } ∧ r.sock = s) ∧
    (¬ (rd = 0 ∧ wr = 0) →
      r.tr.map (·.call) = [.shutdown s.fd (if rd ≠ 0 ∧ wr ≠ 0 then SHUT_RDWR else if rd ≠ 0 then SHUT_RD else SHUT_WR)] ∧
      (r.out.ret = 1 → r.sock = (if rd ≠ 0 ∧ wr ≠ 0 then { s with connected := false } else s) ∧ r.out.err = none) ∧
      (r.out.ret ≠ 1 → r.sock = s ∧ r.out.err.isSome)) := by
  by_cases h0 : rd = 0 <;> by_cases h1 : wr = 0
  all_goals simp only [shutdownArgs, h0, h1, ne_eq, not_true_eq_false, not_false_eq_true, decide_true, decide_false] at h
  · simp [call, callM, shutdown, check, hc, M.bind, M.pure, pure] at h
    subst h; simp [h0, h1, hc]
  all_goals
    cases script with
    | nil => simp [call, callM, shutdown, check, hc, sys, M.bind] at h
    | cons a t =>
      by_cases hs : a.sys = Sys.shutdown
      · by_cases hr : a.ret = .ok 0
        · simp [call, callM, shutdown, check, hc, sys, M.bind, hs, Issued.sys, hr, M.pure, pure] at h
          subst h; simp [h0, h1, hc]
        · simp [call, callM, shutdown, check, hc, sys, M.bind, hs, Issued.sys, hr, M.pure, pure, errnoErr, failOut] at h
          subst h; simp [h0, h1, hc]
      · simp [call, callM, shutdown, check, hc, sys, M.bind, hs, Issued.sys] at h

/-- non-vacuity: (2, 2) on a connected socket issues SHUT_RDWR and clears `connected`; (2, 0) issues SHUT_RD; (−1, 0) too;
    (0, 256) issues SHUT_WR; (0, 0) issues nothing -/
example :
    ([(2, 2), (2, 0), (-1, 0), (0, 256), (0, 0)].map fun (p : Int × Int) =>
      (call demoSockC10 (.shutdown (shutdownArgs p.1 p.2).1 (shutdownArgs p.1 p.2).2) [{ sys := .shutdown, ret := .ok 0 }]).toOption.map
        (fun r => (r.tr.map (·.call), r.sock.connected))) =
    [some ([.shutdown 5 SHUT_RDWR], false), some ([.shutdown 5 SHUT_RD], true), some ([.shutdown 5 SHUT_RD], true),
     some ([.shutdown 5 SHUT_WR], true), some ([], true)] := by decide

/-- the reading of the flags before the repair (`== FALSE` for the early return, `== TRUE` for the direction) -/
def shutdownArgsHistorical (rd wr : Int) : Bool × Bool :=
  if rd = 0 ∧ wr = 0 then (false, false)
  else if rd = 1 ∧ wr = 1 then (true, true)
  else if rd = 1 then (true, false)
  else (false, true)

/-- where the historical reading left the specification (it agreed with it on the values 0 / 1 only) -/
theorem shutdown_args_historical_witness :
    shutdownArgsHistorical 2 0 = (false, true) ∧ Spec.shutdownArgs 2 0 = (true, false) ∧
    shutdownArgsHistorical 2 2 = (false, true) ∧ Spec.shutdownArgs 2 2 = (true, true) ∧
    shutdownArgsHistorical 1 2 = (true, false) ∧ Spec.shutdownArgs 1 2 = (true, true) ∧
    (∀ rd wr : Int, (rd = 0 ∨ rd = 1) → (wr = 0 ∨ wr = 1) → shutdownArgsHistorical rd wr = Spec.shutdownArgs rd wr) := by
  refine ⟨by decide, by decide, by decide, by decide, by decide, by decide, ?_⟩
  intro rd wr hr hw
  rcases hr with rfl | rfl <;> rcases hw with rfl | rfl <;> decide

end PV.Socket

import PV.Lemmas.IPC
/-!
# C07 — shared memory (`pshm-posix.c` over the POSIX name space model `PV.IPC.OS`)

Model `PV.Model.IPC` with the facts extracted from the current source (`PV.Generated.IPC`; the
F5-repaired `pp_shm_create_handle`).  `G.call` = one thread runs its library call to the end
(sequentially); schedules (`List Action`) = arbitrary interleavings incl. SIGKILL.
Statements about `p_shm_new` are for calls that run sequentially (any schedule may run before and
between them); the lock (`lock_is_mutex`) is proved for every interleaving.  What is FALSE of the
code — concurrent first-time creation (F11) and the crash point that leaves a zero-size
segment — is kept as a comment with the negation proved on a concrete witness.
-/
namespace PV.IPC.C07
open PV.IPC PV.Generated.IPC

/-- the segment a live PShm handle is mapped to -/
def segOf (g : G) (h : Hid) : Option SegId :=
  match g.hs h with
  | some (p, .shm y) => (findMap (g.os.procs p) y.addr).map (·.seg)
  | _ => none

/-- the lock object a live PShm handle uses -/
def lockOf (g : G) (h : Hid) : Option ObjId :=
  match g.hs h with
  | some (_, .shm y) => some y.sem.obj
  | _ => none

/-! ## sizes -/

/-- a creator sees exactly the size it asked for, and the segment has exactly that many (zero) bytes -/
theorem creator_size_exact (g : G) (t : Tid) (h : Hid) (k : ShmKey) (size : Nat) (ro : Bool)
    (hi : Idle g t) (hh : g.hs h = none) (hk : g.os.shmNames k = none) (hs : size ≠ 0) :
    let g' := g.call t (.newShm h k size ro)
    ∃ y, g'.hs h = some (g.pidOf t, .shm y) ∧ y.size = size ∧ y.created = true ∧
      g'.os.shmNames k = some g.os.nextSeg ∧ (g'.os.segs g.os.nextSeg).bytes = List.replicate size 0 := by
  simp only
  cases hl : g.os.semNames (.lock k) with
  | none =>
    have c := call_newShm_fresh g t h k size ro hi hh hk hl hs
    refine ⟨creatorHandle g t k size ro, by rw [c.2.1]; simp, rfl, rfl, ?_, ?_⟩ <;>
      (rw [c.1]; simp [OS.semCreate, OS.afterShmNew, OS.shmCreate])
  | some ol =>
    have c := call_newShm_fresh_stale_lock g t h k size ro ol hi hh hk hl hs
    refine ⟨creatorHandle g t k size ro, by rw [c.2.1]; simp, rfl, rfl, ?_, ?_⟩ <;>
      (rw [c.1]; simp [OS.semCreate, OS.semRemove, OS.afterShmNew, OS.shmCreate])

/-- the size a handle opened on an existing segment of `L` bytes reports depends only on the size
    argument and `L` (`repSize`): … -/
theorem follower_size (g : G) (t : Tid) (h : Hid) (k : ShmKey) (req : Nat) (ro : Bool) (s : SegId)
    (hi : Idle g t) (hh : g.hs h = none) (hk : g.os.shmNames k = some s) (hL : (g.os.segs s).bytes.length ≠ 0) :
    ∃ y, (g.call t (.newShm h k req ro)).hs h = some (g.pidOf t, .shm y) ∧
      y.size = repSize req (g.os.segs s).bytes.length ∧ y.created = false ∧
      (g.call t (.newShm h k req ro)).os.shmNames = g.os.shmNames ∧ (g.call t (.newShm h k req ro)).os.segs = g.os.segs := by
  cases hl : g.os.semNames (.lock k) with
  | none =>
    have c := call_newShm_existing_no_lock g t h k req ro s hi hh hk hl hL
    exact ⟨followerHandle g t k req (g.os.segs s).bytes.length ro true g.os.nextObj, by rw [c.2.1]; simp, rfl, rfl,
      by rw [c.1]; rfl, by rw [c.1]; rfl⟩
  | some ol =>
    have c := call_newShm_existing g t h k req ro s ol hi hh hk hl hL
    exact ⟨followerHandle g t k req (g.os.segs s).bytes.length ro false ol, by rw [c.2.1]; simp, rfl, rfl,
      by rw [c.1]; rfl, by rw [c.1]; rfl⟩

/-- … so handles created with the same size argument report the same size: two followers of one
    segment, and a follower that passes the creator's own argument -/
theorem same_arg_same_size (req L : Nat) :
    (∀ L', L' = L → repSize req L' = repSize req L) ∧ (req ≠ 0 → repSize req req = req) ∧
    (req = 0 → repSize req L = L) ∧ (L ≤ req → repSize req L = L) ∧ (req ≠ 0 → req ≤ L → repSize req L = req) := by
  refine ⟨fun L' e => by rw [e], ?_, ?_, ?_, ?_⟩ <;> intros <;> simp only [repSize] <;> split <;> omega

/-! ## EINTR (cited by C19) -/

theorem shm_lock_eintr_transparent (g : G) (t : Tid) (h : Hid) (script : List Nat) :
    (g.call t (.lock h) script).Same (g.call t (.lock h) []) :=
  eintr_transparent g t (.lock h) script

theorem shm_open_eintr_transparent (g : G) (t : Tid) (h : Hid) (k : ShmKey) (size : Nat) (ro : Bool) (script : List Nat) :
    (g.call t (.newShm h k size ro) script).Same (g.call t (.newShm h k size ro) []) :=
  eintr_transparent g t (.newShm h k size ro) script

/-! ## the lock -/

/-- a sequential first creation leaves all lock handles of the name agreeing on one object of value 1 -/
theorem creation_establishes_lock (g : G) (t : Tid) (h : Hid) (k : ShmKey) (size : Nat) (ro : Bool)
    (hi : Idle g t) (hh : g.hs h = none) (hk : g.os.shmNames k = none) (hs : size ≠ 0)
    (hnone : ∀ h' p x, g.hs h' = some (p, x) → ¬ (match x with | .sem z => z.key = .lock k | .shm z => z.sem.key = .lock k)) :
    let g' := g.call t (.newShm h k size ro)
    Agree (.lock k) g.os.nextObj g' ∧ (g'.os.sems g.os.nextObj).value = 1 ∧ g.os.nextObj < g'.os.nextObj := by
  simp only
  have key : ∀ g' : G, g'.os.semNames (.lock k) = some g.os.nextObj →
      g'.hs = (fun h' => if h' = h then some (g.pidOf t, .shm (creatorHandle g t k size ro)) else g.hs h') →
      Agree (.lock k) g.os.nextObj g' := by
    intro g' hn hhs
    refine ⟨hn, ?_, ?_⟩
    · intro h' p x hx hkx
      rw [hhs] at hx
      dsimp only at hx
      split at hx
      · simp at hx
      · exact absurd hkx (hnone h' p (.sem x) hx)
    · intro h' p y hy hky
      rw [hhs] at hy
      dsimp only at hy
      split at hy
      · simp only [Option.some.injEq, Prod.mk.injEq, Handle.shm.injEq] at hy
        rw [← hy.2]; rfl
      · exact absurd hky (hnone h' p (.shm y) hy)
  cases hl : g.os.semNames (.lock k) with
  | none =>
    have c := call_newShm_fresh g t h k size ro hi hh hk hl hs
    refine ⟨key _ (by rw [c.1]; simp [OS.semCreate, OS.afterShmNew, OS.shmCreate]) c.2.1, by rw [c.1]; simp [OS.semCreate, OS.afterShmNew, OS.shmCreate],
      by rw [c.1]; simp [OS.semCreate, OS.afterShmNew, OS.shmCreate]⟩
  | some ol =>
    have c := call_newShm_fresh_stale_lock g t h k size ro ol hi hh hk hl hs
    refine ⟨key _ (by rw [c.1]; simp [OS.semCreate, OS.semRemove, OS.afterShmNew, OS.shmCreate]) c.2.1,
      by rw [c.1]; simp [OS.semCreate, OS.semRemove, OS.afterShmNew, OS.shmCreate],
      by rw [c.1]; simp [OS.semCreate, OS.semRemove, OS.afterShmNew, OS.shmCreate]⟩

/-- `p_shm_lock` / `p_shm_unlock` through ALL handles of a name — in any thread or process, for
    EVERY interleaving, handles opened at any time by calls that are OPEN-mode on the lock (i.e. by
    followers: `QuietRun (.lock k)`) — act on one object: every such handle's lock is `o`, and the
    number of successful locks minus unlocks since a state with value 1 never exceeds 1.
    (C06 `k_exclusion` with v = 1.)  The hypotheses hold after a sequential creation
    (`creation_establishes_lock`); with two concurrent first creators they do not (F11 b). -/
theorem lock_is_mutex (k : ShmKey) (o : ObjId) (g : G) (as : List Action)
    (hA : Agree (.lock k) o g) (hv : (g.os.sems o).value = 1) (ho : o < g.os.nextObj) (hq : QuietRun (.lock k) g as) :
    Agree (.lock k) o (execAll g as) ∧
    (∀ h p y, (execAll g as).hs h = some (p, .shm y) → y.key = k → y.sem.key = .lock k →
        acquireNext y.sem = .semWait o ∧ releaseNext y.sem = .semPost o) ∧
    acquired o (execAll g as).log - acquired o g.log ≤ 1 + (released o (execAll g as).log - released o g.log) := by
  have hA' := agree_execAll (.lock k) o as g hA hq
  refine ⟨hA', ?_, ?_⟩
  · intro h p y hy _ hky
    have := hA'.2.2 h p y hy hky
    simp [acquireNext, releaseNext, this]
  · have h := (counter_execAll o as g ho).1
    have mono : ∀ (as : List Action) (g : G), acquired o g.log ≤ acquired o (execAll g as).log ∧
        released o g.log ≤ released o (execAll g as).log := by
      intro as
      induction as with
      | nil => intro g; exact ⟨Nat.le_refl _, Nat.le_refl _⟩
      | cons a as ih =>
        intro g
        have h2 := ih (exec g a)
        have h1 : acquired o g.log ≤ acquired o (exec g a).log ∧ released o g.log ≤ released o (exec g a).log := by
          cases a with
          | start t op => simp only [exec]; rw [start_log]; exact ⟨Nat.le_refl _, Nat.le_refl _⟩
          | kill p => exact ⟨Nat.le_refl _, Nat.le_refl _⟩
          | step t i =>
            simp only [exec]
            cases hc : g.calls t with
            | none => rw [step_none g t i hc]; exact ⟨Nat.le_refl _, Nat.le_refl _⟩
            | some c =>
              rw [step_log g t i c hc]
              simp only [acquired, released, List.filter_cons]
              constructor <;> split <;> simp
        simp only [execAll, List.foldl_cons] at h2 ⊢
        exact ⟨Nat.le_trans h1.1 h2.1, Nat.le_trans h1.2 h2.2⟩
    have m := mono as g
    omega

/-! ## concurrent first-time creation (F11) -/

/-- schedule of two threads: `true` = thread 0 makes its next system call, `false` = thread 1 -/
def sched (s : List Bool) : List Action := s.map fun b => if b then Action.step 0 false else Action.step 1 false

/-- two processes have just called `p_shm_new (name 0, size)` for the first time -/
def raceStart (size : Nat) : G :=
  ((G.init id).start 0 (.newShm 0 0 size false)).start 1 (.newShm 1 0 size false)

/-- both calls returned a handle, and the two handles share segment and lock semaphore -/
def raceOK (g : G) : Bool :=
  (segOf g 0).isSome && (segOf g 1).isSome && decide (segOf g 0 = segOf g 1) &&
  (lockOf g 0).isSome && decide (lockOf g 0 = lockOf g 1) && decide (g.calls 0 = none) && decide (g.calls 1 = none)

/-
  FULL STATEMENT (false of the code — F11):

  theorem first_open_race (s : List Bool) (hs : s is an interleaving of all system calls of the two calls) :
      raceOK (execAll (raceStart size) (sched s)) = true

  Window (a): the follower's `fstat` runs between the creator's `shm_open` and `ftruncate`: it sees
  size 0, `mmap` of length 0 fails (EINVAL), `p_shm_new` returns NULL although the segment is being created.
  Window (b): the follower's exclusive `sem_open` of the lock runs before the creator's: the follower
  creates the lock, the creator's CREATE-mode `p_semaphore_new` unlinks it and makes a second one:
  both calls succeed and the two handles lock DIFFERENT semaphores.
-/

def tt : Bool := true
def ff : Bool := false

/-- window (a), exhibited: a b b b a a a a b b b b -/
def witnessA : List Bool := [tt, ff, ff, ff, tt, tt, tt, tt, ff, ff, ff, ff]
/-- window (b), exhibited: a a a a b b b b b b a a a -/
def witnessB : List Bool := [tt, tt, tt, tt, ff, ff, ff, ff, ff, ff, tt, tt, tt]

set_option maxRecDepth 100000 in
/-- negation of `first_open_race`, window (a): the follower fails with EINVAL while the creator succeeds -/
theorem first_open_race_false_a :
    (execAll (raceStart 4096) (sched witnessA)).ret 1 = some (.fail .EINVAL) ∧
    (segOf (execAll (raceStart 4096) (sched witnessA)) 0).isSome = true ∧
    raceOK (execAll (raceStart 4096) (sched witnessA)) = false := by decide

set_option maxRecDepth 100000 in
/-- negation of `first_open_race`, window (b): both succeed, same segment, two different lock semaphores
    (each of value 1: both processes can hold "the" lock at once) -/
theorem first_open_race_false_b :
    segOf (execAll (raceStart 4096) (sched witnessB)) 0 = segOf (execAll (raceStart 4096) (sched witnessB)) 1 ∧
    lockOf (execAll (raceStart 4096) (sched witnessB)) 0 = some 1 ∧
    lockOf (execAll (raceStart 4096) (sched witnessB)) 1 = some 0 ∧
    ((execAll (raceStart 4096) (sched witnessB)).os.sems 0).value = 1 ∧
    ((execAll (raceStart 4096) (sched witnessB)).os.sems 1).value = 1 ∧
    raceOK (execAll (raceStart 4096) (sched witnessB)) = false := by decide

/-- all schedules of length `len` in which thread 0 makes exactly `m` steps -/
def interleavings : Nat → Nat → List (List Bool)
  | 0, 0 => [[]]
  | 0, _ + 1 => []
  | len + 1, 0 => (interleavings len 0).map (false :: ·)
  | len + 1, m + 1 => ((interleavings len m).map (true :: ·)) ++ ((interleavings len (m + 1)).map (false :: ·))

theorem mem_interleavings (s : List Bool) : s ∈ interleavings s.length (s.count true) := by
  induction s with
  | nil => simp [interleavings]
  | cons b s ih =>
    cases b
    · simp only [List.length_cons, List.count_cons_of_ne (by decide : (false : Bool) ≠ true)]
      cases hm : s.count true with
      | zero =>
        rw [hm] at ih
        simp only [interleavings, List.mem_map]
        exact ⟨s, ih, rfl⟩
      | succ m =>
        rw [hm] at ih
        simp only [interleavings, List.mem_append, List.mem_map]
        right; exact ⟨s, ih, rfl⟩
    · simp only [List.length_cons, List.count_cons_self]
      simp only [interleavings, List.mem_append, List.mem_map]
      left; exact ⟨s, ih, rfl⟩

/-- position (0-based) of the `n`-th (1-based) occurrence of `b` -/
def posOf (b : Bool) : Nat → List Bool → Nat
  | _, [] => 0
  | n, x :: xs => if x = b then (if n ≤ 1 then 0 else 1 + posOf b (n - 1) xs) else 1 + posOf b n xs

/-- thread 0 is the creator (5 system calls), thread 1 the follower (7); the schedule avoids both
    windows: the creator's `ftruncate` (its 2nd call) precedes the follower's `fstat` (its 3rd), and
    the creator's `sem_open` (its 5th) precedes the follower's first `sem_open` (its 6th) -/
def avoidsWindows (s : List Bool) : Bool :=
  decide (s.head? = some true) && decide (posOf true 2 s < posOf false 3 s) && decide (posOf true 5 s < posOf false 6 s)

set_option maxRecDepth 1000000 in
theorem race_enumerated :
    ((interleavings 12 5).all fun s => !avoidsWindows s || raceOK (execAll (raceStart 4096) (sched s))) = true := by
  decide +kernel

/-- For EVERY interleaving of the creator's 5 and the follower's 7 system calls that avoids the two
    windows, both `p_shm_new` calls succeed and the handles share segment AND lock semaphore. -/
theorem first_open_race_partial (s : List Bool) (h5 : s.count true = 5) (h7 : s.count false = 7)
    (hw : avoidsWindows s = true) : raceOK (execAll (raceStart 4096) (sched s)) = true := by
  have hm := mem_interleavings s
  have hlen : s.length = 12 := by
    have := List.length_eq_countP_add_countP (l := s) (· == true)
    have e1 : List.countP (fun x => x == true) s = s.count true := by simp [List.count]
    have e2 : List.countP (fun a => decide ¬(a == true) = true) s = s.count false := by
      simp only [List.count]; congr 1; funext a; cases a <;> rfl
    omega
  rw [h5, hlen] at hm
  have := List.all_eq_true.mp race_enumerated s hm
  simpa [hw] using this

end PV.IPC.C07

import PV.Model.IPC
namespace PV.IPC
theorem c07_placeholder : (OS.init.shmNames 0) = none := rfl
end PV.IPC

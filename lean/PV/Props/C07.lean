import PV.Lemmas.IPCSemKey
/-!
# C07 — shared memory (`pshm-posix.c` over the POSIX name space model `PV.IPC.OS`)

Model `PV.Model.IPC` with the facts extracted from the current source (`PV.Generated.IPC`; the
F5-repaired `pp_shm_create_handle`).  `G.call` = one thread runs its library call to the end
(sequentially); schedules (`List Action`) = arbitrary interleavings incl. SIGKILL.
Statements about `p_shm_new` are for calls that run sequentially (any schedule may run before and
between them); the lock (`lock_is_mutex`) is proved for every interleaving.  What is FALSE of the
code — concurrent first-time creation (F11) and the crash point that leaves a zero-size
segment — is kept as a comment with the negation proved on a concrete witness.
Schedules also contain `Action.fail t e` (the next system call of `t` fails with `e`, scripted); the section "failing
system calls" states what the failure exits of `pp_shm_create_handle` / `pp_shm_clean_handle` leave behind.
-/
namespace PV.IPC.C07
open PV.IPC PV.Generated.IPC

/-- the segment a live PShm handle is mapped to -/
def segOf (g : G) (h : Hid) : Option SegId :=
  match g.hs h with
  | some (p, .shm y) => (findMap (g.os.procs p) y.addr).map (·.seg)
  | _ => none

/-- the lock object a live PShm handle uses -/
def lockOf (g : G) (h : Hid) : Option ObjId :=
  match g.hs h with
  | some (_, .shm y) => some y.sem.obj
  | _ => none

/-! ## sizes -/

/-- a creator sees exactly the size it asked for, and the segment has exactly that many (zero) bytes -/
theorem creator_size_exact (g : G) (t : Tid) (h : Hid) (k : ShmKey) (size : Nat) (ro : Bool)
    (hi : Idle g t) (hh : g.hs h = none) (hk : g.os.shmNames k = none) (hs : size ≠ 0) :
    let g' := g.call t (.newShm h k size ro)
    ∃ y, g'.hs h = some (g.pidOf t, .shm y) ∧ y.size = size ∧ y.created = true ∧
      g'.os.shmNames k = some g.os.nextSeg ∧ (g'.os.segs g.os.nextSeg).bytes = List.replicate size 0 := by
  simp only
  cases hl : g.os.semNames (.lock k) with
  | none =>
    have c := call_newShm_fresh g t h k size ro hi hh hk hl hs
    refine ⟨creatorHandle g t k size ro, by rw [c.2.1]; simp, rfl, rfl, ?_, ?_⟩ <;>
      (rw [c.1]; simp [OS.semCreate, OS.afterShmNew, OS.shmCreate])
  | some ol =>
    have c := call_newShm_fresh_stale_lock g t h k size ro ol hi hh hk hl hs
    refine ⟨creatorHandle g t k size ro, by rw [c.2.1]; simp, rfl, rfl, ?_, ?_⟩ <;>
      (rw [c.1]; simp [OS.semCreate, OS.semRemove, OS.afterShmNew, OS.shmCreate])

/-- the size a handle opened on an existing segment of `L` bytes reports depends only on the size
    argument and `L` (`repSize`): … -/
theorem follower_size (g : G) (t : Tid) (h : Hid) (k : ShmKey) (req : Nat) (ro : Bool) (s : SegId)
    (hi : Idle g t) (hh : g.hs h = none) (hk : g.os.shmNames k = some s) (hL : (g.os.segs s).bytes.length ≠ 0) :
    ∃ y, (g.call t (.newShm h k req ro)).hs h = some (g.pidOf t, .shm y) ∧
      y.size = repSize req (g.os.segs s).bytes.length ∧ y.created = false ∧
      (g.call t (.newShm h k req ro)).os.shmNames = g.os.shmNames ∧ (g.call t (.newShm h k req ro)).os.segs = g.os.segs := by
  cases hl : g.os.semNames (.lock k) with
  | none =>
    have c := call_newShm_existing_no_lock g t h k req ro s hi hh hk hl hL
    exact ⟨followerHandle g t k req (g.os.segs s).bytes.length ro true g.os.nextObj, by rw [c.2.1]; simp, rfl, rfl,
      by rw [c.1]; rfl, by rw [c.1]; rfl⟩
  | some ol =>
    have c := call_newShm_existing g t h k req ro s ol hi hh hk hl hL
    exact ⟨followerHandle g t k req (g.os.segs s).bytes.length ro false ol, by rw [c.2.1]; simp, rfl, rfl,
      by rw [c.1]; rfl, by rw [c.1]; rfl⟩

/-- … so handles created with the same size argument report the same size: two followers of one
    segment, and a follower that passes the creator's own argument -/
theorem same_arg_same_size (req L : Nat) :
    (∀ L', L' = L → repSize req L' = repSize req L) ∧ (req ≠ 0 → repSize req req = req) ∧
    (req = 0 → repSize req L = L) ∧ (L ≤ req → repSize req L = L) ∧ (req ≠ 0 → req ≤ L → repSize req L = req) := by
  refine ⟨fun L' e => by rw [e], ?_, ?_, ?_, ?_⟩ <;> intros <;> simp only [repSize] <;> split <;> omega

/-! ## one memory per name -/

/-- Handles of one name opened while the segment exists — by any two threads of the same or of
    different processes, with any size arguments, with or without a lock semaphore left — are mapped
    to the SAME object, the one the name is bound to; a byte stored through either at any offset
    below both reported sizes is the byte loaded through the other. -/
theorem same_name_same_bytes (g : G) (t1 t2 : Tid) (h1 h2 : Hid) (k : ShmKey) (r1 r2 : Nat) (s : SegId)
    (off : Nat) (b : UInt8)
    (hk : g.os.shmNames k = some s) (hL : (g.os.segs s).bytes.length ≠ 0)
    (i1 : Idle g t1) (i2 : Idle g t2) (hh1 : g.hs h1 = none) (hh2 : g.hs h2 = none) (hne : h1 ≠ h2) :
    let g2 := (g.call t1 (.newShm h1 k r1 false)).call t2 (.newShm h2 k r2 false)
    segOf g2 h1 = some s ∧ segOf g2 h2 = some s ∧
    (off < repSize r1 (g.os.segs s).bytes.length → off < repSize r2 (g.os.segs s).bytes.length →
      ((g2.call t1 (.wr h1 off b)).call t2 (.rd h2 off)).ret t2 = some (.byte b) ∧
      ((g2.call t2 (.wr h2 off b)).call t1 (.rd h1 off)).ret t1 = some (.byte b)) := by
  obtain ⟨y1, o1⟩ := follower_opened g t1 h1 k r1 false s i1 hh1 hk hL
  have hco := call_calls_other g t1 (.newShm h1 k r1 false) [] t2
  generalize hg1 : g.call t1 (.newShm h1 k r1 false) = g1 at o1 hco
  have i2' : Idle g1 t2 := by
    refine ⟨?_, ?_⟩
    · rw [o1.procs, o1.pidOf]; dsimp only; split
      · simpa [Proc.afterNew] using i1.alive
      · exact i2.alive
    · by_cases e : t2 = t1
      · subst e; exact o1.idle
      · rw [hco e]; exact i2.idle
  have hk1 : g1.os.shmNames k = some s := by rw [o1.shmNames]; exact hk
  have hL1 : (g1.os.segs s).bytes.length ≠ 0 := by rw [o1.segs]; exact hL
  have hh2' : g1.hs h2 = none := by rw [o1.hs]; simp [Ne.symm hne, hh2]
  obtain ⟨y2, o2⟩ := follower_opened g1 t2 h2 k r2 false s i2' hh2' hk1 hL1
  have hco2 := call_calls_other g1 t2 (.newShm h2 k r2 false) [] t1
  generalize hg2 : g1.call t2 (.newShm h2 k r2 false) = g2 at o2 hco2
  -- the two handles and their mappings in g2
  have e1 : g2.hs h1 = some (g2.pidOf t1, .shm y1) := by rw [o2.hs, o2.pidOf, o1.pidOf, o1.hs]; simp [hne]
  have e2 : g2.hs h2 = some (g2.pidOf t2, .shm y2) := by rw [o2.hs, o2.pidOf]; simp
  have segL : (g2.os.segs s).bytes.length = (g.os.segs s).bytes.length := by rw [o2.segs, o1.segs]
  have m2 : findMap (g2.os.procs (g2.pidOf t2)) y2.addr =
      some ⟨(g1.os.procs (g1.pidOf t2)).nextAddr, s, 0, repSize r2 (g1.os.segs s).bytes.length,
        hasFlag shmMmapProtRW PROT_WRITE, hasFlag shmMmapFlags MAP_SHARED⟩ := by
    rw [o2.procs, o2.pidOf, o2.addr]; simp [findMap_afterNew_head]
  have m1 : findMap (g2.os.procs (g2.pidOf t1)) y1.addr =
      some ⟨(g.os.procs (g.pidOf t1)).nextAddr, s, 0, repSize r1 (g.os.segs s).bytes.length,
        hasFlag shmMmapProtRW PROT_WRITE, hasFlag shmMmapFlags MAP_SHARED⟩ := by
    have hp1 : g1.os.procs (g.pidOf t1) = (g.os.procs (g.pidOf t1)).afterNew s (repSize r1 (g.os.segs s).bytes.length) false := by
      rw [o1.procs]; simp
    rw [o2.procs, o2.pidOf, o1.pidOf, o1.addr]
    dsimp only
    split
    · rename_i e
      rw [← e, hp1, findMap_afterNew_old _ _ _ _ _ (by simp only [Proc.afterNew]; omega), findMap_afterNew_head]; simp
    · rw [hp1, findMap_afterNew_head]; simp
  have i1g2 : Idle g2 t1 := by
    refine ⟨?_, ?_⟩
    · rw [o2.procs, o2.pidOf]; dsimp only; split
      · simpa [Proc.afterNew] using i2'.alive
      · rw [o1.procs, o1.pidOf]; dsimp only; simpa [Proc.afterNew] using i1.alive
    · by_cases e : t1 = t2
      · subst e; exact o2.idle
      · rw [hco2 e]; exact o1.idle
  have i2g2 : Idle g2 t2 := by
    refine ⟨?_, o2.idle⟩
    rw [o2.procs, o2.pidOf]; dsimp only; simpa [Proc.afterNew] using i2'.alive
  simp only
  refine ⟨?_, ?_, ?_⟩
  · simp [segOf, e1, m1]
  · simp [segOf, e2, m2]
  · intro l1 l2
    have L1 : (g1.os.segs s).bytes.length = (g.os.segs s).bytes.length := by rw [o1.segs]
    have lt1 : off < (g.os.segs s).bytes.length := Nat.lt_of_lt_of_le l1 (repSize_le _ _)
    constructor
    · exact write_then_read g2 t1 t2 h1 h2 y1 y2 _ _ off b i1g2 i2g2 e1 e2 m1 m2 rfl rfl rfl l1 (by rw [L1]; exact l2)
        rwWritable mapShared (by rw [segL]; exact lt1)
    · exact write_then_read g2 t2 t1 h2 h1 y2 y1 _ _ off b i2g2 i1g2 e2 e1 m2 m1 rfl rfl rfl (by rw [L1]; exact l2) l1
        rwWritable mapShared (by rw [segL]; exact lt1)

/-- "while the segment exists": for EVERY interleaving of anything (SIGKILLs included) that contains
    no `shm_unlink` of the name, the name stays bound to the same object — so every sequential
    `p_shm_new` in between maps that object (`same_name_same_bytes`); and `shm_unlink (k)` is issued only by
    `p_shm_free` of an owner's handle of `k` or on the failure path of a creator of `k` itself -/
theorem segment_exists_until_owner_free (k : ShmKey) (s : SegId) (g : G) (as : List Action)
    (hk : g.os.shmNames k = some s) (hq : NoShmUnlink k g as) :
    (execAll g as).os.shmNames k = some s ∧
    (∀ c : Call, c.next = .shmUnlink k →
      (∃ st : ShmFreeSt, c = .shmFree st ∧ st.pc = .unlink ∧ st.h.key = k) ∨
      (∃ hid e, ∃ st : ShmNewSt, c = .shmNew hid st ∧ st.pc = .fUnlink e ∧ st.key = k)) :=
  ⟨shm_binding_execAll k s as g hk hq, fun c h => shm_unlink_only_by c k h⟩

/-- every offset below `p_shm_get_size` is inside the handle's mapping and inside the object:
    a load there never faults — for the creator (zero bytes) and for any follower -/
theorem no_fault_below_size (g : G) (t : Tid) (h : Hid) (k : ShmKey) (req : Nat) (ro : Bool)
    (hi : Idle g t) (hh : g.hs h = none)
    (hok : (g.os.shmNames k = none ∧ req ≠ 0) ∨ (∃ s, g.os.shmNames k = some s ∧ (g.os.segs s).bytes.length ≠ 0)) :
    let g' := g.call t (.newShm h k req ro)
    ∃ y, g'.hs h = some (g.pidOf t, .shm y) ∧ ∀ off, off < y.size → ∃ b, g'.os.load (g.pidOf t) y.addr off = .val b := by
  simp only
  rcases hok with ⟨hk, hs⟩ | ⟨s, hk, hL⟩
  · have common : ∀ os' : OS, os'.procs (g.pidOf t) = (g.os.procs (g.pidOf t)).afterNew g.os.nextSeg req ro →
        (os'.segs g.os.nextSeg).bytes = List.replicate req 0 →
        ∀ off, off < (creatorHandle g t k req ro).size → ∃ b, os'.load (g.pidOf t) (creatorHandle g t k req ro).addr off = .val b := by
      intro os' hp hb off ho
      have hlen : off < (os'.segs g.os.nextSeg).bytes.length := by rw [hb]; simpa [creatorHandle] using ho
      exact ⟨_, load_afterNew os' (g.pidOf t) _ _ _ _ off hp (by simpa [creatorHandle] using ho) hlen⟩
    cases hl : g.os.semNames (.lock k) with
    | none =>
      have c := call_newShm_fresh g t h k req ro hi hh hk hl hs
      refine ⟨creatorHandle g t k req ro, by rw [c.2.1]; simp, ?_⟩
      rw [c.1]
      exact common _ (by simp [OS.semCreate, OS.afterShmNew, OS.shmCreate]) (by simp [OS.semCreate, OS.afterShmNew, OS.shmCreate])
    | some ol =>
      have c := call_newShm_fresh_stale_lock g t h k req ro ol hi hh hk hl hs
      refine ⟨creatorHandle g t k req ro, by rw [c.2.1]; simp, ?_⟩
      rw [c.1]
      exact common _ (by simp [OS.semCreate, OS.semRemove, OS.afterShmNew, OS.shmCreate])
        (by simp [OS.semCreate, OS.semRemove, OS.afterShmNew, OS.shmCreate])
  · obtain ⟨y, o⟩ := follower_opened g t h k req ro s hi hh hk hL
    refine ⟨y, by rw [o.hs]; simp, ?_⟩
    intro off ho
    rw [o.size] at ho
    have hlen : off < ((g.call t (.newShm h k req ro)).os.segs s).bytes.length := by
      rw [o.segs]; exact Nat.lt_of_lt_of_le ho (repSize_le _ _)
    rw [o.addr]
    exact ⟨_, load_afterNew _ (g.pidOf t) _ s _ ro off (by rw [o.procs]; simp) ho hlen⟩

/-! ## free -/

/-- `p_shm_free` removes exactly the mapping `p_shm_new` created — creator or follower, whatever the
    size argument: the process's mappings are those it had before.  (False of the code before fix F5:
    a follower with a smaller size argument mapped the whole segment and unmapped only the clamped size.)
    Address freshness is no longer a hypothesis: it is part of `MapInv`, an invariant of every reachable
    state (`mapInv_reachable`).  The version for any interleaving is `unmap_exact_interleaved`. -/
theorem unmap_exact (g : G) (t : Tid) (h : Hid) (k : ShmKey) (req : Nat)
    (hi : Idle g t) (hh : g.hs h = none)
    (hok : (g.os.shmNames k = none ∧ req ≠ 0 ∧ g.os.semNames (.lock k) = none) ∨
           (∃ s ol, g.os.shmNames k = some s ∧ (g.os.segs s).bytes.length ≠ 0 ∧ g.os.semNames (.lock k) = some ol))
    (hM : MapInv g) :
    let g2 := (g.call t (.newShm h k req false)).call t (.free h)
    (g2.os.procs (g.pidOf t)).maps = (g.os.procs (g.pidOf t)).maps ∧ g2.hs h = none := by
  have hfresh : ∀ m ∈ (g.os.procs (g.pidOf t)).maps, m.addr ≠ (g.os.procs (g.pidOf t)).nextAddr :=
    fun m hm => Nat.ne_of_lt (hM.claims.fresh _ m hm)
  simp only
  rcases hok with ⟨hk, hs, hl⟩ | ⟨s, ol, hk, hL, hl⟩
  · have c := call_newShm_fresh g t h k req false hi hh hk hl hs
    generalize hg1 : g.call t (.newShm h k req false) = g1 at c
    have i1 : Idle g1 t := ⟨by rw [c.1, c.2.2.2]; simpa [OS.semCreate, OS.afterShmNew, OS.shmCreate, Proc.afterNew] using hi.alive, c.2.2.1⟩
    have e : g1.hs h = some (g1.pidOf t, .shm (creatorHandle g t k req false)) := by rw [c.2.1, c.2.2.2]; simp
    have f := call_free_shm_owner g1 t h (creatorHandle g t k req false) g.os.nextSeg g.os.nextObj i1 e rfl rfl
      (by rw [c.1]; simp [OS.semCreate, OS.afterShmNew, OS.shmCreate, creatorHandle])
      (by rw [c.1]; simp [OS.semCreate, OS.afterShmNew, OS.shmCreate, creatorHandle])
      (by simpa [creatorHandle] using hs)
    refine ⟨?_, by rw [f.2.1]; simp⟩
    rw [f.1, c.2.2.2, c.1]
    simp only [OS.semRemove, OS.shmRemove, OS.afterMunmap, OS.semCreate, OS.afterShmNew, OS.shmCreate, if_true, creatorHandle]
    exact munmapF_afterNew _ _ _ _ hfresh
  · obtain ⟨y, o⟩ := follower_opened g t h k req false s hi hh hk hL
    have c := call_newShm_existing g t h k req false s ol hi hh hk hl hL
    generalize hg1 : g.call t (.newShm h k req false) = g1 at c o
    have i1 : Idle g1 t := ⟨by rw [c.1, c.2.2.2]; simpa [OS.afterShmNew, Proc.afterNew] using hi.alive, c.2.2.1⟩
    have e : g1.hs h = some (g1.pidOf t, .shm (followerHandle g t k req (g.os.segs s).bytes.length false false ol)) := by
      rw [c.2.1, c.2.2.2]; simp
    have f := call_free_shm_plain g1 t h _ i1 e rfl rfl (by simpa [followerHandle] using repSize_ne_zero req _ hL)
    refine ⟨?_, by rw [f.2.1]; simp⟩
    rw [f.1, c.2.2.2, c.1]
    simp only [OS.afterMunmap, OS.afterShmNew, if_true, followerHandle]
    exact munmapF_afterNew _ _ _ _ hfresh

/-- after an owner (take_ownership) frees its handle the segment name and its lock are gone and the
    owner's mapping is unmapped; the next `p_shm_new` yields a FRESH segment (id = the allocation
    counter, never used before), zero-filled, of exactly the newly requested size, with a fresh lock
    of value 1 — old contents, old size and old lock state play no role -/
theorem owner_free_removes (g : G) (t t' : Tid) (h h' : Hid) (y : PShm) (s : SegId) (ol : ObjId) (size' : Nat) (ro' : Bool)
    (hi : Idle g t) (hh : g.hs h = some (g.pidOf t, .shm y))
    (hk : g.os.shmNames y.key = some s) (hlk : y.sem.key = .lock y.key) (hl : g.os.semNames (.lock y.key) = some ol)
    (hs : y.size ≠ 0) (hs' : size' ≠ 0) :
    let g2 := (g.call t (.own h)).call t (.free h)
    g2.os.shmNames y.key = none ∧ g2.os.semNames (.lock y.key) = none ∧ g2.hs h = none ∧
    (g2.os.procs (g.pidOf t)).maps = (munmapF (g.os.procs (g.pidOf t)) y.addr y.size).maps ∧
    g2.calls t = none ∧ g2.pidOf = g.pidOf ∧ (∀ q, (g2.os.procs q).alive = (g.os.procs q).alive) ∧
    (∀ x, x ≠ h → g2.hs x = g.hs x) ∧
    (Idle g2 t' → g2.hs h' = none →
      ∃ y', (g2.call t' (.newShm h' y.key size' ro')).hs h' = some (g2.pidOf t', .shm y') ∧ y'.size = size' ∧
        y'.created = true ∧ (g2.call t' (.newShm h' y.key size' ro')).os.shmNames y.key = some g.os.nextSeg ∧
        ((g2.call t' (.newShm h' y.key size' ro')).os.segs g.os.nextSeg).bytes = List.replicate size' 0 ∧
        (g2.call t' (.newShm h' y.key size' ro')).os.semNames (.lock y.key) = some y'.sem.obj ∧
        ((g2.call t' (.newShm h' y.key size' ro')).os.sems y'.sem.obj).value = 1) := by
  have o := call_own_shm g t h y hi hh
  generalize hg1 : g.call t (.own h) = g1 at o
  have i1 : Idle g1 t := ⟨by rw [o.1, o.2.2.2]; exact hi.alive, o.2.2.1⟩
  have e1 : g1.hs h = some (g1.pidOf t, .shm { y with created := true, sem := { y.sem with created := true } }) := by
    rw [o.2.1, o.2.2.2]; simp
  have f := call_free_shm_owner g1 t h _ s ol i1 e1 rfl rfl (by rw [o.1]; exact hk) (by rw [o.1]; simpa [hlk] using hl) hs
  generalize hg2 : g1.call t (.free h) = g2 at f
  have n2 : g2.os.shmNames y.key = none := by rw [f.1]; simp [OS.semRemove, OS.shmRemove]
  have l2 : g2.os.semNames (.lock y.key) = none := by rw [f.1]; simp [OS.semRemove, hlk]
  have ns : g2.os.nextSeg = g.os.nextSeg := by rw [f.1, o.1]; rfl
  simp only
  refine ⟨n2, l2, by rw [f.2.1]; simp, ?_, f.2.2.1, by rw [f.2.2.2, o.2.2.2], ?_, ?_, ?_⟩
  · rw [f.1, o.2.2.2, o.1]; simp [OS.semRemove, OS.shmRemove, OS.afterMunmap]
  · intro q
    rw [f.1, o.2.2.2, o.1]
    simp only [OS.semRemove, OS.shmRemove, OS.afterMunmap]
    split
    · rename_i e; rw [e]; simp [munmapF]
    · rfl
  · intro x hx
    rw [f.2.1, o.2.1]; simp [hx]
  · intro i2 hh2
    have c := call_newShm_fresh g2 t' h' y.key size' ro' i2 hh2 n2 l2 hs'
    refine ⟨creatorHandle g2 t' y.key size' ro', by rw [c.2.1]; simp, rfl, rfl, ?_, ?_, ?_, ?_⟩ <;>
      (rw [c.1]; simp [OS.semCreate, OS.afterShmNew, OS.shmCreate, creatorHandle, ns])

/-! ## crash recovery -/

/-- the documented recovery: `p_shm_new`, take ownership, `p_shm_free`, `p_shm_new` again -/
def recoverShm (g : G) (t : Tid) (h1 h2 : Hid) (k : ShmKey) (sz sz' : Nat) : G :=
  (((g.call t (.newShm h1 k sz false)).call t (.own h1)).call t (.free h1)).call t (.newShm h2 k sz' false)

/-- the state after thread `tc` has made `j` system calls of the library call `op` and its process is SIGKILLed -/
def crashAt (g : G) (tc : Tid) (op : Op) (j : Nat) : G :=
  ((List.replicate j (Action.step tc false)).foldl exec (g.start tc op)).kill (g.pidOf tc)

/-
  FULL STATEMENT (false of the code):

  theorem crash_recoverable_shm (g) (t h1 h2 k sz sz') (Idle g t) … :
      the recovery sequence from EVERY state g ends with a fresh segment of size sz' and a fresh lock of value 1

  It fails exactly for the states in which the name is bound to a segment of size 0 — what a creator
  killed between `shm_open (O_CREAT|O_EXCL)` and `ftruncate` leaves behind (crash point 1 of `p_shm_new`):
  `p_shm_new` then fails in `mmap` (EINVAL) for every size argument, so the recovery cannot start and the
  name stays (`crash_recoverable_shm_false`).  The `_partial` theorem excludes exactly those states (`hz`).
-/

/-- From every state in which the name is not bound to a zero-size segment — in particular after a
    SIGKILL of any process between any two system calls of `p_shm_new` (other than crash point 1 of a
    creator), `p_shm_free`, lock or unlock, with the lock held or not, lock semaphore present or not —
    the documented sequence ends with the name bound to a fresh zero-filled segment of the newly
    requested size and a fresh lock of value 1. -/
theorem crash_recoverable_shm_partial (g : G) (t : Tid) (h1 h2 : Hid) (k : ShmKey) (sz sz' : Nat)
    (hi : Idle g t) (hh1 : g.hs h1 = none) (hh2 : g.hs h2 = none) (hne : h1 ≠ h2) (hs : sz ≠ 0) (hs' : sz' ≠ 0)
    (hz : ∀ s, g.os.shmNames k = some s → (g.os.segs s).bytes.length ≠ 0) :
    let g4 := recoverShm g t h1 h2 k sz sz'
    ∃ y' snew, g4.hs h2 = some (g.pidOf t, .shm y') ∧ y'.size = sz' ∧ y'.created = true ∧
      g4.os.shmNames k = some snew ∧ (g4.os.segs snew).bytes = List.replicate sz' 0 ∧
      g4.os.semNames (.lock k) = some y'.sem.obj ∧ (g4.os.sems y'.sem.obj).value = 1 := by
  -- step 1: whatever is left of the name, `p_shm_new` succeeds and afterwards segment and lock names are bound
  have s1 : ∃ y s1 ol1, (g.call t (.newShm h1 k sz false)).hs = (fun h' => if h' = h1 then some (g.pidOf t, .shm y) else g.hs h') ∧
      (g.call t (.newShm h1 k sz false)).os.shmNames k = some s1 ∧
      (g.call t (.newShm h1 k sz false)).os.semNames (.lock k) = some ol1 ∧ y.key = k ∧ y.sem.key = .lock k ∧ y.size ≠ 0 ∧
      (g.call t (.newShm h1 k sz false)).calls t = none ∧ (g.call t (.newShm h1 k sz false)).pidOf = g.pidOf ∧
      ((g.call t (.newShm h1 k sz false)).os.procs (g.pidOf t)).alive = true := by
    cases hk : g.os.shmNames k with
    | none =>
      cases hl : g.os.semNames (.lock k) with
      | none =>
        have c := call_newShm_fresh g t h1 k sz false hi hh1 hk hl hs
        exact ⟨_, g.os.nextSeg, g.os.nextObj, c.2.1, by rw [c.1]; simp [OS.semCreate, OS.afterShmNew, OS.shmCreate],
          by rw [c.1]; simp [OS.semCreate, OS.afterShmNew, OS.shmCreate], rfl, rfl, hs, c.2.2.1, c.2.2.2,
          by rw [c.1]; simpa [OS.semCreate, OS.afterShmNew, OS.shmCreate, Proc.afterNew] using hi.alive⟩
      | some ol =>
        have c := call_newShm_fresh_stale_lock g t h1 k sz false ol hi hh1 hk hl hs
        exact ⟨_, g.os.nextSeg, g.os.nextObj, c.2.1, by rw [c.1]; simp [OS.semCreate, OS.semRemove, OS.afterShmNew, OS.shmCreate],
          by rw [c.1]; simp [OS.semCreate, OS.semRemove, OS.afterShmNew, OS.shmCreate], rfl, rfl, hs, c.2.2.1, c.2.2.2,
          by rw [c.1]; simpa [OS.semCreate, OS.semRemove, OS.afterShmNew, OS.shmCreate, Proc.afterNew] using hi.alive⟩
    | some s =>
      obtain ⟨y, o⟩ := follower_opened g t h1 k sz false s hi hh1 hk (hz s hk)
      exact ⟨y, s, y.sem.obj, o.hs, by rw [o.shmNames]; exact hk, o.lock, o.key, o.lockKey,
        by rw [o.size]; exact repSize_ne_zero _ _ (hz s hk), o.idle, o.pidOf,
        by rw [o.procs]; simpa [Proc.afterNew] using hi.alive⟩
  obtain ⟨y, sg, ol1, hs1, n1, l1, yk, ylk, ysz, c1, p1, a1⟩ := s1
  generalize hg1 : g.call t (.newShm h1 k sz false) = g1 at hs1 n1 l1 c1 p1 a1
  have i1 : Idle g1 t := ⟨by rw [p1]; exact a1, c1⟩
  have e1 : g1.hs h1 = some (g1.pidOf t, .shm y) := by rw [hs1, p1]; simp
  -- steps 2–4
  have r := owner_free_removes g1 t t h1 h2 y sg ol1 sz' false i1 e1 (by rw [yk]; exact n1) (by rw [ylk, yk])
    (by rw [yk]; exact l1) ysz hs'
  simp only at r
  obtain ⟨_, _, _, _, c3, p3, al3, hs3, fin⟩ := r
  have i3 : Idle ((g1.call t (.own h1)).call t (.free h1)) t := ⟨by rw [p3, al3]; exact i1.alive, c3⟩
  have hh3 : ((g1.call t (.own h1)).call t (.free h1)).hs h2 = none := by
    rw [hs3 h2 (Ne.symm hne), hs1]; simp [Ne.symm hne, hh2]
  obtain ⟨y', f1, f2, f3, f4, f5, f6, f7⟩ := fin i3 hh3
  simp only [recoverShm, hg1]
  rw [yk] at f1 f4 f5 f6 f7
  exact ⟨y', g1.os.nextSeg, by rw [f1, p3, p1], f2, f3, f4, f5, f6, f7⟩

/-- the same with the crash point spelled out: after ANY schedule `as` from any state, thread `tc`
    starts ANY library call `op` (p_shm_new, p_shm_free, lock, unlock, …), makes ANY number `j` of its
    system calls, and its process is SIGKILLed; unless that leaves a zero-size segment (`hz`), a live
    process recovers the name with the documented sequence -/
theorem crash_recoverable_shm_at (g0 : G) (as : List Action) (tc : Tid) (op : Op) (j : Nat)
    (t : Tid) (h1 h2 : Hid) (k : ShmKey) (sz sz' : Nat) :
    let gc := crashAt (execAll g0 as) tc op j
    Idle gc t → gc.hs h1 = none → gc.hs h2 = none → h1 ≠ h2 → sz ≠ 0 → sz' ≠ 0 →
    (∀ s, gc.os.shmNames k = some s → (gc.os.segs s).bytes.length ≠ 0) →
    ∃ y' snew, (recoverShm gc t h1 h2 k sz sz').hs h2 = some (gc.pidOf t, .shm y') ∧ y'.size = sz' ∧
      (recoverShm gc t h1 h2 k sz sz').os.shmNames k = some snew ∧
      ((recoverShm gc t h1 h2 k sz sz').os.segs snew).bytes = List.replicate sz' 0 ∧
      (recoverShm gc t h1 h2 k sz sz').os.semNames (.lock k) = some y'.sem.obj ∧
      ((recoverShm gc t h1 h2 k sz sz').os.sems y'.sem.obj).value = 1 := by
  intro gc hi hh1 hh2 hne hs hs' hz
  obtain ⟨y', snew, a, b, _, c, d, e, f⟩ := crash_recoverable_shm_partial gc t h1 h2 k sz sz' hi hh1 hh2 hne hs hs' hz
  exact ⟨y', snew, a, b, c, d, e, f⟩

/-- the crash point that cannot be recovered, on the model: process 0 is killed after the first
    system call of `p_shm_new` (name bound, size 0); `p_shm_new` by process 1 then fails with EINVAL
    for any size argument and the name is still there afterwards -/
def zeroSegState : G := crashAt (G.init id) 0 (.newShm 0 0 4096 false) 1

set_option maxRecDepth 100000 in
theorem crash_recoverable_shm_false :
    (zeroSegState.os.shmNames 0).isSome = true ∧
    ((zeroSegState.call 1 (.newShm 1 0 4096 false)).ret 1 = some (.fail .EINVAL)) ∧
    ((zeroSegState.call 1 (.newShm 1 0 0 false)).ret 1 = some (.fail .EINVAL)) ∧
    ((zeroSegState.call 1 (.newShm 1 0 4096 false)).hs 1 = none) ∧
    ((zeroSegState.call 1 (.newShm 1 0 4096 false)).os.shmNames 0).isSome = true := by decide

/-- the hypothesis `hz` of the partial theorem, as a computable check -/
def nonZeroIfBound (g : G) (k : ShmKey) : Bool :=
  match g.os.shmNames k with
  | some s => decide ((g.os.segs s).bytes.length ≠ 0)
  | none => true

theorem nonZeroIfBound_spec (g : G) (k : ShmKey) (h : nonZeroIfBound g k = true) :
    ∀ s, g.os.shmNames k = some s → (g.os.segs s).bytes.length ≠ 0 := by
  intro s hs
  simp only [nonZeroIfBound, hs, decide_eq_true_eq] at h
  exact h

set_option maxRecDepth 100000 in
/-- every OTHER crash point of a first creation (kill after 0, 2, 3, 4, 5 system calls, or after the
    call has returned) satisfies that hypothesis, crash point 1 does not -/
theorem crash_points_of_creation :
    ([0, 2, 3, 4, 5, 6].all fun j => nonZeroIfBound (crashAt (G.init id) 0 (.newShm 0 0 64 false) j) 0) = true ∧
    nonZeroIfBound (crashAt (G.init id) 0 (.newShm 0 0 64 false) 1) 0 = false := by decide

/-! ## any interleaving: the follower's own system calls interleave with everybody else's

`MapInv` (who owns which mapping; address freshness) holds in every reachable state.  `KeyInv k s L`
("the segment of `k` exists": bound to `s` of `L` bytes, all live handles of `k` mapped to `s`, all
`p_shm_new (k)` in flight are followers that have only seen `s`, nobody is about to `ftruncate s`) is
established by a first creation and preserved by EVERY schedule without a `shm_unlink (k)` — which only
an owner free or a failing creator of `k` issues (`segment_exists_until_owner_free`). -/

/-- every state reachable from the initial one satisfies `MapInv` and `SegWF` -/
theorem reachable_invariants (pidOf : Tid → Pid) (as : List Action) :
    MapInv (execAll (G.init pidOf) as) ∧ SegWF (execAll (G.init pidOf) as) :=
  ⟨mapInv_reachable pidOf as, segWF_execAll as _ (segWF_init pidOf)⟩

/-- a first creation of `k` (no live handle of `k`, no `p_shm_new (k)` in flight) establishes the
    invariant, and any schedule without `shm_unlink (k)` keeps it — whatever `p_shm_new`, `p_shm_free`,
    lock, unlock, store or SIGKILL steps of whatever threads and processes it interleaves -/
theorem segment_exists_while_not_unlinked (g : G) (t : Tid) (h : Hid) (k : ShmKey) (size : Nat) (ro : Bool) (as : List Action)
    (hM : MapInv g) (hS : SegWF g) (hi : Idle g t) (hh : g.hs h = none) (hk : g.os.shmNames k = none) (hs : size ≠ 0)
    (hnoH : ∀ h' p y, g.hs h' = some (p, .shm y) → y.key ≠ k)
    (hnoF : ∀ t' hid st, g.calls t' = some (.shmNew hid st) → st.key ≠ k)
    (hq : NoShmUnlink k (g.call t (.newShm h k size ro)) as) :
    MapInv (execAll (g.call t (.newShm h k size ro)) as) ∧
    KeyInv k g.os.nextSeg size (execAll (g.call t (.newShm h k size ro)) as) :=
  keyInv_execAll k _ size as _ (mapInv_call g t _ [] hM)
    (keyInv_after_creation g t h k size ro hM hS hi hh hk hs hnoH hnoF) hq

/-- **same_name_same_bytes, any interleaving.**  While the segment of `k` exists (`MapInv ∧ KeyInv` at
    `g0`, e.g. from `segment_exists_while_not_unlinked`) and for every schedule `as` without a
    `shm_unlink (k)`: ANY two live handles of `k` in the resulting state — whenever and by whichever
    interleaved `p_shm_new` calls of whichever threads / processes they were opened — address the same
    memory: a byte stored through one is loaded through the other at every offset below both sizes. -/
theorem same_name_same_bytes_interleaved (k : ShmKey) (s : SegId) (L : Nat) (g0 : G) (as : List Action)
    (hM : MapInv g0) (hK : KeyInv k s L g0) (hq : NoShmUnlink k g0 as)
    (ta tb : Tid) (ha hb : Hid) (ya yb : PShm) (off : Nat) (b : UInt8) :
    let g := execAll g0 as
    Idle g ta → Idle g tb → g.hs ha = some (g.pidOf ta, .shm ya) → g.hs hb = some (g.pidOf tb, .shm yb) →
    ya.key = k → yb.key = k → ya.ro = false → off < ya.size → off < yb.size →
    ((g.call ta (.wr ha off b)).call tb (.rd hb off)).ret tb = some (.byte b) := by
  intro g ia ib hha hhb ka kb hrw la lb
  obtain ⟨hM', hK'⟩ := keyInv_execAll k s L as g0 hM hK hq
  exact handles_share_bytes k s L g hM' hK' ta tb ha hb ya yb off b ia ib hha hhb ka kb hrw la lb

/-- **no_fault_below_size, any interleaving**: every offset below `p_shm_get_size` of every live handle of
    `k` is inside its mapping and inside the object, and the reported size never exceeds the segment's -/
theorem no_fault_below_size_interleaved (k : ShmKey) (s : SegId) (L : Nat) (g0 : G) (as : List Action)
    (hM : MapInv g0) (hK : KeyInv k s L g0) (hq : NoShmUnlink k g0 as)
    (h : Hid) (p : Pid) (y : PShm) (off : Nat) :
    (execAll g0 as).hs h = some (p, .shm y) → y.key = k → off < y.size →
    y.size ≤ L ∧ ∃ b, (execAll g0 as).os.load p y.addr off = .val b := by
  intro hy hk ho
  obtain ⟨hM', hK'⟩ := keyInv_execAll k s L as g0 hM hK hq
  exact ⟨(hK'.handles h p y hy hk).1, handle_no_fault k s L _ hM' hK' h p y hy hk off ho⟩

/-- **unmap_exact, any interleaving**: in every reachable state the `munmap` step of ANY `p_shm_free`
    in flight (any name, creator or follower, whatever else is running) removes exactly the one mapping
    that the handle's `p_shm_new` created — it exists, is the only one at that address, has exactly the
    handle's size — and no other mapping of any process -/
theorem unmap_exact_interleaved (pidOf : Tid → Pid) (as : List Action) (t : Tid) (i : Bool) (st : ShmFreeSt) :
    let g := execAll (G.init pidOf) as
    g.calls t = some (.shmFree st) → st.pc = .munmap →
    ∃ m, m ∈ (g.os.procs (g.pidOf t)).maps ∧ m.addr = st.h.addr ∧ m.len = st.h.size ∧
      (∀ m' ∈ (g.os.procs (g.pidOf t)).maps, m'.addr = st.h.addr → m' = m) ∧
      ((g.step t i).os.procs (g.pidOf t)).maps = (g.os.procs (g.pidOf t)).maps.filter (fun m' => decide (m'.addr ≠ st.h.addr)) ∧
      ∀ q, q ≠ g.pidOf t → ((g.step t i).os.procs q).maps = (g.os.procs q).maps := by
  intro g hc hpc
  exact free_unmaps_exactly g t i st (mapInv_reachable pidOf as) hc hpc

/-- address freshness is an invariant of the `mmap` model: in every reachable state every mapping of a
    process lies below its next address, and no two mappings share an address -/
theorem address_freshness (pidOf : Tid → Pid) (as : List Action) (p : Pid) :
    (∀ m ∈ ((execAll (G.init pidOf) as).os.procs p).maps, m.addr < ((execAll (G.init pidOf) as).os.procs p).nextAddr) ∧
    (((execAll (G.init pidOf) as).os.procs p).maps.map (·.addr)).Nodup :=
  ⟨fun m hm => (mapInv_reachable pidOf as).claims.fresh p m hm, (mapInv_reachable pidOf as).claims.nodup p⟩

/-! ## EINTR (cited by C19) -/

theorem shm_lock_eintr_transparent (g : G) (t : Tid) (h : Hid) (script : List Nat) :
    (g.call t (.lock h) script).Same (g.call t (.lock h) []) :=
  eintr_transparent g t (.lock h) script

theorem shm_open_eintr_transparent (g : G) (t : Tid) (h : Hid) (k : ShmKey) (size : Nat) (ro : Bool) (script : List Nat) :
    (g.call t (.newShm h k size ro) script).Same (g.call t (.newShm h k size ro) []) :=
  eintr_transparent g t (.newShm h k size ro) script

/-! ## the lock -/

/-- a sequential first creation leaves all lock handles of the name agreeing on one object of value 1 -/
theorem creation_establishes_lock (g : G) (t : Tid) (h : Hid) (k : ShmKey) (size : Nat) (ro : Bool)
    (hi : Idle g t) (hh : g.hs h = none) (hk : g.os.shmNames k = none) (hs : size ≠ 0)
    (hnone : ∀ h' p x, g.hs h' = some (p, x) → ¬ (match x with | .sem z => z.key = .lock k | .shm z => z.sem.key = .lock k)) :
    let g' := g.call t (.newShm h k size ro)
    Agree (.lock k) g.os.nextObj g' ∧ (g'.os.sems g.os.nextObj).value = 1 ∧ g.os.nextObj < g'.os.nextObj := by
  simp only
  have key : ∀ g' : G, g'.os.semNames (.lock k) = some g.os.nextObj →
      g'.hs = (fun h' => if h' = h then some (g.pidOf t, .shm (creatorHandle g t k size ro)) else g.hs h') →
      Agree (.lock k) g.os.nextObj g' := by
    intro g' hn hhs
    refine ⟨hn, ?_, ?_⟩
    · intro h' p x hx hkx
      rw [hhs] at hx
      dsimp only at hx
      split at hx
      · simp at hx
      · exact absurd hkx (hnone h' p (.sem x) hx)
    · intro h' p y hy hky
      rw [hhs] at hy
      dsimp only at hy
      split at hy
      · simp only [Option.some.injEq, Prod.mk.injEq, Handle.shm.injEq] at hy
        rw [← hy.2]; rfl
      · exact absurd hky (hnone h' p (.shm y) hy)
  cases hl : g.os.semNames (.lock k) with
  | none =>
    have c := call_newShm_fresh g t h k size ro hi hh hk hl hs
    refine ⟨key _ (by rw [c.1]; simp [OS.semCreate, OS.afterShmNew, OS.shmCreate]) c.2.1, by rw [c.1]; simp [OS.semCreate, OS.afterShmNew, OS.shmCreate],
      by rw [c.1]; simp [OS.semCreate, OS.afterShmNew, OS.shmCreate]⟩
  | some ol =>
    have c := call_newShm_fresh_stale_lock g t h k size ro ol hi hh hk hl hs
    refine ⟨key _ (by rw [c.1]; simp [OS.semCreate, OS.semRemove, OS.afterShmNew, OS.shmCreate]) c.2.1,
      by rw [c.1]; simp [OS.semCreate, OS.semRemove, OS.afterShmNew, OS.shmCreate],
      by rw [c.1]; simp [OS.semCreate, OS.semRemove, OS.afterShmNew, OS.shmCreate]⟩

/-- `p_shm_lock` / `p_shm_unlock` through ALL handles of a name — in any thread or process, for
    EVERY interleaving, handles opened at any time by calls that are OPEN-mode on the lock (i.e. by
    followers: `QuietRun (.lock k)`) — act on one object: every such handle's lock is `o`, and the
    number of successful locks minus unlocks since a state with value 1 never exceeds 1.
    (C06 `k_exclusion` with v = 1.)  The hypotheses hold after a sequential creation
    (`creation_establishes_lock`); with two concurrent first creators they do not (F11 b). -/
theorem lock_is_mutex (k : ShmKey) (o : ObjId) (g : G) (as : List Action)
    (hA : Agree (.lock k) o g) (hv : (g.os.sems o).value = 1) (ho : o < g.os.nextObj) (hq : QuietRun (.lock k) g as) :
    Agree (.lock k) o (execAll g as) ∧
    (∀ h p y, (execAll g as).hs h = some (p, .shm y) → y.key = k → y.sem.key = .lock k →
        acquireNext y.sem = .semWait o ∧ releaseNext y.sem = .semPost o) ∧
    acquired o (execAll g as).log - acquired o g.log ≤ 1 + (released o (execAll g as).log - released o g.log) := by
  have hA' := agree_execAll (.lock k) o as g hA hq
  refine ⟨hA', ?_, ?_⟩
  · intro h p y hy _ hky
    have := hA'.2.2 h p y hy hky
    simp [acquireNext, releaseNext, this]
  · have h := (counter_execAll o as g ho).1
    have mono : ∀ (as : List Action) (g : G), acquired o g.log ≤ acquired o (execAll g as).log ∧
        released o g.log ≤ released o (execAll g as).log := by
      intro as
      induction as with
      | nil => intro g; exact ⟨Nat.le_refl _, Nat.le_refl _⟩
      | cons a as ih =>
        intro g
        have h2 := ih (exec g a)
        have h1 : acquired o g.log ≤ acquired o (exec g a).log ∧ released o g.log ≤ released o (exec g a).log := by
          cases a with
          | start t op => simp only [exec]; rw [start_log]; exact ⟨Nat.le_refl _, Nat.le_refl _⟩
          | kill p => exact ⟨Nat.le_refl _, Nat.le_refl _⟩
          | fail t e =>
            simp only [exec]
            cases hc : g.calls t with
            | none => rw [fail_none g t e hc]; exact ⟨Nat.le_refl _, Nat.le_refl _⟩
            | some c =>
              rw [fail_log g t e c hc]
              simp only [acquired, released, List.filter_cons]
              constructor <;> split <;> simp
          | step t i =>
            simp only [exec]
            cases hc : g.calls t with
            | none => rw [step_none g t i hc]; exact ⟨Nat.le_refl _, Nat.le_refl _⟩
            | some c =>
              rw [step_log g t i c hc]
              simp only [acquired, released, List.filter_cons]
              constructor <;> split <;> simp
        simp only [execAll, List.foldl_cons] at h2 ⊢
        exact ⟨Nat.le_trans h1.1 h2.1, Nat.le_trans h1.2 h2.2⟩
    have m := mono as g
    omega

/-! ### the lock as used by C08: lock-bracketed critical sections exclude each other -/

/-- **For C08.**  For EVERY schedule from a state in which all lock handles of name `k` agree on one
    object `o` of value 1 (what a sequential creation establishes: `creation_establishes_lock`) and in
    which no creator's CREATE-mode open / no owner's free of the lock is under way (`QuietRun (.lock k)`):
    reading the new part `evs` of the event log, if every `p_shm_unlock` is by a current holder
    (`Bracketed`: lock-bracketed critical sections, as every `pshmbuffer.c` operation is), then at most
    ONE thread — of any process — is between a successful `p_shm_lock` and its `p_shm_unlock`
    (`holders o evs` has length ≤ 1), and every live handle of `k` locks / unlocks exactly `o`. -/
theorem at_most_one_in_critical_section (k : ShmKey) (o : ObjId) (g : G) (as : List Action)
    (hA : Agree (.lock k) o g) (hv : (g.os.sems o).value = 1) (ho : o < g.os.nextObj) (hq : QuietRun (.lock k) g as) :
    ∃ evs, (execAll g as).log = evs ++ g.log ∧
      (Bracketed o evs → (holders o evs).length ≤ 1 ∧ ∀ t1 t2, t1 ∈ holders o evs → t2 ∈ holders o evs → t1 = t2) ∧
      (∀ h p y, (execAll g as).hs h = some (p, .shm y) → y.sem.key = .lock k →
        acquireNext y.sem = .semWait o ∧ releaseNext y.sem = .semPost o) := by
  obtain ⟨evs, hevs⟩ := execAll_log_suffix as g
  have hA' := agree_execAll (.lock k) o as g hA hq
  refine ⟨evs, hevs, ?_, ?_⟩
  · intro hb
    have hc := (counter_execAll o as g ho).1
    rw [hevs, acquired_append, released_append, hv] at hc
    have hcount := holders_count o evs hb
    have hlen : (holders o evs).length ≤ 1 := by omega
    refine ⟨hlen, ?_⟩
    intro t1 t2 h1 h2
    match hh : holders o evs, hlen, h1, h2 with
    | [], _, h1, _ => cases h1
    | [x], _, h1, h2 =>
      simp only [List.mem_singleton] at h1 h2
      rw [h1, h2]
    | _ :: _ :: _, hl, _, _ => simp at hl
  · intro h p y hy hky
    have := hA'.2.2 h p y hy hky
    simp [acquireNext, releaseNext, this]

/-- … from a first creation on: the hypotheses above hold right after a sequential `p_shm_new` that
    created `k` while no lock handle of `k` was live -/
theorem critical_sections_after_creation (g : G) (t : Tid) (h : Hid) (k : ShmKey) (size : Nat) (ro : Bool) (as : List Action)
    (hi : Idle g t) (hh : g.hs h = none) (hk : g.os.shmNames k = none) (hs : size ≠ 0)
    (hnone : ∀ h' p x, g.hs h' = some (p, x) → ¬ (match x with | .sem z => z.key = .lock k | .shm z => z.sem.key = .lock k))
    (hq : QuietRun (.lock k) (g.call t (.newShm h k size ro)) as) :
    ∃ evs, (execAll (g.call t (.newShm h k size ro)) as).log = evs ++ (g.call t (.newShm h k size ro)).log ∧
      (Bracketed g.os.nextObj evs → (holders g.os.nextObj evs).length ≤ 1) := by
  obtain ⟨hA, hv, ho⟩ := creation_establishes_lock g t h k size ro hi hh hk hs hnone
  obtain ⟨evs, h1, h2, _⟩ := at_most_one_in_critical_section k g.os.nextObj _ as hA hv ho hq
  exact ⟨evs, h1, fun hb => (h2 hb).1⟩

/-- PShm structs and shm calls only ever address the lock key of their own name — in every reachable
    state; so they are `quiet` for every user semaphore key, and `QuietRun (.user n)` (C06) is a
    condition on the `p_semaphore_new` / `p_semaphore_free` calls alone -/
theorem shm_calls_never_touch_user_keys (pidOf : Tid → Pid) (as : List Action) (n : Nat) :
    SemKeyWF (execAll (G.init pidOf) as) ∧
    ((∀ t c, (execAll (G.init pidOf) as).calls t = some c →
        (∀ hid s, c = .semNew hid s → ¬ s.mayUnlink (.user n)) ∧ (∀ s, c = .semFree s → ¬ s.mayUnlink (.user n))) →
      Quiet (.user n) (execAll (G.init pidOf) as)) :=
  ⟨semKeyWF_execAll as _ (semKeyWF_init pidOf), quiet_user _ (semKeyWF_execAll as _ (semKeyWF_init pidOf)) n⟩

/-! ## concurrent first-time creation (F11) -/

/-- schedule of two threads: `true` = thread 0 makes its next system call, `false` = thread 1 -/
def sched (s : List Bool) : List Action := s.map fun b => if b then Action.step 0 false else Action.step 1 false

/-- two processes have just called `p_shm_new (name 0, size)` for the first time -/
def raceStart (size : Nat) : G :=
  ((G.init id).start 0 (.newShm 0 0 size false)).start 1 (.newShm 1 0 size false)

/-- both calls returned a handle, and the two handles share segment and lock semaphore -/
def raceOK (g : G) : Bool :=
  (segOf g 0).isSome && (segOf g 1).isSome && decide (segOf g 0 = segOf g 1) &&
  (lockOf g 0).isSome && decide (lockOf g 0 = lockOf g 1) && decide (g.calls 0 = none) && decide (g.calls 1 = none)

/-
  FULL STATEMENT (false of the code — F11):

  theorem first_open_race (s : List Bool) (hs : s is an interleaving of all system calls of the two calls) :
      raceOK (execAll (raceStart size) (sched s)) = true

  Window (a): the follower's `fstat` runs between the creator's `shm_open` and `ftruncate`: it sees
  size 0, `mmap` of length 0 fails (EINVAL), `p_shm_new` returns NULL although the segment is being created.
  Window (b): the follower's exclusive `sem_open` of the lock runs before the creator's: the follower
  creates the lock, the creator's CREATE-mode `p_semaphore_new` unlinks it and makes a second one:
  both calls succeed and the two handles lock DIFFERENT semaphores.
-/

def tt : Bool := true
def ff : Bool := false

/-- window (a), exhibited: a b b b a a a a b b b b -/
def witnessA : List Bool := [tt, ff, ff, ff, tt, tt, tt, tt, ff, ff, ff, ff]
/-- window (b), exhibited: a a a a b b b b b b a a a -/
def witnessB : List Bool := [tt, tt, tt, tt, ff, ff, ff, ff, ff, ff, tt, tt, tt]

set_option maxRecDepth 100000 in
/-- negation of `first_open_race`, window (a): the follower fails with EINVAL while the creator succeeds -/
theorem first_open_race_false_a :
    (execAll (raceStart 4096) (sched witnessA)).ret 1 = some (.fail .EINVAL) ∧
    (segOf (execAll (raceStart 4096) (sched witnessA)) 0).isSome = true ∧
    raceOK (execAll (raceStart 4096) (sched witnessA)) = false := by decide

set_option maxRecDepth 100000 in
/-- negation of `first_open_race`, window (b): both succeed, same segment, two different lock semaphores
    (each of value 1: both processes can hold "the" lock at once) -/
theorem first_open_race_false_b :
    segOf (execAll (raceStart 4096) (sched witnessB)) 0 = segOf (execAll (raceStart 4096) (sched witnessB)) 1 ∧
    lockOf (execAll (raceStart 4096) (sched witnessB)) 0 = some 1 ∧
    lockOf (execAll (raceStart 4096) (sched witnessB)) 1 = some 0 ∧
    ((execAll (raceStart 4096) (sched witnessB)).os.sems 0).value = 1 ∧
    ((execAll (raceStart 4096) (sched witnessB)).os.sems 1).value = 1 ∧
    raceOK (execAll (raceStart 4096) (sched witnessB)) = false := by decide

/-- all schedules of length `len` in which thread 0 makes exactly `m` steps -/
def interleavings : Nat → Nat → List (List Bool)
  | 0, 0 => [[]]
  | 0, _ + 1 => []
  | len + 1, 0 => (interleavings len 0).map (false :: ·)
  | len + 1, m + 1 => ((interleavings len m).map (true :: ·)) ++ ((interleavings len (m + 1)).map (false :: ·))

theorem mem_interleavings (s : List Bool) : s ∈ interleavings s.length (s.count true) := by
  induction s with
  | nil => simp [interleavings]
  | cons b s ih =>
    cases b
    · simp only [List.length_cons, List.count_cons_of_ne (by decide : (false : Bool) ≠ true)]
      cases hm : s.count true with
      | zero =>
        rw [hm] at ih
        simp only [interleavings, List.mem_map]
        exact ⟨s, ih, rfl⟩
      | succ m =>
        rw [hm] at ih
        simp only [interleavings, List.mem_append, List.mem_map]
        right; exact ⟨s, ih, rfl⟩
    · simp only [List.length_cons, List.count_cons_self]
      simp only [interleavings, List.mem_append, List.mem_map]
      left; exact ⟨s, ih, rfl⟩

/-- position (0-based) of the `n`-th (1-based) occurrence of `b` -/
def posOf (b : Bool) : Nat → List Bool → Nat
  | _, [] => 0
  | n, x :: xs => if x = b then (if n ≤ 1 then 0 else 1 + posOf b (n - 1) xs) else 1 + posOf b n xs

/-- thread 0 is the creator (5 system calls), thread 1 the follower (7); the schedule avoids both
    windows: the creator's `ftruncate` (its 2nd call) precedes the follower's `fstat` (its 3rd), and
    the creator's `sem_open` (its 5th) precedes the follower's first `sem_open` (its 6th) -/
def avoidsWindows (s : List Bool) : Bool :=
  decide (s.head? = some true) && decide (posOf true 2 s < posOf false 3 s) && decide (posOf true 5 s < posOf false 6 s)

set_option maxRecDepth 1000000 in
theorem race_enumerated :
    ((interleavings 12 5).all fun s => !avoidsWindows s || raceOK (execAll (raceStart 4096) (sched s))) = true := by
  decide +kernel

/-- For EVERY interleaving of the creator's 5 and the follower's 7 system calls that avoids the two
    windows, both `p_shm_new` calls succeed and the handles share segment AND lock semaphore. -/
theorem first_open_race_partial (s : List Bool) (h5 : s.count true = 5) (h7 : s.count false = 7)
    (hw : avoidsWindows s = true) : raceOK (execAll (raceStart 4096) (sched s)) = true := by
  have hm := mem_interleavings s
  have hlen : s.length = 12 := by
    have := List.length_eq_countP_add_countP (l := s) (· == true)
    have e1 : List.countP (fun x => x == true) s = s.count true := by simp [List.count]
    have e2 : List.countP (fun a => decide ¬(a == true) = true) s = s.count false := by
      simp only [List.count]; congr 1; funext a; cases a <;> rfl
    omega
  rw [h5, hlen] at hm
  have := List.all_eq_true.mp race_enumerated s hm
  simpa [hw] using this

/-! ## non-vacuity -/

/-- a state with a live segment: process 0 has created name 0 with 64 bytes -/
def demo : G := (G.init id).call 0 (.newShm 0 0 64 false)

set_option maxRecDepth 100000 in
/-- hypotheses of `same_name_same_bytes`, `follower_size`, `no_fault_below_size`, `unmap_exact`
    (follower case), `owner_free_removes`, `crash_recoverable_shm_partial`, `lock_is_mutex` hold in `demo` -/
example :
    demo.os.shmNames 0 = some 0 ∧ (demo.os.segs 0).bytes.length = 64 ∧ demo.os.semNames (.lock 0) = some 0 ∧
    (demo.os.sems 0).value = 1 ∧ demo.os.nextObj = 1 ∧
    (demo.os.procs (demo.pidOf 1)).alive = true ∧ demo.calls 1 = none ∧ demo.calls 2 = none ∧
    demo.hs 1 = none ∧ demo.hs 2 = none ∧ nonZeroIfBound demo 0 = true ∧
    (demo.os.procs (demo.pidOf 1)).maps = [] ∧
    demo.hs 0 = some (0, .shm ⟨true, 0, 1, 64, ⟨true, .lock 0, 0, .create, 1⟩, false⟩) := by decide

/-- hypotheses of `creator_size_exact` / `creation_establishes_lock` / `unmap_exact` (creator case) hold initially -/
example : Idle (G.init id) 0 ∧ (G.init id).hs 0 = none ∧ (G.init id).os.shmNames 0 = none ∧
    (G.init id).os.semNames (.lock 0) = none := ⟨⟨rfl, rfl⟩, rfl, rfl, rfl⟩

set_option maxRecDepth 1000000 in
/-- `first_open_race_partial` is not vacuous: 111 of the 792 interleavings of 5 + 7 steps have
    thread 0 first and avoid both windows -/
example : (interleavings 12 5).length = 792 ∧ ((interleavings 12 5).filter avoidsWindows).length = 111 := by
  decide +kernel

/-- `QuietRun` on the lock is satisfiable with real work: a follower in the middle of its `p_shm_new`
    (OPEN mode on the lock) is quiet -/
example : ∀ st : SemNewSt, st.mode = .open → st.pc = .excl → Call.quiet (.lock 0) (.shmNew 1 { key := 0, req := 0, ro := false, size := 0, pc := .sem st }) := by
  intro st hm hp
  simp [Call.quiet, SemNewSt.mayUnlink, hm, hp]

/-- `Bracketed` / `holders` are not vacuous: lock by thread 1, unlock by thread 1, lock by thread 2 -/
example :
    Bracketed 0 [⟨2, 2, .semWait 0, .ok 0⟩, ⟨1, 1, .semPost 0, .ok 0⟩, ⟨1, 1, .semWait 0, .ok 0⟩] ∧
    holders 0 [⟨2, 2, .semWait 0, .ok 0⟩, ⟨1, 1, .semPost 0, .ok 0⟩, ⟨1, 1, .semWait 0, .ok 0⟩] = [2] ∧
    holders 0 [⟨1, 1, .semWait 0, .ok 0⟩] = [1] := by
  simp [Bracketed, holders, isAcq, isRel]

/-! ### a lock semaphore re-created by a follower after a creator crash (finding) -/

/-
  FULL STATEMENT (false of the code):

  theorem lock_is_mutex_while_segment_exists : for every schedule without an owner free of the segment
      name `k` (no `shm_unlink (k)`), SIGKILLs included, all live handles of `k` lock ONE semaphore.

  It fails after a creator is killed between `close` and its `p_semaphore_new` (crash points 3 and 4 of
  `p_shm_new`): the segment exists without a lock semaphore; the next follower's OPEN-mode
  `p_semaphore_new` creates it and therefore has `sem_created = TRUE`; when that follower — not an owner
  of the segment — frees its handle, `pp_semaphore_clean_handle` unlinks the lock name while the segment
  and the other handles live on; the next opener creates a SECOND lock semaphore.  `lock_is_mutex` /
  `at_most_one_in_critical_section` exclude it through `QuietRun (.lock k)` (that `p_shm_free` is a call
  that may unlink the lock key).
-/

/-- the witness: creator (process 0) killed after 4 system calls; followers 1 and 2 open; 1 frees; 3 opens -/
def lockLostWitness : G :=
  let g0 := (List.replicate 4 (Action.step 0 false)).foldl exec ((G.init id).start 0 (.newShm 0 0 64 false))
  let g1 := g0.kill 0
  let g2 := (g1.call 1 (.newShm 1 0 0 false)).call 2 (.newShm 2 0 0 false)
  let g3 := g2.call 1 (.free 1)
  g3.call 3 (.newShm 3 0 0 false)

set_option maxRecDepth 100000 in
/-- negation on the witness: no `shm_unlink` has happened and the segment name is still bound, handles 2
    and 3 map the same segment, but they hold DIFFERENT lock semaphores of value 1 each, and both
    `p_shm_lock` calls succeed at once -/
theorem follower_free_unlinks_lock_false :
    lockLostWitness.os.shmNames 0 = some 0 ∧
    (lockLostWitness.log.all fun e => decide (e.sys ≠ .shmUnlink 0)) = true ∧
    segOf lockLostWitness 2 = some 0 ∧ segOf lockLostWitness 3 = some 0 ∧
    lockOf lockLostWitness 2 = some 0 ∧ lockOf lockLostWitness 3 = some 1 ∧
    ((lockLostWitness.call 2 (.lock 2)).call 3 (.lock 3)).ret 2 = some .unit ∧
    ((lockLostWitness.call 2 (.lock 2)).call 3 (.lock 3)).ret 3 = some .unit := by decide

/-! ## failing system calls (the failure exits of `pp_shm_create_handle` and the clean-up)

`Action.fail t e` = the system call `t` is about to make is not performed and returns `-1 / errno = e`.  The invariants
`MapInv`, `KeyInv`, `SegWF`, `SemKeyWF`, `Agree` are preserved by it, so every `…_interleaved` theorem, `lock_is_mutex`,
`at_most_one_in_critical_section` and `address_freshness` above hold for schedules in which any system call of any call
fails.  The sequential theorems below (`G.callF`, failure script: index of the system call ↦ errno) say what a failed
`p_shm_new` leaves behind: exactly what was acquired so far is released — descriptor closed, mapping removed, a name the
call created itself unlinked again, a name it found untouched — and no handle exists. -/

/-- creator whose `ftruncate` fails: descriptor closed, name unlinked again, no mapping, no handle -/
theorem creator_ftruncate_failure_is_clean (g : G) (t : Tid) (h : Hid) (k : ShmKey) (size : Nat) (ro : Bool) (e : Errno)
    (hi : Idle g t) (hh : g.hs h = none) (hk : g.os.shmNames k = none) :
    let g' := g.callF t (.newShm h k size ro) [(1, e)]
    g'.os.shmNames k = none ∧ g'.os.semNames = g.os.semNames ∧ g'.hs = g.hs ∧ g'.ret t = some (.fail e) ∧ g'.calls t = none ∧
    (g'.os.procs (g.pidOf t)).maps = (g.os.procs (g.pidOf t)).maps ∧
    (g'.os.procs (g.pidOf t)).fds = (g.os.procs (g.pidOf t)).fds.filter (fun x => !decide (x.1 = (g.os.procs (g.pidOf t)).nextFd)) := by
  have c1 := shmCreat1
  fail_simp [hi.alive, hi.idle, hh, hk, c1]

/-- creator whose `mmap` fails -/
theorem creator_mmap_failure_is_clean (g : G) (t : Tid) (h : Hid) (k : ShmKey) (size : Nat) (ro : Bool) (e : Errno)
    (hi : Idle g t) (hh : g.hs h = none) (hk : g.os.shmNames k = none) :
    let g' := g.callF t (.newShm h k size ro) [(2, e)]
    g'.os.shmNames k = none ∧ g'.os.semNames = g.os.semNames ∧ g'.hs = g.hs ∧ g'.ret t = some (.fail e) ∧ g'.calls t = none ∧
    (g'.os.procs (g.pidOf t)).maps = (g.os.procs (g.pidOf t)).maps ∧
    (g'.os.procs (g.pidOf t)).fds = (g.os.procs (g.pidOf t)).fds.filter (fun x => !decide (x.1 = (g.os.procs (g.pidOf t)).nextFd)) := by
  have c1 := shmCreat1
  fail_simp [hi.alive, hi.idle, hh, hk, c1]

/-- creator whose lock semaphore cannot be created (its `sem_open` fails with anything but EINTR / EEXIST): the mapping is
    removed (no mapping at the address `mmap` returned), the name is unlinked again, no semaphore name appears -/
theorem creator_lock_failure_is_clean (g : G) (t : Tid) (h : Hid) (k : ShmKey) (size : Nat) (ro : Bool) (e : Errno)
    (hi : Idle g t) (hh : g.hs h = none) (hk : g.os.shmNames k = none) (hs : size ≠ 0) (h1 : e ≠ .EINTR) (h2 : e ≠ .EEXIST)
    (hfresh : ∀ m ∈ (g.os.procs (g.pidOf t)).maps, m.addr ≠ (g.os.procs (g.pidOf t)).nextAddr) :
    let g' := g.callF t (.newShm h k size ro) [(4, e)]
    g'.os.shmNames k = none ∧ g'.os.semNames = g.os.semNames ∧ g'.hs = g.hs ∧ g'.ret t = some (.fail e) ∧ g'.calls t = none ∧
    (g'.os.procs (g.pidOf t)).maps = (g.os.procs (g.pidOf t)).maps := by
  have c1 := shmCreat1
  have hm : ∀ l : List Mapping, (∀ m ∈ l, m.addr ≠ (g.os.procs (g.pidOf t)).nextAddr) →
      (l.flatMap fun m => if m.addr = (g.os.procs (g.pidOf t)).nextAddr then
          (if pages size ≥ pages m.len then [] else [{ m with addr := m.addr + pages size, off := m.off + pages size * pageSize, len := m.len - pages size * pageSize }])
        else [m]) = l := by
    intro l hl
    induction l with
    | nil => rfl
    | cons a l ih =>
      have ha := hl a (List.mem_cons_self)
      simp only [List.flatMap_cons, ha, if_false]
      rw [ih (fun m hm => hl m (List.mem_cons_of_mem _ hm))]; rfl
  cases e <;> simp at h1 h2 <;>
    (fail_simp [hi.alive, hi.idle, hh, hk, hs, c1, munmapF]
     exact hm _ hfresh)

/-- follower whose `fstat` fails: descriptor closed, nothing else changed -/
theorem follower_fstat_failure_is_clean (g : G) (t : Tid) (h : Hid) (k : ShmKey) (req : Nat) (ro : Bool) (s : SegId) (e : Errno)
    (hi : Idle g t) (hh : g.hs h = none) (hk : g.os.shmNames k = some s) :
    let g' := g.callF t (.newShm h k req ro) [(2, e)]
    g'.os.shmNames = g.os.shmNames ∧ g'.os.segs = g.os.segs ∧ g'.os.semNames = g.os.semNames ∧ g'.hs = g.hs ∧
    g'.ret t = some (.fail e) ∧ g'.calls t = none ∧ (g'.os.procs (g.pidOf t)).maps = (g.os.procs (g.pidOf t)).maps := by
  have c1 := shmExcl1
  have c2 := shmPlain2
  fail_simp [hi.alive, hi.idle, hh, hk, c1, c2]

/-- an owner's `p_shm_free` whose `munmap` fails: the clean-up goes on, segment name and lock name are removed -/
theorem owner_free_goes_on_after_munmap_failure (g : G) (t : Tid) (h : Hid) (y : PShm) (s : SegId) (ol : ObjId) (e : Errno) (hi : Idle g t)
    (hh : g.hs h = some (g.pidOf t, .shm y)) (hc : y.created = true) (hsc : y.sem.created = true)
    (hk : g.os.shmNames y.key = some s) (hl : g.os.semNames y.sem.key = some ol) :
    let g' := g.callF t (.free h) [(0, e)]
    g'.os.shmNames y.key = none ∧ g'.os.semNames y.sem.key = none ∧ g'.hs h = none ∧ g'.calls t = none ∧
    (g'.os.procs (g.pidOf t)).maps = (g.os.procs (g.pidOf t)).maps := by
  fail_simp [hi.alive, hi.idle, hh, hc, hsc, hk, hl]


/-- non-vacuity: hypotheses are satisfiable (initial state), and the concrete runs -/
example := creator_ftruncate_failure_is_clean (G.init id) 0 0 0 4096 false .ENOMEM ⟨rfl, rfl⟩ rfl rfl
example := creator_mmap_failure_is_clean (G.init id) 0 0 0 4096 false .ENOMEM ⟨rfl, rfl⟩ rfl rfl
example := creator_lock_failure_is_clean (G.init id) 0 0 0 4096 false .EMFILE ⟨rfl, rfl⟩ rfl rfl (by decide) (by decide) (by decide)
          (by intro m hm; cases hm)
example : let g := ((G.init id).call 0 (.newShm 0 0 64 false)).callF 1 (.newShm 1 0 16 false) [(2, .EACCES)]
    g.ret 1 = some (.fail .EACCES) ∧ g.hs 1 = none ∧ g.os.shmNames 0 = some 0 ∧ (g.os.procs 1).maps = [] ∧ (g.os.procs 1).fds = [] := by decide
example : let g := ((G.init id).call 0 (.newShm 0 0 64 false)).callF 0 (.free 0) [(0, .EINVAL)]
    g.os.shmNames 0 = none ∧ g.os.semNames (.lock 0) = none ∧ (g.os.procs 0).maps.length = 1 := by decide
/-- every close site: a failing `close` is only a warning, the call goes on (success at site 4, failure paths at 1-3) -/
example : ((G.init id).callF 0 (.newShm 0 0 64 false) [(3, .EBADF)]).ret 0 = some (.shm ⟨true, 0, 1, 64, ⟨true, .lock 0, 0, .create, 1⟩, false⟩) ∧
    ((G.init id).callF 0 (.newShm 0 0 64 false) [(1, .ENOMEM), (2, .EBADF)]).ret 0 = some (.fail .ENOMEM) ∧
    (((G.init id).callF 0 (.newShm 0 0 64 false) [(1, .ENOMEM), (2, .EBADF)]).os.shmNames 0) = none := by decide
example := mapInv_reachable id [.start 0 (.newShm 0 0 64 false), .step 0 false, .fail 0 .ENOMEM, .step 0 false, .fail 0 .EACCES]

/-! ### non-vacuity of the interleaved theorems -/

/-- computable form of `NoShmUnlink` -/
def noShmUnlinkB (k : ShmKey) : G → List Action → Bool
  | _, [] => true
  | g, a :: as =>
    (match a with
     | .step t _ => (match g.calls t with
                     | some c => decide (c.next ≠ .shmUnlink k)
                     | none => true)
     | _ => true) && noShmUnlinkB k (exec g a) as

theorem noShmUnlinkB_spec (k : ShmKey) (as : List Action) : ∀ g, noShmUnlinkB k g as = true → NoShmUnlink k g as := by
  induction as with
  | nil => intro g _; trivial
  | cons a as ih =>
    intro g h
    simp only [noShmUnlinkB, Bool.and_eq_true] at h
    refine ⟨?_, ih _ h.2⟩
    cases a with
    | step t i =>
      intro c hc
      have h1 := h.1
      simp only [hc, decide_eq_true_eq] at h1
      exact h1
    | start t op => trivial
    | kill p => trivial
    | fail t e => trivial

/-- process 0 has created name 0 (64 bytes); then processes 1 and 2 open it (16 bytes / whole segment)
    with their system calls strictly alternating, while process 0 stores a byte in between -/
def interleavedOpens : List Action :=
  [.start 1 (.newShm 1 0 16 false), .start 2 (.newShm 2 0 0 false),
   .step 1 false, .step 2 false, .step 1 false, .start 0 (.wr 0 3 7), .step 2 false, .step 1 false, .step 2 false,
   .step 1 false, .step 2 false, .step 1 false, .step 2 false, .step 1 false, .step 2 false, .step 1 false, .step 2 false]

set_option maxRecDepth 100000 in
/-- the hypotheses of `segment_exists_while_not_unlinked` / `same_name_same_bytes_interleaved` /
    `no_fault_below_size_interleaved` hold for this run, both followers got their handles, and the
    handles are of different reported sizes -/
example :
    (G.init id).hs 0 = none ∧ (G.init id).os.shmNames 0 = none ∧
    noShmUnlinkB 0 ((G.init id).call 0 (.newShm 0 0 64 false)) interleavedOpens = true ∧
    (execAll ((G.init id).call 0 (.newShm 0 0 64 false)) interleavedOpens).hs 1 =
      some (1, .shm ⟨false, 0, 1, 16, ⟨false, .lock 0, 0, .open, 1⟩, false⟩) ∧
    (execAll ((G.init id).call 0 (.newShm 0 0 64 false)) interleavedOpens).hs 2 =
      some (2, .shm ⟨false, 0, 1, 64, ⟨false, .lock 0, 0, .open, 1⟩, false⟩) ∧
    (execAll ((G.init id).call 0 (.newShm 0 0 64 false)) interleavedOpens).calls 1 = none ∧
    (execAll ((G.init id).call 0 (.newShm 0 0 64 false)) interleavedOpens).calls 2 = none := by decide

/-- the state after that run -/
def afterInterleavedOpens : G := execAll ((G.init id).call 0 (.newShm 0 0 64 false)) interleavedOpens

set_option maxRecDepth 100000 in
theorem afterInterleavedOpens_facts :
    noShmUnlinkB 0 ((G.init id).call 0 (.newShm 0 0 64 false)) interleavedOpens = true ∧
    afterInterleavedOpens.hs 1 = some (afterInterleavedOpens.pidOf 1, .shm ⟨false, 0, 1, 16, ⟨false, .lock 0, 0, .open, 1⟩, false⟩) ∧
    afterInterleavedOpens.hs 2 = some (afterInterleavedOpens.pidOf 2, .shm ⟨false, 0, 1, 64, ⟨false, .lock 0, 0, .open, 1⟩, false⟩) ∧
    (afterInterleavedOpens.os.procs (afterInterleavedOpens.pidOf 1)).alive = true ∧ afterInterleavedOpens.calls 1 = none ∧
    (afterInterleavedOpens.os.procs (afterInterleavedOpens.pidOf 2)).alive = true ∧ afterInterleavedOpens.calls 2 = none := by
  decide

/-- … and the general theorem applies to it: what process 1 stores at offset 5 is what process 2 loads -/
example (b : UInt8) :
    ((afterInterleavedOpens.call 1 (.wr 1 5 b)).call 2 (.rd 2 5)).ret 2 = some (.byte b) := by
  have hinit := reachable_invariants id []
  obtain ⟨f0, f1, f2, f3, f4, f5, f6⟩ := afterInterleavedOpens_facts
  have hex := segment_exists_while_not_unlinked (G.init id) 0 0 0 64 false interleavedOpens hinit.1 hinit.2 ⟨rfl, rfl⟩ rfl rfl
    (by decide) (by intro h' p y hy; simp [G.init] at hy) (by intro t' hid st hc; simp [G.init] at hc)
    (noShmUnlinkB_spec 0 _ _ f0)
  exact same_name_same_bytes_interleaved 0 _ 64 afterInterleavedOpens [] hex.1 hex.2 trivial 1 2 1 2
    ⟨false, 0, 1, 16, ⟨false, .lock 0, 0, .open, 1⟩, false⟩ ⟨false, 0, 1, 64, ⟨false, .lock 0, 0, .open, 1⟩, false⟩ 5 b
    ⟨f3, f4⟩ ⟨f5, f6⟩ f1 f2 rfl rfl rfl (by decide) (by decide)

end PV.IPC.C07
